import EosModel.WorldMicro
/-! Executable read for the message-level model: what `attrs[a]` does — return a cached value, or
calculate it (reading, hence caching, what the calculation reads, in the order `__calculate` and
`get_modifications` do) and cache it.  Used by `Driver/Micro.lean` for the cache-level correspondence. -/
namespace Eos.Micro
open Eos.World Eos.Calc

variable (u : Universe) (immune limited : List Int) (pen : Nat → Rat)

def readNode : Nat → Config → Dyn → Cache → Item → Int → Cache × Val
  | 0, _, _, K, _, _ => (K, .notWF)
  | f + 1, cfg, d, K, y, a =>
    if y.kind == .skill && a == 280 then (K, match y.level with | some l => .ok l | none => .absent)
    else match attrMeta? u a with
    | none => (K, .absent)
    | some am =>
      match K (y.id, a) with
      | some v => (K, .ok v)
      | none =>
        match typeOf? u d y with
        | none => (K, .absent)
        | some ty =>
          match baseOf ty am with
          | none => (K, .absent)
          | some b =>
            -- get_modifications: source value first, the resistance only when the source has a value
            let g := (specsOn u cfg d y ty am.id).foldl (init := ((K, Except.ok []) : Cache × Except Val (List Mod)))
              fun (st : Cache × Except Val (List Mod)) sp =>
                match st.2 with
                | .error _ => st
                | .ok l =>
                  let r1 := readNode f cfg d st.1 sp.a sp.m.srcAttr
                  match r1.2 with
                  | .absent => (r1.1, .ok l)
                  | .ok v =>
                    let mk (rr : Rat) : Mod :=
                      { op := sp.m.op, value := v, resist := rr, agg := sp.m.agg, aggKey := sp.m.aggKey,
                        immune := immuneOf u d immune sp.a }
                    (match resistRead cfg sp.e y with
                    | none => (r1.1, .ok (l ++ [mk 1]))
                    | some (c, r) =>
                      let r2 := readNode f cfg d r1.1 c r
                      match r2.2 with
                      | .ok rr => (r2.1, .ok (l ++ [mk rr]))
                      | .absent => (r2.1, .ok (l ++ [mk 1]))
                      | e => (r2.1, .error e))
                  | e => (r1.1, .error e)
            match g.2 with
            | .error e => (g.1, e)
            | .ok mods =>
              -- normalisation (hence a division by zero) happens before the cap attribute is read
              match normAll am.stackable mods with
              | .error _ => (g.1, .divZero)
              | .ok _ =>
              let c : Cache × Except Val (Option Rat) := match am.maxAttr with
                | none => (g.1, .ok none)
                | some mx =>
                  let r3 := readNode f cfg d g.1 y mx
                  match r3.2 with
                  | .ok cv => (r3.1, .ok (some cv))
                  | .absent => (r3.1, .ok none)
                  | e => (r3.1, .error e)
              match c.2 with
              | .error e => (c.1, e)
              | .ok cap =>
                match calculate pen am.stackable am.hig b mods cap (limited.contains am.id) with
                | .ok v => ((fun k => if k = (y.id, a) then some v else c.1 k), .ok v)
                | .error _ => (c.1, .divZero)

/-- A public read of `(item i, attribute a)`. -/
def readStep (s : MState) (i : Nat) (a : Int) : MState × Val :=
  match item? s.cfg i with
  | none => (s, .absent)
  | some y =>
    let r := readNode u immune limited pen (fuelOf u + 1) s.cfg s.dyn s.cache y a
    ({ s with cache := r.1 }, r.2)

/-- Cached entries of the items of the configuration, in configuration / rank order. -/
def cachedEntries (s : MState) : List (Node × Rat) :=
  s.cfg.items.flatMap fun x => u.attrs.filterMap fun am =>
    (s.cache (x.id, am.id)).map fun v => ((x.id, am.id), v)

/-- Re-pack the cache and the dynamic flags as finite tables over the configuration's items and their
types' effects (keeps driver look-ups cheap; extensionally the same state on those items). -/
def compact (s : MState) : MState :=
  let es := cachedEntries u s
  let ld := (s.cfg.items.filter fun x => s.dyn.loaded x.id).map (·.id)
  let effs (x : Item) : List Int := match type? u x.typeId with | some t => t.effects | none => []
  let on := s.cfg.items.flatMap fun x => ((effs x).filter fun e => s.dyn.on x.id e).map fun e => (x.id, e)
  let tg := s.cfg.items.flatMap fun x => (effs x).filterMap fun e =>
    let ts := s.dyn.tgts x.id e
    if ts.isEmpty then none else some ((x.id, e), ts)
  { s with cache := fun n => (es.find? (·.1 == n)).map (·.2),
           dyn := { loaded := fun i => ld.contains i,
                    on := fun i e => on.contains (i, e),
                    tgts := fun i e => ((tg.find? (·.1 == (i, e))).map (·.2)).getD [],
                    bspecs := s.dyn.bspecs } }

/-! ## Table-backed twin of the cascade

`Micro.casc` / `visit` / `visitAll` return a cache *function*; compiled code would re-run the whole fold on
every look-up.  The driver therefore executes the twin below, which keeps the cache as a finite table;
`EosProofs/Lemmas/MicroExec.lean` proves `tblFun (cascT …) = casc … (tblFun …)` etc., so the driver computes
exactly the function the theorems of `Props/C01World.lean` are about. -/

abbrev Tbl := List (Node × Rat)

def tblFun (T : Tbl) : Cache := fun n => (T.find? (·.1 == n)).map (·.2)
def Tbl.drop (T : Tbl) (n : Node) : Tbl := T.filter (·.1 != n)

mutual
def cascT (cfg : Config) (d : Dyn) (fuel : Nat) (T : Tbl) (n : Node) : Tbl :=
  match fuel with
  | 0 => T
  | f + 1 => (rdeps u cfg d n).foldl (fun T t => visitT cfg d f T t) T
def visitT (cfg : Config) (d : Dyn) (fuel : Nat) (T : Tbl) (t : Node) : Tbl :=
  if (tblFun T t).isNone then T else cascT cfg d fuel (T.drop t) t
end

def visitAllT (cfg : Config) (d : Dyn) (fuel : Nat) (T : Tbl) (l : List Node) : Tbl :=
  l.foldl (fun T t => visitT u cfg d fuel T t) T

/-- Driver state: like `MState` with a table for the cache. -/
structure TState where
  cfg : Config
  dyn : Dyn
  tbl : Tbl

def TState.toM (s : TState) : MState := { cfg := s.cfg, dyn := s.dyn, cache := tblFun s.tbl }

/-- `mstep` on the table representation (same case analysis, same direct sets, same registries). -/
def mstepT (s : TState) : MStep → TState
  | .read _ => s
  | .load i => { s with dyn := { s.dyn with loaded := fun j => if j = i then true else s.dyn.loaded j } }
  | .unload i =>
    { s with dyn := { s.dyn with loaded := fun j => if j = i then false else s.dyn.loaded j },
             tbl := s.tbl.filter fun e => e.1.1 != i }
  | .start i es =>
    let d' := setOn s.dyn i es true
    { s with dyn := d',
             tbl := visitAllT u s.cfg d' (fuelOf u) s.tbl (directOf u s.cfg d' (localSpecsOf u s.cfg d' i es)) }
  | .stop i es =>
    let direct := directOf u s.cfg s.dyn (localSpecsOf u s.cfg s.dyn i es)
    let d' := setOn s.dyn i es false
    { s with dyn := d', tbl := visitAllT u s.cfg d' (fuelOf u) s.tbl direct }
  | .apply i e ts =>
    let d' := setTgts s.dyn i e ((s.dyn.tgts i e) ++ ts.filter fun t => !(s.dyn.tgts i e).contains t)
    { s with dyn := d',
             tbl := visitAllT u s.cfg d' (fuelOf u) s.tbl (directOf u s.cfg d' (projSpecsOf u s.cfg d' i e ts)) }
  | .unapply i e ts =>
    let direct := directOf u s.cfg s.dyn (projSpecsOf u s.cfg s.dyn i e ts)
    let d' := setTgts s.dyn i e ((s.dyn.tgts i e).filter fun t => !ts.contains t)
    { s with dyn := d', tbl := visitAllT u s.cfg d' (fuelOf u) s.tbl direct }
  | .changed i attr => { s with tbl := cascT u s.cfg s.dyn (fuelOf u) s.tbl (i, attr) }
  | .buffset i e ms =>
    { s with dyn := { s.dyn with bspecs := fun j f => if j = i ∧ f = e then ms else s.dyn.bspecs j f } }
  | .reconfig cfg' => { s with cfg := cfg' }

/-- Table of the entries a cache function holds for the configuration's items. -/
def tblOf (cfg : Config) (K : Cache) : Tbl :=
  cfg.items.flatMap fun x => u.attrs.filterMap fun am => (K (x.id, am.id)).map fun v => ((x.id, am.id), v)

/-- Finite re-packing of the dynamic flags (see `compact`). -/
def compactDyn (cfg : Config) (d : Dyn) : Dyn :=
  let ld := (cfg.items.filter fun x => d.loaded x.id).map (·.id)
  let effs (x : Item) : List Int := match type? u x.typeId with | some t => t.effects | none => []
  let on := cfg.items.flatMap fun x => ((effs x).filter fun e => d.on x.id e).map fun e => (x.id, e)
  let tg := cfg.items.flatMap fun x => (effs x).filterMap fun e =>
    let ts := d.tgts x.id e
    if ts.isEmpty then none else some ((x.id, e), ts)
  let bs := cfg.items.flatMap fun x => (effs x).filterMap fun e =>
    let ms := d.bspecs x.id e
    if ms.isEmpty then none else some ((x.id, e), ms)
  { loaded := fun i => ld.contains i, on := fun i e => on.contains (i, e),
    tgts := fun i e => ((tg.find? (·.1 == (i, e))).map (·.2)).getD [],
    bspecs := fun i e => ((bs.find? (·.1 == (i, e))).map (·.2)).getD [] }

/-- One message as the driver processes it: the table twin of the step, then the re-packing of the
registers (this very definition is what `Driver/Micro.lean` calls). -/
def mdoT (s : TState) (st : MStep) : TState :=
  let s' := mstepT u s st
  { s' with dyn := compactDyn u s'.cfg s'.dyn }

/-- A public read on the table representation. -/
def readStepT (s : TState) (i : Nat) (a : Int) : TState × Val :=
  match item? s.cfg i with
  | none => (s, .absent)
  | some y =>
    let r := readNode u immune limited pen (fuelOf u + 1) s.cfg s.dyn (tblFun s.tbl) y a
    ({ s with tbl := tblOf u s.cfg r.1 }, r.2)

/-- Effect ids of the type of an item (whether or not the item is loaded). -/
def effsOf (x : Item) : List Int := match type? u x.typeId with | some t => t.effects | none => []

/-- No effect of (the type of) item `i` runs. -/
def noneOnb (s : TState) (i : Nat) : Bool :=
  s.cfg.items.all fun x => x.id != i || (effsOf u x).all fun e => !s.dyn.on i e

/-- `i` is not among the recorded targets of any projector (configured item, effect of its type). -/
def notTargetb (s : TState) (i : Nat) : Bool :=
  s.cfg.items.all fun a => (effsOf u a).all fun e => !(s.dyn.tgts a.id e).contains i

/-- Executable form of the side conditions `L.StepOK` (EosProofs/Lemmas/MicroLegal.lean) of the message steps —
all but `reconfig` — over the *named* pairs: items of the configuration and the effect ids their types list
(`DynFin` states — every state the driver is in — hold nothing else, so that `stepOKb = true` is equivalent to
`StepOK`: `stepOKb_sound` / `stepOKb_complete` in EosProofs/Lemmas/MicroExec.lean).  The driver evaluates it
before every message of the real code's stream: a `false` means the real history left the class the legality
theorems cover. -/
def stepOKb (s : TState) : MStep → Bool
  | .load i => (s.tbl.all fun e => e.1.1 != i) && noneOnb u s i && notTargetb u s i
  | .unload i => noneOnb u s i && notTargetb u s i
  | .start i es | .stop i es => es.all fun e => (s.dyn.tgts i e).isEmpty
  | .apply _ _ ts => ts.all fun j => match item? s.cfg j with
    | some t => t.kind.isSolsys
    | none => true
  | .buffset i e _ => (s.dyn.tgts i e).isEmpty
  | _ => true

/-- `(i, e)` names an item of the configuration and an effect id its type lists. -/
def namedb (cfg : Config) (i : Nat) (e : Int) : Bool :=
  cfg.items.any fun x => x.id == i && (effsOf u x).contains e

/-- Executable form of `StepFin` (EosProofs/Lemmas/MicroExec.lean; all messages but `reconfig`): the message names
a configured item and effects of its type — the hypothesis under which the driver's `mdoT` is `mstep`
(`stepFinb_iff`); the driver evaluates it for every message and prints `unnamed …` when it is false. -/
def stepFinb (s : TState) : MStep → Bool
  | .load i => s.cfg.items.any fun x => x.id == i
  | .start i es => es.all fun e => namedb u s.cfg i e
  | .apply i e ts => ts.isEmpty || namedb u s.cfg i e
  | .buffset i e ms => ms.isEmpty || namedb u s.cfg i e
  | _ => true

/-- Executable side condition of an `RC` line (the driver replaces the configuration, registers and table stay):
whatever the registers hold for the named pairs of the *old* configuration — a loaded flag, a running effect,
recorded targets, warfare-buff payload — is still named in the new configuration `cfg'`.  On `DynFin` registers
(which hold nothing else) this is `DynFin u cfg' s.dyn`, the `reconfig` clause of `StepFin`
(`rcFinb_sound` / `rcFinb_complete`, EosProofs/Lemmas/MicroExec.lean). -/
def rcFinb (s : TState) (cfg' : Config) : Bool :=
  s.cfg.items.all fun x =>
    (!s.dyn.loaded x.id || cfg'.items.any fun y => y.id == x.id) &&
    (effsOf u x).all fun e =>
      (!s.dyn.on x.id e && (s.dyn.tgts x.id e).isEmpty && (s.dyn.bspecs x.id e).isEmpty) || namedb u cfg' x.id e

end Eos.Micro
