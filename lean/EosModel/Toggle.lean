/-! # Generic toggle register (shared by the restriction and stat registers)

Every eos service register has the same shape: a container keyed by item which one
handler fills ("add the item on message A if it qualifies") and another one empties
("discard the item on message B").  This file holds the executable definitions; the
lemma `Eos.Toggle.toggle_register` (EosProofs/Lemmas/Toggle.lean) shows that after any
event sequence in which an item is only switched on while it is off, the container holds
exactly the items that are currently on and qualify, each once.

`set.add` / `dict[k] = v` / `KeyedStorage.add_data_entry` are all `on`, `set.discard` /
`del d[k]` guarded by `in` / `KeyedStorage.rm_data_entry` are all `off` (they differ only
when an item is switched on twice in a row, which the well-formedness condition excludes). -/
namespace Eos.Toggle

/-- What one message means to one register. `on i none` = the item was switched on but does
not qualify for this register (the handler returns early). -/
inductive Ev (D : Type)
  | on (i : Nat) (d : Option D)
  | off (i : Nat)
  | skip

abbrev Reg (D : Type) := List (Nat × D)

def Reg.has {D} (reg : Reg D) (i : Nat) : Bool := reg.any (·.1 == i)

def step {D} (reg : Reg D) : Ev D → Reg D
  | .on i (some d) => if reg.has i then reg else (i, d) :: reg
  | .on _ none => reg
  | .off i => reg.filter (·.1 != i)
  | .skip => reg

def upd {α} (f : Nat → α) (i : Nat) (v : α) : Nat → α := fun j => if j = i then v else f j

/-- The same event read as an update of "what the register ought to hold". -/
def applyCur {D} (cur : Nat → Option D) : Ev D → (Nat → Option D)
  | .on i d => upd cur i d
  | .off i => upd cur i none
  | .skip => cur

/-- An item is switched on only while it is off. -/
def Ev.wf {D} (cur : Nat → Option D) : Ev D → Prop
  | .on i _ => cur i = none
  | _ => True

def run {D} (reg : Reg D) (evs : List (Ev D)) : Reg D := evs.foldl step reg
def runCur {D} (cur : Nat → Option D) (evs : List (Ev D)) : Nat → Option D := evs.foldl applyCur cur

/-- Every event of the sequence is well formed at the point where it arrives. -/
def WF {D} : (Nat → Option D) → List (Ev D) → Prop
  | _, [] => True
  | cur, e :: es => e.wf cur ∧ WF (applyCur cur e) es

/-- The register holds exactly the current truth, each item once. -/
def Inv {D} (cur : Nat → Option D) (reg : Reg D) : Prop :=
  (∀ i d, (i, d) ∈ reg ↔ cur i = some d) ∧ (reg.map (·.1)).Nodup

end Eos.Toggle
