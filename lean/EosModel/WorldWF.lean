import EosModel.World
/-! # Rank well-formedness of a universe (property C10)

`Eos.World.evalAll` computes attributes in the order of `u.attrs` (highest dependency rank first) and
`readDep` answers a read of an attribute that has metadata but is not in the table yet with
`Val.notWF` — the model's stand-in for the endless recursion the real calculator hits on cyclic
attribute dependencies.  A universe is rank-well-formed when every attribute the evaluation of an
attribute may read (and that has metadata) is listed before it. -/
namespace Eos.World

/-- The warfare-buff id / value attributes. -/
def buffAttrs : List Int := [2468, 2469, 2470, 2471, 2472, 2473, 2536, 2537]

/-- Attribute ids `gather … attr` may read from some item: source attributes of modifiers that
target `attr`; resistance attributes (non-zero ids) of effects with such a modifier, and of buff effects
when a buff template targets `attr`; the warfare-buff attributes when a buff template targets `attr`. -/
def gatherReads (u : Universe) (attr : Int) : List Int :=
  (u.effects.flatMap fun e => (e.mods.filter (·.tgtAttr == attr)).map (·.srcAttr)) ++
  (u.effects.filterMap fun e =>
    if e.mods.any (·.tgtAttr == attr) || (e.isBuff && u.buffs.any (·.tgtAttr == attr)) then
      e.resistAttr.filter (· != 0) else none) ++
  (if u.buffs.any (·.tgtAttr == attr) then buffAttrs else [])

/-- Attribute ids the evaluation of `am` may read: its max attribute and what `gather` reads. -/
def readable (u : Universe) (am : AttrMeta) : List Int := am.maxAttr.toList ++ gatherReads u am.id

def rankWFAux (u : Universe) : List Int → List AttrMeta → Bool
  | _, [] => true
  | pre, am :: post =>
    (readable u am).all (fun a => (attrMeta? u a).isNone || pre.contains a) && rankWFAux u (am.id :: pre) post

/-- Decidable rank well-formedness: walking `u.attrs`, everything readable with metadata was seen before. -/
def rankWF (u : Universe) : Bool := rankWFAux u [] u.attrs

/-- The same as a proposition: for every split of `u.attrs`, the readable ids that have metadata occur
in the part before. -/
def RankWF (u : Universe) : Prop :=
  ∀ pre am post, u.attrs = pre ++ am :: post →
    ∀ a ∈ readable u am, (attrMeta? u a).isSome = true → a ∈ pre.map (·.id)

end Eos.World
