import EosModel.EffectStatusSpec
/-! Effect status (property C05), state machine mirroring the bookkeeping of `eos/item/mixin/base.py`,
`mixin/state.py`, `pubsub/message/helper.py`, `booster.py` and `fighter_squad.py`: per item a loaded
type, run-mode overrides and the set of running effect ids, re-resolved with the specification's
decision (`EffectStatusSpec.decideStatus`) and diffed on every change. -/
namespace Eos.EffectStatus

def onlineId : Nat := 16

structure EffectDef where
  id : Nat
  estate : State            -- state of the effect's category
  hasChance : Bool          -- `fitting_usage_chance_attr_id is not None`
  chance : Option Rat       -- value of that attribute on the item, when it has one
  deriving Repr

structure TypeDef where
  effects : List EffectDef          -- in the order of the type's effect dict
  defaultEffect : Option Nat
  abilities : List Nat              -- keys of `abilities_data`
  deriving Repr

/-- Start / stop notification (`EffectsStarted` / `EffectsStopped`). -/
inductive Event | started (ids : List Nat) | stopped (ids : List Nat)
  deriving Repr

/-- One item's source-dependent data and effect bookkeeping. -/
structure Core where
  typeId : Nat
  type : Option TypeDef := none           -- `_type`
  modes : List (Nat × Nat) := []          -- `__effect_mode_overrides` (None = [])
  running : List Nat := []                -- `_running_effect_ids`
  log : List Event := []                  -- notifications published since the log was last cleared
  deriving Repr

def getMode (modes : List (Nat × Nat)) (e : Nat) : Nat :=
  match modes.find? (·.1 == e) with
  | some p => p.2
  | none => defaultMode

/-- `_set_effects_modes` on the override map: default mode deletes the entry, anything else stores it. -/
def setModes (modes : List (Nat × Nat)) : List (Nat × Nat) → List (Nat × Nat)
  | [] => modes
  | (e, m) :: rest =>
    let cleared := modes.filter (·.1 != e)
    setModes (if m == defaultMode then cleared else (e, m) :: cleared) rest

namespace TypeDef
def traits (t : TypeDef) (e : EffectDef) : Traits :=
  ⟨t.defaultEffect == some e.id, e.hasChance, e.id == onlineId⟩

/-- `online_running` of the resolver. -/
def onlineRuns (t : TypeDef) (modes : List (Nat × Nat)) (st : State) : Bool :=
  match t.effects.find? (·.id == onlineId) with
  | none => false
  | some on => decideStatus st (ModeK.ofId (getMode modes on.id)) on.estate (t.traits on) false

def status (t : TypeDef) (modes : List (Nat × Nat)) (st : State) (e : EffectDef) : Bool :=
  decideStatus st (ModeK.ofId (getMode modes e.id)) e.estate (t.traits e) (t.onlineRuns modes st)
end TypeDef

namespace Core
def effects (c : Core) : List EffectDef := match c.type with | none => [] | some t => t.effects

/-- Ids that should run now (`new_running_effect_ids`): nothing when no type is loaded. -/
def resolve (c : Core) (st : State) : List Nat :=
  match c.type with
  | none => []
  | some t => (t.effects.filter (t.status c.modes st)).map (·.id)

def startIds (c : Core) (st : State) : List Nat := (c.resolve st).filter (fun e => !c.running.contains e)
def stopIds (c : Core) (st : State) : List Nat := c.running.filter (fun e => !(c.resolve st).contains e)

/-- `MsgHelper.get_effects_status_update_msgs`. -/
def update (c : Core) (st : State) : Core :=
  let start := c.startIds st
  let stop := c.stopIds st
  { c with
    running := (c.running ++ start).filter (fun e => !stop.contains e)
    log := c.log ++ (if start.isEmpty then [] else [.started start]) ++ (if stop.isEmpty then [] else [.stopped stop]) }

/-- `_load` with the type the source serves (nothing happens when it serves none). -/
def load (c : Core) (t : Option TypeDef) (st : State) : Core :=
  match t with
  | none => c
  | some t => ({ c with type := some t }).update st

/-- `_unload` of an item that is on a fit. -/
def unload (c : Core) : Core :=
  match c.type with
  | none => c
  | some _ =>
    { c with type := none, running := [],
             log := c.log ++ (if c.running.isEmpty then [] else [.stopped c.running]) }

/-- `set_effect_mode` / `_set_effects_modes`; statuses are re-resolved only when the item is on a fit. -/
def setModes (c : Core) (ms : List (Nat × Nat)) (onFit : Bool) (st : State) : Core :=
  let c' := { c with modes := EffectStatus.setModes c.modes ms }
  if onFit then c'.update st else c'

/-- `get_item_state_update_msgs`: re-resolution only for loaded items. -/
def stateChanged (c : Core) (st : State) : Core := if c.type.isSome then c.update st else c

/-! ### Booster side effects -/

/-- `__side_effect_chances`: offline-category effects whose chance attribute has a value, in type order. -/
def sideEffects (c : Core) : List (Nat × Rat) :=
  c.effects.filterMap fun e =>
    if e.estate = .offline then e.chance.map fun ch => (e.id, ch) else none

/-- Status reported by `Booster.side_effects` (resolved for state offline). -/
def sideStatus (c : Core) (e : Nat) : Bool :=
  match c.type with
  | none => false
  | some t => match t.effects.find? (·.id == e) with
    | none => false
    | some ed => t.status c.modes .offline ed

def sideMode (on : Bool) : Nat := if on then 2 else 1

/-- Modes `randomize_side_effects` sets: walking the side effects in order, the i-th is enabled iff the
    i-th draw of `random()` is below its chance. -/
def randomModesFrom (draws : Nat → Rat) : Nat → List (Nat × Rat) → List (Nat × Nat)
  | _, [] => []
  | i, (e, ch) :: rest => (e, sideMode (draws i < ch)) :: randomModesFrom draws (i + 1) rest

def randomModes (c : Core) (draws : Nat → Rat) : List (Nat × Nat) := randomModesFrom draws 0 c.sideEffects

/-! ### Fighter abilities -/

/-- Abilities listed by `FighterSquad.abilities`: the ability's effect is on the type and of an
    active-state category; `none` = an ability id outside `fighter_ability_map` (KeyError). -/
def abilityEffect (amap : List (Nat × Nat)) (a : Nat) : Option Nat := (amap.find? (·.1 == a)).map (·.2)

def abilityStatus (c : Core) (e : Nat) : Option Bool :=
  match c.type with
  | none => none
  | some t => match t.effects.find? (·.id == e) with
    | none => none
    | some ed => if ed.estate = .active then some (t.status c.modes .active ed) else none

/-- Mode `set_ability_status` stores. -/
def abilityMode (isDefault on : Bool) : Nat :=
  if isDefault then (if on then 1 else 4) else (if on then 2 else 1)
end Core

/-! ### Predicates the theorems are stated with -/

/-- Well-formed type: distinct effect ids (they are dict keys), and an effect has a chance value only
    when it names a chance attribute. -/
def TypeDef.WF (t : TypeDef) : Prop :=
  (t.effects.map (·.id)).Nodup ∧ ∀ e ∈ t.effects, e.chance.isSome → e.hasChance = true

/-- The running set is exactly the resolver's decision for state `st`, without repetitions. -/
def Core.Good (c : Core) (st : State) : Prop :=
  (∀ e, e ∈ c.running ↔ e ∈ c.resolve st) ∧ c.running.Nodup

/-! ### Items with a state, optionally holding a charge, in one fit of one solar system -/

inductive Kind | moduleHigh | moduleMid | moduleLow | drone | fighter | booster | implant | rig | ship
  | subsystem | skill | character | stance | beacon
  deriving DecidableEq, Repr

namespace Kind
def all : List Kind := [moduleHigh, moduleMid, moduleLow, drone, fighter, booster, implant, rig, ship,
  subsystem, skill, character, stance, beacon]
def mutableState : Kind → Bool
  | moduleHigh | moduleMid | moduleLow | drone | fighter => true
  | _ => false
def holdsCharge : Kind → Bool
  | moduleHigh | moduleMid | moduleLow => true
  | _ => false
end Kind

structure Holder where
  id : Nat
  kind : Kind
  state : State
  onFit : Bool := false
  core : Core
  charge : Option Core := none      -- a charge has no state of its own: it reads the holder's
  deriving Repr

abbrev Source := List (Nat × TypeDef)

def Source.type? (s : Option Source) (typeId : Nat) : Option TypeDef :=
  match s with
  | none => none
  | some l => (l.find? (·.1 == typeId)).map (·.2)

namespace Holder
def onCharge (h : Holder) (f : Core → Core) : Holder := { h with charge := h.charge.map f }

/-- Item and then its charge are loaded from the source the fit can reach. -/
def load (h : Holder) (src : Option Source) : Holder :=
  { h with core := h.core.load (Source.type? src h.core.typeId) h.state,
           charge := h.charge.map fun c => c.load (Source.type? src c.typeId) h.state }

def unload (h : Holder) : Holder := { h with core := h.core.unload, charge := h.charge.map Core.unload }

def clearLog (h : Holder) : Holder :=
  { h with core := { h.core with log := [] }, charge := h.charge.map fun c => { c with log := [] } }
end Holder

/-- Operations on one item. -/
inductive HOp
  | add | remove
  | setState (st : State)
  | setModes (onCharge : Bool) (ms : List (Nat × Nat))
  | setCharge (charge : Option (Nat × List (Nat × Nat)))    -- type id, modes set beforehand
  | setSide (e : Nat) (on : Bool)
  | randomize (draws : List Rat)
  | setAbility (a : Nat) (on : Bool)
  deriving Repr

def drawsFn (l : List Rat) (i : Nat) : Rat := match l[i]? with | some r => r | none => 1

/-- One operation on one item; `src` is the source the fit can reach. Errors carry the Python exception
    class (`bad-op` = the harness never sends this). -/
def Holder.apply (h : Holder) (src : Option Source) (abilityMap : List (Nat × Nat)) : HOp → Except String Holder
  | .add => if h.onFit then .error "ValueError" else .ok (({ h with onFit := true }).load src)
  | .remove => if !h.onFit then .error "bad-op" else .ok { h.unload with onFit := false }
  | .setState st =>
    if !h.kind.mutableState then .error "AttributeError" else
    if st = h.state then .ok h else
    if h.onFit then
      .ok { h with state := st, core := h.core.stateChanged st, charge := h.charge.map (·.stateChanged st) }
    else .ok { h with state := st }
  | .setModes false ms => .ok { h with core := h.core.setModes ms h.onFit h.state }
  | .setModes true ms =>
    if h.charge.isNone then .error "bad-op" else .ok (h.onCharge fun c => c.setModes ms h.onFit h.state)
  | .setCharge charge =>
    if !h.kind.holdsCharge then .error "bad-op" else
    let fresh := charge.map fun (tid, ms) => ({ typeId := tid, modes := setModes [] ms } : Core)
    .ok { h with charge := if h.onFit then fresh.map fun c => c.load (Source.type? src c.typeId) h.state
                           else fresh }
  | .setSide e on =>
    if h.kind ≠ .booster then .error "bad-op" else
    if !(h.core.sideEffects.any (·.1 == e)) then .error "NoSuchSideEffectError" else
    .ok { h with core := h.core.setModes [(e, Core.sideMode on)] h.onFit h.state }
  | .randomize draws =>
    if h.kind ≠ .booster ∨ draws.length < h.core.sideEffects.length then .error "bad-op" else
    .ok { h with core := h.core.setModes (h.core.randomModes (drawsFn draws)) h.onFit h.state }
  | .setAbility a on =>
    if h.kind ≠ .fighter then .error "bad-op" else
    match h.core.type with
    | none => .error "NoSuchAbilityError"
    | some t =>
      if !t.abilities.contains a then .error "NoSuchAbilityError" else
      match Core.abilityEffect abilityMap a with
      | none => .error "KeyError"
      | some e =>
        .ok { h with core := h.core.setModes [(e, Core.abilityMode (t.defaultEffect == some e) on)] h.onFit h.state }

structure World where
  sources : List Source                 -- the sources the solar system can be given
  abilityMap : List (Nat × Nat)         -- `fighter_ability_map`
  source : Option Nat := none           -- index of the solar system's source
  attached : Bool := true               -- the fit is in the solar system
  items : List Holder := []
  deriving Repr

inductive Op
  | new (id : Nat) (kind : Kind) (typeId : Nat) (st : State)
  | item (id : Nat) (op : HOp)
  | setSource (k : Option Nat)
  | attach | detach
  deriving Repr

inductive Status | ok | err (cls : String)
  deriving DecidableEq, Repr

namespace World
/-- The source items can reach: none when the fit is outside the solar system or that has no source. -/
def src (w : World) : Option Source :=
  if w.attached then w.source.bind fun k => w.sources[k]? else none

def find? (w : World) (id : Nat) : Option Holder := w.items.find? (·.id == id)

/-- Unload every item on the fit, switch, load again (`SolarSystem.source` setter, `FitSet.add/remove`). -/
def reload (w : World) (source : Option Nat) (attached : Bool) : World :=
  let w' := { w with source := source, attached := attached }
  { w' with items := w.items.map fun h => if h.onFit then (h.unload).load w'.src else h }

def step (w : World) (op : Op) : World × Status :=
  let w := { w with items := w.items.map Holder.clearLog }
  match op with
  | .new id kind typeId st =>
    if (w.find? id).isSome then (w, .err "bad-op") else
    ({ w with items := w.items ++ [{ id, kind, state := if kind.mutableState then st else .offline,
                                     core := { typeId } }] }, .ok)
  | .item id hop =>
    match w.find? id with
    | none => (w, .err "bad-op")
    | some h =>
      match h.apply w.src w.abilityMap hop with
      | .error cls => (w, .err cls)
      | .ok _ =>
        ({ w with items := w.items.map fun h =>
            if h.id = id then (match h.apply w.src w.abilityMap hop with | .ok h' => h' | .error _ => h) else h }, .ok)
  | .setSource k =>
    if k = w.source then (w, .ok) else
    match k with
    | some i => if i < w.sources.length then (w.reload k w.attached, .ok) else (w, .err "bad-op")
    | none => (w.reload none w.attached, .ok)
  | .attach => if w.attached then (w, .err "ValueError") else (w.reload w.source true, .ok)
  | .detach => if !w.attached then (w, .err "KeyError") else (w.reload w.source false, .ok)

def run (w : World) (ops : List Op) : World := ops.foldl (fun w op => (w.step op).1) w

/-- Every type every source serves is well-formed. -/
def WF (w : World) : Prop := ∀ s ∈ w.sources, ∀ p ∈ s, p.2.WF
end World

/-- Every type the reachable source serves is well-formed. -/
def SrcWF (src : Option Source) : Prop := ∀ tid t, Source.type? src tid = some t → t.WF

/-- What an item (and its charge) looks like given the source the fit can reach: loaded exactly when on
    the fit and the source serves its type; running = decision for the holder's state. -/
def Holder.Ok (src : Option Source) (h : Holder) : Prop :=
  (h.core.type = if h.onFit then Source.type? src h.core.typeId else none) ∧ h.core.Good h.state ∧
  ∀ c, h.charge = some c →
    (c.type = if h.onFit then Source.type? src c.typeId else none) ∧ c.Good h.state

end Eos.EffectStatus
