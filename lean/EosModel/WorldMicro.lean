import EosModel.World
import EosModel.WorldWF
/-! # Message-level ("micro") model of the calculation service (implementation layer of C01)

`EosModel/World.lean` is the from-scratch specification: running effects and applied projections are
*derived* from the configuration.  The real code gets there through messages: `ItemLoaded`,
`EffectsStarted/Stopped`, `EffectApplied/Unapplied`, `ItemUnloaded`, `AttrsValueChanged`; between two
messages of one public call the world is in an intermediate state in which an item is loaded but its
effects do not run yet, an effect runs but is not applied yet, and so on.  This file models exactly that:

* `Dyn` — the dynamic part: which effects run, which projections are recorded as applied;
* `gatherD` / `valueOfD` — the calculation of `World.lean` reading `Dyn` instead of deriving it;
* `deps` — the dependency list of a node `(item, attribute)` (what `valueOfD` reads);
* the handlers of `eos/calculator/service.py` with the registers of `affection.py`/`projection.py`
  replaced by their declarative content (`localAffectees`, `projAffectees`): direct invalidation sets of
  `_handle_effects_started/stopped`, `_handle_effect_applied/unapplied`, and the four reverse-dependency
  enumerators of `_revise_regular_attr_dependents` (`rdeps`);
* `MStep`/`mstep` — the micro-steps with their removal sets (DFS cascade of `_force_recalc` +
  `AttrsValueChanged`).

Fleet boosts: the warfare-buff modifiers of a running boost effect are message payload (`Dyn.bspecs`, set
by `MStep.buffset`) like the recorded targets; *which* templates the service picks from the buff attributes
is therefore outside this layer: the specification layer `World.buffModifiers` states it.  The two layers are
joined by `BuffPayloadOK` / `BuffSettled` (`EosProofs/Lemmas/MicroBuffTable.lean`): a dynamic state that is
`derivedDyn` on loaded items, running effects and the targets of ordinary effects and in which, for every
running boost, the registered modifiers are the specification's `buffModifiers` computed from the table
`World.evalAll` and the recorded targets are the specification's `boostTargets` (or the projector has no
projected modifier at all) has the table's entries as its from-scratch values
(`settled_spec_eq_table_buff`, headline `C01World.world_read_eq_table_buff`; no "no buff effects"
hypothesis).  That a real settled state is `BuffSettled` is what the correspondence check compares after
every public call: registered payload and recorded targets of every running boost against the specification
(driver command `QB`).
-/
namespace Eos.Micro
open Eos.World Eos.Calc

abbrev Node := Nat × Int

/-- Solar-system items (ship, drone, fighter squad): what a projection can be recorded as applied to. -/
def _root_.Eos.World.Kind.isSolsys : Kind → Bool
  | .ship | .drone | .fighter => true
  | _ => false

/-- Dynamic state maintained by messages. -/
structure Dyn where
  /-- loaded flag per item id (an item is registered as affectee between ItemLoaded and ItemUnloaded) -/
  loaded : Nat → Bool
  /-- effect `e` of item `i` is in `_running_effect_ids` -/
  on : Nat → Int → Bool
  /-- targets recorded by `EffectApplied` for projector `(item, effect)` -/
  tgts : Nat → Int → List Nat
  /-- warfare-buff modifiers registered for projector `(item, effect)` (`__warfare_buffs`): built by the
  service from the buff id / value attributes and the source's buff templates when a fleet-boost effect
  starts or its buff attributes change; here they are message payload, like the recorded targets -/
  bspecs : Nat → Int → List Modifier := fun _ _ => []

variable (u : Universe) (cfg : Config) (d : Dyn)

/-- The type of an item that is currently loaded (message level). -/
def typeOf? (it : Item) : Option ItemType := if d.loaded it.id then type? u it.typeId else none

def typeEffects (it : Item) : List Effect :=
  match typeOf? u d it with
  | none => []
  | some ty => ty.effects.filterMap (effect? u)

/-- Effects currently running on an item, in type order. -/
def running (it : Item) : List Effect := (typeEffects u d it).filter fun e => d.on it.id e.id

def targetsOf (a : Item) (e : Effect) : List Item := (d.tgts a.id e.id).filterMap (item? cfg)

/-- Resistance factor read for a modification of effect `e` landing on `x` (same as `World.resistOf`). -/
def carrierOf (x : Item) : Option Item :=
  match x.kind with
  | .ship | .drone | .fighter => some x
  | .moduleHigh | .moduleMid | .moduleLow | .rig | .stance | .subsystem => (shipOf cfg x.fit).bind (item? cfg)
  | .charge | .autocharge =>
    (x.parent.bind (item? cfg)).bind fun p =>
      match p.kind with
      | .drone | .fighter => some p
      | .moduleHigh | .moduleMid | .moduleLow => (shipOf cfg p.fit).bind (item? cfg)
      | _ => none
  | _ => none

def resistRead (e : Effect) (x : Item) : Option (Item × Int) :=
  match e.resistAttr with
  | none => none
  | some r => if r == 0 then none else (carrierOf cfg x).map fun c => (c, r)

def resistD (rd : Reader) (e : Effect) (x : Item) : Val :=
  match resistRead cfg e x with
  | none => .ok 1
  | some (c, r) => match rd c r with
    | .absent => .ok 1
    | v => v

/-- One affector specification: carrier item, effect, modifier, and (for projected ones) the target. -/
structure Spec where
  a : Item
  e : Effect
  m : Modifier
  tg : Option Item
  deriving Repr

/-- Does spec `s` select loaded item `x` (of type `tx`)? -/
def selects (s : Spec) (x : Item) (tx : ItemType) : Bool :=
  match s.tg with
  | none => affectsLocal cfg s.a s.m x tx
  | some t => s.m.domain == 4 && affectsProjected cfg s.a s.m t x tx

/-- Local specs of the running effects of `a`. -/
def localSpecs (a : Item) : List Spec :=
  (running u d a).flatMap fun e => (e.mods.filter (·.domain != 4)).map fun m => ⟨a, e, m, none⟩

/-- Well-formed warfare-buff payload: a target-domain modifier whose source is one of the warfare-buff
attributes and whose target attribute is the target of one of the universe's buff templates (every modifier
the service builds from a template is like that).  Anything else in `Dyn.bspecs` is ignored, so that the
dependency graph of *every* dynamic state is ranked by `rankWF` (the driver rejects such a payload line). -/
def bspecOK (m : Modifier) : Bool :=
  m.domain == 4 && buffAttrs.contains m.srcAttr && u.buffs.any (·.tgtAttr == m.tgtAttr)

/-- Projected modifiers of effect `e` of item `a`: its own target-domain modifiers and, for a fleet-boost
effect, the registered warfare-buff modifiers (`__generate_projected_affectors`). -/
def projMods (a : Item) (e : Effect) : List Modifier :=
  (e.mods.filter (·.domain == 4)) ++ (if e.isBuff then (d.bspecs a.id e.id).filter (bspecOK u) else [])

/-- Projected specs of the running projectable / fleet-boost effects of `a`, one per recorded target. -/
def projSpecs (a : Item) : List Spec :=
  (running u d a).flatMap fun e =>
    if e.category == 2 || e.isBuff then
      (targetsOf cfg d a e).flatMap fun t => (projMods u d a e).map fun m => ⟨a, e, m, some t⟩
    else []

def allSpecs : List Spec := cfg.items.flatMap fun a => localSpecs u d a ++ projSpecs u cfg d a

/-- Specs that modify attribute `attr` of item `x`. -/
def specsOn (x : Item) (tx : ItemType) (attr : Int) : List Spec :=
  (allSpecs u cfg d).filter fun s => s.m.tgtAttr == attr && selects cfg s x tx

def immuneOf (immune : List Int) (a : Item) : Bool :=
  match typeOf? u d a with
  | some ta => (match ta.category with | some c => immune.contains c | none => false)
  | none => false

/-- Gathered modifications, message level. -/
def gatherD (immune : List Int) (rd : Reader) (x : Item) (tx : ItemType) (attr : Int) : Except Val (List Mod) :=
  (specsOn u cfg d x tx attr).foldlM (init := []) fun acc s =>
    match rd s.a s.m.srcAttr with
    | .absent => .ok acc
    | .ok v => (match resistD cfg rd s.e x with
      | .ok r => .ok (acc ++ [{ op := s.m.op, value := v, resist := r, agg := s.m.agg, aggKey := s.m.aggKey,
                                immune := immuneOf u d immune s.a }])
      | w => .error w)
    | w => .error w

def baseOf (tx : ItemType) (am : AttrMeta) : Option Rat :=
  match tx.attrs.find? (·.1 == am.id) with
  | some p => some p.2
  | none => am.default

/-- Value of one attribute, message level (cf. `World.valueOf`). -/
def valueOfD (immune limited : List Int) (pen : Nat → Rat) (rd : Reader) (x : Item) (am : AttrMeta) : Val :=
  if x.kind == .skill && am.id == 280 then (match x.level with | some l => .ok l | none => .absent) else
  match typeOf? u d x with
  | none => .absent
  | some tx =>
    match baseOf tx am with
    | none => .absent
    | some b =>
      match gatherD u cfg d immune rd x tx am.id with
      | .error v => v
      | .ok mods =>
        let cap : Except Val (Option Rat) := match am.maxAttr with
          | none => .ok none
          | some mx => match rd x mx with
            | .ok c => .ok (some c)
            | .absent => .ok none
            | v => .error v
        match cap with
        | .error v => v
        | .ok cap =>
          match calculate pen am.stackable am.hig b mods cap (limited.contains am.id) with
          | .ok v => .ok v
          | .error _ => .divZero

/-- Nodes read by the calculation of `(x, am)`: modifier sources, resistance attributes on the carrier,
the cap attribute.  A skill's level is answered by the override and reads nothing. -/
def deps (n : Node) : List Node :=
  match item? cfg n.1, attrMeta? u n.2 with
  | some x, some am =>
    if x.kind == .skill && am.id == 280 then [] else
    match typeOf? u d x with
    | none => []
    | some tx =>
      ((specsOn u cfg d x tx am.id).flatMap fun s =>
        (s.a.id, s.m.srcAttr) :: (match resistRead cfg s.e x with | some (c, r) => [(c.id, r)] | none => [])) ++
      (match am.maxAttr with | some mx => [(x.id, mx)] | none => [])
  | _, _ => []

/-- Items a local / projected spec currently selects (declarative content of the affection register). -/
def affectees (s : Spec) : List Item :=
  cfg.items.filter fun x => match typeOf? u d x with
    | some tx => selects cfg s x tx
    | none => false

/-- Reverse dependencies of node `(y, b)` as `_revise_regular_attr_dependents` enumerates them:
(1) attributes of `y` capped by `b`; (2) targets of local specs of `y` sourced from `b`; (3) targets of
projected specs of `y` sourced from `b`; (4) for every projector `(a, e)` whose effect is resisted by `b` and
which has `y` among its recorded targets — or, when `y` is owner-modifiable (drone, fighter, charge), the
ship of `y`'s fit: such an item is selected by effects projected onto its ship but resists them with its own
attribute — everything the projected specs of `(a, e)` select, over *all* recorded targets of the projector
(as the code does, not only the specs aimed at `y`). -/
def rdeps (n : Node) : List Node :=
  match item? cfg n.1 with
  | none => []
  | some y =>
    ((u.attrs.filter fun am => am.maxAttr == some n.2).map fun am => (y.id, am.id)) ++
    (((localSpecs u d y ++ projSpecs u cfg d y).filter fun s => s.m.srcAttr == n.2).flatMap fun s =>
      (affectees u cfg d s).map fun x => (x.id, s.m.tgtAttr)) ++
    (cfg.items.flatMap fun a =>
      ((projSpecs u cfg d a).filter fun s =>
          s.e.resistAttr == some n.2 && n.2 != 0 &&
          (targetsOf cfg d a s.e).any fun t =>
            t.id == y.id || (y.kind.ownerModifiable && shipOf cfg y.fit == some t.id)).flatMap
        fun s => (affectees u cfg d s).map fun x => (x.id, s.m.tgtAttr))

/-- Attribute cache: `(item, attribute) ↦ cached value`. -/
abbrev Cache := Node → Option Rat

def dropNode (K : Cache) (n : Node) : Cache := fun x => if x = n then none else K x

mutual
/-- `AttrsValueChanged` for `n`: visit its reverse dependencies. -/
def casc (fuel : Nat) (K : Cache) (n : Node) : Cache :=
  match fuel with
  | 0 => K
  | f + 1 => (rdeps u cfg d n).foldl (fun K t => visit f K t) K
/-- `_force_recalc`: only a cached entry is dropped and reported as changed. -/
def visit (fuel : Nat) (K : Cache) (t : Node) : Cache :=
  if K t = none then K else casc fuel (dropNode K t) t
end

def visitAll (fuel : Nat) (K : Cache) (l : List Node) : Cache := l.foldl (fun K t => visit u cfg d fuel K t) K

/-- Direct invalidation targets of a list of specs (start / stop / apply / unapply handlers). -/
def directOf (specs : List Spec) : List Node :=
  specs.flatMap fun s => (affectees u cfg d s).map fun x => (x.id, s.m.tgtAttr)

structure MState where
  cfg : Config
  dyn : Dyn
  cache : Cache

/-- Message-level steps of the calculation service. -/
inductive MStep
  | read (S : Node → Bool)
  /-- `ItemLoaded`: the item (already placed in the configuration) gets its type -/
  | load (i : Nat)
  /-- `ItemUnloaded` followed by `attrs._clear()` -/
  | unload (i : Nat)
  /-- `EffectsStarted(item, effects)` -/
  | start (i : Nat) (es : List Int)
  /-- `EffectsStopped(item, effects)` -/
  | stop (i : Nat) (es : List Int)
  /-- `EffectApplied(item, effect, targets)` -/
  | apply (i : Nat) (e : Int) (ts : List Nat)
  /-- `EffectUnapplied(item, effect, targets)` -/
  | unapply (i : Nat) (e : Int) (ts : List Nat)
  /-- `AttrsValueChanged` raised for an overridden attribute (skill level changed) -/
  | changed (i : Nat) (attr : Int)
  /-- the service (re)builds or drops the warfare-buff modifiers of projector `(i, e)` (no targets are
      recorded for it at that moment: the old ones were un-applied, the new ones are applied afterwards) -/
  | buffset (i : Nat) (e : Int) (ms : List Modifier)
  /-- a change of the static configuration that touches no loaded item (placing / removing an unloaded item,
      changing the state or target field itself; the messages that follow are separate steps) -/
  | reconfig (cfg' : Config)

def fuelOf : Nat := u.attrs.length + 1

def setOn (d : Dyn) (i : Nat) (es : List Int) (v : Bool) : Dyn :=
  { d with on := fun j e => if j = i ∧ e ∈ es then v else d.on j e }

def setTgts (d : Dyn) (i : Nat) (e : Int) (ts : List Nat) : Dyn :=
  { d with tgts := fun j f => if j = i ∧ f = e then ts else d.tgts j f }

/-- Local specs contributed by effects `es` of item `i` under `d` (EffectsStarted / EffectsStopped). -/
def localSpecsOf (i : Nat) (es : List Int) : List Spec :=
  match item? cfg i with
  | none => []
  | some a => (localSpecs u d a).filter fun s => es.contains s.e.id

/-- Projected specs of effect `e` of item `i` onto the targets `ts` (EffectApplied / EffectUnapplied). -/
def projSpecsOf (i : Nat) (e : Int) (ts : List Nat) : List Spec :=
  match item? cfg i with
  | none => []
  | some a => (projSpecs u cfg d a).filter fun s =>
      s.e.id == e && (match s.tg with | some t => ts.contains t.id | none => false)

def mstep (s : MState) : MStep → MState
  | .read _ => s                         -- (cache filling is described by `Machine.step`; see the refinement theorem)
  | .load i => { s with dyn := { s.dyn with loaded := fun j => if j = i then true else s.dyn.loaded j } }
  | .unload i =>
    { s with dyn := { s.dyn with loaded := fun j => if j = i then false else s.dyn.loaded j },
             cache := fun n => if n.1 = i then none else s.cache n }
  | .start i es =>
    -- register the specs, drop what they select, cascade
    let d' := setOn s.dyn i es true
    { s with dyn := d',
             cache := visitAll u s.cfg d' (fuelOf u) s.cache (directOf u s.cfg d' (localSpecsOf u s.cfg d' i es)) }
  | .stop i es =>
    -- drop what the specs select (still registered), unregister, cascade in the new registry
    let direct := directOf u s.cfg s.dyn (localSpecsOf u s.cfg s.dyn i es)
    let d' := setOn s.dyn i es false
    { s with dyn := d', cache := visitAll u s.cfg d' (fuelOf u) s.cache direct }
  | .apply i e ts =>
    -- recorded targets are a set: applying to a recorded target again adds nothing
    let d' := setTgts s.dyn i e ((s.dyn.tgts i e) ++ ts.filter fun t => !(s.dyn.tgts i e).contains t)
    { s with dyn := d',
             cache := visitAll u s.cfg d' (fuelOf u) s.cache (directOf u s.cfg d' (projSpecsOf u s.cfg d' i e ts)) }
  | .unapply i e ts =>
    let direct := directOf u s.cfg s.dyn (projSpecsOf u s.cfg s.dyn i e ts)
    let d' := setTgts s.dyn i e ((s.dyn.tgts i e).filter fun t => !ts.contains t)
    { s with dyn := d', cache := visitAll u s.cfg d' (fuelOf u) s.cache direct }
  | .changed i attr =>
    { s with cache := casc u s.cfg s.dyn (fuelOf u) s.cache (i, attr) }
  | .buffset i e ms =>
    { s with dyn := { s.dyn with bspecs := fun j f => if j = i ∧ f = e then ms else s.dyn.bspecs j f } }
  | .reconfig cfg' => { s with cfg := cfg' }

/-- Reader over a node valuation: a skill's level is an override of the item; an attribute without
metadata has no value; otherwise the valuation decides (no value = absent). -/
def readerOf (f : Node → Option Rat) : Reader := fun y a =>
  if y.kind == .skill && a == 280 then (match y.level with | some l => .ok l | none => .absent)
  else if (attrMeta? u a).isNone then .absent
  else match f (y.id, a) with | some v => .ok v | none => .absent

def valToOption : Val → Option Rat
  | .ok v => some v
  | _ => none

/-- Local evaluation of a node under a valuation of the other nodes (the `eval` of the dependency graph). -/
def evalD (immune limited : List Int) (pen : Nat → Rat) (n : Node) (f : Node → Option Rat) : Option Rat :=
  match item? cfg n.1, attrMeta? u n.2 with
  | some x, some am => valToOption (valueOfD u cfg d immune limited pen (readerOf u f) x am)
  | _, _ => none

/-- Position of an attribute in the universe's rank order (dependencies come earlier). -/
def rankOf (n : Node) : Nat := (u.attrs.map (·.id)).idxOf n.2

/-- The dynamic state the specification derives from a configuration: everything the source knows is
loaded, exactly the effects the status decision selects run, a projectable running effect is applied to
the item's current target. -/
def derivedDyn : Dyn where
  loaded := fun i => match item? cfg i with | some x => World.loaded u cfg x | none => false
  on := fun i e => match item? cfg i with | some x => (runningIds u cfg x).contains e | none => false
  tgts := fun i e => match item? cfg i with
    | some x => (match effect? u e with
      | some ef => (projectionTargets cfg x ef).map (·.id)
      | none => [])
    | none => []

/-- Items of a configuration are identified by their id. -/
def UniqueIds (cfg : Config) : Prop := (cfg.items.map (·.id)).Nodup

/-- The dependencies that can carry a value: nodes whose attribute has metadata (any other node reads as
absent through `readerOf`, whatever the valuation says). -/
def depsM (n : Node) : List Node := (deps u cfg d n).filter fun m => (attrMeta? u m.2).isSome

end Eos.Micro
