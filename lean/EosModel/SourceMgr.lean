/-! Model of `eos/source/manager.py` (property C17): the class-level registry `SourceManager`
as a state machine.  Cache handlers are Python objects shared by reference, so the world holds
them by identity (`Nat`); a cache handler is abstracted to what `add` uses of it: the fingerprint
it reports and the object set it serves (`γ`, opaque).  `update_cache objs fp` makes it serve `objs`
under `fp` (for `JsonCacheHandler` this is C15's `served_after_update`). -/
namespace Eos.SourceMgr

/-- `'{}_{}'.format(data_version, eos_version)`; a `None` version prints as `None`. -/
def formatFp (eosVersion : String) (dataVersion : Option String) : String :=
  dataVersion.getD "None" ++ "_" ++ eosVersion

/-- A cache handler: `get_fingerprint()` (`none` = `None` or any non-string) and the objects it serves. -/
structure Cache (γ : Type) where
  fp : Option String
  content : γ

/-- `SourceManager._sources` (insertion-ordered dict alias → Source(alias, cache handler)),
    `SourceManager.default`, and the cache-handler objects alive in the program. -/
structure World (γ : Type) where
  handlers : Nat → Cache γ
  sources : List (String × Nat)
  default : Option (String × Nat)

inductive Op (γ : Type)
  /-- `add(alias, data_handler, cache_handler, make_default)`; the data handler is given by its
      `get_version()` (as formatted by `'{}'`, `none` = `None`) and by what `EveObjBuilder.run` makes of it. -/
  | add (alias : String) (dataVersion : Option String) (objs : γ) (ch : Nat) (makeDefault : Bool)
  | get (alias : String)
  | remove (alias : String)
  | list

inductive Res
  /-- `add` returned; `rebuilt` = the builder ran and `update_cache` was called. -/
  | added (rebuilt : Bool)
  | existingSourceError
  | source (alias : String) (ch : Nat)
  | unknownSourceError
  | removed
  | aliases (l : List String)
  deriving DecidableEq, Repr

def World.aliases {γ : Type} (w : World γ) : List String := w.sources.map (·.1)

/-- `cls._sources[alias]`. -/
def World.lookup {γ : Type} (w : World γ) (alias : String) : Option Nat := w.sources.lookup alias

/-- The decision of `add`: `data_version is None or cache_fp != current_fp`. -/
def needRebuild (eosVersion : String) (cacheFp : Option String) (dataVersion : Option String) : Bool :=
  dataVersion.isNone || cacheFp != some (formatFp eosVersion dataVersion)

def setHandler {γ : Type} (hs : Nat → Cache γ) (i : Nat) (c : Cache γ) : Nat → Cache γ :=
  fun j => if j = i then c else hs j

def step {γ : Type} (ev : String) (w : World γ) : Op γ → World γ × Res
  | .add alias v objs ch mk =>
    if w.aliases.contains alias then (w, .existingSourceError) else
    let cur := formatFp ev v
    let rebuild := needRebuild ev (w.handlers ch).fp v
    let handlers := if rebuild then setHandler w.handlers ch ⟨some cur, objs⟩ else w.handlers
    ({ handlers, sources := w.sources ++ [(alias, ch)], default := if mk then some (alias, ch) else w.default },
     .added rebuild)
  | .get alias =>
    match w.lookup alias with
    | some ch => (w, .source alias ch)
    | none => (w, .unknownSourceError)
  | .remove alias =>
    if w.aliases.contains alias then ({ w with sources := w.sources.filter (·.1 != alias) }, .removed)
    else (w, .unknownSourceError)
  | .list => (w, .aliases w.aliases)

def run {γ : Type} (ev : String) (w : World γ) (ops : List (Op γ)) : World γ :=
  ops.foldl (fun w op => (step ev w op).1) w

/-- Does the operation hand cache handler `c` to `add`? -/
def Op.usesHandler {γ : Type} (c : Nat) : Op γ → Bool
  | .add _ _ _ ch _ => ch == c
  | _ => false

/-- The registry read as a plain finite map, and the operations on that map (specification). -/
def specStep {γ : Type} (m : String → Option Nat) : Op γ → (String → Option Nat)
  | .add alias _ _ ch _ => fun a => if m alias = none ∧ a = alias then some ch else m a
  | .remove alias => fun a => if a = alias then none else m a
  | _ => m

end Eos.SourceMgr
