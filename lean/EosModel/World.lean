import EosModel.Calc
/-! # From-scratch specification of a solar system (properties C01, C02, C05, C13, C14)

No caches, no registers, no messages: every observable is a function of the data universe
(the source) and the current public configuration.  Attribute values are computed bottom-up
along the universe's dependency rank (attributes are listed highest rank first; an attribute may
depend only on attributes listed before it — a violation is an explicit `notWF` outcome, never a
default).
-/
namespace Eos.World
open Eos.Calc

structure AttrMeta where
  id : Int
  maxAttr : Option Int
  default : Option Rat
  hig : Bool
  stackable : Bool
  deriving Repr

structure Modifier where
  filter : Nat       -- 1 item, 2 domain, 3 domain_group, 4 domain_skillrq, 5 owner_skillrq
  domain : Nat       -- 1 self, 2 character, 3 ship, 4 target, 5 other
  extra : Option Int
  tgtAttr : Int
  op : Nat
  agg : Nat
  aggKey : Option Int
  srcAttr : Int
  deriving Repr, DecidableEq

structure Effect where
  id : Int
  category : Nat
  chanceAttr : Option Int
  resistAttr : Option Int
  isBuff : Bool
  mods : List Modifier
  deriving Repr

structure ItemType where
  id : Int
  group : Option Int
  category : Option Int
  defaultEffect : Option Int
  attrs : List (Int × Rat)
  effects : List Int
  reqSkills : List Int
  deriving Repr

structure BuffTemplate where
  buffId : Int
  filter : Nat
  extra : Option Int
  tgtAttr : Int
  op : Nat
  agg : Nat
  deriving Repr

structure Universe where
  attrs : List AttrMeta := []       -- highest dependency rank first
  effects : List Effect := []
  types : List ItemType := []
  buffs : List BuffTemplate := []
  deriving Repr

/-- Item kinds. -/
inductive Kind
  | character | ship | stance | subsystem | moduleHigh | moduleMid | moduleLow | rig | drone
  | fighter | skill | implant | booster | beacon | charge | autocharge
  deriving DecidableEq, Repr

def Kind.ofNat? : Nat → Option Kind
  | 0 => some .character | 1 => some .ship | 2 => some .stance | 3 => some .subsystem
  | 4 => some .moduleHigh | 5 => some .moduleMid | 6 => some .moduleLow | 7 => some .rig
  | 8 => some .drone | 9 => some .fighter | 10 => some .skill | 11 => some .implant
  | 12 => some .booster | 13 => some .beacon | 14 => some .charge | 15 => some .autocharge
  | _ => none

/-- `_modifier_domain`: 2 = character, 3 = ship, none for in-space / root items. -/
def Kind.modDomain : Kind → Option Nat
  | .stance | .subsystem | .moduleHigh | .moduleMid | .moduleLow | .rig | .charge | .autocharge => some 3
  | .skill | .implant | .booster => some 2
  | _ => none

def Kind.ownerModifiable : Kind → Bool
  | .drone | .fighter | .charge | .autocharge => true
  | _ => false

structure Item where
  id : Nat
  kind : Kind
  typeId : Int
  fit : Nat
  state : Nat                       -- effective state (a charge has its container's state)
  parent : Option Nat               -- containing item of a charge / autocharge
  target : Option Nat
  level : Option Rat                -- skill level (skills only)
  modes : List (Int × Nat)          -- effect mode overrides
  deriving Repr

structure Fit where
  id : Nat
  ship : Option Nat
  character : Option Nat
  fleet : Option Nat
  deriving Repr

structure Config where
  hasSource : Bool := false
  fits : List Fit := []
  items : List Item := []
  deriving Repr

inductive Val
  | absent
  | ok (v : Rat)
  | divZero
  | notWF
  deriving Repr, DecidableEq

variable (u : Universe) (cfg : Config)

def attrMeta? (a : Int) : Option AttrMeta := u.attrs.find? (·.id == a)
def effect? (e : Int) : Option Effect := u.effects.find? (·.id == e)
def type? (t : Int) : Option ItemType := u.types.find? (·.id == t)
def item? (i : Nat) : Option Item := cfg.items.find? (·.id == i)
def fit? (f : Nat) : Option Fit := cfg.fits.find? (·.id == f)

/-- An item is loaded iff its solar system has a source that knows its type. -/
def itemType? (it : Item) : Option ItemType := if cfg.hasSource then type? u it.typeId else none
def loaded (it : Item) : Bool := (itemType? u cfg it).isSome

/-- `Effect._state`: the item state from which the effect's category allows it to run. -/
def categoryState : Nat → Option Nat
  | 0 => some 1 | 1 => some 3 | 2 => some 3 | 4 => some 2 | 5 => some 4 | 7 => some 1 | _ => none

def modeOf (it : Item) (e : Int) : Nat := ((it.modes.find? (·.1 == e)).map (·.2)).getD 1

/-- Decision for one effect, as documented for the four run modes. `onlineRunning` is the
status of the item's `online` effect (false when it has none). -/
def runsEffect (it : Item) (ty : ItemType) (e : Effect) (onlineRunning : Bool) : Bool :=
  match categoryState e.category with
  | none => false
  | some es =>
    match modeOf it e.id with
    | 1 =>
      if it.state < es then false
      else if es == 1 then e.chanceAttr.isNone
      else if es == 2 then (if e.id == 16 then true else onlineRunning)
      else if es == 3 then ty.defaultEffect == some e.id
      else if es == 4 then true
      else false
    | 2 => decide (es ≤ it.state)
    | 3 => true
    | 4 => false
    | _ => false

/-- Effects of a loaded item that run in the current configuration. -/
def runningEffects (it : Item) : List Effect :=
  match itemType? u cfg it with
  | none => []
  | some ty =>
    let effs := ty.effects.filterMap (effect? u)
    let onlineRunning := match effs.find? (·.id == 16) with
      | some oe => runsEffect it ty oe false
      | none => false
    effs.filter fun e => runsEffect it ty e onlineRunning

def runningIds (it : Item) : List Int := (runningEffects u cfg it).map (·.id)

/-- `_others`: the containing item (for a charge) and the contained items (for a container). -/
def others (a : Item) : List Item :=
  cfg.items.filter fun x => (a.parent == some x.id) || (x.parent == some a.id)

def shipOf (f : Nat) : Option Nat := (fit? cfg f).bind (·.ship)
def characterOf (f : Nat) : Option Nat := (fit? cfg f).bind (·.character)

/-- Absolute domain of an en-masse local modifier (`__resolve_local_domain`). -/
def resolveDomain (a : Item) (d : Nat) : Option Nat :=
  if d == 1 then (if a.kind == .ship then some 3 else if a.kind == .character then some 2 else none)
  else if d == 2 || d == 3 then some d
  else none

def skillArg (a : Item) (m : Modifier) : Option Int :=
  m.extra.map fun s => if s == -1 then a.typeId else s

/-- Filter part shared by local and projected en-masse modifiers: does loaded item `x`
(of type `tx`) in domain `d` pass modifier `m` carried by `a`? -/
def passesFilter (a : Item) (m : Modifier) (d : Nat) (x : Item) (tx : ItemType) : Bool :=
  if m.filter == 2 then x.kind.modDomain == some d
  else if m.filter == 3 then x.kind.modDomain == some d && m.extra.isSome && tx.group == m.extra
  else if m.filter == 4 then x.kind.modDomain == some d &&
    (match skillArg a m with | some s => tx.reqSkills.contains s | none => false)
  else if m.filter == 5 then x.kind.ownerModifiable &&
    (match skillArg a m with | some s => tx.reqSkills.contains s | none => false)
  else false

/-- Does the local modifier `m` of a running effect on `a` select the loaded item `x`? -/
def affectsLocal (a : Item) (m : Modifier) (x : Item) (tx : ItemType) : Bool :=
  if m.domain == 4 then false
  else if m.filter == 1 then
    if m.domain == 1 then x.id == a.id
    else if m.domain == 2 then x.fit == a.fit && characterOf cfg a.fit == some x.id
    else if m.domain == 3 then x.fit == a.fit && shipOf cfg a.fit == some x.id
    else if m.domain == 5 then (others cfg a).any (·.id == x.id)
    else false
  else
    match resolveDomain a m.domain with
    | none => false
    | some d => x.fit == a.fit && passesFilter a m d x tx

/-- Does the projected modifier `m` (domain target) applied to target item `t` select `x`? -/
def affectsProjected (a : Item) (m : Modifier) (t : Item) (x : Item) (tx : ItemType) : Bool :=
  if m.filter == 1 then x.id == t.id
  else t.kind == .ship && shipOf cfg t.fit == some t.id && x.fit == t.fit && passesFilter a m 3 x tx

/-- Targets a running effect of `a` is applied to: the item's target for projectable effects. -/
def projectionTargets (a : Item) (e : Effect) : List Item :=
  if e.category == 2 then
    match a.target with
    | some t => (item? cfg t).toList
    | none => []
  else []

/-- Same fleet (or same fit): the ships a fleet boost from fit `f` reaches. -/
def boostTargets (f : Nat) : List Item :=
  let fl := (fit? cfg f).bind (·.fleet)
  cfg.fits.filterMap fun g =>
    if g.id == f || (fl.isSome && g.fleet == fl) then g.ship.bind (item? cfg) else none

/-- The value table built so far: `(item id, attr id) ↦ value`. -/
abbrev Table := List ((Nat × Int) × Val)

def Table.get (t : Table) (i : Nat) (a : Int) : Option Val := (t.find? (fun e => e.1 == (i, a))).map (·.2)

/-- Read `(item, attr)` as a dependency of an attribute of rank `rank`: overrides first (skill
level), then the table; an attribute that is not in the table yet has no metadata (absent) or
violates the rank order (`notWF`). -/
def readDep (t : Table) (x : Item) (a : Int) : Val :=
  if x.kind == .skill && a == 280 then (match x.level with | some l => .ok l | none => .absent)
  else match t.get x.id a with
    | some v => v
    | none => if (attrMeta? u a).isSome then .notWF else .absent

def penOfList (l : List Rat) (i : Nat) : Rat := l.getD i 0

/-- How dependencies are read: `(item, attribute) ↦ value`. -/
abbrev Reader := Item → Int → Val

/-- Warfare-buff modifiers a running buff effect on `a` spawns (from the buff id / value attribute
pairs and the source's buff templates). -/
def buffModifiers (rd : Reader) (a : Item) : Except Val (List Modifier) :=
  ([(2468, 2469), (2470, 2471), (2472, 2473), (2536, 2537)] : List (Int × Int)).foldlM (init := []) fun acc p =>
    match rd a p.1 with
    | .ok b =>
      let bid : Int := if 0 ≤ b then b.floor else -((-b).floor)
      .ok (acc ++ (u.buffs.filter (·.buffId == bid)).map fun bt =>
        { filter := bt.filter, domain := 4, extra := bt.extra, tgtAttr := bt.tgtAttr, op := bt.op,
          agg := bt.agg, aggKey := some bt.buffId, srcAttr := p.2 })
    | .absent => .ok acc
    | v => .error v

/-- Resistance factor for a modification of effect `e` landing on `x`. -/
def resistOf (rd : Reader) (e : Effect) (x : Item) : Val :=
  match e.resistAttr with
  | none => .ok 1
  | some r =>
    if r == 0 then .ok 1 else
    let carrier : Option Item :=
      match x.kind with
      | .ship | .drone | .fighter => some x
      | .moduleHigh | .moduleMid | .moduleLow | .rig | .stance | .subsystem => (shipOf cfg x.fit).bind (item? cfg)
      | .charge | .autocharge =>
        (x.parent.bind (item? cfg)).bind fun p =>
          match p.kind with
          | .drone | .fighter => some p
          | .moduleHigh | .moduleMid | .moduleLow => (shipOf cfg p.fit).bind (item? cfg)
          | _ => none
      | _ => none
    match carrier with
    | none => .ok 1
    | some c => match rd c r with
      | .absent => .ok 1
      | v => v

/-- All modifications of attribute `attr` of loaded item `x` (type `tx`). -/
def gather (immune : List Int) (rd : Reader) (x : Item) (tx : ItemType) (attr : Int) : Except Val (List Mod) :=
  cfg.items.foldlM (init := []) fun acc a =>
    match itemType? u cfg a with
    | none => .ok acc
    | some ta =>
      (runningEffects u cfg a).foldlM (init := acc) fun acc e => do
        let imm := match ta.category with | some c => immune.contains c | none => false
        let mk (m : Modifier) (acc : List Mod) : Except Val (List Mod) :=
          match rd a m.srcAttr with
          | .absent => .ok acc
          | .ok v => (match resistOf cfg rd e x with
            | .ok r => .ok (acc ++ [{ op := m.op, value := v, resist := r, agg := m.agg, aggKey := m.aggKey, immune := imm }])
            | w => .error w)
          | w => .error w
        -- local modifiers
        let acc ← (e.mods.filter fun m => m.tgtAttr == attr && affectsLocal cfg a m x tx).foldlM (init := acc)
          fun acc m => mk m acc
        -- projected modifiers of projectable effects, onto the current target
        let acc ← (projectionTargets cfg a e).foldlM (init := acc) fun acc tg =>
          (e.mods.filter fun m => m.domain == 4 && m.tgtAttr == attr && affectsProjected cfg a m tg x tx).foldlM
            (init := acc) fun acc m => mk m acc
        -- fleet boosts
        if e.isBuff then do
          -- the buff id attributes are a dependency only of attributes some buff template targets
          let bms ← (if u.buffs.any (·.tgtAttr == attr) then buffModifiers u rd a else pure [])
          let bms := bms ++ e.mods.filter (·.domain == 4)
          (boostTargets cfg a.fit).foldlM (init := acc) fun acc tg =>
            (bms.filter fun m => m.tgtAttr == attr && affectsProjected cfg a m tg x tx).foldlM
              (init := acc) fun acc m => mk m acc
        else pure acc

/-- Value of one attribute of one item, given the table of all higher-ranked attributes. -/
def valueOf (immune : List Int) (limited : List Int) (pen : Nat → Rat) (rd : Reader) (x : Item) (am : AttrMeta) : Val :=
  if x.kind == .skill && am.id == 280 then (match x.level with | some l => .ok l | none => .absent) else
  match itemType? u cfg x with
  | none => .absent
  | some tx =>
    let base : Option Rat := match tx.attrs.find? (·.1 == am.id) with
      | some p => some p.2
      | none => am.default
    match base with
    | none => .absent
    | some b =>
      match gather u cfg immune rd x tx am.id with
      | .error v => v
      | .ok mods =>
        let cap : Except Val (Option Rat) := match am.maxAttr with
          | none => .ok none
          | some mx => match rd x mx with
            | .ok c => .ok (some c)
            | .absent => .ok none
            | v => .error v
        match cap with
        | .error v => v
        | .ok cap =>
          match calculate pen am.stackable am.hig b mods cap (limited.contains am.id) with
          | .ok v => .ok v
          | .error _ => .divZero

/-- The whole table, bottom-up along the rank order. -/
def evalAll (immune limited : List Int) (pen : Nat → Rat) : Table :=
  u.attrs.foldl (init := []) fun t am =>
    t ++ cfg.items.map fun x => ((x.id, am.id), valueOf u cfg immune limited pen (readDep u t) x am)

/-- Public read of `(item, attr)` from the finished table. -/
def read (t : Table) (x : Item) (a : Int) : Val :=
  if x.kind == .skill && a == 280 then (match x.level with | some l => .ok l | none => .absent)
  else (t.get x.id a).getD .absent

end Eos.World

namespace Eos.World
/-- Penalty-immune affector categories: ship, charge, skill, implant, subsystem. -/
def specImmune : List Int := [6, 8, 16, 20, 32]
/-- Attributes rounded to two digits: cpu, power, cpu output, power output. -/
def specLimited : List Int := [50, 30, 48, 11]
end Eos.World
