import EosModel.Num
import EosModel.Toggle
/-! # Fit validation (property C03)

Two layers.

* **Specification** `validateSpec : Snapshot → skip → Entries`: the stateless reading of the 34
  restriction docstrings of `eos/restriction/restriction/**` over a snapshot of the fit taken
  through the public API (item class, type data as the source serves it, state, running effects,
  placement incl. rack holes, charge relation, skill levels, and the *modified* attribute values
  as the impl reports them — the calculator is not re-modelled here).
* **Register layer**: the 15 restriction registers as toggle registers (`EosModel/Toggle.lean`)
  driven by the six loaded-item messages; `validateImpl` runs the same per-restriction check
  over the register contents, the way `RestrictionService.validate` does.

Partial Python operations reached through a stale register entry (`item._type_attrs[k]` on an
unloaded item, `None.group_id`, `item.attrs[k]` without attribute metadata) are the explicit
error datum `ErrData.internal`, never a default. -/
namespace Eos.Restr
open Eos.Toggle

/-! ## Constants the specification uses (compared with the live ones in `EosGen.RestrictionMaps`) -/
namespace A
def cpu := 50
def cpuOutput := 48
def power := 30
def powerOutput := 11
def upgradeCost := 1153
def upgradeCapacity := 1132
def volume := 161
def capacity := 38
def droneCapacity := 283
def droneBandwidth := 1271
def droneBandwidthUsed := 1272
def maxActiveDrones := 352
def hiSlots := 14
def medSlots := 13
def lowSlots := 12
def rigSlots := 1137
def maxSubsystems := 1367
def fighterTubes := 2216
def turretSlotsLeft := 102
def launcherSlotsLeft := 101
def fighterSupportSlots := 2218
def fighterLightSlots := 2217
def fighterHeavySlots := 2219
def fighterIsSupport := 2213
def fighterIsLight := 2212
def fighterIsHeavy := 2214
def subsystemSlot := 1366
def implantness := 331
def boosterness := 1087
def rigSize := 1547
def isCapitalSize := 1785
def maxGroupFitted := 1544
def maxGroupOnline := 978
def maxGroupActive := 763
def chargeSize := 128
def chargeGroups : List Nat := [604, 605, 606, 609, 610]
def droneGroups : List Nat := [1782, 1783]
def shipTypes : List Nat := [1302, 1303, 1304, 1305, 1944, 2103, 2463, 2486, 2487, 2488, 1380]
def shipGroups : List Nat :=
  [1298, 1299, 1300, 1301, 1872, 1879, 1880, 1881, 2065, 2396, 2476, 2477, 2478, 2479, 2480, 2481,
   2482, 2483, 2484, 2485]
end A
namespace E
def online := 16
def hiPower := 12
def medPower := 13
def loPower := 11
def rigSlot := 2663
def subsystem := 3772
def turretFitted := 42
def launcherFitted := 40
end E
namespace Cat
def charge := 8
def drone := 18
def fighter := 87
def implant := 20
def module := 7
def ship := 6
def skill := 16
def subsystem := 32
end Cat
namespace Grp
def character := 1
def effectBeacon := 920
def shipModifier := 1306
end Grp
/-- Items of type volume above this are capital (docstring of the capital item restriction). -/
def maxSubcapVolume : Rat := 3500
def stOnline := 2
def stActive := 3

/-! ## Data -/
inductive Cls
  | booster | character | charge | autocharge | drone | effectBeacon | fighterSquad | implant
  | moduleHigh | moduleMid | moduleLow | rig | ship | skill | stance | subsystem
  deriving DecidableEq, Repr

def Cls.all : List Cls :=
  [.booster, .character, .charge, .autocharge, .drone, .effectBeacon, .fighterSquad, .implant,
   .moduleHigh, .moduleMid, .moduleLow, .rig, .ship, .skill, .stance, .subsystem]

def Cls.name : Cls → String
  | .booster => "Booster" | .character => "Character" | .charge => "Charge"
  | .autocharge => "Autocharge" | .drone => "Drone" | .effectBeacon => "EffectBeacon"
  | .fighterSquad => "FighterSquad" | .implant => "Implant" | .moduleHigh => "ModuleHigh"
  | .moduleMid => "ModuleMid" | .moduleLow => "ModuleLow" | .rig => "Rig" | .ship => "Ship"
  | .skill => "Skill" | .stance => "Stance" | .subsystem => "Subsystem"

def Cls.ofName? (s : String) : Option Cls := Cls.all.find? (·.name == s)

def Cls.isModule : Cls → Bool
  | .moduleHigh | .moduleMid | .moduleLow => true
  | _ => false

/-- The 34 restriction types, numbered as `eos.const.eos.Restriction`. -/
inductive RType
  | cpu | powergrid | calibration | dronebayVolume | droneBandwidth | launchedDrone | droneGroup
  | highSlot | midSlot | lowSlot | rigSlot | rigSize | subsystemSlot | subsystemIndex | turretSlot
  | launcherSlot | implantIndex | boosterIndex | shipTypeGroup | capitalItem | maxGroupFitted
  | maxGroupOnline | maxGroupActive | skillRequirement | itemClass | state | chargeGroup
  | chargeSize | chargeVolume | fighterSquad | fighterSquadSupport | fighterSquadLight
  | fighterSquadHeavy | loadedItem
  deriving DecidableEq, Repr

def RType.all : List RType :=
  [.cpu, .powergrid, .calibration, .dronebayVolume, .droneBandwidth, .launchedDrone, .droneGroup,
   .highSlot, .midSlot, .lowSlot, .rigSlot, .rigSize, .subsystemSlot, .subsystemIndex, .turretSlot,
   .launcherSlot, .implantIndex, .boosterIndex, .shipTypeGroup, .capitalItem, .maxGroupFitted,
   .maxGroupOnline, .maxGroupActive, .skillRequirement, .itemClass, .state, .chargeGroup,
   .chargeSize, .chargeVolume, .fighterSquad, .fighterSquadSupport, .fighterSquadLight,
   .fighterSquadHeavy, .loadedItem]

def RType.toNat : RType → Nat
  | .cpu => 1 | .powergrid => 2 | .calibration => 3 | .dronebayVolume => 4 | .droneBandwidth => 5
  | .launchedDrone => 6 | .droneGroup => 7 | .highSlot => 8 | .midSlot => 9 | .lowSlot => 10
  | .rigSlot => 11 | .rigSize => 12 | .subsystemSlot => 13 | .subsystemIndex => 14
  | .turretSlot => 15 | .launcherSlot => 16 | .implantIndex => 17 | .boosterIndex => 18
  | .shipTypeGroup => 19 | .capitalItem => 20 | .maxGroupFitted => 21 | .maxGroupOnline => 22
  | .maxGroupActive => 23 | .skillRequirement => 24 | .itemClass => 26 | .state => 27
  | .chargeGroup => 28 | .chargeSize => 29 | .chargeVolume => 30 | .fighterSquad => 31
  | .fighterSquadSupport => 32 | .fighterSquadLight => 33 | .fighterSquadHeavy => 34
  | .loadedItem => 35

def RType.ofNat? (n : Nat) : Option RType := RType.all.find? (·.toNat == n)

/-- Source-dependent data of a loaded item: its type as the cache handler serves it. -/
structure TypeData where
  group : Option Nat
  category : Option Nat
  attrs : List (Nat × Rat)
  /-- effect id, state of the effect's category (1 offline … 4 overload) -/
  effects : List (Nat × Nat)
  reqSkills : List (Nat × Rat)
  deriving DecidableEq, Repr

def TypeData.attr (t : TypeData) (a : Nat) : Option Rat := t.attrs.lookup a
def TypeData.hasAttr (t : TypeData) (a : Nat) : Bool := (t.attr a).isSome
def TypeData.hasEffect (t : TypeData) (e : Nat) : Bool := t.effects.any (·.1 == e)
/-- Highest state the type may take: offline, or the highest state of its effects. -/
def TypeData.maxState (t : TypeData) : Nat := t.effects.foldl (fun m e => max m e.2) 1
/-- Python truthiness of `attrs.get(a)`. -/
def TypeData.truthy (t : TypeData) (a : Nat) : Bool :=
  match t.attr a with
  | some v => v != 0
  | none => false

structure Item where
  id : Nat
  cls : Cls
  typeId : Nat
  state : Nat
  /-- skill level (skills only) -/
  level : Option Rat := none
  /-- loaded charge (modules only) -/
  charge : Option Nat := none
  /-- `none` = the item is not loaded -/
  td : Option TypeData
  running : List Nat := []
  /-- modified attribute values as the impl reports them (`item.attrs[a]`) -/
  mattrs : List (Nat × Rat) := []
  deriving Repr

def Item.mattr (it : Item) (a : Nat) : Option Rat := it.mattrs.lookup a

structure Snapshot where
  items : List Item := []
  ship : Option Nat := none
  character : Option Nat := none
  stance : Option Nat := none
  beacon : Option Nat := none
  skills : List Nat := []
  implants : List Nat := []
  boosters : List Nat := []
  subsystems : List Nat := []
  rigs : List Nat := []
  drones : List Nat := []
  fighters : List Nat := []
  high : List (Option Nat) := []
  mid : List (Option Nat) := []
  low : List (Option Nat) := []
  deriving Repr

def Snapshot.item? (cfg : Snapshot) (i : Nat) : Option Item := cfg.items.find? (·.id == i)
def Snapshot.ids (cfg : Snapshot) : List Nat := cfg.items.map (·.id)

/-- Items placed directly on the fit; rack holes are not items. -/
def Snapshot.placed (cfg : Snapshot) : List Nat :=
  [cfg.character, cfg.ship, cfg.stance, cfg.beacon].filterMap id ++ cfg.skills ++ cfg.implants ++
  cfg.boosters ++ cfg.subsystems ++ (cfg.high ++ cfg.mid ++ cfg.low).filterMap id ++ cfg.rigs ++
  cfg.drones ++ cfg.fighters

/-- Everything that is currently on the fit: placed items and the charges loaded into them. -/
def Snapshot.onFit (cfg : Snapshot) : List Nat :=
  cfg.placed ++ (cfg.items.filter (fun it => cfg.placed.contains it.id)).filterMap (·.charge)

/-- The item records describe exactly the items on the fit, each once. -/
def Snapshot.WF (cfg : Snapshot) : Prop :=
  cfg.ids.Nodup ∧ ∀ i, i ∈ cfg.ids ↔ i ∈ cfg.onFit

def Snapshot.wfb (cfg : Snapshot) : Bool :=
  decide cfg.ids.Nodup && cfg.ids.all (cfg.onFit.contains ·) && cfg.onFit.all (cfg.ids.contains ·)

def Snapshot.shipItem (cfg : Snapshot) : Option Item := cfg.ship.bind cfg.item?
def Snapshot.shipTd (cfg : Snapshot) : Option TypeData := cfg.shipItem.bind (·.td)
/-- `fit.ship.attrs[a]`, `none` when there is no ship or the lookup raises KeyError. -/
def Snapshot.shipMattr (cfg : Snapshot) (a : Nat) : Option Rat := cfg.shipItem.bind (·.mattr a)

/-! ## Error data -/
inductive ErrData
  | resource (totalUse output itemUse : Rat)
  | slotQuantity (used total : Int)
  | slotIndex (index : Rat)
  | rigSize (size allowed : Rat)
  | droneGroup (group : Option Nat) (allowed : List Rat)
  | shipTypeGroup (shipType shipGroup : Option Nat) (types groups : List Rat)
  | capitalItem (volume maxSubcap : Rat)
  | maxGroup (group quantity : Nat) (maxAllowed : Rat)
  | skillRequirement (errs : List (Nat × Option Rat × Rat))
  | itemClass (cls : Cls) (allowed : List Cls)
  | state (st : Nat) (allowed : List Nat)
  | chargeGroup (group : Option Nat) (allowed : List Rat)
  | chargeSize (size : Option Rat) (allowed : Rat)
  | chargeVolume (volume capacity : Rat)
  | loadedItem
  | internal
  deriving DecidableEq, Repr

abbrev Tainted := List (Nat × ErrData)
/-- `{item: {restriction type: error data}}` flattened. -/
abbrev Entries := List (Nat × RType × ErrData)

/-! ## Small numeric helpers -/
/-- Python `int(x)`: truncation towards zero. -/
def trunc (x : Rat) : Int := if 0 ≤ x then x.floor else -((-x).floor)

/-- Python `round(x, 2)` on the exact value: nearest multiple of 1/100, ties to even. -/
def round2 (x : Rat) : Rat :=
  let y := x * 100
  let f := y.floor
  let r := y - f
  let n : Int := if r < 1/2 then f else if 1/2 < r then f + 1 else if f % 2 = 0 then f else f + 1
  (n : Rat) / 100

def sumRat (l : List Rat) : Rat := l.foldl (· + ·) 0

/-- A set of numbers in canonical form (sorted, no repetitions). -/
def canon (l : List Rat) : List Rat := (l.mergeSort (fun a b => decide (a ≤ b))).eraseDups

def natIn (n : Option Nat) (l : List Rat) : Bool :=
  match n with
  | some k => l.contains (k : Rat)
  | none => false

/-! ## The 15 restriction registers -/
inductive Trigger
  | load | state (s : Nat) | effect (e : Nat)
  deriving DecidableEq, Repr

/-- What a register remembers about an item besides the item itself. -/
inductive Payload
  | unit
  | groups (allowed : List Rat)
  | typesGroups (types groups : List Rat)
  | index (slot : Rat)
  | maxGroup (group : Nat) (restricted : Bool)
  deriving DecidableEq, Repr

structure RegSpec where
  trigger : Trigger
  /-- the handler's early-return conditions: `none` = the item is not registered -/
  pick : Cls → TypeData → Option Payload

def attrValues (t : TypeData) (as : List Nat) : List Rat := canon (as.filterMap t.attr)

def pickMaxGroup (a : Nat) (c : Cls) (t : TypeData) : Option Payload :=
  if c.isModule then t.group.map (fun g => .maxGroup g (t.hasAttr a)) else none

def pickSlotIndex (cls : Cls) (a : Nat) (c : Cls) (t : TypeData) : Option Payload :=
  if c = cls then (t.attr a).map .index else none

def noReg : RegSpec := ⟨.load, fun _ _ => none⟩

def regSpec : RType → RegSpec
  | .capitalItem => ⟨.load, fun c t =>
      if c.isModule then (match t.attr A.volume with
        | some v => if maxSubcapVolume < v then some .unit else none
        | none => none) else none⟩
  | .chargeGroup => ⟨.load, fun c t =>
      if c.isModule then
        (let g := attrValues t A.chargeGroups; if g.isEmpty then none else some (.groups g))
      else none⟩
  | .chargeSize => ⟨.load, fun c t => if c.isModule && t.hasAttr A.chargeSize then some .unit else none⟩
  | .chargeVolume => ⟨.load, fun c _ => if c.isModule then some .unit else none⟩
  | .droneGroup => ⟨.load, fun c _ => if c = .drone then some .unit else none⟩
  | .maxGroupFitted => ⟨.load, pickMaxGroup A.maxGroupFitted⟩
  | .maxGroupOnline => ⟨.state stOnline, pickMaxGroup A.maxGroupOnline⟩
  | .maxGroupActive => ⟨.state stActive, pickMaxGroup A.maxGroupActive⟩
  | .rigSize => ⟨.effect E.rigSlot, fun _ t => if t.hasAttr A.rigSize then some .unit else none⟩
  | .shipTypeGroup => ⟨.load, fun c t =>
      if c.isModule then
        (let ty := attrValues t A.shipTypes
         let gr := attrValues t A.shipGroups
         if ty.isEmpty && gr.isEmpty then none else some (.typesGroups ty gr))
      else none⟩
  | .skillRequirement => ⟨.load, fun c t => if !t.reqSkills.isEmpty && c != .rig then some .unit else none⟩
  | .subsystemIndex => ⟨.load, pickSlotIndex .subsystem A.subsystemSlot⟩
  | .implantIndex => ⟨.load, pickSlotIndex .implant A.implantness⟩
  | .boosterIndex => ⟨.load, pickSlotIndex .booster A.boosterness⟩
  | .state => ⟨.state stOnline, fun c _ => if c = .charge || c = .autocharge then none else some .unit⟩
  | _ => noReg

def RType.stateful : List RType :=
  [.capitalItem, .chargeGroup, .chargeSize, .chargeVolume, .droneGroup, .maxGroupFitted,
   .maxGroupOnline, .maxGroupActive, .rigSize, .shipTypeGroup, .skillRequirement, .subsystemIndex,
   .implantIndex, .boosterIndex, .state]

/-- The six messages restriction registers subscribe to. -/
inductive Msg
  | itemLoaded (i : Nat) (c : Cls) (t : TypeData)
  | itemUnloaded (i : Nat)
  | statesOn (i : Nat) (ss : List Nat)
  | statesOff (i : Nat) (ss : List Nat)
  | effectsOn (i : Nat) (es : List Nat)
  | effectsOff (i : Nat) (es : List Nat)
  deriving Repr

/-- Micro-configuration: what the message history says about every item. -/
structure Micro where
  data : Nat → Option (Cls × TypeData) := fun _ => none
  states : Nat → List Nat := fun _ => []
  running : Nat → List Nat := fun _ => []

def Micro.apply (μ : Micro) : Msg → Micro
  | .itemLoaded i c t => { μ with data := upd μ.data i (some (c, t)) }
  | .itemUnloaded i => { μ with data := upd μ.data i none }
  | .statesOn i ss => { μ with states := upd μ.states i (ss ++ μ.states i) }
  | .statesOff i ss => { μ with states := upd μ.states i ((μ.states i).filter (!ss.contains ·)) }
  | .effectsOn i es => { μ with running := upd μ.running i (es ++ μ.running i) }
  | .effectsOff i es => { μ with running := upd μ.running i ((μ.running i).filter (!es.contains ·)) }

/-- Protocol of `MsgHelper`: an item is loaded while unloaded, states/effects start only on a
loaded item and only when not already active, and an item is unloaded only after its effects were
stopped and its states deactivated. -/
def Micro.wf (μ : Micro) : Msg → Bool
  | .itemLoaded i _ _ => (μ.data i).isNone
  | .itemUnloaded i => (μ.data i).isSome && (μ.states i).isEmpty && (μ.running i).isEmpty
  | .statesOn i ss => (μ.data i).isSome && ss.all (!(μ.states i).contains ·)
  | .statesOff i _ => (μ.data i).isSome
  | .effectsOn i es => (μ.data i).isSome && es.all (!(μ.running i).contains ·)
  | .effectsOff i _ => (μ.data i).isSome

/-- Items which are not loaded have no active states and no running effects. -/
def Micro.Clean (μ : Micro) : Prop := ∀ i, μ.data i = none → μ.states i = [] ∧ μ.running i = []

def Micro.run (μ : Micro) (h : List Msg) : Micro := h.foldl Micro.apply μ

/-- Every message of the history respects the protocol at the point where it is published. -/
def WFHist : Micro → List Msg → Prop
  | _, [] => True
  | μ, m :: h => μ.wf m = true ∧ WFHist (μ.apply m) h

def Trigger.flag (μ : Micro) (i : Nat) : Trigger → Bool
  | .load => true
  | .state s => (μ.states i).contains s
  | .effect e => (μ.running i).contains e

/-- What register `r` ought to hold about item `i` in micro-configuration `μ`:
`{i | loaded i ∧ (state / effect flag) ∧ P i}`. -/
def derived (r : RegSpec) (μ : Micro) (i : Nat) : Option Payload :=
  if r.trigger.flag μ i then (μ.data i).bind (fun ct => r.pick ct.1 ct.2) else none

/-- What a message means to register `r` (`μ'` = micro-configuration after the message). -/
def RegSpec.event (r : RegSpec) (μ' : Micro) : Msg → Ev Payload
  | .itemLoaded i c t => if r.trigger = .load then .on i (r.pick c t) else .skip
  | .itemUnloaded i => if r.trigger = .load then .off i else .skip
  | .statesOn i ss =>
    match r.trigger with
    | .state s => if ss.contains s then .on i ((μ'.data i).bind (fun ct => r.pick ct.1 ct.2)) else .skip
    | _ => .skip
  | .statesOff i ss =>
    match r.trigger with
    | .state s => if ss.contains s then .off i else .skip
    | _ => .skip
  | .effectsOn i es =>
    match r.trigger with
    | .effect e => if es.contains e then .on i ((μ'.data i).bind (fun ct => r.pick ct.1 ct.2)) else .skip
    | _ => .skip
  | .effectsOff i es =>
    match r.trigger with
    | .effect e => if es.contains e then .off i else .skip
    | _ => .skip

abbrev Regs := RType → Reg Payload

def Regs.empty : Regs := fun _ => []

def Regs.step (regs : Regs) (μ' : Micro) (m : Msg) : Regs :=
  fun t => Toggle.step (regs t) ((regSpec t).event μ' m)

/-- Registers and micro-configuration after a message history. -/
def runHist : Micro × Regs → List Msg → Micro × Regs
  | s, [] => s
  | (μ, regs), m :: h => runHist (μ.apply m, regs.step (μ.apply m) m) h

/-! ## Registers derived statelessly from the snapshot -/
def Trigger.flagCfg (it : Item) : Trigger → Bool
  | .load => true
  | .state s => decide (1 ≤ s) && decide (s ≤ it.state)
  | .effect e => it.running.contains e

/-- `{i | loaded i ∧ flag i ∧ P i}` read off the snapshot. -/
def derivedCfg (r : RegSpec) (cfg : Snapshot) : Reg Payload :=
  cfg.items.filterMap fun it =>
    if r.trigger.flagCfg it then (it.td.bind (r.pick it.cls)).map (fun d => (it.id, d)) else none

/-- The snapshot and the micro-configuration describe the same loaded items. -/
structure Agree (μ : Micro) (cfg : Snapshot) : Prop where
  nodup : cfg.ids.Nodup
  data : ∀ it ∈ cfg.items, μ.data it.id = it.td.map (fun t => (it.cls, t))
  states : ∀ it ∈ cfg.items, it.td.isSome → ∀ s, (μ.states it.id).contains s = (decide (1 ≤ s) && decide (s ≤ it.state))
  running : ∀ it ∈ cfg.items, it.td.isSome → ∀ e, (μ.running it.id).contains e = it.running.contains e
  live : ∀ i, μ.data i ≠ none → i ∈ cfg.ids
  clean : μ.Clean

/-! ## Per-restriction checks over a register -/
def withTd (cfg : Snapshot) (i : Nat) (f : Item → TypeData → Option ErrData) : Option (Nat × ErrData) :=
  match cfg.item? i with
  | some it =>
    match it.td with
    | some t => (f it t).map (fun d => (i, d))
    | none => some (i, .internal)
  | none => some (i, .internal)

/-- Charge of a registered container, if the container carries one. `none` = nothing to check. -/
def withCharge (cfg : Snapshot) (i : Nat) (f : Item → Item → Option (Nat × ErrData)) : Option (Nat × ErrData) :=
  match cfg.item? i with
  | some it =>
    match it.charge with
    | some c =>
      match cfg.item? c with
      | some ch => f it ch
      | none => some (i, .internal)
    | none => none
  | none => some (i, .internal)

/-- `(ship type id, ship group id)` the way the ship type/group restriction sees them:
both `None` without a ship and also with a ship which is not loaded. -/
def shipTypeGroupIds (cfg : Snapshot) : Option Nat × Option Nat :=
  match cfg.shipItem with
  | some s =>
    match s.td with
    | some t => (some s.typeId, t.group)
    | none => (none, none)
  | none => (none, none)

def skillLevel (cfg : Snapshot) (typeId : Nat) : Option Rat :=
  match cfg.items.find? (fun it => cfg.skills.contains it.id && it.typeId == typeId) with
  | some sk => if sk.td.isSome then sk.level else none
  | none => none

def sortSkillErrs (l : List (Nat × Option Rat × Rat)) : List (Nat × Option Rat × Rat) :=
  l.mergeSort (fun a b => decide (a.1 ≤ b.1))

def maxGroupAttr : RType → Nat
  | .maxGroupOnline => A.maxGroupOnline
  | .maxGroupActive => A.maxGroupActive
  | _ => A.maxGroupFitted

/-- Drone groups the ship allows (`allowedDroneGroupN` of the ship's type; nothing without a loaded ship). -/
def droneAllowed (cfg : Snapshot) : List Rat :=
  match cfg.shipTd with
  | some st => attrValues st A.droneGroups
  | none => []

/-- Restrictions the ship switches off as a whole: capital modules on a capital ship, drone groups
when the ship names none, rig size when the ship has none. -/
def inactive (t : RType) (cfg : Snapshot) : Bool :=
  match t with
  | .capitalItem =>
    (match cfg.shipTd with
     | some st => st.truthy A.isCapitalSize
     | none => false)
  | .droneGroup => (droneAllowed cfg).isEmpty
  | .rigSize => (cfg.shipTd.bind (·.attr A.rigSize)).isNone
  | _ => false

/-- The check `validate()` runs for one register entry `e` (`reg` = whole register, read only to
count items of the same group / slot). `none` = the item is fine. -/
def check (t : RType) (cfg : Snapshot) (reg : Reg Payload) (e : Nat × Payload) : Option (Nat × ErrData) :=
  match t with
  | .capitalItem =>
    withTd cfg e.1 fun _ td =>
      match td.attr A.volume with
      | some v => some (.capitalItem v maxSubcapVolume)
      | none => some .internal
  | .chargeGroup =>
    match e.2 with
    | .groups allowed => withCharge cfg e.1 fun _ ch =>
      match ch.td with
      | some ct => if natIn ct.group allowed then none else some (ch.id, .chargeGroup ct.group allowed)
      | none => none
    | _ => some (e.1, .internal)
  | .chargeSize =>
    withCharge cfg e.1 fun it ch =>
      match ch.td with
      | some ct =>
        match it.td.bind (·.attr A.chargeSize) with
        | some want =>
          if ct.attr A.chargeSize = some want then none else some (ch.id, .chargeSize (ct.attr A.chargeSize) want)
        | none => some (e.1, .internal)
      | none => none
  | .chargeVolume =>
    withCharge cfg e.1 fun it ch =>
      let vol := ((ch.td.bind (·.attr A.volume)).getD 0 : Rat)
      let cap := ((it.td.bind (·.attr A.capacity)).getD 0 : Rat)
      if cap < vol then some (ch.id, .chargeVolume vol cap) else none
  | .droneGroup =>
    withTd cfg e.1 fun _ td =>
      if natIn td.group (droneAllowed cfg) then none else some (.droneGroup td.group (droneAllowed cfg))
  | .maxGroupFitted | .maxGroupOnline | .maxGroupActive =>
    match e.2 with
    | .maxGroup g true =>
      let q := reg.countP (fun x => match x.2 with | .maxGroup g' _ => g' == g | _ => false)
      match (cfg.item? e.1).bind (·.mattr (maxGroupAttr t)) with
      | some m => if (m : Rat) < (q : Rat) then some (e.1, .maxGroup g q m) else none
      | none => some (e.1, .internal)
    | .maxGroup _ false => none
    | _ => some (e.1, .internal)
  | .rigSize =>
    match cfg.shipTd.bind (·.attr A.rigSize) with
    | some allowed =>
      withTd cfg e.1 fun _ td =>
        match td.attr A.rigSize with
        | some sz => if sz = allowed then none else some (.rigSize sz allowed)
        | none => some .internal
    | none => none
  | .shipTypeGroup =>
    match e.2 with
    | .typesGroups ty gr =>
      let sg := shipTypeGroupIds cfg
      if !natIn sg.1 ty && !natIn sg.2 gr then some (e.1, .shipTypeGroup sg.1 sg.2 ty gr) else none
    | _ => some (e.1, .internal)
  | .skillRequirement =>
    withTd cfg e.1 fun _ td =>
      let errs := td.reqSkills.filterMap fun rq =>
        match skillLevel cfg rq.1 with
        | some lvl => if lvl < rq.2 then some (rq.1, some lvl, rq.2) else none
        | none => some (rq.1, none, rq.2)
      if errs.isEmpty then none else some (.skillRequirement (sortSkillErrs errs))
  | .subsystemIndex | .implantIndex | .boosterIndex =>
    match e.2 with
    | .index x => if 1 < reg.countP (fun y => y.2 == .index x) then some (e.1, .slotIndex x) else none
    | _ => some (e.1, .internal)
  | .state =>
    withTd cfg e.1 fun it td =>
      if td.maxState < it.state then some (.state it.state ([1, 2, 3, 4].filter (· ≤ td.maxState))) else none
  | _ => none

/-- The register-based restrictions: `validate()` walks the register and taints what fails the check. -/
def ruleReg (t : RType) (reg : Reg Payload) (cfg : Snapshot) : Tainted :=
  if inactive t cfg then [] else reg.filterMap (check t cfg reg)

/-! ## The 19 restrictions which keep no register -/
/-- Validators of `CLASS_VALIDATORS` as expressions over the item type. -/
inductive VExpr
  | catEq (c : Nat) | groupEq (g : Nat) | hasAttr (a : Nat) | hasEffect (e : Nat)
  | and (a b : VExpr) | or (a b : VExpr)
  deriving DecidableEq, Repr

def VExpr.eval (t : TypeData) : VExpr → Bool
  | .catEq c => t.category == some c
  | .groupEq g => t.group == some g
  | .hasAttr a => t.hasAttr a
  | .hasEffect e => t.hasEffect e
  | .and a b => a.eval t && b.eval t
  | .or a b => a.eval t || b.eval t

/-- Which item type an item class may wrap (item class restriction docstring + item class docs). -/
def classValidators : List (Cls × VExpr) :=
  [(.booster, .and (.catEq Cat.implant) (.hasAttr A.boosterness)),
   (.character, .groupEq Grp.character),
   (.charge, .catEq Cat.charge),
   (.drone, .catEq Cat.drone),
   (.effectBeacon, .groupEq Grp.effectBeacon),
   (.fighterSquad, .and (.catEq Cat.fighter)
      (.or (.or (.hasAttr A.fighterIsHeavy) (.hasAttr A.fighterIsLight)) (.hasAttr A.fighterIsSupport))),
   (.implant, .and (.catEq Cat.implant) (.hasAttr A.implantness)),
   (.moduleHigh, .and (.catEq Cat.module) (.hasEffect E.hiPower)),
   (.moduleMid, .and (.catEq Cat.module) (.hasEffect E.medPower)),
   (.moduleLow, .and (.catEq Cat.module) (.hasEffect E.loPower)),
   (.rig, .and (.catEq Cat.module) (.hasEffect E.rigSlot)),
   (.ship, .catEq Cat.ship),
   (.skill, .catEq Cat.skill),
   (.stance, .groupEq Grp.shipModifier),
   (.subsystem, .and (.catEq Cat.subsystem) (.hasEffect E.subsystem))]

def ruleItemClass (cfg : Snapshot) : Tainted :=
  cfg.items.filterMap fun it =>
    match it.td with
    | none => none
    | some t =>
      let ok := match classValidators.lookup it.cls with
        | some v => v.eval t
        | none => false
      if ok then none
      else some (it.id, .itemClass it.cls ((classValidators.filter (·.2.eval t)).map (·.1)))

def ruleLoadedItem (cfg : Snapshot) : Tainted :=
  cfg.items.filterMap fun it => if it.td.isNone then some (it.id, .loadedItem) else none

/-- Resource restrictions: total use (optionally rounded to two digits) against the ship's output;
when exceeded every user with positive use is reported. -/
def ruleResource (cfg : Snapshot) (users : List Item) (useAttr outAttr : Nat) (rounded : Bool) : Tainted :=
  let missing := users.filter (fun it => (it.mattr useAttr).isNone)
  if !missing.isEmpty then missing.map (fun it => (it.id, .internal))
  else
    let uses := users.filterMap (fun it => (it.mattr useAttr).map (fun u => (it.id, u)))
    let raw := sumRat (uses.map (·.2))
    let used := if rounded then round2 raw else raw
    let output := (cfg.shipMattr outAttr).getD 0
    if used ≤ output then []
    else uses.filterMap fun u => if u.2 ≤ 0 then none else some (u.1, .resource used output u.2)

def usersEffect (cfg : Snapshot) (e a : Nat) : List Item :=
  cfg.items.filter fun it =>
    it.running.contains e && (match it.td with | some t => t.hasAttr a | none => false)

def slotTotal (v : Option Rat) : Int := (v.map trunc).getD 0

def ruleSlotUsers (users : List Nat) (total : Int) : Tainted :=
  let used : Int := users.length
  if total < used then users.map (fun i => (i, .slotQuantity used total)) else []

/-- Ordered racks: holes occupy slots, only items positioned beyond the provided slots are reported
(never a hole). -/
def ruleOrdered (rack : List (Option Nat)) (total : Int) : Tainted :=
  let used : Int := rack.length
  if total < used then ((rack.drop total.toNat).filterMap id).map (fun i => (i, .slotQuantity used total)) else []

def fighterUsers (cfg : Snapshot) (a : Nat) : List Nat :=
  (cfg.items.filter fun it => it.cls = .fighterSquad &&
    (match it.td with | some t => t.truthy a | none => false)).map (·.id)

def ruleStateless (t : RType) (cfg : Snapshot) : Tainted :=
  match t with
  | .cpu => ruleResource cfg (usersEffect cfg E.online A.cpu) A.cpu A.cpuOutput true
  | .powergrid => ruleResource cfg (usersEffect cfg E.online A.power) A.power A.powerOutput true
  | .calibration => ruleResource cfg (usersEffect cfg E.rigSlot A.upgradeCost) A.upgradeCost A.upgradeCapacity false
  | .dronebayVolume =>
    ruleResource cfg (cfg.items.filter fun it => it.cls = .drone &&
      (match it.td with | some t => t.hasAttr A.volume | none => false)) A.volume A.droneCapacity false
  | .droneBandwidth =>
    ruleResource cfg (cfg.items.filter fun it => it.cls = .drone && decide (stOnline ≤ it.state) &&
      (match it.td with | some t => t.hasAttr A.droneBandwidthUsed | none => false))
      A.droneBandwidthUsed A.droneBandwidth false
  | .launchedDrone =>
    ruleSlotUsers ((cfg.items.filter fun it => it.cls = .drone && decide (stOnline ≤ it.state)).map (·.id))
      (slotTotal ((cfg.character.bind cfg.item?).bind (·.mattr A.maxActiveDrones)))
  | .turretSlot =>
    ruleSlotUsers ((cfg.items.filter (·.running.contains E.turretFitted)).map (·.id))
      (slotTotal (cfg.shipMattr A.turretSlotsLeft))
  | .launcherSlot =>
    ruleSlotUsers ((cfg.items.filter (·.running.contains E.launcherFitted)).map (·.id))
      (slotTotal (cfg.shipMattr A.launcherSlotsLeft))
  | .fighterSquadSupport => ruleSlotUsers (fighterUsers cfg A.fighterIsSupport) (slotTotal (cfg.shipMattr A.fighterSupportSlots))
  | .fighterSquadLight => ruleSlotUsers (fighterUsers cfg A.fighterIsLight) (slotTotal (cfg.shipMattr A.fighterLightSlots))
  | .fighterSquadHeavy => ruleSlotUsers (fighterUsers cfg A.fighterIsHeavy) (slotTotal (cfg.shipMattr A.fighterHeavySlots))
  | .highSlot => ruleOrdered cfg.high (slotTotal (cfg.shipMattr A.hiSlots))
  | .midSlot => ruleOrdered cfg.mid (slotTotal (cfg.shipMattr A.medSlots))
  | .lowSlot => ruleOrdered cfg.low (slotTotal (cfg.shipMattr A.lowSlots))
  | .rigSlot => ruleSlotUsers cfg.rigs (slotTotal (cfg.shipMattr A.rigSlots))
  | .subsystemSlot => ruleSlotUsers cfg.subsystems (slotTotal (cfg.shipMattr A.maxSubsystems))
  | .fighterSquad => ruleSlotUsers cfg.fighters (slotTotal (cfg.shipMattr A.fighterTubes))
  | .itemClass => ruleItemClass cfg
  | .loadedItem => ruleLoadedItem cfg
  | _ => []

/-! ## The service -/
/-- One restriction, given the content of its register (ignored by the 19 stateless ones). -/
def rule (t : RType) (reg : Reg Payload) (cfg : Snapshot) : Tainted :=
  if RType.stateful.contains t then ruleReg t reg cfg else ruleStateless t cfg

/-- `RestrictionService.validate`: run every restriction not named in `skip`, merge the failures
into `{item: {restriction type: data}}`. -/
def validateWith (f : RType → Tainted) (skip : List RType) : Entries :=
  (RType.all.filter (!skip.contains ·)).flatMap fun t => (f t).map fun e => (e.1, t, e.2)

/-- Validation as the code runs it: over the registers the message history left behind. -/
def validateImpl (regs : Regs) (cfg : Snapshot) (skip : List RType) : Entries :=
  validateWith (fun t => rule t (regs t) cfg) skip

/-- Validation as the documentation states it: a function of the current configuration only. -/
def validateSpec (cfg : Snapshot) (skip : List RType) : Entries :=
  validateWith (fun t => rule t (derivedCfg (regSpec t) cfg) cfg) skip

inductive Outcome
  | passes
  | raisesValidation (data : Entries)
  | raisesInternal
  deriving Repr

def isInternal (e : Nat × RType × ErrData) : Bool := e.2.2 == .internal

/-- `validate()` returns silently exactly when nothing was reported. -/
def outcome (es : Entries) : Outcome :=
  if es.any isInternal then .raisesInternal else if es.isEmpty then .passes else .raisesValidation es

def keys (es : Entries) : List Nat := es.map (·.1)

end Eos.Restr
