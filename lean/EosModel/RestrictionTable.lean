import EosModel.Restrictions
/-! Hand-written specification table for the regenerated obligations of C03: which messages each
restriction register needs for its predicate, which attribute / effect / state constants each
restriction and each stat register it reads may mention, which stat or container each slot
restriction reads.  Written from the restriction docstrings and the model above (the numeric ids are
the model's own constants); `EosGen.RestrictionMaps` is compared with it by `decide`. -/
namespace Eos.Restr.Table
open Eos.Restr

def N (n : Nat) : List Int := [Int.ofNat n]
def Ns (l : List Nat) : List Int := l.map Int.ofNat

/-- The message pair a register needs so that it holds `{i | loaded i ∧ flag i ∧ P i}`. -/
def triggerMsgs : Trigger → List String
  | .load => ["ItemLoaded", "ItemUnloaded"]
  | .state _ => ["StatesActivatedLoaded", "StatesDeactivatedLoaded"]
  | .effect _ => ["EffectsStarted", "EffectsStopped"]

def handlersOf (t : RType) : List String :=
  if RType.stateful.contains t then triggerMsgs (regSpec t).trigger else []

def modules : String := "TRACKED_ITEM_CLASSES=ModuleHigh+ModuleMid+ModuleLow"

/-- class name, restriction type, constants it may mention, symbolic references -/
def rows : List (String × RType × List (String × List Int) × List String) := [
  ("CpuRestriction", .cpu, [("AttrId.cpu", N A.cpu)], ["_stat_name=cpu"]),
  ("PowergridRestriction", .powergrid, [("AttrId.power", N A.power)], ["_stat_name=powergrid"]),
  ("CalibrationRestriction", .calibration, [("AttrId.upgrade_cost", N A.upgradeCost)], ["_stat_name=calibration"]),
  ("DroneBayVolumeRestriction", .dronebayVolume, [("AttrId.volume", N A.volume)], ["_stat_name=dronebay"]),
  ("DroneBandwidthRestriction", .droneBandwidth, [("AttrId.drone_bandwidth_used", N A.droneBandwidthUsed)],
    ["_stat_name=drone_bandwidth"]),
  ("LaunchedDroneRestriction", .launchedDrone, [], ["_slot_stats=self._fit.stats.launched_drones"]),
  ("DroneGroupRestrictionRegister", .droneGroup, [("ALLOWED_GROUP_ATTR_IDS", Ns A.droneGroups)], ["class:Drone"]),
  ("HighSlotRestriction", .highSlot, [], ["_container=self._fit.modules.high", "_slot_stats=self._fit.stats.high_slots"]),
  ("MidSlotRestriction", .midSlot, [], ["_container=self._fit.modules.mid", "_slot_stats=self._fit.stats.mid_slots"]),
  ("LowSlotRestriction", .lowSlot, [], ["_container=self._fit.modules.low", "_slot_stats=self._fit.stats.low_slots"]),
  ("RigSlotRestriction", .rigSlot, [], ["_container=self._fit.rigs", "_slot_stats=self._fit.stats.rig_slots"]),
  ("RigSizeRestrictionRegister", .rigSize, [("AttrId.rig_size", N A.rigSize), ("EffectId.rig_slot", N E.rigSlot)], []),
  ("SubsystemSlotRestriction", .subsystemSlot, [],
    ["_container=self._fit.subsystems", "_slot_stats=self._fit.stats.subsystem_slots"]),
  ("SubsystemIndexRestrictionRegister", .subsystemIndex, [("AttrId.subsystem_slot", N A.subsystemSlot)], ["class:Subsystem"]),
  ("TurretSlotRestriction", .turretSlot, [], ["_slot_stats=self._fit.stats.turret_slots"]),
  ("LauncherSlotRestriction", .launcherSlot, [], ["_slot_stats=self._fit.stats.launcher_slots"]),
  ("ImplantIndexRestrictionRegister", .implantIndex, [("AttrId.implantness", N A.implantness)], ["class:Implant"]),
  ("BoosterIndexRestrictionRegister", .boosterIndex, [("AttrId.boosterness", N A.boosterness)], ["class:Booster"]),
  ("ShipTypeGroupRestrictionRegister", .shipTypeGroup,
    [("ALLOWED_GROUP_ATTR_IDS", Ns A.shipGroups), ("ALLOWED_TYPE_ATTR_IDS", Ns A.shipTypes)], [modules]),
  ("CapitalItemRestrictionRegister", .capitalItem,
    [("AttrId.is_capital_size", N A.isCapitalSize), ("AttrId.volume", N A.volume), ("MAX_SUBCAP_VOLUME", [3500])], [modules]),
  ("MaxGroupFittedRestrictionRegister", .maxGroupFitted, [("AttrId.max_group_fitted", N A.maxGroupFitted)], [modules]),
  ("MaxGroupOnlineRestrictionRegister", .maxGroupOnline,
    [("AttrId.max_group_online", N A.maxGroupOnline), ("State.online", N stOnline)], [modules]),
  ("MaxGroupActiveRestrictionRegister", .maxGroupActive,
    [("AttrId.max_group_active", N A.maxGroupActive), ("State.active", N stActive)], [modules]),
  ("SkillRequirementRestrictionRegister", .skillRequirement, [], ["EXCEPTIONS=Rig"]),
  ("ItemClassRestriction", .itemClass, [], []),
  ("StateRestrictionRegister", .state, [("State.online", N stOnline)], ["EXCEPTIONS=Charge+Autocharge"]),
  ("ChargeGroupRestrictionRegister", .chargeGroup, [("ALLOWED_GROUP_ATTR_IDS", Ns A.chargeGroups)], []),
  ("ChargeSizeRestrictionRegister", .chargeSize, [("AttrId.charge_size", N A.chargeSize)], []),
  ("ChargeVolumeRestrictionRegister", .chargeVolume, [("AttrId.capacity", N A.capacity), ("AttrId.volume", N A.volume)], []),
  ("FighterSquadRestriction", .fighterSquad, [], ["_container=self._fit.fighters", "_slot_stats=self._fit.stats.fighter_squads"]),
  ("FighterSquadSupportRestriction", .fighterSquadSupport, [], ["_slot_stats=self._fit.stats.fighter_squads_support"]),
  ("FighterSquadLightRestriction", .fighterSquadLight, [], ["_slot_stats=self._fit.stats.fighter_squads_light"]),
  ("FighterSquadHeavyRestriction", .fighterSquadHeavy, [], ["_slot_stats=self._fit.stats.fighter_squads_heavy"]),
  ("LoadedItemRestriction", .loadedItem, [], [])]

/-- The table in the shape of the generated one. -/
def restrictions : List (String × Nat × List String × List (String × List Int) × List String) :=
  rows.map fun r => (r.1, r.2.1.toNat, handlersOf r.2.1, r.2.2.1, r.2.2.2)

def effMsgs : List String := ["EffectsStarted", "EffectsStopped"]
def loadMsgs : List String := ["ItemLoaded", "ItemUnloaded"]

/-- The stat registers the restrictions read: users by message pair, use and output attributes. -/
def statRegisters : List (String × List String × List (String × List Int) × List String) := [
  ("cpu", effMsgs, [("AttrId.cpu", N A.cpu), ("AttrId.cpu_output", N A.cpuOutput), ("EffectId.online", N E.online)], []),
  ("powergrid", effMsgs,
    [("AttrId.power", N A.power), ("AttrId.power_output", N A.powerOutput), ("EffectId.online", N E.online)], []),
  ("calibration", effMsgs,
    [("AttrId.upgrade_capacity", N A.upgradeCapacity), ("AttrId.upgrade_cost", N A.upgradeCost),
     ("EffectId.rig_slot", N E.rigSlot)], []),
  ("dronebay", loadMsgs, [("AttrId.drone_capacity", N A.droneCapacity), ("AttrId.volume", N A.volume)], ["class:Drone"]),
  ("drone_bandwidth", ["StatesActivatedLoaded", "StatesDeactivatedLoaded"],
    [("AttrId.drone_bandwidth", N A.droneBandwidth), ("AttrId.drone_bandwidth_used", N A.droneBandwidthUsed),
     ("State.online", N stOnline)], ["class:Drone"]),
  ("turret_slots", effMsgs,
    [("AttrId.turret_slots_left", N A.turretSlotsLeft), ("EffectId.turret_fitted", N E.turretFitted)], []),
  ("launcher_slots", effMsgs,
    [("AttrId.launcher_slots_left", N A.launcherSlotsLeft), ("EffectId.launcher_fitted", N E.launcherFitted)], []),
  ("launched_drones", ["StatesActivated", "StatesDeactivated"],
    [("AttrId.max_active_drones", N A.maxActiveDrones), ("State.online", N stOnline)], ["class:Drone"]),
  ("fighter_squads_support", loadMsgs,
    [("AttrId.fighter_squadron_is_support", N A.fighterIsSupport), ("AttrId.fighter_support_slots", N A.fighterSupportSlots)],
    ["class:FighterSquad"]),
  ("fighter_squads_light", loadMsgs,
    [("AttrId.fighter_light_slots", N A.fighterLightSlots), ("AttrId.fighter_squadron_is_light", N A.fighterIsLight)],
    ["class:FighterSquad"]),
  ("fighter_squads_heavy", loadMsgs,
    [("AttrId.fighter_heavy_slots", N A.fighterHeavySlots), ("AttrId.fighter_squadron_is_heavy", N A.fighterIsHeavy)],
    ["class:FighterSquad"])]

def slotStats : List (String × String × Nat) := [
  ("high_slots", "self.__fit.modules.high", A.hiSlots),
  ("mid_slots", "self.__fit.modules.mid", A.medSlots),
  ("low_slots", "self.__fit.modules.low", A.lowSlots),
  ("rig_slots", "self.__fit.rigs", A.rigSlots),
  ("subsystem_slots", "self.__fit.subsystems", A.maxSubsystems),
  ("fighter_squads", "self.__fit.fighters", A.fighterTubes)]

def restrictionEnum : List (String × Nat) := [
  ("cpu", 1), ("powergrid", 2), ("calibration", 3), ("dronebay_volume", 4), ("drone_bandwidth", 5),
  ("launched_drone", 6), ("drone_group", 7), ("high_slot", 8), ("mid_slot", 9), ("low_slot", 10),
  ("rig_slot", 11), ("rig_size", 12), ("subsystem_slot", 13), ("subsystem_index", 14), ("turret_slot", 15),
  ("launcher_slot", 16), ("implant_index", 17), ("booster_index", 18), ("ship_type_group", 19),
  ("capital_item", 20), ("max_group_fitted", 21), ("max_group_online", 22), ("max_group_active", 23),
  ("skill_requirement", 24), ("item_class", 26), ("state", 27), ("charge_group", 28), ("charge_size", 29),
  ("charge_volume", 30), ("fighter_squad", 31), ("fighter_squad_support", 32), ("fighter_squad_light", 33),
  ("fighter_squad_heavy", 34), ("loaded_item", 35)]

def classValidators : List (String × VExpr) := Eos.Restr.classValidators.map fun cv => (cv.1.name, cv.2)

end Eos.Restr.Table
