/-! # Item containers of a fit (model of `eos/item_container/*.py`, `eos/item/module.py::Module.charge`,
`eos/solar_system/fit_set.py`, `eos/fleet/fit_set.py` and the damage-profile setters of `eos/fit.py`)

The model follows the code as it is: every mutating method first changes its own storage
(optimistic insert), then runs `_handle_item_addition` (which raises when `item._container` is set), then
rolls the storage back.  Partial Python operations (`list[i]`, `list.index`, `dict[k]`, `del dict[k]`)
are explicit error outcomes.  Items are `Nat` ids; `owner` is the back-reference `item._container`
(kept at the precision of the place; what Python can tell apart is `Place.ref`).  Mathlib-free. -/
namespace Eos.Containers

/-- Exception classes raised by the modelled methods (part of every observation). -/
inductive Err | typeError | valueError | keyError | indexError | slotTaken
  deriving DecidableEq, Repr

/-- Python class of an object handed to a container (`other` = anything that is no eos item). -/
inductive Cls
  | modHigh | modMid | modLow | subsystem | rig | drone | fighter | implant | booster
  | skill | character | ship | stance | beacon | charge | autocharge | other
  deriving DecidableEq, Repr

/-- Set-like containers: the six `ItemSet`s of fit `f`, `fit.skills`, the `ItemDict` of item `m`. -/
inductive SetId | plain (f k : Nat) | skills (f : Nat) | auto (m : Nat)
  deriving DecidableEq, Repr

/-- `ItemDescriptor`s: character/ship/stance/effect_beacon of fit `f` (k = 0..3), charge of module `m`. -/
inductive SlotId | fit (f k : Nat) | charge (m : Nat)
  deriving DecidableEq, Repr

/-- Every place an item can be in.  `rack f r`: `fit.modules.high/mid/low` for r = 0/1/2. -/
inductive Place | rack (f r : Nat) | set (c : SetId) | slot (c : SlotId)
  deriving DecidableEq, Repr

/-- The `item_class` the container was constructed with. -/
def Place.itemClass : Place → Option Cls
  | .rack _ 0 => some .modHigh | .rack _ 1 => some .modMid | .rack _ 2 => some .modLow
  | .set (.plain _ 0) => some .subsystem | .set (.plain _ 1) => some .rig
  | .set (.plain _ 2) => some .drone | .set (.plain _ 3) => some .fighter
  | .set (.plain _ 4) => some .implant | .set (.plain _ 5) => some .booster
  | .set (.skills _) => some .skill | .set (.auto _) => some .autocharge
  | .slot (.fit _ 0) => some .character | .slot (.fit _ 1) => some .ship
  | .slot (.fit _ 2) => some .stance | .slot (.fit _ 3) => some .beacon
  | .slot (.charge _) => some .charge
  | _ => none

/-- What `item._container` is for an item in this place, as far as Python can tell:
the container object, the fit (descriptors on `Fit`), or the parent item (charge, `container_override`). -/
inductive Ref | cont (p : Place) | fit (f : Nat) | item (m : Nat)
  deriving DecidableEq, Repr

def Place.ref : Place → Ref
  | .slot (.fit f _) => .fit f
  | .slot (.charge m) => .item m
  | .set (.auto m) => .item m
  | p => .cont p

/-- Static data of the item objects: Python class and `_type_id`. -/
structure Univ where
  cls : Nat → Cls
  tid : Nat → Nat

structure World where
  /-- `ItemList.__list` of rack `r` of fit `f` -/
  lists : Nat → Nat → List (Option Nat)
  /-- `ItemSet.__set` (also the inner set of `TypeUniqueItemSet` / `ItemDict`) -/
  sets : SetId → List Nat
  /-- `TypeUniqueItemSet.__type_id_map` / `ItemDict.__keyed_items` -/
  keyed : SetId → List (Nat × Nat)
  /-- attribute behind an `ItemDescriptor` -/
  slots : SlotId → Option Nat
  /-- `item._container` -/
  owner : Nat → Option Place
  /-- `fit._solar_system` / `SolarSystem.fits.__set` -/
  fitSs : Nat → Option Nat
  ssFits : Nat → List Nat
  /-- `fit._fleet` / `Fleet.fits.__set` -/
  fitFl : Nat → Option Nat
  flFits : Nat → List Nat
  /-- `fit.default_incoming_dmg` (profile id) and `fit.rah_incoming_dmg` -/
  dmg : Nat → Nat
  rah : Nat → Option Nat

/-- A fresh world: nothing anywhere (a `Fit` whose character was taken out). -/
def World.empty : World :=
  { lists := fun _ _ => [], sets := fun _ => [], keyed := fun _ => [], slots := fun _ => none,
    owner := fun _ => none, fitSs := fun _ => none, ssFits := fun _ => [], fitFl := fun _ => none,
    flFits := fun _ => [], dmg := fun _ => 0, rah := fun _ => none }

def upd {α β} [DecidableEq α] (f : α → β) (a : α) (b : β) : α → β := fun x => if x = a then b else f x

def World.setList (s : World) (f r : Nat) (l : List (Option Nat)) : World :=
  { s with lists := fun f' r' => if f' = f ∧ r' = r then l else s.lists f' r' }
def World.setSet (s : World) (c : SetId) (l : List Nat) : World := { s with sets := upd s.sets c l }
def World.setKeyed (s : World) (c : SetId) (l : List (Nat × Nat)) : World := { s with keyed := upd s.keyed c l }
def World.setSlot (s : World) (c : SlotId) (v : Option Nat) : World := { s with slots := upd s.slots c v }
def World.setOwner (s : World) (i : Nat) (o : Option Place) : World := { s with owner := upd s.owner i o }
/-- `_handle_item_removal` for each of `xs` (used by the `clear` methods). -/
def World.dropOwners (s : World) (xs : List Nat) : World :=
  { s with owner := fun i => if i ∈ xs then none else s.owner i }

/-! ## Python list primitives -/

/-- Items of a rack, holes skipped (`ListItemView`). -/
def items (l : List (Option Nat)) : List Nat := l.filterMap id

/-- `ItemList._allocate(index)`: pad with `None` until `index` is accessible. -/
def allocate (l : List (Option Nat)) (index : Int) : List (Option Nat) :=
  l ++ List.replicate (index - l.length + 1).toNat none

/-- `ItemList._cleanup()`: drop trailing `None`s. -/
def cleanup : List (Option Nat) → List (Option Nat)
  | [] => []
  | x :: xs =>
    match x, cleanup xs with
    | none, [] => []
    | x, ys => x :: ys

/-- Python `l[i]` for a list of length `n`: the position, or `none` = IndexError. -/
def pyIndex (n : Nat) (i : Int) : Option Nat :=
  if 0 ≤ i then (if i.toNat < n then some i.toNat else none)
  else (if (-i).toNat ≤ n then some (n - (-i).toNat) else none)

/-- Python `list.insert(k, v)` for `k ≥ 0` (positions past the end append). -/
def pyInsert (l : List (Option Nat)) (k : Nat) (v : Option Nat) : List (Option Nat) := l.take k ++ v :: l.drop k

/-- Python `list.index(v)`; `none` = ValueError. -/
def indexOf? (v : Option Nat) : List (Option Nat) → Option Nat
  | [] => none
  | x :: xs => if x = v then some 0 else (indexOf? v xs).map (· + 1)

/-- `dict` key lookup / deletion on an association list (keys are unique by construction). -/
def lookupKey (k : Nat) : List (Nat × Nat) → Option Nat
  | [] => none
  | (k', v) :: xs => if k' = k then some v else lookupKey k xs
def delKey (k : Nat) (l : List (Nat × Nat)) : List (Nat × Nat) := l.filter (fun e => e.1 ≠ k)

inductive Outcome | ok | error (e : Err)
  deriving DecidableEq, Repr

abbrev Res := Outcome × World

/-- `_check_class`. -/
def checkClass (U : Univ) (p : Place) (v : Option Nat) (allowNone : Bool) : Bool :=
  match v with
  | none => allowNone
  | some i => p.itemClass = some (U.cls i)

/-! ## ItemList -/

def listInsert (U : Univ) (s : World) (f r : Nat) (index : Int) (v : Option Nat) : Res :=
  if !checkClass U (.rack f r) v true then (.error .typeError, s) else
  let l1 := allocate (s.lists f r) (index - 1)
  let k : Nat := if index < 0 then (l1.length + index).toNat else index.toNat
  let l2 := pyInsert l1 k v
  match v with
  | none => (.ok, s.setList f r (cleanup l2))
  | some i =>
    let s1 := s.setList f r l2
    match s1.owner i with
    | some _ => (.error .valueError, s1.setList f r (cleanup (l2.eraseIdx k)))
    | none => (.ok, s1.setOwner i (some (.rack f r)))

def listAppend (U : Univ) (s : World) (f r : Nat) (v : Option Nat) : Res :=
  match v with
  | none => (.error .typeError, s)
  | some i =>
    if !checkClass U (.rack f r) v false then (.error .typeError, s) else
    let l1 := s.lists f r ++ [some i]
    let s1 := s.setList f r l1
    match s1.owner i with
    | some _ => (.error .valueError, s1.setList f r l1.dropLast)
    | none => (.ok, s1.setOwner i (some (.rack f r)))

/-- common tail of `place` and `equip`: store, `_handle_item_addition`, on failure empty the slot and clean up -/
def listPut (s : World) (f r : Nat) (l : List (Option Nat)) (k i : Nat) : Res :=
  let l2 := l.set k (some i)
  let s1 := s.setList f r l2
  match s1.owner i with
  | some _ => (.error .valueError, s1.setList f r (cleanup (l2.set k none)))
  | none => (.ok, s1.setOwner i (some (.rack f r)))

def listPlace (U : Univ) (s : World) (f r : Nat) (index : Int) (v : Option Nat) : Res :=
  match v with
  | none => (.error .typeError, s)
  | some i =>
    if !checkClass U (.rack f r) v false then (.error .typeError, s) else
    let l0 := s.lists f r
    match pyIndex l0.length index with
    | some k =>
      match l0[k]? with
      | some (some _) => (.error .slotTaken, s)
      | _ => listPut s f r l0 k i
    | none =>
      let l1 := allocate l0 index
      match pyIndex l1.length index with
      | none => (.error .indexError, s.setList f r l1)
      | some k => listPut s f r l1 k i

def listEquip (U : Univ) (s : World) (f r : Nat) (v : Option Nat) : Res :=
  match v with
  | none => (.error .typeError, s)
  | some i =>
    if !checkClass U (.rack f r) v false then (.error .typeError, s) else
    let l0 := s.lists f r
    match indexOf? none l0 with
    | some k => listPut s f r l0 k i
    | none => listPut s f r (l0 ++ [none]) l0.length i

def listRemoveAt (s : World) (f r k : Nat) : Res :=
  let l0 := s.lists f r
  let s1 := match l0[k]? with
    | some (some i) => s.setOwner i none
    | _ => s
  (.ok, s1.setList f r (cleanup (l0.eraseIdx k)))

def listFreeAt (s : World) (f r k : Nat) : Res :=
  let l0 := s.lists f r
  match l0[k]? with
  | some (some i) => (.ok, (s.setOwner i none).setList f r (cleanup (l0.set k none)))
  | _ => (.ok, s)

/-- `remove`/`free` called with an integer. -/
def listAtIdx (act : World → Nat → Nat → Nat → Res) (s : World) (f r : Nat) (index : Int) : Res :=
  match pyIndex (s.lists f r).length index with
  | none => (.error .indexError, s)
  | some k => act s f r k

/-- `remove`/`free` called with an item or `None`. -/
def listAtVal (act : World → Nat → Nat → Nat → Res) (s : World) (f r : Nat) (v : Option Nat) : Res :=
  match indexOf? v (s.lists f r) with
  | none => (.error .valueError, s)
  | some k => act s f r k

def listClear (s : World) (f r : Nat) : Res :=
  (.ok, (s.dropOwners (items (s.lists f r))).setList f r [])

/-! ## ItemSet, TypeUniqueItemSet, ItemDict -/

def setAdd (U : Univ) (s : World) (c : SetId) (v : Option Nat) : Res :=
  match v with
  | none => (.error .typeError, s)
  | some i =>
    if !checkClass U (.set c) v false then (.error .typeError, s) else
    let was := decide (i ∈ s.sets c)
    let l1 := if was then s.sets c else i :: s.sets c   -- `set.add`
    let s1 := s.setSet c l1
    match s1.owner i with
    | some _ => (.error .valueError, if was then s1 else s1.setSet c (l1.erase i))
    | none => (.ok, s1.setOwner i (some (.set c)))

def setRemove (s : World) (c : SetId) (v : Option Nat) : Res :=
  match v with
  | none => (.error .keyError, s)
  | some i =>
    if i ∈ s.sets c then (.ok, (s.setOwner i none).setSet c ((s.sets c).erase i))
    else (.error .keyError, s)

def setClear (s : World) (c : SetId) : Res :=
  (.ok, (s.dropOwners (s.sets c)).setSet c [])

/-- shared shape of `TypeUniqueItemSet.add` (key = type id) and `ItemDict.__setitem__`:
class check, duplicate key check, store the key, `ItemSet.add`, on failure delete the key again -/
def keyedAdd (U : Univ) (s : World) (c : SetId) (key : Nat) (v : Option Nat) : Res :=
  if !checkClass U (.set c) v false then (.error .typeError, s) else
  match lookupKey key (s.keyed c), v with
  | none, some i =>
    let s1 := s.setKeyed c ((key, i) :: s.keyed c)
    match setAdd U s1 c v with
    | (.error e, s2) => (.error e, s2.setKeyed c (delKey key (s2.keyed c)))
    | r => r
  | _, _ => (.error .valueError, s)

def tuAdd (U : Univ) (s : World) (f : Nat) (v : Option Nat) : Res :=
  match v with
  | none => (.error .typeError, s)
  | some i => keyedAdd U s (.skills f) (U.tid i) v

/-- `ItemSet.remove(item)` then `del map[key]` (KeyError when the key is absent). -/
def keyedRemove (s : World) (c : SetId) (key : Nat) (v : Option Nat) : Res :=
  match setRemove s c v with
  | (.ok, s1) =>
    match lookupKey key (s1.keyed c) with
    | none => (.error .keyError, s1)
    | some _ => (.ok, s1.setKeyed c (delKey key (s1.keyed c)))
  | r => r

/-- `TypeUniqueItemSet.remove(item)`: the key deleted is the item's own type id. -/
def tuRemove (U : Univ) (s : World) (f : Nat) (v : Option Nat) : Res :=
  match v with
  | none => (.error .keyError, s)
  | some i => keyedRemove s (.skills f) (U.tid i) v

/-- `TypeUniqueItemSet.__delitem__(type_id)`: look the item up, then `self.remove(item)`. -/
def tuDel (U : Univ) (s : World) (f t : Nat) : Res :=
  match lookupKey t (s.keyed (.skills f)) with
  | none => (.error .keyError, s)
  | some i => tuRemove U s f (some i)

/-- `ItemDict.__delitem__(key)`. -/
def dictDel (s : World) (m key : Nat) : Res :=
  match lookupKey key (s.keyed (.auto m)) with
  | none => (.error .keyError, s)
  | some i => keyedRemove s (.auto m) key (some i)

def keyedClear (s : World) (c : SetId) : Res :=
  (.ok, (setClear s c).2.setKeyed c [])

/-! ## ItemDescriptor -/

def assign (U : Univ) (s : World) (c : SlotId) (v : Option Nat) : Res :=
  if !checkClass U (.slot c) v true then (.error .typeError, s) else
  let old := s.slots c
  let s1 := match old with
    | some o => s.setOwner o none
    | none => s
  let s2 := s1.setSlot c v
  match v with
  | none => (.ok, s2)
  | some i =>
    match s2.owner i with
    | none => (.ok, s2.setOwner i (some (.slot c)))
    | some _ =>
      let s3 := s2.setSlot c old
      -- the old item was released a moment ago, so its own `_handle_item_addition` cannot raise
      (.error .valueError, match old with
        | some o => s3.setOwner o (some (.slot c))
        | none => s3)

/-! ## Fit sets of solar systems and fleets, damage profiles -/

def ssAdd (s : World) (ss f : Nat) : Res :=
  match s.fitSs f with
  | some _ => (.error .valueError, s)
  | none => (.ok, { s with ssFits := upd s.ssFits ss (f :: s.ssFits ss), fitSs := upd s.fitSs f (some ss) })

def ssRemove (s : World) (ss f : Nat) : Res :=
  if f ∈ s.ssFits ss then
    (.ok, { s with ssFits := upd s.ssFits ss ((s.ssFits ss).erase f), fitSs := upd s.fitSs f none })
  else (.error .keyError, s)

def ssClear (s : World) (ss : Nat) : Res :=
  (.ok, { s with ssFits := upd s.ssFits ss [], fitSs := fun f => if f ∈ s.ssFits ss then none else s.fitSs f })

def flAdd (s : World) (fl f : Nat) : Res :=
  match s.fitFl f with
  | some _ => (.error .valueError, s)
  | none => (.ok, { s with flFits := upd s.flFits fl (f :: s.flFits fl), fitFl := upd s.fitFl f (some fl) })

def flRemove (s : World) (fl f : Nat) : Res :=
  if f ∈ s.flFits fl then
    (.ok, { s with flFits := upd s.flFits fl ((s.flFits fl).erase f), fitFl := upd s.fitFl f none })
  else (.error .keyError, s)

def flClear (s : World) (fl : Nat) : Res :=
  (.ok, { s with flFits := upd s.flFits fl [], fitFl := fun f => if f ∈ s.flFits fl then none else s.fitFl f })

/-- Argument of a damage-profile setter: a `DmgProfile` (by id), `None`, or something else. -/
inductive DmgArg | profile (p : Nat) | none | junk
  deriving DecidableEq, Repr

def setDmg (s : World) (f : Nat) : DmgArg → Res
  | .profile p => (.ok, { s with dmg := upd s.dmg f p })
  | _ => (.error .typeError, s)

def setRah (s : World) (f : Nat) : DmgArg → Res
  | .profile p => (.ok, { s with rah := upd s.rah f (some p) })
  | .none => (.ok, { s with rah := upd s.rah f none })
  | .junk => (.error .typeError, s)

/-! ## Public operations -/

inductive Op
  | insert (f r : Nat) (index : Int) (v : Option Nat)
  | append (f r : Nat) (v : Option Nat)
  | place (f r : Nat) (index : Int) (v : Option Nat)
  | equip (f r : Nat) (v : Option Nat)
  | removeIdx (f r : Nat) (index : Int)
  | removeVal (f r : Nat) (v : Option Nat)
  | freeIdx (f r : Nat) (index : Int)
  | freeVal (f r : Nat) (v : Option Nat)
  | clear (f r : Nat)
  | setAdd (f k : Nat) (v : Option Nat)
  | setRemove (f k : Nat) (v : Option Nat)
  | setClear (f k : Nat)
  | tuAdd (f : Nat) (v : Option Nat)
  | tuRemove (f : Nat) (v : Option Nat)
  | tuDel (f : Nat) (tid : Nat)
  | tuClear (f : Nat)
  | dictSet (m key : Nat) (v : Option Nat)
  | dictDel (m key : Nat)
  | dictClear (m : Nat)
  | assign (c : SlotId) (v : Option Nat)
  | ssAdd (ss f : Nat) | ssRemove (ss f : Nat) | ssClear (ss : Nat)
  | flAdd (fl f : Nat) | flRemove (fl f : Nat) | flClear (fl : Nat)
  | setDmg (f : Nat) (a : DmgArg) | setRah (f : Nat) (a : DmgArg)
  deriving Repr

def step (U : Univ) (s : World) : Op → Res
  | .insert f r index v => listInsert U s f r index v
  | .append f r v => listAppend U s f r v
  | .place f r index v => listPlace U s f r index v
  | .equip f r v => listEquip U s f r v
  | .removeIdx f r index => listAtIdx listRemoveAt s f r index
  | .removeVal f r v => listAtVal listRemoveAt s f r v
  | .freeIdx f r index => listAtIdx listFreeAt s f r index
  | .freeVal f r v => listAtVal listFreeAt s f r v
  | .clear f r => listClear s f r
  | .setAdd f k v => setAdd U s (.plain f k) v
  | .setRemove f k v => setRemove s (.plain f k) v
  | .setClear f k => setClear s (.plain f k)
  | .tuAdd f v => tuAdd U s f v
  | .tuRemove f v => tuRemove U s f v
  | .tuDel f tid => tuDel U s f tid
  | .tuClear f => keyedClear s (.skills f)
  | .dictSet m key v => keyedAdd U s (.auto m) key v
  | .dictDel m key => dictDel s m key
  | .dictClear m => keyedClear s (.auto m)
  | .assign c v => assign U s c v
  | .ssAdd ss f => ssAdd s ss f
  | .ssRemove ss f => ssRemove s ss f
  | .ssClear ss => ssClear s ss
  | .flAdd fl f => flAdd s fl f
  | .flRemove fl f => flRemove s fl f
  | .flClear fl => flClear s fl
  | .setDmg f a => setDmg s f a
  | .setRah f a => setRah s f a

/-- State after a whole history (outcomes dropped). -/
def run (U : Univ) (s : World) : List Op → World
  | [] => s
  | op :: ops => run U (step U s op).2 ops

/-! ## Read-only views (what `len`, iteration, `in`, `items()`, `index`, key lookup return) -/

/-- Items held by a place. -/
def contents (s : World) : Place → List Nat
  | .rack f r => items (s.lists f r)
  | .set c => s.sets c
  | .slot c => (s.slots c).toList

/-- Where an item hangs: on a fit directly, or on a parent item. -/
def Place.host : Place → Sum Nat Nat
  | .rack f _ => .inl f
  | .set (.plain f _) => .inl f
  | .set (.skills f) => .inl f
  | .set (.auto m) => .inr m
  | .slot (.fit f _) => .inl f
  | .slot (.charge m) => .inr m

/-- `item._fit`: follow `_container._fit` (at most `fuel` parent items deep). -/
def fitOf (s : World) : Nat → Nat → Option Nat
  | 0, _ => none
  | fuel + 1, i =>
    match s.owner i with
    | none => none
    | some p =>
      match p.host with
      | .inl f => some f
      | .inr m => fitOf s fuel m

/-- `len(rack)` and `len(rack.items())`. -/
def rackLen (s : World) (f r : Nat) : Nat := (s.lists f r).length
def rackItemsLen (s : World) (f r : Nat) : Nat := (items (s.lists f r)).length
/-- `value in rack` (value may be `None`) and `value in rack.items()` (`None` is never in the view). -/
def rackContains (s : World) (f r : Nat) (v : Option Nat) : Bool := decide (v ∈ s.lists f r)
def rackItemsContains (s : World) (f r : Nat) : Option Nat → Bool
  | none => false
  | some i => decide (some i ∈ s.lists f r)
/-- `len(set)`, `item in set`. -/
def setLen (s : World) (c : SetId) : Nat := (s.sets c).length
def setContains (s : World) (c : SetId) (i : Nat) : Bool := decide (i ∈ s.sets c)
/-- `skills[type_id]` / `dict[key]` (`none` = KeyError), `key in ...`, `len(dict)`. -/
def keyedGet (s : World) (c : SetId) (key : Nat) : Option Nat := lookupKey key (s.keyed c)
def keyedLen (s : World) (c : SetId) : Nat := (s.keyed c).length

end Eos.Containers
