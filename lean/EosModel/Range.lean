import EosModel.Num
/-! Hand-written specification of the range queries (property C20).
Written from the property statement, not from the code. -/
namespace Eos.Range

/-- Where an item lives relative to the queried solar system. -/
inductive Place | here | other | noSolarSystem | noFit
  deriving DecidableEq, Repr

def Place.ofNat? : Nat → Option Place
  | 0 => some .here | 1 => some .other | 2 => some .noSolarSystem | 3 => some .noFit | _ => none

def Place.toNat : Place → Nat
  | .here => 0 | .other => 1 | .noSolarSystem => 2 | .noFit => 3

/-- Both items must belong to the queried solar system. -/
def mismatch (p1 p2 : Place) : Bool := !(p1 == .here && p2 == .here)

def allPlaces : List Place := [.here, .other, .noSolarSystem, .noFit]

/-- The specification's decision table in the shape of the generated one. -/
def specTable : List (Nat × Nat × Bool) :=
  allPlaces.flatMap fun p1 => allPlaces.map fun p2 => (p1.toNat, p2.toNat, mismatch p1 p2)

structure P3 where
  x : Rat
  y : Rat
  z : Rat

/-- Squared Euclidean distance. -/
def distSq (a b : P3) : Rat := (a.x - b.x) * (a.x - b.x) + (a.y - b.y) * (a.y - b.y) + (a.z - b.z) * (a.z - b.z)

inductive Out
  | mismatch
  | ok (ctcSq : Rat)

def query (p1 p2 : Place) (a b : P3) : Out :=
  if mismatch p1 p2 then .mismatch else .ok (distSq a b)

end Eos.Range
