import EosModel.Num
/-! Effect status (property C05), specification.

Part 1 is the hand-written *specification* of which effects run, written from the `EffectMode`
doc-comments in `eos/const/eos.py` and the property statement (not from `effect_status.py`).
Part 2 is the expected shape of the complete decision table (`EosGen.EffectStatusTable`).
The state machine built on it is in `EosModel/EffectStatus.lean`. -/
namespace Eos.EffectStatus

/-! ## 1. Specification -/

inductive State | offline | online | active | overload
  deriving DecidableEq, Repr, Inhabited

namespace State
def toNat : State → Nat | offline => 1 | online => 2 | active => 3 | overload => 4
def ofNat? : Nat → Option State
  | 1 => some offline | 2 => some online | 3 => some active | 4 => some overload | _ => none
def name : State → String
  | offline => "offline" | online => "online" | active => "active" | overload => "overload"
def all : List State := [offline, online, active, overload]
/-- "item is in `a`+ state": states are ordered by their ids. -/
def le (a b : State) : Bool := a.toNat ≤ b.toNat
end State

/-- Effect run mode; `unknown` is any value that is not an `EffectMode`. -/
inductive ModeK | full | stateC | forceRun | forceStop | unknown
  deriving DecidableEq, Repr

def ModeK.ofId : Nat → ModeK
  | 1 => .full | 2 => .stateC | 3 => .forceRun | 4 => .forceStop | _ => .unknown

/-- The four documented run modes and their ids. -/
def modeNames : List (String × Nat) :=
  [("full_compliance", 1), ("state_compliance", 2), ("force_run", 3), ("force_stop", 4)]

/-- Run mode an effect has when nothing was set for it. -/
def defaultMode : Nat := 1

inductive Cat | passive | active | target | area | online | overload | dungeon | system
  deriving DecidableEq, Repr

namespace Cat
def toNat : Cat → Nat
  | passive => 0 | active => 1 | target => 2 | area => 3 | online => 4 | overload => 5 | dungeon => 6 | system => 7
def all : List Cat := [passive, active, target, area, online, overload, dungeon, system]
def name : Cat → String
  | passive => "passive" | active => "active" | target => "target" | area => "area" | online => "online"
  | overload => "overload" | dungeon => "dungeon" | system => "system"
def ofNat? (n : Nat) : Option Cat := all.find? (·.toNat == n)
/-- State from which effects of the category may run; `area` and `dungeon` have none (undocumented). -/
def state? : Cat → Option State
  | passive => some .offline | system => some .offline | online => some .online
  | active => some .active | target => some .active | overload => some .overload
  | area => none | dungeon => none
end Cat

/-- What full compliance looks at besides the state. -/
structure Traits where
  isDefault : Bool      -- it is the item type's default effect
  hasChance : Bool      -- a fitting usage chance is specified for it
  isOnline : Bool       -- it is the 'online' effect itself
  deriving DecidableEq, Repr

/-- Full compliance, per effect category (quoted from the `EffectMode.full_compliance` comment):
    offline: "run when item is in offline+ state, and when they do not have fitting usage chance specified";
    online: "run when item is in online+ state, and when item has runnable 'online' effect";
    active: "run when item is in active+ state, and only when effect is default item effect";
    overload: "run when item is in overload+ state". -/
def fullExtra (es : State) (t : Traits) (onlineRuns : Bool) : Bool :=
  match es with
  | .offline => !t.hasChance
  | .online => t.isOnline || onlineRuns
  | .active => t.isDefault
  | .overload => true

/-- Should an effect whose category starts at state `es` run on an item in state `st`? -/
def decideStatus (st : State) (mode : ModeK) (es : State) (t : Traits) (onlineRuns : Bool) : Bool :=
  match mode with
  | .full => es.le st && fullExtra es t onlineRuns
  | .stateC => es.le st            -- "always run if item's state is high enough to run it"
  | .forceRun => true              -- "always running no matter what"
  | .forceStop => false            -- "never running no matter what"
  | .unknown => false

/-! ## 2. Shape of the generated decision table -/

inductive Online | absent | present (mode : Nat) | self
  deriving DecidableEq, Repr

def Online.toNat : Online → Nat | .absent => 0 | .present m => m | .self => 6

structure Key where
  st : State
  mode : Nat
  cat : Cat
  isDefault : Bool
  online : Online
  hasChance : Bool
  override : Option State
  deriving DecidableEq, Repr

def modeValues : List Nat := [1, 2, 3, 4, 5]
def onlineValues : List Online := [.absent, .present 1, .present 2, .present 3, .present 4, .present 5, .self]
def overrideValues : List (Option State) := none :: State.all.map some

/-- All keys for one item state and effect run mode, in the order the generator walks them. The effect
    in question can be 'online' itself only in category online (the effect factory forces that category). -/
def keysFor (s : State) (m : Nat) : List Key :=
  Cat.all.flatMap fun c => [false, true].flatMap fun d => onlineValues.flatMap fun o =>
  [false, true].flatMap fun h => overrideValues.filterMap fun v =>
    if o = .self ∧ c ≠ .online then none else some ⟨s, m, c, d, o, h, v⟩

def keyPartsOf (s : State) : List (List Key) := modeValues.map fun m => keysFor s m

/-- The complete product, one part per (item state, effect run mode). -/
def keyParts : List (List Key) := State.all.flatMap keyPartsOf

def allKeys : List Key := keyParts.flatten

def b2n (b : Bool) : Nat := if b then 1 else 0

/-- Decimal packing used by the generated rows: digits `s m c d o h v` (then the outcome digit). -/
def Key.pack (k : Key) : Nat :=
  (((((k.st.toNat * 10 + k.mode) * 10 + k.cat.toNat) * 10 + b2n k.isDefault) * 10 + k.online.toNat) * 10
    + b2n k.hasChance) * 10 + (match k.override with | none => 0 | some v => v.toNat)

/-- State the decision is taken for: the override when one is given, else the item's. -/
def Key.effState (k : Key) : State := match k.override with | none => k.st | some v => v

/-- Does the 'online' effect of the row's item run (it is resolved for the same state)? -/
def Key.onlineRuns (k : Key) : Bool :=
  match k.online with
  | .present m => decideStatus k.effState (ModeK.ofId m) .online ⟨false, false, true⟩ false
  | _ => false

/-- Specified outcome; `none` for categories without a documented state. -/
def Key.spec (k : Key) : Option Bool :=
  k.cat.state?.map fun es =>
    decideStatus k.effState (ModeK.ofId k.mode) es ⟨k.isDefault, k.hasChance, k.online == .self⟩ k.onlineRuns

/-- A generated row is the row of key `k` and, where the category is documented, has the specified outcome. -/
def rowOk (row : Nat) (k : Key) : Bool :=
  row / 10 == k.pack && (match k.spec with | some b => row % 10 == b2n b | none => true)

def rowsOk : List Nat → List Key → Bool
  | [], [] => true
  | r :: rs, k :: ks => rowOk r k && rowsOk rs ks
  | _, _ => false

def partsOk : List (List Nat) → List (List Key) → Bool
  | [], [] => true
  | p :: ps, k :: ks => rowsOk p k && partsOk ps ks
  | _, _ => false

/-- Strictly increasing and above `lo` (linear-time check behind "every key occurs once"). -/
def sortedAbove : Nat → List Nat → Bool
  | _, [] => true
  | lo, x :: xs => decide (lo < x) && sortedAbove x xs

def lastOr (lo : Nat) : List Nat → Nat
  | [] => lo
  | x :: xs => lastOr x xs

def chainParts : Nat → List (List Nat) → Bool
  | _, [] => true
  | lo, p :: ps => sortedAbove lo p && chainParts (lastOr lo p) ps

end Eos.EffectStatus
