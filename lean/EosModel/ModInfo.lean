/-! Hand-written specification of modifier-info conversion (property C19).

Written from the documented meaning of the modifier-info vocabulary (function name -> affectee
filter, domain string -> `ModDomain`, operation code -> `ModOperator`), the validity rules of
`BaseModifier._validate_base` / `DogmaModifier._valid` and the status rule of `ModBuilder.build`.
Quirks of the code that are mirrored on purpose are marked `quirk`. -/
namespace Eos.ModInfo

inductive Filter | item | domain | domainGroup | domainSkillrq | ownerSkillrq
  deriving DecidableEq, Repr
inductive Domain | self | character | ship | target | other
  deriving DecidableEq, Repr
inductive Operator
  | preAssign | preMul | preDiv | modAdd | modSub | postMul | postMulImmune | postDiv | postPercent | postAssign
  deriving DecidableEq, Repr
inductive AggMode | stack | minimum | maximum
  deriving DecidableEq, Repr
/-- `EffectBuildStatus`. -/
inductive Status | skipped | error | successPartial | success | custom
  deriving DecidableEq, Repr

/-- A dogma modifier as the converter can produce it (ids are Python `int`s after `int()`, so the
    `isinstance(.., Integral)` checks of the validators on the two attribute ids hold by typing). -/
structure Modifier where
  filter : Filter
  domain : Domain
  extra : Option Int
  tgtAttr : Int
  op : Operator
  agg : AggMode
  aggKey : Option Int
  srcAttr : Int
  deriving DecidableEq, Repr

/-- What is stored under an id key of a modifier-info entry. -/
inductive IdShape
  | int (v : Int)                  -- Python int (bool is an int: True = 1)
  | intStr (v : Int)               -- str that `int()` accepts, denoting v
  | float (num : Int) (den : Nat)  -- finite float num/den (den > 0)
  | badStr                         -- str that `int()` rejects
  | none                           -- None
  | other                          -- anything else `int()` rejects (nan, inf, list, dict)
  | missing                        -- key absent
  deriving DecidableEq, Repr

/-- `int(x)`: ints and int-valued strings as they are, floats truncated toward zero (quirk: a
    fractional id is accepted), everything else raises. -/
def IdShape.toInt? : IdShape → Option Int
  | .int v => some v
  | .intStr v => some v
  | .float n d => if d = 0 then Option.none else some (Int.tdiv n d)
  | _ => Option.none

/-- The five handled function names. -/
inductive Func | item | location | locationGroup | locationSkill | ownerSkill
  deriving DecidableEq, Repr

/-- Value under `func`: a handled name, anything else (unknown name, non-string, unhashable), or absent. -/
inductive FuncField | known (f : Func) | unknown | missing
  deriving DecidableEq, Repr

/-- Value under `domain`; `null` is an explicit None. `unknown` = any other value. -/
inductive DomainField | null | itemID | charID | shipID | targetID | otherID | unknown | missing
  deriving DecidableEq, Repr

/-- Value under `operation`. -/
inductive OpField
  | int (c : Int)
  | float (num : Int) (den : Nat)   -- finite float
  | other                           -- str, None, unhashable, ...
  | missing
  deriving DecidableEq, Repr

/-- One element of a modifierInfo list. -/
inductive Entry
  | nonDict      -- None, number, string, list: indexing it by 'func' raises
  | dict (func : FuncField) (domain : DomainField) (op : OpField)
         (groupID skillTypeID modifiedAttr modifyingAttr : IdShape)
  deriving DecidableEq, Repr

def filterOf : Func → Filter
  | .item => .item | .location => .domain | .locationGroup => .domainGroup
  | .locationSkill => .domainSkillrq | .ownerSkill => .ownerSkillrq

/-- Domain strings: an explicit None and 'itemID' both mean the carrier itself; an absent key is an
    error (quirk: absent differs from None). -/
def domainOf : DomainField → Option Domain
  | .null => some .self | .itemID => some .self | .charID => some .character
  | .shipID => some .ship | .targetID => some .target | .otherID => some .other
  | .unknown => none | .missing => none

/-- Operation codes -1 .. 7. -/
def operatorOfCode (c : Int) : Option Operator :=
  if c = -1 then some .preAssign else if c = 0 then some .preMul else if c = 1 then some .preDiv
  else if c = 2 then some .modAdd else if c = 3 then some .modSub else if c = 4 then some .postMul
  else if c = 5 then some .postDiv else if c = 6 then some .postPercent
  else if c = 7 then some .postAssign else none

/-- quirk: the code looks the operation up in a dict, so a float equal to a handled code hits it. -/
def operatorOf : OpField → Option Operator
  | .int c => operatorOfCode c
  | .float n d => if d ≠ 0 ∧ (d : Int) ∣ n then operatorOfCode (n / (d : Int)) else none
  | .other => none
  | .missing => none

/-- The extra filter argument a function name reads (group id / skill type id), if any. -/
def extraOf (f : Func) (groupID skillTypeID : IdShape) : Option (Option Int) :=
  match f with
  | .item => some none
  | .location => some none
  | .locationGroup => groupID.toInt?.map some
  | .locationSkill => skillTypeID.toInt?.map some
  | .ownerSkill => skillTypeID.toInt?.map some

/-- Conversion of one entry: `none` = counted as a build failure. -/
def convertEntry : Entry → Option Modifier
  | .nonDict => none
  | .dict .missing _ _ _ _ _ _ => none
  | .dict .unknown _ _ _ _ _ _ => none
  | .dict (.known f) dom op g s t m =>
    match domainOf dom, extraOf f g s, t.toInt?, operatorOf op, m.toInt? with
    | some d, some x, some t, some o, some m => some ⟨filterOf f, d, x, t, o, .stack, none, m⟩
    | _, _, _, _, _ => none

/-- `_validate_base` + `_valid`: domain allowed for the filter, extra argument present exactly for the
    group / skill filters, aggregate key present exactly for non-stacking aggregate modes. -/
def valid (m : Modifier) : Bool :=
  (match m.filter with
   | .item => m.extra.isNone
   | .domain => m.extra.isNone && m.domain != .other
   | .domainGroup => m.extra.isSome && m.domain != .other
   | .domainSkillrq => m.extra.isSome && m.domain != .other
   | .ownerSkillrq => m.extra.isSome && m.domain == .character)
  && (if m.agg = .stack then m.aggKey.isNone else m.aggKey.isSome)

/-- `ModInfoconverter.convert`: modifiers in entry order and the number of failed entries. -/
def convert : List Entry → List Modifier × Nat
  | [] => ([], 0)
  | e :: es =>
    let r := convert es
    match convertEntry e with
    | some m => (m :: r.1, r.2)
    | none => (r.1, r.2 + 1)

/-- Status rule of `ModBuilder.build` from the emitted count and the two failure counts. -/
def statusOf (emitted buildFails validFails : Nat) : Status :=
  if buildFails = 0 ∧ validFails = 0 then .success
  else if emitted ≠ 0 then .successPartial else .error

structure Built where
  mods : List Modifier
  status : Status
  deriving DecidableEq, Repr

/-- `ModBuilder.build` on a modifierInfo list (an absent / None / empty modifierInfo is `[]`: nothing to
    do is a success). -/
def build (es : List Entry) : Built :=
  let r := convert es
  let ok := r.1.filter valid
  ⟨ok, statusOf ok.length r.2 (r.1.filter (fun m => !valid m)).length⟩

/-- What an entry contributes to the build: its modifier if it converts and passes validation. -/
def emitted (e : Entry) : Option Modifier := (convertEntry e).filter valid

/-- Entries counted as failures (build failure or validation failure). -/
def failures (es : List Entry) : Nat := es.countP fun e => (emitted e).isNone

/-- Sample entries (non-vacuity examples): LocationGroupModifier on the ship with a string group id and a
    fractional affector id; LocationModifier on `otherID` (converts, fails validation); no domain key. -/
def okEntry : Entry := .dict (.known .locationGroup) .shipID (.int 6) (.intStr 55) .missing (.int 30) (.float 419 10)
def invalidEntry : Entry := .dict (.known .location) .otherID (.int 2) .missing .missing (.int 30) (.int 40)
def badEntry : Entry := .dict (.known .item) .missing (.int 2) .missing .missing (.int 30) (.int 40)

/-! ### Transport of the generated decision table (`EosGen.ModInfoTable*`)

A row is `(entry code, outcome code, build view)`, decimal-digit records.
Entry code digits, most significant first: `f d oo g s t m`
(function, domain, operation (2 digits), shapes of groupID, skillTypeID, modifiedAttributeID,
modifyingAttributeID).  Each id field has its own representative values (base 10/20/30/40) so that
a swapped field shows. -/

def decFunc : Nat → Option (Option FuncField)   -- inner none = non-dict entry
  | 0 => some (some (.known .item)) | 1 => some (some (.known .location))
  | 2 => some (some (.known .locationGroup)) | 3 => some (some (.known .locationSkill))
  | 4 => some (some (.known .ownerSkill))
  | 5 => some (some .unknown)      -- unknown name
  | 6 => some (some .missing)
  | 7 => some none                 -- non-dict entry
  | 8 => some (some .unknown)      -- unhashable value
  | 9 => some (some .unknown)      -- None
  | _ => none

def decDomain : Nat → Option DomainField
  | 0 => some .null | 1 => some .itemID | 2 => some .charID | 3 => some .shipID | 4 => some .targetID
  | 5 => some .otherID | 6 => some .unknown | 7 => some .missing
  | 8 => some .unknown             -- unhashable value
  | _ => none

def decOp (n : Nat) : Option OpField :=
  if n ≤ 9 then some (.int ((n : Int) - 1))   -- -1 .. 7 handled, 8 unknown
  else match n with
    | 10 => some .missing
    | 11 => some (.int (-2))
    | 12 => some (.float 2 1)      -- 2.0
    | 13 => some (.float 5 2)      -- 2.5
    | 14 => some .other            -- '2'
    | 15 => some (.int 1)          -- True
    | 16 => some .other            -- None
    | _ => none

def decId (base : Int) : Nat → Option IdShape
  | 0 => some (.int (base + 1))
  | 1 => some (.intStr (base + 2))
  | 2 => some (.float (10 * (base + 3) + 9) 10)       -- base+3.9
  | 3 => some .badStr
  | 4 => some .none
  | 5 => some .missing
  | 6 => some .other                                   -- nan
  | 7 => some (.int (-(base + 4)))
  | 8 => some (.float (-(10 * (base + 5) + 9)) 10)    -- -(base+5.9)
  | 9 => some (.int 1)                                 -- True
  | _ => none

def decodeEntry (c : Nat) : Option Entry :=
  match decFunc (c / 10000000), decDomain (c / 1000000 % 10), decOp (c / 10000 % 100),
        decId 10 (c / 1000 % 10), decId 20 (c / 100 % 10), decId 30 (c / 10 % 10), decId 40 (c % 10) with
  | some fo, some d, some o, some g, some s, some t, some m =>
    some (match fo with | none => .nonDict | some f => .dict f d o g s t m)
  | _, _, _, _, _, _, _ => none

def Filter.code : Filter → Nat
  | .item => 1 | .domain => 2 | .domainGroup => 3 | .domainSkillrq => 4 | .ownerSkillrq => 5
def Domain.code : Domain → Nat
  | .self => 1 | .character => 2 | .ship => 3 | .target => 4 | .other => 5
def Operator.code : Operator → Nat
  | .preAssign => 1 | .preMul => 2 | .preDiv => 3 | .modAdd => 4 | .modSub => 5 | .postMul => 6
  | .postMulImmune => 7 | .postDiv => 8 | .postPercent => 9 | .postAssign => 10
def AggMode.code : AggMode → Nat
  | .stack => 1 | .minimum => 2 | .maximum => 3
def Status.code : Status → Nat
  | .skipped => 1 | .error => 2 | .successPartial => 3 | .success => 4 | .custom => 5

/-- Three digits: sign (0/1) and two digits of magnitude (the transported values are below 100). -/
def intCode (v : Int) : Nat := (if v < 0 then 100 else 0) + v.natAbs % 100
def optIntCode : Option Int → Nat
  | none => 0
  | some v => intCode v

/-- Outcome code: 0 = build failure; otherwise digits `v f d eee ttt oo a kkk sss` with
    v = 2 if the modifier passes validation, 1 if not; the enum digits are the repo's enum values. -/
def encodeOutcome : Option Modifier → Nat
  | none => 0
  | some m =>
    ((((((((if valid m then 2 else 1) * 10 + m.filter.code) * 10 + m.domain.code) * 1000
      + optIntCode m.extra) * 1000 + intCode m.tgtAttr) * 100 + m.op.code) * 10 + m.agg.code) * 1000
      + optIntCode m.aggKey) * 1000 + intCode m.srcAttr

/-- What `ModBuilder.build` shows for a one-entry list: status digit, number of emitted modifiers. -/
def buildView (e : Entry) : Nat := (build [e]).status.code * 10 + (build [e]).mods.length

/-- The same read off the conversion outcome (`buildView_eq` in Props/C19): a valid modifier is emitted
    with status success (41), anything else is an error without modifiers (20). -/
def viewOf : Option Modifier → Nat
  | some m => if valid m then 41 else 20
  | none => 20

/-- A generated row `(entry code, outcome code, build view)` agrees with the specification. -/
def rowOk (r : Nat × Nat × Nat) : Bool :=
  match decodeEntry r.1 with
  | some e => encodeOutcome (convertEntry e) == r.2.1 && viewOf (convertEntry e) == r.2.2
  | none => false

/-- A row travels as the 28-digit record `entry code (8) . outcome code (18) . build view (2)`. -/
def rowOfNat (r : Nat) : Nat × Nat × Nat := (r / 10 ^ 20, r / 100 % 10 ^ 18, r % 100)

/-- `(k, n)` packs k rows as the consecutive 28-digit groups of n, first row most significant. -/
def unpack (p : Nat × Nat) : List (Nat × Nat × Nat) :=
  (List.range p.1).map fun i => rowOfNat (p.2 / 10 ^ (28 * (p.1 - 1 - i)) % 10 ^ 28)

/-- The irregular rows (unknown / missing / non-dict function, further domain and operation values,
    alternative Python values of every abstract digit) are checked row by row. -/
def rowsOk (packed : List (Nat × Nat)) : Bool := (packed.flatMap unpack).all rowOk

/-! The complete product over the handled functions travels in blocks: one block per
    (function, domain, operation) with the outcomes of all id-shape patterns of that function in the
    fixed order `idPatterns`, as 20-digit records `outcome code (18) . build view (2)` behind a leading 1. -/

def funcOfDigit : Nat → Option Func
  | 0 => some .item | 1 => some .location | 2 => some .locationGroup | 3 => some .locationSkill
  | 4 => some .ownerSkill | _ => none

/-- Which id fields (groupID, skillTypeID, modifiedAttributeID, modifyingAttributeID) a function reads. -/
def usesField : Func → Nat → Bool
  | .locationGroup, 0 => true
  | .locationSkill, 1 => true
  | .ownerSkill, 1 => true
  | _, 2 => true
  | _, 3 => true
  | _, _ => false

def idBase : Nat → Int
  | 0 => 10 | 1 => 20 | 2 => 30 | _ => 40

def shapesOf (p : Nat) (digits : List Nat) : List IdShape := digits.filterMap (decId (idBase p))

/-- An int where the function reads the field, absent otherwise. -/
def goodShape (f : Func) (p : Nat) : IdShape := if usesField f p then .int (idBase p + 1) else .missing

/-- Id-shape patterns of a block: first the product of the six basic shapes (int, int-valued str, float,
    non-numeric str, None, absent) over every field the function reads, the other fields absent; then,
    one field at a time, the further shapes (nan, negative int, negative float, bool) for a field that is
    read and every present shape for a field that is not read, the rest good. -/
def idPatterns (f : Func) : List (IdShape × IdShape × IdShape × IdShape) :=
  let main (p : Nat) := if usesField f p then shapesOf p (List.range 6) else [.missing]
  let side (p : Nat) := shapesOf p (if usesField f p then [6, 7, 8, 9] else [0, 1, 2, 3, 4, 6, 7, 8, 9])
  ((main 0).flatMap fun g => (main 1).flatMap fun s => (main 2).flatMap fun t => (main 3).map fun m => (g, s, t, m))
  ++ (side 0).map (fun x => (x, goodShape f 1, goodShape f 2, goodShape f 3))
  ++ (side 1).map (fun x => (goodShape f 0, x, goodShape f 2, goodShape f 3))
  ++ (side 2).map (fun x => (goodShape f 0, goodShape f 1, x, goodShape f 3))
  ++ (side 3).map (fun x => (goodShape f 0, goodShape f 1, goodShape f 2, x))

/-- Expected content of the block with header digits `f d oo`. -/
def blockSpec (hdr : Nat) : Option Nat :=
  match funcOfDigit (hdr / 1000), decDomain (hdr / 100 % 10), decOp (hdr % 100) with
  | some f, some d, some o =>
    some ((idPatterns f).foldl (fun acc (g, s, t, m) =>
      let c := convertEntry (.dict (.known f) d o g s t m)
      acc * 10 ^ 20 + (encodeOutcome c * 100 + viewOf c)) 1)
  | _, _, _ => none

def blockOk (b : Nat × Nat) : Bool := blockSpec b.1 == some b.2

/-- Headers of the complete product: 5 handled functions x 8 domains x 11 operations, in order. -/
def productHeaders : List Nat :=
  (List.range 5).flatMap fun f => (List.range 8).flatMap fun d => (List.range 11).map fun o =>
    f * 1000 + d * 100 + o

/-- Entry codes the row table must contain besides: unknown / missing function x 8 domains x 11
    operations, and a non-dict entry. -/
def productRowCodes : List Nat :=
  ([5, 6].flatMap fun f => (List.range 8).flatMap fun d => (List.range 11).map fun o =>
    f * 10000000 + d * 1000000 + o * 10000) ++ [70000000]

/-- Status grid row: `(valid entries, convertible-but-invalid entries, failing entries, status code,
    number of emitted modifiers)`. -/
def statusRowOk (r : Nat × Nat × Nat × Nat × Nat) : Bool :=
  let (nOk, nInv, nFail, st, emitted) := r
  (statusOf nOk nFail nInv).code == st && nOk == emitted

end Eos.ModInfo
