/-! Model of `eos/cache_handler/json_cache_handler.py` (properties C15, C16).

Python values are `PV` trees; the JSON round trip `json.loads ∘ json.dumps` is `PV.norm`
(IntEnum → int, tuple → list).  Every partial Python operation used by the handler
(`x[n]`, `x['k']`, iteration, tuple unpacking, `int(x)`, hashing a dict key) is an explicit
`Option`; nothing defaults.  Eve objects carry *constructor arguments* (what `Type(...)`,
`Effect(...)`, ... receive); the per-id customisation done by the factories afterwards is a
function of these arguments and is applied alike by writer and reader (not modelled). -/
namespace Eos.Codec

/-- A Python value as it can sit in an eve-object field or in a decoded JSON document. -/
inductive PV
  | pnone | bool (b : Bool) | int (i : Int) | enum (i : Int) | real (r : Rat) | inf | ninf
  | str (s : String) | list (l : List PV) | tuple (l : List PV) | dict (kv : List (String × PV))
  deriving Repr, Inhabited

namespace PV

mutual
/-- `json.loads (json.dumps v)`: IntEnum members become ints, tuples become lists. -/
def norm : PV → PV
  | .enum i => .int i
  | .list l => .list (normL l)
  | .tuple l => .list (normL l)
  | .dict kv => .dict (normKV kv)
  | v => v
def normL : List PV → List PV
  | [] => []
  | x :: xs => norm x :: normL xs
def normKV : List (String × PV) → List (String × PV)
  | [] => []
  | (k, v) :: xs => (k, norm v) :: normKV xs
end

/-- `bool(v)`. -/
def truthy : PV → Bool
  | .pnone => false | .bool b => b | .int i => i != 0 | .enum i => i != 0 | .real r => r != 0
  | .inf => true | .ninf => true | .str s => s != "" | .list l => !l.isEmpty | .tuple l => !l.isEmpty
  | .dict kv => !kv.isEmpty

/-- Equality/hash class of a hashable value used as a dict key (`1 == 1.0 == True == IntEnum(1)`). -/
inductive Key | knone | num (r : Rat) | pinf | ninf | str (s : String)
  deriving DecidableEq, Repr

/-- `hash(v)` succeeds exactly on `some`; lists and dicts are unhashable (TypeError).
    Tuples never come out of JSON and are not used as keys by built objects: treated as unhashable. -/
def key? : PV → Option Key
  | .pnone => some .knone | .bool b => some (.num (if b then 1 else 0)) | .int i => some (.num i)
  | .enum i => some (.num i) | .real r => some (.num r) | .inf => some .pinf | .ninf => some .ninf
  | .str s => some (.str s) | _ => none

/-- `int(v)` as the getters do it: `None`/containers raise TypeError, infinities OverflowError.
    Strings raise ValueError unless they spell a number; the model says "raises" for all strings. -/
def toInt? : PV → Option Int
  | .bool b => some (if b then 1 else 0) | .int i => some i | .enum i => some i
  | .real r => some (r.num.tdiv r.den) | _ => none

def chr (c : Char) : PV := .str (String.singleton c)

/-- `for x in v`. -/
def iter? : PV → Option (List PV)
  | .list l => some l | .tuple l => some l | .str s => some (s.toList.map chr)
  | .dict kv => some (kv.map fun p => .str p.1) | _ => none

/-- `v[n]` for a literal `n ≥ 0` (IndexError / KeyError / TypeError = `none`). -/
def index? : PV → Nat → Option PV
  | .list l, n => l[n]? | .tuple l, n => l[n]? | .str s, n => (s.toList[n]?).map chr | _, _ => none

/-- `v['k']` (only dicts have string keys). -/
def get? : PV → String → Option PV
  | .dict kv, k => (kv.find? fun p => p.1 == k).map (·.2)
  | _, _ => none

/-- `a, b = v`. -/
def unpack2 (v : PV) : Option (PV × PV) :=
  match v.iter? with
  | some [a, b] => some (a, b)
  | _ => none

/-- `for k, v in x`. -/
def pairs? (v : PV) : Option (List (PV × PV)) := do (← v.iter?).mapM unpack2

end PV
open PV

/-- A Python dict as an insertion-ordered association list. -/
abbrev Dict (α : Type) := List (PV × α)

namespace Dict
variable {α : Type}

def has (d : Dict α) (k : Key) : Bool := d.any fun p => p.1.key? == some k

/-- `d[k]` by an already hashed key. -/
def find (d : Dict α) (k : Key) : Option α := (d.find? fun p => p.1.key? == some k).map (·.2)

/-- `d[k] = v`: an equal key keeps its place (and the old key object), a new one goes last;
    unhashable key = TypeError = `none`. -/
def set (d : Dict α) (k : PV) (v : α) : Option (Dict α) :=
  match k.key? with
  | none => none
  | some kk => some (if d.has kk then d.map (fun p => if p.1.key? == some kk then (p.1, v) else p) else d ++ [(k, v)])

/-- `{k: v for k, v in l}`. -/
def ofPairs (l : List (PV × α)) : Option (Dict α) := l.foldlM (fun d p => d.set p.1 p.2) []

/-- Distinct hashable keys: what every real Python dict satisfies. -/
def WF (d : Dict α) : Prop := (d.map fun p => p.1.key?).Nodup ∧ ∀ p ∈ d, p.1.key? ≠ none

end Dict

/-! ## Eve objects (constructor arguments) -/

structure Modifier where
  affecteeFilter : PV
  affecteeDomain : PV
  affecteeFilterExtraArg : PV
  affecteeAttrId : PV
  operator : PV
  aggregateMode : PV
  aggregateKey : PV
  affectorAttrId : PV
  deriving Repr, Inhabited

structure Buff where
  buffId : PV
  affecteeFilter : PV
  affecteeFilterExtraArg : PV
  affecteeAttrId : PV
  operator : PV
  aggregateMode : PV
  deriving Repr, Inhabited

/-- `Attribute.__init__` applies `bool()` to the two flags, so an attribute object holds real bools. -/
structure Attr where
  id : PV
  maxAttrId : PV
  defaultValue : PV
  highIsGood : Bool
  stackable : Bool
  deriving Repr, Inhabited

structure Effect where
  id : PV
  categoryId : PV
  isOffensive : Bool
  isAssistance : Bool
  durationAttrId : PV
  dischargeAttrId : PV
  rangeAttrId : PV
  falloffAttrId : PV
  trackingSpeedAttrId : PV
  fittingUsageChanceAttrId : PV
  resistAttrId : PV
  buildStatus : PV
  modifiers : List Modifier
  deriving Repr, Inhabited

structure AbilityData where
  cooldownTime : PV
  chargeQuantity : PV
  deriving Repr, Inhabited

structure EType where
  id : PV
  groupId : PV
  categoryId : PV
  attrs : Dict PV
  effects : Dict Effect
  defaultEffect : Option Effect
  abilitiesData : Dict AbilityData
  requiredSkills : Dict PV
  deriving Repr, Inhabited

/-! ## compress / decompress, in the order of the source -/

def compressType (t : EType) : PV :=
  .tuple [t.id, t.groupId, t.categoryId,
    .tuple (t.attrs.map fun p => .tuple [p.1, p.2]),
    .tuple (t.effects.map (·.1)),
    (match t.defaultEffect with | none => .pnone | some e => e.id),
    .tuple (t.abilitiesData.map fun p => .tuple [p.1, .tuple [p.2.cooldownTime, p.2.chargeQuantity]]),
    .tuple (t.requiredSkills.map fun p => .tuple [p.1, p.2])]

/-- `self.get_effect(eid)`: `int(eid)` then a lookup in the effect storage. -/
def getEffect (store : Dict Effect) (eid : PV) : Option Effect := do store.find (.num (← eid.toInt?))

def abilityPair (p : PV × PV) : Option (PV × AbilityData) := do
  let (c, q) ← p.2.unpack2
  some (p.1, ⟨c, q⟩)

/-- `None if default_effect_id is None else self.get_effect(default_effect_id)`. -/
def getDefault (store : Dict Effect) : PV → Option (Option Effect)
  | .pnone => some none
  | x => (getEffect store x).map some

def decompressType (store : Dict Effect) (d : PV) : Option EType := do
  let defEff ← getDefault store (← d.index? 5)
  let id ← d.index? 0
  let groupId ← d.index? 1
  let categoryId ← d.index? 2
  let attrs ← Dict.ofPairs (← (← d.index? 3).pairs?)
  let effs ← (← (← d.index? 4).iter?).mapM (getEffect store)
  let effects ← Dict.ofPairs (effs.map fun e => (e.id, e))
  let abilitiesData ← Dict.ofPairs (← (← (← d.index? 6).pairs?).mapM abilityPair)
  let requiredSkills ← Dict.ofPairs (← (← d.index? 7).pairs?)
  some { id, groupId, categoryId, attrs, effects, defaultEffect := defEff, abilitiesData, requiredSkills }

def compressAttr (a : Attr) : PV :=
  .tuple [a.id, a.maxAttrId, a.defaultValue, .bool a.highIsGood, .bool a.stackable]

def decompressAttr (d : PV) : Option Attr := do
  let id ← d.index? 0
  let maxAttrId ← d.index? 1
  let defaultValue ← d.index? 2
  let hig ← d.index? 3
  let st ← d.index? 4
  some { id, maxAttrId, defaultValue, highIsGood := hig.truthy, stackable := st.truthy }

def compressModifier (m : Modifier) : PV :=
  .tuple [m.affecteeFilter, m.affecteeDomain, m.affecteeFilterExtraArg, m.affecteeAttrId,
    m.operator, m.aggregateMode, m.aggregateKey, m.affectorAttrId]

def decompressModifier (d : PV) : Option Modifier := do
  let affecteeFilter ← d.index? 0
  let affecteeDomain ← d.index? 1
  let affecteeFilterExtraArg ← d.index? 2
  let affecteeAttrId ← d.index? 3
  let operator ← d.index? 4
  let aggregateMode ← d.index? 5
  let aggregateKey ← d.index? 6
  let affectorAttrId ← d.index? 7
  some { affecteeFilter, affecteeDomain, affecteeFilterExtraArg, affecteeAttrId, operator,
         aggregateMode, aggregateKey, affectorAttrId }

def compressEffect (e : Effect) : PV :=
  .tuple [e.id, e.categoryId, .bool e.isOffensive, .bool e.isAssistance, e.durationAttrId,
    e.dischargeAttrId, e.rangeAttrId, e.falloffAttrId, e.trackingSpeedAttrId,
    e.fittingUsageChanceAttrId, e.resistAttrId, e.buildStatus,
    .tuple (e.modifiers.map compressModifier)]

def decompressEffect (d : PV) : Option Effect := do
  let id ← d.index? 0
  let categoryId ← d.index? 1
  let off ← d.index? 2
  let ass ← d.index? 3
  let durationAttrId ← d.index? 4
  let dischargeAttrId ← d.index? 5
  let rangeAttrId ← d.index? 6
  let falloffAttrId ← d.index? 7
  let trackingSpeedAttrId ← d.index? 8
  let fittingUsageChanceAttrId ← d.index? 9
  let resistAttrId ← d.index? 10
  let buildStatus ← d.index? 11
  let modifiers ← (← (← d.index? 12).iter?).mapM decompressModifier
  some { id, categoryId, isOffensive := off.truthy, isAssistance := ass.truthy, durationAttrId,
         dischargeAttrId, rangeAttrId, falloffAttrId, trackingSpeedAttrId, fittingUsageChanceAttrId,
         resistAttrId, buildStatus, modifiers }

def compressBuff (b : Buff) : PV :=
  .tuple [b.buffId, b.affecteeFilter, b.affecteeFilterExtraArg, b.affecteeAttrId, b.operator, b.aggregateMode]

def decompressBuff (d : PV) : Option Buff := do
  let buffId ← d.index? 0
  let affecteeFilter ← d.index? 1
  let affecteeFilterExtraArg ← d.index? 2
  let affecteeAttrId ← d.index? 3
  let operator ← d.index? 4
  let aggregateMode ← d.index? 5
  some { buffId, affecteeFilter, affecteeFilterExtraArg, affecteeAttrId, operator, aggregateMode }

/-! ## Memory cache -/

/-- The four storages and the fingerprint of a `JsonCacheHandler`.  A buff-template set is kept as
    the list of its members in insertion order (templates are hashed by identity, so no two merge). -/
structure Mem where
  types : Dict EType
  attrs : Dict Attr
  effects : Dict Effect
  buffs : Dict (List Buff)
  fingerprint : PV
  deriving Repr, Inhabited

def Mem.empty : Mem := ⟨[], [], [], [], .pnone⟩

/-- The four `.clear()` calls opening `__update_memory_cache`. -/
def Mem.clearStorages (m : Mem) : Mem := { m with types := [], attrs := [], effects := [], buffs := [] }

def stepEffect (m : Mem) (d : PV) : Option Mem := do
  let e ← decompressEffect d
  some { m with effects := ← m.effects.set e.id e }

def stepType (m : Mem) (d : PV) : Option Mem := do
  let t ← decompressType m.effects d
  some { m with types := ← m.types.set t.id t }

def stepAttr (m : Mem) (d : PV) : Option Mem := do
  let a ← decompressAttr d
  some { m with attrs := ← m.attrs.set a.id a }

/-- `storage.setdefault(buff_id, set()).add(template)`. -/
def addBuff (s : Dict (List Buff)) (b : Buff) : Option (Dict (List Buff)) := do
  let k ← b.buffId.key?
  s.set b.buffId ((s.find k).getD [] ++ [b])

def stepBuff (m : Mem) (d : PV) : Option Mem := do
  let b ← decompressBuff d
  some { m with buffs := ← addBuff m.buffs b }

/-- One `for` loop of `__update_memory_cache`: stops at the first element that raises and
    returns the memory as it is at that moment. -/
def fillWith (step : Mem → PV → Option Mem) : Mem → List PV → Mem × Bool
  | m, [] => (m, true)
  | m, d :: ds =>
    match step m d with
    | none => (m, false)
    | some m' => fillWith step m' ds

/-- `loop key step m`: `for x in cache_data[key]: step`. -/
def loop (j : PV) (key : String) (step : Mem → PV → Option Mem) (m : Mem) : Mem × Bool :=
  match (j.get? key).bind iter? with
  | none => (m, false)
  | some ds => fillWith step m ds

/-- `__update_memory_cache(cache_data)`, statement by statement: the resulting memory and whether the
    method returned normally (`false` = it raised; the memory is then what the code leaves behind). -/
def fill (m : Mem) (j : PV) : Mem × Bool :=
  let m := m.clearStorages
  let r := loop j "effects" stepEffect m
  if !r.2 then r else
  let r := loop j "types" stepType r.1
  if !r.2 then r else
  let r := loop j "attrs" stepAttr r.1
  if !r.2 then r else
  let r := loop j "buff_templates" stepBuff r.1
  if !r.2 then r else
  match j.get? "fingerprint" with
  | none => (r.1, false)
  | some fp => ({ r.1 with fingerprint := fp }, true)

/-- One loop read as a partial function. -/
def loopO (j : PV) (key : String) (step : Mem → PV → Option Mem) (m : Mem) : Option Mem := do
  let ds ← (← j.get? key).iter?
  ds.foldlM step m

/-- The same method read as a partial function: the complete content of a well-structured tree. -/
def full (j : PV) : Option Mem := do
  let m ← loopO j "effects" stepEffect Mem.empty
  let m ← loopO j "types" stepType m
  let m ← loopO j "attrs" stepAttr m
  let m ← loopO j "buff_templates" stepBuff m
  let fp ← j.get? "fingerprint"
  some { m with fingerprint := fp }

/-- Replace the fingerprint only. -/
def Mem.setFp (m : Mem) (f : PV) : Mem := { m with fingerprint := f }

/-- A `(memory, returned normally)` pair read as a partial result. -/
def ok? (r : Mem × Bool) : Option Mem := bif r.2 then some r.1 else none

/-! ## update_cache and the handler -/

/-- What `update_cache` receives: `(types, attrs, effects, buff_templates)`. -/
structure Objs where
  types : List EType
  attrs : List Attr
  effects : List Effect
  buffs : List Buff
  deriving Repr, Inhabited

/-- The `cache_data` dict built by `update_cache`. -/
def cacheData (o : Objs) (fp : PV) : PV :=
  .dict [("types", .list (o.types.map compressType)), ("attrs", .list (o.attrs.map compressAttr)),
         ("effects", .list (o.effects.map compressEffect)),
         ("buff_templates", .list (o.buffs.map compressBuff)), ("fingerprint", fp)]

/-- A handler: the bytes of its cache file (if the file exists) and its memory cache. -/
structure Handler (β : Type) where
  file : Option β
  mem : Mem

/-- `update_cache(eve_objects, fingerprint)`: persist first, then replace the memory cache.
    `false` = the call raised while replacing the memory cache (the file is already written). -/
def updateCache {β : Type} (ser : PV → β) (h : Handler β) (o : Objs) (fp : PV) : Handler β × Bool :=
  let j := cacheData o fp
  let r := fill h.mem j
  ({ file := some (ser j), mem := r.1 }, r.2)

/-- A sequence of `update_cache` calls on one handler (a raising call does not stop the sequence). -/
def runUpdates {β : Type} (ser : PV → β) (h : Handler β) (ups : List (Objs × PV)) : Handler β :=
  ups.foldl (fun h u => (updateCache ser h u.1 u.2).1) h

/-! ## What a handler should serve after `update_cache o fp` (specification) -/

/-- A storage keyed by object id. -/
def byId {α : Type} (id : α → PV) (l : List α) : Dict α := l.map fun x => (id x, x)

/-- Buff templates grouped by buff id. -/
def groupBuffs (l : List Buff) : Option (Dict (List Buff)) := l.foldlM addBuff []

/-- `__type_decompress` gives the type back when its dicts are dicts, its effects sit in the effect
    storage under their own ids, and so does its default effect. -/
structure TypeOK (store : Dict Effect) (t : EType) : Prop where
  attrs : t.attrs.WF
  effects : t.effects.WF
  abilities : t.abilitiesData.WF
  skills : t.requiredSkills.WF
  effKeys : ∀ p ∈ t.effects, p.1 = p.2.id ∧ getEffect store p.1 = some p.2
  default : ∀ e, t.defaultEffect = some e → getDefault store e.id = some (some e)

/-- The closedness guard of C15: ids are distinct hashable keys and every effect a type mentions is
    one of the effects handed to `update_cache` (what `Converter.run` produces). -/
structure Closed (o : Objs) : Prop where
  effectIds : (byId Effect.id o.effects).WF
  typeIds : (byId EType.id o.types).WF
  attrIds : (byId Attr.id o.attrs).WF
  types : ∀ t ∈ o.types, TypeOK (byId Effect.id o.effects) t

/-! ## JSON normalisation lifted to objects -/

def Modifier.norm (m : Modifier) : Modifier :=
  ⟨m.affecteeFilter.norm, m.affecteeDomain.norm, m.affecteeFilterExtraArg.norm, m.affecteeAttrId.norm,
   m.operator.norm, m.aggregateMode.norm, m.aggregateKey.norm, m.affectorAttrId.norm⟩

def Buff.norm (b : Buff) : Buff :=
  ⟨b.buffId.norm, b.affecteeFilter.norm, b.affecteeFilterExtraArg.norm, b.affecteeAttrId.norm,
   b.operator.norm, b.aggregateMode.norm⟩

def Attr.norm (a : Attr) : Attr := { a with id := a.id.norm, maxAttrId := a.maxAttrId.norm, defaultValue := a.defaultValue.norm }

def Effect.norm (e : Effect) : Effect :=
  { id := e.id.norm, categoryId := e.categoryId.norm, isOffensive := e.isOffensive, isAssistance := e.isAssistance,
    durationAttrId := e.durationAttrId.norm, dischargeAttrId := e.dischargeAttrId.norm,
    rangeAttrId := e.rangeAttrId.norm, falloffAttrId := e.falloffAttrId.norm,
    trackingSpeedAttrId := e.trackingSpeedAttrId.norm,
    fittingUsageChanceAttrId := e.fittingUsageChanceAttrId.norm, resistAttrId := e.resistAttrId.norm,
    buildStatus := e.buildStatus.norm, modifiers := e.modifiers.map Modifier.norm }

def AbilityData.norm (a : AbilityData) : AbilityData := ⟨a.cooldownTime.norm, a.chargeQuantity.norm⟩

def Dict.norm {α : Type} (f : α → α) (d : Dict α) : Dict α := d.map fun p => (p.1.norm, f p.2)

def EType.norm (t : EType) : EType :=
  { id := t.id.norm, groupId := t.groupId.norm, categoryId := t.categoryId.norm,
    attrs := Dict.norm PV.norm t.attrs, effects := Dict.norm Effect.norm t.effects,
    defaultEffect := t.defaultEffect.map Effect.norm,
    abilitiesData := Dict.norm AbilityData.norm t.abilitiesData,
    requiredSkills := Dict.norm PV.norm t.requiredSkills }

def Mem.norm (m : Mem) : Mem :=
  { types := Dict.norm EType.norm m.types, attrs := Dict.norm Attr.norm m.attrs,
    effects := Dict.norm Effect.norm m.effects, buffs := Dict.norm (List.map Buff.norm) m.buffs,
    fingerprint := m.fingerprint.norm }

/-! ## Specification of the positional layouts (hand-written; compared with the regenerated ones) -/
namespace Layout

def flatFrom (pre : List Nat) (pfx : String) : Nat → List String → List (String × List Nat)
  | _, [] => []
  | i, n :: ns => (pfx ++ n, pre ++ [i]) :: flatFrom pre pfx (i + 1) ns

/-- Field `names[i]` sits at position `pre ++ [i]`. -/
def flat (pre : List Nat) (pfx : String) (names : List String) := flatFrom pre pfx 0 names

def modifierNames := ["affectee_filter", "affectee_domain", "affectee_filter_extra_arg", "affectee_attr_id",
  "operator", "aggregate_mode", "aggregate_key", "affector_attr_id"]
def buffNames := ["buff_id", "affectee_filter", "affectee_filter_extra_arg", "affectee_attr_id", "operator",
  "aggregate_mode"]
def attrNames := ["id", "max_attr_id", "default_value", "high_is_good", "stackable"]
def effectNames := ["id", "category_id", "is_offensive", "is_assistance", "duration_attr_id", "discharge_attr_id",
  "range_attr_id", "falloff_attr_id", "tracking_speed_attr_id", "fitting_usage_chance_attr_id", "resist_attr_id",
  "build_status"]

def modifierC := flat [] "" modifierNames
def buffC := flat [] "" buffNames
def attrC := flat [] "" attrNames
/-- Twelve scalars, then the tuple of modifier tuples (two of them in the sentinel). -/
def effectC := flat [] "" effectNames ++ flat [12, 0] "modifiers.0." modifierNames ++ flat [12, 1] "modifiers.1." modifierNames
/-- id, group, category, attrs as (k, v) pairs, effect ids, default effect id, abilities as
    (k, (cooldown, charges)) pairs, required skills as (k, v) pairs (two entries each in the sentinel). -/
def typeC : List (String × List Nat) :=
  [("id", [0]), ("group_id", [1]), ("category_id", [2])]
  ++ flat [3, 0] "attrs.0." ["k", "v"] ++ flat [3, 1] "attrs.1." ["k", "v"]
  ++ [("effects.0", [4, 0]), ("effects.1", [4, 1]), ("default_effect", [5])]
  ++ [("abilities_data.0.k", [6, 0, 0])] ++ flat [6, 0, 1] "abilities_data.0." ["cooldown_time", "charge_quantity"]
  ++ [("abilities_data.1.k", [6, 1, 0])] ++ flat [6, 1, 1] "abilities_data.1." ["cooldown_time", "charge_quantity"]
  ++ flat [7, 0] "required_skills.0." ["k", "v"] ++ flat [7, 1] "required_skills.1." ["k", "v"]

/-- Decompression reads every leaf from where compression put it; `bool()` is applied to the flags,
    effect ids are resolved through `get_effect`. -/
def withTags (bools effs : List String) (c : List (String × List Nat)) : List (String × List Nat × String) :=
  c.map fun r => (r.1, r.2, if bools.contains r.1 then "bool" else if effs.contains r.1 then "effect" else "copy")

def modifierD := withTags [] [] modifierC
def buffD := withTags [] [] buffC
def attrD := withTags ["high_is_good", "stackable"] [] attrC
def effectD := withTags ["is_offensive", "is_assistance"] [] effectC
def typeD := withTags [] ["effects.0", "effects.1", "default_effect"] typeC

/-- `json.loads (json.dumps x)` per kind of Python value (what `PV.norm` implements). -/
def jsonNorm : List (String × String) :=
  [("none", "none"), ("bool", "bool"), ("int", "int"), ("enum", "int"), ("float", "float"), ("inf", "inf"),
   ("-inf", "-inf"), ("str", "str"), ("list", "list"), ("tuple", "list"), ("namedtuple", "list"), ("dict", "dict")]

end Layout

/-- Kind of a value in the vocabulary of `Layout.jsonNorm` (a namedtuple is a tuple). -/
def PV.kind : PV → String
  | .pnone => "none" | .bool _ => "bool" | .int _ => "int" | .enum _ => "enum" | .real _ => "float"
  | .inf => "inf" | .ninf => "-inf" | .str _ => "str" | .list _ => "list" | .tuple _ => "tuple" | .dict _ => "dict"

end Eos.Codec
