import EosModel.Codec
/-! Model of `JsonCacheHandler.__init__` / `__load_persistent_cache` (property C16): what a handler
holds after being constructed on a cache file in any condition.  The decoder of the file
(`bz2` + utf-8 + `json.loads`) is a *parameter*: the theorems hold for any `parse`. -/
namespace Eos.Loader
open Eos.Codec

/-- `JsonCacheHandler(path)` on a file holding `file`, for any decoder `parse` (bz2 + utf-8 + json;
    `none` = any exception while reading): empty unless the file parses *and* fills completely. -/
def load {β : Type} (parse : β → Option PV) (file : Option β) : Mem :=
  match file with
  | none => Mem.empty
  | some b =>
    match parse b with
    | none => Mem.empty
    | some j =>
      let r := fill Mem.empty j
      if r.2 then r.1 else { r.1.clearStorages with fingerprint := .pnone }

/-- `get_fingerprint()` as `SourceManager.add` sees it: a string, or something that equals no string. -/
def fpOf (m : Mem) : Option String :=
  match m.fingerprint with
  | .str s => some s
  | _ => none

/-- A crash of the non-atomic `__update_persistent_cache` after `k` bytes reached the disk
    (the file was truncated on open, so nothing of the old content is left). -/
def crashAt {α : Type} (k : Nat) (written : List α) : List α := written.take k

end Eos.Loader
