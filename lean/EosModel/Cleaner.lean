/-! # Model of the eve object builder's data stage (`eos/eve_obj_builder`)

`builder.py` numbers the rows (`table_pos`), `validator_preclean.py` removes rows with a bad or
repeated primary key, `normalizer.py` moves the evetypes-embedded attributes, `cleaner.py` trashes
everything weak and restores rows until a fixed point, `validator_preconv.py` removes non-numeric
attribute rows and surplus default / rack effects, `converter.py` turns rows into objects.

Rows are kept abstract enough to cover everything the code looks at: a table tag, the position, a
field list with Python-like scalar values, the modifier-info entries of an effect row and the
modifier rows of a buff row.  Tables are lists in `table_pos` order; the Python sets have no order
and no duplicates, which is why every step below is a `filter` of the full row list. -/
namespace Eos.Cleaner

inductive Tbl
  | evetypes | evegroups | dgmattribs | dgmtypeattribs | dgmeffects | dgmtypeeffects
  | dbuffcollections | skillreqs | typefighterabils
  deriving DecidableEq, Repr

/-- A Python scalar as far as the builder can tell values apart. `num q true` is an `int`,
    `num q false` a finite `float`, `weird true` a non-finite float, `weird false` any other object. -/
inductive Val
  | none
  | bool (b : Bool)
  | num (q : Rat) (integral : Bool)
  | str (s : String)
  | weird (real : Bool)
  deriving DecidableEq

namespace Val

def asNum? : Val → Option Rat
  | bool b => some (if b then 1 else 0)
  | num q _ => some q
  | _ => Option.none

/-- Python `==` / set membership (`1 == 1.0 == True`; an opaque object equals nothing). -/
def pyEq (a b : Val) : Bool :=
  match a.asNum?, b.asNum? with
  | some x, some y => x == y
  | Option.none, Option.none =>
    (match a, b with
     | none, none => true
     | str s, str t => s == t
     | _, _ => false)
  | _, _ => false

/-- `isinstance(v, numbers.Integral)` -/
def isIntegral : Val → Bool
  | bool _ => true
  | num _ i => i
  | _ => false

/-- `isinstance(v, numbers.Real)` -/
def isReal : Val → Bool
  | bool _ | num _ _ => true
  | weird r => r
  | _ => false

def truthy : Val → Bool
  | none => false
  | bool b => b
  | num q _ => q != 0
  | str s => s != ""
  | weird _ => true

private def isWs (c : Char) : Bool := c == ' ' || c == '\t' || c == '\n' || c == '\r'

/-- digits with single underscores between them -/
private def digits : Nat → Bool → List Char → Option Nat
  | acc, lastDigit, [] => if lastDigit then some acc else Option.none
  | acc, lastDigit, c :: cs =>
    if c.isDigit then digits (acc * 10 + (c.toNat - '0'.toNat)) true cs
    else if c == '_' && lastDigit then digits acc false cs
    else Option.none

/-- Python `int(s)` for a string (base 10, surrounding blanks, sign, `_` separators). -/
def intOfString (s : String) : Option Int :=
  let cs := ((s.toList.dropWhile isWs).reverse.dropWhile isWs).reverse
  let (neg, ds) := match cs with
    | '-' :: t => (true, t)
    | '+' :: t => (false, t)
    | t => (false, t)
  match ds with
  | [] => Option.none
  | _ => (digits 0 false ds).map fun n => if neg then -(n : Int) else (n : Int)

/-- Python `int(v)`; `none` = TypeError / ValueError / OverflowError. Floats truncate towards zero. -/
def toInt? : Val → Option Int
  | bool b => some (if b then 1 else 0)
  | num q _ => some (Int.tdiv q.num q.den)
  | str s => intOfString s
  | _ => Option.none

def ofInt (i : Int) : Val := num i true

end Val
open Val (pyEq)

abbrev Fields := List (String × Val)

/-- `row.get(k)` -/
def Fields.get (f : Fields) (k : String) : Val := (f.lookup k).getD Val.none

structure Row where
  tbl : Tbl
  /-- `table_pos`; `none` for the rows the normalizer adds -/
  pos : Option Nat
  fields : Fields
  /-- entries of `modifierInfo` (effect rows); `none` = an entry that is not a mapping -/
  mods : List (Option Fields) := []
  /-- (section name, modifier row) of a buff collection row -/
  buffs : List (String × Fields) := []
  deriving DecidableEq

def Row.get (r : Row) (k : String) : Val := r.fields.get k

/-! ## Reference relation (data, so that it can be compared with the regenerated one) -/

inductive Path
  /-- `row.get(field)`, skipped when None -/
  | fk (field : String)
  /-- `int(entry[key])` of every mapping entry of modifierInfo, skipped when that raises -/
  | modinfo (key : String)
  /-- `int(row.get('value'))` of a dgmtypeattribs row whose attributeID is one of `ids` -/
  | attrval (ids : List Int)
  /-- `mod_row.get(key)` of every modifier row in a buff section, skipped when None -/
  | buff (sec key : String)
  deriving DecidableEq, Repr

structure Ref where
  src : Tbl
  path : Path
  tgt : Tbl
  deriving DecidableEq, Repr

/-- The column a reference into a table is matched against. -/
def pkCol : Tbl → String
  | .evetypes => "typeID"
  | .evegroups => "groupID"
  | .dgmattribs => "attributeID"
  | .dgmeffects => "effectID"
  | .dbuffcollections => "buffID"
  | _ => ""

def Path.values (p : Path) (r : Row) : List Val :=
  match p with
  | .fk f => match r.get f with
    | .none => []
    | v => [v]
  | .modinfo k => r.mods.filterMap fun e =>
      e.bind fun d => (d.lookup k).bind fun v => v.toInt?.map Val.ofInt
  | .attrval ids =>
    if ids.any (fun i => pyEq (r.get "attributeID") (Val.ofInt i)) then
      ((r.get "value").toInt?.map Val.ofInt).toList
    else []
  | .buff sec k => r.buffs.filterMap fun sd =>
      if sd.1 = sec then (match sd.2.get k with
        | .none => none
        | v => some v) else none

/-- (target table, wanted id) pairs a row asks for under a relation. -/
def refTargets (refs : List Ref) (s : Row) : List (Tbl × Val) :=
  refs.flatMap fun ρ => if ρ.src = s.tbl then (ρ.path.values s).map fun v => (ρ.tgt, v) else []

def hits (r : Row) (tv : Tbl × Val) : Bool := r.tbl = tv.1 && pyEq (r.get (pkCol tv.1)) tv.2

/-- `_reestablish_broken_relationships`: `s` alive forces `r` alive. -/
def refEdge (refs : List Ref) (s r : Row) : Bool := (refTargets refs s).any (hits r)

/-- `_reanimate_auxiliary_friends`: an alive type restores the rows of the auxiliary tables with its typeID. -/
def auxEdge (aux : List Tbl) (s r : Row) : Bool :=
  s.tbl = .evetypes && aux.contains r.tbl && pyEq (r.get "typeID") (s.get "typeID")

/-! ### Fixed specification (from the data handler documentation and the cleaner's docstrings) -/

def effectAttrFields : List String :=
  ["durationAttributeID", "dischargeAttributeID", "rangeAttributeID", "falloffAttributeID",
   "trackingSpeedAttributeID", "fittingUsageChanceAttributeID", "resistanceID"]

def buffSections : List String :=
  ["itemModifiers", "locationModifiers", "locationGroupModifiers", "locationRequiredSkillModifiers"]

/-- Effective single-edge reference relation of the cleaner. (`typeID` of the four auxiliary tables is
    not listed: such a row is only ever alive together with its type.) -/
def specRefs : List Ref :=
  [⟨.evetypes, .fk "groupID", .evegroups⟩,
   ⟨.dgmattribs, .fk "maxAttributeID", .dgmattribs⟩,
   ⟨.dgmtypeattribs, .fk "attributeID", .dgmattribs⟩,
   ⟨.dgmtypeattribs, .attrval [127, 2324], .evetypes⟩,
   ⟨.dgmtypeattribs, .attrval [2468, 2470, 2472, 2536], .dbuffcollections⟩]
  ++ effectAttrFields.map (fun f => ⟨.dgmeffects, .fk f, .dgmattribs⟩)
  ++ [⟨.dgmeffects, .modinfo "groupID", .evegroups⟩,
      ⟨.dgmeffects, .modinfo "modifiedAttributeID", .dgmattribs⟩,
      ⟨.dgmeffects, .modinfo "modifyingAttributeID", .dgmattribs⟩,
      ⟨.dgmeffects, .modinfo "skillTypeID", .evetypes⟩,
      ⟨.dgmtypeeffects, .fk "effectID", .dgmeffects⟩]
  ++ buffSections.map (fun s => ⟨.dbuffcollections, .buff s "dogmaAttributeID", .dgmattribs⟩)
  ++ [⟨.dbuffcollections, .buff "locationGroupModifiers" "groupID", .evegroups⟩,
      ⟨.dbuffcollections, .buff "locationRequiredSkillModifiers" "skillID", .evetypes⟩,
      ⟨.skillreqs, .fk "skillTypeID", .evetypes⟩]

/-- Fields the converter / modifier builder / buff template builder put into an id slot of a built object. -/
def specConvRefs : List Ref :=
  [⟨.evetypes, .fk "groupID", .evegroups⟩,
   ⟨.dgmattribs, .fk "maxAttributeID", .dgmattribs⟩,
   ⟨.dgmtypeattribs, .fk "attributeID", .dgmattribs⟩]
  ++ effectAttrFields.map (fun f => ⟨.dgmeffects, .fk f, .dgmattribs⟩)
  ++ [⟨.dgmeffects, .modinfo "groupID", .evegroups⟩,
      ⟨.dgmeffects, .modinfo "modifiedAttributeID", .dgmattribs⟩,
      ⟨.dgmeffects, .modinfo "modifyingAttributeID", .dgmattribs⟩,
      ⟨.dgmeffects, .modinfo "skillTypeID", .evetypes⟩,
      ⟨.dgmtypeeffects, .fk "effectID", .dgmeffects⟩]
  ++ buffSections.map (fun s => ⟨.dbuffcollections, .buff s "dogmaAttributeID", .dgmattribs⟩)
  ++ [⟨.dbuffcollections, .buff "locationGroupModifiers" "groupID", .evegroups⟩,
      ⟨.dbuffcollections, .buff "locationRequiredSkillModifiers" "skillID", .evetypes⟩,
      ⟨.skillreqs, .fk "skillTypeID", .evetypes⟩]

/-- Ids a built type carries as an attribute *value* and eos dereferences at run time (autocharges, warfare buffs). -/
def specValueRefs : List Ref :=
  [⟨.dgmtypeattribs, .attrval [127, 2324], .evetypes⟩,
   ⟨.dgmtypeattribs, .attrval [2468, 2470, 2472, 2536], .dbuffcollections⟩]

def specAux : List Tbl := [.dgmtypeattribs, .dgmtypeeffects, .skillreqs, .typefighterabils]

/-- charge, drone, fighter, implant, module, ship, skill, subsystem -/
def specStrongCategories : List Int := [6, 7, 8, 16, 18, 20, 32, 87]

/-- character, effect beacon -/
def specStrongGroups : List Int := [1, 920]

def specPk : Tbl → List String
  | .dgmattribs => ["attributeID"]
  | .dgmeffects => ["effectID"]
  | .dgmtypeattribs => ["typeID", "attributeID"]
  | .dgmtypeeffects => ["typeID", "effectID"]
  | .evegroups => ["groupID"]
  | .evetypes => ["typeID"]
  | .dbuffcollections => ["buffID"]
  | .skillreqs => ["typeID", "skillTypeID"]
  | .typefighterabils => ["typeID", "abilityID"]

def allTables : List Tbl :=
  [.evetypes, .evegroups, .dgmattribs, .dgmtypeattribs, .dgmeffects, .dgmtypeeffects,
   .dbuffcollections, .skillreqs, .typefighterabils]

/-- evetypes field -> attribute id the normalizer files it under -/
def specNormAttrs : List (String × Int) := [("capacity", 38), ("mass", 4), ("radius", 162), ("volume", 161)]

/-- lo, hi, med power -/
def specRackEffects : List Int := [11, 12, 13]

/-! ## Generic "first row wins" pass (`_table_pk`, `_multiple_default_effects`, `_colliding_module_racks`) -/

/-- Walk the rows in `table_pos` order; a keyed row whose key was seen before is handed to `act`
    (dropped or rewritten), everything else is kept. -/
def firstWins {α κ : Type} [DecidableEq κ] (key : α → Option κ) (act : α → Option α) :
    List κ → List α → List α
  | _, [] => []
  | seen, r :: rs =>
    match key r with
    | none => r :: firstWins key act seen rs
    | some k =>
      if k ∈ seen then (act r).toList ++ firstWins key act seen rs
      else r :: firstWins key act (k :: seen) rs

/-! ## validator_preclean -/

/-- The primary key of a row if every component is present and Integral. -/
def pkOf (r : Row) : Option (Tbl × List Rat) :=
  ((specPk r.tbl).mapM fun k => match r.fields.lookup k with
    | some v => if v.isIntegral then v.asNum? else none
    | none => none).map fun ks => (r.tbl, ks)

def preclean (rows : List Row) : List Row :=
  firstWins pkOf (fun _ => none) [] (rows.filter fun r => (pkOf r).isSome)

/-! ## normalizer -/

def normalize (d : List Row) : List Row :=
  let defined (t a : Val) : Bool := d.any fun r =>
    r.tbl = .dgmtypeattribs && pyEq (r.get "typeID") t && pyEq (r.get "attributeID") a
  d ++ (d.filter fun r => r.tbl = .evetypes).flatMap fun r =>
    r.fields.filterMap fun kv =>
      match specNormAttrs.lookup kv.1 with
      | none => none
      | some a =>
        if kv.2 = .none || defined (r.get "typeID") (Val.ofInt a) then none
        else some { tbl := .dgmtypeattribs, pos := none,
                    fields := [("typeID", r.get "typeID"), ("attributeID", Val.ofInt a), ("value", kv.2)] }

/-! ## cleaner -/

/-- Group ids whose types are strong: the hardcoded groups and every group of a strong category. -/
def strongGroupIds (d : List Row) : List Val :=
  specStrongGroups.map Val.ofInt ++
    (d.filter fun g => g.tbl = .evegroups &&
      specStrongCategories.any fun c => pyEq (g.get "categoryID") (Val.ofInt c)).map (·.get "groupID")

/-- `_pump_evetypes` -/
def isStrong (d : List Row) (r : Row) : Bool :=
  r.tbl = .evetypes && (strongGroupIds d).any fun g => pyEq (r.get "groupID") g

section Generic
variable {ρ : Type} [DecidableEq ρ]

/-- Restore every row of `rows` that an alive row points to through `e` (one snapshot, set semantics). -/
def grow (e : ρ → ρ → Bool) (rows live : List ρ) : List ρ :=
  rows.filter fun r => live.contains r || live.any fun s => e s r

/-- One turn of the `while self._changed` loop: auxiliary friends, then broken relationships. -/
def round (aux ref : ρ → ρ → Bool) (rows live : List ρ) : List ρ :=
  grow ref rows (grow aux rows live)

/-- The loop, with fuel. It stops when a turn restored nothing. -/
def iter (aux ref : ρ → ρ → Bool) (rows : List ρ) : Nat → List ρ → List ρ
  | 0, live => live
  | n + 1, live =>
    let live' := round aux ref rows live
    if live'.length = live.length then live else iter aux ref rows n live'

/-- `_kill_weak` then the loop; fuel = number of rows (each productive turn restores at least one). -/
def cleanG (aux ref : ρ → ρ → Bool) (strong : ρ → Bool) (rows : List ρ) : List ρ :=
  iter aux ref rows rows.length (rows.filter strong)

end Generic

/-- `Cleaner().clean(data)` under a reference relation and an auxiliary-table list. -/
def cleanWith (refs : List Ref) (aux : List Tbl) (d : List Row) : List Row :=
  cleanG (auxEdge aux) (refEdge refs) (isStrong d) d

def clean (d : List Row) : List Row := cleanWith specRefs specAux d

/-! ## validator_preconv (fighter ability checks are not modelled) -/

def attrValueOk (r : Row) : Bool := r.tbl != .dgmtypeattribs || (r.get "value").isReal

/-- Replace `isDefault` with False. -/
def demote (r : Row) : Row :=
  { r with fields := r.fields.map fun kv => if kv.1 = "isDefault" then (kv.1, Val.bool false) else kv }

def defaultKey (r : Row) : Option Rat :=
  if r.tbl = .dgmtypeeffects && (r.get "isDefault").truthy then (r.get "typeID").asNum? else none

def rackKey (r : Row) : Option Rat :=
  if r.tbl = .dgmtypeeffects && specRackEffects.any (fun e => pyEq (r.get "effectID") (Val.ofInt e)) then
    (r.get "typeID").asNum? else none

def multipleDefaultEffects (l : List Row) : List Row := firstWins defaultKey (fun r => some (demote r)) [] l

def collidingModuleRacks (l : List Row) : List Row := firstWins rackKey (fun _ => none) [] l

def preconv (l : List Row) : List Row :=
  collidingModuleRacks (multipleDefaultEffects (l.filter attrValueOk))

/-! ## the pipeline up to the converter's input -/

def prepare (raw : List Row) : List Row := normalize (preclean raw)

def final (raw : List Row) : List Row := preconv (clean (prepare raw))

/-! ## converter: what the built objects carry -/

def modFuncs : List String :=
  ["ItemModifier", "LocationModifier", "LocationGroupModifier", "LocationRequiredSkillModifier",
   "OwnerRequiredSkillModifier"]

/-- Domain codes the modifier builder knows: 0 self, 1 character, 2 ship, 3 target, 4 other. -/
def modDomain? : Val → Option Nat
  | .none => some 0
  | .str "itemID" => some 0
  | .str "charID" => some 1
  | .str "shipID" => some 2
  | .str "targetID" => some 3
  | .str "otherID" => some 4
  | _ => none

/-- (affectee attr, affector attr, extra argument) of the modifier an entry yields, if it builds and validates. -/
def builtMod (e : Option Fields) : Option (Int × Int × Option Int) := do
  let d ← e
  let func ← match ← d.lookup "func" with
    | .str f => if modFuncs.contains f then some f else none
    | _ => none
  let dom ← modDomain? (← d.lookup "domain")
  let op ← d.lookup "operation"
  if !([-1, 0, 1, 2, 3, 4, 5, 6, 7].any fun (i : Int) => pyEq op (Val.ofInt i)) then none
  let tgt ← (← d.lookup "modifiedAttributeID").toInt?
  let src ← (← d.lookup "modifyingAttributeID").toInt?
  let extra ←
    if func = "LocationGroupModifier" then (← d.lookup "groupID").toInt?.map some
    else if func = "LocationRequiredSkillModifier" || func = "OwnerRequiredSkillModifier" then
      (← d.lookup "skillTypeID").toInt?.map some
    else some none
  let domOk := if func = "ItemModifier" then true
    else if func = "OwnerRequiredSkillModifier" then dom == 1 else dom != 4
  if domOk then some (tgt, src, extra) else none

/-- Does `Converter.run` abort with KeyError on these rows? -/
def convertAborts (fin : List Row) : Bool :=
  fin.any fun r =>
    (r.tbl = .skillreqs && (r.fields.lookup "level").isNone) ||
    (r.tbl = .dbuffcollections && r.buffs.any fun sd =>
      (sd.2.lookup "dogmaAttributeID").isNone ||
      (sd.1 = "locationGroupModifiers" && (sd.2.lookup "groupID").isNone) ||
      (sd.1 = "locationRequiredSkillModifiers" && (sd.2.lookup "skillID").isNone) ||
      !(["PreAssignment", "PreMul", "PreDiv", "ModAdd", "ModSub", "PostMul", "PostDiv", "PostPercent",
         "PostAssignment"].any fun o => pyEq (r.get "operationName") (.str o)) ||
      !(["Minimum", "Maximum"].any fun o => pyEq (r.get "aggregateMode") (.str o)))

end Eos.Cleaner
