import EosModel.Num
/-! # Dogma attribute calculation (specification side of C02)

Hand-written from the property statement and the documentation of
`eos/const/eos.py` (operator order = numeric order of `ModOperator`; stacking
penalty; min/max aggregation; cap; two-digit rounding).  Everything is exact `Rat`.
The constants used here are compared with the live ones in `EosGen.Consts`
by theorems in `EosProofs/Props/C02.lean`.
-/
namespace Eos.Calc

inductive Err | divZero
  deriving Repr, DecidableEq

/-- One gathered modification, as `CalculationService.get_modifications` returns it. -/
structure Mod where
  op : Nat
  value : Rat
  resist : Rat := 1
  /-- 1 = stack, 2 = minimum, 3 = maximum -/
  agg : Nat := 1
  aggKey : Option Int := none
  /-- the affector item's type category is penalty-immune (ship, charge, skill, implant, subsystem) -/
  immune : Bool := false
  deriving Repr, DecidableEq

def isAssign (op : Nat) : Bool := op == 1 || op == 10
def isAdd (op : Nat) : Bool := op == 4 || op == 5
def isMul (op : Nat) : Bool := op == 2 || op == 3 || op == 6 || op == 7 || op == 8 || op == 9
def isPenalizable (op : Nat) : Bool := op == 2 || op == 3 || op == 6 || op == 8 || op == 9
def knownOp (op : Nat) : Bool := 1 ≤ op && op ≤ 10

/-- Normalised value of a modification: assignments and additions keep the value (subtraction
negates), multiplications become reduced multipliers.  Division by zero is an explicit error. -/
def normalize (op : Nat) (v : Rat) : Except Err Rat :=
  if op == 3 || op == 8 then (if v = 0 then .error .divZero else .ok (1 / v - 1))
  else if op == 2 || op == 6 || op == 7 then .ok (v - 1)
  else if op == 9 then .ok (v / 100)
  else if op == 5 then .ok (-v)
  else .ok v

/-- A normalised contribution: operator, normalised value times resistance, penalise flag. -/
structure NMod where
  op : Nat
  v : Rat
  pen : Bool
  agg : Nat
  key : Option Int
  deriving Repr, DecidableEq

def normMod (stackable : Bool) (m : Mod) : Except Err NMod := do
  let v ← normalize m.op m.value
  pure { op := m.op, v := v * m.resist, agg := m.agg, key := m.aggKey,
         pen := !stackable && !m.immune && isPenalizable m.op }

/-- Unknown operators are logged and skipped by the code. -/
def normAll (stackable : Bool) : List Mod → Except Err (List NMod)
  | [] => .ok []
  | m :: ms =>
    if knownOp m.op then do
      let n ← normMod stackable m
      let ns ← normAll stackable ms
      pure (n :: ns)
    else normAll stackable ms

/-- `(value, flag)` pairs ordered lexicographically with `false < true`. -/
def pairLe (a b : Rat × Bool) : Bool := a.1 < b.1 || (a.1 == b.1 && (!a.2 || b.2))

/-- Minimum of a non-empty list under `pairLe` (first minimal element, as Python's `min`). -/
def pickMinPair : List (Rat × Bool) → Option (Rat × Bool)
  | [] => none
  | x :: xs => some (xs.foldl (fun acc y => if pairLe acc y then acc else y) x)

/-- Aggregate-minimum pick: least value, ties prefer the unpenalised one. -/
def pickMin (l : List NMod) : Option (Rat × Bool) := pickMinPair (l.map fun n => (n.v, n.pen))

/-- Aggregate-maximum pick: greatest value, ties prefer the unpenalised one
(`max` over the key `(value, not penalize)`). -/
def pickMax (l : List NMod) : Option (Rat × Bool) :=
  (pickMinPair (l.map fun n => (-n.v, n.pen))).map fun p => (-p.1, p.2)

def dedup {α : Type} [DecidableEq α] : List α → List α
  | [] => []
  | x :: xs => let r := dedup xs; if x ∈ r then r else x :: r

/-- Contributions `(op, value, penalise)` after aggregation: every stack-mode modification, plus
one pick per `(operator, aggregate key)` group of the minimum and of the maximum mode. -/
def contributions (ns : List NMod) : List (Nat × Rat × Bool) :=
  let stack := (ns.filter (·.agg == 1)).map fun n => (n.op, n.v, n.pen)
  let grp (mode : Nat) (pick : List NMod → Option (Rat × Bool)) : List (Nat × Rat × Bool) :=
    let members := ns.filter (·.agg == mode)
    let keys := dedup (members.map fun n => (n.op, n.key))
    keys.filterMap fun k =>
      (pick (members.filter fun n => n.op == k.1 && n.key == k.2)).map fun p => (k.1, p.1, p.2)
  stack ++ grp 2 pickMin ++ grp 3 pickMax

def prodOnePlus (l : List Rat) : Rat := l.foldl (fun acc v => acc * (1 + v)) 1
def sumList (l : List Rat) : Rat := l.foldl (fun acc v => acc + v) 0

/-- Value of one penalisation chain: the `i`-th strongest modification is weighted by `pen i`;
the 12th and further ones are ignored. -/
def chainVal (pen : Nat → Rat) : Nat → List Rat → Rat
  | _, [] => 1
  | i, v :: vs => if i > 10 then 1 else (1 + v * pen i) * chainVal pen (i + 1) vs

def sortDesc (l : List Rat) : List Rat := l.mergeSort (fun a b => decide (b ≤ a))
def sortAsc (l : List Rat) : List Rat := l.mergeSort (fun a b => decide (a ≤ b))

/-- Stacking penalty: positive and negative reduced multipliers form separate chains,
strongest first. Returns the aggregated reduced multiplier. -/
def penalize (pen : Nat → Rat) (vs : List Rat) : Rat :=
  chainVal pen 0 (sortDesc (vs.filter (fun v => decide (0 ≤ v)))) *
    chainVal pen 0 (sortAsc (vs.filter (fun v => decide (v < 0)))) - 1

/-- Values that enter the final fold for one operator. -/
def opValues (pen : Nat → Rat) (cs : List (Nat × Rat × Bool)) (op : Nat) : List Rat :=
  let plain := (cs.filter fun c => c.1 == op && !c.2.2).map (·.2.1)
  let pens := (cs.filter fun c => c.1 == op && c.2.2).map (·.2.1)
  if pens.isEmpty then plain else plain ++ [penalize pen pens]

def maxList : List Rat → Option Rat
  | [] => none
  | x :: xs => some (xs.foldl max x)
def minList : List Rat → Option Rat
  | [] => none
  | x :: xs => some (xs.foldl min x)

def applyOp (hig : Bool) (op : Nat) (vs : List Rat) (value : Rat) : Rat :=
  if vs.isEmpty then value
  else if isAssign op then ((if hig then maxList vs else minList vs).getD value)
  else if isAdd op then value + sumList vs
  else if isMul op then value * prodOnePlus vs
  else value

/-- Operators are applied in the numeric order of `ModOperator`. -/
def opOrder : List Nat := [1, 2, 3, 4, 5, 6, 7, 8, 9, 10]

def foldOps (pen : Nat → Rat) (hig : Bool) (cs : List (Nat × Rat × Bool)) (base : Rat) : Rat :=
  opOrder.foldl (fun value op => applyOp hig op (opValues pen cs op) value) base

/-- Python `round(x, 2)`: half-even on the exact value. -/
def round2 (x : Rat) : Rat :=
  let y := x * 100
  let f := y.floor
  let d := y - (f : Rat)
  let r : Int := if d < 1/2 then f else if 1/2 < d then f + 1 else (if f % 2 = 0 then f else f + 1)
  (r : Rat) / 100

/-- Distance (as a fraction of 1/100) of `x*100` from the nearest rounding tie. -/
def round2Margin (x : Rat) : Rat :=
  let y := x * 100
  let d := y - (y.floor : Rat)
  if d < 1/2 then 1/2 - d else d - 1/2

/-- The full calculation of one attribute value from its base value and gathered modifications. -/
def calculate (pen : Nat → Rat) (stackable hig : Bool) (base : Rat) (mods : List Mod)
    (cap : Option Rat) (limited : Bool) : Except Err Rat := do
  let ns ← normAll stackable mods
  let v := foldOps pen hig (contributions ns) base
  let v := match cap with | some c => min v c | none => v
  pure (if limited then round2 v else v)

end Eos.Calc
