import EosModel.Cycle
import EosModel.Toggle
/-! Hand-written model of fit statistics (property C04): a *stateless* recomputation of every
`fit.stats.*` observation from a snapshot of the current configuration (items with class, state,
running effect ids, the attribute values eos itself reports, container contents), plus the reading
of the stat registers as toggle registers over the fit's message stream.

Attribute and effect ids are the repo's enum *names* (strings), so the model does not depend on numeric ids.
Partial Python operations are explicit error outcomes (`Err`), never defaults. -/
namespace Eos.Stats
open Eos.Cycle

inductive Err | zeroDiv | valueErr | typeErr | attrErr | keyErr
  deriving DecidableEq, Repr

def Err.name : Err → String
  | .zeroDiv => "ZeroDivisionError" | .valueErr => "ValueError" | .typeErr => "TypeError"
  | .attrErr => "AttributeError" | .keyErr => "KeyError"

abbrev R := Except Err

/-! ## Four damage types -/
structure D4 where
  em : Rat
  th : Rat
  ki : Rat
  ex : Rat
  deriving DecidableEq, Repr

namespace D4
def zero : D4 := ⟨0, 0, 0, 0⟩
def add (a b : D4) : D4 := ⟨a.em + b.em, a.th + b.th, a.ki + b.ki, a.ex + b.ex⟩
def scale (a : D4) (k : Rat) : D4 := ⟨a.em * k, a.th * k, a.ki * k, a.ex * k⟩
/-- a target resist profile leaves `1 - resist` of each type -/
def resisted (a r : D4) : D4 := ⟨a.em * (1 - r.em), a.th * (1 - r.th), a.ki * (1 - r.ki), a.ex * (1 - r.ex)⟩
def total (a : D4) : Rat := a.em + a.th + a.ki + a.ex
def nonneg (a : D4) : Bool := decide (0 ≤ a.em) && decide (0 ≤ a.th) && decide (0 ≤ a.ki) && decide (0 ≤ a.ex)
def sum (l : List D4) : D4 := l.foldl add zero
end D4

/-! ## Tanking formulas (specification; `EosGen.StatFormulas` is proved equal to these) -/
def dealt (p : D4) : Rat := p.em + p.th + p.ki + p.ex
def absorbed (p r : D4) : Rat := p.em * r.em + p.th * r.th + p.ki * r.ki + p.ex * r.ex
def received (p r : D4) : Rat := dealt p - absorbed p r

/-- `_get_tanking_efficiency`: `dealt / received`, ZeroDivisionError when nothing is received. -/
def tankEff (p r : D4) : R Rat :=
  if received p r = 0 then .error .zeroDiv else .ok (dealt p / received p r)

/-- `__get_layer_ehp`. -/
def layerEhp (hp : Rat) (p r : D4) : R Rat :=
  if hp = 0 then .ok hp else (tankEff p r).map (hp * ·)

def minResist (r : D4) : Rat := min (min (min r.em r.th) r.ki) r.ex

/-- `__get_layer_worst_case_ehp`. -/
def layerWorst (hp : Rat) (r : D4) : R Rat :=
  if hp = 0 then .ok hp
  else if 1 - minResist r = 0 then .error .zeroDiv
  else .ok (hp / (1 - minResist r))

/-- `DmgStats(em, th, ki, ex, mult)`: optional scaling, then the non-negativity check. -/
def mkStats (v : D4) (mult : Option Rat) : R D4 :=
  let w := match mult with | none => v | some k => v.scale k
  if w.nonneg then .ok w else .error .valueErr

/-- `DmgStats._combine(containers, tgt_resists)`. -/
def combine (l : List D4) (tgt : Option D4) : R D4 :=
  let s := D4.sum l
  mkStats (match tgt with | none => s | some r => s.resisted r) none

/-! ## Discontinuous helpers (exact) -/
/-- Python `int(x)`: truncation towards zero. -/
def trunc (x : Rat) : Int := if 0 ≤ x then x.floor else -((-x).floor)

/-- Round half to even to an integer. -/
def roundHE (x : Rat) : Int :=
  let f := x.floor
  let d := x - f
  if d < 1/2 then f else if d > 1/2 then f + 1 else if f % 2 = 0 then f else f + 1

/-- Python `round(x, n)` on the exact value. -/
def roundN (x : Rat) (n : Nat) : Rat := (roundHE (x * (10 ^ n : Nat)) : Rat) / (10 ^ n : Nat)

/-- `eos.util.float.float_to_int`: `int(round(x, 7))`. -/
def floatToInt (x : Rat) : Int := trunc (roundN x 7)

/-! ## Snapshot -/
inductive Cls
  | ship | character | modHigh | modMid | modLow | rig | subsystem | drone | fighter
  | charge | autocharge | implant | booster | skill | stance | beacon
  deriving DecidableEq, Repr

def Cls.isModule : Cls → Bool
  | .modHigh | .modMid | .modLow => true
  | _ => false

inductive Layer | armor | shield
  deriving DecidableEq, Repr

/-- Which eos effect class an effect id is built as (decided by `EffectFactory`). -/
inductive EffKind
  | plain
  | ddSimple                          -- EmpWave, DoomsdayDirect
  | ddMissiles                        -- UseMissiles
  | ddTurretCharge (spool : Bool)     -- ChainLightning, ProjectileFired; TargetDisintegratorAttack (spool)
  | ddTargetAttack
  | ddFtrAttack (pfx : String)        -- FighterAbilityAttackM / FighterAbilityMissiles (attribute name prefix)
  | ddFtrKamikaze
  | ddFtrBomb
  | rep (layer : Layer) (remote fueled spool : Bool)
  deriving DecidableEq, Repr

def EffKind.isDD : EffKind → Bool
  | .plain | .rep .. => false
  | _ => true

def EffKind.isFighter : EffKind → Bool
  | .ddFtrAttack _ | .ddFtrKamikaze | .ddFtrBomb => true
  | _ => false

def EffKind.suppresses : EffKind → Bool
  | .ddFtrKamikaze => true
  | _ => false

structure Eff where
  id : String
  kind : EffKind
  projectable : Bool            -- category `target`
  durAttr : Option String

structure Item where
  id : Nat
  fit : Nat                     -- 0 = the observed fit
  cls : Cls
  loaded : Bool
  state : Nat                   -- State enum value (charges: their container's)
  parent : Option Nat := none   -- container item of a charge / autocharge
  target : Option Nat := none
  charge : Option Nat := none
  autocharges : List (String × Nat) := []
  typeEffects : List String := []
  defEff : Option String := none
  running : List String := []
  typeAttrs : List String := []
  typeTruthy : List String := []             -- type attributes whose base value is truthy
  attrs : List (String × Rat) := []          -- what `item.attrs.get(a)` reports
  abilities : List (String × Rat × Rat) := []  -- effect id ↦ (cooldown_time, charge_quantity)

structure Snap where
  effs : List Eff := []
  items : List Item := []
  ship : Option Nat := none
  char : Option Nat := none
  nHigh : Nat := 0              -- `len()` of the racks, holes included
  nMid : Nat := 0
  nLow : Nat := 0
  profile : Option D4 := none   -- `fit.default_incoming_dmg`

def Item.attr? (it : Item) (a : String) : Option Rat := it.attrs.lookup a
def Item.attrD (it : Item) (a : String) (d : Rat) : Rat := (it.attr? a).getD d
def Item.hasTypeAttr (it : Item) (a : String) : Bool := it.typeAttrs.contains a
def Item.runs (it : Item) (e : String) : Bool := it.running.contains e
def Snap.item? (s : Snap) (i : Nat) : Option Item := s.items.find? (·.id == i)
def Snap.eff? (s : Snap) (e : String) : Option Eff := s.effs.find? (·.id == e)
def Snap.mine (s : Snap) : List Item := s.items.filter (·.fit == 0)
def Snap.shipItem (s : Snap) : Option Item := s.ship.bind s.item?

/-! ## Resources and slots -/
/-- Items counted by a `ShipRegularResourceRegister` / `HardpointEffectSlotRegister`. -/
def effectUsers (s : Snap) (useEff : String) (useAttr : Option String) : List Item :=
  s.mine.filter fun it => it.runs useEff && (match useAttr with | none => true | some a => it.hasTypeAttr a)

def dronesLoaded (s : Snap) (a : String) : List Item :=
  s.mine.filter fun it => it.cls == .drone && it.loaded && it.hasTypeAttr a

def dronesOnlineLoaded (s : Snap) (a : String) : List Item :=
  s.mine.filter fun it => it.cls == .drone && it.loaded && decide (2 ≤ it.state) && it.hasTypeAttr a

/-- `LaunchedDroneRegister` listens to StatesActivated (not ...Loaded): unloaded drones count too. -/
def dronesLaunched (s : Snap) : List Item :=
  s.mine.filter fun it => it.cls == .drone && decide (2 ≤ it.state)

/-- Loaded fighter squads whose *type* attribute is truthy. -/
def fighterSquads (s : Snap) (a : String) : List Item :=
  s.mine.filter fun it => it.cls == .fighter && it.loaded && it.typeTruthy.contains a

/-- `sum(item.attrs[a] for item in users)`; `attrs[a]` raising is a KeyError. -/
def sumAttr (l : List Item) (a : String) : R Rat :=
  l.foldlM (fun acc it => match it.attr? a with | some v => .ok (acc + v) | none => .error .keyErr) 0

/-- `fit.<holder>.attrs[a]` guarded by `except (AttributeError, KeyError)`. -/
def holderAttr (h : Option Item) (a : String) : Rat :=
  match h with | none => 0 | some it => it.attrD a 0

def countCls (s : Snap) (c : Cls) : Nat := (s.mine.filter (·.cls == c)).length

/-! ## HP, resists, EHP -/
structure Layers (α : Type) where
  hull : α
  armor : α
  shield : α

def mkHP (h a sh : Rat) : R (Layers Rat) :=
  if 0 ≤ h ∧ 0 ≤ a ∧ 0 ≤ sh then .ok ⟨h, a, sh⟩ else .error .valueErr

def Item.hp (it : Item) : R (Layers Rat) :=
  mkHP (it.attrD "hp" 0) (it.attrD "armor_hp" 0) (it.attrD "shield_capacity" 0)

def mkResist (a b c d : Rat) : R D4 :=
  if (0 ≤ a ∧ a ≤ 1) ∧ (0 ≤ b ∧ b ≤ 1) ∧ (0 ≤ c ∧ c ≤ 1) ∧ (0 ≤ d ∧ d ≤ 1) then .ok ⟨a, b, c, d⟩ else .error .valueErr

def Item.resistOf (it : Item) (a : String) : Rat := 1 - it.attrD a 1

def Item.resists (it : Item) : R (Layers D4) := do
  let r := it.resistOf
  let hull ← mkResist (r "em_dmg_resonance") (r "therm_dmg_resonance") (r "kin_dmg_resonance") (r "expl_dmg_resonance")
  let armor ← mkResist (r "armor_em_dmg_resonance") (r "armor_therm_dmg_resonance") (r "armor_kin_dmg_resonance")
    (r "armor_expl_dmg_resonance")
  let shield ← mkResist (r "shield_em_dmg_resonance") (r "shield_therm_dmg_resonance") (r "shield_kin_dmg_resonance")
    (r "shield_expl_dmg_resonance")
  pure ⟨hull, armor, shield⟩

def zeroHP : Layers Rat := ⟨0, 0, 0⟩

/-- `item.get_ehp(profile)`; `profile = none` = the caller passed `None` and the fit default is used. -/
def Item.ehp (it : Item) (dflt profile : Option D4) : R (Layers Rat) :=
  match profile.orElse (fun _ => dflt) with
  | none => .ok zeroHP
  | some p => do
    let hp ← it.hp
    let rs ← it.resists
    let h ← layerEhp hp.hull p rs.hull
    let a ← layerEhp hp.armor p rs.armor
    let sh ← layerEhp hp.shield p rs.shield
    mkHP h a sh

def Item.worstEhp (it : Item) : R (Layers Rat) := do
  let hp ← it.hp
  let rs ← it.resists
  let h ← layerWorst hp.hull rs.hull
  let a ← layerWorst hp.armor rs.armor
  let sh ← layerWorst hp.shield rs.shield
  mkHP h a sh

/-! ## Effects: charges, cycles, volley, dps, repairs -/
def Item.chargeItem (s : Snap) (it : Item) : Option Item := if it.cls.isModule then it.charge.bind s.item? else none

/-- `Module.charge_quantity` (AttributeError on items which are not modules). -/
def chargeQuantity (s : Snap) (it : Item) : R (Option Int) :=
  if !it.cls.isModule then .error .attrErr else
  match it.chargeItem s with
  | none => .ok none
  | some ch =>
    match it.attr? "capacity", ch.attr? "volume" with
    | some cap, some vol => if vol = 0 then .error .zeroDiv else .ok (some (floatToInt (cap / vol)))
    | _, _ => .ok none

def ofInt (default : Option ERat) (n : Int) : Option ERat := if n = 0 then default else some (.fin n)

/-- `get_cycles_until_reload_generic(item, default)`. -/
def genericCycles (s : Snap) (it : Item) (default : Option ERat) : R (Option ERat) := do
  match ← chargeQuantity s it with
  | none => pure default
  | some q =>
    match it.attr? "charge_rate" with
    | none => pure default
    | some rate =>
      if rate = 0 then pure default
      else if trunc rate = 0 then .error .zeroDiv        -- `q // int(0.5)`
      else pure (ofInt default (q.fdiv (trunc rate)))     -- Python `//` on ints

/-- `get_cycles_until_reload_crystal(item)` (default `None`). -/
def crystalCycles (s : Snap) (it : Item) : R (Option ERat) := do
  match ← chargeQuantity s it, it.chargeItem s with
  | some q, some ch =>
    if q = 0 then pure none
    else if ch.attrD "crystals_get_damaged" 0 = 0 then pure (some .inf)
    else match ch.attr? "hp", ch.attr? "crystal_volatility_chance", ch.attr? "crystal_volatility_dmg" with
      | some hp, some chance, some dmg =>
        if hp ≤ 0 then pure none
        else if chance ≤ 0 ∨ dmg ≤ 0 then pure (some .inf)
        else pure (ofInt none (floatToInt (hp / dmg / chance) * q))
      | _, _, _ => pure none
  | _, _ => pure none

def dmgAttrs : List String := ["em_dmg", "therm_dmg", "kin_dmg", "expl_dmg"]
def Item.hasDmgTypeAttr (it : Item) : Bool := dmgAttrs.any it.hasTypeAttr

/-- `Effect.get_charge`: the autocharge of this effect when the item type names one, else the loaded charge. -/
def effCharge (s : Snap) (it : Item) (e : Eff) (autoAttr : Option String) : Option Item :=
  match autoAttr with
  | some a => if it.hasTypeAttr a then (it.autocharges.lookup e.id).bind s.item? else it.chargeItem s
  | none => it.chargeItem s

/-- `TargetAttack._get_base_dmg_item`: `(item id, it is the regular charge)`. -/
def targetAttackBase (s : Snap) (it : Item) (e : Eff) : Option (Item × Bool) :=
  match effCharge s it e (some "ammo_loaded") with
  | some ch => if ch.hasDmgTypeAttr then some (ch, it.cls.isModule && it.charge == some ch.id)
               else if it.hasDmgTypeAttr then some (it, false) else none
  | none => if it.hasDmgTypeAttr then some (it, false) else none

def abilityData (it : Item) (e : Eff) : Option (Rat × Rat) := it.abilities.lookup e.id

/-- `FighterEffect.get_cycles_until_reload`. -/
def fighterCycles (it : Item) (e : Eff) : Option ERat :=
  match abilityData it e with
  | none => none
  | some (_, q) => if q = 0 then none else some (.fin q)

/-- `effect.get_cycles_until_reload(item)`. -/
def effCycles (s : Snap) (it : Item) (e : Eff) : R (Option ERat) :=
  match e.kind with
  | .plain | .ddSimple => pure (some .inf)
  | .ddMissiles | .ddTurretCharge _ => genericCycles s it none
  | .ddTargetAttack =>
    match targetAttackBase s it e with
    | none => pure none
    | some (_, isCharge) => if isCharge then crystalCycles s it else pure (some .inf)
  | .ddFtrAttack _ | .ddFtrBomb => pure (fighterCycles it e)
  | .ddFtrKamikaze => pure (some (.fin 1))
  | .rep _ _ fueled _ => if fueled then genericCycles s it (some .inf) else pure (some .inf)

/-- Python truthiness of a cycle count. -/
def cyclesFalsy : Option ERat → Bool
  | none => true
  | some (.fin c) => c == 0
  | some .inf => false

def cyclesDead : Option ERat → Bool
  | none => true
  | some (.fin c) => decide (c ≤ 0)
  | some .inf => false

def effDuration (it : Item) (e : Eff) : Option Rat := (e.durAttr.bind it.attr?).map (· / 1000)

/-- `get_forced_inactive_time`. -/
def effInactive (it : Item) (e : Eff) : R (Option Rat) :=
  if e.kind.isFighter then
    match abilityData it e, effDuration it e with
    | none, _ => .error .keyErr
    | some _, none => .error .typeErr                    -- `cooldown_time - None`
    | some (cd, _), some d => .ok (some (max (cd - d) 0))
  else .ok (some ((it.attr? "module_reactivation_delay").map (· / 1000) |>.getD 0))

/-- `get_reload_time`: fighter effects never reload; otherwise `Module.reload_time`. -/
def effReload (it : Item) (e : Eff) : Option Rat :=
  if e.kind.isFighter || !it.cls.isModule then none else (it.attr? "reload_time").map (· / 1000)

/-- `get_cycle_parameters(item, reload)`. -/
def effCycleParams (s : Snap) (it : Item) (e : Eff) (reload : Bool) : R (Option Cyc) := do
  let c ← effCycles s it e
  if cyclesDead c then pure none else
  let f ← effInactive it e
  pure (params c (effDuration it e) f (effReload it e) reload)

def avgOf (c : Cyc) : R Rat :=
  match avgTime c with
  | .ok t => .ok t
  | _ => .error .zeroDiv

def dmgOf (it : Item) (names : List String) : D4 :=
  match names with
  | [a, b, c, d] => ⟨it.attrD a 0, it.attrD b 0, it.attrD c 0, it.attrD d 0⟩
  | _ => D4.zero

/-- `item.squad_size` with the fallback of `FighterEffect.get_squad_size`. -/
def squadSize (it : Item) : Option Rat := if it.cls == .fighter then it.attr? "fighter_squadron_max_size" else some 1

def chargeLaunches (ch : Item) (allowed : List String) : Bool :=
  match ch.defEff with
  | some d => ch.runs d && allowed.contains d
  | none => false

/-- `effect.get_volley(item)`. -/
def effVolley (s : Snap) (it : Item) (e : Eff) : R D4 := do
  match e.kind with
  | .plain | .rep .. => pure D4.zero
  | .ddSimple => mkStats (dmgOf it dmgAttrs) none
  | .ddMissiles =>
    if cyclesFalsy (← effCycles s it e) then pure D4.zero else
    match it.chargeItem s with
    | none => .error .attrErr
    | some ch =>
      if chargeLaunches ch ["missile_launching", "fof_missile_launching", "bomb_launching"]
      then mkStats (dmgOf ch dmgAttrs) none else pure D4.zero
  | .ddTurretCharge spool =>
    if cyclesFalsy (← effCycles s it e) then pure D4.zero else
    match it.chargeItem s with
    | none => pure D4.zero
    | some ch =>
      let v ← mkStats (dmgOf ch dmgAttrs) (it.attr? "dmg_mult")
      if spool then
        match it.attr? "dmg_mult_bonus_max" with
        | some m => mkStats v (some (1 + m))
        | none => pure v
      else pure v
  | .ddTargetAttack =>
    if cyclesFalsy (← effCycles s it e) then pure D4.zero else
    match targetAttackBase s it e with
    | none => pure D4.zero
    | some (b, _) => mkStats (dmgOf b dmgAttrs) (it.attr? "dmg_mult")
  | .ddFtrAttack pfx =>
    if cyclesFalsy (fighterCycles it e) then pure D4.zero else
    match squadSize it with
    | none => .error .typeErr                              -- `dmg_mult * None`
    | some n => mkStats (dmgOf it [pfx ++ "_dmg_em", pfx ++ "_dmg_therm", pfx ++ "_dmg_kin", pfx ++ "_dmg_expl"])
                  (some (it.attrD (pfx ++ "_dmg_mult") 1 * n))
  | .ddFtrKamikaze =>
    mkStats (dmgOf it ["fighter_ability_kamikaze_dmg_em", "fighter_ability_kamikaze_dmg_therm",
      "fighter_ability_kamikaze_dmg_kin", "fighter_ability_kamikaze_dmg_expl"]) (squadSize it)
  | .ddFtrBomb =>
    if cyclesFalsy (fighterCycles it e) then pure D4.zero else
    match effCharge s it e (some "fighter_ability_launch_bomb_type") with
    | none => pure D4.zero
    | some ch =>
      if chargeLaunches ch ["bomb_launching"] then mkStats (dmgOf ch dmgAttrs) (squadSize it) else pure D4.zero

/-- `effect.get_dps(item, reload)`. -/
def effDps (s : Snap) (it : Item) (e : Eff) (reload : Bool) : R D4 := do
  if e.kind == .ddFtrKamikaze then pure D4.zero else
  match ← effCycleParams s it e reload with
  | none => pure D4.zero
  | some c =>
    let v ← effVolley s it e
    let t ← avgOf c
    if t = 0 then .error .zeroDiv else mkStats v (some (1 / t))

/-- `DmgDealerMixin.__dd_effect_iter`: running damage dealers, only the suppressors when there is one. -/
def ddEffects (s : Snap) (it : Item) : List Eff :=
  let l := (it.typeEffects.filterMap s.eff?).filter fun e => e.kind.isDD && it.runs e.id
  let sup := l.filter (·.kind.suppresses)
  if sup.isEmpty then l else sup

def itemVolley (s : Snap) (it : Item) (tgt : Option D4) : R D4 := do
  combine (← (ddEffects s it).mapM (effVolley s it)) tgt

def itemDps (s : Snap) (it : Item) (reload : Bool) (tgt : Option D4) : R D4 := do
  combine (← (ddEffects s it).mapM (fun e => effDps s it e reload)) tgt

/-- Items the `DmgDealerRegister` holds: some damage-dealing effect is running on them. -/
def ddItems (s : Snap) : List Item :=
  s.mine.filter fun it => it.running.any fun e => match s.eff? e with | some x => x.kind.isDD | none => false

/-- `fit.stats.get_volley(filter, tgt_resists)` over the items passing the filter. -/
def fitVolley (s : Snap) (f : Item → Bool) (tgt : Option D4) : R D4 := do
  combine (← ((ddItems s).filter f).mapM (fun it => itemVolley s it tgt)) none

def fitDps (s : Snap) (f : Item → Bool) (reload : Bool) (tgt : Option D4) : R D4 := do
  combine (← ((ddItems s).filter f).mapM (fun it => itemDps s it reload tgt)) none

def repAmount (it : Item) (layer : Layer) (spool : Bool) : Rat :=
  let base := match layer with | .armor => it.attrD "armor_dmg_amount" 0 | .shield => it.attrD "shield_bonus" 0
  if spool then match it.attr? "repair_mult_bonus_max" with | some m => base * (1 + m) | none => base else base

/-- `BaseRepairEffect.get_rps`. -/
def effRps (s : Snap) (it : Item) (e : Eff) (reload : Bool) : R Rat := do
  match e.kind with
  | .rep layer _ _ spool =>
    match ← effCycleParams s it e reload with
    | none => pure 0
    | some c =>
      let t ← avgOf c
      if t = 0 then .error .zeroDiv else pure (repAmount it layer spool / t)
  | _ => pure 0

/-- `item._solsys_carrier` as an item id. -/
def carrier (s : Snap) (it : Item) : Option Nat :=
  match it.cls with
  | .modHigh | .modMid | .modLow | .rig | .stance | .subsystem => s.ship
  | .ship | .drone | .fighter => some it.id
  | .charge | .autocharge =>
    match it.parent.bind s.item? with
    | some p => (match p.cls with
      | .modHigh | .modMid | .modLow | .rig | .stance | .subsystem => s.ship
      | .ship | .drone | .fighter => some p.id
      | _ => none)
    | none => none
  | _ => none

def repEffects (s : Snap) (it : Item) (layer : Layer) (remote : Bool) : List Eff :=
  (it.typeEffects.filterMap s.eff?).filter fun e =>
    it.runs e.id && (match e.kind with | .rep l r _ _ => l == layer && r == remote | _ => false)

/-- (item, effect) pairs the local repairer register holds, restricted to those carried by the ship. -/
def localReps (s : Snap) (layer : Layer) : List (Item × Eff) :=
  s.mine.flatMap fun it => if carrier s it == s.ship then (repEffects s it layer false).map (it, ·) else []

/-- Projectors applied to the ship: running projectable remote repairs of any fit whose item targets the ship. -/
def remoteReps (s : Snap) (layer : Layer) : List (Item × Eff) :=
  match s.ship with
  | none => []
  | some sh => s.items.flatMap fun it =>
      if it.target == some sh then ((repEffects s it layer true).filter (·.projectable)).map (it, ·) else []

def Layers.get {α} (l : Layers α) : Layer → α
  | .armor => l.armor
  | .shield => l.shield

/-- `fit.stats.get_armor_rps / get_shield_rps(dmg_profile, reload)`; `profile = none` = caller passed `None`. -/
def fitRps (s : Snap) (layer : Layer) (profile : Option D4) (reload : Bool) : R Rat := do
  match s.shipItem with
  | none => pure 0                                         -- a fit without ship has nothing to repair
  | some sh =>
    let raw ← (localReps s layer ++ remoteReps s layer).foldlM
      (fun acc (p : Item × Eff) => do pure (acc + (← effRps s p.1 p.2 reload))) 0
    match profile with
    | none => pure raw
    | some p => do
      let rs ← sh.resists
      pure (raw * (← tankEff p (rs.get layer)))

/-! ## Stat registers as toggle registers over the message stream

A message, as far as a stat register can tell: which item, what the handlers read off the item
(class, type attributes, the effect classes of its type), whether it switches things on or off, and the
*points* it switches (loaded, a state, a state while loaded, an effect). -/
inductive Point
  | loaded | state (s : Nat) | stateLoaded (s : Nat) | effect (e : String)
  deriving DecidableEq, Repr

structure Facts where
  cls : Cls
  typeAttrs : List String
  truthy : List String := []          -- type attributes with a truthy value
  effKinds : List (String × EffKind) := []

structure Msg where
  on : Bool
  item : Nat
  facts : Facts
  points : List Point

/-- The message classes a point travels in: (switch-on class, switch-off class). -/
def Point.msgs : Point → String × String
  | .loaded => ("ItemLoaded", "ItemUnloaded")
  | .state _ => ("StatesActivated", "StatesDeactivated")
  | .stateLoaded _ => ("StatesActivatedLoaded", "StatesDeactivatedLoaded")
  | .effect _ => ("EffectsStarted", "EffectsStopped")

/-- A stat register: the point it watches and the guard of its add-handler. -/
structure RegSpec where
  name : String
  point : Point
  guard : Facts → Bool
  removal : String := "discard"       -- "remove" = `set.remove` (KeyError when absent)

def isDrone (f : Facts) : Bool := f.cls == .drone
def kindIs (e : String) (p : EffKind → Bool) (f : Facts) : Bool :=
  match f.effKinds.lookup e with | some k => p k | none => false

def regCpu : RegSpec := ⟨"CpuRegister", .effect "online", fun f => f.typeAttrs.contains "cpu", "discard"⟩
def regPowergrid : RegSpec := ⟨"PowergridRegister", .effect "online", fun f => f.typeAttrs.contains "power", "discard"⟩
def regCalibration : RegSpec := ⟨"CalibrationRegister", .effect "rig_slot", fun f => f.typeAttrs.contains "upgrade_cost", "discard"⟩
def regDronebay : RegSpec := ⟨"DronebayVolumeRegister", .loaded, fun f => isDrone f && f.typeAttrs.contains "volume", "discard"⟩
def regBandwidth : RegSpec :=
  ⟨"DroneBandwidthRegister", .stateLoaded 2, fun f => isDrone f && f.typeAttrs.contains "drone_bandwidth_used", "discard"⟩
def regTurret : RegSpec := ⟨"TurretSlotRegister", .effect "turret_fitted", fun _ => true, "discard"⟩
def regLauncher : RegSpec := ⟨"LauncherSlotRegister", .effect "launcher_fitted", fun _ => true, "discard"⟩
def regLaunchedDrone : RegSpec := ⟨"LaunchedDroneRegister", .state 2, isDrone, "discard"⟩
def regFighter (name attr : String) : RegSpec :=
  ⟨name, .loaded, fun f => f.cls == .fighter && f.truthy.contains attr, "discard"⟩
def regFtrSupport := regFighter "FighterSquadSupportRegister" "fighter_squadron_is_support"
def regFtrLight := regFighter "FighterSquadLightRegister" "fighter_squadron_is_light"
def regFtrHeavy := regFighter "FighterSquadHeavyRegister" "fighter_squadron_is_heavy"
/-- Pair registers, one toggle register per effect id `e` (the handler loops over `msg.effect_ids`). -/
def regDmgDealer (e : String) : RegSpec := ⟨"DmgDealerRegister", .effect e, kindIs e EffKind.isDD, "discard"⟩
def regRepairer (name : String) (layer : Layer) (e : String) : RegSpec :=
  ⟨name, .effect e, kindIs e fun k => match k with | .rep l r _ _ => l == layer && !r | _ => false, "remove"⟩
def regArmorRep := regRepairer "ArmorRepairerRegister" .armor
def regShieldRep := regRepairer "ShieldRepairerRegister" .shield

def allRegs : List RegSpec :=
  [regArmorRep "", regCalibration, regCpu, regDmgDealer "", regBandwidth, regDronebay, regFtrHeavy, regFtrLight,
   regFtrSupport, regLaunchedDrone, regLauncher, regPowergrid, regShieldRep "", regTurret]

/-- The handler table the specification demands: register ↦ (message that adds, message that removes). -/
def specHandlerTable : List (String × String × String × String) :=
  allRegs.map fun r => (r.name, r.point.msgs.1, r.point.msgs.2, r.removal)

/-- Effect / attribute each parametrised register is configured with (what the snapshot recomputation reads). -/
def specConfig : List (String × String × String) := [
  ("CalibrationRegister", "_use_effect_id", "rig_slot"), ("CalibrationRegister", "_use_attr_id", "upgrade_cost"),
  ("CalibrationRegister", "_output_attr_id", "upgrade_capacity"),
  ("CpuRegister", "_use_effect_id", "online"), ("CpuRegister", "_use_attr_id", "cpu"),
  ("CpuRegister", "_output_attr_id", "cpu_output"),
  ("FighterSquadHeavyRegister", "_fighter_attr_id", "fighter_squadron_is_heavy"),
  ("FighterSquadHeavyRegister", "_ship_attr_id", "fighter_heavy_slots"),
  ("FighterSquadLightRegister", "_fighter_attr_id", "fighter_squadron_is_light"),
  ("FighterSquadLightRegister", "_ship_attr_id", "fighter_light_slots"),
  ("FighterSquadSupportRegister", "_fighter_attr_id", "fighter_squadron_is_support"),
  ("FighterSquadSupportRegister", "_ship_attr_id", "fighter_support_slots"),
  ("LauncherSlotRegister", "_slot_effect_id", "launcher_fitted"), ("LauncherSlotRegister", "_slot_attr_id", "launcher_slots_left"),
  ("PowergridRegister", "_use_effect_id", "online"), ("PowergridRegister", "_use_attr_id", "power"),
  ("PowergridRegister", "_output_attr_id", "power_output"),
  ("TurretSlotRegister", "_slot_effect_id", "turret_fitted"), ("TurretSlotRegister", "_slot_attr_id", "turret_slots_left")]

def specSlotProps : List (String × String × String) := [
  ("high_slots", "modules.high", "hi_slots"), ("mid_slots", "modules.mid", "med_slots"),
  ("low_slots", "modules.low", "low_slots"), ("rig_slots", "rigs", "rig_slots"),
  ("subsystem_slots", "subsystems", "max_subsystems"), ("fighter_squads", "fighters", "fighter_tubes")]

open Eos.Toggle in
/-- What a message means to a register. -/
def RegSpec.ev (r : RegSpec) (m : Msg) : Ev Unit :=
  if m.points.contains r.point then
    (if m.on then .on m.item (if r.guard m.facts then some () else none) else .off m.item)
  else .skip

/-- Register content after a message history, starting empty. -/
def RegSpec.run (r : RegSpec) (ms : List Msg) : Eos.Toggle.Reg Unit := Eos.Toggle.run [] (ms.map r.ev)

/-- Micro-configuration a history leads to, per point: `some f` = the point of item `i` is on and `f` were the
    item's facts when it was switched on. -/
def microStep (p : Point) (cur : Nat → Option Facts) (m : Msg) : Nat → Option Facts :=
  if m.points.contains p then Eos.Toggle.upd cur m.item (if m.on then some m.facts else none) else cur

def micro (p : Point) (ms : List Msg) : Nat → Option Facts := ms.foldl (microStep p) (fun _ => none)

/-- Messages alternate per item and point: nothing is switched on twice in a row (MsgHelper computes
    `start_ids = new - running`; states and load status change one way at a time). -/
def Alternates (p : Point) : (Nat → Option Facts) → List Msg → Prop
  | _, [] => True
  | cur, m :: ms => (m.points.contains p = true → m.on = true → cur m.item = none) ∧ Alternates p (microStep p cur m) ms

/-- Executable form of `Alternates` (also demanding that nothing is switched off while it is off, which the
    `set.remove` registers rely on). -/
def alternatesB (p : Point) : (Nat → Option Facts) → List Msg → Bool
  | _, [] => true
  | cur, m :: ms =>
    (!m.points.contains p || (if m.on then (cur m.item).isNone else (cur m.item).isSome)) &&
      alternatesB p (microStep p cur m) ms

/-- Sum of an attribute over register members resolved in the snapshot (`used` of the resource registers). -/
def regSum (val : Nat → Rat) (reg : Eos.Toggle.Reg Unit) : Rat := (reg.map fun x => val x.1).foldl (· + ·) 0

end Eos.Stats
