/-! Hand-written model of effect cycling (`eos/eve_obj/effect/effect.py::get_cycle_parameters`,
`eos/eve_obj/effect/cycle.py`).  Numbers are exact rationals extended with `∞` where Python uses `math.inf`. -/
namespace Eos.Cycle

/-- A Python number that may be `math.inf` (cycle counts, repeat quantities). -/
inductive ERat
  | fin (q : Rat)
  | inf
  deriving DecidableEq, Repr

/-- `CycleInfo(active_time, inactive_time, quantity)`. -/
structure Info where
  active : Rat
  inactive : Rat
  quantity : ERat
  deriving DecidableEq, Repr

/-- What `get_cycle_parameters` returns when the effect can cycle. -/
inductive Cyc
  | info (c : Info)
  | seq (members : List Info) (quantity : ERat)
  deriving DecidableEq, Repr

/-- Python `x or 0` for an optional number. -/
def orZero : Option Rat → Rat
  | none => 0
  | some x => x

/-- `get_cycle_parameters(item, reload)` as a function of the four getters it calls:
    cycles until reload (`None`, number or `inf`), duration, forced inactive time, reload time. -/
def params (cycles : Option ERat) (dur inact rt : Option Rat) (reload : Bool) : Option Cyc :=
  let a := orZero dur
  let f := orZero inact
  match cycles with
  | none => none                                         -- `None or 0`, then `<= 0`
  | some (.fin c) =>
    if c ≤ 0 then none else
    match rt with
    | none =>                                            -- cannot be reloaded: same with or without `reload`
      if c - 1 = 0 then some (.info ⟨a, 0, .fin 1⟩)
      else if f = 0 then some (.info ⟨a, 0, .fin c⟩)
      else some (.seq [⟨a, f, .fin (c - 1)⟩, ⟨a, 0, .fin 1⟩] (.fin 1))
    | some r =>
      if !reload || f ≥ r then some (.info ⟨a, f, .inf⟩)
      else if c - 1 = 0 then some (.info ⟨a, r, .inf⟩)
      else some (.seq [⟨a, f, .fin (c - 1)⟩, ⟨a, r, .fin 1⟩] .inf)
  | some .inf => some (.info ⟨a, f, .inf⟩)                 -- `cycles_until_reload == math.inf` short-circuits

/-- Outcome of `average_time`. -/
inductive Avg
  | ok (t : Rat)
  | divZero          -- ZeroDivisionError: sequence whose members repeat zero times in total
  | nan              -- a member with infinite quantity inside a sequence (never produced by `params`)
  deriving DecidableEq, Repr

def seqTime : List Info → Option Rat
  | [] => some 0
  | ⟨a, i, .fin q⟩ :: t => (seqTime t).map (fun s => (a + i) * q + s)
  | ⟨_, _, .inf⟩ :: _ => none

def seqQty : List Info → Option Rat
  | [] => some 0
  | ⟨_, _, .fin q⟩ :: t => (seqQty t).map (fun s => q + s)
  | ⟨_, _, .inf⟩ :: _ => none

/-- `CycleInfo.average_time` / `CycleSequence.average_time`. -/
def avgTime : Cyc → Avg
  | .info c => .ok (c.active + c.inactive)
  | .seq l _ =>
    match seqTime l, seqQty l with
    | some t, some q => if q = 0 then .divZero else .ok (t / q)
    | _, _ => .nan

end Eos.Cycle
