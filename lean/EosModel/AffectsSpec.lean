import EosModel.World
/-! # Cases of the regenerated "which items does a modifier select" table (property C02)

`tools/gen/affects_table.py` builds small worlds through the public API of the real code, one modifier per
world, and records which items have their attribute modified — twice: *from scratch* (the complete world is
built, then every item is read) and *incrementally* (the world is built with the effect stopped / the projector
not targeting, every item is read, the effect is started / the target is set, every item is read again; this
observation also depends on which items the code invalidates, `get_local_affectee_items` /
`get_projected_affectee_items`).  A generated *row* is a recorded world (the public configuration and the item
types, read back from the live objects), the modifier, the verdict of the library's own modifier validation
(`DogmaModifier._valid`, called by the generator), and the ids of the modified items under either observation; a
row expands to one *case* per item of the world.  `specLocal` / `specProjected` are the
specification's answers (`Eos.World.affectsLocal` / `affectsProjected`) on the case; nothing else is defined
here.  Mathlib-free. -/
namespace Eos.AffectsSpec
open Eos.World

/-- A recorded world: public configuration, the types of its items (`types` is aligned with `cfg.items`: the
i-th entry is the type the source serves for the i-th item), the item carrying the modifier. -/
structure AWorld where
  cfg : Config
  types : List ItemType
  affector : Nat
  deriving Repr

/-- A generated row of the local table. -/
structure LocalRow where
  w : AWorld
  m : Modifier
  valid : Bool               -- `modifier._valid` of the real modifier object
  modified : List Nat        -- ids of the items whose attribute the real code modified (world built from scratch)
  modifiedInc : List Nat     -- the same after cache-filling reads, effect started afterwards
  deriving Repr

/-- A generated row of the projected table (`target` = the item the projector targets). -/
structure ProjRow where
  w : AWorld
  target : Nat
  m : Modifier
  valid : Bool
  modified : List Nat
  modifiedInc : List Nat     -- after cache-filling reads, target set afterwards
  deriving Repr

/-- One observation: in configuration `cfg`, is attribute `m.tgtAttr` of the loaded item `x` (of type `tx`)
modified by the local modifier `m` of a running effect of `a`? -/
structure LocalCase where
  cfg : Config
  a : Item
  m : Modifier
  x : Item
  tx : ItemType
  valid : Bool               -- does the library's validation accept the modifier (`_valid` of the real object)
  modified : Bool            -- the real code's answer, world built from scratch
  modifiedInc : Bool         -- the real code's answer, effect started after every item was read
  deriving Repr

structure ProjCase where
  cfg : Config
  a : Item
  m : Modifier
  t : Item
  x : Item
  tx : ItemType
  valid : Bool
  modified : Bool
  modifiedInc : Bool
  deriving Repr

/-- The specification's answer for a local case. -/
def specLocal (c : LocalCase) : Bool := affectsLocal c.cfg c.a c.m c.x c.tx

/-- The specification's answer for a projected case. -/
def specProjected (c : ProjCase) : Bool := affectsProjected c.cfg c.a c.m c.t c.x c.tx

/-- The cases of a row: one per item of the recorded world (a row whose affector is not an item of the world, or
a type list shorter than the item list, would yield fewer cases — the generated case counts exclude that; that
the i-th type is the i-th item's type is part of `localCaseOk` / `projCaseOk`). -/
def LocalRow.cases (r : LocalRow) : List LocalCase :=
  match item? r.w.cfg r.w.affector with
  | none => []
  | some a => (r.w.cfg.items.zip r.w.types).map fun p => ⟨r.w.cfg, a, r.m, p.1, p.2, r.valid, r.modified.contains p.1.id, r.modifiedInc.contains p.1.id⟩

def ProjRow.cases (r : ProjRow) : List ProjCase :=
  match item? r.w.cfg r.w.affector, item? r.w.cfg r.target with
  | some a, some t => (r.w.cfg.items.zip r.w.types).map fun p =>
      ⟨r.w.cfg, a, r.m, t, p.1, p.2, r.valid, r.modified.contains p.1.id, r.modifiedInc.contains p.1.id⟩
  | _, _ => []

def localCasesOf (rows : List LocalRow) : List LocalCase := rows.flatMap LocalRow.cases
def projCasesOf (rows : List ProjRow) : List ProjCase := rows.flatMap ProjRow.cases

/-! ## Outside the domain: modifiers the library's own validation rejects

The table deliberately contains modifiers that `DogmaModifier._valid` rejects (and that `ModBuilder` therefore
never emits): a group / skill filter without argument, an en-masse filter with domain `other`, `owner_skillrq`
with a domain other than `character`.  `valid` is regenerated from the code.  On all of them but one kind the real
code still does what the specification says.  The exception: a `domain_group` modifier WITHOUT group argument
(`groupNoneRow`) — `AffectionRegister.get_affector_specs` looks an affectee up under
`(fit, domain, type.group_id)` without the `group_id is not None` guard of `__get_affectee_storages`, so in a world
built from scratch the group-less items of the domain are modified (`observedGroupNone*`), while
`get_local_affectee_items` never lists them: they are never invalidated, and the incremental observation agrees
with the specification (`Eos.World.passesFilter` requires `m.extra.isSome`).  These rows are checked against
what the real code does; the block check also establishes that every such row is one the validation rejects. -/

/-- Filter `domain_group`, no group argument (rejected by the library's validation). -/
def groupNoneRow (m : Modifier) : Bool := m.filter == 3 && m.extra.isNone

/-- What the real code does on a local `groupNoneRow` in a world built from scratch: it selects the items of the
resolved domain (same fit) whose type has no group. -/
def observedGroupNoneLocal (c : LocalCase) : Bool :=
  if c.m.domain == 4 then false
  else match resolveDomain c.a c.m.domain with
    | none => false
    | some d => c.x.fit == c.a.fit && c.x.kind.modDomain == some d && c.tx.group.isNone

/-- What the real code does on a projected `groupNoneRow` in a world built from scratch: the group-less items
aboard the targeted ship. -/
def observedGroupNoneProj (c : ProjCase) : Bool :=
  c.t.kind == .ship && shipOf c.cfg c.t.fit == some c.t.id && c.x.fit == c.t.fit &&
    c.x.kind.modDomain == some 3 && c.tx.group.isNone

/-- `spec`: the specification's answer; `gn`: `groupNoneRow`; `obs`: what the code is known to do there;
`scr` / `inc`: the two observations.  (The specification's answer is the discriminant so that it is evaluated
once.) -/
def agrees (spec gn obs scr inc : Bool) : Bool :=
  match spec with
  | true => inc && (if gn then scr == obs else scr)
  | false => !inc && (if gn then scr == obs else !scr)

def localCaseOk (c : LocalCase) : Bool :=
  c.x.typeId == c.tx.id && (!groupNoneRow c.m || !c.valid) &&
    agrees (specLocal c) (groupNoneRow c.m) (observedGroupNoneLocal c) c.modified c.modifiedInc

def projCaseOk (c : ProjCase) : Bool :=
  c.x.typeId == c.tx.id && (!groupNoneRow c.m || !c.valid) &&
    agrees (specProjected c) (groupNoneRow c.m) (observedGroupNoneProj c) c.modified c.modifiedInc

theorem agrees_iff {spec gn obs scr inc : Bool} :
    agrees spec gn obs scr inc = true ↔ inc = spec ∧ (if gn then scr = obs else scr = spec) := by
  cases spec <;> cases gn <;> cases obs <;> cases scr <;> cases inc <;> simp [agrees]

/-- Block check: every case of the block agrees with the specification (with what the code is known to do on
the `groupNoneRow`s, all of which the validation rejects), the block has `n` cases of which `k` are "modified"
(from scratch) and `v` belong to a valid modifier, and every recorded modified id is an item of its world (the
recorded ids add up to `k` as well). -/
def localBlockOk (rows : List LocalRow) (n k v : Nat) : Bool :=
  let cs := localCasesOf rows
  cs.all localCaseOk && cs.length == n && cs.countP (·.modified) == k && cs.countP (·.valid) == v
    && ((rows.map (·.modified.length)).sum == k)

def projBlockOk (rows : List ProjRow) (n k v : Nat) : Bool :=
  let cs := projCasesOf rows
  cs.all projCaseOk && cs.length == n && cs.countP (·.modified) == k && cs.countP (·.valid) == v
    && ((rows.map (·.modified.length)).sum == k)

end Eos.AffectsSpec
