import EosModel.Num
/-! Model of the reactive armor hardener simulator (property C12), mirroring
`eos/sim/reactive_armor_hardener.py` statement by statement over exact `Rat`.

* `nextResos`  = `__get_next_resos` (donor/recipient shift),
* `sigRound`   = `eos.util.round.sig_round` (decimal half-even, exact),
* `advance`    = one step of `__sim_tick_iter`,
* `afterTick`  = body of the `for tick_data in ...` loop of `_run_simulation`,
* `noLoop`     = its `else:` branch incl. `__estimate_initial_adaptation_ticks`,
* `avgFrom`    = `__get_avg_resos`,
* `getResults` = `get_reso`'s try/except around `_run_simulation` (fallback to unsimulated values),
* `World`/`step` = the stored-results layer: `__data`, the five message handlers, and the one piece of
  calculator state they depend on (which ship resonances are cached, because `AttrsValueChanged` is only
  published for cached values).

Partial Python operations (`None - x`, `log10(0)`, `x / 0`, `dict[k]`) are `none` outcomes, never defaults.
The rest of the calculator is a parameter: `Env.ship` maps the running hardeners' current resonances to the
ship's four armor resonances (or fails). -/
namespace Eos.Rah

/-- Damage types. -/
inductive Dmg | em | therm | kin | expl
  deriving DecidableEq, Repr

/-- `res_attr_ids`: order in which equal damage is broken (earlier = donor first). -/
def order : List Dmg := [.em, .expl, .kin, .therm]

/-- `attr_profile_map` as (resonance attribute's type, profile field name). -/
def profileField : Dmg → String
  | .em => "em" | .therm => "thermal" | .kin => "kinetic" | .expl => "explosive"

def maxTicks : Nat := 500
def sigDigits : Nat := 10

/-- One value per damage type (resonances, damage, profile). -/
structure Vec where
  em : Rat
  therm : Rat
  kin : Rat
  expl : Rat
  deriving DecidableEq, Repr

namespace Vec
def get (v : Vec) : Dmg → Rat
  | .em => v.em | .therm => v.therm | .kin => v.kin | .expl => v.expl
def ofFn (f : Dmg → Rat) : Vec := ⟨f .em, f .therm, f .kin, f .expl⟩
def zero : Vec := ⟨0, 0, 0, 0⟩
def sum (v : Vec) : Rat := v.em + v.therm + v.kin + v.expl
end Vec

def rmin (a b : Rat) : Rat := if a ≤ b then a else b

/-! ## Resonance shift (`__get_next_resos`) -/

/-- Number of damage types which received exactly zero damage. -/
def zeroCount (d : Vec) : Nat := (order.filter fun t => d.get t = 0).length

/-- `donors = max(2, #zero-damage types)`. -/
def donorsN (d : Vec) : Nat := max 2 (zeroCount d)

/-- `sorted(res_attr_ids, key=received_dmg.get)`: stable, ascending. -/
def sorted (d : Vec) : List Dmg := order.mergeSort fun a b => decide (d.get a ≤ d.get b)

def donorList (d : Vec) : List Dmg := (sorted d).take (donorsN d)

/-- `min(1 - current_reso, shift_amt)`. -/
def donation (cur : Vec) (shift : Rat) (t : Dmg) : Rat := rmin (1 - cur.get t) shift

def donated (cur d : Vec) (shift : Rat) : Rat := ((donorList d).map (donation cur shift)).sum

/-- New resonances after a finished cycle with received damage `d`. The division is only reached for a
    recipient, i.e. when `donorsN d < 4`. -/
def nextResos (cur d : Vec) (shift : Rat) : Vec :=
  Vec.ofFn fun t =>
    if t ∈ donorList d then cur.get t + donation cur shift t
    else cur.get t - donated cur d shift / ((4 - donorsN d : Nat) : Rat)

/-! ## `sig_round` -/

def pow10 (n : Nat) : Rat := ((10 ^ n : Nat) : Rat)

def scale10 (x : Rat) (e : Int) : Rat := if 0 ≤ e then x * pow10 e.toNat else x / pow10 (-e).toNat

def ndigits (n : Nat) : Nat := (Nat.toDigits 10 n).length

/-- `floor(log10 |x|)` for `x ≠ 0`, exact. -/
def magnitude (x : Rat) : Int :=
  let n := x.num.natAbs
  let d := x.den
  if d ≤ n then (ndigits (n / d) : Int) - 1
  else
    let k := ndigits d - ndigits n
    if d ≤ n * 10 ^ k then -(k : Int) else -(k : Int) - 1

/-- Python `round` on the exact value: nearest integer, ties to even. -/
def roundHalfEven (x : Rat) : Int :=
  let f := x.floor
  let r := x - f
  if r < 1 / 2 then f else if 1 / 2 < r then f + 1 else if f % 2 = 0 then f else f + 1

/-- `round(x, nd)`. -/
def roundTo (x : Rat) (nd : Int) : Rat := scale10 (roundHalfEven (scale10 x nd)) (-nd)

/-- `sig_round(x, sig)`; `log10(0)` raises. -/
def sigRound (x : Rat) (sig : Nat) : Option Rat :=
  if x = 0 then none else some (roundTo x ((sig : Int) - 1 - magnitude x))

/-! ## Simulation state -/

/-- What the simulator reads from one running hardener. -/
structure Rah where
  base : Vec              -- unsimulated resonances (`_get_without_overrides`)
  shift : Option Rat      -- `resist_shift_amount` in percent; none = attribute unavailable
  dur : Option Rat        -- cycle time in seconds; none = unavailable
  deriving DecidableEq, Repr

/-- Per-hardener simulation state; `snaps` is this hardener's column of `tick_history`. -/
structure RS where
  rah : Rah
  cyc : Rat
  cycled : Bool
  resos : Vec
  dmg : Vec
  snaps : List (Rat × Vec)

def RS.init (r : Rah) : RS := ⟨r, 0, false, r.base, Vec.zero, []⟩

/-- The rest of the calculator and the damage profile. -/
structure Env where
  ship : List Vec → Option Vec
  profile : Vec

abbrev Key := List (Rat × Vec)

structure Sim where
  st : List RS
  seen : List Key          -- `tick_history` as compared by `RahState.__eq__`
  ticks : Nat
  frag : Bool

structure Out where
  resos : List Vec
  looped : Bool
  ticks : Nat
  frag : Bool

def mapO {α β : Type} (f : α → Option β) : List α → Option (List β)
  | [] => some []
  | a :: l => match f a, mapO f l with
    | some b, some bs => some (b :: bs)
    | _, _ => none

/-- Python `min(...)`; raises on an empty sequence. -/
def minList : List Rat → Option Rat
  | [] => none
  | a :: l => match minList l with
    | none => some a
    | some m => some (rmin a m)

/-! ## Float-fragility flags (DESIGN 3.1): decisions a float run may take differently -/

def isDbl (x : Rat) : Bool := x.den &&& (x.den - 1) == 0 && x.num.natAbs < 2 ^ 50

def rabs (x : Rat) : Rat := if x < 0 then -x else x

def near (a b : Rat) : Bool := rabs (a - b) * 1000000000 ≤ max (rabs a) (rabs b)

/-- Rounding to `sigDigits` lands within 1e-3 of a tie in the last kept digit. -/
def roundFrag (x : Rat) : Bool :=
  if x = 0 then false else
    let y := scale10 x ((sigDigits : Int) - 1 - magnitude x)
    let f := y - y.floor
    !isDbl x && rabs (f - 1 / 2) * 1000 < 1

/-- Two different damage types received (nearly) the same non-zero damage. -/
def tieFrag (d : Vec) (exact : Bool) : Bool :=
  let pairs := [(Dmg.em, Dmg.therm), (.em, .kin), (.em, .expl), (.therm, .kin), (.therm, .expl), (.kin, .expl)]
  pairs.any fun (a, b) =>
    let x := d.get a
    let y := d.get b
    if x = y then x != 0 && !exact else near x y

def vecDbl (v : Vec) : Bool := order.all fun t => isDbl (v.get t)

/-! ## One tick -/

def remaining (r : RS) : Option Rat := r.rah.dur.map (· - r.cyc)

/-- Tick iterator: did this hardener finish its cycle after `tp` more seconds? -/
def stepCycle (tp : Rat) (r : RS) : Option RS :=
  match r.rah.dur with
  | none => none
  | some d =>
    match sigRound (r.cyc + tp) sigDigits, sigRound d sigDigits with
    | some a, some b =>
      if a = b then some { r with cyc := 0, cycled := true }
      else some { r with cyc := r.cyc + tp, cycled := false }
    | _, _ => none

/-- `time_passed`, and every hardener's cycle bookkeeping. -/
def advance (st : List RS) : Option (Rat × List RS) :=
  match mapO remaining st with
  | none => none
  | some rems =>
    match minList rems with
    | none => none
    | some tp => (mapO (stepCycle tp) st).map fun st' => (tp, st')

def accum (p ship : Vec) (tp : Rat) (r : RS) : RS :=
  { r with dmg := Vec.ofFn fun t => r.dmg.get t + p.get t * ship.get t * tp }

def shiftIfCycled (r : RS) : Option RS :=
  if r.cycled then
    match r.rah.shift with
    | none => none
    | some s => some { r with resos := nextResos r.resos r.dmg (s / 100), dmg := Vec.zero }
  else some r

/-- `RahState`: cycling time and resonances rounded to `SIG_DIGITS`. -/
def keyOf (r : RS) : Option (Rat × Vec) :=
  match sigRound r.resos.em sigDigits, sigRound r.resos.expl sigDigits,
        sigRound r.resos.kin sigDigits, sigRound r.resos.therm sigDigits with
  | some a, some b, some c, some d => some (r.cyc, ⟨a, d, c, b⟩)
  | _, _, _, _ => none

def snap (r : RS) : RS := { r with snaps := r.snaps ++ [(r.cyc, r.resos)] }

def vsum : List Vec → Vec
  | [] => Vec.zero
  | v :: l => let s := vsum l; ⟨v.em + s.em, v.therm + s.therm, v.kin + s.kin, v.expl + s.expl⟩

def usedFrom (i : Nat) (r : RS) : List Vec :=
  (r.snaps.drop i).filterMap fun s => if s.1 = 0 then some s.2 else none

/-- `__get_avg_resos` over `tick_history[i:]` for one hardener; a hardener without an entry keeps its
    current resonances. -/
def avgFrom (i : Nat) (r : RS) : Vec :=
  match usedFrom i r with
  | [] => r.resos
  | u => let s := vsum u; let n : Rat := (u.length : Nat); ⟨s.em / n, s.therm / n, s.kin / n, s.expl / n⟩

def tickFrag (before : List RS) (tp : Rat) (ship : Vec) (acc after : List RS) : Bool :=
  before.any (fun r => roundFrag (r.cyc + tp) || (r.rah.dur.map roundFrag).getD false) ||
  acc.any (fun r => r.cycled && tieFrag r.dmg (vecDbl r.dmg && vecDbl ship && isDbl tp)) ||
  after.any (fun r => order.any fun t => roundFrag (r.resos.get t))

/-- Loop body after the tick iterator yielded `(tp, st1)`: damage, shifts, loop detection. -/
def afterTick (env : Env) (before : List RS) (tp : Rat) (s : Sim) (st1 : List RS) : Option (Out ⊕ Sim) :=
  match env.ship (st1.map (·.resos)) with
  | none => none
  | some ship =>
    let st2 := st1.map (accum env.profile ship tp)
    match mapO shiftIfCycled st2 with
    | none => none
    | some st3 =>
      match mapO keyOf st3 with
      | none => none
      | some key =>
        let frag := s.frag || tickFrag before tp ship st2 st3
        match s.seen.findIdx? (· == key) with
        | some i => some (.inl ⟨st3.map (avgFrom i), true, s.ticks + 1, frag⟩)
        | none => some (.inr ⟨st3.map snap, s.seen ++ [key], s.ticks + 1, frag⟩)

/-! ## No loop found: `__estimate_initial_adaptation_ticks` and averaging -/

/-- `max(ceil((1 - unsimulated) / (shift / 100)) for attr in res_attr_ids)`. -/
def exhaustion (r : Rah) : Option Int :=
  match r.shift with
  | none => none
  | some s =>
    if s / 100 = 0 then none
    else some ((order.map fun t => ((1 - r.base.get t) / (s / 100)).ceil).foldl max
      (((1 - r.base.em) / (s / 100)).ceil))

def exhFrag (r : Rah) : Bool :=
  match r.shift with
  | none => false
  | some s => order.any fun t =>
      let q := (1 - r.base.get t) / (s / 100)
      !(isDbl q && isDbl (s / 100) && isDbl (r.base.get t)) &&
        rabs (q - roundHalfEven q) * 1000000000 ≤ max 1 (rabs q)

/-- First element with the largest key (Python `max(..., key=)`). -/
def argmaxFirst {α : Type} (key : α → Rat) : List α → Option α
  | [] => none
  | a :: l => match argmaxFirst key l with
    | none => some a
    | some b => if key a < key b then some b else some a

/-- Walk over the slowest hardener's history column. -/
def countTicks (slowestCycles : Int) : List (Rat × Vec) → Int → Nat → Nat
  | [], _, tc => tc
  | s :: l, cc, tc =>
    let cc' := if s.1 = 0 then cc + 1 else cc
    if slowestCycles ≤ cc' then tc else countTicks slowestCycles l cc' (tc + 1)

/-- `exhaustion_cycles[item]` and the key `exhaustion_cycles[i] * duration` of the slowest-hardener search. -/
def exhKey (r : RS) : Option (RS × Int × Rat) :=
  match exhaustion r.rah, r.rah.dur with
  | some e, some d => some (r, e, (e : Rat) * d)
  | _, _ => none

def estimate (st : List RS) : Option (Nat × Bool) :=
  match mapO exhKey st with
  | none => none
  | some l =>
    match argmaxFirst (fun x => x.2.2) l with
    | none => none
    | some (r, e, k) =>
      let cycles := ((e : Rat) * 3 / 2).ceil
      let frag := st.any (fun r => exhFrag r.rah) || l.any (fun x => x.2.2 != k && near x.2.2 k)
      if cycles = 0 then some (0, frag) else some (countTicks cycles (r.snaps.drop 1) 0 1, frag)

def noLoop (s : Sim) : Option Out :=
  match estimate s.st with
  | none => none
  | some (est, frag) =>
    let ignore := Nat.min est (s.seen.length / 2)
    some ⟨s.st.map (avgFrom ignore), false, s.ticks, s.frag || frag⟩

/-! ## `_run_simulation` with a loaded ship -/

def run (env : Env) : Nat → Sim → Option Out
  | 0, s => noLoop s
  | n + 1, s =>
    match advance s.st with
    | none => none
    | some (tp, st1) =>
      match afterTick env s.st tp s st1 with
      | none => none
      | some (.inl o) => some o
      | some (.inr s') => run env n s'

/-- The first tick has `time_passed = 0` and no finished cycle. -/
def simulate (env : Env) (maxT : Nat) (rahs : List Rah) : Option Out :=
  let s0 : Sim := ⟨rahs.map RS.init, [], 0, false⟩
  match maxT with
  | 0 => noLoop s0
  | m + 1 =>
    match afterTick env [] 0 s0 s0.st with
    | none => none
    | some (.inl o) => some o
    | some (.inr s) => run env m s

inductive Outcome | noShip | failed | ok
  deriving DecidableEq, Repr

/-- What `get_reso` leaves in `__data` for the running hardeners `rahs`: without a loaded ship, or when
    the simulation raises, the unsimulated values. `ship = none` stands for "no loaded ship". -/
def getResults (ship : Option (List Vec → Option Vec)) (profile : Vec) (maxT : Nat) (rahs : List Rah) :
    List Vec × Outcome × Option Out :=
  match ship with
  | none => (rahs.map (·.base), .noShip, none)
  | some f =>
    match simulate ⟨f, profile⟩ maxT rahs with
    | none => (rahs.map (·.base), .failed, none)
    | some o => (o.resos, .ok, some o)

/-! ## Stored results and their invalidation -/

/-- A running hardener as the simulator and the calculator see it. `shiftC` / `durC`: the calculator holds a
    value for its shift-amount / cycle-time attribute, so a change of it will be announced. -/
structure RahW where
  rah : Rah
  shiftC : Bool
  durC : Bool

/-- `σ` = whatever determines the ship's resonances (`shipFn`). -/
structure World (σ : Type) where
  ship : Option σ              -- loaded ship
  shipC : List Dmg             -- ship resonance attributes the calculator currently holds a value for
  rahs : List RahW             -- running hardeners, in `__data` order
  rahProfile : Option Vec      -- `fit.rah_incoming_dmg`
  defProfile : Vec             -- `fit.default_incoming_dmg`
  res : Option (List Vec)      -- stored results (`__data` values non-empty)

inductive Op (σ : Type)
  | readRah                                   -- `rah.attrs[resonance]` of a running hardener
  | readShip (t : Dmg)                        -- `ship.attrs[resonance]`
  | setRahProfile (p : Option Vec)            -- `fit.rah_incoming_dmg = p`
  | setDefProfile (p : Vec)                   -- `fit.default_incoming_dmg = p`
  | setShip (s : Option σ)                    -- fit.ship assigned (ItemUnloaded / ItemLoaded of a Ship)
  | shipMod (ts : List Dmg) (s : σ)           -- modifiers of the ship resonances `ts` changed
  | setShift (i : Nat) (v : Option Rat)
  | setDur (i : Nat) (v : Option Rat)
  | setBase (i : Nat) (v : Vec)
  | start (r : Rah) (shiftC durC : Bool)      -- EffectsStarted with the RAH effect
  | stop (i : Nat)                            -- EffectsStopped with the RAH effect

variable {σ : Type}

def allDmg : List Dmg := [.em, .therm, .kin, .expl]

def World.init : World σ := ⟨none, [], [], none, ⟨25, 25, 25, 25⟩, none⟩

/-- The profile `_run_simulation` uses. -/
def World.profile (w : World σ) : Vec := w.rahProfile.getD w.defProfile

/-- What the simulator reads from the hardeners. -/
def World.inputs (w : World σ) : List Rah := w.rahs.map (·.rah)

/-- `__clear_results`: drops results; its notifications make the calculator drop the ship resonances. -/
def World.clear (w : World σ) : World σ :=
  if w.rahs.isEmpty then w else { w with res := none, shipC := [] }

/-- A successful run read every hardener's shift amount and cycle time. -/
def markRead (ok : Bool) (l : List RahW) : List RahW :=
  if ok then l.map fun x => { x with shiftC := true, durC := true } else l

/-- `get_reso` when nothing is stored. A run with a loaded ship reads every hardener's shift amount and
    cycle time (they are cached afterwards); its closing notifications drop the ship's resonances, which
    `get_reso` then calculates again, so that the calculator will announce their changes. -/
def World.fill (shipFn : σ → List Vec → Option Vec) (maxT : Nat) (w : World σ) : World σ :=
  if w.res.isSome || w.rahs.isEmpty then w
  else
    let r := getResults (w.ship.map shipFn) w.profile maxT w.inputs
    { w with res := some r.1, shipC := if w.ship.isSome then allDmg else [],
             rahs := markRead (r.2.1 == .ok) w.rahs }

def World.step (shipFn : σ → List Vec → Option Vec) (maxT : Nat) (w : World σ) : Op σ → World σ
  | .readRah => w.fill shipFn maxT
  | .readShip t =>
    if w.ship.isNone || t ∈ w.shipC then w
    else let w' := w.fill shipFn maxT; if t ∈ w'.shipC then w' else { w' with shipC := t :: w'.shipC }
  -- fit.py publishes RahIncomingDmgChanged when `new != old`, `old` being the profile in effect; `None`
  -- differs from every profile
  | .setRahProfile p =>
    let w' := { w with rahProfile := p }
    if p = some w.profile then w' else w'.clear
  | .setDefProfile p =>
    let w' := { w with defProfile := p }
    if p ≠ w.defProfile && w.rahProfile.isNone then w'.clear else w'
  -- ItemUnloaded of the old ship / ItemLoaded of the new one (nothing is published for an unloadable ship)
  | .setShip s => if w.ship.isNone && s.isNone then w else { w with ship := s, shipC := [] }.clear
  | .shipMod ts s =>
    if w.ship.isNone then w
    else if ts.any (· ∈ w.shipC) then { w with ship := some s, shipC := w.shipC.filter (· ∉ ts) }.clear
    -- the calculator announces only changes of cached values
    else { w with ship := some s }
  | .setShift i v =>
    let cached := (w.rahs[i]?.map (·.shiftC)).getD false
    let w' := { w with rahs := w.rahs.modify i fun x => { x with rah := { x.rah with shift := v }, shiftC := false } }
    if cached then w'.clear else w'
  | .setDur i v =>
    let cached := (w.rahs[i]?.map (·.durC)).getD false
    let w' := { w with rahs := w.rahs.modify i fun x => { x with rah := { x.rah with dur := v }, durC := false } }
    -- "cycle time change invalidates results only when there're more than 1 RAHs"
    if 1 < w.rahs.length && cached then w'.clear else w'
  | .setBase i v =>
    { w with rahs := w.rahs.modify i fun x => { x with rah := { x.rah with base := v } } }.clear
  | .start r sc dc => { w with rahs := w.rahs ++ [⟨r, sc, dc⟩], res := none, shipC := [] }
  | .stop i => { w with rahs := w.rahs.eraseIdx i, res := none, shipC := [] }

def World.run (shipFn : σ → List Vec → Option Vec) (maxT : Nat) (w : World σ) (ops : List (Op σ)) : World σ :=
  ops.foldl (World.step shipFn maxT) w

/-- What a read of the running hardeners' resonances returns in state `w` (after `readRah`). -/
def World.exposed (w : World σ) : List Vec := w.res.getD (w.inputs.map (·.base))

/-- The ship resonance a read returns, from the stored hardener results. -/
def World.shipReso (shipFn : σ → List Vec → Option Vec) (w : World σ) : Option Vec :=
  w.ship.bind fun s => shipFn s w.exposed

end Eos.Rah
