import EosModel.World
import EosModel.EffectStatusSpec
import EosModel.EffectStatus
import EosProofs.Props.C05
/-! # C05 ↔ world specification: `World.runsEffect` is the effect-status specification `decideStatus`

Two hand-written statements of "does effect `e` of item `x` run?" exist:

* (a) `World.runsEffect` / `World.runningEffects` (`EosModel/World.lean`), on which every attribute-value
  theorem of the world specification (C01, C02, C09–C14) rests;
* (b) `EffectStatus.decideStatus` (`EosModel/EffectStatusSpec.lean`), which `EosProofs/Props/C05.lean` proves equal,
  row by row, to the decision table regenerated from the real `EffectStatusResolver` (`C05.table_matches_spec`).

This file proves (a) = (b) on the whole domain the real code accepts, says exactly what (a) does outside it,
and transports the regenerated tie to (a):

* `runsEffect_eq_decideStatus` — one effect, any `onlineRunning`;
* `runningEffects_eq_spec`, `mem_runningEffects_iff` — the running set of a loaded item, `onlineRuns` threaded as
  in C05's model (`TypeDef.onlineRuns`: the decision for the type's effect 16 with `onlineRuns := false`, `false`
  when the type has none);
* `runsEffect_eq_status`, `runningIds_eq_resolve` — the same in the vocabulary of C05's state machine
  (`TypeDef.status`, `Core.resolve`, the set `C05.running_eq_spec` shows every history maintains);
* `tableEntry_eq_spec`, `runsEffect_eq_table`, `mem_runningEffects_iff_table` — the outcome digit of the
  regenerated table's row for the corresponding key.

Correspondence of arguments (read off the two definitions):

| `decideStatus` argument | world data |
|---|---|
| `st : State`            | `it.state = st.toNat` (item states are 1..4) |
| `mode : ModeK`          | `ModeK.ofId (modeOf it e.id)`: the override stored for the effect id, default 1; no side condition is needed, both sides say "does not run" for a value that is not an `EffectMode` |
| `es : State`            | `categoryState e.category = some es.toNat`, equivalently `catState? e.category = some es` (`Cat.state?`) |
| `t.isDefault`           | `ty.defaultEffect == some e.id` |
| `t.hasChance`           | `e.chanceAttr.isSome` (the effect names a fitting-usage-chance attribute) |
| `t.isOnline`            | `e.id == 16` |
| `onlineRuns`            | `onlineRunning` |

Outside the side conditions:
* category without a state (3 area, 6 dungeon, ≥ 8 not a category): (a) says "does not run" in every run mode,
  force_run included (`runsEffect_no_state`); (b) has no value (`Key.spec = none`, `keySpec_no_state`), and the
  real code raises KeyError when such an effect is loaded (observation D14) — no disagreement, (a) is total
  where (b) and the code are not;
* item state 0: no `State`; (a) runs exactly the force_run effects (`runsEffect_state_zero`); item state ≥ 4
  behaves as overload (`runsEffect_state_above`). Item states are `State` enum members 1..4 in the real code.

What the table's key space does not cover and (a) distinguishes: an effect with id 16 whose category is not
`online`. (a) and `decideStatus` treat it by its category (they agree, theorem 1 has no hypothesis about it), but
the generated product has the `self` rows only in category `online`, and resolves a *present* 'online' effect
as an online-category effect, because `EffectFactory` rewrites the category of effect 16 to `online`
(`eos/eve_obj/custom/online_effect_category.py`). The table corollaries therefore carry the hypothesis "effect 16
has category 4". The table's `override` dimension (state override of side-effect / ability status queries) is not
used by the world specification: keys have `override := none`. -/
namespace Eos.C05World
open Eos.World Eos.EffectStatus
open EosGen.EffectStatusTable (table)

/-! ## Correspondence of arguments -/

/-- State of an effect category id in the vocabulary of the specification (`Cat.state?`). -/
def catState? (c : Nat) : Option State := (Cat.ofNat? c).bind Cat.state?

/-- What full compliance looks at, read off the world's data. -/
def traitsOf (ty : ItemType) (e : Effect) : Traits :=
  ⟨ty.defaultEffect == some e.id, e.chanceAttr.isSome, e.id == 16⟩

/-- Effects of a type that the universe knows, in the type's order (what `runningEffects` filters). -/
def typeEffects (u : Universe) (ty : ItemType) : List Effect := ty.effects.filterMap (effect? u)

/-- How `runningEffects` obtains `onlineRunning` from the type's 'online' effect (if any). -/
def onlineRunningOf (it : Item) (ty : ItemType) (oe? : Option Effect) : Bool :=
  match oe? with
  | some oe => runsEffect it ty oe false
  | none => false

/-- Decision (b) on world data; `none` = the category has no state (outside the property, D14). -/
def specStatus (st : State) (it : Item) (ty : ItemType) (e : Effect) (onlineRuns : Bool) : Option Bool :=
  (catState? e.category).map fun es =>
    decideStatus st (ModeK.ofId (modeOf it e.id)) es (traitsOf ty e) onlineRuns

/-- `onlineRuns` as C05's model threads it (`TypeDef.onlineRuns`): the decision for the type's effect 16,
    itself taken with `onlineRuns := false`; `false` when the type has no such effect. -/
def specOnlineRuns (st : State) (it : Item) (ty : ItemType) (effs : List Effect) : Bool :=
  match effs.find? (·.id == 16) with
  | none => false
  | some oe => specStatus st it ty oe false == some true

theorem catOfNat?_toNat (c : Cat) : Cat.ofNat? c.toNat = some c := by cases c <;> rfl

theorem catOfNat?_eq_some {n : Nat} {c : Cat} : Cat.ofNat? n = some c ↔ n = c.toNat := by
  constructor
  · intro h
    have h2 := List.find?_some h
    simp only [beq_iff_eq] at h2
    exact h2.symm
  · rintro rfl; exact catOfNat?_toNat c

/-- The world's `categoryState` is the specification's `Cat.state?` (which `C05.category_state_map` proves equal
    to the code's `Effect.__effect_state_map`). -/
theorem categoryState_eq_spec (c : Nat) : categoryState c = (catState? c).map State.toNat := by
  rcases c with _ | _ | _ | _ | _ | _ | _ | _ | c
  all_goals first
    | rfl
    | (have h : Cat.ofNat? (c + 8) = none := by
        simp [Cat.ofNat?, Cat.all, Cat.toNat]
       simp [categoryState, catState?, h])

theorem catState?_eq_some {c : Nat} {es : State} :
    catState? c = some es ↔ categoryState c = some es.toNat := by
  rw [categoryState_eq_spec]
  cases h : catState? c with
  | none => simp
  | some es' => cases es <;> cases es' <;> simp [State.toNat]

theorem catState?_toNat (c : Cat) : catState? c.toNat = c.state? := by
  simp [catState?, catOfNat?_toNat]

/-- The categories without a state are exactly 3 (area), 6 (dungeon) and the ids that are no category. -/
theorem categoryState_eq_none_iff (c : Nat) : categoryState c = none ↔ c = 3 ∨ c = 6 ∨ 8 ≤ c := by
  rcases c with _ | _ | _ | _ | _ | _ | _ | _ | c <;> simp [categoryState]

theorem state_toNat_range (st : State) : 1 ≤ st.toNat ∧ st.toNat ≤ 4 := by cases st <;> decide

theorem stateOfNat?_eq_some {n : Nat} {st : State} : State.ofNat? n = some st ↔ n = st.toNat := by
  constructor
  · intro h
    rcases n with _ | _ | _ | _ | _ | n <;> simp [State.ofNat?] at h <;> subst h <;> rfl
  · rintro rfl; cases st <;> rfl

/-! ## 1. One effect -/

/-- **(a) = (b) for one effect.** For every item, type, effect and `onlineRunning`: when the item's state is the
    `State` `st` and the effect's category has the state `es`, `World.runsEffect` is `decideStatus` applied to
    the item's run mode for the effect (default full compliance; any stored value, `ModeK.unknown` for a value
    that is not an `EffectMode`), the category's state, the traits (is it the type's default effect, does it
    name a chance attribute, is it effect 16) and `onlineRunning`. -/
theorem runsEffect_eq_decideStatus (it : Item) (ty : ItemType) (e : Effect) (onlineRunning : Bool)
    (st es : State) (hst : it.state = st.toNat) (hes : categoryState e.category = some es.toNat) :
    runsEffect it ty e onlineRunning =
      decideStatus st (ModeK.ofId (modeOf it e.id)) es (traitsOf ty e) onlineRunning := by
  unfold runsEffect
  rw [hes]
  simp only [hst]
  generalize modeOf it e.id = m
  rcases m with _ | _ | _ | _ | _ | m <;>
    cases es <;> cases st <;> cases hch : e.chanceAttr <;>
      simp [decideStatus, fullExtra, State.le, State.toNat, ModeK.ofId, traitsOf, hch] <;> rfl

/-- The same with the side conditions as decidable hypotheses on the raw numbers: item state in 1..4 and a
    category that has a state. (No condition on the run mode is needed.) -/
theorem runsEffect_eq_decideStatus_of_valid (it : Item) (ty : ItemType) (e : Effect) (onlineRunning : Bool)
    (h1 : 1 ≤ it.state) (h4 : it.state ≤ 4) (hc : (categoryState e.category).isSome = true) :
    ∃ st es, State.ofNat? it.state = some st ∧ catState? e.category = some es ∧
      runsEffect it ty e onlineRunning =
        decideStatus st (ModeK.ofId (modeOf it e.id)) es (traitsOf ty e) onlineRunning := by
  obtain ⟨st, hst⟩ : ∃ st : State, it.state = st.toNat := by
    rcases hs : it.state with _ | _ | _ | _ | _ | n
    · omega
    · exact ⟨.offline, rfl⟩
    · exact ⟨.online, rfl⟩
    · exact ⟨.active, rfl⟩
    · exact ⟨.overload, rfl⟩
    · omega
  rw [categoryState_eq_spec] at hc
  cases hcs : catState? e.category with
  | none => simp [hcs] at hc
  | some es =>
    exact ⟨st, es, stateOfNat?_eq_some.2 hst, rfl,
      runsEffect_eq_decideStatus it ty e onlineRunning st es hst (catState?_eq_some.1 hcs)⟩

/-- In the form of `specStatus`: for a valid item state, (a) is (b) where (b) has a value and `false` where it
    has none. -/
theorem runsEffect_eq_specStatus (it : Item) (ty : ItemType) (e : Effect) (onlineRunning : Bool)
    (st : State) (hst : it.state = st.toNat) :
    runsEffect it ty e onlineRunning = (specStatus st it ty e onlineRunning == some true) := by
  cases hcs : catState? e.category with
  | none =>
    have : categoryState e.category = none := by rw [categoryState_eq_spec, hcs]; rfl
    simp [runsEffect, this, specStatus, hcs]
  | some es =>
    rw [runsEffect_eq_decideStatus it ty e onlineRunning st es hst (catState?_eq_some.1 hcs)]
    simp [specStatus, hcs]

/-! ### Outside the side conditions -/

/-- Category without a state (area, dungeon, not a category id): (a) never runs the effect, whatever the run
    mode — force_run included. (b) has no value there (`keySpec_no_state`); the real code raises KeyError
    when the effect's `_state` is looked up at load (D14), so such effects are not in the domain. -/
theorem runsEffect_no_state (it : Item) (ty : ItemType) (e : Effect) (onlineRunning : Bool)
    (h : categoryState e.category = none) : runsEffect it ty e onlineRunning = false := by
  simp [runsEffect, h]

/-- ... and the specification's table rows of those categories carry no specified outcome. -/
theorem keySpec_no_state (k : Key) (h : k.cat = .area ∨ k.cat = .dungeon) : k.spec = none := by
  rcases h with h | h <;> simp [Key.spec, h, Cat.state?]

/-- A stored run mode that is not an `EffectMode` (not 1..4): does not run (both sides; this is the
    `ModeK.unknown` case of `runsEffect_eq_decideStatus`, stated without the other side conditions). -/
theorem runsEffect_unknown_mode (it : Item) (ty : ItemType) (e : Effect) (onlineRunning : Bool)
    (hm : ¬(1 ≤ modeOf it e.id ∧ modeOf it e.id ≤ 4)) : runsEffect it ty e onlineRunning = false := by
  unfold runsEffect
  cases categoryState e.category with
  | none => rfl
  | some es =>
    simp only
    generalize modeOf it e.id = m at hm
    rcases m with _ | _ | _ | _ | _ | m <;> first | rfl | omega

/-- Item state 0 (below every `State`): (a) runs exactly the effects in force_run mode. -/
theorem runsEffect_state_zero (it : Item) (ty : ItemType) (e : Effect) (onlineRunning : Bool)
    (es : Nat) (h0 : it.state = 0) (hes : categoryState e.category = some es) :
    runsEffect it ty e onlineRunning = decide (modeOf it e.id = 3) := by
  have hpos : 1 ≤ es := by
    rcases hc : e.category with _ | _ | _ | _ | _ | _ | _ | _ | c <;> simp [hc, categoryState] at hes <;> omega
  unfold runsEffect
  rw [hes]
  simp only [h0]
  generalize modeOf it e.id = m
  rcases m with _ | _ | _ | _ | _ | m
  · rfl
  · have : 0 < es := hpos
    simp [this]
  · simp; omega
  · rfl
  · rfl
  · simp

/-- Item state above overload: (a) decides as for overload. -/
theorem runsEffect_state_above (it : Item) (ty : ItemType) (e : Effect) (onlineRunning : Bool)
    (es : State) (h4 : 4 ≤ it.state) (hes : categoryState e.category = some es.toNat) :
    runsEffect it ty e onlineRunning =
      decideStatus .overload (ModeK.ofId (modeOf it e.id)) es (traitsOf ty e) onlineRunning := by
  have a1 : (it.state < 1) = False := by simp; omega
  have a2 : (it.state < 2) = False := by simp; omega
  have a3 : (it.state < 3) = False := by simp; omega
  have a4 : (it.state < 4) = False := by simp; omega
  have b1 : (1 ≤ it.state) = True := by simp; omega
  have b2 : (2 ≤ it.state) = True := by simp; omega
  have b3 : (3 ≤ it.state) = True := by simp; omega
  have b4 : (4 ≤ it.state) = True := by simp; omega
  unfold runsEffect
  rw [hes]
  simp only
  generalize modeOf it e.id = m
  rcases m with _ | _ | _ | _ | _ | m <;>
    cases es <;> cases hch : e.chanceAttr <;>
      simp [decideStatus, fullExtra, State.le, State.toNat, ModeK.ofId, traitsOf, hch,
        a1, a2, a3, a4, b1, b2, b3, b4] <;> rfl

/-! ## 2. The running set -/

theorem runningEffects_unloaded (u : Universe) (cfg : Config) (it : Item) (h : itemType? u cfg it = none) :
    runningEffects u cfg it = [] := by
  simp [runningEffects, h]

/-- `runningEffects` of a loaded item, with its two local definitions named. -/
theorem runningEffects_loaded (u : Universe) (cfg : Config) (it : Item) (ty : ItemType)
    (hty : itemType? u cfg it = some ty) :
    runningEffects u cfg it =
      (typeEffects u ty).filter fun e =>
        runsEffect it ty e (onlineRunningOf it ty ((typeEffects u ty).find? (·.id == 16))) := by
  unfold runningEffects
  simp only [hty]
  rfl

/-- `onlineRunning` inside `runningEffects` is the specification's threaded `onlineRuns`. -/
theorem onlineRunningOf_eq_spec (it : Item) (ty : ItemType) (effs : List Effect) (st : State)
    (hst : it.state = st.toNat) :
    onlineRunningOf it ty (effs.find? (·.id == 16)) = specOnlineRuns st it ty effs := by
  unfold onlineRunningOf specOnlineRuns
  cases effs.find? (·.id == 16) with
  | none => rfl
  | some oe => exact runsEffect_eq_specStatus it ty oe false st hst

/-- **The running set of a loaded item is exactly the effects of its type that `decideStatus` says run**, with
    `onlineRuns` the decision for the type's 'online' effect (false if it has none). -/
theorem runningEffects_eq_spec (u : Universe) (cfg : Config) (it : Item) (ty : ItemType) (st : State)
    (hty : itemType? u cfg it = some ty) (hst : it.state = st.toNat) :
    runningEffects u cfg it =
      (typeEffects u ty).filter fun e =>
        specStatus st it ty e (specOnlineRuns st it ty (typeEffects u ty)) == some true := by
  rw [runningEffects_loaded u cfg it ty hty, onlineRunningOf_eq_spec it ty (typeEffects u ty) st hst]
  apply List.filter_congr
  intro e _
  exact runsEffect_eq_specStatus it ty e _ st hst

/-- Membership form, with `decideStatus` visible: `e` runs iff it is an effect of the item's type, its category
    has a state `es`, and `decideStatus` for (item state, run mode, `es`, traits, threaded `onlineRuns`) holds. -/
theorem mem_runningEffects_iff (u : Universe) (cfg : Config) (it : Item) (ty : ItemType) (st : State)
    (hty : itemType? u cfg it = some ty) (hst : it.state = st.toNat) (e : Effect) :
    e ∈ runningEffects u cfg it ↔
      e ∈ typeEffects u ty ∧ ∃ es, catState? e.category = some es ∧
        decideStatus st (ModeK.ofId (modeOf it e.id)) es (traitsOf ty e)
          (specOnlineRuns st it ty (typeEffects u ty)) = true := by
  rw [runningEffects_eq_spec u cfg it ty st hty hst]
  simp only [List.mem_filter, beq_iff_eq, specStatus, Option.map_eq_some_iff]

/-- When every effect of the type has a category with a state (the domain: anything else is a KeyError at
    load), `specOnlineRuns` is literally the threading of `C05.status_def`. -/
theorem specOnlineRuns_eq (st : State) (it : Item) (ty : ItemType) (effs : List Effect) :
    specOnlineRuns st it ty effs =
      match effs.find? (·.id == 16) with
      | none => false
      | some oe => match catState? oe.category with
        | none => false
        | some es => decideStatus st (ModeK.ofId (modeOf it oe.id)) es (traitsOf ty oe) false := by
  unfold specOnlineRuns
  cases effs.find? (·.id == 16) with
  | none => rfl
  | some oe =>
    simp only [specStatus]
    cases catState? oe.category <;> simp

/-! ## 2b. The same in the vocabulary of C05's state machine (`TypeDef.status`, `Core.resolve`)

`C05.running_eq_spec` says that after any history an item's recorded running set is
`{e ∈ t.effects | t.status modes state e}`. Here: the world specification's running set is that set, for the
translation of the world's type (effect ids `Int → Nat`; effects of categories without a state — which (a) never
runs and the code cannot load — dropped, since `EffectDef.estate` is a `State`). Ids are non-negative in the
real data; the hypothesis is needed because `Int.toNat` is injective only there. -/

def toEffectDef? (e : Effect) : Option EffectDef :=
  (catState? e.category).map fun es => ⟨e.id.toNat, es, e.chanceAttr.isSome, none⟩

def toTypeDef (u : Universe) (ty : ItemType) : TypeDef :=
  ⟨(typeEffects u ty).filterMap toEffectDef?, ty.defaultEffect.map Int.toNat, []⟩

def toModes (it : Item) : List (Nat × Nat) := it.modes.map fun p => (p.1.toNat, p.2)

theorem getMode_toModes (l : List (Int × Nat)) (i : Int) (hl : ∀ p ∈ l, 0 ≤ p.1) (hi : 0 ≤ i) :
    getMode (l.map fun p => (p.1.toNat, p.2)) i.toNat = ((l.find? (·.1 == i)).map (·.2)).getD 1 := by
  induction l with
  | nil => rfl
  | cons p ps ih =>
    have hp := hl p (by simp)
    have ih' := ih (fun q hq => hl q (by simp [hq]))
    by_cases h : p.1 = i
    · simp [getMode, List.find?, h]
    · have h1 : (p.1 == i) = false := by simpa using h
      have h2 : (p.1.toNat == i.toNat) = false := by
        rw [beq_eq_false_iff_ne]; omega
      unfold getMode at ih' ⊢
      simp only [List.map_cons, List.find?, h1, h2]
      exact ih'

/-- Two effects of a type with the same id are the same effect (both are the universe's effect of that id). -/
theorem typeEffects_id_inj (u : Universe) (ty : ItemType) {a b : Effect} (ha : a ∈ typeEffects u ty)
    (hb : b ∈ typeEffects u ty) (h : a.id = b.id) : a = b := by
  simp only [typeEffects, List.mem_filterMap, effect?] at ha hb
  obtain ⟨i, _, hi⟩ := ha
  obtain ⟨j, _, hj⟩ := hb
  have h1 : a.id = i := by simpa using List.find?_some hi
  have h2 : b.id = j := by simpa using List.find?_some hj
  have : i = j := by rw [← h1, ← h2, h]
  subst this
  exact Option.some.inj (hi.symm.trans hj)

theorem find?_filterMap_of {α β : Type} (f : α → Option β) (p : α → Bool) (q : β → Bool)
    (hpq : ∀ a b, f a = some b → q b = p a) :
    ∀ (l : List α) (a : α) (b : β), l.find? p = some a → f a = some b → (l.filterMap f).find? q = some b := by
  intro l
  induction l with
  | nil => intro a b h; simp at h
  | cons x xs ih =>
    intro a b h hf
    by_cases hx : p x = true
    · have : x = a := by simpa [List.find?, hx] using h
      subst this
      simp [hf, hpq x b hf, hx]
    · have hx' : p x = false := by simpa using hx
      have h' : xs.find? p = some a := by simpa [List.find?, hx'] using h
      cases hfx : f x with
      | none => simp only [List.filterMap_cons, hfx]; exact ih a b h' hf
      | some y =>
        have : q y = false := by rw [hpq x y hfx, hx']
        simp only [List.filterMap_cons, hfx, List.find?, this]
        exact ih a b h' hf

section status
variable (u : Universe) (it : Item) (ty : ItemType) (st : State)

/-- One effect, any `onlineRunning`, in C05's vocabulary. -/
theorem runsEffect_eq_decideStatus_typeDef (hst : it.state = st.toNat)
    (hmodes : ∀ p ∈ it.modes, 0 ≤ p.1) (hdef : ∀ d, ty.defaultEffect = some d → 0 ≤ d)
    (e : Effect) (he : 0 ≤ e.id) (ed : EffectDef) (hed : toEffectDef? e = some ed) (o : Bool) :
    runsEffect it ty e o =
      decideStatus st (ModeK.ofId (getMode (toModes it) ed.id)) ed.estate ((toTypeDef u ty).traits ed) o := by
  simp only [toEffectDef?, Option.map_eq_some_iff] at hed
  obtain ⟨es, hes, rfl⟩ := hed
  rw [runsEffect_eq_decideStatus it ty e o st es hst (catState?_eq_some.1 hes)]
  have hm : getMode (toModes it) e.id.toNat = modeOf it e.id := getMode_toModes it.modes e.id hmodes he
  have ht : (toTypeDef u ty).traits ⟨e.id.toNat, es, e.chanceAttr.isSome, none⟩ = traitsOf ty e := by
    simp only [TypeDef.traits, toTypeDef, traitsOf, onlineId]
    congr 1
    · cases hd : ty.defaultEffect with
      | none => rfl
      | some d =>
        have := hdef d hd
        simp only [Option.map_some]
        by_cases hde : d = e.id
        · simp [hde]
        · have h1 : (some d == some e.id) = false := by simpa using hde
          rw [h1, beq_eq_false_iff_ne]
          simp only [ne_eq, Option.some.injEq]
          omega
    · by_cases h16 : e.id = 16
      · simp [h16]
      · have h1 : (e.id == 16) = false := by simpa using h16
        rw [h1, beq_eq_false_iff_ne]
        omega
  simp only [hm, ht]

/-- `TypeDef.onlineRuns` of the translated type is the `onlineRunning` of `runningEffects`. -/
theorem onlineRuns_toTypeDef (hst : it.state = st.toNat)
    (hid : ∀ e ∈ typeEffects u ty, 0 ≤ e.id) (hmodes : ∀ p ∈ it.modes, 0 ≤ p.1)
    (hdef : ∀ d, ty.defaultEffect = some d → 0 ≤ d) :
    (toTypeDef u ty).onlineRuns (toModes it) st =
      onlineRunningOf it ty ((typeEffects u ty).find? (·.id == 16)) := by
  have hq : ∀ (a : Effect) (b : EffectDef), toEffectDef? a = some b → (b.id == onlineId) = (a.id == 16) := by
    intro a b hab
    simp only [toEffectDef?, Option.map_eq_some_iff] at hab
    obtain ⟨es, _, rfl⟩ := hab
    simp only [onlineId]
    by_cases h16 : a.id = 16
    · simp [h16]
    · have h1 : (a.id == 16) = false := by simpa using h16
      rw [h1, beq_eq_false_iff_ne]
      omega
  have hnone : (∀ e ∈ typeEffects u ty, e.id = 16 → toEffectDef? e = none) →
      (toTypeDef u ty).effects.find? (·.id == onlineId) = none := by
    intro h
    simp only [toTypeDef, List.find?_eq_none, List.mem_filterMap]
    rintro x ⟨e, he, hex⟩ hx
    rw [hq e x hex] at hx
    rw [h e he (by simpa using hx)] at hex
    cases hex
  unfold TypeDef.onlineRuns onlineRunningOf
  cases hf : (typeEffects u ty).find? (·.id == 16) with
  | none =>
    rw [hnone]
    intro e he h16
    have := List.find?_eq_none.1 hf e he
    simp [h16] at this
  | some oe =>
    have hoe : oe ∈ typeEffects u ty := List.mem_of_find?_eq_some hf
    have ho16 : oe.id = 16 := by simpa using List.find?_some hf
    cases hed : toEffectDef? oe with
    | none =>
      rw [hnone]
      · have : categoryState oe.category = none := by
          rw [categoryState_eq_spec]
          simp only [toEffectDef?, Option.map_eq_none_iff] at hed
          rw [hed]; rfl
        exact (runsEffect_no_state it ty oe false this).symm
      · intro e he h16
        rw [typeEffects_id_inj u ty he hoe (h16.trans ho16.symm)]
        exact hed
    | some ed =>
      have := find?_filterMap_of toEffectDef? (fun e : Effect => e.id == 16) (fun b : EffectDef => b.id == onlineId)
        hq (typeEffects u ty) oe ed hf hed
      simp only [toTypeDef]
      rw [this]
      exact (runsEffect_eq_decideStatus_typeDef u it ty st hst hmodes hdef oe (hid oe hoe) ed hed false).symm

/-- **(a) is `TypeDef.status`** (the decision `C05.status_def` unfolds and `C05.running_eq_spec` is about), for
    every effect of the type whose category has a state. -/
theorem runsEffect_eq_status (hst : it.state = st.toNat)
    (hid : ∀ e ∈ typeEffects u ty, 0 ≤ e.id) (hmodes : ∀ p ∈ it.modes, 0 ≤ p.1)
    (hdef : ∀ d, ty.defaultEffect = some d → 0 ≤ d)
    (e : Effect) (he : e ∈ typeEffects u ty) (ed : EffectDef) (hed : toEffectDef? e = some ed) :
    runsEffect it ty e (onlineRunningOf it ty ((typeEffects u ty).find? (·.id == 16))) =
      (toTypeDef u ty).status (toModes it) st ed := by
  unfold TypeDef.status
  rw [onlineRuns_toTypeDef u it ty st hst hid hmodes hdef]
  exact runsEffect_eq_decideStatus_typeDef u it ty st hst hmodes hdef e (hid e he) ed hed _

/-- **The world specification's running ids are `Core.resolve` of the translated item**: the set the C05
    state machine keeps as the item's running set after any history (`C05.running_eq_spec`). -/
theorem runningIds_eq_resolve (cfg : Config) (hty : itemType? u cfg it = some ty) (hst : it.state = st.toNat)
    (hid : ∀ e ∈ typeEffects u ty, 0 ≤ e.id) (hmodes : ∀ p ∈ it.modes, 0 ≤ p.1)
    (hdef : ∀ d, ty.defaultEffect = some d → 0 ≤ d) :
    (runningIds u cfg it).map Int.toNat =
      Core.resolve { typeId := it.typeId.toNat, type := some (toTypeDef u ty), modes := toModes it } st := by
  unfold runningIds
  rw [runningEffects_loaded u cfg it ty hty]
  simp only [Core.resolve]
  generalize hO : onlineRunningOf it ty ((typeEffects u ty).find? (·.id == 16)) = O
  have key : ∀ l : List Effect, (∀ e ∈ l, e ∈ typeEffects u ty) →
      ((l.filter fun e => runsEffect it ty e O).map (·.id)).map Int.toNat =
        ((l.filterMap toEffectDef?).filter ((toTypeDef u ty).status (toModes it) st)).map (·.id) := by
    intro l
    induction l with
    | nil => intro _; rfl
    | cons e l ih =>
      intro hl
      have ih' := ih (fun x hx => hl x (by simp [hx]))
      have he := hl e (by simp)
      cases hed : toEffectDef? e with
      | none =>
        have : categoryState e.category = none := by
          rw [categoryState_eq_spec]
          simp only [toEffectDef?, Option.map_eq_none_iff] at hed
          rw [hed]; rfl
        simp only [List.filter_cons, runsEffect_no_state it ty e O this, List.filterMap_cons, hed]
        exact ih'
      | some ed =>
        have hr := runsEffect_eq_status u it ty st hst hid hmodes hdef e he ed hed
        rw [hO] at hr
        have hi : ed.id = e.id.toNat := by
          simp only [toEffectDef?, Option.map_eq_some_iff] at hed
          obtain ⟨es, _, rfl⟩ := hed
          rfl
        simp only [List.filter_cons, List.filterMap_cons, hed, hr]
        cases (toTypeDef u ty).status (toModes it) st ed
        · simpa using ih'
        · simp [ih', hi]
  exact key _ (fun e he => he)

end status

/-! ## 3. The regenerated table -/

/-- Outcome digit of the regenerated table's row for key `k` (0 stop, 1 run, 2 KeyError, 3 inconsistent). -/
def tableEntry (k : Key) : Option Nat := (table.find? (· / 10 == k.pack)).map (· % 10)

theorem find_zip : ∀ (rows : List Nat) (keys : List Key), rows.length = keys.length →
    (∀ p ∈ rows.zip keys, p.1 / 10 = p.2.pack) → (keys.map Key.pack).Pairwise (· < ·) →
    ∀ k ∈ keys, ∃ r, rows.find? (· / 10 == k.pack) = some r ∧ (r, k) ∈ rows.zip keys := by
  intro rows
  induction rows with
  | nil => intro keys hl _ _ k hk; cases keys <;> simp_all
  | cons r rs ih =>
    intro keys hl hp hn k hk
    cases keys with
    | nil => simp at hl
    | cons k0 ks =>
      simp only [List.map_cons, List.pairwise_cons] at hn
      have hr : r / 10 = k0.pack := hp (r, k0) (by simp)
      rcases List.mem_cons.1 hk with rfl | hk'
      · exact ⟨r, by simp [List.find?, hr], by simp⟩
      · have hlt : k0.pack < k.pack := hn.1 _ (List.mem_map.2 ⟨k, hk', rfl⟩)
        have hne : (r / 10 == k.pack) = false := by
          simp only [beq_eq_false_iff_ne, hr]; omega
        obtain ⟨r', h1, h2⟩ := ih ks (by simpa using hl)
          (fun p hp' => hp p (by simp only [List.zip_cons_cons, List.mem_cons]; exact Or.inr hp')) hn.2 k hk'
        refine ⟨r', by simp only [List.find?, hne]; exact h1, ?_⟩
        simp only [List.zip_cons_cons, List.mem_cons]
        exact Or.inr h2

/-- **The regenerated table as a function of the key**: every key of the product has a row, and where the
    category is documented the row's outcome is the specification's decision. -/
theorem tableEntry_eq_spec (k : Key) (hk : k ∈ allKeys) (b : Bool) (hs : k.spec = some b) :
    tableEntry k = some (b2n b) := by
  obtain ⟨hl, hz⟩ := C05.table_matches_spec
  have hn : (allKeys.map Key.pack).Pairwise (· < ·) := by
    simpa [allKeys, List.map_flatten] using (C05.chainParts_spec _ 0 C05.keys_chain).2
  obtain ⟨r, h1, h2⟩ := find_zip table allKeys hl (fun p hp => (hz p hp).1) hn k hk
  unfold tableEntry
  rw [h1]
  simp only [Option.map_some]
  exact congrArg some ((hz (r, k) h2).2 b hs)

/-- Run mode digit of the table: 1..4, and 5 for any value that is not an `EffectMode`. -/
def modeKey (m : Nat) : Nat := if 1 ≤ m ∧ m ≤ 4 then m else 5

/-- The table's `online` coordinate: the effect is 'online' itself / the type's 'online' effect with its run
    mode on this item / absent. -/
def onlineOf (it : Item) (e : Effect) (oe? : Option Effect) : Online :=
  if e.id == 16 then .self
  else match oe? with
    | none => .absent
    | some oe => .present (modeKey (modeOf it oe.id))

/-- The table key of "effect `e` of item `it` (state `st`, type `ty`), category `c`, type's 'online' effect `oe?`". -/
def keyOf (st : State) (c : Cat) (it : Item) (ty : ItemType) (e : Effect) (oe? : Option Effect) : Key :=
  ⟨st, modeKey (modeOf it e.id), c, ty.defaultEffect == some e.id, onlineOf it e oe?, e.chanceAttr.isSome, none⟩

theorem modeKey_mem (m : Nat) : modeKey m ∈ modeValues := by
  unfold modeKey modeValues
  split
  · rename_i h
    obtain ⟨h1, h4⟩ := h
    rcases m with _ | _ | _ | _ | _ | m <;> simp <;> omega
  · simp

theorem ofId_modeKey (m : Nat) : ModeK.ofId (modeKey m) = ModeK.ofId m := by
  unfold modeKey
  rcases m with _ | _ | _ | _ | _ | m <;> simp [ModeK.ofId]

/-- In category online, full compliance looks at `isOnline` and `onlineRuns` only. -/
theorem decideStatus_online_self (st : State) (m : ModeK) (d h d' h' o o' : Bool) :
    decideStatus st m .online ⟨d, h, true⟩ o = decideStatus st m .online ⟨d', h', true⟩ o' := by
  cases m <;> simp [decideStatus, fullExtra]

theorem decideStatus_online_traits (st : State) (m : ModeK) (d h d' h' i o : Bool) :
    decideStatus st m .online ⟨d, h, i⟩ o = decideStatus st m .online ⟨d', h', i⟩ o := by
  cases m <;> simp [decideStatus, fullExtra]

/-- Outside category online, `onlineRuns` is not looked at. -/
theorem decideStatus_not_online (st : State) (m : ModeK) (es : State) (t : Traits) (o o' : Bool)
    (h : es ≠ .online) : decideStatus st m es t o = decideStatus st m es t o' := by
  cases m <;> cases es <;> simp_all [decideStatus, fullExtra]

theorem keyOf_mem (st : State) (c : Cat) (it : Item) (ty : ItemType) (e : Effect) (oe? : Option Effect)
    (h16 : e.id = 16 → c = .online) : keyOf st c it ty e oe? ∈ allKeys := by
  apply C05.keys_complete
  · exact modeKey_mem _
  · show onlineOf it e oe? ∈ onlineValues
    unfold onlineOf
    split
    · simp [onlineValues]
    · cases oe? with
      | none => simp [onlineValues]
      | some oe =>
        have := modeKey_mem (modeOf it oe.id)
        simp only [modeValues, List.mem_cons, List.not_mem_nil, or_false] at this
        rcases this with h | h | h | h | h <;> simp [onlineValues, h]
  · show onlineOf it e oe? = .self → c = .online
    unfold onlineOf
    split
    · rename_i h; intro _; exact h16 (by simpa using h)
    · cases oe? <;> simp

/-- **(a) = the regenerated table.** For an in-domain case — item state a `State`, effect category `c` with a
    state, effect 16 of category online (as `EffectFactory` makes it) both when it is `e` and when it is the
    type's 'online' effect `oe?` — `runsEffect`, with `onlineRunning` obtained from `oe?` the way
    `runningEffects` does, is the outcome digit of the table row with key `keyOf …`. -/
theorem runsEffect_eq_table (it : Item) (ty : ItemType) (e : Effect) (oe? : Option Effect) (st : State) (c : Cat)
    (hst : it.state = st.toNat) (hc : e.category = c.toNat) (hdoc : c.state?.isSome = true)
    (h16 : e.id = 16 → e.category = 4)
    (hoe : ∀ oe, oe? = some oe → oe.id = 16 ∧ oe.category = 4) :
    tableEntry (keyOf st c it ty e oe?) = some (b2n (runsEffect it ty e (onlineRunningOf it ty oe?))) := by
  have hself : e.id = 16 → c = .online := by
    intro h
    have := h16 h
    rw [hc] at this
    cases c <;> simp [Cat.toNat] at this ⊢
  apply tableEntry_eq_spec _ (keyOf_mem st c it ty e oe? hself)
  cases hes : c.state? with
  | none => simp [hes] at hdoc
  | some es =>
    have hcs : categoryState e.category = some es.toNat :=
      catState?_eq_some.1 (by rw [hc, catState?_toNat, hes])
    rw [runsEffect_eq_decideStatus it ty e _ st es hst hcs]
    simp only [Key.spec, keyOf, hes, Option.map_some, ofId_modeKey, Key.onlineRuns, Key.effState]
    congr 1
    by_cases hid : e.id = 16
    · -- the effect is 'online' itself: category online, `onlineRuns` irrelevant
      have hon : es = .online := by
        have := hself hid
        subst this
        simpa [Cat.state?] using hes.symm
      subst hon
      have h1 : (onlineOf it e oe? == Online.self) = true := by simp [onlineOf, hid]
      simp only [h1, traitsOf, hid]
      exact (decideStatus_online_self ..).symm
    · have hb : (e.id == 16) = false := by simpa using hid
      cases oe? with
      | none =>
        simp only [onlineOf, hb, traitsOf, onlineRunningOf]
        rfl
      | some oe =>
        obtain ⟨ho1, ho2⟩ := hoe oe rfl
        have h2 : onlineOf it e (some oe) = .present (modeKey (modeOf it oe.id)) := by simp [onlineOf, hb]
        have h1 : ∀ m, (Online.present m == Online.self) = false := by
          intro m
          rw [beq_eq_false_iff_ne]
          intro hh; cases hh
        have hrun : runsEffect it ty oe false =
            decideStatus st (ModeK.ofId (modeOf it oe.id)) .online ⟨false, false, true⟩ false := by
          rw [runsEffect_eq_decideStatus it ty oe false st .online hst (by rw [ho2]; rfl)]
          simp only [traitsOf, ho1]
          exact decideStatus_online_traits ..
        simp only [h2, h1, hb, traitsOf, onlineRunningOf, hrun, ofId_modeKey]

/-- **The world specification's running sets inherit the regenerated tie**: for a loaded item in a valid state
    whose type's effect 16 (if any) has category online, an effect of the type whose category `c` has a state
    is in `runningEffects` iff the regenerated table's row for its key says "run". -/
theorem mem_runningEffects_iff_table (u : Universe) (cfg : Config) (it : Item) (ty : ItemType) (st : State)
    (hty : itemType? u cfg it = some ty) (hst : it.state = st.toNat)
    (h16 : ∀ e ∈ typeEffects u ty, e.id = 16 → e.category = 4)
    (e : Effect) (he : e ∈ typeEffects u ty) (c : Cat) (hc : e.category = c.toNat)
    (hdoc : c.state?.isSome = true) :
    e ∈ runningEffects u cfg it ↔
      tableEntry (keyOf st c it ty e ((typeEffects u ty).find? (·.id == 16))) = some 1 := by
  have hoe : ∀ oe, (typeEffects u ty).find? (·.id == 16) = some oe → oe.id = 16 ∧ oe.category = 4 := by
    intro oe h
    have h1 : oe.id = 16 := by simpa using List.find?_some h
    exact ⟨h1, h16 oe (List.mem_of_find?_eq_some h) h1⟩
  rw [runsEffect_eq_table it ty e _ st c hst hc hdoc (h16 e he) hoe]
  have hmem : e ∈ runningEffects u cfg it ↔
      runsEffect it ty e (onlineRunningOf it ty ((typeEffects u ty).find? (·.id == 16))) = true := by
    rw [runningEffects_loaded u cfg it ty hty, List.mem_filter]
    exact ⟨fun h => h.2, fun h => ⟨he, h⟩⟩
  rw [hmem]
  cases runsEffect it ty e (onlineRunningOf it ty ((typeEffects u ty).find? (·.id == 16))) <;> simp [b2n]

/-! ## 4. Non-vacuity -/

/-- Effects: 16 'online' (category online), 20 active default, 21 active non-default, 22 overload,
    23 passive, 24 online-category, 25 passive with a chance attribute; one module type carrying them. -/
def demoU : Universe :=
  { effects := [⟨16, 4, none, none, false, []⟩, ⟨20, 1, none, none, false, []⟩, ⟨21, 1, none, none, false, []⟩,
                ⟨22, 5, none, none, false, []⟩, ⟨23, 0, none, none, false, []⟩, ⟨24, 4, none, none, false, []⟩,
                ⟨25, 0, some 1000, none, false, []⟩],
    types := [⟨1, none, none, some 20, [], [16, 20, 21, 22, 23, 24, 25], []⟩] }

def demoTy : ItemType := ⟨1, none, none, some 20, [], [16, 20, 21, 22, 23, 24, 25], []⟩
def demoMod (state : Nat) (modes : List (Int × Nat)) : Item :=
  ⟨1, .moduleHigh, 1, 1, state, none, none, none, modes⟩
def demoCfg (state : Nat) (modes : List (Int × Nat)) : Config :=
  { hasSource := true, fits := [⟨1, none, none, none⟩], items := [demoMod state modes] }
def eOnline : Effect := ⟨16, 4, none, none, false, []⟩
def eDefault : Effect := ⟨20, 1, none, none, false, []⟩
def eOnlineCat : Effect := ⟨24, 4, none, none, false, []⟩

/-- A module with an active default effect at state active: runs — on both sides, and in the table. -/
example : runsEffect (demoMod 3 []) demoTy eDefault false = true := by decide
example : decideStatus .active (ModeK.ofId (modeOf (demoMod 3 []) 20)) .active (traitsOf demoTy eDefault) false = true := by
  decide
example : tableEntry ⟨.active, 1, .active, true, .present 1, false, none⟩ = some 1 :=
  runsEffect_eq_table (demoMod 3 []) demoTy eDefault (some eOnline) .active .active rfl rfl rfl (by decide)
    (by intro oe h; cases h; exact ⟨rfl, rfl⟩)
/-- The same at state online: does not. -/
example : runsEffect (demoMod 2 []) demoTy eDefault true = false := by decide
example : decideStatus .online (ModeK.ofId (modeOf (demoMod 2 []) 20)) .active (traitsOf demoTy eDefault) true = false := by
  decide
example : tableEntry ⟨.online, 1, .active, true, .present 1, false, none⟩ = some 0 :=
  runsEffect_eq_table (demoMod 2 []) demoTy eDefault (some eOnline) .online .active rfl rfl rfl (by decide)
    (by intro oe h; cases h; exact ⟨rfl, rfl⟩)
/-- An online-category effect with the 'online' effect stopped by mode (force_stop on 16): does not run,
    although the item is active; with 'online' in its default mode it does. -/
example : onlineRunningOf (demoMod 3 [(16, 4)]) demoTy (some eOnline) = false := by decide
example : runsEffect (demoMod 3 [(16, 4)]) demoTy eOnlineCat
    (onlineRunningOf (demoMod 3 [(16, 4)]) demoTy (some eOnline)) = false := by decide
example : tableEntry ⟨.active, 1, .online, false, .present 4, false, none⟩ = some 0 :=
  runsEffect_eq_table (demoMod 3 [(16, 4)]) demoTy eOnlineCat (some eOnline) .active .online rfl rfl rfl (by decide)
    (by intro oe h; cases h; exact ⟨rfl, rfl⟩)
example : runsEffect (demoMod 3 []) demoTy eOnlineCat (onlineRunningOf (demoMod 3 []) demoTy (some eOnline)) = true := by
  decide
/-- Running sets of the loaded module: active; online; active with 'online' force-stopped (no online-category
    effect left, the state-compliant 21 runs); overload; unknown run mode on the default effect. -/
example : runningIds demoU (demoCfg 3 []) (demoMod 3 []) = [16, 20, 23, 24] := by decide
example : runningIds demoU (demoCfg 2 []) (demoMod 2 []) = [16, 23, 24] := by decide
example : runningIds demoU (demoCfg 3 [(16, 4), (21, 2)]) (demoMod 3 [(16, 4), (21, 2)]) = [20, 21, 23] := by decide
example : runningIds demoU (demoCfg 4 [(25, 2)]) (demoMod 4 [(25, 2)]) = [16, 20, 22, 23, 24, 25] := by decide
example : runningIds demoU (demoCfg 3 [(20, 7)]) (demoMod 3 [(20, 7)]) = [16, 23, 24] := by decide
/-- The hypotheses of `mem_runningEffects_iff_table` hold on the demo (so the table decides its running set). -/
example : itemType? demoU (demoCfg 3 []) (demoMod 3 []) = some demoTy := rfl
example : ∀ e ∈ typeEffects demoU demoTy, e.id = 16 → e.category = 4 := by
  intro e he h
  simp only [typeEffects, demoU, demoTy, effect?, List.filterMap_cons, List.filterMap_nil] at he
  simp at he
  rcases he with rfl | rfl | rfl | rfl | rfl | rfl | rfl <;> first | rfl | (exact absurd h (by decide))
/-- The state-machine vocabulary on the demo: the translated type, and `Core.resolve` of the translated item. -/
example : ((toTypeDef demoU demoTy).effects.map fun e => (e.id, e.estate, e.hasChance)) =
    [(16, .online, false), (20, .active, false), (21, .active, false), (22, .overload, false),
     (23, .offline, false), (24, .online, false), (25, .offline, true)] := by decide
example : Core.resolve { typeId := 1, type := some (toTypeDef demoU demoTy), modes := toModes (demoMod 3 [(16, 4), (21, 2)]) }
    .active = [20, 21, 23] := by decide
/-- Outside the domain: an area-category effect is never run by (a), not even in force_run. -/
example : runsEffect (demoMod 4 [(30, 3)]) demoTy ⟨30, 3, none, none, false, []⟩ true = false := by decide

end Eos.C05World
