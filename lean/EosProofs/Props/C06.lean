import EosProofs.Lemmas.ContainersReach
/-! # C06 — operations that raise leave the fit unchanged

Property theorems only, over the model `EosModel/Containers.lean` of `eos/item_container/*.py`,
`Module.charge`, the fit sets of solar systems and fleets and the damage-profile setters.  The model state
`World` (container storage, key maps, descriptors, back-references, fit-set membership, damage profiles)
determines every observation the model offers, so `s' = s` is "observably unchanged" at full strength.
Worlds are quantified over everything reachable from the empty world by any operation sequence
(`Containers.Reachable`); the
correspondence run ties the model to the Python code (attribute values, statistics and validation
verdicts are functions of the configuration — C01/C03/C04 — and are compared on the real code by the
impl-level oracle of this property). -/
namespace Eos.C06
open Eos.Containers

/-- **C06.** Whatever mutating operation is called in whatever reachable world with whatever arguments
(negative and out-of-range indices, own / foreign / wrong-class items, `None`, duplicate type ids and keys,
fits already placed, non-profiles): if it raises, the complete state is what it was before the call. -/
theorem error_preserves_state {U : Univ} {s s' : World} {op : Op} {e : Err} (h : Reachable U s)
    (he : step U s op = (.error e, s')) : s' = s :=
  step_error_same U (reachable_inv h) he

/-- ... hence every observation (container contents and order, lengths, views, `item._container`,
`item._fit`, membership of fits, profiles) is unchanged. -/
theorem error_preserves_obs {α : Type} (obs : World → α) {U : Univ} {s s' : World} {op : Op} {e : Err}
    (h : Reachable U s) (he : step U s op = (.error e, s')) : obs s' = obs s := by
  rw [error_preserves_state h he]

/-- A rejected call has no after-effect: every later call behaves exactly as it would have without it
(in particular the rejected item can still be used anywhere). -/
theorem rejected_item_reusable {U : Univ} {s s' : World} {op : Op} {e : Err} (h : Reachable U s)
    (he : step U s op = (.error e, s')) (op2 : Op) : step U s' op2 = step U s op2 := by
  rw [error_preserves_state h he]

/-- Concretely: an unowned item that some call rejected is accepted by a set of its own class afterwards. -/
theorem rejected_free_item_addable {U : Univ} {s s' : World} {op : Op} {e : Err} (h : Reachable U s)
    (he : step U s op = (.error e, s')) {i f k : Nat} (hi : s.owner i = none)
    (hc : (Place.set (.plain f k)).itemClass = some (U.cls i)) :
    (step U s' (.setAdd f k (some i))).1 = .ok := by
  rw [error_preserves_state h he]
  rcases setAdd_cases U s (.plain f k) (some i) with e1 | ⟨j, hj, hne, _⟩ | ⟨j, _, _, e1⟩
  · simp [setAdd, checkClass, hc] at e1
    cases ho : s.owner i <;> simp [ho] at e1
  · cases hj; exact absurd hi hne
  · simp only [step]; rw [e1]

/-! ### roll-back, method by method (which error, and the state restored) -/

/-- `ItemList.insert(index, item)` with an item that already has a container — for every index, negative
and out of range included (defect D04 was the negative case): ValueError, state restored. -/
theorem insert_owned_rollback {U : Univ} {s : World} (h : Reachable U s) (f r : Nat) (index : Int) (i : Nat)
    (hc : (Place.rack f r).itemClass = some (U.cls i)) (ho : s.owner i ≠ none) :
    step U s (.insert f r index (some i)) = (.error .valueError, s) := by
  rcases listInsert_cases U s f r index (some i) ((reachable_inv h).own.noTrail f r) with e | ⟨hv, _⟩ | ⟨j, hj, _, e⟩ | ⟨j, hj, hn, _⟩
  · simp [listInsert, checkClass, hc] at e
    cases ho' : s.owner i <;> simp [ho'] at e
  · cases hv
  · exact e
  · cases hj; exact absurd hn ho

/-- `place` onto an occupied slot: SlotTakenError, nothing changed — whatever the item. -/
theorem place_taken {U : Univ} {s : World} (f r : Nat) (index : Int) (i k j : Nat)
    (hc : (Place.rack f r).itemClass = some (U.cls i)) (hk : pyIndex (s.lists f r).length index = some k)
    (hj : (s.lists f r)[k]? = some (some j)) :
    step U s (.place f r index (some i)) = (.error .slotTaken, s) := by
  simp [step, listPlace, checkClass, hc, hk, hj]

/-- Re-adding an item to the very set it is in (defect D03): ValueError and the item stays. -/
theorem readd_own_set {U : Univ} {s : World} (h : Reachable U s) (f k i : Nat)
    (hc : (Place.set (.plain f k)).itemClass = some (U.cls i)) (hm : i ∈ s.sets (.plain f k)) :
    step U s (.setAdd f k (some i)) = (.error .valueError, s) := by
  have ho : s.owner i = some (.set (.plain f k)) := ((reachable_inv h).own.mem_iff (.set (.plain f k)) i).1 hm
  rcases setAdd_cases U s (.plain f k) (some i) with e | ⟨j, hj, _, e⟩ | ⟨j, hj, hn, _⟩
  · simp [setAdd, checkClass, hc, ho] at e
  · exact e
  · cases hj; rw [ho] at hn; cases hn

/-- Assigning an item held elsewhere to an occupied descriptor (ship, stance, charge, ...): ValueError, and
the old item is back in the slot with its back-reference. -/
theorem assign_owned_restores_old {U : Univ} {s : World} (h : Reachable U s) (c : SlotId) (i o : Nat)
    (hc : (Place.slot c).itemClass = some (U.cls i)) (hold : s.slots c = some o) (hio : i ≠ o)
    (ho : s.owner i ≠ none) : step U s (.assign c (some i)) = (.error .valueError, s) := by
  rcases assign_cases U (reachable_inv h).own c (some i) with ⟨e, he⟩ | ⟨hv, _⟩ | ⟨j, hj, hn, _⟩
  · have : e = .valueError := by
      have hown : s.owner o = some (.slot c) :=
        ((reachable_inv h).own.mem_iff (.slot c) o).1 (by simp [contents, hold])
      cases ho' : s.owner i with
      | none => exact absurd ho' ho
      | some p =>
        simp [assign, checkClass, hc, hold, upd_other _ _ hio, ho'] at he
        exact he.1.symm
    rw [this] at he; exact he
  · cases hv
  · cases hj
    rcases hn with hn | hn
    · exact absurd hn ho
    · rw [hold] at hn; cases hn; exact absurd rfl hio

/-- A fit that already is in a solar system cannot be added to one: ValueError, nothing changed. -/
theorem ssAdd_placed {U : Univ} {s : World} (g f g' : Nat) (hf : s.fitSs f = some g') :
    step U s (.ssAdd g f) = (.error .valueError, s) := by
  simp [step, ssAdd, hf]

theorem flAdd_placed {U : Univ} {s : World} (g f g' : Nat) (hf : s.fitFl f = some g') :
    step U s (.flAdd g f) = (.error .valueError, s) := by
  simp [step, flAdd, hf]

/-- A non-profile as default damage profile: TypeError, nothing changed (`None` included). -/
theorem setDmg_nonprofile {U : Univ} {s : World} (f : Nat) (a : DmgArg) (ha : ∀ p, a ≠ .profile p) :
    step U s (.setDmg f a) = (.error .typeError, s) := by
  cases a with
  | profile p => exact absurd rfl (ha p)
  | none => rfl
  | junk => rfl

/-! ### non-vacuity: reachable worlds in which calls do raise (kernel-evaluated on the model) -/

def exU : Univ := { cls := fun i => if i < 3 then .modHigh else if i = 3 then .rig else .skill, tid := fun i => i % 2 }
/-- rack `[None, None, m0]` on fit 0, `m2` held by fit 1 -/
def exOps : List Op := [.place 0 0 2 (some 0), .append 1 0 (some 2)]

example : Reachable exU (run exU World.empty exOps) := ⟨exOps, rfl⟩
example : (step exU (run exU World.empty exOps) (.insert 0 0 (-1) (some 2))).1 = .error .valueError := by decide
example : (step exU (run exU World.empty exOps) (.insert 0 0 (-1) (some 2))).2.lists 0 0 = [none, none, some 0] := by decide
example : (step exU (run exU World.empty exOps) (.insert 0 0 5 (some 0))).1 = .error .valueError := by decide
example : (step exU (run exU World.empty exOps) (.place 0 0 (-1) (some 1))).1 = .error .slotTaken := by decide
example : (step exU (run exU World.empty exOps) (.place 0 0 (-4) (some 1))).1 = .error .indexError := by decide
example : (step exU (run exU World.empty exOps) (.equip 0 0 (some 3))).1 = .error .typeError := by decide
example : (step exU (run exU World.empty exOps) (.removeVal 0 0 (some 1))).1 = .error .valueError := by decide
example : (step exU (run exU World.empty exOps) (.freeIdx 0 0 3)).1 = .error .indexError := by decide
example : (step exU (run exU World.empty [.tuAdd 0 (some 4)]) (.tuAdd 0 (some 6))).1 = .error .valueError := by decide
example : (step exU (run exU World.empty [.ssAdd 0 0]) (.ssAdd 1 0)).1 = .error .valueError := by decide
example : (step exU (run exU World.empty exOps) (.insert 0 0 (-1) (some 1))).1 = .ok := by decide

end Eos.C06
