import EosModel.EffectStatus
import EosGen.EffectStatusTable
import EosProofs.Lemmas.C05
import EosProofs.Lemmas.C05Keys
import EosProofs.Lemmas.C05Table1
import EosProofs.Lemmas.C05Table2
import EosProofs.Lemmas.C05Table3
import EosProofs.Lemmas.C05Table4
/-! # C05 — which effects run is a fixed function of state, run mode and effect category

Property theorems only. `EosGen.EffectStatusTable` is regenerated on every run by executing
`EffectStatusResolver.resolve_effects_status` over the complete product of its inputs, so the table
theorems are about what the code decides now; the history theorems are about the state machine of
`EosModel/EffectStatus.lean`, whose every re-resolution uses the specification's `decideStatus`. -/
namespace Eos.C05
open Eos.EffectStatus
open EosGen.EffectStatusTable (table parts)

/-! ## The decision, as documented for the four run modes -/

/-- force_run: "always running no matter what"; force_stop: "never running no matter what". -/
theorem force_modes (st es : State) (t : Traits) (o : Bool) :
    decideStatus st .forceRun es t o = true ∧ decideStatus st .forceStop es t o = false := ⟨rfl, rfl⟩

/-- state_compliance: running exactly when the item's state is at least the effect category's state. -/
theorem state_compliance_iff (st es : State) (t : Traits) (o : Bool) :
    decideStatus st .stateC es t o = true ↔ es.toNat ≤ st.toNat := by
  simp [decideStatus, State.le]

/-- full_compliance: high enough state, and per category: offline — no fitting usage chance; online — the
    'online' effect itself or a running 'online' effect; active — the default effect; overload — nothing more. -/
theorem full_compliance_iff (st es : State) (t : Traits) (o : Bool) :
    decideStatus st .full es t o = true ↔
      es.toNat ≤ st.toNat ∧ (es = .offline → t.hasChance = false) ∧
      (es = .online → t.isOnline = true ∨ o = true) ∧ (es = .active → t.isDefault = true) := by
  cases es <;> simp [decideStatus, State.le, fullExtra]

/-! ## The code's enums, constants and complete decision table equal the specification -/

theorem enum_values :
    EosGen.EffectStatusTable.stateValues = State.all.map (fun s => (s.name, s.toNat)) ∧
    EosGen.EffectStatusTable.modeValues = modeNames ∧
    EosGen.EffectStatusTable.categoryValues = Cat.all.map (fun c => (c.name, c.toNat)) := by decide

/-- `Effect.__effect_state_map` is the documented category -> state map (area and dungeon have none). -/
theorem category_state_map :
    EosGen.EffectStatusTable.categoryState =
      Cat.all.filterMap (fun c => c.state?.map fun s => (c.toNat, s.toNat)) := by decide

theorem constants :
    EosGen.EffectStatusTable.defaultEffectMode = defaultMode ∧ EosGen.EffectStatusTable.onlineEffectId = onlineId ∧
    EosGen.EffectStatusTable.sideEffectState = State.offline.toNat ∧
    EosGen.EffectStatusTable.abilityEffectState = State.active.toNat := by decide

theorem parts_ok : partsOk parts keyParts = true := by
  have h : parts = EosGen.EffectStatusTable.parts1 ++ (EosGen.EffectStatusTable.parts2 ++
      (EosGen.EffectStatusTable.parts3 ++ EosGen.EffectStatusTable.parts4)) := by
    rw [EosGen.EffectStatusTable.parts, List.append_assoc, List.append_assoc]
  have k : keyParts = keyPartsOf .offline ++ (keyPartsOf .online ++ (keyPartsOf .active ++ keyPartsOf .overload)) := by
    show State.all.flatMap keyPartsOf = _
    simp only [State.all, List.flatMap_cons, List.flatMap_nil, List.append_nil]
  rw [h, k]
  exact partsOk_append _ _ _ _ parts1_ok (partsOk_append _ _ _ _ parts2_ok (partsOk_append _ _ _ _ parts3_ok parts4_ok))

/-- The regenerated table has exactly one row per key of the product, in the product's order. -/
theorem table_total : table.map (· / 10) = allKeys.map Key.pack := partsOk_map _ _ parts_ok

/-- The product's keys are pairwise different (their packings increase strictly) ... -/
theorem keys_nodup : allKeys.Nodup := by
  have h := (chainParts_spec _ 0 keys_chain).2
  have h2 : (allKeys.map Key.pack).Pairwise (· < ·) := by simpa [allKeys, List.map_flatten] using h
  show List.Pairwise (· ≠ ·) allKeys
  refine (List.pairwise_map.1 h2).imp ?_
  intro a b hab heq
  subst heq
  exact Nat.lt_irrefl _ hab

/-- ... and every combination of item state x run mode (1..5) x category x default x online (absent,
    present with mode 1..5, the effect itself — possible in category online only) x chance x override
    is among them: together with `table_total`, every combination appears exactly once in the table. -/
theorem keys_complete (k : Key) (hm : k.mode ∈ modeValues) (ho : k.online ∈ onlineValues)
    (hs : k.online = .self → k.cat = .online) : k ∈ allKeys := by
  obtain ⟨st, mode, cat, d, o, h, v⟩ := k
  simp only [allKeys, keyParts, keyPartsOf, List.mem_flatten, List.mem_flatMap, List.mem_map]
  refine ⟨keysFor st mode, ⟨st, by cases st <;> simp [State.all], mode, hm, rfl⟩, ?_⟩
  simp only [keysFor, List.mem_flatMap, List.mem_filterMap]
  refine ⟨cat, by cases cat <;> simp [Cat.all], d, by cases d <;> simp, o, ho, h, by cases h <;> simp, v, ?_, ?_⟩
  · cases v with
    | none => simp [overrideValues]
    | some s => cases s <;> simp [overrideValues, State.all]
  · have : ¬(o = .self ∧ cat ≠ .online) := fun hh => hh.2 (hs hh.1)
    simp [this]

/-- Row by row, the table's outcome is the specified decision wherever the effect category is documented
    (rows of categories area/dungeon — KeyError in the code, finding D14 — are outside the property). -/
theorem table_matches_spec :
    table.length = allKeys.length ∧
    ∀ p ∈ table.zip allKeys, p.1 / 10 = p.2.pack ∧ ∀ b, p.2.spec = some b → p.1 % 10 = b2n b := by
  obtain ⟨hl, hz⟩ := partsOk_spec _ _ parts_ok
  refine ⟨by simpa [table, allKeys] using hl, ?_⟩
  intro p hp
  have := hz p (by simpa [table, allKeys] using hp)
  simp only [rowOk, Bool.and_eq_true, beq_iff_eq] at this
  refine ⟨this.1, ?_⟩
  intro b hb
  simpa [hb] using this.2

/-! ## Histories: the running set is always the decision for the current state and modes -/

/-- What `status` in the theorems below abbreviates: the documented decision applied to the effect's run
    mode on this item (default `full_compliance`), its category's state, whether it is the type's default
    effect / chance-based / the 'online' effect, and whether the item's 'online' effect runs (itself decided
    the same way, for the same state). -/
theorem status_def (t : TypeDef) (modes : List (Nat × Nat)) (st : State) (e : EffectDef) :
    t.status modes st e =
      decideStatus st (ModeK.ofId (getMode modes e.id)) e.estate
        ⟨t.defaultEffect == some e.id, e.hasChance, e.id == onlineId⟩
        (match t.effects.find? (·.id == onlineId) with
         | none => false
         | some on => decideStatus st (ModeK.ofId (getMode modes on.id)) on.estate
             ⟨t.defaultEffect == some on.id, on.hasChance, on.id == onlineId⟩ false) := rfl

/-- After ANY sequence of operations (creating items, adding/removing them, state and run-mode changes,
    charges, source switches, taking the fit out of the solar system, side-effect and ability switches),
    for every item: an effect is running iff the item is loaded and the specification's decision for the
    item's current state and run modes says so; and no effect id is recorded twice. -/
theorem running_eq_spec (w : World) (hw : w.WF) (h0 : w.items = []) (ops : List Op) :
    ∀ h ∈ (w.run ops).items,
      (∀ e, e ∈ h.core.running ↔
        ∃ t, h.core.type = some t ∧ ∃ ed ∈ t.effects, ed.id = e ∧ t.status h.core.modes h.state ed = true) ∧
      h.core.running.Nodup := by
  intro h hh
  obtain ⟨_, hi⟩ := run_ok ops w hw (by simp [h0])
  obtain ⟨_, hg, _⟩ := hi h hh
  refine ⟨fun e => ?_, hg.2⟩
  rw [hg.1 e]
  cases ht : h.core.type with
  | none => simp [resolve_unloaded ht]
  | some t => simp [mem_resolve ht]

/-- Charges follow their container: the charge's running set is the decision for the CONTAINER's state. -/
theorem charge_follows_container (w : World) (hw : w.WF) (h0 : w.items = []) (ops : List Op) :
    ∀ h ∈ (w.run ops).items, ∀ c, h.charge = some c →
      (∀ e, e ∈ c.running ↔
        ∃ t, c.type = some t ∧ ∃ ed ∈ t.effects, ed.id = e ∧ t.status c.modes h.state ed = true) ∧
      c.running.Nodup := by
  intro h hh c hc
  obtain ⟨_, hi⟩ := run_ok ops w hw (by simp [h0])
  obtain ⟨_, hg⟩ := (hi h hh).2.2 c hc
  refine ⟨fun e => ?_, hg.2⟩
  rw [hg.1 e]
  cases ht : c.type with
  | none => simp [resolve_unloaded ht]
  | some t => simp [mem_resolve ht]

/-- Items (and charges) are loaded exactly when they are on the fit, the fit is in the solar system, the
    solar system has a source and that source serves their type ... -/
theorem loaded_iff_reachable (w : World) (hw : w.WF) (h0 : w.items = []) (ops : List Op) :
    ∀ h ∈ (w.run ops).items,
      (h.core.type = if h.onFit then Source.type? (w.run ops).src h.core.typeId else none) ∧
      ∀ c, h.charge = some c → c.type = if h.onFit then Source.type? (w.run ops).src c.typeId else none := by
  intro h hh
  obtain ⟨_, hi⟩ := run_ok ops w hw (by simp [h0])
  exact ⟨(hi h hh).1, fun c hc => ((hi h hh).2.2 c hc).1⟩

/-- ... and unloaded items run nothing; in particular items outside a sourced solar system run nothing. -/
theorem unloaded_runs_nothing (w : World) (hw : w.WF) (h0 : w.items = []) (ops : List Op) :
    ∀ h ∈ (w.run ops).items,
      (h.core.type = none → h.core.running = []) ∧ (∀ c, h.charge = some c → c.type = none → c.running = []) ∧
      ((h.onFit = false ∨ (w.run ops).attached = false ∨ (w.run ops).source = none) →
        h.core.running = [] ∧ ∀ c, h.charge = some c → c.running = []) := by
  intro h hh
  obtain ⟨_, hi⟩ := run_ok ops w hw (by simp [h0])
  obtain ⟨ht, hg, hc⟩ := hi h hh
  refine ⟨good_running_nil hg, fun c hcc => good_running_nil (hc c hcc).2, ?_⟩
  intro hout
  have hsrc : (if h.onFit then Source.type? (w.run ops).src h.core.typeId else none) = none ∧
      ∀ tid, (if h.onFit then Source.type? (w.run ops).src tid else none) = none := by
    rcases hout with ho | ha | hs
    · simp [ho]
    · simp [World.src, ha, Source.type?]
    · simp [World.src, hs, Source.type?]
  refine ⟨good_running_nil hg (ht.trans hsrc.1), fun c hcc => ?_⟩
  exact good_running_nil (hc c hcc).2 ((hc c hcc).1.trans (hsrc.2 _))

/-- Re-resolution (`get_effects_status_update_msgs`): the started ids are exactly decision minus running,
    the stopped ids exactly running minus decision (so nothing is started twice or stopped without
    running), the new running set is the decision, and exactly these two notifications are published. -/
theorem update_diff_exact (c : Core) (st : State) :
    (∀ e, e ∈ c.startIds st ↔ e ∈ c.resolve st ∧ e ∉ c.running) ∧
    (∀ e, e ∈ c.stopIds st ↔ e ∈ c.running ∧ e ∉ c.resolve st) ∧
    (∀ e, e ∈ (c.update st).running ↔ e ∈ c.resolve st) ∧
    (c.update st).log = c.log ++ (if (c.startIds st).isEmpty then [] else [.started (c.startIds st)]) ++
      (if (c.stopIds st).isEmpty then [] else [.stopped (c.stopIds st)]) :=
  ⟨mem_startIds c st, mem_stopIds c st, mem_update_running c st, rfl⟩

/-- Unloading stops exactly what was running and leaves nothing running. -/
theorem unload_stops_running (c : Core) (t : TypeDef) (ht : c.type = some t) :
    c.unload.running = [] ∧ c.unload.type = none ∧
    c.unload.log = c.log ++ (if c.running.isEmpty then [] else [.stopped c.running]) := by
  simp [Core.unload, ht]

/-! ## Switches built on run modes -/

/-- `set_side_effect_status e on` on a booster that has side effect `e`: afterwards the booster reports
    exactly `on` for it, the side effect runs iff `on`, and the set of side effects is unchanged. -/
theorem side_effect_roundtrip {src : Option Source} (hs : SrcWF src) (amap : List (Nat × Nat)) (h h' : Holder)
    (hk : Holder.Ok src h) (e : Nat) (on : Bool) (he : h.apply src amap (.setSide e on) = .ok h') :
    h'.core.sideEffects = h.core.sideEffects ∧ h'.core.sideStatus e = on ∧ (e ∈ h'.core.running ↔ on = true) := by
  simp only [Holder.apply] at he
  split at he
  · cases he
  · split at he
    · cases he
    · rename_i hany
      cases he
      simp only [Bool.not_eq_true, Bool.not_eq_false', List.any_eq_true] at hany
      obtain ⟨⟨e', ch⟩, hmem, heq⟩ := hany
      obtain rfl : e' = e := by simpa using heq
      cases ht : h.core.type with
      | none => simp [Core.sideEffects, Core.effects, ht] at hmem
      | some t =>
        have hon : h.onFit = true := by
          cases ho : h.onFit with
          | true => rfl
          | false => have := hk.1; simp [ho, ht] at this
        have hwf : t.WF := core_wf hs hk.1 t ht
        obtain ⟨ed, hed, rfl, hoff, hch⟩ := (mem_sideEffects ht _ ch).1 hmem
        have hhc : ed.hasChance = true := hwf.2 ed hed (by simp [hch])
        obtain ⟨f1, f2⟩ := setModes_fields h.core [(ed.id, Core.sideMode on)] h.onFit h.state
        have hm : getMode (setModes h.core.modes [(ed.id, Core.sideMode on)]) ed.id = Core.sideMode on := by
          rw [getMode_setModes _ _ _ (by simp)]; simp
        refine ⟨by simp [Core.sideEffects, Core.effects, f1], ?_, ?_⟩
        · simp only
          rw [sideStatus_eq (f1.trans ht) hwf hed, f2]
          exact side_status_of_mode t _ _ ed hoff hhc on hm
        · simp only [hon]
          rw [mem_setModes_running ht hwf hed, side_status_of_mode t _ _ ed hoff hhc on hm]

/-- `randomize_side_effects` with ANY sequence of `random()` draws: the i-th side effect (chance `ch`)
    is reported enabled, and runs, exactly when the i-th draw is below `ch`. -/
theorem randomize_spec {src : Option Source} (hs : SrcWF src) (amap : List (Nat × Nat)) (h h' : Holder)
    (hk : Holder.Ok src h) (draws : List Rat) (he : h.apply src amap (.randomize draws) = .ok h')
    (i e : Nat) (ch : Rat) (hi : h.core.sideEffects[i]? = some (e, ch)) :
    h'.core.sideStatus e = decide (drawsFn draws i < ch) ∧ (e ∈ h'.core.running ↔ drawsFn draws i < ch) := by
  simp only [Holder.apply] at he
  split at he
  · cases he
  · cases he
    have hmem := List.mem_of_getElem? hi
    cases ht : h.core.type with
    | none => simp [Core.sideEffects, Core.effects, ht] at hmem
    | some t =>
      have hon : h.onFit = true := by
        cases ho : h.onFit with
        | true => rfl
        | false => have := hk.1; simp [ho, ht] at this
      have hwf : t.WF := core_wf hs hk.1 t ht
      obtain ⟨ed, hed, rfl, hoff, hch⟩ := (mem_sideEffects ht _ ch).1 hmem
      have hhc : ed.hasChance = true := hwf.2 ed hed (by simp [hch])
      have hnd := sideEffects_nodup (c := h.core) (core_wf hs hk.1)
      obtain ⟨f1, f2⟩ := setModes_fields h.core (h.core.randomModes (drawsFn draws)) h.onFit h.state
      have hm : getMode (setModes h.core.modes (h.core.randomModes (drawsFn draws))) ed.id =
          Core.sideMode (decide (drawsFn draws i < ch)) := by
        rw [getMode_setModes _ _ _ (by simpa [Core.randomModes, randomModesFrom_keys] using hnd)]
        simp [Core.randomModes, randomModesFrom_find _ _ 0 i ed.id ch hnd hi]
      refine ⟨?_, ?_⟩
      · simp only
        rw [sideStatus_eq (f1.trans ht) hwf hed, f2]
        exact side_status_of_mode t _ _ ed hoff hhc _ hm
      · simp only [hon]
        rw [mem_setModes_running ht hwf hed, side_status_of_mode t _ _ ed hoff hhc _ hm]
        simp

/-- `set_ability_status a on` on a fighter squad whose ability `a` is listed (its effect `e` is on the
    type and of an active-state category): afterwards the squad reports exactly `on` for it, and the
    ability's effect runs iff `on` and the squad is in active+ state. -/
theorem ability_roundtrip {src : Option Source} (hs : SrcWF src) (amap : List (Nat × Nat)) (h h' : Holder)
    (hk : Holder.Ok src h) (a e : Nat) (on : Bool) (he : h.apply src amap (.setAbility a on) = .ok h')
    (hae : Core.abilityEffect amap a = some e) (hlisted : (h.core.abilityStatus e).isSome) :
    h'.core.abilityStatus e = some on ∧ (e ∈ h'.core.running ↔ on = true ∧ State.active.le h.state = true) := by
  simp only [Holder.apply] at he
  split at he
  · cases he
  · split at he
    · cases he
    · rename_i t ht
      split at he
      · cases he
      · simp only [hae] at he
        cases he
        have hon : h.onFit = true := by
          cases ho : h.onFit with
          | true => rfl
          | false => have := hk.1; simp [ho, ht] at this
        have hwf : t.WF := core_wf hs hk.1 t ht
        simp only [Core.abilityStatus, ht] at hlisted
        cases hf : t.effects.find? (·.id == e) with
        | none => simp [hf] at hlisted
        | some ed =>
          have hed : ed ∈ t.effects := List.mem_of_find?_eq_some hf
          obtain rfl : ed.id = e := by simpa using List.find?_some hf
          have hact : ed.estate = .active := by
            by_cases hh : ed.estate = .active
            · exact hh
            · simp [hf, hh] at hlisted
          obtain ⟨f1, f2⟩ := setModes_fields h.core
            [(ed.id, Core.abilityMode (t.defaultEffect == some ed.id) on)] h.onFit h.state
          have hm : getMode (setModes h.core.modes [(ed.id, Core.abilityMode (t.defaultEffect == some ed.id) on)])
              ed.id = Core.abilityMode (t.defaultEffect == some ed.id) on := by
            rw [getMode_setModes _ _ _ (by simp)]; simp
          refine ⟨?_, ?_⟩
          · simp only
            rw [abilityStatus_eq (f1.trans ht) hwf hed hact, f2, ability_status_of_mode t _ _ ed hact on hm]
            cases on <;> rfl
          · simp only [hon]
            rw [mem_setModes_running ht hwf hed, ability_status_of_mode t _ _ ed hact on hm]
            simp

/-! ## Non-vacuity -/

/-- One source serving a module type (online effect 16, a default active effect 20, a non-default active
    effect 21, an overload effect 22, a passive effect 23) and a booster type (side effects 30 and 31). -/
def demoWorld : World :=
  { sources := [[(1, ⟨[⟨16, .online, false, none⟩, ⟨20, .active, false, none⟩, ⟨21, .active, false, none⟩,
                       ⟨22, .overload, false, none⟩, ⟨23, .offline, false, none⟩], some 20, []⟩),
                 (2, ⟨[⟨30, .offline, true, some (1 / 2)⟩, ⟨31, .offline, true, some (1 / 4)⟩], none, []⟩)]],
    abilityMap := [] }

example : demoWorld.WF := by
  intro s hs p hp
  simp only [demoWorld, List.mem_singleton] at hs
  subst hs
  simp only [List.mem_cons, List.not_mem_nil, or_false] at hp
  rcases hp with rfl | rfl <;> exact ⟨by decide, by decide⟩

/-- Loaded active module runs its passive, online and default active effects; forcing the 'online' effect
    to stop leaves no online-category effect; unloading (source := none) runs nothing. -/
example : ((demoWorld.run [.new 1 .moduleHigh 1 .active, .item 1 .add, .setSource (some 0)]).items.map
    (·.core.running)) = [[16, 20, 23]] := by decide +kernel
example : ((demoWorld.run [.new 1 .moduleHigh 1 .active, .item 1 .add, .setSource (some 0),
    .item 1 (.setModes false [(16, 4), (21, 2)])]).items.map (·.core.running)) = [[20, 23, 21]] := by decide +kernel
example : ((demoWorld.run [.new 1 .moduleHigh 1 .overload, .item 1 .add, .setSource (some 0),
    .setSource none]).items.map (·.core.running)) = [[]] := by decide +kernel
/-- A side effect switched on runs; randomising with draws 0.3, 0.3 enables 30 (chance 0.5) and not 31 (0.25). -/
example : ((demoWorld.run [.setSource (some 0), .new 2 .booster 2 .offline, .item 2 .add,
    .item 2 (.randomize [3 / 10, 3 / 10])]).items.map fun h =>
      (h.core.running, h.core.sideStatus 30, h.core.sideStatus 31)) = [([30], true, false)] := by decide +kernel
/-- A charge follows its module: its active default effect 40 starts when the MODULE goes active. -/
example : ((({ demoWorld with sources := [[(1, ⟨[], none, []⟩), (3, ⟨[⟨40, .active, false, none⟩], some 40, []⟩)]] } : World).run
    [.setSource (some 0), .new 1 .moduleMid 1 .online, .item 1 .add, .item 1 (.setCharge (some (3, []))),
     .item 1 (.setState .active)]).items.map fun h => (h.charge.map (·.running), h.charge.map (·.log.length))) =
    [(some [40], some 1)] := by decide +kernel
/-- A listed ability switched off and on again (fighter in active state; effect 6465 is the default effect). -/
example : (({ sources := [[(4, ⟨[⟨6465, .active, false, none⟩], some 6465, [26]⟩)]], abilityMap := [(26, 6465)] } : World).run
    [.setSource (some 0), .new 1 .fighter 4 .active, .item 1 .add, .item 1 (.setAbility 26 false)]).items.map
    (fun h => (h.core.running, h.core.abilityStatus 6465)) = [([], some false)] := by decide +kernel
example : (⟨.active, 1, .active, true, .absent, false, none⟩ : Key).spec = some true := by decide
example : (⟨.active, 1, .area, true, .absent, false, none⟩ : Key).spec = none := by decide

end Eos.C05
