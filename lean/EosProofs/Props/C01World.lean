import EosProofs.Lemmas.MicroLegal
import EosProofs.Lemmas.MicroAssembly
import EosProofs.Lemmas.MicroExec
import EosProofs.Lemmas.MicroTeardown
import EosProofs.Lemmas.MicroBuffTable
/-! # C01, layer 2 — the message handlers of the calculation service keep the attribute cache coherent

`EosProofs/Props/C01.lean` (layer 1) shows that *any* history of reads and mutations whose removal sets are
`Machine.Legal` leaves the cache coherent.  This file is the eos instantiation of the hypothesis: every
message-level step of `Micro.mstep` (`ItemLoaded/Unloaded`, `EffectsStarted/Stopped`,
`EffectApplied/Unapplied`, `AttrsValueChanged`; `EosModel/WorldMicro.lean`) is a legal step, so along any
message history what a read returns is the from-scratch value `spec (W (cfg, dyn))` of the current registers.

The graph family `W : Config × Dyn → Graph Node Rat` is a parameter tied to the model by `Ties`
(`deps` = `Micro.deps` filtered by a configuration-only predicate `keep`, `eval` = `Micro.evalD`);
`Lemmas/MicroGraph.lean` provides the instances (`graphOf`: `keep _ m := (attrMeta? u m.2).isSome`, i.e.
`depsM`; `graphOfV`: override nodes dropped as well).

Hypotheses and where they are used:
* `rankWF u = true`, `UniqueAttrs u` — ranks grow along `rdeps`, so the model's fuel `fuelOf u` suffices for
  the cascade (start / stop / apply / unapply / changed / relevel);
* `ResistWF u` (resisted effects have projected modifiers only), and in `MInv`: `UniqueIds`,
  `ChargeWF`, `TgtKinds` — coverage (`rdeps_complete`), used by the same steps and by load / unload;
* `StaticAt` before and after the step (`StaticAround`) — third clause of `Legal` (absence of a dependency's
  value is stable) for load / unload / start / stop / apply / unapply;
* K1 side conditions (`StepOK`: the loaded / unloaded item is not a recorded projection target) — load, unload;
* no hypothesis about buffs: the warfare-buff modifiers of a fleet-boost effect are message payload
  (`Dyn.bspecs`, replaced by `MStep.buffset`, whose side condition in `StepOK` is that the projector has no
  recorded targets at that moment), and `projMods` ignores payload that is not an instance of one of the
  universe's buff templates (`bspecOK`), so ranks grow along `rdeps` in every dynamic state.  Everything up to
  `micro_incremental_eq_scratch` holds for universes *with* warfare-buff effects (`micro_rebuff_legal` and the
  example after it run one).  The join to the from-scratch table is `world_read_eq_table_buff`: the final
  state is `BuffSettled` (the derived state plus, for every running boost, the payload and the recorded targets
  the specification computes from the table; `Lemmas/MicroBuffTable.lean`), and no fleet-boost effect is also
  projectable (`hnp`); `world_read_eq_table` is its instance for universes without buff effects;
* acyclicity of `deps` (`hacyc`) is *not* used here; it is a field of the graphs `W c`. -/
namespace Eos.C01World
open Eos.World Eos.Micro Eos.Micro.L Eos.DepCache Eos.Machine

variable {u : Universe} {immune limited : List Int} {pen : Nat → Rat} {keep : Config → Node → Bool}
  {W : Config × Dyn → Graph Node Rat}

/-- Completeness of the four reverse-dependency enumerators of `_revise_regular_attr_dependents`: whatever
the calculation of node `n` reads (source attributes of its affector specs, the resistance attribute of its
carrier, its cap attribute) has `n` among its `rdeps`.  Uses `UniqueIds`, `ResistWF`, `TgtKinds`, `ChargeWF`. -/
theorem rdeps_complete {cfg : Config} {d : Dyn} (hU : UniqueIds cfg) (hR : ResistWF u) (hT : TgtKinds cfg d)
    (hC : ChargeWF cfg) {n m : Node} (h : m ∈ deps u cfg d n) : n ∈ rdeps u cfg d m :=
  coverage hU hR hT hC h

/-- The force-recalculation of `direct` followed by the `AttrsValueChanged` cascade (`visitAll` with the
model's fuel) only removes entries, leaves every direct target uncached, and whenever it removes a cached
node it leaves none of that node's reverse dependencies cached.  Uses `rankWF`, `UniqueAttrs`; every cached
node must have attribute metadata (true of a coherent cache). -/
theorem cascade_closed (cfg : Config) (d : Dyn) (hwf : rankWF u = true) (hun : UniqueAttrs u) (K : Cache)
    (hK : ∀ x, K x ≠ none → HasMeta u x) (direct : List Node) :
    Cascade.Sub K (visitAll u cfg d (fuelOf u) K direct) ∧
    (∀ t ∈ direct, visitAll u cfg d (fuelOf u) K direct t = none) ∧
    Cascade.Closed (rdeps u cfg d) K (visitAll u cfg d (fuelOf u) K direct) :=
  visitAll_contract u cfg d ((rankWF_iff u).1 hwf) hun K hK direct

/-- **Each message-level step is a legal step of the abstract cache machine** (`Machine.Legal`, the
hypothesis of C01's layer 1): the new registers together with the set of entries the handler removes, and
the handler does nothing to the cache but remove that set.
Uses: `Ties`; `rankWF`, `UniqueAttrs` (cascade fuel); `ResistWF` and the `MInv` fields (coverage);
`StepOK` (K1 for load / unload, no recorded targets for start / stop / buffset, the stated invisibility for
reconfig); `StaticAround` (load, unload, start, stop, apply, unapply only). -/
theorem micro_step_legal (T : Ties u immune limited pen keep W) (hwf : rankWF u = true) (hun : UniqueAttrs u)
    (hR : ResistWF u) {s : MState} (inv : MInv W s) (st : MStep) (ok : StepOK W s st)
    (hsa : StaticAround u W s st) :
    Legal W (toState s) (asChange u s st) ∧
    (mstep u s st).cache = restrict s.cache (removed s.cache (mstep u s st).cache) :=
  mstep_legal T ((rankWF_iff u).1 hwf) hun hR inv st ok hsa

/-- The state invariant (`Machine.Good`: cache coherent and dependency-closed w.r.t. the current registers;
plus the configuration side of `MInv`) is preserved by any event taken under its side conditions: a public
read of a dependency-closed set, a message (`StepOK`, `StaticAround`), a change of an overridden value
(`RelevelOK`).  Uses all of `Ties`, `rankWF`, `UniqueAttrs`, `ResistWF`. -/
theorem micro_inv_step (T : Ties u immune limited pen keep W) (hwf : rankWF u = true) (hun : UniqueAttrs u)
    (hR : ResistWF u) {s : MState} (inv : MInv W s) (st : WStep) (ok : WStepOK u W s st) :
    MInv W (wstep u W s st) :=
  wstep_inv T ((rankWF_iff u).1 hwf) hun hR inv st ok

/-- A solar system with nothing cached satisfies the invariant (whatever its registers). -/
theorem micro_inv_init {cfg : Config} {d : Dyn} (hU : UniqueIds cfg) (hC : ChargeWF cfg) (hT : TgtKinds cfg d) :
    MInv W ⟨cfg, d, fun _ => none⟩ :=
  ⟨good_init W (cfg, d), hU, hC, hT⟩

/-- ... hence it holds after every history of events (induction over the list; no bound on its length)
starting from an empty cache. -/
theorem micro_inv_run (T : Ties u immune limited pen keep W) (hwf : rankWF u = true) (hun : UniqueAttrs u)
    (hR : ResistWF u) {cfg : Config} {d : Dyn} (hU : UniqueIds cfg) (hC : ChargeWF cfg) (hT : TgtKinds cfg d)
    (steps : List WStep) (ok : WRunOK u W ⟨cfg, d, fun _ => none⟩ steps) :
    MInv W (wrun u W ⟨cfg, d, fun _ => none⟩ steps) :=
  wrun_inv T ((rankWF_iff u).1 hwf) hun hR steps (micro_inv_init hU hC hT) ok

/-- **What a read returns after any message history is the from-scratch value of the current registers**:
the cached value if there is one, a fresh calculation otherwise — both equal `spec (W (cfg, dyn))`. -/
theorem micro_read_eq_spec (T : Ties u immune limited pen keep W) (hwf : rankWF u = true) (hun : UniqueAttrs u)
    (hR : ResistWF u) {cfg : Config} {d : Dyn} (hU : UniqueIds cfg) (hC : ChargeWF cfg) (hT : TgtKinds cfg d)
    (steps : List WStep) (ok : WRunOK u W ⟨cfg, d, fun _ => none⟩ steps) (n : Node) :
    observe W (toState (wrun u W ⟨cfg, d, fun _ => none⟩ steps)) n =
      spec (W ((wrun u W ⟨cfg, d, fun _ => none⟩ steps).cfg, (wrun u W ⟨cfg, d, fun _ => none⟩ steps).dyn)) n :=
  observe_eq_spec W _ (micro_inv_run T hwf hun hR hU hC hT steps ok).good n

/-- Two histories that end in the same registers are indistinguishable by reads (incremental = from scratch:
take for the second history the one that builds the final registers with an empty cache). -/
theorem micro_incremental_eq_scratch (T : Ties u immune limited pen keep W) (hwf : rankWF u = true)
    (hun : UniqueAttrs u) (hR : ResistWF u) {cfg cfg' : Config} {d d' : Dyn}
    (hU : UniqueIds cfg) (hC : ChargeWF cfg) (hT : TgtKinds cfg d)
    (hU' : UniqueIds cfg') (hC' : ChargeWF cfg') (hT' : TgtKinds cfg' d')
    (steps steps' : List WStep) (ok : WRunOK u W ⟨cfg, d, fun _ => none⟩ steps)
    (ok' : WRunOK u W ⟨cfg', d', fun _ => none⟩ steps')
    (hcfg : (wrun u W ⟨cfg, d, fun _ => none⟩ steps).cfg = (wrun u W ⟨cfg', d', fun _ => none⟩ steps').cfg)
    (hdyn : (wrun u W ⟨cfg, d, fun _ => none⟩ steps).dyn = (wrun u W ⟨cfg', d', fun _ => none⟩ steps').dyn)
    (n : Node) :
    observe W (toState (wrun u W ⟨cfg, d, fun _ => none⟩ steps)) n =
      observe W (toState (wrun u W ⟨cfg', d', fun _ => none⟩ steps')) n := by
  rw [micro_read_eq_spec T hwf hun hR hU hC hT steps ok, micro_read_eq_spec T hwf hun hR hU' hC' hT' steps' ok',
    hcfg, hdyn]

/-! ## Non-vacuity -/

/-- The hypotheses that do not mention `W` are jointly satisfiable by a state in which `EffectsStarted`
has a non-empty set of direct targets: starting effect 100 force-recalculates `(ship, 2)`. -/
example : rankWF tinyU = true ∧ UniqueAttrs tinyU ∧ ResistWF tinyU ∧ UniqueIds tinyS.cfg ∧ ChargeWF tinyS.cfg ∧
    TgtKinds tinyS.cfg tinyS.dyn ∧ (∀ W, StepOK W tinyS (.start 0 [100])) ∧
    directOf tinyU tinyS.cfg (setOn tinyS.dyn 0 [100] true)
      (localSpecsOf tinyU tinyS.cfg (setOn tinyS.dyn 0 [100] true) 0 [100]) = [(0, 2)] := by
  refine ⟨by decide, by unfold UniqueAttrs; decide, ?_, by unfold UniqueIds; decide, ?_, ?_, fun _ _ _ => rfl, by decide⟩
  · intro e he r hr
    simp only [tinyU, List.mem_singleton] at he
    subst he; cases hr
  · intro x hx hk
    simp only [tinyS, List.mem_singleton] at hx
    subst hx; cases hk
  · intro a e t ht
    simp [targetsOf, tinyS] at ht

/-! ## The incrementally maintained cache agrees with the from-scratch table -/

/-- **Headline, universes with fleet boosts: after any message history that ends in a settled state, every
read returns the entry of the specification's table** `World.evalAll` — the table the driver computes from
scratch and the differential run compares the real code with.  `worldGraph` is the graph family of the
message-level model (override nodes — skill levels — are not dependencies: the real code never caches them).

Hypotheses, in terms of the property's quantifier:
* `hwf : rankWF u` — the attribute dependencies of the universe are acyclic (listed in rank order);
* `hun : UniqueAttrs u` — attribute ids are unique;
* `hR : ResistWF u` — resistance attributes only on effects with projected (`domain = 4`) modifiers;
* `hnp` — a fleet-boost effect is not at the same time a projectable (category 2) effect; *no* "no buff
  effects" hypothesis;
* `hU, hC, hT` — the initial configuration has unique item ids, charges sit in modules of their own fit,
  recorded projection targets are ships / drones / fighters (each is kept by every step);
* `ok : WRunOKE …` — every event is taken under its side conditions: reads fill dependency-closed sets;
  messages satisfy `StepOK` (K1: a loaded / unloaded item is not a recorded projection target; effects are
  started before they are applied and unapplied before they are stopped; warfare-buff modifiers are replaced
  while the projector has no recorded targets; an item is loaded with nothing of it cached and none of its
  effects running) and *non-zero divisors*: no attribute calculation of the state before and after a load /
  unload / start / stop / apply / unapply ends in a division by zero (`ErrorFree`, which discharges
  `StaticAround`); level changes satisfy `RelevelOK`;
* `hset : BuffSettled …` — the history ends in a settled state: exactly the effects the specification selects
  run, ordinary projectable effects are applied to the items' current targets (`derivedDyn` on these), and for
  every running fleet boost the registered warfare-buff modifiers are (a permutation of) the specification's
  `buffModifiers` computed from the table and — unless the projector has no projected modifier at all — the
  recorded targets are (a permutation of) the ships the specification boosts (`BuffPayloadOK`; the
  correspondence check compares exactly this with the real service after every public call, driver command
  `QB`);
* `hnz` — non-zero divisors for the final configuration: the table has no `divZero` entry.
Conclusion: for every configured item and attribute with metadata, what a read observes (the cached value
if there is one, a fresh calculation otherwise) is `World.read` of the table. -/
theorem world_read_eq_table_buff (hwf : rankWF u = true) (hun : UniqueAttrs u) (hR : ResistWF u)
    (hnp : ∀ e ∈ u.effects, e.isBuff = true → e.category ≠ 2)
    {cfg : Config} {d : Dyn} (hU : UniqueIds cfg) (hC : ChargeWF cfg)
    (hT : TgtKinds cfg d) (steps : List WStep)
    (ok : WRunOKE u immune limited pen (worldGraph u immune limited pen hwf) ⟨cfg, d, fun _ => none⟩ steps)
    (sF : MState) (hF : wrun u (worldGraph u immune limited pen hwf) ⟨cfg, d, fun _ => none⟩ steps = sF)
    (hset : BuffSettled u sF.cfg immune limited pen sF.dyn)
    (hnz : ∀ entry ∈ evalAll u sF.cfg immune limited pen, entry.2 ≠ .divZero)
    {x : Item} (hx : x ∈ sF.cfg.items) {am : AttrMeta} (ham : am ∈ u.attrs) :
    observe (worldGraph u immune limited pen hwf) (toState sF) (x.id, am.id) =
      valToOption (World.read (evalAll u sF.cfg immune limited pen) x am.id) := by
  subst hF
  have T := worldGraph_ties (immune := immune) (limited := limited) (pen := pen) hwf
  have okW := wrunOK_of_errorFree T steps _ ok
  rw [micro_read_eq_spec T hwf hun hR hU hC hT steps okW]
  exact settled_spec_eq_table_buff hwf hun (micro_inv_run T hwf hun hR hU hC hT steps okW).uniq hnp hnz hset hx ham

/-- The same with "non-zero divisors" of the final state stated like that of the states passed through
(`ErrorFree` of the settled state); the table then has no `divZero` at the entries read. -/
theorem world_read_eq_table_buff_of_errorFree (hwf : rankWF u = true) (hun : UniqueAttrs u) (hR : ResistWF u)
    (hnp : ∀ e ∈ u.effects, e.isBuff = true → e.category ≠ 2)
    {cfg : Config} {d : Dyn} (hU : UniqueIds cfg) (hC : ChargeWF cfg)
    (hT : TgtKinds cfg d) (steps : List WStep)
    (ok : WRunOKE u immune limited pen (worldGraph u immune limited pen hwf) ⟨cfg, d, fun _ => none⟩ steps)
    (sF : MState) (hF : wrun u (worldGraph u immune limited pen hwf) ⟨cfg, d, fun _ => none⟩ steps = sF)
    (hset : BuffSettled u sF.cfg immune limited pen sF.dyn)
    (hef : ErrorFree u immune limited pen (worldGraph u immune limited pen hwf) sF.cfg sF.dyn)
    {x : Item} (hx : x ∈ sF.cfg.items) {am : AttrMeta} (ham : am ∈ u.attrs) :
    observe (worldGraph u immune limited pen hwf) (toState sF) (x.id, am.id) =
      valToOption (World.read (evalAll u sF.cfg immune limited pen) x am.id) ∧
    World.read (evalAll u sF.cfg immune limited pen) x am.id ≠ .divZero := by
  subst hF
  have T := worldGraph_ties (immune := immune) (limited := limited) (pen := pen) hwf
  have okW := wrunOK_of_errorFree T steps _ ok
  rw [micro_read_eq_spec T hwf hun hR hU hC hT steps okW]
  exact settled_spec_eq_table_buff_of_errorFree hwf hun (micro_inv_run T hwf hun hR hU hC hT steps okW).uniq hnp
    hset hef hx ham

/-- **Headline, universes without buff effects (instance of `world_read_eq_table_buff`): after any message history that ends in a settled state, every read returns the entry of the
specification's table** `World.evalAll` — the table the driver computes from scratch and the differential
run compares the real code with.  `worldGraph` is the graph family of the message-level model (override
nodes — skill levels — are not dependencies: the real code never caches them).

Hypotheses, in terms of the property's quantifier:
* `hwf : rankWF u` — the attribute dependencies of the universe are acyclic (listed in rank order);
* `hun : UniqueAttrs u` — attribute ids are unique;
* `hR : ResistWF u` — resistance attributes only on effects with projected (`domain = 4`) modifiers;
* `hb` — no warfare-buff effects (then `derivedDyn` is `BuffSettled`: `buffSettled_derived`);
* `hU, hC, hT` — the initial configuration has unique item ids, charges sit in modules of their own fit,
  recorded projection targets are ships / drones / fighters (each is kept by every step);
* `ok : WRunOKE …` — every event is taken under its side conditions: reads fill dependency-closed sets;
  messages satisfy `StepOK` (K1: a loaded / unloaded item is not a recorded projection target; effects are
  started before they are applied and unapplied before they are stopped; an item is loaded with nothing of
  it cached and none of its effects running) and *non-zero divisors*: no attribute calculation of the state
  before and after a load / unload / start / stop / apply / unapply ends in a division by zero (`ErrorFree`,
  which discharges `StaticAround`); level changes satisfy `RelevelOK`;
* `hset` — the history ends in a settled state: exactly the effects the specification selects run and are
  applied to the items' current targets (`derivedDyn`);
* `hnz` — non-zero divisors for the final configuration: the table has no `divZero` entry.
Conclusion: for every configured item and attribute with metadata, what a read observes (the cached value
if there is one, a fresh calculation otherwise) is `World.read` of the table. -/
theorem world_read_eq_table (hwf : rankWF u = true) (hun : UniqueAttrs u) (hR : ResistWF u)
    (hb : ∀ e ∈ u.effects, e.isBuff = false) {cfg : Config} {d : Dyn} (hU : UniqueIds cfg) (hC : ChargeWF cfg)
    (hT : TgtKinds cfg d) (steps : List WStep)
    (ok : WRunOKE u immune limited pen (worldGraph u immune limited pen hwf) ⟨cfg, d, fun _ => none⟩ steps)
    (sF : MState) (hF : wrun u (worldGraph u immune limited pen hwf) ⟨cfg, d, fun _ => none⟩ steps = sF)
    (hset : sF.dyn = derivedDyn u sF.cfg)
    (hnz : ∀ entry ∈ evalAll u sF.cfg immune limited pen, entry.2 ≠ .divZero)
    {x : Item} (hx : x ∈ sF.cfg.items) {am : AttrMeta} (ham : am ∈ u.attrs) :
    observe (worldGraph u immune limited pen hwf) (toState sF) (x.id, am.id) =
      valToOption (World.read (evalAll u sF.cfg immune limited pen) x am.id) :=
  world_read_eq_table_buff hwf hun hR (fun e he h => by rw [hb e he] at h; cases h) hU hC hT steps ok sF hF
    (hset ▸ buffSettled_derived hb) hnz hx ham

/-- The same with "non-zero divisors" of the final state stated like that of the states passed through
(`ErrorFree` of the settled state); the table then has no `divZero` at the entries read. -/
theorem world_read_eq_table_of_errorFree (hwf : rankWF u = true) (hun : UniqueAttrs u) (hR : ResistWF u)
    (hb : ∀ e ∈ u.effects, e.isBuff = false) {cfg : Config} {d : Dyn} (hU : UniqueIds cfg) (hC : ChargeWF cfg)
    (hT : TgtKinds cfg d) (steps : List WStep)
    (ok : WRunOKE u immune limited pen (worldGraph u immune limited pen hwf) ⟨cfg, d, fun _ => none⟩ steps)
    (sF : MState) (hF : wrun u (worldGraph u immune limited pen hwf) ⟨cfg, d, fun _ => none⟩ steps = sF)
    (hset : sF.dyn = derivedDyn u sF.cfg)
    (hef : ErrorFree u immune limited pen (worldGraph u immune limited pen hwf) sF.cfg sF.dyn)
    {x : Item} (hx : x ∈ sF.cfg.items) {am : AttrMeta} (ham : am ∈ u.attrs) :
    observe (worldGraph u immune limited pen hwf) (toState sF) (x.id, am.id) =
      valToOption (World.read (evalAll u sF.cfg immune limited pen) x am.id) ∧
    World.read (evalAll u sF.cfg immune limited pen) x am.id ≠ .divZero :=
  world_read_eq_table_buff_of_errorFree hwf hun hR (fun e he h => by rw [hb e he] at h; cases h) hU hC hT steps ok
    sF hF (hset ▸ buffSettled_derived hb) hef hx ham

/-- Attributes without metadata: a read observes no value in any reachable state, and the table's read is
absent (except that `World.read` answers a skill's level from the item even when attribute 280 has no
metadata — the one place where the two differ). -/
theorem world_read_no_meta (hwf : rankWF u = true) (hun : UniqueAttrs u) (hR : ResistWF u)
    {cfg : Config} {d : Dyn} (hU : UniqueIds cfg) (hC : ChargeWF cfg) (hT : TgtKinds cfg d) (steps : List WStep)
    (ok : WRunOKE u immune limited pen (worldGraph u immune limited pen hwf) ⟨cfg, d, fun _ => none⟩ steps)
    (sF : MState) (hF : wrun u (worldGraph u immune limited pen hwf) ⟨cfg, d, fun _ => none⟩ steps = sF)
    (x : Item) {a : Int} (ha : attrMeta? u a = none) (hov : ¬ (x.kind = .skill ∧ a = 280)) :
    observe (worldGraph u immune limited pen hwf) (toState sF) (x.id, a) = none ∧
    World.read (evalAll u sF.cfg immune limited pen) x a = .absent := by
  subst hF
  have T := worldGraph_ties (immune := immune) (limited := limited) (pen := pen) hwf
  have okW := wrunOK_of_errorFree T steps _ ok
  rw [micro_read_eq_spec T hwf hun hR hU hC hT steps okW]
  exact ⟨spec_no_meta hwf _ ha, read_no_meta ha hov⟩

/-! ## Non-vacuity of the headline

The history `settleHist` (`Lemmas/MicroAssembly.lean`: two effects of a module started, each applied to the
ship, then a read) satisfies every hypothesis of `world_read_eq_table`; the read of the ship's attribute 37
observes the table's entry, (100 + 3/2 − 3/2) · 3/2 · 3/2 = 225. -/

example : observe settleW (toState (wrun settleU settleW settleS0 settleHist)) (1, 37) =
    valToOption (World.read (evalAll settleU settleCfg specImmune specLimited (fun _ => 1)) settleShip 37) :=
  world_read_eq_table (by decide) settle_wf.1 settle_wf.2.1 (by decide) settle_wf.2.2.1 settle_wf.2.2.2.1
    settle_wf.2.2.2.2 settleHist settle_runOK _ rfl settle_hset (by decide +kernel) (x := settleShip)
    List.mem_cons_self (am := ⟨37, none, none, true, true⟩) (List.mem_cons_of_mem _ List.mem_cons_self)

example : observe settleW (toState (wrun settleU settleW settleS0 settleHist)) (1, 37) = some 225 ∧
    World.read (evalAll settleU settleCfg specImmune specLimited (fun _ => 1)) settleShip 37 = .ok 225 ∧
    (wrun settleU settleW settleS0 settleHist).cache (1, 37) = some 225 := by
  refine ⟨by decide +kernel, by decide +kernel, by decide +kernel⟩

/-! ## The compiled driver executes the `mstep` / reads of the theorems above

`Driver/Micro.lean` cannot run `Micro.casc` (a function-valued cache is re-evaluated at every look-up); it runs
the table twin `mstepT` of `EosModel/WorldMicroExec.lean`, re-packs the registers after every message
(`compactDyn`), and reads with `readStepT`.  The differential run compares the real code's attribute caches with
that twin after every message; the theorems below close the gap to `mstep`. -/

/-- **What the driver computes for a message is the `mstep` of the theorems above.**
(1) For every state and every message, the table step `mstepT` is `mstep` through `TState.toM` (configuration and
registers equal, the table's look-up function equal to the model's cache: `tblFun (cascT …) = casc … (tblFun …)`,
`visitT`, `visitAllT` alike, by induction on the fuel).
(2) The driver's full message step `mdoT` (= `mdo` of `Driver/Micro.lean`: `mstepT`, then `compactDyn`) is `mstep`
as well, provided the registers mention only configured items and effects of their types (`DynFin`: true of the
empty registers the driver starts from, and of every output of `compactDyn`) and the message does (`StepFin`:
`ItemLoaded` of a configured item, `EffectsStarted` of effects of the item's type, `EffectApplied` of such an
effect, warfare-buff modifiers registered for such an effect; a new configuration still contains what the
registers mention); `DynFin` is kept. -/
theorem driver_step_refines (s : TState) (st : MStep) :
    (mstepT u s st).toM = mstep u s.toM st ∧
    (DynFin u s.cfg s.dyn → StepFin u s.cfg s.dyn st →
      (mdoT u s st).toM = mstep u s.toM st ∧ DynFin u (mdoT u s st).cfg (mdoT u s st).dyn) :=
  ⟨mstepT_toM s st, fun h ok => mdoT_toM h st ok⟩

/-- ... hence along any history of such messages (no bound on its length) the driver's state is the model's. -/
theorem driver_run_refines (steps : List MStep) (s : TState) (h : DynFin u s.cfg s.dyn)
    (ok : RunFin u s.toM steps) :
    (steps.foldl (mdoT u) s).toM = steps.foldl (mstep u) s.toM :=
  (mdoT_run steps s h ok).1

/-- **A message that passes the driver's check `stepOKb` is a legal step of the abstract cache machine, and the
driver's state satisfies the invariant afterwards.**  `Driver/Micro.lean` evaluates `stepOKb` (the executable form
of the side conditions `StepOK`, `EosModel/WorldMicroExec.lean`) before every message of the real code's stream.
For a driver state with registers of the form `DynFin` (every state the driver is in) that satisfies `MInv`, and
any message but a `reconfig`:
* `hb : stepOKb u s st = true` — the check passed; it yields `StepOK` (`stepOKb_sound`; the converse is
  `stepOKb_complete`);
* `hsf : StepFin …` — the message names a configured item / effects of its type (what makes the driver's `mdoT`,
  table step plus re-packing, equal to `mstep`: `driver_step_refines`);
* `hsa : StaticAround …` — `StaticAt` before and after, for load / unload / start / stop / apply / unapply
  (discharged by "no division by zero" in `driver_checked_step_legal_of_errorFree`).
Conclusion: the side conditions hold; the driver's step is the model's; it is `Machine.Legal` as the `.change`
to the driver's new registers removing exactly the entries the driver's table lost; the driver does nothing to
its table but remove them; `MInv` (hence: every read returns the from-scratch value of the new registers) and
`DynFin` hold in the driver's new state. -/
theorem driver_checked_step_legal (T : Ties u immune limited pen keep W) (hwf : rankWF u = true)
    (hun : UniqueAttrs u) (hR : ResistWF u) {s : TState} (hfin : DynFin u s.cfg s.dyn) (inv : MInv W s.toM)
    {st : MStep} (hst : ∀ cfg', st ≠ .reconfig cfg') (hb : stepOKb u s st = true)
    (hsf : StepFin u s.cfg s.dyn st) (hsa : StaticAround u W s.toM st) :
    StepOK W s.toM st ∧
    (mdoT u s st).toM = mstep u s.toM st ∧
    Legal W (toState s.toM) (.change ((mdoT u s st).cfg, (mdoT u s st).dyn)
      (removed (tblFun s.tbl) (tblFun (mdoT u s st).tbl))) ∧
    tblFun (mdoT u s st).tbl = restrict (tblFun s.tbl) (removed (tblFun s.tbl) (tblFun (mdoT u s st).tbl)) ∧
    MInv W (mdoT u s st).toM ∧ DynFin u (mdoT u s st).cfg (mdoT u s st).dyn := by
  have ok := stepOKb_sound hfin hst hb W
  obtain ⟨h1, h2⟩ := mdoT_toM hfin st hsf
  obtain ⟨hl, hc⟩ := micro_step_legal T hwf hun hR inv st ok hsa
  have hi := mstep_inv T ((rankWF_iff u).1 hwf) hun hR inv st ok hsa
  unfold asChange at hl
  rw [← h1] at hl hc hi
  exact ⟨ok, h1, hl, hc, hi, h2⟩

/-- The same with `StaticAround` discharged by non-zero divisors: no attribute calculation of the driver's state
before and after the message ends in a division by zero (needed for load / unload / start / stop / apply /
unapply only). -/
theorem driver_checked_step_legal_of_errorFree (T : Ties u immune limited pen keep W) (hwf : rankWF u = true)
    (hun : UniqueAttrs u) (hR : ResistWF u) {s : TState} (hfin : DynFin u s.cfg s.dyn) (inv : MInv W s.toM)
    {st : MStep} (hst : ∀ cfg', st ≠ .reconfig cfg') (hb : stepOKb u s st = true)
    (hsf : StepFin u s.cfg s.dyn st)
    (hef : usesStatic st = true → ErrorFree u immune limited pen W s.cfg s.dyn ∧
      ErrorFree u immune limited pen W (mdoT u s st).cfg (mdoT u s st).dyn) :
    StepOK W s.toM st ∧
    (mdoT u s st).toM = mstep u s.toM st ∧
    Legal W (toState s.toM) (.change ((mdoT u s st).cfg, (mdoT u s st).dyn)
      (removed (tblFun s.tbl) (tblFun (mdoT u s st).tbl))) ∧
    tblFun (mdoT u s st).tbl = restrict (tblFun s.tbl) (removed (tblFun s.tbl) (tblFun (mdoT u s st).tbl)) ∧
    MInv W (mdoT u s st).toM ∧ DynFin u (mdoT u s st).cfg (mdoT u s st).dyn := by
  have h1 := (mdoT_toM hfin st hsf).1
  refine driver_checked_step_legal T hwf hun hR hfin inv hst hb hsf fun hs =>
    ⟨staticAt_of_errorFree T (hef hs).1, ?_⟩
  rw [← h1]
  exact staticAt_of_errorFree T (hef hs).2

/-- On the configuration's items and their types' effects the re-packing changes nothing, whatever the
registers. -/
theorem driver_compact_id (cfg : Config) (d : Dyn) {x : Item} (hx : x ∈ cfg.items) :
    (compactDyn u cfg d).loaded x.id = d.loaded x.id ∧
    ∀ e ∈ effsOf u x, (compactDyn u cfg d).on x.id e = d.on x.id e ∧
      (compactDyn u cfg d).tgts x.id e = d.tgts x.id e ∧
      (compactDyn u cfg d).bspecs x.id e = d.bspecs x.id e :=
  ⟨compactDyn_loaded_of_mem hx, fun _ he =>
    ⟨compactDyn_on_of_mem hx he, compactDyn_tgts_of_mem hx he, compactDyn_bspecs_of_mem hx he⟩⟩

/-- **What a public read of the driver returns is the from-scratch value.**  State satisfying the invariant
`MInv` (cache coherent and dependency-closed for `worldGraph`, unique item ids, …), rank-well-formed universe,
no calculation of the state divides by zero (`ErrorFree`): `readStepT` on a configured item returns what the
reader of the from-scratch values answers (`.ok v` / `.absent` according to `spec … (y.id, a)`, the level for
a skill's attribute 280, `.absent` without metadata), and the table it leaves is a coherent extension of the
old one. -/
theorem driver_read_value (hwf : rankWF u = true) {s : TState}
    (inv : MInv (worldGraph u immune limited pen hwf) s.toM)
    (hef : ErrorFree u immune limited pen (worldGraph u immune limited pen hwf) s.cfg s.dyn)
    {i : Nat} {y : Item} (hy : item? s.cfg i = some y) (a : Int) :
    (readStepT u immune limited pen s i a).2 =
      readerOf u (spec (worldGraph u immune limited pen hwf (s.cfg, s.dyn))) y a ∧
    (∀ n v, tblFun (readStepT u immune limited pen s i a).1.tbl n = some v →
      spec (worldGraph u immune limited pen hwf (s.cfg, s.dyn)) n = some v) ∧
    (∀ n v, tblFun s.tbl n = some v → tblFun (readStepT u immune limited pen s i a).1.tbl n = some v) := by
  have hU : UniqueIds s.cfg := inv.uniq
  have hg : Inv (worldGraph u immune limited pen hwf (s.cfg, s.dyn)) (tblFun s.tbl) := inv.good
  obtain ⟨h1, h2⟩ := readStepT_toM hwf hU hef inv.good i a
  have hcoh := readNode_coh hwf hU hef hg (item?_mem hy) a
  have hc : tblFun (readStepT u immune limited pen s i a).1.tbl =
      (readNode u immune limited pen (fuelOf u + 1) s.cfg s.dyn (tblFun s.tbl) y a).1 := by
    have := congrArg MState.cache h1
    simp only [readStep, TState.toM, hy] at this
    exact this
  refine ⟨?_, ?_, ?_⟩
  · rw [h2]
    simp only [readStep, TState.toM, hy]
    exact readNode_value hwf hU hef hg (item?_mem hy) a
  · rw [hc]; exact hcoh.1
  · rw [hc]; exact hcoh.2

/- Full statement (not provable, see `ResistSrcOK` and the counter-example `gapU` in `Lemmas/MicroExec.lean`):
with the hypotheses of `driver_read_value` the driver's read is `wstep … (.read S)` for a set `S` satisfying
`WStepOK … (.read S)`.  `get_modifications` (and the model) read the resistance attribute of a projected
modifier only after its source attribute had a value, while `Micro.deps` lists it unconditionally. -/
/-- **A public read of the driver is a legal read event of the histories above** (`WStepOK … (.read S)`, i.e.
`Machine.Legal`), under the additional hypothesis `ResistSrcOK`: whenever the source attribute of a resisted
affector spec reads as absent, the resistance attribute has no value either. -/
theorem driver_read_refines_partial (hwf : rankWF u = true) {s : TState}
    (inv : MInv (worldGraph u immune limited pen hwf) s.toM)
    (hef : ErrorFree u immune limited pen (worldGraph u immune limited pen hwf) s.cfg s.dyn)
    (hrs : ResistSrcOK u s.cfg s.dyn (spec (worldGraph u immune limited pen hwf (s.cfg, s.dyn))))
    (i : Nat) (a : Int) :
    ∃ S : Node → Bool, WStepOK u (worldGraph u immune limited pen hwf) s.toM (.read S) ∧
      (readStepT u immune limited pen s i a).1.toM = wstep u (worldGraph u immune limited pen hwf) s.toM (.read S) := by
  have hU : UniqueIds s.cfg := inv.uniq
  have hg : Inv (worldGraph u immune limited pen hwf (s.cfg, s.dyn)) (tblFun s.tbl) := inv.good
  rw [(readStepT_toM hwf hU hef inv.good i a).1]
  cases hy : item? s.cfg i with
  | none =>
    refine ⟨fun _ => false, ?_, ?_⟩
    · intro n hn; cases hn
    · simp only [readStep, TState.toM, hy, wstep]
      rfl
  | some y =>
    obtain ⟨S, hl, hc⟩ := readNode_legal_partial hwf hU hef hrs hg (item?_mem hy) a
    refine ⟨S, hl, ?_⟩
    simp only [readStep, TState.toM, hy, wstep]
    rw [hc]

/-! Non-vacuity: in the one-ship world `tinyS` with `(ship, 2)` cached, `EffectsStarted` of effect 100 is a
message of the form `StepFin` on registers of the form `DynFin`; the driver's step is the model's, which
force-recalculates `(ship, 2)`: the entry is gone from the driver's table. -/

example : DynFin tinyU tinyS.cfg tinyS.dyn ∧ StepFin tinyU tinyS.cfg tinyS.dyn (.start 0 [100]) ∧
    tblFun [((0, 2), (7 : Rat))] (0, 2) = some 7 ∧
    tblFun (mdoT tinyU ⟨tinyS.cfg, tinyS.dyn, [((0, 2), 7)]⟩ (.start 0 [100])).tbl (0, 2) = none := by
  have hD : DynFin tinyU tinyS.cfg tinyS.dyn := by
    refine ⟨fun i h => ⟨_, List.mem_cons_self, ?_⟩, fun i e h => (by cases h), fun i e h => absurd rfl h,
      fun i e h => absurd rfl h⟩
    have : i = 0 := by simpa [tinyS] using h
    exact this.symm
  have hS : StepFin tinyU tinyS.cfg tinyS.dyn (.start 0 [100]) := by
    intro e he
    rw [List.mem_singleton.1 he]
    exact ⟨_, List.mem_cons_self, rfl, by decide⟩
  refine ⟨hD, hS, by decide, ?_⟩
  have h := congrArg MState.cache
    ((driver_step_refines (u := tinyU) ⟨tinyS.cfg, tinyS.dyn, [((0, 2), 7)]⟩ (.start 0 [100])).2 hD hS).1
  have hK : ∀ x, tblFun [((0, 2), (7 : Rat))] x ≠ none → HasMeta tinyU x := by
    intro x hx
    by_cases hx2 : x = (0, 2)
    · rw [hx2]; unfold HasMeta; decide
    · exact absurd (by simp [tblFun, Ne.symm hx2]) hx
  show (mdoT tinyU ⟨tinyS.cfg, tinyS.dyn, [((0, 2), 7)]⟩ (.start 0 [100])).toM.cache (0, 2) = none
  rw [h]
  exact (cascade_closed tinyS.cfg (setOn tinyS.dyn 0 [100] true) (by decide) (by unfold UniqueAttrs; decide) _ hK
    _).2.1 (0, 2) (by decide)

/-! Non-vacuity of the read theorems: the two-item world of `Lemmas/MicroAssembly.lean` before any effect
runs (`settleS0` with a table for the cache) satisfies their hypotheses; the read of the ship's attribute 37
returns its base value. -/

example : (readStepT settleU specImmune specLimited (fun _ => 1) ⟨settleCfg, settleD0, []⟩ 1 37).2 = .ok 100 ∧
    ∃ S, WStepOK settleU settleW (TState.toM ⟨settleCfg, settleD0, []⟩) (.read S) ∧
      (readStepT settleU specImmune specLimited (fun _ => 1) ⟨settleCfg, settleD0, []⟩ 1 37).1.toM =
        wstep settleU settleW (TState.toM ⟨settleCfg, settleD0, []⟩) (.read S) := by
  refine ⟨by decide +kernel, driver_read_refines_partial (s := ⟨settleCfg, settleD0, []⟩) (by decide)
    ⟨good_init _ _, settle_wf.2.2.1, settle_wf.2.2.2.1, settle_wf.2.2.2.2⟩ (by unfold ErrorFree; decide +kernel)
    ?_ 1 37⟩
  intro x _ tx _ attr sp hsp c r hr
  have he := (running_mem (specsOn_mem hsp).2.1).1
  simp only [settleU, List.mem_cons, List.not_mem_nil, or_false] at he
  rcases he with he | he <;> rw [he] at hr <;> cases hr

/-! ## Fleet boosts at message level -/

/-- **Fleet boosts: (re-)registration of warfare buffs is a legal history.**  When a fleet-boost effect `e` of
item `i` starts, or one of its buff attributes changes, the service un-applies the effect from its recorded
targets, rebuilds its warfare-buff modifiers (`buffset`: message payload `ms`, whatever it is) and applies
the effect to the ships `ts` of the fleet (`rebuff`).  From any state satisfying the invariant these three
messages are taken under their side conditions — the `buffset` finds no recorded targets because of the
un-apply before it; the hypotheses are those of the `EffectApplied` (targets are solar-system items) and
non-zero divisors around the un-apply and the apply — the invariant holds afterwards, the projector has
exactly the new modifiers and targets registered, and every read returns the from-scratch value of the new
registers.  No hypothesis excludes buff effects from the universe. -/
theorem micro_rebuff_legal (T : Ties u immune limited pen keep W) (hwf : rankWF u = true) (hun : UniqueAttrs u)
    (hR : ResistWF u) {s : MState} (inv : MInv W s) (i : Nat) (e : Int) (ms : List Modifier) (ts : List Nat)
    (hts : ∀ j ∈ ts, ∀ t, item? s.cfg j = some t → t.kind.isSolsys = true)
    (hst1 : StaticAround u W s (.unapply i e (s.dyn.tgts i e)))
    (hst3 : StaticAround u W (rebuffMid u s i e ms) (.apply i e ts)) :
    WRunOK u W s ((rebuff s i e ms ts).map .micro) ∧
    MInv W (wrun u W s ((rebuff s i e ms ts).map .micro)) ∧
    (wrun u W s ((rebuff s i e ms ts).map .micro)).dyn.bspecs i e = ms ∧
    (wrun u W s ((rebuff s i e ms ts).map .micro)).dyn.tgts i e = ts ∧
    ∀ n, observe W (toState (wrun u W s ((rebuff s i e ms ts).map .micro))) n =
      spec (W ((wrun u W s ((rebuff s i e ms ts).map .micro)).cfg,
        (wrun u W s ((rebuff s i e ms ts).map .micro)).dyn)) n :=
  have hinv := rebuff_inv T ((rankWF_iff u).1 hwf) hun hR inv i e ms ts hts hst1 hst3
  have hd := rebuff_dyn (u := u) (W := W) s i e ms ts
  ⟨rebuff_ok s i e ms ts hts hst1 hst3, hinv, hd.2.2.2.1, hd.2.2.2.2.1, fun n => observe_eq_spec W _ hinv.good n⟩

/-! ### Non-vacuity: a history with a running fleet boost

`buffU` has a warfare-buff effect (2000, `isBuff := true`, no modifiers of its own) on a module type and one buff
template (buff 10: +value % on attribute 37 of the boosted ship).  History `buffHist`: the effect starts; the
ship's attribute 37 is read (100, cached); the service registers the buff — un-apply from no targets,
`buffset` with the one modifier built from the template (source: buff value attribute 2469 = 25 of the
module), apply to the ship —, which removes the cached entry; the next read returns 125. -/

def buffU : Universe :=
  { attrs := [⟨2469, none, none, true, true⟩, ⟨37, none, none, true, true⟩],
    effects := [⟨2000, 1, none, none, true, []⟩],
    types := [⟨1, none, some 6, none, [(37, 100)], [], []⟩, ⟨2, none, some 7, none, [(2469, 25)], [2000], []⟩],
    buffs := [⟨10, 1, none, 37, 9, 1⟩] }
def buffShip : Item := ⟨1, .ship, 1, 0, 1, none, none, none, []⟩
def buffCfg : Config :=
  { hasSource := true, fits := [⟨0, some 1, none, none⟩],
    items := [buffShip, ⟨2, .moduleHigh, 2, 0, 3, none, none, none, []⟩] }
def buffD0 : Dyn := { loaded := fun i => i == 1 || i == 2, on := fun _ _ => false, tgts := fun _ _ => [] }
def buffS0 : MState := ⟨buffCfg, buffD0, fun _ => none⟩
def buffMod : Modifier := ⟨1, 4, none, 37, 9, 1, some 10, 2469⟩
abbrev buffW : Config × Dyn → Graph Node Rat := worldGraph buffU specImmune specLimited (fun _ => 1) (by decide)
def buffHist : List WStep :=
  [.micro (.start 2 [2000]), .read fun n => n == (1, 37),
   .micro (.unapply 2 2000 []), .micro (.buffset 2 2000 [buffMod]), .micro (.apply 2 2000 [1]),
   .read fun n => n == (1, 37) || n == (2, 2469)]

/-- The payload is an instance of the template (`projMods` ignores anything else), and the middle of the
history is the `rebuff` of the theorem above. -/
example : bspecOK buffU buffMod = true := by decide
example : buffHist = [.micro (.start 2 [2000]), .read fun n => n == (1, 37)] ++
    (rebuff (wrun buffU buffW buffS0 (buffHist.take 2)) 2 2000 [buffMod] [1]).map .micro ++
    [.read fun n => n == (1, 37) || n == (2, 2469)] := rfl

theorem buff_wf : rankWF buffU = true ∧ UniqueAttrs buffU ∧ ResistWF buffU ∧ UniqueIds buffCfg ∧
    ChargeWF buffCfg ∧ TgtKinds buffCfg buffD0 := by
  refine ⟨by decide, by unfold UniqueAttrs; decide, ?_, by unfold UniqueIds; decide, ?_, ?_⟩
  · intro e he r hr
    simp only [buffU, List.mem_singleton] at he
    subst he; cases hr
  · intro x hx hk
    simp only [buffCfg, buffShip, List.mem_cons, List.not_mem_nil, or_false] at hx
    rcases hx with rfl | rfl <;> cases hk
  · intro a e t ht
    simp [targetsOf, buffD0] at ht

/-- Both reads of the history fill dependency-closed sets: before the boost is applied `(ship, 37)` reads
nothing, afterwards it reads the booster's buff value attribute `(module, 2469)`. -/
theorem buff_readLegal (k : Nat) (s : MState) (hc : s.cfg = buffCfg)
    (hd : s.dyn = (wrun buffU buffW buffS0 (buffHist.take k)).dyn) (S : Node → Bool)
    (hS : (k = 1 ∧ S = fun n => n == (1, 37)) ∨ (k = 5 ∧ S = fun n => n == (1, 37) || n == (2, 2469))) :
    Legal buffW (toState s) (.read S) := by
  intro n hn m hm _
  have : (toState s).cfg = (buffCfg, (wrun buffU buffW buffS0 (buffHist.take k)).dyn) := by
    show (s.cfg, s.dyn) = _; rw [hc, hd]
  rw [this] at hm
  rcases hS with ⟨rfl, rfl⟩ | ⟨rfl, rfl⟩
  · have hn' : n = (1, 37) := by simpa using hn
    subst hn'
    have : (buffW (buffCfg, (wrun buffU buffW buffS0 (buffHist.take 1)).dyn)).deps (1, 37) = [] := by
      decide +kernel
    rw [this] at hm; cases hm
  · have hdeps : ∀ n, (n == ((1 : Nat), (37 : Int)) || n == (2, 2469)) = true →
        ∀ m ∈ (buffW (buffCfg, (wrun buffU buffW buffS0 (buffHist.take 5)).dyn)).deps n, m = (2, 2469) := by
      intro n hn
      simp only [Bool.or_eq_true, beq_iff_eq] at hn
      rcases hn with rfl | rfl <;> decide +kernel
    left
    rw [hdeps n hn m hm]; rfl

/-- Every event of the history is taken under its side conditions. -/
theorem buff_runOK : WRunOKE buffU specImmune specLimited (fun _ => 1) buffW buffS0 buffHist := by
  refine ⟨⟨?_, fun _ => ⟨?_, ?_⟩⟩, ?_, ⟨trivial, fun _ => ⟨?_, ?_⟩⟩, ⟨?_, fun h => by cases h⟩,
    ⟨?_, fun _ => ⟨?_, ?_⟩⟩, ?_, trivial⟩
  · intro e _; rfl
  all_goals first
    | exact buff_readLegal 1 _ rfl rfl _ (Or.inl ⟨rfl, rfl⟩)
    | exact buff_readLegal 5 _ rfl rfl _ (Or.inr ⟨rfl, rfl⟩)
    | (unfold ErrorFree; decide +kernel)
    | rfl
    | (intro j hj t ht
       rw [List.mem_singleton.1 hj] at ht
       cases ht; rfl)

/-- The history satisfies the hypotheses of `micro_inv_run` for a universe with a buff effect; the entry
cached before the boost (100) is removed by the `EffectApplied`, and the read after it caches 125. -/
example : (∃ e ∈ buffU.effects, e.isBuff = true) ∧
    MInv buffW (wrun buffU buffW buffS0 buffHist) ∧
    (wrun buffU buffW buffS0 (buffHist.take 2)).cache (1, 37) = some 100 ∧
    (wrun buffU buffW buffS0 (buffHist.take 5)).cache (1, 37) = none ∧
    (wrun buffU buffW buffS0 buffHist).cache (1, 37) = some 125 ∧
    (wrun buffU buffW buffS0 buffHist).dyn.bspecs 2 2000 = [buffMod] ∧
    (wrun buffU buffW buffS0 buffHist).dyn.tgts 2 2000 = [1] := by
  have T := worldGraph_ties (u := buffU) (immune := specImmune) (limited := specLimited) (pen := fun _ => 1)
    (by decide)
  obtain ⟨hwf, hun, hR, hU, hC, hT⟩ := buff_wf
  have ok := wrunOK_of_errorFree T _ _ buff_runOK
  have ok5 : WRunOK buffU buffW buffS0 (buffHist.take 5) :=
    ⟨ok.1, ok.2.1, ok.2.2.1, ok.2.2.2.1, ok.2.2.2.2.1, trivial⟩
  refine ⟨by decide, micro_inv_run T hwf hun hR hU hC hT _ ok, by decide +kernel, ?_, by decide +kernel, by decide +kernel,
    by decide +kernel⟩
  -- the `EffectApplied` removed the entry: it only removes entries, and a surviving `100` would contradict
  -- coherence with the from-scratch value `125` of the new registers
  have inv5 := micro_inv_run T hwf hun hR hU hC hT _ ok5
  have hspec : spec (buffW ((wrun buffU buffW buffS0 (buffHist.take 5)).cfg,
      (wrun buffU buffW buffS0 (buffHist.take 5)).dyn)) (1, 37) = some 125 := by decide +kernel
  have sub : Cascade.Sub (wrun buffU buffW buffS0 (buffHist.take 2)).cache
      (wrun buffU buffW buffS0 (buffHist.take 5)).cache :=
    ((mstep_sub (u := buffU) (wrun buffU buffW buffS0 (buffHist.take 2)) (.unapply 2 2000 [])).trans
      (mstep_sub (u := buffU) _ (.buffset 2 2000 [buffMod]))).trans (mstep_sub (u := buffU) _ (.apply 2 2000 [1]))
  rcases sub (1, 37) with h | h
  · exact h
  · have h100 : (wrun buffU buffW buffS0 (buffHist.take 2)).cache (1, 37) = some 100 := by decide +kernel
    have := (inv5.good.coh (1, 37) 100 (h.trans h100)).symm.trans hspec
    exact absurd this (by decide +kernel)

/-! ### Non-vacuity of `world_read_eq_table_buff`: a legal history that ends in a `BuffSettled` state

The fleet of `Lemmas/MicroBuffTable.lean` (`fleetU`, `fleetCfg`: fit 0 with ship 1 and a boosting module 2,
fit 1 with ship 3, same fleet; the module's buff id attribute selects the template "attribute 37 of the boosted
ship × buff value 3/2").  History `fleetHist` from the state "everything loaded, nothing running, nothing
cached": the boost effect starts; the service registers the buff (un-apply from no targets, `buffset` with the
modifier built from the template, apply to both ships); a read of ship 3's attribute 37.  The end state
satisfies `BuffSettled` — the hypothesis is met by a state a legal history reaches —, and the read observes
the table's entry, 100 · 3/2 = 150. -/

def fleetBM : Modifier := ⟨1, 4, none, 37, 6, 1, some 10, 2469⟩
def fleetD0 : Dyn :=
  { loaded := (derivedDyn fleetU fleetCfg).loaded, on := fun _ _ => false, tgts := fun _ _ => [] }
def fleetS0 : MState := ⟨fleetCfg, fleetD0, fun _ => none⟩
abbrev fleetW : Config × Dyn → Graph Node Rat := worldGraph fleetU specImmune specLimited fleetPen (by decide)
def fleetHist : List WStep :=
  [.micro (.start 2 [2000]), .micro (.unapply 2 2000 []), .micro (.buffset 2 2000 [fleetBM]),
   .micro (.apply 2 2000 [1, 3]), .read fun n => n == (3, 37) || n == (2, 2469)]

theorem fleet_wf : rankWF fleetU = true ∧ UniqueAttrs fleetU ∧ ResistWF fleetU ∧ UniqueIds fleetCfg ∧
    ChargeWF fleetCfg ∧ TgtKinds fleetCfg fleetD0 := by
  refine ⟨by decide, by unfold UniqueAttrs; decide, ?_, by unfold UniqueIds; decide, ?_, ?_⟩
  · intro e he r hr
    simp only [fleetU, List.mem_singleton] at he
    subst he; cases hr
  · intro x hx hk
    simp only [fleetCfg, fleetShip1, fleetMod, fleetShip3, List.mem_cons, List.not_mem_nil, or_false] at hx
    rcases hx with rfl | rfl | rfl <;> cases hk
  · intro a e t ht
    simp [targetsOf, fleetD0] at ht

theorem fleet_readLegal (s : MState) (hc : s.cfg = fleetCfg)
    (hd : s.dyn = (wrun fleetU fleetW fleetS0 (fleetHist.take 4)).dyn) :
    Legal fleetW (toState s) (.read fun n => n == (3, 37) || n == (2, 2469)) := by
  intro n hn m hm _
  have : (toState s).cfg = (fleetCfg, (wrun fleetU fleetW fleetS0 (fleetHist.take 4)).dyn) := by
    show (s.cfg, s.dyn) = _; rw [hc, hd]
  rw [this] at hm
  have hdeps : ∀ n, (n == ((3 : Nat), (37 : Int)) || n == (2, 2469)) = true →
      ∀ m ∈ (fleetW (fleetCfg, (wrun fleetU fleetW fleetS0 (fleetHist.take 4)).dyn)).deps n, m = (2, 2469) := by
    intro n hn
    simp only [Bool.or_eq_true, beq_iff_eq] at hn
    rcases hn with rfl | rfl <;> decide +kernel
  left
  rw [hdeps n hn m hm]; rfl

/-- Every event of the history is taken under its side conditions. -/
theorem fleet_runOK : WRunOKE fleetU specImmune specLimited fleetPen fleetW fleetS0 fleetHist := by
  refine ⟨⟨?_, fun _ => ⟨?_, ?_⟩⟩, ⟨trivial, fun _ => ⟨?_, ?_⟩⟩, ⟨?_, fun h => by cases h⟩,
    ⟨?_, fun _ => ⟨?_, ?_⟩⟩, ?_, trivial⟩
  · intro e _; rfl
  all_goals first
    | exact fleet_readLegal _ rfl rfl
    | (unfold ErrorFree; decide +kernel)
    | rfl
    | (intro j hj t ht
       simp only [List.mem_cons, List.not_mem_nil, or_false] at hj
       rcases hj with rfl | rfl <;> (cases ht; rfl))

theorem fleet_item1 : item? fleetCfg 1 = some fleetShip1 := rfl
theorem fleet_item2 : item? fleetCfg 2 = some fleetMod := rfl
theorem fleet_item3 : item? fleetCfg 3 = some fleetShip3 := rfl
theorem fleet_itemN {i : Nat} (h1 : i ≠ 1) (h2 : i ≠ 2) (h3 : i ≠ 3) : item? fleetCfg i = none := by
  simp [item?, fleetCfg, fleetShip1, fleetMod, fleetShip3]; omega

/-- **The end state of the history is `BuffSettled`**: loaded items and running effects as the specification
derives them, the registered modifier is the specification's `buffModifiers` of the module (from the table),
the recorded targets are the two ships of the fleet. -/
theorem fleet_hset : BuffSettled fleetU (wrun fleetU fleetW fleetS0 fleetHist).cfg specImmune specLimited fleetPen
    (wrun fleetU fleetW fleetS0 fleetHist).dyn := by
  show BuffSettled fleetU fleetCfg specImmune specLimited fleetPen (wrun fleetU fleetW fleetS0 fleetHist).dyn
  have r1 : runningEffects fleetU fleetCfg fleetShip1 = [] := by decide +kernel
  have r2 : runningEffects fleetU fleetCfg fleetMod = [⟨2000, 1, none, none, true, []⟩] := by rfl
  have r3 : runningEffects fleetU fleetCfg fleetShip3 = [] := by decide +kernel
  refine BuffSettled.intro rfl ?_ ?_ ?_
  · show (fun j e => if j = 2 ∧ e ∈ [2000] then true else false) = _
    funext j e
    by_cases h1 : j = 1
    · subst h1
      have : runningIds fleetU fleetCfg fleetShip1 = [] := by decide +kernel
      simp [derivedDyn, fleet_item1, this]
    · by_cases h2 : j = 2
      · subst h2
        have : runningIds fleetU fleetCfg fleetMod = [2000] := by decide +kernel
        simp [derivedDyn, fleet_item2, this]
      · by_cases h3 : j = 3
        · subst h3
          have : runningIds fleetU fleetCfg fleetShip3 = [] := by decide +kernel
          simp [derivedDyn, fleet_item3, this]
        · simp [derivedDyn, fleet_itemN h1 h2 h3, h2]
  · intro a ha e he hbf
    simp only [fleetCfg, List.mem_cons, List.not_mem_nil, or_false] at ha
    rcases ha with rfl | rfl | rfl
    · rw [r1] at he; cases he
    · rw [r2] at he; simp only [List.mem_cons, List.not_mem_nil, or_false] at he; subst he; cases hbf
    · rw [r3] at he; cases he
  · intro a ha e he _
    simp only [fleetCfg, List.mem_cons, List.not_mem_nil, or_false] at ha
    rcases ha with rfl | rfl | rfl
    · rw [r1] at he; cases he
    · rw [r2] at he; simp only [List.mem_cons, List.not_mem_nil, or_false] at he; subst he
      refine ⟨⟨[fleetBM], by decide +kernel, List.Perm.of_eq (by decide +kernel)⟩, Or.inr ?_⟩
      have : boostTargets fleetCfg fleetMod.fit = [fleetShip1, fleetShip3] := by rfl
      rw [this]; exact List.Perm.of_eq (by decide +kernel)
    · rw [r3] at he; cases he

/-- `fleetHist` satisfies every hypothesis of `world_read_eq_table_buff` — in a universe with a buff effect —,
and the read of the boosted ship of the *other* fit observes the table's entry. -/
example : observe fleetW (toState (wrun fleetU fleetW fleetS0 fleetHist)) (3, 37) =
    valToOption (World.read (evalAll fleetU fleetCfg specImmune specLimited fleetPen) fleetShip3 37) :=
  world_read_eq_table_buff (by decide) fleet_wf.2.1 fleet_wf.2.2.1 (by decide) fleet_wf.2.2.2.1
    fleet_wf.2.2.2.2.1 fleet_wf.2.2.2.2.2 fleetHist fleet_runOK _ rfl fleet_hset (by decide +kernel)
    (x := fleetShip3) (List.mem_cons_of_mem _ (List.mem_cons_of_mem _ List.mem_cons_self))
    (am := ⟨37, none, none, true, true⟩) (List.mem_cons_of_mem _ (List.mem_cons_of_mem _ List.mem_cons_self))

example : (∃ e ∈ fleetU.effects, e.isBuff = true) ∧
    observe fleetW (toState (wrun fleetU fleetW fleetS0 fleetHist)) (3, 37) = some 150 ∧
    World.read (evalAll fleetU fleetCfg specImmune specLimited fleetPen) fleetShip3 37 = .ok 150 ∧
    (wrun fleetU fleetW fleetS0 fleetHist).cache (3, 37) = some 150 := by
  refine ⟨by decide, by decide +kernel, by decide +kernel, by decide +kernel⟩

/-! ### Non-vacuity of `driver_checked_step_legal`: the driver on the messages of `fleetHist`

The driver starts in `fleetT0` (the state `fleetS0` with an empty table) and processes the four messages of
`fleetHist` with `mdoT`.  In each of the four states the check `stepOKb` evaluates to `true`, the message is of
the form `StepFin`, no calculation divides by zero before or after — the theorem applies four times in a row
(its conclusion `MInv` / `DynFin` is the next application's hypothesis), in a universe with a buff effect. -/

def fleetT0 : TState := ⟨fleetCfg, fleetD0, []⟩
abbrev fleetT1 : TState := mdoT fleetU fleetT0 (.start 2 [2000])
abbrev fleetT2 : TState := mdoT fleetU fleetT1 (.unapply 2 2000 [])
abbrev fleetT3 : TState := mdoT fleetU fleetT2 (.buffset 2 2000 [fleetBM])
abbrev fleetT4 : TState := mdoT fleetU fleetT3 (.apply 2 2000 [1, 3])

theorem fleet_dynFin0 : DynFin fleetU fleetCfg fleetD0 := by
  refine ⟨fun i h => ?_, fun i e h => (by cases h), fun i e h => absurd rfl h, fun i e h => absurd rfl h⟩
  have h' : (match item? fleetCfg i with | some x => World.loaded fleetU fleetCfg x | none => false) = true := h
  cases hx : item? fleetCfg i with
  | none => rw [hx] at h'; cases h'
  | some x => exact ⟨x, item?_mem hx, item?_id hx⟩

/-- The check passes in each of the four states (evaluated by the kernel). -/
example : stepOKb fleetU fleetT0 (.start 2 [2000]) = true ∧ stepOKb fleetU fleetT1 (.unapply 2 2000 []) = true ∧
    stepOKb fleetU fleetT2 (.buffset 2 2000 [fleetBM]) = true ∧
    stepOKb fleetU fleetT3 (.apply 2 2000 [1, 3]) = true ∧
    -- and it is not constantly `true`: stopping the boost while it is applied, applying it to the module, or
    -- unloading a boosted ship are rejected in the final state
    stepOKb fleetU fleetT4 (.stop 2 [2000]) = false ∧ stepOKb fleetU fleetT4 (.apply 2 2000 [2]) = false ∧
    stepOKb fleetU fleetT4 (.unload 3) = false ∧ stepOKb fleetU fleetT4 (.unload 2) = false := by
  refine ⟨by decide +kernel, by decide +kernel, by decide +kernel, by decide +kernel, by decide +kernel,
    by decide +kernel, by decide +kernel, by decide +kernel⟩

/-- The hypothesis `StepFin` is decided by `stepFinb` (`stepFinb_iff`); it evaluates to `true` on the four
messages, and to `false` for an effect the module's type does not list. -/
example : stepFinb fleetU fleetT0 (.start 2 [2000]) = true ∧ stepFinb fleetU fleetT1 (.unapply 2 2000 []) = true ∧
    stepFinb fleetU fleetT2 (.buffset 2 2000 [fleetBM]) = true ∧
    stepFinb fleetU fleetT3 (.apply 2 2000 [1, 3]) = true ∧ stepFinb fleetU fleetT0 (.start 2 [2001]) = false ∧
    StepFin fleetU fleetT3.cfg fleetT3.dyn (.apply 2 2000 [1, 3]) :=
  ⟨by decide +kernel, by decide +kernel, by decide +kernel, by decide +kernel, by decide +kernel,
    (stepFinb_iff (fun _ h => by cases h)).1 (by decide +kernel)⟩

example : MInv fleetW fleetT4.toM ∧ DynFin fleetU fleetT4.cfg fleetT4.dyn ∧
    fleetT4.toM = wrun fleetU fleetW fleetS0 (fleetHist.take 4) ∧
    fleetT4.dyn.tgts 2 2000 = [1, 3] ∧ fleetT4.dyn.bspecs 2 2000 = [fleetBM] := by
  have T := worldGraph_ties (u := fleetU) (immune := specImmune) (limited := specLimited) (pen := fleetPen)
    (by decide)
  obtain ⟨hwf, hun, hR, hU, hC, hT⟩ := fleet_wf
  have named : Named fleetU fleetCfg 2 2000 :=
    ⟨fleetMod, List.mem_cons_of_mem _ List.mem_cons_self, rfl, by decide⟩
  have inv0 : MInv fleetW fleetT0.toM := micro_inv_init hU hC hT
  obtain ⟨_, e1, _, _, inv1, fin1⟩ := driver_checked_step_legal_of_errorFree T hwf hun hR
    (s := fleetT0) fleet_dynFin0 inv0 (st := .start 2 [2000]) (fun _ h => by cases h) (by decide +kernel)
    (fun e he => by rw [List.mem_singleton.1 he]; exact named)
    (fun _ => ⟨by unfold ErrorFree; decide +kernel, by unfold ErrorFree; decide +kernel⟩)
  obtain ⟨_, e2, _, _, inv2, fin2⟩ := driver_checked_step_legal_of_errorFree T hwf hun hR
    (s := fleetT1) fin1 inv1 (st := .unapply 2 2000 []) (fun _ h => by cases h) (by decide +kernel) trivial
    (fun _ => ⟨by unfold ErrorFree; decide +kernel, by unfold ErrorFree; decide +kernel⟩)
  obtain ⟨_, e3, _, _, inv3, fin3⟩ := driver_checked_step_legal_of_errorFree T hwf hun hR
    (s := fleetT2) fin2 inv2 (st := .buffset 2 2000 [fleetBM]) (fun _ h => by cases h) (by decide +kernel)
    (fun _ => named) (fun h => by cases h)
  obtain ⟨_, e4, _, _, inv4, fin4⟩ := driver_checked_step_legal_of_errorFree T hwf hun hR
    (s := fleetT3) fin3 inv3 (st := .apply 2 2000 [1, 3]) (fun _ h => by cases h) (by decide +kernel)
    (fun _ => named)
    (fun _ => ⟨by unfold ErrorFree; decide +kernel, by unfold ErrorFree; decide +kernel⟩)
  refine ⟨inv4, fin4, ?_, by decide +kernel, by decide +kernel⟩
  have hw : wrun fleetU fleetW fleetS0 (fleetHist.take 4) =
      mstep fleetU (mstep fleetU (mstep fleetU (mstep fleetU fleetT0.toM (.start 2 [2000])) (.unapply 2 2000 []))
        (.buffset 2 2000 [fleetBM])) (.apply 2 2000 [1, 3]) := rfl
  rw [hw, e4, e3, e2, e1]

/-! ## Whole driver runs

The correspondence harness feeds `Driver/Micro.lean` a list of lines: message lines (`ML MU MS MT MA MN BS MC` —
`mdoT`), `RC` (the configuration is replaced, registers and table stay — *no* re-packing), `MR` (public read,
`readStepT`).  `DStep` / `drun` are exactly that; `checkedRun` is what the driver evaluates on the way
(`stepOKb`, `stepFinb` for messages; `rcFinb` for `RC`); `driver_checked_run_legal` lifts
`driver_checked_step_legal` to such runs. -/

/-- One line of the driver's input that touches the message-level state. -/
inductive DStep
  /-- `ML MU MS MT MA MN BS MC`: a message, processed by `mdoT` -/
  | msg (st : MStep)
  /-- `RC`: the configuration parsed so far becomes current -/
  | rc (cfg' : Config)
  /-- `MR i a`: public read -/
  | rd (i : Nat) (a : Int)

section run
variable (u) (immune limited : List Int) (pen : Nat → Rat)

/-- What `Driver/Micro.lean` (`mstepLine`) does to its `TState` for one such line. -/
def dstep (s : TState) : DStep → TState
  | .msg st => mdoT u s st
  | .rc cfg' => { s with cfg := cfg' }
  | .rd i a => (readStepT u immune limited pen s i a).1

def drun (s : TState) (steps : List DStep) : TState := steps.foldl (dstep u immune limited pen) s

def isReconfig : MStep → Bool
  | .reconfig _ => true
  | _ => false

/-- The executable check of one line in the state it is executed in: a message (never a `reconfig`: the driver
has no such line) passes `stepOKb` and `stepFinb`, an `RC` passes `rcFinb`. -/
def dcheck (s : TState) : DStep → Bool
  | .msg st => !isReconfig st && stepOKb u s st && stepFinb u s st
  | .rc cfg' => rcFinb u s cfg'
  | .rd _ _ => true

/-- Every line of the run passes its executable check (threaded through `dstep`). -/
def checkedRun : TState → List DStep → Bool
  | _, [] => true
  | s, st :: rest => dcheck u s st && checkedRun (dstep u immune limited pen s st) rest

/-- The side conditions of one line that are *not* executable (not evaluated by the driver):
* message: no attribute calculation of the state before and after divides by zero (load / unload / start / stop /
  apply / unapply only; discharges `StaticAround`);
* `RC`: the `reconfig` clause of `StepOK` — the new configuration has unique item ids, charges in modules of
  their own fit, recorded targets are still solar-system items, and the change is invisible to every cached node
  (same dependencies, same evaluation, same presence of the dependencies' values);
* read: no calculation of the state divides by zero, and `ResistSrcOK` (a resisted affector spec whose source
  attribute reads as absent has no resistance value either; see `gapU` in `Lemmas/MicroExec.lean`). -/
def DSideOK (hwf : rankWF u = true) (s : TState) : DStep → Prop
  | .msg st => usesStatic st = true →
      ErrorFree u immune limited pen (worldGraph u immune limited pen hwf) s.cfg s.dyn ∧
      ErrorFree u immune limited pen (worldGraph u immune limited pen hwf) (mdoT u s st).cfg (mdoT u s st).dyn
  | .rc cfg' => StepOK (worldGraph u immune limited pen hwf) s.toM (.reconfig cfg')
  | .rd _ _ => ErrorFree u immune limited pen (worldGraph u immune limited pen hwf) s.cfg s.dyn ∧
      ResistSrcOK u s.cfg s.dyn (spec (worldGraph u immune limited pen hwf (s.cfg, s.dyn)))

/-- The non-executable side conditions along a run (one predicate, threaded through `dstep`). -/
def RunSideOK (hwf : rankWF u = true) : TState → List DStep → Prop
  | _, [] => True
  | s, st :: rest => DSideOK u immune limited pen hwf s st ∧
      RunSideOK hwf (dstep u immune limited pen s st) rest

end run

/-- The event of the histories above (`WStep`) a driver line is: a message is itself, `RC` is the `reconfig`
message, a read is the read event of *some* set of nodes (the set the read fills). -/
inductive DMatch : DStep → WStep → Prop
  | msg (st : MStep) : DMatch (.msg st) (.micro st)
  | rc (cfg' : Config) : DMatch (.rc cfg') (.micro (.reconfig cfg'))
  | rd (i : Nat) (a : Int) (S : Node → Bool) : DMatch (.rd i a) (.read S)

theorem isReconfig_false {st : MStep} (h : isReconfig st = false) : ∀ cfg', st ≠ .reconfig cfg' := by
  intro cfg' he; rw [he] at h; cases h

theorem readStepT_cfg_dyn (s : TState) (i : Nat) (a : Int) :
    (readStepT u immune limited pen s i a).1.cfg = s.cfg ∧ (readStepT u immune limited pen s i a).1.dyn = s.dyn := by
  unfold readStepT
  cases item? s.cfg i <;> exact ⟨rfl, rfl⟩

/-- One checked line of the driver is an event of the model taken under its side conditions; invariant and
register form are kept. -/
theorem driver_checked_dstep (hwf : rankWF u = true) (hun : UniqueAttrs u) (hR : ResistWF u) {s : TState}
    (hfin : DynFin u s.cfg s.dyn) (inv : MInv (worldGraph u immune limited pen hwf) s.toM) (st : DStep)
    (hchk : dcheck u s st = true) (hside : DSideOK u immune limited pen hwf s st) :
    ∃ w, DMatch st w ∧ WStepOK u (worldGraph u immune limited pen hwf) s.toM w ∧
      (dstep u immune limited pen s st).toM = wstep u (worldGraph u immune limited pen hwf) s.toM w ∧
      MInv (worldGraph u immune limited pen hwf) (dstep u immune limited pen s st).toM ∧
      DynFin u (dstep u immune limited pen s st).cfg (dstep u immune limited pen s st).dyn := by
  have T := worldGraph_ties (immune := immune) (limited := limited) (pen := pen) hwf
  cases st with
  | msg st =>
    simp only [dcheck, Bool.and_eq_true, Bool.not_eq_true'] at hchk
    obtain ⟨⟨hr, hb⟩, hf⟩ := hchk
    have hst := isReconfig_false hr
    have hsf := (stepFinb_iff hst).1 hf
    obtain ⟨ok, h1, _, _, inv', fin'⟩ :=
      driver_checked_step_legal_of_errorFree T hwf hun hR hfin inv hst hb hsf hside
    refine ⟨.micro st, .msg st, ⟨ok, fun hs => ⟨staticAt_of_errorFree T (hside hs).1, ?_⟩⟩, h1, inv', fin'⟩
    rw [← h1]
    exact staticAt_of_errorFree T (hside hs).2
  | rc cfg' =>
    have ok : WStepOK u (worldGraph u immune limited pen hwf) s.toM (.micro (.reconfig cfg')) :=
      ⟨hside, fun h => by cases h⟩
    exact ⟨.micro (.reconfig cfg'), .rc cfg', ok, rfl, micro_inv_step T hwf hun hR inv _ ok, rcFinb_sound hfin hchk⟩
  | rd i a =>
    obtain ⟨S, hl, he⟩ := driver_read_refines_partial hwf inv hside.1 hside.2 i a
    refine ⟨.read S, .rd i a S, hl, he, ?_, ?_⟩
    · show MInv _ (readStepT u immune limited pen s i a).1.toM
      rw [he]; exact micro_inv_step T hwf hun hR inv _ hl
    · show DynFin u (readStepT u immune limited pen s i a).1.cfg (readStepT u immune limited pen s i a).1.dyn
      rw [(readStepT_cfg_dyn s i a).1, (readStepT_cfg_dyn s i a).2]; exact hfin

/-- **A checked run of the driver is a legal history of the model.**  `s` is a driver state with registers of the
form `DynFin` that satisfies the invariant `MInv` (e.g. the driver's initial state, `driver_init_ok`); `steps` is
the list of lines the harness sends (messages, `RC`, `MR`).

Executable hypothesis — evaluated by the driver at run time, a violation is printed (`illegal …` / `unnamed …`):
`checkedRun … s steps = true`: every message passes `stepOKb` (the side conditions `StepOK`) and `stepFinb` (it
names a configured item and effects of its type), every `RC` passes `rcFinb` (what the registers hold is still
named in the new configuration; the driver does not re-pack registers at `RC`).

Non-executable hypotheses — *not* checked by the driver — are the one predicate `RunSideOK … s steps`, i.e. in the
state each line is executed in (`DSideOK`):
* around load / unload / start / stop / apply / unapply: no attribute calculation divides by zero (`ErrorFree`
  before and after);
* at `RC`: the `reconfig` clause of `StepOK` (`UniqueIds`, `ChargeWF`, `TgtKinds` of the new configuration; the
  change is invisible to the cached nodes);
* at a read: `ErrorFree` and `ResistSrcOK`;
together with the hypotheses on the universe: `rankWF`, `UniqueAttrs`, `ResistWF`.

Conclusion: there is a history `ws` of the model, line by line the driver's (`DMatch`: message ↦ itself, `RC` ↦
`reconfig`, read ↦ the read event of the set of nodes it fills), that satisfies `WRunOK`, and the driver's final
state is the model's (`wrun`); `MInv` — hence every read returns the from-scratch value of the current
registers — and `DynFin` hold in the driver's final state. -/
theorem driver_checked_run_legal (hwf : rankWF u = true) (hun : UniqueAttrs u) (hR : ResistWF u) :
    ∀ (steps : List DStep) (s : TState), DynFin u s.cfg s.dyn → MInv (worldGraph u immune limited pen hwf) s.toM →
      checkedRun u immune limited pen s steps = true → RunSideOK u immune limited pen hwf s steps →
      ∃ ws : List WStep, List.Forall₂ DMatch steps ws ∧
        WRunOK u (worldGraph u immune limited pen hwf) s.toM ws ∧
        (drun u immune limited pen s steps).toM = wrun u (worldGraph u immune limited pen hwf) s.toM ws ∧
        MInv (worldGraph u immune limited pen hwf) (drun u immune limited pen s steps).toM ∧
        DynFin u (drun u immune limited pen s steps).cfg (drun u immune limited pen s steps).dyn
  | [], s, hfin, inv, _, _ => ⟨[], .nil, trivial, rfl, inv, hfin⟩
  | st :: rest, s, hfin, inv, hchk, hside => by
    have hchk' : (dcheck u s st && checkedRun u immune limited pen (dstep u immune limited pen s st) rest) = true :=
      hchk
    rw [Bool.and_eq_true] at hchk'
    obtain ⟨w, hm, hok, he, inv', fin'⟩ := driver_checked_dstep hwf hun hR hfin inv st hchk'.1 hside.1
    obtain ⟨ws, hms, hoks, hes, invF, finF⟩ :=
      driver_checked_run_legal hwf hun hR rest (dstep u immune limited pen s st) fin' inv' hchk'.2 hside.2
    refine ⟨w :: ws, .cons hm hms, ⟨hok, he ▸ hoks⟩, ?_, invF, finF⟩
    show (drun u immune limited pen (dstep u immune limited pen s st) rest).toM =
      wrun u (worldGraph u immune limited pen hwf) (wstep u (worldGraph u immune limited pen hwf) s.toM w) ws
    rw [hes, he]

/-- The driver's initial state (and its state after an `X` line) — empty configuration, empty registers, empty
table — has registers of the form `DynFin` and satisfies the invariant. -/
theorem driver_init_ok :
    DynFin u ({} : Config) { loaded := fun _ => false, on := fun _ _ => false, tgts := fun _ _ => [] } ∧
    MInv W (TState.toM ⟨{}, { loaded := fun _ => false, on := fun _ _ => false, tgts := fun _ _ => [] }, []⟩) := by
  refine ⟨⟨fun i h => (by cases h), fun i e h => (by cases h), fun i e h => absurd rfl h, fun i e h => absurd rfl h⟩,
    micro_inv_init (by unfold UniqueIds; exact List.nodup_nil) (fun x hx => (by cases hx)) ?_⟩
  intro a e t ht
  simp [targetsOf] at ht

/-- A settled state whose table has no `divZero` entry has no calculation that divides by zero. -/
theorem errorFree_of_buffSettled (hwf : rankWF u = true) (hun : UniqueAttrs u) {cfg : Config} (hc : UniqueIds cfg)
    (hnp : ∀ e ∈ u.effects, e.isBuff = true → e.category ≠ 2) {d : Dyn}
    (hd : BuffSettled u cfg immune limited pen d)
    (hnz : ∀ entry ∈ evalAll u cfg immune limited pen, entry.2 ≠ .divZero) :
    ErrorFree u immune limited pen (worldGraph u immune limited pen hwf) cfg d := by
  intro x hx am ham
  obtain ⟨pre, post, hsplit⟩ := List.append_of_mem ham
  obtain ⟨heq, hne⟩ := settled_core_gen hwf hun hc (buffSettled_hval hwf hun hc hnp hd) (Or.inl hnz) pre.length
    pre am post hsplit rfl x hx
  rw [spec_worldGraph, ← heq]
  exact hne

/-- **What the driver prints for a read in a settled state is the entry of the specification's table.**  State
with the invariant `MInv` that is `BuffSettled`, table without `divZero`: for a configured item `y` (`MR i a` with
`item? cfg i = some y`) and an attribute with metadata, the value `readStepT` returns — the one the driver
prints and the harness compares with the real code's `attrs[a]` — is `World.read` of `World.evalAll`. -/
theorem driver_settled_read_eq_table (hwf : rankWF u = true) (hun : UniqueAttrs u)
    (hnp : ∀ e ∈ u.effects, e.isBuff = true → e.category ≠ 2) {s : TState}
    (inv : MInv (worldGraph u immune limited pen hwf) s.toM)
    (hset : BuffSettled u s.cfg immune limited pen s.dyn)
    (hnz : ∀ entry ∈ evalAll u s.cfg immune limited pen, entry.2 ≠ .divZero)
    {i : Nat} {y : Item} (hy : item? s.cfg i = some y) {am : AttrMeta} (ham : am ∈ u.attrs) :
    (readStepT u immune limited pen s i am.id).2 = World.read (evalAll u s.cfg immune limited pen) y am.id := by
  have hU : UniqueIds s.cfg := inv.uniq
  have hef := errorFree_of_buffSettled hwf hun hU hnp hset hnz
  rw [(driver_read_value hwf inv hef hy am.id).1]
  have hsp := settled_spec_eq_table_buff hwf hun hU hnp hnz hset (item?_mem hy) ham
  have hnd : World.read (evalAll u s.cfg immune limited pen) y am.id ≠ .divZero :=
    (settled_spec_eq_table_buff_of_errorFree hwf hun hU hnp hset hef (item?_mem hy) ham).2
  have hnw : World.read (evalAll u s.cfg immune limited pen) y am.id ≠ .notWF :=
    read_ne_notWF (evalAll_tableOK ((rankWF_iff u).1 hwf) immune limited pen).1 y am.id
  by_cases hov : (y.kind == .skill && am.id == 280) = true
  · unfold readerOf World.read; rw [if_pos hov, if_pos hov]; cases y.level <;> rfl
  · have hmeta : ¬ ((attrMeta? u am.id).isNone = true) := by rw [attrMeta?_of_mem hun ham]; simp
    unfold readerOf
    rw [if_neg hov, if_neg hmeta, hsp]
    cases hr : World.read (evalAll u s.cfg immune limited pen) y am.id with
    | ok v => rfl
    | absent => rfl
    | divZero => exact absurd hr hnd
    | notWF => exact absurd hr hnw

/-- **Corollary: a checked driver run that ends in a settled state prints table entries.**  Hypotheses of
`driver_checked_run_legal` (executable: `checkedRun`; non-executable: `RunSideOK`, `rankWF`, `UniqueAttrs`,
`ResistWF`) plus, non-executable as well: no fleet-boost effect is also projectable (`hnp`), the final state is
`BuffSettled` (the harness compares exactly this with the real service: driver command `QB`), and the table of the
final configuration has no `divZero` entry.  Then a final `MR i a` for a configured item and an attribute with
metadata prints `World.read (evalAll …)`. -/
theorem driver_checked_run_reads_table (hwf : rankWF u = true) (hun : UniqueAttrs u) (hR : ResistWF u)
    (hnp : ∀ e ∈ u.effects, e.isBuff = true → e.category ≠ 2) {s : TState} (hfin : DynFin u s.cfg s.dyn)
    (inv : MInv (worldGraph u immune limited pen hwf) s.toM) (steps : List DStep)
    (hchk : checkedRun u immune limited pen s steps = true) (hside : RunSideOK u immune limited pen hwf s steps)
    (sF : TState) (hF : drun u immune limited pen s steps = sF)
    (hset : BuffSettled u sF.cfg immune limited pen sF.dyn)
    (hnz : ∀ entry ∈ evalAll u sF.cfg immune limited pen, entry.2 ≠ .divZero)
    {i : Nat} {y : Item} (hy : item? sF.cfg i = some y) {am : AttrMeta} (ham : am ∈ u.attrs) :
    (readStepT u immune limited pen sF i am.id).2 = World.read (evalAll u sF.cfg immune limited pen) y am.id := by
  subst hF
  obtain ⟨_, _, _, _, invF, _⟩ := driver_checked_run_legal hwf hun hR steps s hfin inv hchk hside
  exact driver_settled_read_eq_table hwf hun hnp invF hset hnz hy ham

/-- A history of messages only is matched by itself. -/
theorem dmatch_msgs : ∀ (l : List MStep) (ws : List WStep), List.Forall₂ DMatch (l.map .msg) ws →
    ws = l.map .micro
  | [], _, h => by cases h; rfl
  | st :: l, _, h => by
    cases h with
    | cons h1 h2 => cases h1; rw [dmatch_msgs l _ h2]; rfl

/-! ### Non-vacuity of the run theorems: the fleet history as driver lines

`fleetDSteps`: the four messages of `fleetHist` and the read `MR 3 37`, from the driver state `fleetT0`.
`checkedRun` evaluates to `true`; `RunSideOK` holds (no calculation divides by zero; the universe has no resisted
effect, so `ResistSrcOK` is vacuous); the run theorem applies; the final state is `BuffSettled`, and a final
`MR 3 37` prints the table's entry, 150. -/

def fleetDSteps : List DStep :=
  [.msg (.start 2 [2000]), .msg (.unapply 2 2000 []), .msg (.buffset 2 2000 [fleetBM]),
   .msg (.apply 2 2000 [1, 3]), .rd 3 37]

abbrev fleetT5 : TState := drun fleetU specImmune specLimited fleetPen fleetT0 fleetDSteps

theorem fleet_checkedRun : checkedRun fleetU specImmune specLimited fleetPen fleetT0 fleetDSteps = true := by
  decide +kernel

/-- ... and the check is not constantly `true`: an `RC` to a configuration without the boosting module, or
without a boosted ship, is rejected after the boost was applied; so is a `reconfig` message. -/
example : checkedRun fleetU specImmune specLimited fleetPen fleetT4 [.rc { fleetCfg with items := [fleetShip1, fleetShip3] }]
      = false ∧
    checkedRun fleetU specImmune specLimited fleetPen fleetT4 [.rc { fleetCfg with items := [fleetShip1, fleetMod] }]
      = false ∧
    checkedRun fleetU specImmune specLimited fleetPen fleetT4 [.rc fleetCfg] = true ∧
    checkedRun fleetU specImmune specLimited fleetPen fleetT4 [.msg (.reconfig fleetCfg)] = false := by
  refine ⟨by decide +kernel, by decide +kernel, by decide +kernel, by decide +kernel⟩

theorem fleet_sideOK :
    RunSideOK fleetU specImmune specLimited fleetPen (by decide) fleetT0 fleetDSteps := by
  refine ⟨fun _ => ⟨?_, ?_⟩, fun _ => ⟨?_, ?_⟩, fun h => (by cases h), fun _ => ⟨?_, ?_⟩, ⟨?_, ?_⟩, trivial⟩
  all_goals first
    | (unfold ErrorFree; decide +kernel)
    | (intro x _ tx _ attr sp hsp c r hr
       have he := (running_mem (specsOn_mem hsp).2.1).1
       simp only [fleetU, List.mem_cons, List.not_mem_nil, or_false] at he
       rw [he] at hr; cases hr)

/-- The run theorem applies to the driver's run; the driver's state is the model's after `fleetHist`'s messages and
a read event. -/
example : ∃ ws : List WStep, List.Forall₂ DMatch fleetDSteps ws ∧ WRunOK fleetU fleetW fleetT0.toM ws ∧
    fleetT5.toM = wrun fleetU fleetW fleetT0.toM ws ∧ MInv fleetW fleetT5.toM ∧
    DynFin fleetU fleetT5.cfg fleetT5.dyn :=
  driver_checked_run_legal (by decide) fleet_wf.2.1 fleet_wf.2.2.1 fleetDSteps fleetT0 fleet_dynFin0
    (micro_inv_init fleet_wf.2.2.2.1 fleet_wf.2.2.2.2.1 fleet_wf.2.2.2.2.2) fleet_checkedRun fleet_sideOK

/-- The four messages alone: the driver's state is the model's after the messages of `fleetHist`. -/
theorem fleetT4_toM : fleetT4.toM = wrun fleetU fleetW fleetS0 (fleetHist.take 4) := by
  obtain ⟨ws, hm, _, he, _, _⟩ := driver_checked_run_legal (immune := specImmune) (limited := specLimited)
    (pen := fleetPen) (by decide) fleet_wf.2.1 fleet_wf.2.2.1 (fleetDSteps.take 4) fleetT0 fleet_dynFin0
    (micro_inv_init fleet_wf.2.2.2.1 fleet_wf.2.2.2.2.1 fleet_wf.2.2.2.2.2) (by decide +kernel)
    ⟨fleet_sideOK.1, fleet_sideOK.2.1, fleet_sideOK.2.2.1, fleet_sideOK.2.2.2.1, trivial⟩
  have := dmatch_msgs [.start 2 [2000], .unapply 2 2000 [], .buffset 2 2000 [fleetBM], .apply 2 2000 [1, 3]] ws hm
  rw [this] at he
  exact he

theorem fleetT5_settled : BuffSettled fleetU fleetT5.cfg specImmune specLimited fleetPen fleetT5.dyn := by
  have hc : fleetT5.cfg = fleetCfg := (readStepT_cfg_dyn fleetT4 3 37).1
  have hd : fleetT5.dyn = (wrun fleetU fleetW fleetS0 fleetHist).dyn :=
    (readStepT_cfg_dyn fleetT4 3 37).2.trans (congrArg MState.dyn fleetT4_toM)
  rw [hc, hd]
  exact fleet_hset

/-- **The value the driver prints for a final `MR 3 37` after the checked run is the table's entry, 150.** -/
example : (readStepT fleetU specImmune specLimited fleetPen fleetT5 3 37).2 = .ok 150 := by
  have h := driver_checked_run_reads_table (immune := specImmune) (limited := specLimited) (pen := fleetPen)
    (by decide) fleet_wf.2.1 fleet_wf.2.2.1 (by decide) fleet_dynFin0
    (micro_inv_init fleet_wf.2.2.2.1 fleet_wf.2.2.2.2.1 fleet_wf.2.2.2.2.2) fleetDSteps fleet_checkedRun fleet_sideOK
    fleetT5 rfl fleetT5_settled (by decide +kernel) (i := 3) (y := fleetShip3)
    ((congrArg (fun c => item? c 3) (show fleetT5.cfg = fleetCfg from (readStepT_cfg_dyn fleetT4 3 37).1)).trans
      fleet_item3)
    (am := ⟨37, none, none, true, true⟩) (List.mem_cons_of_mem _ (List.mem_cons_of_mem _ List.mem_cons_self))
  rw [h]
  decide +kernel

end Eos.C01World
