import EosModel.Restrictions
import EosModel.RestrictionTable
import EosGen.RestrictionMaps
import EosProofs.Lemmas.Toggle
import EosProofs.Lemmas.RestrRegisters
import EosProofs.Lemmas.RestrSpec
import EosProofs.Lemmas.RestrLive
/-! # C03 — validation equals the stateless restriction rules and reports only real items

Property theorems only.  `EosGen.RestrictionMaps` is regenerated from `eos/restriction/**`,
`eos/stats/**` and `eos/const/eos.py` on every run.

Reading guide: `validateSpec cfg skip` is the stateless reading of the 34 restriction docstrings over
a snapshot; `validateImpl regs cfg skip` is what `RestrictionService.validate` computes from the 15
registers that a message history left behind.  The per-item checks of the register-based
restrictions and the 19 register-free restrictions are the same definitions on both sides (they are
tied to the code by the correspondence run and by the regenerated tables below, not by a theorem).

Full statement over histories of public API calls:
  `∀ ops skip, validate (run ops) skip = validateSpec (config (run ops)) skip`.
The layer "API call ↦ published messages" (containers, `MsgHelper`, effect status) is the world model
of C01 and is not rebuilt here; it enters through its two consequences, which are hypotheses below:
`WFHist` (the message stream respects the load / state / effect protocol) and `Agree μ cfg` (the
stream and the public snapshot describe the same loaded items, states and running effects).  Both are
decidable and are checked by the model on every step of every history the correspondence run
observes on a real `Fit`. -/
namespace Eos.C03
open Eos.Restr Eos.Toggle

-- the generated tables are lists of 5-tuples: equality needs a deeper instance search than the default
set_option synthInstance.maxSize 2048

/-! ## Regenerated obligations: what the code says now equals the specification tables -/

/-- The `Restriction` enum of the source is the one the specification numbers its 34 types by. -/
theorem gen_enum_eq_spec : EosGen.RestrictionMaps.restrictionEnum = Table.restrictionEnum := by decide

/-- ... and the model's `RType.toNat` follows that enum, in order, without gaps or repeats. -/
theorem enum_matches_model : Table.restrictionEnum.map (·.2) = RType.all.map RType.toNat := by decide

/-- Every restriction class registered by the service has the documented `type`, listens to exactly
the message pair its register predicate needs (none for the 19 register-free ones), and mentions
exactly the attribute / effect / state constants, item classes, stat and container of the spec. -/
theorem gen_restrictions_eq_spec : EosGen.RestrictionMaps.restrictions = Table.restrictions := by decide

/-- The 11 stat registers the restrictions read: message pairs and constants as specified. -/
theorem gen_statRegisters_eq_spec : EosGen.RestrictionMaps.statRegisters = Table.statRegisters := by decide

/-- Slot statistics count the documented container against the documented ship attribute. -/
theorem gen_slotStats_eq_spec : EosGen.RestrictionMaps.slotStats = Table.slotStats := by decide

/-- `CLASS_VALIDATORS` translated from the source equals the specification's class table. -/
theorem gen_classValidators_eq_spec : EosGen.RestrictionMaps.classValidators = Table.classValidators := by decide

/-- The 15 stateful restriction types are exactly the ones with a non-empty handler map. -/
theorem stateful_iff_handlers :
    (EosGen.RestrictionMaps.restrictions.filter (fun r => !r.2.2.1.isEmpty)).map (·.2.1) =
    (RType.all.filter (RType.stateful.contains ·)).map RType.toNat := by decide

/-! ## Registers stay exact after any history -/

/-- **registers_eq_derived** (the 15 instances of `toggle_register`): after ANY message history that
respects the protocol of `MsgHelper`, every restriction register holds exactly
`{i | loaded i ∧ (state / effect flag of the register) i ∧ P i}`, each item once, with the data the
handler stored for it - and unloaded items carry no states or effects. By induction on the history. -/
theorem registers_eq_derived (h : List Msg) :
    ∀ (μ : Micro) (regs : Regs), μ.Clean → RegsInv μ regs → WFHist μ h →
      RegsInv (runHist (μ, regs) h).1 (runHist (μ, regs) h).2 ∧ (runHist (μ, regs) h).1.Clean := by
  induction h with
  | nil => intro μ regs hc hi _; exact ⟨hi, hc⟩
  | cons m h ih =>
    intro μ regs hc hi hw
    exact ih _ _ (clean_step hc hw.1) (regsInv_step hc hi hw.1) hw.2

/-- The same from the empty fit. -/
theorem registers_eq_derived_init (h : List Msg) (hw : WFHist {} h) :
    RegsInv (runHist ({}, Regs.empty) h).1 (runHist ({}, Regs.empty) h).2 :=
  (registers_eq_derived h {} Regs.empty clean_empty regsInv_empty hw).1

/-- One register, spelled out: membership is the derived predicate. -/
theorem register_mem_iff (h : List Msg) (hw : WFHist {} h) (t : RType) (i : Nat) (d : Payload) :
    (i, d) ∈ (runHist ({}, Regs.empty) h).2 t ↔ derived (regSpec t) (runHist ({}, Regs.empty) h).1 i = some d :=
  (registers_eq_derived_init h hw t).1 i d

/-! ## Validation -/

/-- **validate_eq_spec**: with registers as any well-formed history leaves them and a snapshot that
agrees with that history about which items are loaded with which type, state and running effects,
the register-based validation reports exactly what the stateless specification reports (as sets of
`item ↦ type ↦ data` entries; the code iterates over hash sets, so order is not part of the result). -/
theorem validate_eq_spec {μ : Micro} {regs : Regs} {cfg : Snapshot} (hi : RegsInv μ regs) (ha : Agree μ cfg)
    (skip : List RType) : (validateImpl regs cfg skip).Perm (validateSpec cfg skip) :=
  validateWith_perm (fun t => rule_perm t (regs_perm hi ha t) cfg) skip

/-- ... in particular after any history from the empty fit. -/
theorem validate_eq_spec_history (h : List Msg) (hw : WFHist {} h) {cfg : Snapshot}
    (ha : Agree (runHist ({}, Regs.empty) h).1 cfg) (skip : List RType) :
    (validateImpl (runHist ({}, Regs.empty) h).2 cfg skip).Perm (validateSpec cfg skip) :=
  validate_eq_spec (registers_eq_derived_init h hw) ha skip

/-- **validate_skip**: skipping restrictions omits exactly their entries and changes no other entry. -/
theorem validate_skip (cfg : Snapshot) (skip : List RType) :
    validateSpec cfg skip = (validateSpec cfg []).filter (fun e => !skip.contains e.2.1) :=
  validateWith_skip _ skip

/-- The same for the register-based service loop. -/
theorem validate_skip_impl (regs : Regs) (cfg : Snapshot) (skip : List RType) :
    validateImpl regs cfg skip = (validateImpl regs cfg []).filter (fun e => !skip.contains e.2.1) :=
  validateWith_skip _ skip

/-- No entry of a skipped type is ever reported. -/
theorem skipped_absent {cfg : Snapshot} {skip : List RType} {e : Nat × RType × ErrData}
    (h : e ∈ validateSpec cfg skip) : skip.contains e.2.1 = false :=
  (mem_validateWith h).2

/-- **validate_keys_live**: every reported key is an item currently on the fit (placed in a slot or
container, or the charge of such an item) - in particular never a rack hole, which is not an id. -/
theorem validate_keys_live {cfg : Snapshot} (hwf : cfg.WF) {skip : List RType} {e : Nat × RType × ErrData}
    (h : e ∈ validateSpec cfg skip) : e.1 ∈ cfg.onFit := by
  rcases rule_key e.2.1 cfg (mem_validateWith h).1 with h1 | h1
  · exact (hwf.2 _).1 h1
  · exact placed_sub_onFit h1

/-- Rack holes are not on the fit: `onFit` only lists the `some` entries of the racks. -/
theorem hole_not_reported {cfg : Snapshot} (hwf : cfg.WF) {skip : List RType} {e : Nat × RType × ErrData}
    (h : e ∈ validateSpec cfg skip) : ∃ it ∈ cfg.items, it.id = e.1 := by
  have := (hwf.2 _).2 (validate_keys_live hwf h)
  obtain ⟨it, hit, hid⟩ := List.mem_map.1 this
  exact ⟨it, hit, hid⟩

/-- The register-based validation inherits key liveness. -/
theorem impl_keys_live {μ : Micro} {regs : Regs} {cfg : Snapshot} (hi : RegsInv μ regs) (ha : Agree μ cfg)
    (hwf : cfg.WF) {skip : List RType} {e : Nat × RType × ErrData} (h : e ∈ validateImpl regs cfg skip) :
    e.1 ∈ cfg.onFit :=
  validate_keys_live hwf ((validate_eq_spec hi ha skip).mem_iff.1 h)

/-- **raises_iff_nonempty**: `validate()` returns silently exactly when no entry is reported, and it
raises `ValidationError` carrying all entries exactly when there is one (and none is an internal
error, which cannot happen under `RegsInv`/`Agree` - see `outcome`). -/
theorem raises_iff_nonempty (es : Entries) :
    (outcome es = .passes ↔ es = []) ∧
    ((∃ d, outcome es = .raisesValidation d) ↔ (es ≠ [] ∧ es.any isInternal = false)) ∧
    (∀ d, outcome es = .raisesValidation d → d = es) := by
  unfold outcome
  refine ⟨?_, ?_, ?_⟩
  · constructor
    · intro h
      split at h
      · cases h
      · split at h
        · simpa using ‹es.isEmpty = true›
        · cases h
    · rintro rfl; simp
  · constructor
    · rintro ⟨d, h⟩
      split at h
      · cases h
      · split at h
        · cases h
        · rename_i h1 h2
          exact ⟨by intro he; simp [he] at h2, by simpa using h1⟩
    · rintro ⟨hne, hint⟩
      refine ⟨es, ?_⟩
      have : es.isEmpty = false := by cases es <;> simp_all
      simp [hint, this]
  · intro d h
    split at h
    · cases h
    · split at h
      · cases h
      · cases h; rfl

/-- **verdict_function_of_config**: two different histories that end in the same configuration give
the same verdict - validation has no memory of how the fit was built. -/
theorem verdict_function_of_config (h₁ h₂ : List Msg) (hw₁ : WFHist {} h₁) (hw₂ : WFHist {} h₂) {cfg : Snapshot}
    (ha₁ : Agree (runHist ({}, Regs.empty) h₁).1 cfg) (ha₂ : Agree (runHist ({}, Regs.empty) h₂).1 cfg)
    (skip : List RType) :
    (validateImpl (runHist ({}, Regs.empty) h₁).2 cfg skip).Perm
      (validateImpl (runHist ({}, Regs.empty) h₂).2 cfg skip) :=
  (validate_eq_spec_history h₁ hw₁ ha₁ skip).trans (validate_eq_spec_history h₂ hw₂ ha₂ skip).symm

/-- Permuted entry lists have the same outcome class (pass / raise / internal). -/
theorem outcome_perm {a b : Entries} (h : a.Perm b) :
    (outcome a = .passes ↔ outcome b = .passes) ∧ (a.any isInternal = b.any isInternal) := by
  have hany : a.any isInternal = b.any isInternal := by
    rw [Bool.eq_iff_iff, List.any_eq_true, List.any_eq_true]
    exact ⟨fun ⟨x, hx, hp⟩ => ⟨x, h.mem_iff.1 hx, hp⟩, fun ⟨x, hx, hp⟩ => ⟨x, h.mem_iff.2 hx, hp⟩⟩
  refine ⟨?_, hany⟩
  rw [(raises_iff_nonempty a).1, (raises_iff_nonempty b).1]
  exact ⟨fun e => by subst e; exact h.symm.eq_nil, fun e => by subst e; exact h.eq_nil⟩

/-! ## Non-vacuity -/
section Examples

def shipT : TypeData := ⟨some 25, some 6, [(A.hiSlots, 2), (A.cpuOutput, 40)], [], []⟩
def modT : TypeData := ⟨some 7, some 7, [(A.cpu, 50), (A.volume, 4000)], [(E.online, 2), (E.hiPower, 1)], []⟩

/-- A history with a state flip, an effect stop/start and an unload/reload of the module. -/
def hist : List Msg :=
  [.itemLoaded 1 .ship shipT, .statesOn 1 [1],
   .itemLoaded 2 .moduleHigh modT, .statesOn 2 [1, 2], .effectsOn 2 [E.online, E.hiPower],
   .statesOff 2 [2], .effectsOff 2 [E.online],
   .effectsOff 2 [E.hiPower], .statesOff 2 [1], .itemUnloaded 2,
   .itemLoaded 2 .moduleHigh modT, .statesOn 2 [1, 2], .effectsOn 2 [E.online, E.hiPower]]

def snap : Snapshot :=
  { items := [⟨1, .ship, 100, 1, none, none, some shipT, [], [(A.hiSlots, 2), (A.cpuOutput, 40)]⟩,
              ⟨2, .moduleHigh, 200, 2, none, none, some modT, [E.online, E.hiPower], [(A.cpu, 50)]⟩,
              ⟨3, .moduleHigh, 201, 1, none, none, none, [], []⟩],
    ship := some 1, high := [some 2, none, some 3] }

/-- The history is well formed (the hypothesis of the theorems is satisfiable by a non-trivial run) ... -/
example : WFHist {} hist := by
  simp only [hist, WFHist]
  refine ⟨?_, ?_, ?_, ?_, ?_, ?_, ?_, ?_, ?_, ?_, ?_, ?_, ?_, trivial⟩ <;> decide +kernel

/-- ... it leaves the module in the capital-item, max-group and state registers ... -/
example : ((runHist ({}, Regs.empty) hist).2 .capitalItem).map (·.1) = [2] := by decide +kernel
example : ((runHist ({}, Regs.empty) hist).2 .state).map (·.1) = [2] := by decide +kernel

/-- ... the snapshot is well formed and the module beyond the two slots, never the hole, is reported;
cpu 50 > 40 and the capital module on a sub-capital ship are reported with the documented numbers. -/
example : snap.wfb = true := by decide +kernel
example : validateSpec snap [] =
    [(2, .cpu, .resource 50 40 50), (3, .highSlot, .slotQuantity 3 2), (2, .capitalItem, .capitalItem 4000 3500),
     (3, .loadedItem, .loadedItem)] := by decide +kernel
example : validateImpl (runHist ({}, Regs.empty) hist).2 snap [.cpu, .loadedItem] =
    [(3, .highSlot, .slotQuantity 3 2), (2, .capitalItem, .capitalItem 4000 3500)] := by decide +kernel
example : validateSpec {} [] = [] := by decide +kernel

end Examples

end Eos.C03
