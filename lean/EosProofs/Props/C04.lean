import EosProofs.Lemmas.Stats
import EosGen.StatHandlerMaps
import Mathlib.Tactic.FieldSimp
import Mathlib.Tactic.Positivity
/-! # C04 — fit statistics equal aggregation over current items and obey algebraic laws

Property theorems only (helpers: `EosProofs/Lemmas/Stats.lean`, `EosProofs/Lemmas/Toggle.lean`).
`EosGen.StatFormulas` (AST translation of the EHP / DmgStats / cycle formulas plus the decision table of
`get_cycle_parameters` obtained by running it) and `EosGen.StatHandlerMaps` (the `_handler_map` of every stat
register) are regenerated from /repo on every run; the laws are stated about those generated definitions
(namespace `G`), and the `gen_*` theorems tie them to the hand-written model (`EosModel/Stats.lean`,
`EosModel/Cycle.lean`) which the correspondence run executes against the real code on random histories.

D15: 100 % resist against every dealt damage type makes `received = 0` and the real code raises
ZeroDivisionError; likewise a zero cycle time in DPS.  Both lie outside the property's quantifier ("non-zero
divisors / valid ranges"): every theorem states its guard explicitly (`0 < G.tankReceived ...`, `0 < duration`),
and `tankEff_divZero_iff` / `received_eq_zero_iff` / `worst_divZero_iff` characterise the error branch. -/
namespace Eos.C04
open Eos.Stats Eos.Cycle Eos.Toggle

/-- Generated = spec: resist is `1 - resonance`, a missing resonance attribute counts as 1 (resist 0). -/
theorem gen_resist_eq (res : ℚ) : G.resist res = 1 - res ∧ G.resistDefault = 1 := ⟨rfl, rfl⟩

/-- Generated = spec: the translated `_get_tanking_efficiency` is `dealt / received` with `received = dealt - absorbed`. -/
theorem gen_tank_parts (p r : D4) :
    G.tankDealt p.em p.th p.ki p.ex r.em r.th r.ki r.ex = dealt p ∧
    G.tankReceived p.em p.th p.ki p.ex r.em r.th r.ki r.ex = received p r ∧
    G.tankEff p.em p.th p.ki p.ex r.em r.th r.ki r.ex = dealt p / received p r := ⟨rfl, rfl, rfl⟩

/-- With a non-zero divisor the model value of the tanking efficiency is the generated formula. -/
theorem gen_tankEff_eq (p r : D4) (h : received p r ≠ 0) :
    Stats.tankEff p r = .ok (G.tankEff p.em p.th p.ki p.ex r.em r.th r.ki r.ex) := by
  simp [Stats.tankEff, h, (gen_tank_parts p r).2.2]

/-- D15, error branch: the model reports ZeroDivisionError exactly when the generated divisor `received` is 0 (the harness checks the real code raises there). -/
theorem tankEff_divZero_iff (p r : D4) :
    Stats.tankEff p r = .error .zeroDiv ↔ G.tankReceived p.em p.th p.ki p.ex r.em r.th r.ki r.ex = 0 := by
  rw [(gen_tank_parts p r).2.1]
  unfold Stats.tankEff
  split <;> simp_all

/-- D15 characterised: within valid ranges nothing is received iff every dealt damage type meets 100 % resist. -/
theorem received_eq_zero_iff (p r : D4)
    (hp : 0 ≤ p.em ∧ 0 ≤ p.th ∧ 0 ≤ p.ki ∧ 0 ≤ p.ex)
    (hr : r.em ≤ 1 ∧ r.th ≤ 1 ∧ r.ki ≤ 1 ∧ r.ex ≤ 1) :
    received p r = 0 ↔ (p.em = 0 ∨ r.em = 1) ∧ (p.th = 0 ∨ r.th = 1) ∧ (p.ki = 0 ∨ r.ki = 1) ∧ (p.ex = 0 ∨ r.ex = 1) := by
  obtain ⟨h1, h2, h3, h4⟩ := hp
  obtain ⟨g1, g2, g3, g4⟩ := hr
  have e : received p r = p.em * (1 - r.em) + p.th * (1 - r.th) + p.ki * (1 - r.ki) + p.ex * (1 - r.ex) := by
    simp only [received, dealt, absorbed]; ring
  have n1 : 0 ≤ p.em * (1 - r.em) := mul_nonneg h1 (by linarith)
  have n2 : 0 ≤ p.th * (1 - r.th) := mul_nonneg h2 (by linarith)
  have n3 : 0 ≤ p.ki * (1 - r.ki) := mul_nonneg h3 (by linarith)
  have n4 : 0 ≤ p.ex * (1 - r.ex) := mul_nonneg h4 (by linarith)
  rw [e]
  constructor
  · intro h
    have z1 : p.em * (1 - r.em) = 0 := by linarith
    have z2 : p.th * (1 - r.th) = 0 := by linarith
    have z3 : p.ki * (1 - r.ki) = 0 := by linarith
    have z4 : p.ex * (1 - r.ex) = 0 := by linarith
    refine ⟨?_, ?_, ?_, ?_⟩
    · rcases mul_eq_zero.1 z1 with h | h; exact Or.inl h; exact Or.inr (by linarith)
    · rcases mul_eq_zero.1 z2 with h | h; exact Or.inl h; exact Or.inr (by linarith)
    · rcases mul_eq_zero.1 z3 with h | h; exact Or.inl h; exact Or.inr (by linarith)
    · rcases mul_eq_zero.1 z4 with h | h; exact Or.inl h; exact Or.inr (by linarith)
  · rintro ⟨a | a, b | b, c | c, d | d⟩ <;> simp [a, b, c, d]

/-- **EHP is never below raw HP** (per layer; about the generated `__get_layer_ehp`), for hp >= 0, profile entries >= 0, resists in [0,1] and a positive divisor (guard D15). -/
theorem ehp_ge_hp (hp : ℚ) (p r : D4) (hhp : 0 ≤ hp) (v : Valid p r)
    (hrecv : 0 < G.tankReceived p.em p.th p.ki p.ex r.em r.th r.ki r.ex) :
    hp ≤ G.layerEhp hp p.em p.th p.ki p.ex r.em r.th r.ki r.ex := by
  unfold EosGen.StatFormulas.layerEhp
  split
  · exact le_refl _
  · show hp ≤ hp * G.tankEff p.em p.th p.ki p.ex r.em r.th r.ki r.ex
    have hr : 0 < received p r := hrecv
    have hd : received p r ≤ dealt p := by
      have : 0 ≤ absorbed p r := by
        unfold absorbed
        have := mul_nonneg v.p_em v.r_em.1; have := mul_nonneg v.p_th v.r_th.1
        have := mul_nonneg v.p_ki v.r_ki.1; have := mul_nonneg v.p_ex v.r_ex.1
        linarith
      unfold received; linarith
    have : (1 : ℚ) ≤ dealt p / received p r := by rw [le_div_iff₀ hr]; linarith
    calc hp = hp * 1 := (mul_one hp).symm
      _ ≤ hp * (dealt p / received p r) := mul_le_mul_of_nonneg_left this hhp

/-- **EHP is never below worst-case EHP** (per layer, same guards); the worst-case divisor `1 - min resist` is then positive as well. -/
theorem ehp_ge_worstCase (hp : ℚ) (p r : D4) (hhp : 0 ≤ hp) (v : Valid p r)
    (hrecv : 0 < G.tankReceived p.em p.th p.ki p.ex r.em r.th r.ki r.ex) :
    G.layerWorstEhp hp r.em r.th r.ki r.ex ≤ G.layerEhp hp p.em p.th p.ki p.ex r.em r.th r.ki r.ex ∧
    (hp ≠ 0 → 0 < G.worstDivisor hp r.em r.th r.ki r.ex) := by
  unfold EosGen.StatFormulas.layerEhp EosGen.StatFormulas.layerWorstEhp EosGen.StatFormulas.worstDivisor
  by_cases h0 : hp = 0
  · simp [h0]
  · simp only [h0, if_false]
    show hp / (1 - minResist r) ≤ hp * (dealt p / received p r) ∧ (hp ≠ 0 → 0 < 1 - minResist r)
    have hr : 0 < received p r := hrecv
    obtain ⟨m1, m2, m3, m4⟩ := minResist_le r
    have key : received p r ≤ dealt p * (1 - minResist r) := by
      have e : received p r = p.em * (1 - r.em) + p.th * (1 - r.th) + p.ki * (1 - r.ki) + p.ex * (1 - r.ex) := by
        simp only [received, dealt, absorbed]; ring
      have a1 := mul_le_mul_of_nonneg_left (show 1 - r.em ≤ 1 - minResist r by linarith) v.p_em
      have a2 := mul_le_mul_of_nonneg_left (show 1 - r.th ≤ 1 - minResist r by linarith) v.p_th
      have a3 := mul_le_mul_of_nonneg_left (show 1 - r.ki ≤ 1 - minResist r by linarith) v.p_ki
      have a4 := mul_le_mul_of_nonneg_left (show 1 - r.ex ≤ 1 - minResist r by linarith) v.p_ex
      rw [e]; simp only [dealt]; nlinarith
    have hd : 0 ≤ dealt p := by unfold dealt; linarith [v.p_em, v.p_th, v.p_ki, v.p_ex]
    have hm : 0 < 1 - minResist r := by
      by_contra hc
      have : dealt p * (1 - minResist r) ≤ 0 := mul_nonpos_of_nonneg_of_nonpos hd (by linarith)
      linarith
    refine ⟨?_, fun _ => hm⟩
    rw [div_le_iff₀ hm]
    have : hp * (dealt p / received p r) * (1 - minResist r) = hp * ((dealt p * (1 - minResist r)) / received p r) := by ring
    rw [this]
    have : (1 : ℚ) ≤ dealt p * (1 - minResist r) / received p r := by rw [le_div_iff₀ hr]; linarith
    calc hp = hp * 1 := (mul_one hp).symm
      _ ≤ _ := mul_le_mul_of_nonneg_left this hhp

/-- **EHP is unchanged by scaling the damage profile by any k > 0**: the model outcome (value *or* ZeroDivisionError) and the generated formula agree before and after scaling. -/
theorem ehp_scale_invariant (hp k : ℚ) (p r : D4) (hk : 0 < k) :
    Stats.layerEhp hp (p.scale k) r = Stats.layerEhp hp p r ∧
    G.layerEhp hp (p.em * k) (p.th * k) (p.ki * k) (p.ex * k) r.em r.th r.ki r.ex
      = G.layerEhp hp p.em p.th p.ki p.ex r.em r.th r.ki r.ex := by
  have hk' : k ≠ 0 := ne_of_gt hk
  have hd : dealt (p.scale k) = dealt p * k := by simp only [dealt, D4.scale]; ring
  have hr : received (p.scale k) r = received p r * k := by simp only [received, dealt, absorbed, D4.scale]; ring
  have hq : dealt (p.scale k) / received (p.scale k) r = dealt p / received p r := by
    rw [hd, hr]; exact mul_div_mul_right _ _ hk'
  constructor
  · unfold Stats.layerEhp Stats.tankEff
    rw [hq, hr]
    simp [hk']
  · unfold EosGen.StatFormulas.layerEhp
    show (if hp = 0 then hp else hp * (dealt (p.scale k) / received (p.scale k) r)) = if hp = 0 then hp else hp * (dealt p / received p r)
    rw [hq]

/-- Generated = spec: `DmgStats._combine`'s loop (generated start value and body) computes the per-type sum. -/
theorem gen_combine_eq (l : List D4) : genSum l = tup (D4.sum l) := by
  unfold genSum D4.sum
  suffices h : ∀ a : D4, l.foldl (fun acc c => G.combineStep acc.1 acc.2.1 acc.2.2.1 acc.2.2.2 c.em c.th c.ki c.ex) (tup a)
      = tup (l.foldl D4.add a) from h D4.zero
  induction l with
  | nil => intro a; rfl
  | cons x t ih => intro a; simp only [List.foldl_cons]; exact ih (a.add x)

/-- Generated = spec: `DmgStats(..., mult)` multiplies every damage type by `mult`. -/
theorem gen_scale_eq (v : D4) (k : ℚ) : G.statScale v.em v.th v.ki v.ex k = tup (v.scale k) := rfl

/-- **A target resist profile scales each damage type by (1 - resist)**. -/
theorem combine_resist_scales (a r : D4) :
    G.combineResist a.em a.th a.ki a.ex r.em r.th r.ki r.ex
      = (a.em * (1 - r.em), a.th * (1 - r.th), a.ki * (1 - r.ki), a.ex * (1 - r.ex)) ∧
    tup (a.resisted r) = G.combineResist a.em a.th a.ki a.ex r.em r.th r.ki r.ex := ⟨rfl, rfl⟩

/-- **Additivity** of the generated aggregation: for any list of items, any per-item damage `v` and any filter `q`, `sum (l.filter q) + sum (l.filter (not q)) = sum l` (componentwise). -/
theorem genSum_partition {α} (l : List α) (v : α → D4) (q : α → Bool) :
    genSum ((l.filter q).map v) + genSum ((l.filter (fun x => !q x)).map v) = genSum (l.map v) := by
  simp only [gen_combine_eq, ← sum_partition l v q, tup, D4.add]; rfl

/-- **Volley is additive over any partition of the items by any filter** (model of `fit.stats.get_volley`, every item volley defined). -/
theorem volley_additive (s : Snap) (tgt : Option D4) (v : Item → D4)
    (H : ∀ it ∈ ddItems s, itemVolley s it tgt = .ok (v it)) (f q : Item → Bool) (w w1 w2 : D4)
    (h : fitVolley s f tgt = .ok w) (h1 : fitVolley s (fun it => f it && q it) tgt = .ok w1)
    (h2 : fitVolley s (fun it => f it && !q it) tgt = .ok w2) : w1.add w2 = w :=
  agg_additive (ddItems s) _ v H f q w w1 w2 h h1 h2

/-- **DPS is additive over any partition of the items by any filter** (model of `fit.stats.get_dps`, any reload flag and target resists). -/
theorem dps_additive (s : Snap) (reload : Bool) (tgt : Option D4) (v : Item → D4)
    (H : ∀ it ∈ ddItems s, itemDps s it reload tgt = .ok (v it)) (f q : Item → Bool) (w w1 w2 : D4)
    (h : fitDps s f reload tgt = .ok w) (h1 : fitDps s (fun it => f it && q it) reload tgt = .ok w1)
    (h2 : fitDps s (fun it => f it && !q it) reload tgt = .ok w2) : w1.add w2 = w :=
  agg_additive (ddItems s) _ v H f q w w1 w2 h h1 h2

/-- Generated = model: the real `get_cycle_parameters`, run over the whole grid of (cycles, duration, inactive, reload time, flag), agrees with `Cycle.params` on every row. -/
theorem gen_cycle_table : ∀ row ∈ G.cycleTable,
    params row.1 row.2.1 row.2.2.1 row.2.2.2.1 row.2.2.2.2.1 = row.2.2.2.2.2 := by decide +kernel

/-- Generated = model: `CycleInfo.average_time`. -/
theorem gen_avg_info (c : Info) : avgTime (.info c) = .ok (G.infoAvg c.active c.inactive) := rfl

/-- Generated = model: `CycleSequence.average_time` of the two-member sequences `get_cycle_parameters` builds. -/
theorem gen_avg_seq (a1 i1 q1 a2 i2 q2 : ℚ) (Q : ERat) (h : q1 + q2 ≠ 0) :
    avgTime (.seq [⟨a1, i1, .fin q1⟩, ⟨a2, i2, .fin q2⟩] Q)
      = .ok (G.seqAvg (G.infoTime a1 i1 q1 + G.infoTime a2 i2 q2) (G.infoQty q1 + G.infoQty q2)) := by
  simp [avgTime, seqTime, seqQty, h, EosGen.StatFormulas.seqAvg, EosGen.StatFormulas.infoTime, EosGen.StatFormulas.infoQty]

/-- Generated = spec: DPS factor `1 / average_time`, repair rate `amount / average_time`, milliseconds to seconds. -/
theorem gen_rates (amount avg t : ℚ) :
    G.dpsMult avg = 1 / avg ∧ G.rps amount avg = amount / avg ∧
    G.durationS t = t / 1000 ∧ G.inactiveS t = t / 1000 ∧ G.reloadS t = t / 1000 := ⟨rfl, rfl, rfl, rfl, rfl⟩

/-- **Totality of the cycle case analysis**: `get_cycle_parameters` yields `None` exactly for effects that cannot cycle, and every other outcome has a well-defined average time (no sequence with zero total quantity, no infinite member). -/
theorem cycle_cases_total (c : Option ERat) (d i rt : Option ℚ) (reload : Bool) :
    (params c d i rt reload = none ↔ Dead c) ∧
    (∀ cy, params c d i rt reload = some cy → ∃ t, avgTime cy = .ok t) := by
  rcases c with _ | (c | _)
  · simp [params, Dead]
  · by_cases hc : c ≤ 0
    · simp [params, Dead, hc]
    · have hpos : 0 < c := lt_of_not_ge hc
      have hq : c ≠ 0 := ne_of_gt hpos
      constructor
      · simp only [params, hc, if_false, Dead, iff_false]
        rcases rt with _ | r
        · simp only; split_ifs <;> simp
        · simp only; split_ifs <;> simp
      · intro cy h
        simp only [params, hc, if_false] at h
        rcases rt with _ | r
        · simp only at h
          split_ifs at h <;> simp only [Option.some.injEq] at h <;> subst h
          · exact ⟨_, rfl⟩
          · exact ⟨_, rfl⟩
          · simp [avgTime, seqTime, seqQty, hq]
        · simp only at h
          split_ifs at h <;> simp only [Option.some.injEq] at h <;> subst h
          · exact ⟨_, rfl⟩
          · exact ⟨_, rfl⟩
          · simp [avgTime, seqTime, seqQty, hq]
  · simp [params, Dead]
    exact ⟨_, rfl⟩

/-- Taking reload into account never shortens the average cycle time (all inputs, incl. None / 0 / inf). -/
theorem reload_avg_ge (c : Option ERat) (d i rt : Option ℚ) (cF : Cyc) (tF : ℚ)
    (hF : params c d i rt false = some cF) (hFt : avgTime cF = .ok tF) :
    ∃ cT tT, params c d i rt true = some cT ∧ avgTime cT = .ok tT ∧ tF ≤ tT := by
  rcases c with _ | (c | _)
  · simp [params] at hF
  · by_cases hc : c ≤ 0
    · simp [params, hc] at hF
    · have hpos : 0 < c := lt_of_not_ge hc
      rcases rt with _ | r
      · exact ⟨cF, tF, by simpa [params, hc] using hF, hFt, le_refl _⟩
      · simp only [params, hc, if_false, Bool.not_false, Bool.true_or, if_true, Option.some.injEq] at hF
        subst hF
        simp only [avgTime, Avg.ok.injEq] at hFt
        subst hFt
        simp only [params, hc, if_false, Bool.not_true, Bool.false_or, decide_eq_true_eq]
        by_cases hfr : orZero i ≥ r
        · exact ⟨.info ⟨orZero d, orZero i, .inf⟩, orZero d + orZero i, by simp [hfr], rfl, le_refl _⟩
        · have hlt : orZero i < r := lt_of_not_ge hfr
          by_cases h1 : c - 1 = 0
          · exact ⟨.info ⟨orZero d, r, .inf⟩, orZero d + r, by simp [hfr, h1], rfl, by linarith⟩
          · have hq : c ≠ 0 := ne_of_gt hpos
            refine ⟨.seq [⟨orZero d, orZero i, .fin (c - 1)⟩, ⟨orZero d, r, .fin 1⟩] .inf,
              ((orZero d + orZero i) * (c - 1) + (orZero d + r)) / c, by simp [hfr, h1],
              by simp [avgTime, seqTime, seqQty, hq], ?_⟩
            rw [le_div_iff₀ hpos]
            nlinarith
  · exact ⟨cF, tF, by simpa [params] using hF, hFt, le_refl _⟩

/-- With positive duration, non-negative inactivity / reload time and (when finite) at least one cycle, the average cycle time is positive (guard of the DPS division, D15). -/
theorem avg_pos (c : Option ERat) (d i rt : Option ℚ) (reload : Bool) (cy : Cyc) (t : ℚ)
    (ha : 0 < orZero d) (hi : 0 ≤ orZero i) (hr : ∀ r, rt = some r → 0 ≤ r) (hc : ∀ q, c = some (.fin q) → 1 ≤ q)
    (h : params c d i rt reload = some cy) (ht : avgTime cy = .ok t) : 0 < t := by
  rcases c with _ | (c | _)
  · simp [params] at h
  · have h1 : 1 ≤ c := hc c rfl
    have hc0 : ¬ c ≤ 0 := by linarith
    have hpos : 0 < c := by linarith
    have hq : c ≠ 0 := ne_of_gt hpos
    simp only [params, hc0, if_false] at h
    rcases rt with _ | r
    · simp only at h
      split_ifs at h <;> simp only [Option.some.injEq] at h <;> subst h
      · simp only [avgTime, Avg.ok.injEq] at ht; linarith
      · simp only [avgTime, Avg.ok.injEq] at ht; linarith
      · simp [avgTime, seqTime, seqQty, hq] at ht
        subst ht; apply div_pos _ hpos; nlinarith
    · have hr0 := hr r rfl
      simp only at h
      split_ifs at h <;> simp only [Option.some.injEq] at h <;> subst h
      · simp only [avgTime, Avg.ok.injEq] at ht; linarith
      · simp only [avgTime, Avg.ok.injEq] at ht; linarith
      · simp [avgTime, seqTime, seqQty, hq] at ht
        subst ht; apply div_pos _ hpos; nlinarith
  · simp only [params, Option.some.injEq] at h
    subst h
    simp only [avgTime, Avg.ok.injEq] at ht; linarith

/-- **Taking reload into account never increases DPS**: avgTime(reload) >= avgTime(no reload) > 0, hence every non-negative damage component times the generated factor `1 / average_time` does not grow. -/
theorem reload_dps_le (c : Option ERat) (d i rt : Option ℚ) (cF : Cyc) (tF x : ℚ)
    (ha : 0 < orZero d) (hi : 0 ≤ orZero i) (hr : ∀ r, rt = some r → 0 ≤ r) (hc : ∀ q, c = some (.fin q) → 1 ≤ q)
    (hx : 0 ≤ x) (hF : params c d i rt false = some cF) (hFt : avgTime cF = .ok tF) :
    ∃ cT tT, params c d i rt true = some cT ∧ avgTime cT = .ok tT ∧ 0 < tF ∧ tF ≤ tT ∧
      x * G.dpsMult tT ≤ x * G.dpsMult tF := by
  obtain ⟨cT, tT, h1, h2, h3⟩ := reload_avg_ge c d i rt cF tF hF hFt
  have hp := avg_pos c d i rt false cF tF ha hi hr hc hF hFt
  refine ⟨cT, tT, h1, h2, hp, h3, ?_⟩
  apply mul_le_mul_of_nonneg_left _ hx
  exact one_div_le_one_div_of_le hp h3

/-- Generated = spec: every stat register's `_handler_map` is exactly the message pair its predicate needs (with discard / remove semantics), and the registers / slot properties are configured with the expected effect and attribute ids. -/
theorem gen_handlerMaps_eq_spec :
    EosGen.StatHandlerMaps.table = specHandlerTable ∧ EosGen.StatHandlerMaps.config = specConfig ∧
    EosGen.StatHandlerMaps.slotProps = specSlotProps := by decide

/-- **Registers do not drift**: after any message history in which switch-on messages alternate per item, a stat register holds exactly the items whose watched point is on and which qualified when it went on, each once. -/
theorem stat_register_tracks (r : RegSpec) (ms : List Msg) (ha : Alternates r.point (fun _ => none) ms) :
    Inv (truth r (micro r.point ms)) (r.run ms) :=
  register_inv r ms (fun _ => none) [] (inv_nil : Inv (fun _ => (none : Option Unit)) []) ha

/-- The executable alternation check the correspondence run applies to every recorded real message stream
    implies the hypothesis of `stat_register_tracks`. -/
theorem alternatesB_sound (p : Point) (ms : List Msg) (cur : Nat → Option Facts)
    (h : alternatesB p cur ms = true) : Alternates p cur ms := by
  induction ms generalizing cur with
  | nil => trivial
  | cons m t ih =>
    simp only [alternatesB, Bool.and_eq_true, Bool.or_eq_true, Bool.not_eq_true'] at h
    refine ⟨fun hp ho => ?_, ih _ h.2⟩
    rcases h.1 with h1 | h1
    · rw [hp] at h1; cases h1
    · simpa [ho] using h1

/-- A `set.remove`-style handler (repairer registers) never raises: when a switch-off arrives for an item that is on and qualified, the register holds it. -/
theorem strict_remove_present (r : RegSpec) (ms : List Msg) (m : Msg)
    (ha : Alternates r.point (fun _ => none) ms) (f : Facts)
    (hon : micro r.point ms m.item = some f) (hg : r.guard f = true) :
    (m.item, ()) ∈ r.run ms := by
  have h := (stat_register_tracks r ms ha).1 m.item ()
  rw [h]; simp [truth, hon, hg]

/-- **stats_eq_spec**: what a register-based `used` (sum of an attribute, or the member count) computes equals the stateless recomputation over the current items of the snapshot, whenever the register holds what its predicate says. -/
theorem stats_eq_spec (s : Snap) (P : Item → Bool) (val : Nat → ℚ) (cur : Nat → Option Unit) (reg : Reg Unit)
    (hnd : (s.mine.map (·.id)).Nodup) (hi : Inv cur reg)
    (hc : ∀ i, cur i = some () ↔ ∃ it ∈ s.mine, it.id = i ∧ P it = true) :
    reg.length = (s.mine.filter P).length ∧
    regSum val reg = (((s.mine.filter P).map fun it => val it.id).foldl (· + ·) 0) := by
  have hperm : (reg.map (·.1)).Perm ((s.mine.filter P).map (·.id)) := by
    refine (List.perm_ext_iff_of_nodup hi.2 ?_).2 ?_
    · exact (List.Sublist.map _ List.filter_sublist).nodup hnd
    · intro i
      simp only [List.mem_map, List.mem_filter]
      constructor
      · rintro ⟨⟨j, u⟩, hm, rfl⟩
        obtain ⟨it, h1, h2, h3⟩ := (hc j).1 ((hi.1 j u).1 hm)
        exact ⟨it, ⟨h1, h3⟩, h2⟩
      · rintro ⟨it, ⟨h1, h3⟩, rfl⟩
        exact ⟨(it.id, ()), (hi.1 it.id ()).2 ((hc it.id).2 ⟨it, h1, rfl, h3⟩), rfl⟩
  constructor
  · have := hperm.length_eq; simpa using this
  · unfold regSum
    have h1 : (reg.map fun x => val x.1) = (reg.map (·.1)).map val := by simp
    have h2 : ((s.mine.filter P).map fun it => val it.id) = ((s.mine.filter P).map (·.id)).map val := by simp
    rw [h1, h2]
    exact (hperm.map val).foldl_eq' (fun x _ y _ z => by ring) 0

/-- Generated = spec for a whole layer: outside the error branch the model's `__get_layer_ehp` is the generated formula. -/
theorem gen_layerEhp_eq (hp : ℚ) (p r : D4) (h : hp = 0 ∨ received p r ≠ 0) :
    Stats.layerEhp hp p r = .ok (G.layerEhp hp p.em p.th p.ki p.ex r.em r.th r.ki r.ex) := by
  unfold Stats.layerEhp EosGen.StatFormulas.layerEhp
  by_cases h0 : hp = 0
  · simp [h0]
  · have hr : received p r ≠ 0 := h.resolve_left h0
    simp only [h0, if_false, gen_tankEff_eq p r hr]
    rfl

/-- Generated = spec for `__get_layer_worst_case_ehp`, and its error branch: ZeroDivisionError exactly when the
    layer has HP and the generated divisor `1 - min resist` is 0. -/
theorem worst_divZero_iff (hp : ℚ) (r : D4) :
    (Stats.layerWorst hp r = .error .zeroDiv ↔ hp ≠ 0 ∧ G.worstDivisor hp r.em r.th r.ki r.ex = 0) ∧
    (¬ (hp ≠ 0 ∧ G.worstDivisor hp r.em r.th r.ki r.ex = 0) →
      Stats.layerWorst hp r = .ok (G.layerWorstEhp hp r.em r.th r.ki r.ex)) := by
  unfold Stats.layerWorst EosGen.StatFormulas.worstDivisor EosGen.StatFormulas.layerWorstEhp
  by_cases h0 : hp = 0
  · simp [h0]
  · simp only [h0, if_false, ne_eq, not_false_eq_true, true_and]
    show ((if 1 - minResist r = 0 then _ else _) = _ ↔ 1 - minResist r = 0) ∧ (¬ (1 - minResist r = 0) → _)
    by_cases hm : 1 - minResist r = 0
    · simp [hm]
    · simp only [hm, if_false, not_false_eq_true, forall_const]
      exact ⟨by simp, rfl⟩


/-! ## Non-vacuity -/
/-- The hypotheses of the EHP laws are satisfiable: omni profile against 50 % resists doubles the HP ... -/
example : G.layerEhp 100 25 25 25 25 (1/2) (1/2) (1/2) (1/2) = 200 := by decide +kernel
example : Valid ⟨25, 25, 25, 25⟩ ⟨1/2, 1/2, 1/2, 1/2⟩ ∧ 0 < G.tankReceived 25 25 25 25 (1/2) (1/2) (1/2) (1/2) := by
  refine ⟨⟨?_, ?_, ?_, ?_, ?_, ?_, ?_, ?_⟩, ?_⟩ <;> decide +kernel
/-- ... a mixed layer is strictly above its worst case (125 > 111.1...), which is above raw HP ... -/
example : G.layerWorstEhp 100 (1/10) (1/2) (1/2) (1/2) < G.layerEhp 100 1 1 0 0 (1/10) (1/2) (1/2) (1/2) := by decide +kernel
/-- ... and D15 is real: pure EM damage against 100 % EM resist is the ZeroDivisionError branch. -/
example : G.tankReceived 1 0 0 0 1 0 0 0 = 0 := by decide +kernel
example : (match Stats.tankEff ⟨1, 0, 0, 0⟩ ⟨1, 0, 0, 0⟩ with | .error .zeroDiv => true | _ => false) = true := by decide +kernel
/-- Reload strictly lowers DPS for 3 cycles of 4 s followed by a 5 s reload: 17/3 s per cycle instead of 4 s. -/
example : (params (some (.fin 3)) (some 4) (some 0) (some 5) true).map avgTime = some (.ok (17/3)) ∧
    (params (some (.fin 3)) (some 4) (some 0) (some 5) false).map avgTime = some (.ok 4) := by decide +kernel
/-- A register history: item 7 goes online (qualifies), item 8 goes online without a cpu attribute, item 7 stops. -/
example :
    let f : Facts := { cls := .modHigh, typeAttrs := ["cpu"] }
    let g : Facts := { cls := .modHigh, typeAttrs := [] }
    let ms : List Msg := [⟨true, 7, f, [.effect "online"]⟩, ⟨true, 8, g, [.effect "online"]⟩]
    regCpu.run ms = [(7, ())] ∧ regCpu.run (ms ++ [⟨false, 7, f, [.effect "online", .effect "x"]⟩]) = [] := by decide +kernel
example : Alternates (.effect "online") (fun _ => none)
    [⟨true, 7, { cls := .modHigh, typeAttrs := ["cpu"] }, [.effect "online"]⟩,
     ⟨false, 7, { cls := .modHigh, typeAttrs := ["cpu"] }, [.effect "online"]⟩,
     ⟨true, 7, { cls := .modHigh, typeAttrs := ["cpu"] }, [.effect "online"]⟩] := by
  simp [Alternates, microStep, upd]

end Eos.C04
