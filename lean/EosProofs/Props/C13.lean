import EosProofs.Lemmas.Machine
import EosModel.World
/-! # C13 — projected effects and fleet boosts reach exactly their current targets

Spec level (`EosModel.World`): which items a projected modifier and a fleet boost select, stated as exact
characterisations.  Machine level: the outcome does not depend on the order of the set-up steps, for every
history whose removal sets are legal (C01); the orders in which a *targeted item or boosted ship is loaded
later* are known finding K1 on the real code and are excluded there by hypothesis. -/
namespace Eos.C13
open Eos.DepCache Eos.Machine Eos.World

/-- A projectable effect is applied to the item's current target and to nothing else. -/
theorem projectionTargets_eq (cfg : Config) (a : Item) (e : Effect) (t : Nat)
    (hc : e.category = 2) (ht : a.target = some t) :
    projectionTargets cfg a e = (item? cfg t).toList := by
  unfold projectionTargets; simp [hc, ht]

/-- Stopping counts as "no target": an effect that is not projectable reaches nobody. -/
theorem not_projectable_no_targets (cfg : Config) (a : Item) (e : Effect) (h : e.category ≠ 2) :
    projectionTargets cfg a e = [] := by
  simp [projectionTargets, h]

/-- No target, no projection. -/
theorem no_target_no_targets (cfg : Config) (a : Item) (e : Effect) (h : a.target = none) :
    projectionTargets cfg a e = [] := by
  unfold projectionTargets; rw [h]; split <;> rfl

/-- Item filter: exactly the target itself. -/
theorem affectsProjected_item_iff (cfg : Config) (a : Item) (m : Modifier) (t x : Item) (tx : ItemType)
    (h : m.filter = 1) : affectsProjected cfg a m t x tx = true ↔ x.id = t.id := by
  simp [affectsProjected, h]

/-- Location filters: exactly the items aboard the targeted ship (same fit, ship domain) that pass the
group / skill requirement filter; a target that is not the ship of its fit carries nobody. -/
theorem affectsProjected_location_iff (cfg : Config) (a : Item) (m : Modifier) (t x : Item) (tx : ItemType)
    (h : m.filter ≠ 1) :
    affectsProjected cfg a m t x tx = true ↔
      (t.kind = .ship ∧ shipOf cfg t.fit = some t.id ∧ x.fit = t.fit ∧ passesFilter a m 3 x tx = true) := by
  simp [affectsProjected, h, and_assoc]

/-- A fleet boost from fit `f` reaches exactly the ships of `f` itself and of the fits in the same fleet. -/
theorem mem_boostTargets (cfg : Config) (f : Nat) (s : Item) :
    s ∈ boostTargets cfg f ↔
      ∃ g ∈ cfg.fits, (g.id = f ∨ (((fit? cfg f).bind (·.fleet)).isSome = true ∧ g.fleet = (fit? cfg f).bind (·.fleet))) ∧
        g.ship.bind (item? cfg) = some s := by
  unfold boostTargets
  simp only [List.mem_filterMap]
  constructor
  · rintro ⟨g, hg, h⟩
    refine ⟨g, hg, ?_⟩
    by_cases hc : (g.id == f || (((fit? cfg f).bind (·.fleet)).isSome && g.fleet == (fit? cfg f).bind (·.fleet))) = true
    · rw [if_pos hc] at h
      refine ⟨?_, h⟩
      simpa [Bool.or_eq_true, Bool.and_eq_true] using hc
    · rw [if_neg hc] at h; cases h
  · rintro ⟨g, hg, hc, h⟩
    refine ⟨g, hg, ?_⟩
    have : (g.id == f || (((fit? cfg f).bind (·.fleet)).isSome && g.fleet == (fit? cfg f).bind (·.fleet))) = true := by
      simpa [Bool.or_eq_true, Bool.and_eq_true] using hc
    rw [if_pos this]; exact h

/-- A fit outside every fleet boosts only itself. -/
theorem boost_without_fleet (cfg : Config) (f : Nat) (s : Item)
    (h : (fit? cfg f).bind (·.fleet) = none) (hs : s ∈ boostTargets cfg f) :
    ∃ g ∈ cfg.fits, g.id = f ∧ g.ship.bind (item? cfg) = some s := by
  obtain ⟨g, hg, hc, hsh⟩ := (mem_boostTargets cfg f s).mp hs
  refine ⟨g, hg, ?_, hsh⟩
  rcases hc with h1 | ⟨h2, _⟩
  · exact h1
  · rw [h] at h2; cases h2

variable {C N V : Type}

/-- Machine level: any two legal set-up histories that reach the same configuration (e.g. two orders of
ship / fleet membership / booster / target) are observationally equal.  *Partial*: legality of the
removal sets is a hypothesis; on the real code it fails for the K1 orders (known finding). -/
theorem setup_order_irrelevant_partial (W : C → Graph N V) (o1 o2 : List (Step C N V)) (c : C)
    (h1 : LegalRun W { cfg := c, cache := fun _ => none } o1)
    (h2 : LegalRun W { cfg := c, cache := fun _ => none } o2)
    (hc : (run W { cfg := c, cache := fun _ => none } o1).cfg = (run W { cfg := c, cache := fun _ => none } o2).cfg)
    (n : N) :
    observe W (run W { cfg := c, cache := fun _ => none } o1) n =
      observe W (run W { cfg := c, cache := fun _ => none } o2) n := by
  rw [observe_eq_spec W _ (good_run W o1 _ (good_init W c) h1),
      observe_eq_spec W _ (good_run W o2 _ (good_init W c) h2), hc]

end Eos.C13
