import EosProofs.Lemmas.Machine
import EosModel.World
import EosProofs.Lemmas.FleetTable
/-! # C13 — projected effects and fleet boosts reach exactly their current targets

Spec level (`EosModel.World`): which items a projected modifier and a fleet boost select, stated as exact
characterisations.  Machine level: the outcome does not depend on the order of the set-up steps, for every
history whose removal sets are legal (C01); the orders in which a *targeted item or boosted ship is loaded
later* are known finding K1 on the real code and are excluded there by hypothesis. -/
namespace Eos.C13
open Eos.DepCache Eos.Machine Eos.World

/-- A projectable effect is applied to the item's current target and to nothing else. -/
theorem projectionTargets_eq (cfg : Config) (a : Item) (e : Effect) (t : Nat)
    (hc : e.category = 2) (ht : a.target = some t) :
    projectionTargets cfg a e = (item? cfg t).toList := by
  unfold projectionTargets; simp [hc, ht]

/-- Stopping counts as "no target": an effect that is not projectable reaches nobody. -/
theorem not_projectable_no_targets (cfg : Config) (a : Item) (e : Effect) (h : e.category ≠ 2) :
    projectionTargets cfg a e = [] := by
  simp [projectionTargets, h]

/-- No target, no projection. -/
theorem no_target_no_targets (cfg : Config) (a : Item) (e : Effect) (h : a.target = none) :
    projectionTargets cfg a e = [] := by
  unfold projectionTargets; rw [h]; split <;> rfl

/-- Item filter: exactly the target itself. -/
theorem affectsProjected_item_iff (cfg : Config) (a : Item) (m : Modifier) (t x : Item) (tx : ItemType)
    (h : m.filter = 1) : affectsProjected cfg a m t x tx = true ↔ x.id = t.id := by
  simp [affectsProjected, h]

/-- Location filters: exactly the items aboard the targeted ship (same fit, ship domain) that pass the
group / skill requirement filter; a target that is not the ship of its fit carries nobody. -/
theorem affectsProjected_location_iff (cfg : Config) (a : Item) (m : Modifier) (t x : Item) (tx : ItemType)
    (h : m.filter ≠ 1) :
    affectsProjected cfg a m t x tx = true ↔
      (t.kind = .ship ∧ shipOf cfg t.fit = some t.id ∧ x.fit = t.fit ∧ passesFilter a m 3 x tx = true) := by
  simp [affectsProjected, h, and_assoc]

/-- A fleet boost from fit `f` reaches exactly the ships of `f` itself and of the fits in the same fleet. -/
theorem mem_boostTargets (cfg : Config) (f : Nat) (s : Item) :
    s ∈ boostTargets cfg f ↔
      ∃ g ∈ cfg.fits, (g.id = f ∨ (((fit? cfg f).bind (·.fleet)).isSome = true ∧ g.fleet = (fit? cfg f).bind (·.fleet))) ∧
        g.ship.bind (item? cfg) = some s := by
  unfold boostTargets
  simp only [List.mem_filterMap]
  constructor
  · rintro ⟨g, hg, h⟩
    refine ⟨g, hg, ?_⟩
    by_cases hc : (g.id == f || (((fit? cfg f).bind (·.fleet)).isSome && g.fleet == (fit? cfg f).bind (·.fleet))) = true
    · rw [if_pos hc] at h
      refine ⟨?_, h⟩
      simpa [Bool.or_eq_true, Bool.and_eq_true] using hc
    · rw [if_neg hc] at h; cases h
  · rintro ⟨g, hg, hc, h⟩
    refine ⟨g, hg, ?_⟩
    have : (g.id == f || (((fit? cfg f).bind (·.fleet)).isSome && g.fleet == (fit? cfg f).bind (·.fleet))) = true := by
      simpa [Bool.or_eq_true, Bool.and_eq_true] using hc
    rw [if_pos this]; exact h

/-- A fit outside every fleet boosts only itself. -/
theorem boost_without_fleet (cfg : Config) (f : Nat) (s : Item)
    (h : (fit? cfg f).bind (·.fleet) = none) (hs : s ∈ boostTargets cfg f) :
    ∃ g ∈ cfg.fits, g.id = f ∧ g.ship.bind (item? cfg) = some s := by
  obtain ⟨g, hg, hc, hsh⟩ := (mem_boostTargets cfg f s).mp hs
  refine ⟨g, hg, ?_, hsh⟩
  rcases hc with h1 | ⟨h2, _⟩
  · exact h1
  · rw [h] at h2; cases h2

variable {C N V : Type}

/-- Machine level: any two legal set-up histories that reach the same configuration (e.g. two orders of
ship / fleet membership / booster / target) are observationally equal.  *Partial*: legality of the
removal sets is a hypothesis; on the real code it fails for the K1 orders (known finding). -/
theorem setup_order_irrelevant_partial (W : C → Graph N V) (o1 o2 : List (Step C N V)) (c : C)
    (h1 : LegalRun W { cfg := c, cache := fun _ => none } o1)
    (h2 : LegalRun W { cfg := c, cache := fun _ => none } o2)
    (hc : (run W { cfg := c, cache := fun _ => none } o1).cfg = (run W { cfg := c, cache := fun _ => none } o2).cfg)
    (n : N) :
    observe W (run W { cfg := c, cache := fun _ => none } o1) n =
      observe W (run W { cfg := c, cache := fun _ => none } o2) n := by
  rw [observe_eq_spec W _ (good_run W o1 _ (good_init W c) h1),
      observe_eq_spec W _ (good_run W o2 _ (good_init W c) h2), hc]

/-! ## The regenerated fleet-boost table

`EosGen.FleetTable` is regenerated on every run by `tools/gen/fleet_table.py`: worlds with 1–3 fits in the solar
system, each fit in fleet A / fleet B / no fleet and with / without a ship, a running warfare-buff module on fit 1
whose buff has one template per filter kind (item, domain, domain_group, domain_skillrq), built through the public
API of the real code; for every item of every fit and every template it records whether the template's attribute is
boosted — in the world built from scratch (`obs`) and after every item was read before the booster was activated
(`obsInc`).  Fits, ships and fleets are built first and the booster last, which keeps both observations outside the
known finding K1.  Configuration, types, effect, templates and the modifier the service makes of a template
(`DogmaModifier._make_from_buff_template`) are read back from the live objects.  By definition
`specBoost c = (boostTargets c.cfg c.a.fit).any fun tg => affectsProjected c.cfg c.a c.m tg c.x c.tx`. -/

section fleetTable
open Eos.AffectsSpec
open EosGen.FleetTable (fleetCases fleetCaseCount fleetBoostedCount)

/-- "a running fleet boost reaches exactly the ships of the boosting fit and of fits in the same fleet" (and,
through the template's filter, the items aboard them): on EVERY case of the regenerated table the specification's
`boostTargets` + `affectsProjected` is what the real code did, under both observations. -/
theorem fleet_table_matches_spec :
    ∀ c ∈ fleetCases, specBoost c = c.obs ∧ specBoost c = c.obsInc :=
  fun c hc => ⟨(fleet_cases_good c hc).2.1, (fleet_cases_good c hc).2.2.1⟩

/-- The modifier the real service makes of the template is one of the specification's `buffModifiers` of the
booster (values read from the booster's type). -/
theorem fleet_table_buff_modifier :
    ∀ c ∈ fleetCases, ∃ bms, buffModifiers c.u (baseReader c.u c.cfg) c.a = .ok bms ∧ c.m ∈ bms := by
  intro c hc
  have h := (fleet_cases_good c hc).2.2.2.1
  unfold specBuffModifier at h
  split at h
  · rename_i bms hb
    exact ⟨bms, hb, by simpa using h⟩
  · cases h

/-- The fleet-boost branch of `gather` itself: for every case the specification gathers, for the template's
attribute of the item, nothing — or exactly one modification, with the template's operator, the booster's buff
value and resistance factor 1 — according to whether the real code boosted the item. -/
theorem fleet_table_gather_matches :
    ∀ c ∈ fleetCases, ∃ v, baseReader c.u c.cfg c.a c.m.srcAttr = .ok v ∧
      gatherOutcome (gather c.u c.cfg specImmune (baseReader c.u c.cfg) c.x c.tx c.m.tgtAttr) c.m.op v =
        some (if c.obs then some 1 else none) := by
  intro c hc
  have h := (fleet_cases_good c hc).2.2.2.2
  unfold specGatherBoost at h
  split at h
  · rename_i v hv
    exact ⟨v, hv, h⟩
  · cases h

/-- Nothing was lost between the generator and the theorems (and the statements are not vacuous): the table has
exactly as many cases and as many "boosted" cases as the generator counted observations. -/
theorem fleet_table_complete :
    fleetCases.length = fleetCaseCount ∧ fleetCases.countP (·.obs) = fleetBoostedCount := fleet_counts

end fleetTable

end Eos.C13
