import EosProofs.Props.C11Keyed
/-! C11/C13, register level: the two maps of the projection register stay converse relations of each other after
    every history of `apply_projector` / `unapply_projector`, so neither can keep an entry the other has lost. -/
namespace Eos.Keyed

theorem inv_foldl_addEntry (ts : List Nat) (p : Nat) {b : Store} (h : Inv b) :
    Inv (ts.foldl (fun b t => addEntry b t p) b) := by
  induction ts generalizing b with
  | nil => exact h
  | cons t ts ih => exact ih (inv_addEntry h)
theorem inv_foldl_rmEntry (ts : List Nat) (p : Nat) {b : Store} (h : Inv b) :
    Inv (ts.foldl (fun b t => rmEntry b t p) b) := by
  induction ts generalizing b with
  | nil => exact h
  | cons t ts ih => exact ih (inv_rmEntry h)

theorem mem_bucket_foldl_addEntry (ts : List Nat) (p : Nat) {b : Store} {t' p' : Nat} :
    p' ∈ bucket (ts.foldl (fun b t => addEntry b t p) b) t' ↔ p' ∈ bucket b t' ∨ (t' ∈ ts ∧ p' = p) := by
  induction ts generalizing b with
  | nil => simp
  | cons t ts ih => rw [List.foldl_cons, ih, mem_bucket_addEntry]; simp; grind
theorem mem_bucket_foldl_rmEntry (ts : List Nat) (p : Nat) {b : Store} (h : Inv b) {t' p' : Nat} :
    p' ∈ bucket (ts.foldl (fun b t => rmEntry b t p) b) t' ↔ p' ∈ bucket b t' ∧ ¬ (t' ∈ ts ∧ p' = p) := by
  induction ts generalizing b with
  | nil => simp
  | cons t ts ih => rw [List.foldl_cons, ih (inv_rmEntry h), mem_bucket_rmEntry h]; simp; grind

/-- the two maps are converse relations, and both are well-formed dict-of-sets -/
def ProjReg.Conv (r : ProjReg) : Prop :=
  Inv r.projTgts ∧ Inv r.tgtProjs ∧ ∀ p t, t ∈ bucket r.projTgts p ↔ p ∈ bucket r.tgtProjs t

theorem conv_apply {r : ProjReg} (p : Nat) (ts : List Nat) (h : r.Conv) : (r.apply p ts).Conv := by
  obtain ⟨h1, h2, h3⟩ := h
  refine ⟨inv_addSet h1, inv_foldl_addEntry ts p h2, fun p' t' => ?_⟩
  simp only [ProjReg.apply]
  rw [mem_bucket_addSet, mem_bucket_foldl_addEntry, h3]; grind
theorem conv_unapply {r : ProjReg} (p : Nat) (ts : List Nat) (h : r.Conv) : (r.unapply p ts).Conv := by
  obtain ⟨h1, h2, h3⟩ := h
  refine ⟨inv_rmSet h1, inv_foldl_rmEntry ts p h2, fun p' t' => ?_⟩
  simp only [ProjReg.unapply]
  rw [mem_bucket_rmSet h1.1, mem_bucket_foldl_rmEntry ts p h2, h3]; grind

/-- **after every history** of applications and un-applications the projector→targets and target→projectors maps
    describe the same relation -/
theorem conv_run (ops : List ProjOp) {r : ProjReg} (h : r.Conv) : (r.run ops).Conv := by
  induction ops generalizing r with
  | nil => exact h
  | cons op ops ih =>
    cases op with
    | apply p ts => exact ih (conv_apply p ts h)
    | unapply p ts => exact ih (conv_unapply p ts h)

theorem conv_init : ({} : ProjReg).Conv := ⟨⟨by simp [keys], by simp⟩, ⟨by simp [keys], by simp⟩, by simp [bucket]⟩

/-- no lingering influence at register level: a target that no projector lists is listed under no projector,
    whatever happened before -/
theorem no_one_sided_entry (ops : List ProjOp) (t : Nat)
    (h : bucket (({} : ProjReg).run ops).tgtProjs t = []) (p : Nat) :
    t ∉ bucket (({} : ProjReg).run ops).projTgts p := by
  intro hm; have := ((conv_run ops conv_init).2.2 p t).1 hm; simp [h] at this

/-- the abstract specification: a plain relation "projector p is applied to target t" -/
def projAbsStep (R : Nat → Nat → Prop) : ProjOp → Nat → Nat → Prop
  | .apply p ts => fun p' t => R p' t ∨ (p' = p ∧ t ∈ ts)
  | .unapply p ts => fun p' t => R p' t ∧ ¬ (p' = p ∧ t ∈ ts)

/-- **refinement**: any sequence of register calls behaves like the abstract relation — what
    `get_projector_tgts` and `get_tgt_projectors` answer after the history is the relation obtained by adding and
    deleting pairs, nothing else -/
theorem proj_run_refines (ops : List ProjOp) {r : ProjReg} {R : Nat → Nat → Prop} (h : r.Conv)
    (hr : ∀ p t, t ∈ bucket r.projTgts p ↔ R p t) (p t : Nat) :
    (t ∈ bucket (r.run ops).projTgts p ↔ ops.foldl projAbsStep R p t) ∧
    (p ∈ bucket (r.run ops).tgtProjs t ↔ ops.foldl projAbsStep R p t) := by
  induction ops generalizing r R with
  | nil => exact ⟨hr p t, (h.2.2 p t).symm.trans (hr p t)⟩
  | cons op ops ih =>
    cases op with
    | apply q ts =>
      refine ih (r := r.apply q ts) (R := projAbsStep R (.apply q ts)) (conv_apply q ts h) (fun p' t' => ?_)
      simp only [ProjReg.apply, projAbsStep]; rw [mem_bucket_addSet, hr]
    | unapply q ts =>
      refine ih (r := r.unapply q ts) (R := projAbsStep R (.unapply q ts)) (conv_unapply q ts h) (fun p' t' => ?_)
      simp only [ProjReg.unapply, projAbsStep]; rw [mem_bucket_rmSet h.1.1, hr]

theorem proj_run_refines_init (ops : List ProjOp) (p t : Nat) :
    t ∈ bucket (({} : ProjReg).run ops).projTgts p ↔ ops.foldl projAbsStep (fun _ _ => False) p t :=
  (proj_run_refines ops conv_init (fun _ _ => by simp [bucket]) p t).1

example : (({} : ProjReg).run [.apply 1 [5, 6], .apply 2 [6], .unapply 1 [6]]).projTgts = [(1, [5]), (2, [6])]
    ∧ (({} : ProjReg).run [.apply 1 [5, 6], .apply 2 [6], .unapply 1 [6]]).tgtProjs = [(5, [1]), (6, [2])] := by decide

end Eos.Keyed
