import EosModel.Keyed
/-! C11 (no residue), register level: `KeyedStorage` keeps exactly the entries added and not yet removed, and a
    key exists only while its bucket is non-empty — for every history of calls, no bound on length or sizes. -/
namespace Eos.Keyed

/-- structural invariant: one bucket per key, buckets are sets -/
def Inv (s : Store) : Prop := (keys s).Nodup ∧ ∀ p ∈ s, p.2.Nodup
/-- no key maps to an empty bucket -/
def NoEmpty (s : Store) : Prop := ∀ p ∈ s, p.2 ≠ []
/-- the calls of a history that can create an empty bucket (`add_data_set(key, ())`) -/
def Op.Guarded : Op → Prop
  | .addSet _ d => d ≠ []
  | _ => True

theorem mem_insertNew {b : List Nat} {v x : Nat} : x ∈ insertNew b v ↔ x ∈ b ∨ x = v := by
  unfold insertNew; split <;> simp <;> grind
theorem nodup_insertNew {b : List Nat} {v : Nat} (h : b.Nodup) : (insertNew b v).Nodup := by
  unfold insertNew; split
  · exact h
  · simp [List.nodup_append, h]; grind
theorem mem_union {d b : List Nat} {x : Nat} : x ∈ union b d ↔ x ∈ b ∨ x ∈ d := by
  unfold union
  induction d generalizing b with
  | nil => simp
  | cons a d ih => simp [List.foldl_cons, ih, mem_insertNew]; grind
theorem nodup_union {d b : List Nat} (h : b.Nodup) : (union b d).Nodup := by
  unfold union
  induction d generalizing b with
  | nil => simpa
  | cons a d ih => simp [List.foldl_cons]; exact ih (nodup_insertNew h)
theorem mem_diff {b d : List Nat} {x : Nat} : x ∈ diff b d ↔ x ∈ b ∧ x ∉ d := by simp [diff]
theorem nodup_diff {b d : List Nat} (h : b.Nodup) : (diff b d).Nodup :=
  h.sublist List.filter_sublist
theorem union_ne_nil {b d : List Nat} (h : b ≠ [] ∨ d ≠ []) : union b d ≠ [] := by
  intro e
  have : ∀ x, ¬ (x ∈ b ∨ x ∈ d) := fun x hx => by have := (mem_union (b := b) (d := d) (x := x)).2 hx; simp [e] at this
  rcases h with h | h
  · cases b with | nil => exact h rfl | cons a _ => exact this a (by simp)
  · cases d with | nil => exact h rfl | cons a _ => exact this a (by simp)

/-! ### keys -/
theorem mem_keys_addSet {s : Store} {k k' : Nat} {d} : k' ∈ keys (addSet s k d) ↔ k' ∈ keys s ∨ k' = k := by
  induction s with
  | nil => simp [addSet, keys]
  | cons p s ih => obtain ⟨a, b⟩ := p; simp only [addSet]; split <;> simp_all [keys] <;> grind
theorem mem_keys_addEntry {s : Store} {k k' v : Nat} : k' ∈ keys (addEntry s k v) ↔ k' ∈ keys s ∨ k' = k := by
  induction s with
  | nil => simp [addEntry, keys]
  | cons p s ih => obtain ⟨a, b⟩ := p; simp only [addEntry]; split <;> simp_all [keys] <;> grind
theorem mem_keys_rmSet {s : Store} {k k' : Nat} {d} (h : k' ∈ keys (rmSet s k d)) : k' ∈ keys s := by
  induction s with
  | nil => simp [rmSet, keys] at h
  | cons p s ih => obtain ⟨a, b⟩ := p; simp only [rmSet] at h; (repeat' split at h) <;> simp_all [keys] <;> grind
theorem mem_keys_rmEntry {s : Store} {k k' v : Nat} (h : k' ∈ keys (rmEntry s k v)) : k' ∈ keys s := by
  induction s with
  | nil => simp [rmEntry, keys] at h
  | cons p s ih => obtain ⟨a, b⟩ := p; simp only [rmEntry] at h; (repeat' split at h) <;> simp_all [keys] <;> grind
theorem mem_keys_delKey {s : Store} {k k' : Nat} (h : k' ∈ keys (delKey s k)) : k' ∈ keys s := by
  induction s with
  | nil => simp [delKey, keys] at h
  | cons p s ih => obtain ⟨a, b⟩ := p; simp only [delKey] at h; split at h <;> simp_all [keys] <;> grind

theorem bucket_of_not_mem_keys {s : Store} {k : Nat} (h : k ∉ keys s) : bucket s k = [] := by
  induction s with
  | nil => rfl
  | cons p s ih =>
    obtain ⟨a, b⟩ := p
    simp only [keys, List.map_cons, List.mem_cons, not_or] at h
    simp only [bucket]; rw [if_neg (fun e => h.1 e.symm)]; exact ih h.2
theorem bucket_cons_self {s : Store} {a : Nat} {b} : bucket ((a, b) :: s) a = b := by simp [bucket]
theorem bucket_cons_ne {s : Store} {a k : Nat} {b} (h : a ≠ k) : bucket ((a, b) :: s) k = bucket s k := by simp [bucket, h]

/-! ### refinement: a store is the relation `v ∈ bucket s k` -/
theorem mem_bucket_addSet {s : Store} {k k' x : Nat} {d} :
    x ∈ bucket (addSet s k d) k' ↔ x ∈ bucket s k' ∨ (k' = k ∧ x ∈ d) := by
  induction s with
  | nil => simp [addSet, bucket, mem_union]; grind
  | cons p s ih => obtain ⟨a, b⟩ := p; simp only [addSet]; split <;> simp only [bucket] <;> split <;> simp_all [mem_union] <;> grind
theorem mem_bucket_addEntry {s : Store} {k k' x v : Nat} :
    x ∈ bucket (addEntry s k v) k' ↔ x ∈ bucket s k' ∨ (k' = k ∧ x = v) := by
  induction s with
  | nil => simp [addEntry, bucket]; grind
  | cons p s ih => obtain ⟨a, b⟩ := p; simp only [addEntry]; split <;> simp only [bucket] <;> split <;> simp_all [mem_insertNew] <;> grind
theorem mem_bucket_rmSet {s : Store} {k k' x : Nat} {d} (h : (keys s).Nodup) :
    x ∈ bucket (rmSet s k d) k' ↔ x ∈ bucket s k' ∧ ¬ (k' = k ∧ x ∈ d) := by
  induction s with
  | nil => simp [rmSet, bucket]
  | cons p s ih =>
    obtain ⟨a, b⟩ := p
    have hn : a ∉ keys s := by simp [keys] at h ⊢; exact h.1
    have hs : (keys s).Nodup := by simp [keys] at h ⊢; exact h.2
    have hb := bucket_of_not_mem_keys hn
    have ih := ih hs
    have hall : (diff b d).isEmpty = true → x ∈ b → x ∈ d := by
      intro he hx; apply Classical.byContradiction; intro hd
      have : x ∈ diff b d := mem_diff.2 ⟨hx, hd⟩
      rw [List.isEmpty_iff.1 he] at this; simp at this
    simp only [rmSet]
    by_cases hak : a = k
    · subst hak
      by_cases he : (diff b d).isEmpty = true
      · rw [if_pos rfl, if_pos he]
        by_cases hk : a = k'
        · subst hk; rw [bucket_cons_self, hb]; have := hall he; simp; grind
        · rw [bucket_cons_ne hk]; grind
      · rw [if_pos rfl, if_neg he]
        by_cases hk : a = k'
        · subst hk; rw [bucket_cons_self, bucket_cons_self, mem_diff]; grind
        · rw [bucket_cons_ne hk, bucket_cons_ne hk]; grind
    · rw [if_neg hak]
      by_cases hk : a = k'
      · subst hk; rw [bucket_cons_self, bucket_cons_self]; grind
      · rw [bucket_cons_ne hk, bucket_cons_ne hk]; exact ih
theorem mem_bucket_rmEntry {s : Store} {k k' x v : Nat} (h : Inv s) :
    x ∈ bucket (rmEntry s k v) k' ↔ x ∈ bucket s k' ∧ ¬ (k' = k ∧ x = v) := by
  induction s with
  | nil => simp [rmEntry, bucket]
  | cons p s ih =>
    obtain ⟨a, b⟩ := p
    obtain ⟨h1, h2⟩ := h
    have hn : a ∉ keys s := by simp [keys] at h1 ⊢; exact h1.1
    have hs : Inv s := ⟨by simp [keys] at h1 ⊢; exact h1.2, fun p hp => h2 p (by simp [hp])⟩
    have hbn : b.Nodup := h2 (a, b) (by simp)
    have hb := bucket_of_not_mem_keys hn
    have ih := ih hs
    have me : x ∈ b.erase v ↔ x ≠ v ∧ x ∈ b := hbn.mem_erase_iff
    have hall : (b.erase v).isEmpty = true → x ∈ b → x = v := by
      intro he hx; apply Classical.byContradiction; intro hd
      have : x ∈ b.erase v := me.2 ⟨hd, hx⟩
      rw [List.isEmpty_iff.1 he] at this; simp at this
    simp only [rmEntry]
    by_cases hak : a = k
    · subst hak
      by_cases he : (b.erase v).isEmpty = true
      · rw [if_pos rfl, if_pos he]
        by_cases hk : a = k'
        · subst hk; rw [bucket_cons_self, hb]; have := hall he; simp; grind
        · rw [bucket_cons_ne hk]; grind
      · rw [if_pos rfl, if_neg he]
        by_cases hk : a = k'
        · subst hk; rw [bucket_cons_self, bucket_cons_self, me]; grind
        · rw [bucket_cons_ne hk, bucket_cons_ne hk]; grind
    · rw [if_neg hak]
      by_cases hk : a = k'
      · subst hk; rw [bucket_cons_self, bucket_cons_self]; grind
      · rw [bucket_cons_ne hk, bucket_cons_ne hk]; exact ih
theorem mem_bucket_delKey {s : Store} {k k' x : Nat} (h : (keys s).Nodup) :
    x ∈ bucket (delKey s k) k' ↔ x ∈ bucket s k' ∧ k' ≠ k := by
  induction s with
  | nil => simp [delKey, bucket]
  | cons p s ih =>
    obtain ⟨a, b⟩ := p
    have hn : a ∉ keys s := by simp [keys] at h ⊢; exact h.1
    have hs : (keys s).Nodup := by simp [keys] at h ⊢; exact h.2
    have hb := bucket_of_not_mem_keys hn
    have ih := ih hs
    simp only [delKey]
    by_cases hak : a = k
    · subst hak; rw [if_pos rfl]
      by_cases hk : a = k'
      · subst hk; rw [bucket_cons_self, hb]; simp
      · rw [bucket_cons_ne hk]; grind
    · rw [if_neg hak]
      by_cases hk : a = k'
      · subst hk; rw [bucket_cons_self, bucket_cons_self]; grind
      · rw [bucket_cons_ne hk, bucket_cons_ne hk]; exact ih

/-! ### invariants -/
theorem keys_nodup_cons {a : Nat} {b : List Nat} {s : Store} : (keys ((a, b) :: s)).Nodup ↔ a ∉ keys s ∧ (keys s).Nodup := by
  simp [keys]

theorem inv_addSet {s : Store} {k : Nat} {d} (h : Inv s) : Inv (addSet s k d) := by
  induction s with
  | nil => exact ⟨by simp [addSet, keys], by intro p hp; simp [addSet] at hp; subst hp; exact nodup_union (by simp)⟩
  | cons p s ih =>
    obtain ⟨a, b⟩ := p
    obtain ⟨h1, h2⟩ := h
    have hc := keys_nodup_cons.1 h1
    have hs : Inv s := ⟨hc.2, fun p hp => h2 p (by simp [hp])⟩
    simp only [addSet]; split
    · refine ⟨keys_nodup_cons.2 hc, ?_⟩
      intro p hp; simp at hp; rcases hp with rfl | hp
      · exact nodup_union (h2 (a, b) (by simp))
      · exact h2 p (by simp [hp])
    · rename_i hak
      refine ⟨keys_nodup_cons.2 ⟨fun hm => ?_, (ih hs).1⟩, ?_⟩
      · rcases mem_keys_addSet.1 hm with hm | hm
        · exact hc.1 hm
        · exact hak hm
      · intro p hp; simp at hp; rcases hp with rfl | hp
        · exact h2 (a, b) (by simp)
        · exact (ih hs).2 p hp
theorem inv_addEntry {s : Store} {k v : Nat} (h : Inv s) : Inv (addEntry s k v) := by
  induction s with
  | nil => exact ⟨by simp [addEntry, keys], by intro p hp; simp [addEntry] at hp; subst hp; simp⟩
  | cons p s ih =>
    obtain ⟨a, b⟩ := p
    obtain ⟨h1, h2⟩ := h
    have hc := keys_nodup_cons.1 h1
    have hs : Inv s := ⟨hc.2, fun p hp => h2 p (by simp [hp])⟩
    simp only [addEntry]; split
    · refine ⟨keys_nodup_cons.2 hc, ?_⟩
      intro p hp; simp at hp; rcases hp with rfl | hp
      · exact nodup_insertNew (h2 (a, b) (by simp))
      · exact h2 p (by simp [hp])
    · rename_i hak
      refine ⟨keys_nodup_cons.2 ⟨fun hm => ?_, (ih hs).1⟩, ?_⟩
      · rcases mem_keys_addEntry.1 hm with hm | hm
        · exact hc.1 hm
        · exact hak hm
      · intro p hp; simp at hp; rcases hp with rfl | hp
        · exact h2 (a, b) (by simp)
        · exact (ih hs).2 p hp
theorem inv_rmSet {s : Store} {k : Nat} {d} (h : Inv s) : Inv (rmSet s k d) := by
  induction s with
  | nil => exact h
  | cons p s ih =>
    obtain ⟨a, b⟩ := p
    obtain ⟨h1, h2⟩ := h
    have hc := keys_nodup_cons.1 h1
    have hs : Inv s := ⟨hc.2, fun p hp => h2 p (by simp [hp])⟩
    simp only [rmSet]; split
    · split
      · exact hs
      · refine ⟨keys_nodup_cons.2 hc, ?_⟩
        intro p hp; simp at hp; rcases hp with rfl | hp
        · exact nodup_diff (h2 (a, b) (by simp))
        · exact h2 p (by simp [hp])
    · refine ⟨keys_nodup_cons.2 ⟨fun hm => hc.1 (mem_keys_rmSet hm), (ih hs).1⟩, ?_⟩
      intro p hp; simp at hp; rcases hp with rfl | hp
      · exact h2 (a, b) (by simp)
      · exact (ih hs).2 p hp
theorem inv_rmEntry {s : Store} {k v : Nat} (h : Inv s) : Inv (rmEntry s k v) := by
  induction s with
  | nil => exact h
  | cons p s ih =>
    obtain ⟨a, b⟩ := p
    obtain ⟨h1, h2⟩ := h
    have hc := keys_nodup_cons.1 h1
    have hs : Inv s := ⟨hc.2, fun p hp => h2 p (by simp [hp])⟩
    simp only [rmEntry]; split
    · split
      · exact hs
      · refine ⟨keys_nodup_cons.2 hc, ?_⟩
        intro p hp; simp at hp; rcases hp with rfl | hp
        · exact (h2 (a, b) (by simp)).sublist List.erase_sublist
        · exact h2 p (by simp [hp])
    · refine ⟨keys_nodup_cons.2 ⟨fun hm => hc.1 (mem_keys_rmEntry hm), (ih hs).1⟩, ?_⟩
      intro p hp; simp at hp; rcases hp with rfl | hp
      · exact h2 (a, b) (by simp)
      · exact (ih hs).2 p hp
theorem inv_delKey {s : Store} {k : Nat} (h : Inv s) : Inv (delKey s k) := by
  induction s with
  | nil => exact h
  | cons p s ih =>
    obtain ⟨a, b⟩ := p
    obtain ⟨h1, h2⟩ := h
    have hc := keys_nodup_cons.1 h1
    have hs : Inv s := ⟨hc.2, fun p hp => h2 p (by simp [hp])⟩
    simp only [delKey]; split
    · exact hs
    · refine ⟨keys_nodup_cons.2 ⟨fun hm => hc.1 (mem_keys_delKey hm), (ih hs).1⟩, ?_⟩
      intro p hp; simp at hp; rcases hp with rfl | hp
      · exact h2 (a, b) (by simp)
      · exact (ih hs).2 p hp

theorem inv_step {s : Store} (op : Op) (h : Inv s) : Inv (step s op) := by
  cases op <;> simp only [step]
  · exact inv_addSet h
  · exact inv_rmSet h
  · exact inv_addEntry h
  · exact inv_rmEntry h
  · exact inv_delKey h

/-- the structural invariant holds after every history of calls -/
theorem inv_run (ops : List Op) {s : Store} (h : Inv s) : Inv (run s ops) := by
  induction ops generalizing s with
  | nil => exact h
  | cons op ops ih => exact ih (inv_step op h)

/-! ### no empty bucket -/
theorem noEmpty_cons {a : Nat} {b : List Nat} {s : Store} : NoEmpty ((a, b) :: s) ↔ b ≠ [] ∧ NoEmpty s := by
  simp [NoEmpty]
theorem insertNew_ne_nil {b : List Nat} {v : Nat} : insertNew b v ≠ [] := by
  intro e; have := (mem_insertNew (b := b) (v := v) (x := v)).2 (Or.inr rfl); simp [e] at this

theorem noEmpty_addSet {s : Store} {k : Nat} {d} (hd : d ≠ []) (h : NoEmpty s) : NoEmpty (addSet s k d) := by
  induction s with
  | nil => simp only [addSet]; exact noEmpty_cons.2 ⟨union_ne_nil (Or.inr hd), h⟩
  | cons p s ih =>
    obtain ⟨a, b⟩ := p
    have hc := noEmpty_cons.1 h
    simp only [addSet]; split
    · exact noEmpty_cons.2 ⟨union_ne_nil (Or.inl hc.1), hc.2⟩
    · exact noEmpty_cons.2 ⟨hc.1, ih hc.2⟩
theorem noEmpty_addEntry {s : Store} {k v : Nat} (h : NoEmpty s) : NoEmpty (addEntry s k v) := by
  induction s with
  | nil => simp only [addEntry]; exact noEmpty_cons.2 ⟨by simp, h⟩
  | cons p s ih =>
    obtain ⟨a, b⟩ := p
    have hc := noEmpty_cons.1 h
    simp only [addEntry]; split
    · exact noEmpty_cons.2 ⟨insertNew_ne_nil, hc.2⟩
    · exact noEmpty_cons.2 ⟨hc.1, ih hc.2⟩
theorem noEmpty_rmSet {s : Store} {k : Nat} {d} (h : NoEmpty s) : NoEmpty (rmSet s k d) := by
  induction s with
  | nil => exact h
  | cons p s ih =>
    obtain ⟨a, b⟩ := p
    have hc := noEmpty_cons.1 h
    simp only [rmSet]; split
    · split
      · exact hc.2
      · rename_i he; exact noEmpty_cons.2 ⟨fun e => he (by simp [e]), hc.2⟩
    · exact noEmpty_cons.2 ⟨hc.1, ih hc.2⟩
theorem noEmpty_rmEntry {s : Store} {k v : Nat} (h : NoEmpty s) : NoEmpty (rmEntry s k v) := by
  induction s with
  | nil => exact h
  | cons p s ih =>
    obtain ⟨a, b⟩ := p
    have hc := noEmpty_cons.1 h
    simp only [rmEntry]; split
    · split
      · exact hc.2
      · rename_i he; exact noEmpty_cons.2 ⟨fun e => he (by simp [e]), hc.2⟩
    · exact noEmpty_cons.2 ⟨hc.1, ih hc.2⟩
theorem noEmpty_delKey {s : Store} {k : Nat} (h : NoEmpty s) : NoEmpty (delKey s k) := by
  induction s with
  | nil => exact h
  | cons p s ih =>
    obtain ⟨a, b⟩ := p
    have hc := noEmpty_cons.1 h
    simp only [delKey]; split
    · exact hc.2
    · exact noEmpty_cons.2 ⟨hc.1, ih hc.2⟩

theorem noEmpty_step {s : Store} (op : Op) (hg : op.Guarded) (h : NoEmpty s) : NoEmpty (step s op) := by
  cases op <;> simp only [step]
  · exact noEmpty_addSet hg h
  · exact noEmpty_rmSet h
  · exact noEmpty_addEntry h
  · exact noEmpty_rmEntry h
  · exact noEmpty_delKey h

theorem noEmpty_run (ops : List Op) (hg : ∀ op ∈ ops, op.Guarded) {s : Store} (h : NoEmpty s) : NoEmpty (run s ops) := by
  induction ops generalizing s with
  | nil => exact h
  | cons op ops ih =>
    exact ih (fun o ho => hg o (by simp [ho])) (noEmpty_step op (hg op (by simp)) h)

/-! ### the property: no residue -/

/-- A store without empty buckets whose every bucket reads empty is the empty dict. -/
theorem no_residue {s : Store} (h : NoEmpty s) (he : ∀ k, bucket s k = []) : s = [] := by
  cases s with
  | nil => rfl
  | cons p s => obtain ⟨a, b⟩ := p; exact absurd (by simpa [bucket] using he a) (noEmpty_cons.1 h).1

/-- **C11, register level.** After *any* history of guarded calls on a fresh `KeyedStorage`, if every entry that
    was added has been removed again (no key reads a member), the dict itself is empty — no key is left behind. -/
theorem run_no_residue (ops : List Op) (hg : ∀ op ∈ ops, op.Guarded)
    (he : ∀ k, bucket (run [] ops) k = []) : run [] ops = [] :=
  no_residue (noEmpty_run ops hg (by simp [NoEmpty])) he

/-- under the invariants a key exists exactly while it has a member -/
theorem mem_keys_iff_bucket {s : Store} (h : NoEmpty s) (hi : Inv s) {k : Nat} : k ∈ keys s ↔ bucket s k ≠ [] := by
  induction s with
  | nil => simp [keys, bucket]
  | cons p s ih =>
    obtain ⟨a, b⟩ := p
    have hc := noEmpty_cons.1 h
    have hk := keys_nodup_cons.1 hi.1
    have hs : Inv s := ⟨hk.2, fun p hp => hi.2 p (by simp [hp])⟩
    by_cases hak : a = k
    · subst hak; rw [bucket_cons_self]; simp [keys, hc.1]
    · rw [bucket_cons_ne hak, ← ih hc.2 hs]; simp [keys]; grind

/-- unguarded too: `rm_data_set` never leaves the key it worked on with an empty bucket -/
theorem rmSet_key_clean {s : Store} {k : Nat} {d} (hi : (keys s).Nodup) :
    k ∉ keys (rmSet s k d) ∨ bucket (rmSet s k d) k ≠ [] := by
  induction s with
  | nil => left; simp [rmSet, keys]
  | cons p s ih =>
    obtain ⟨a, b⟩ := p
    have hk := keys_nodup_cons.1 hi
    simp only [rmSet]
    by_cases hak : a = k
    · subst hak; rw [if_pos rfl]
      by_cases he : (diff b d).isEmpty = true
      · rw [if_pos he]; exact Or.inl hk.1
      · rw [if_neg he, bucket_cons_self]; right; intro e; exact he (by simp [e])
    · rw [if_neg hak, bucket_cons_ne hak]
      rcases ih hk.2 with h | h
      · left; simp [keys]; exact ⟨fun e => hak e.symm, by simpa [keys] using h⟩
      · exact Or.inr h

/-- entry calls are the singleton set calls -/
theorem addEntry_eq_addSet (s : Store) (k v : Nat) : addEntry s k v = addSet s k [v] := by
  induction s with
  | nil => simp [addEntry, addSet, union, insertNew]
  | cons p s ih => obtain ⟨a, b⟩ := p; simp [addEntry, addSet, union, ih]

/-- add then remove the same data on a key that did not exist restores the store -/
theorem rmSet_addSet_fresh {s : Store} {k : Nat} {d} (h : k ∉ keys s) : rmSet (addSet s k d) k d = s := by
  induction s with
  | nil =>
    have : diff (union [] d) d = [] := by
      apply List.eq_nil_iff_forall_not_mem.2; intro x hx
      have := mem_diff.1 hx; simp [mem_union] at this
    simp [addSet, rmSet, this]
  | cons p s ih =>
    obtain ⟨a, b⟩ := p
    simp only [keys, List.map_cons, List.mem_cons, not_or] at h
    have hak : a ≠ k := fun e => h.1 e.symm
    simp only [addSet, if_neg hak, rmSet]; rw [ih h.2]

/-- the abstract specification of a `KeyedStorage`: a plain relation key–member -/
def absStep (R : Nat → Nat → Prop) : Op → Nat → Nat → Prop
  | .addSet k d => fun k' v => R k' v ∨ (k' = k ∧ v ∈ d)
  | .rmSet k d => fun k' v => R k' v ∧ ¬ (k' = k ∧ v ∈ d)
  | .addEntry k x => fun k' v => R k' v ∨ (k' = k ∧ v = x)
  | .rmEntry k x => fun k' v => R k' v ∧ ¬ (k' = k ∧ v = x)
  | .delKey k => fun k' v => R k' v ∧ k' ≠ k

/-- **refinement**: every call history on a `KeyedStorage` reads like the relation obtained by adding and deleting
    pairs — nothing is kept that was removed, nothing is lost that was not (guarded or not) -/
theorem run_refines (ops : List Op) {s : Store} {R : Nat → Nat → Prop} (h : Inv s)
    (hr : ∀ k v, v ∈ bucket s k ↔ R k v) (k v : Nat) :
    v ∈ bucket (run s ops) k ↔ ops.foldl absStep R k v := by
  induction ops generalizing s R with
  | nil => exact hr k v
  | cons op ops ih =>
    refine ih (s := step s op) (R := absStep R op) (inv_step op h) (fun k' v' => ?_)
    cases op with
    | addSet a d => simp only [step, absStep]; rw [mem_bucket_addSet, hr]
    | rmSet a d => simp only [step, absStep]; rw [mem_bucket_rmSet h.1, hr]
    | addEntry a x => simp only [step, absStep]; rw [mem_bucket_addEntry, hr]
    | rmEntry a x => simp only [step, absStep]; rw [mem_bucket_rmEntry h, hr]
    | delKey a => simp only [step, absStep]; rw [mem_bucket_delKey h.1, hr]

/-! ### the excluded point, decided: what the guard is for (replayed on the real class by the harness) -/
/-- `add_data_set(key, ())` on a missing key creates an empty bucket … -/
theorem unguarded_add_creates_empty_bucket : addSet [] 7 [] = [(7, [])] := by decide
/-- … which any later `rm_data_set` on that key deletes again (how `projection.unapply_projector` cleans it). -/
theorem rm_drops_empty_bucket (d : List Nat) : rmSet [(7, [])] 7 d = [] := by simp [rmSet, diff]

/-- non-vacuity: a real history meets the hypotheses of `run_no_residue` and ends empty with several keys used -/
def demoOps : List Op := [.addSet 1 [4, 5], .addEntry 2 4, .addEntry 1 6, .rmEntry 1 5, .rmSet 1 [4, 6, 9], .rmEntry 2 4]
example : (∀ op ∈ demoOps, op.Guarded) ∧ run [] demoOps = [] ∧ run [] (demoOps.take 4) = [(1, [4, 6]), (2, [4])] := by
  refine ⟨?_, by decide, by decide⟩
  intro op hop; simp [demoOps] at hop; rcases hop with rfl | rfl | rfl | rfl | rfl | rfl <;> simp [Op.Guarded]

end Eos.Keyed
