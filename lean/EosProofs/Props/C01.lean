import EosProofs.Lemmas.Machine
import EosProofs.Lemmas.Cascade
/-! # C01 — incrementally maintained values equal from-scratch values

Layer 1 (this file, fully proved): the abstract lazy-cache machine.  For *every* family of dependency
graphs, every history of reads and mutations whose removal sets are `Legal` leaves the cache coherent,
so everything readable equals the from-scratch value of the current configuration; how the configuration
was reached and what was read on the way never matters.  `Cascade.casc_spec` shows that the depth-first
`_force_recalc` + `AttrsValueChanged` cascade produces upward-closed removal sets (Legal's 2nd clause).

Layer 2 (see `EosProofs/Props/C01World.lean` when present): the eos instantiation — the dependency graph
of `EosModel/World.lean` and the handlers' removal sets. -/
namespace Eos.C01
open Eos.DepCache Eos.Machine

variable {C N V : Type}

/-- A fresh solar system (nothing cached) satisfies the invariant. -/
theorem inv_init (W : C → Graph N V) (c : C) : Good W { cfg := c, cache := fun _ => none } :=
  good_init W c

/-- One public call (read or mutation with a legal removal set) preserves the invariant. -/
theorem inv_step (W : C → Graph N V) (s : State C N V) (st : Step C N V)
    (hg : Good W s) (hl : Legal W s st) : Good W (step W s st) := good_step W s st hg hl

/-- ... hence every reachable state satisfies it (induction over the history; no bound on its length). -/
theorem inv_run (W : C → Graph N V) (steps : List (Step C N V)) (c : C)
    (hl : LegalRun W { cfg := c, cache := fun _ => none } steps) :
    Good W (run W { cfg := c, cache := fun _ => none } steps) :=
  good_run W steps _ (good_init W c) hl

/-- Every value readable after any history equals the from-scratch value of the final configuration. -/
theorem read_eq_spec (W : C → Graph N V) (steps : List (Step C N V)) (c : C)
    (hl : LegalRun W { cfg := c, cache := fun _ => none } steps) (n : N) :
    observe W (run W { cfg := c, cache := fun _ => none } steps) n =
      spec (W (run W { cfg := c, cache := fun _ => none } steps).cfg) n :=
  observe_eq_spec W _ (inv_run W steps c hl) n

/-- Two histories that end in the same configuration are indistinguishable: in particular a long mixed
history and the one-step "build it from scratch" history. -/
theorem incremental_eq_scratch (W : C → Graph N V) (steps steps' : List (Step C N V)) (c c' : C)
    (hl : LegalRun W { cfg := c, cache := fun _ => none } steps)
    (hl' : LegalRun W { cfg := c', cache := fun _ => none } steps')
    (hc : (run W { cfg := c, cache := fun _ => none } steps).cfg =
          (run W { cfg := c', cache := fun _ => none } steps').cfg) (n : N) :
    observe W (run W { cfg := c, cache := fun _ => none } steps) n =
      observe W (run W { cfg := c', cache := fun _ => none } steps') n := by
  rw [read_eq_spec W steps c hl, read_eq_spec W steps' c' hl', hc]

/-- The depth-first invalidation cascade only removes entries and leaves no cached reverse dependency of
anything it removed: its removal set is upward closed, which is the second clause of `Legal`. -/
theorem cascade_upward_closed [DecidableEq N] (rdeps : N → List N) (rank : N → Nat) (B : Nat)
    (hr : ∀ m x, x ∈ rdeps m → rank m < rank x) (hB : ∀ x, rank x < B)
    (K : Cascade.Cache N V) (n : N) :
    Cascade.Mono K (Cascade.casc rdeps (B - rank n) K n) ∧
    (∀ x, x ∈ rdeps n → Cascade.casc rdeps (B - rank n) K n x = none) ∧
    Cascade.Closed rdeps K (Cascade.casc rdeps (B - rank n) K n) :=
  Cascade.casc_spec rdeps rank B hr hB (B - rank n) K n (Nat.le_refl _)

/-- Non-vacuity: a two-node graph (`1` depends on `0`), one read then one legal mutation. -/
example : ∃ (W : Bool → Graph Nat Nat) (st : Step Bool Nat Nat),
    Legal W { cfg := true, cache := fun _ => none } st := by
  refine ⟨fun _ => { deps := fun n => if n = 1 then [0] else [], eval := fun n f => if n = 1 then f 0 else some 7,
                     rank := fun n => n, acyclic := ?_, eval_local := ?_ }, .read (fun _ => true), ?_⟩
  · intro n m hm; by_cases h : n = 1 <;> simp [h] at hm; omega
  · intro n f g h; by_cases hn : n = 1
    · simp [hn]; exact h 0 (by simp [hn])
    · simp [hn]
  · intro n _ m _ _; exact Or.inl rfl

end Eos.C01
