import EosModel.Range
import EosGen.Range
import Mathlib.Analysis.InnerProductSpace.PiL2
import Mathlib.Tactic.Ring
import Mathlib.Tactic.Linarith
/-! # C20 — range queries form a metric on item positions

Property theorems only.  `EosGen.Range` is regenerated from
`eos/solar_system/solar_system.py` on every run, so each statement below is about
what the code says now. -/
namespace Eos.C20
open Eos.Range

/-- The translated expression under `sqrt` is the squared Euclidean distance (over ℚ, all inputs). -/
theorem gen_ctcSq_eq_spec (a b : P3) :
    EosGen.Range.ctcSq a.x a.y a.z b.x b.y b.z = distSq a b := by
  simp only [EosGen.Range.ctcSq, distSq]

/-- The guard of the real method, run on every placement pair, is exactly "both here". -/
theorem gen_mismatch_eq_spec : EosGen.Range.mismatchTable = specTable := by decide

/-- Items that do not both belong to the queried solar system are rejected. -/
theorem mismatch_iff (p1 p2 : Place) : mismatch p1 p2 = false ↔ (p1 = .here ∧ p2 = .here) := by
  cases p1 <;> cases p2 <;> simp [mismatch]

abbrev E3 := EuclideanSpace ℝ (Fin 3)

/-- Centre-to-centre range as the code computes it, over the reals. -/
noncomputable def ctc (p q : E3) : ℝ :=
  Real.sqrt (EosGen.Range.ctcSq (p 0) (p 1) (p 2) (q 0) (q 1) (q 2))

/-- The centre-to-centre range is the Euclidean distance. -/
theorem ctc_eq_dist (p q : E3) : ctc p q = dist p q := by
  rw [EuclideanSpace.dist_eq, Fin.sum_univ_three]
  unfold ctc EosGen.Range.ctcSq
  congr 1
  simp only [Real.dist_eq, sq_abs]
  ring

theorem ctc_symm (p q : E3) : ctc p q = ctc q p := by
  rw [ctc_eq_dist, ctc_eq_dist, dist_comm]

theorem ctc_self (p : E3) : ctc p p = 0 := by
  rw [ctc_eq_dist, dist_self]

theorem ctc_eq_zero_iff (p q : E3) : ctc p q = 0 ↔ p = q := by
  rw [ctc_eq_dist, dist_eq_zero]

theorem ctc_nonneg (p q : E3) : 0 ≤ ctc p q := by
  rw [ctc_eq_dist]; exact dist_nonneg

theorem ctc_triangle (p q r : E3) : ctc p r ≤ ctc p q + ctc q r := by
  simp only [ctc_eq_dist]; exact dist_triangle p q r

/-- Surface-to-surface range as the code computes it. -/
noncomputable def sts (p q : E3) (r1 r2 : ℝ) : ℝ := EosGen.Range.sts (ctc p q) r1 r2

/-- ... equals the distance reduced by both radii, never below zero. -/
theorem sts_eq (p q : E3) (r1 r2 : ℝ) : sts p q r1 r2 = max 0 (dist p q - r1 - r2) := by
  unfold sts EosGen.Range.sts; rw [ctc_eq_dist]

theorem sts_nonneg (p q : E3) (r1 r2 : ℝ) : 0 ≤ sts p q r1 r2 := by
  rw [sts_eq]; exact le_max_left _ _

theorem sts_le_ctc (p q : E3) (r1 r2 : ℝ) (h1 : 0 ≤ r1) (h2 : 0 ≤ r2) : sts p q r1 r2 ≤ ctc p q := by
  rw [sts_eq, ctc_eq_dist]
  apply max_le dist_nonneg
  linarith

theorem sts_symm (p q : E3) (r1 r2 : ℝ) : sts p q r1 r2 = sts q p r2 r1 := by
  rw [sts_eq, sts_eq, dist_comm]; congr 1; ring

/-- Non-vacuity: a concrete pair at distance 5 with radii 1 and 2 gives 2. -/
example : EosGen.Range.sts (5 : ℚ) 1 2 = 2 := by decide +kernel
example : EosGen.Range.ctcSq (3 : ℚ) 4 0 0 0 0 = 25 := by decide +kernel

end Eos.C20
