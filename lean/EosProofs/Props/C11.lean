import EosModel.World
/-! # C11 — removal is complete

Spec level: every observable of `EosModel.World` is a function of the current configuration; an item
that is not part of it cannot be mentioned by any modification, and an empty configuration has an empty
value table.  (Residue-freedom of the registers is checked on the real code by the emptiness walk of
`tools/props/c11.py`; a register-level model is future work and is not claimed here.) -/
namespace Eos.C11
open Eos.World Eos.Calc

/-- Once everything has been removed there is nothing left to evaluate. -/
theorem evalAll_no_items (u : Universe) (cfg : Config) (immune limited : List Int) (pen : Nat → Rat)
    (h : cfg.items = []) : evalAll u cfg immune limited pen = [] := by
  unfold evalAll
  rw [h]
  simp only [List.map_nil, List.append_nil]
  induction u.attrs with
  | nil => rfl
  | cons a as ih => simpa using ih

/-- With no items in the configuration no modification is gathered for anything. -/
theorem gather_no_items (u : Universe) (cfg : Config) (immune : List Int) (rd : Reader) (x : Item)
    (tx : ItemType) (attr : Int) (h : cfg.items = []) :
    gather u cfg immune rd x tx attr = .ok [] := by
  unfold gather; rw [h]; rfl

/-- Two configurations with the same items, fits and source give the same table: a removed item or
fit (absent from both) has no way to influence what remains. -/
theorem removed_item_no_influence (u : Universe) (cfg cfg' : Config) (immune limited : List Int)
    (pen : Nat → Rat) (hi : cfg.items = cfg'.items) (hf : cfg.fits = cfg'.fits)
    (hs : cfg.hasSource = cfg'.hasSource) :
    evalAll u cfg immune limited pen = evalAll u cfg' immune limited pen := by
  cases cfg; cases cfg'; simp_all

example : evalAll {} {} [] [] (fun _ => 1) = [] := rfl

end Eos.C11
