import EosProofs.Lemmas.ContainersRefine
/-! # C07 — containers keep ownership and ordering invariants

Property theorems only, over the model `EosModel/Containers.lean`.  Racks are compared with the abstract
"list with holes" `slotAt l : position → item` (which item, if any, sits where); sets, `fit.skills` and
item dicts with abstract sets and key maps.  Worlds are everything reachable from the empty world by any
sequence of operations (no bound on the history). -/
namespace Eos.C07
open Eos.Containers

/-! ## ownership (I4) -/

/-- **I4 for every history**: after any operation sequence from the empty world, an item is in a place
iff its back-reference names that place, no place holds an item twice, racks end in an item. -/
theorem ownership_inv (U : Univ) (ops : List Op) : OwnInv (run U World.empty ops) :=
  (run_inv U (Inv.empty U) ops).own

/-- An item belongs to at most one place ... -/
theorem at_most_one_place {U : Univ} {s : World} (h : Reachable U s) {i : Nat} {p q : Place}
    (hp : i ∈ contents s p) (hq : i ∈ contents s q) : p = q := by
  have o := (reachable_inv h).own
  have h1 := (o.mem_iff p i).1 hp
  rw [(o.mem_iff q i).1 hq] at h1
  exact (Option.some.inj h1).symm

/-- ... and occurs there once. -/
theorem once_in_place {U : Univ} {s : World} (h : Reachable U s) (p : Place) : (contents s p).Nodup :=
  (reachable_inv h).own.nodup p

/-- Membership and the item's own view of its owner agree (`item._container` is `Place.ref` of it). -/
theorem owner_agrees {U : Univ} {s : World} (h : Reachable U s) (p : Place) (i : Nat) :
    i ∈ contents s p ↔ s.owner i = some p :=
  (reachable_inv h).own.mem_iff p i

/-- `item._fit` agrees with where the item is: the fit of the place, or — for charges and dict items —
whatever fit the parent item resolves to. -/
theorem fit_agrees {U : Univ} {s : World} (h : Reachable U s) {i : Nat} {p : Place} (hp : i ∈ contents s p)
    (n : Nat) : fitOf s (n + 1) i = match p.host with
      | .inl f => some f
      | .inr m => fitOf s n m := by
  have ho := (owner_agrees h p i).1 hp
  simp only [fitOf, ho]
  cases p.host <;> rfl

/-- An item that is nowhere resolves to no fit. -/
theorem unowned_no_fit {s : World} {i : Nat} (ho : s.owner i = none) (n : Nat) : fitOf s n i = none := by
  cases n <;> simp [fitOf, ho]

/-! ## module racks behave as the list with holes -/

/-- No trailing holes, in every reachable world. -/
theorem no_trailing_holes {U : Univ} {s : World} (h : Reachable U s) (f r : Nat) : NoTrail (s.lists f r) :=
  (reachable_inv h).own.noTrail f r

/-- `len(rack)` is exactly one past the last occupied position. -/
theorem length_is_bound {U : Univ} {s : World} (h : Reachable U s) (f r : Nat) :
    (∀ j, rackLen s f r ≤ j → slotAt (s.lists f r) j = none) ∧
    (s.lists f r ≠ [] → slotAt (s.lists f r) (rackLen s f r - 1) ≠ none) :=
  ⟨fun _ hj => slotAt_of_length_le hj, noTrail_last_occupied (no_trailing_holes h f r)⟩

/-- `place(index, item)`: the position the index denotes (Python negative indexing) was empty and now
holds the item; every other position is as before. -/
theorem place_refines {U : Univ} {s s' : World} (h : Reachable U s) {f r : Nat} {index : Int} {v : Option Nat}
    (he : step U s (.place f r index v) = (.ok, s')) :
    ∃ i k, v = some i ∧ (0 ≤ index → k = index.toNat) ∧ (index < 0 → (k : Int) = (s.lists f r).length + index) ∧
      slotAt (s.lists f r) k = none ∧
      ∀ j, slotAt (s'.lists f r) j = if j = k then some i else slotAt (s.lists f r) j := by
  rcases listPlace_cases U s f r index v (no_trailing_holes h f r) with ⟨_, e⟩ | ⟨i, hv, k, hp, hk, _, e⟩ <;>
    (simp only [step] at he; rw [e] at he; cases he)
  refine ⟨i, k, hv, fun h0 => pyIndex_nonneg hp h0, fun hneg => ?_, ?_, fun j => ?_⟩
  · have := pyIndex_neg hp hneg
    rwa [allocate_of_lt (by omega)] at this
  · simpa using slotAt_eq_none_of_getElem? hk
  · simp only [setOwner_lists, setList_lists_same]
    rw [slotAt_set (lt_length_of_getElem? hk)]
    simp

/-- `equip(item)` fills the first hole (the position just past the end when there is none). -/
theorem equip_refines {U : Univ} {s s' : World} (h : Reachable U s) {f r : Nat} {v : Option Nat}
    (he : step U s (.equip f r v) = (.ok, s')) :
    ∃ i k, v = some i ∧ (∀ j, j < k → slotAt (s.lists f r) j ≠ none) ∧ slotAt (s.lists f r) k = none ∧
      ∀ j, slotAt (s'.lists f r) j = if j = k then some i else slotAt (s.lists f r) j := by
  rcases listEquip_cases U s f r v (no_trailing_holes h f r) with ⟨_, e⟩ | ⟨i, hv, _, ⟨k, hk, hmin, e⟩ | ⟨hno, e⟩⟩ <;>
    (simp only [step] at he; rw [e] at he; cases he)
  · have hlt := lt_length_of_getElem? hk
    refine ⟨i, k, hv, fun j hj => slotAt_ne_none_of_not_hole (by omega) (hmin j hj),
      slotAt_eq_none_of_getElem? hk, fun j => ?_⟩
    simp only [setOwner_lists, setList_lists_same]
    exact slotAt_set hlt _ j
  · refine ⟨i, (s.lists f r).length, hv, fun j hj => slotAt_ne_none_of_not_hole hj ?_,
      slotAt_of_length_le (Nat.le_refl _), fun j => ?_⟩
    · intro hh; exact hno (List.mem_of_getElem? hh)
    · simp only [setOwner_lists, setList_lists_same]
      exact slotAt_append_singleton _ _ j

/-- `append(item)` puts the item just past the end, i.e. after every item. -/
theorem append_refines {U : Univ} {s s' : World} {f r : Nat} {v : Option Nat}
    (he : step U s (.append f r v) = (.ok, s')) :
    ∃ i, v = some i ∧ ∀ j, slotAt (s'.lists f r) j = if j = rackLen s f r then some i else slotAt (s.lists f r) j := by
  rcases listAppend_cases U s f r v with e | ⟨i, _, _, e⟩ | ⟨i, hv, _, e⟩ <;>
    (simp only [step] at he; rw [e] at he; cases he)
  refine ⟨i, hv, fun j => ?_⟩
  simp only [setOwner_lists, setList_lists_same]
  exact slotAt_append_singleton _ _ j

/-- `insert(index, value)` (value an item or `None`): positions before the insertion point keep their
content, the point takes the value, everything after shifts up by one.  The point is `index`, or for a
negative index `max(len + index, 0)`. -/
theorem insert_refines {U : Univ} {s s' : World} (h : Reachable U s) {f r : Nat} {index : Int} {v : Option Nat}
    (he : step U s (.insert f r index v) = (.ok, s')) :
    ∃ k, (0 ≤ index → k = index.toNat) ∧ (index < 0 → k = ((s.lists f r).length + index).toNat) ∧
      ∀ j, slotAt (s'.lists f r) j =
        if j < k then slotAt (s.lists f r) j else if j = k then v else slotAt (s.lists f r) (j - 1) := by
  have hk1 : 0 ≤ index → insPos (s.lists f r) index = index.toNat := fun h0 => by
    unfold insPos; rw [if_neg (by omega)]
  have hk2 : index < 0 → insPos (s.lists f r) index = ((s.lists f r).length + index).toNat := fun hn => by
    unfold insPos; rw [if_pos hn, allocate_of_lt (by omega)]
  have hsl := fun v j => slotAt_pyInsert (insPos_le (s.lists f r) index) v j
  rcases listInsert_cases U s f r index v (no_trailing_holes h f r) with e | ⟨hv, e⟩ | ⟨i, _, _, e⟩ | ⟨i, hv, _, e⟩ <;>
    (simp only [step] at he; rw [e] at he; cases he)
  · refine ⟨_, hk1, hk2, fun j => ?_⟩
    simp only [setList_lists_same, slotAt_cleanup, hsl, slotAt_allocate, hv]
  · refine ⟨_, hk1, hk2, fun j => ?_⟩
    simp only [setOwner_lists, setList_lists_same, hsl, slotAt_allocate, hv]

/-- `free(index)`: that position becomes a hole, all other positions keep their content. -/
theorem freeIdx_refines {U : Univ} {s s' : World} {f r : Nat} {index : Int}
    (he : step U s (.freeIdx f r index) = (.ok, s')) :
    ∃ k, pyIndex (rackLen s f r) index = some k ∧
      ∀ j, slotAt (s'.lists f r) j = if j = k then none else slotAt (s.lists f r) j := by
  rcases listAtIdx_cases listFreeAt s f r index with e | ⟨k, hp, hk, e⟩ <;> (simp only [step] at he; rw [e] at he)
  · cases he
  · refine ⟨k, hp, fun j => ?_⟩
    rw [← listFreeAt_slotAt s f r k hk j, he]

/-- `free(item)`: the first position holding the item becomes a hole, nothing else moves. -/
theorem freeVal_refines {U : Univ} {s s' : World} {f r : Nat} {v : Option Nat}
    (he : step U s (.freeVal f r v) = (.ok, s')) :
    ∃ k, (s.lists f r)[k]? = some v ∧ (∀ j, j < k → (s.lists f r)[j]? ≠ some v) ∧
      ∀ j, slotAt (s'.lists f r) j = if j = k then none else slotAt (s.lists f r) j := by
  rcases listAtVal_cases listFreeAt s f r v with e | ⟨k, hk, hmin, e⟩ <;> (simp only [step] at he; rw [e] at he)
  · cases he
  · refine ⟨k, hk, hmin, fun j => ?_⟩
    rw [← listFreeAt_slotAt s f r k (lt_length_of_getElem? hk) j, he]

/-- `remove(index)`: positions before keep their content, positions after shift down by one. -/
theorem removeIdx_refines {U : Univ} {s s' : World} {f r : Nat} {index : Int}
    (he : step U s (.removeIdx f r index) = (.ok, s')) :
    ∃ k, pyIndex (rackLen s f r) index = some k ∧
      ∀ j, slotAt (s'.lists f r) j = if j < k then slotAt (s.lists f r) j else slotAt (s.lists f r) (j + 1) := by
  rcases listAtIdx_cases listRemoveAt s f r index with e | ⟨k, hp, _, e⟩ <;> (simp only [step] at he; rw [e] at he)
  · cases he
  · refine ⟨k, hp, fun j => ?_⟩
    rw [← listRemoveAt_slotAt s f r k j, he]

/-- `remove(item or None)`: the same at the first position holding the value. -/
theorem removeVal_refines {U : Univ} {s s' : World} {f r : Nat} {v : Option Nat}
    (he : step U s (.removeVal f r v) = (.ok, s')) :
    ∃ k, (s.lists f r)[k]? = some v ∧ (∀ j, j < k → (s.lists f r)[j]? ≠ some v) ∧
      ∀ j, slotAt (s'.lists f r) j = if j < k then slotAt (s.lists f r) j else slotAt (s.lists f r) (j + 1) := by
  rcases listAtVal_cases listRemoveAt s f r v with e | ⟨k, hk, hmin, e⟩ <;> (simp only [step] at he; rw [e] at he)
  · cases he
  · refine ⟨k, hk, hmin, fun j => ?_⟩
    rw [← listRemoveAt_slotAt s f r k j, he]

/-- `clear()` empties the rack and releases every item it held. -/
theorem clear_refines (U : Univ) (s : World) (f r : Nat) :
    (step U s (.clear f r)).1 = .ok ∧ (step U s (.clear f r)).2.lists f r = [] ∧
    ∀ i, i ∈ items (s.lists f r) → (step U s (.clear f r)).2.owner i = none := by
  refine ⟨rfl, by simp [step, listClear], fun i hi => ?_⟩
  simp [step, listClear, hi]

/-- Whatever the operation, on every rack the items that stay keep their relative order: the item sequence
before is a subsequence of the one after, or the other way round (one item enters or leaves). -/
theorem rack_order_kept {U : Univ} {s : World} (h : Reachable U s) (op : Op) (f r : Nat) :
    (items (s.lists f r)).Sublist (items ((step U s op).2.lists f r)) ∨
    (items ((step U s op).2.lists f r)).Sublist (items (s.lists f r)) :=
  (step_rack_items U (reachable_inv h).own op f r).sublist

/-- A rack operation leaves every other rack exactly as it was. -/
theorem other_racks_untouched (U : Univ) (s : World) (op : Op) (f r : Nat) (hne : op.rackTarget ≠ some (f, r)) :
    (step U s op).2.lists f r = s.lists f r :=
  step_lists_same U s op f r hne

/-! ## sets -/

/-- `ItemSet.add`: on success the set gained exactly that item (which was in no place before). -/
theorem set_add_refines {U : Univ} {s s' : World} (h : Reachable U s) {f k : Nat} {v : Option Nat}
    (he : step U s (.setAdd f k v) = (.ok, s')) :
    ∃ i, v = some i ∧ s.owner i = none ∧ ∀ x, x ∈ s'.sets (.plain f k) ↔ x = i ∨ x ∈ s.sets (.plain f k) := by
  rcases setAdd_cases U s (.plain f k) v with e | ⟨i, _, _, e⟩ | ⟨i, hv, hi, e⟩ <;>
    (simp only [step] at he; rw [e] at he; cases he)
  refine ⟨i, hv, hi, fun x => ?_⟩
  simp [setAdd_ok_eq (reachable_inv h).own hi]

/-- `ItemSet.remove`: on success the set lost exactly that item. -/
theorem set_remove_refines {U : Univ} {s s' : World} (h : Reachable U s) {f k : Nat} {v : Option Nat}
    (he : step U s (.setRemove f k v) = (.ok, s')) :
    ∃ i, v = some i ∧ s'.owner i = none ∧ ∀ x, x ∈ s'.sets (.plain f k) ↔ x ≠ i ∧ x ∈ s.sets (.plain f k) := by
  rcases setRemove_cases s (.plain f k) v with e | ⟨i, hv, _, e⟩ <;> (simp only [step] at he; rw [e] at he; cases he)
  have hnd : (s.sets (.plain f k)).Nodup := (reachable_inv h).own.nodup (.set (.plain f k))
  refine ⟨i, hv, by simp, fun x => ?_⟩
  simpa using hnd.mem_erase_iff

theorem set_clear_refines (U : Univ) (s : World) (f k : Nat) :
    (step U s (.setClear f k)).2.sets (.plain f k) = [] ∧
    ∀ i, i ∈ s.sets (.plain f k) → (step U s (.setClear f k)).2.owner i = none := by
  refine ⟨by simp [step, setClear], fun i hi => ?_⟩
  simp [step, setClear, hi]

/-! ## type-unique set (`fit.skills`) -/

/-- One item per type id. -/
theorem typeUnique_one_per_type {U : Univ} {s : World} (h : Reachable U s) (f : Nat) {i j : Nat}
    (hi : i ∈ s.sets (.skills f)) (hj : j ∈ s.sets (.skills f)) (ht : U.tid i = U.tid j) : i = j := by
  have h1 := (reachable_inv h).tu_lookup hi
  have h2 := (reachable_inv h).tu_lookup hj
  rw [ht, h2] at h1
  exact (Option.some.inj h1).symm

/-- Key lookup agrees with the contents: `skills[t]` is the item of type `t` in the set, KeyError iff none. -/
theorem typeUnique_lookup {U : Univ} {s : World} (h : Reachable U s) (f t i : Nat) :
    keyedGet s (.skills f) t = some i ↔ i ∈ s.sets (.skills f) ∧ U.tid i = t := by
  obtain ⟨hk, hkey⟩ := (reachable_inv h).tu f
  constructor
  · intro hl
    exact ⟨hk.lookup_mem hl, (hkey _ (lookupKey_some_mem hl)).symm⟩
  · rintro ⟨hi, rfl⟩
    exact (reachable_inv h).tu_lookup hi

/-- `TypeUniqueItemSet.add` succeeds only for a type id not yet present, and then adds exactly the item. -/
theorem typeUnique_add_refines {U : Univ} {s s' : World} (h : Reachable U s) {f : Nat} {v : Option Nat}
    (he : step U s (.tuAdd f v) = (.ok, s')) :
    ∃ i, v = some i ∧ (∀ j, j ∈ s.sets (.skills f) → U.tid j ≠ U.tid i) ∧
      ∀ x, x ∈ s'.sets (.skills f) ↔ x = i ∨ x ∈ s.sets (.skills f) := by
  simp only [step, tuAdd] at he
  cases v with
  | none => cases he
  | some i =>
    rcases keyedAdd_cases U s (.skills f) (U.tid i) (some i) with ⟨_, e⟩ | ⟨j, hj, hl, ho, e⟩ <;>
      (simp only at he; rw [e] at he; cases he)
    cases hj
    refine ⟨i, rfl, fun j hj ht => ?_, fun x => ?_⟩
    · have := (reachable_inv h).tu_lookup hj
      rw [ht, hl] at this; cases this
    · simp [setAdd_ok_eq (reachable_inv h).own ho]

/-- Removing by item or by type id takes exactly that item out (set and key map together). -/
theorem typeUnique_remove_refines {U : Univ} {s s' : World} (h : Reachable U s) {f : Nat} {v : Option Nat}
    (he : step U s (.tuRemove f v) = (.ok, s')) :
    ∃ i, v = some i ∧ (∀ x, x ∈ s'.sets (.skills f) ↔ x ≠ i ∧ x ∈ s.sets (.skills f)) ∧
      keyedGet s' (.skills f) (U.tid i) = none := by
  simp only [step, tuRemove] at he
  cases v with
  | none => cases he
  | some i =>
    rcases keyedRemove_cases s (.skills f) (U.tid i) (some i) with e | ⟨j, _, _, _, e⟩ | ⟨j, hj, _, _, e⟩ <;>
      (simp only at he; rw [e] at he; cases he)
    cases hj
    have hnd : (s.sets (.skills f)).Nodup := (reachable_inv h).own.nodup (.set (.skills f))
    refine ⟨i, rfl, fun x => ?_, ?_⟩
    · simpa using hnd.mem_erase_iff
    · simp [keyedGet, lookupKey_delKey]

/-! ## item dict -/

/-- Keys and values of an `ItemDict` describe its inner set: every value is in the set, every member is
stored under some key, and `len` counts both the same. -/
theorem dict_agrees {U : Univ} {s : World} (h : Reachable U s) (m : Nat) :
    (∀ k i, keyedGet s (.auto m) k = some i → i ∈ s.sets (.auto m)) ∧
    (∀ i, i ∈ s.sets (.auto m) → ∃ k, keyedGet s (.auto m) k = some i) ∧
    keyedLen s (.auto m) = setLen s (.auto m) :=
  have hk := (reachable_inv h).dict m
  ⟨fun _ _ hl => hk.lookup_mem hl, fun _ hi => hk.mem_lookup hi, hk.len⟩

/-- `d[key] = item` on success: the key was free, now maps to the item; other keys unchanged. -/
theorem dict_set_refines {U : Univ} {s s' : World} {m key : Nat} {v : Option Nat}
    (he : step U s (.dictSet m key v) = (.ok, s')) :
    ∃ i, v = some i ∧ keyedGet s (.auto m) key = none ∧
      ∀ k, keyedGet s' (.auto m) k = if key = k then some i else keyedGet s (.auto m) k := by
  rcases keyedAdd_cases U s (.auto m) key v with ⟨_, e⟩ | ⟨i, hv, hl, _, e⟩ <;>
    (simp only [step] at he; rw [e] at he; cases he)
  exact ⟨i, hv, hl, fun k => by simp [keyedGet, lookupKey_cons]⟩

/-- `del d[key]` on success: the key is gone, its item released; other keys unchanged. -/
theorem dict_del_refines {U : Univ} {s s' : World} {m key : Nat}
    (he : step U s (.dictDel m key) = (.ok, s')) :
    ∃ i, keyedGet s (.auto m) key = some i ∧ s'.owner i = none ∧
      ∀ k, keyedGet s' (.auto m) k = if k = key then none else keyedGet s (.auto m) k := by
  simp only [step, dictDel] at he
  split at he
  · cases he
  · rename_i i hl
    rcases keyedRemove_cases s (.auto m) key (some i) with e | ⟨j, _, _, _, e⟩ | ⟨j, hj, _, _, e⟩ <;>
      (rw [e] at he; cases he)
    cases hj
    exact ⟨i, hl, by simp, fun k => by simp [keyedGet, lookupKey_delKey]⟩

/-! ## single-item descriptors -/

/-- `fit.ship = x`, `module.charge = x`, ...: on success the slot holds `x`, the previous item (if another)
is released, and no other descriptor changes. -/
theorem single_refines {U : Univ} {s s' : World} (h : Reachable U s) {c : SlotId} {v : Option Nat}
    (he : step U s (.assign c v) = (.ok, s')) :
    s'.slots c = v ∧ (∀ c', c' ≠ c → s'.slots c' = s.slots c') ∧
    (∀ o, s.slots c = some o → some o ≠ v → s'.owner o = none) := by
  rcases assign_cases U (reachable_inv h).own c v with ⟨_, e⟩ | ⟨hv, e⟩ | ⟨i, hv, _, e⟩ <;>
    (simp only [step] at he; rw [e] at he; cases he)
  · refine ⟨by simp [hv], fun c' hc => ?_, fun o ho _ => ?_⟩
    · cases hs : s.slots c <;> simp [upd_other _ _ hc]
    · simp [ho]
  · refine ⟨by simp [hv], fun c' hc => ?_, fun o ho hne => ?_⟩
    · cases hs : s.slots c <;> simp [upd_other _ _ hc]
    · have : o ≠ i := fun e => hne (by rw [hv, e])
      simp [ho, upd_other _ _ this]

/-! ## views agree with the abstract model -/

/-- `len`, `in` and `items()` of a rack are the length, membership and hole-free sub-list of the same list;
`None` is never `in` the item view. -/
theorem rack_views_agree (s : World) (f r : Nat) :
    rackLen s f r = (s.lists f r).length ∧ rackItemsLen s f r = (items (s.lists f r)).length ∧
    (∀ v, rackContains s f r v = true ↔ v ∈ s.lists f r) ∧
    (∀ i, rackItemsContains s f r (some i) = true ↔ i ∈ items (s.lists f r)) ∧
    rackItemsContains s f r none = false ∧
    (∀ i, i ∈ items (s.lists f r) ↔ ∃ j, slotAt (s.lists f r) j = some i) := by
  refine ⟨rfl, rfl, fun v => by simp [rackContains], fun i => by simp [rackItemsContains, mem_items], rfl, fun i => ?_⟩
  rw [mem_items, List.mem_iff_getElem?]
  constructor
  · rintro ⟨j, hj⟩; exact ⟨j, by simp [slotAt, hj]⟩
  · rintro ⟨j, hj⟩
    refine ⟨j, ?_⟩
    simp only [slotAt] at hj
    cases hx : (s.lists f r)[j]? with
    | none => simp [hx] at hj
    | some x => cases x <;> simp_all

/-- `len(set)` / `x in set` are length / membership of the duplicate-free storage; for `fit.skills` the key
map has as many entries as the set has items. -/
theorem set_views_agree {U : Univ} {s : World} (h : Reachable U s) (c : SetId) :
    setLen s c = (s.sets c).length ∧ (s.sets c).Nodup ∧ (∀ i, setContains s c i = true ↔ i ∈ s.sets c) ∧
    (∀ f, c = .skills f → keyedLen s c = setLen s c) := by
  refine ⟨rfl, (reachable_inv h).own.nodup (.set c), fun i => by simp [setContains], fun f hc => ?_⟩
  subst hc; exact ((reachable_inv h).tu f).1.len

/-! ### non-vacuity (kernel-evaluated on the model) -/

def exU : Univ := { cls := fun i => if i < 4 then .modHigh else if i < 6 then .skill else .charge, tid := fun i => i % 2 }
def exOps : List Op := [.place 0 0 3 (some 0), .insert 0 0 1 (some 1), .freeVal 0 0 (some 1), .equip 0 0 (some 2)]

example : Reachable exU (run exU World.empty exOps) := ⟨exOps, rfl⟩
example : (run exU World.empty exOps).lists 0 0 = [some 2, none, none, none, some 0] := by decide
example : (step exU (run exU World.empty exOps) (.removeIdx 0 0 (-1))).2.lists 0 0 = [some 2] := by decide
example : (step exU (run exU World.empty exOps) (.insert 0 0 (-7) (some 3))).2.lists 0 0 =
    [some 3, some 2, none, none, none, some 0] := by decide
example : fitOf (run exU World.empty (exOps ++ [.assign (.charge 2) (some 6)])) 4 6 = some 0 := by decide
example : (step exU (run exU World.empty [.tuAdd 0 (some 4)]) (.tuAdd 0 (some 5))).1 = .ok := by decide
example : keyedGet (run exU World.empty [.tuAdd 0 (some 4), .tuAdd 0 (some 5)]) (.skills 0) 1 = some 5 := by decide

end Eos.C07
