import EosModel.Cleaner
import EosGen.CleanerRefs
import EosProofs.Lemmas.Cleaner
/-! # C18 — the data build keeps exactly what is reachable and leaves nothing dangling

Property theorems only. `EosGen.Cleaner` is regenerated on every run by running the real
`Cleaner`, `Converter`, `ValidatorPreClean`, `Normalizer` and `ValidatorPreConv` of /repo on
minimal data sets; the `gen_*_eq_spec` theorems tie the fixed hand-written specification
(`specRefs`, `specAux`, ...) the other theorems are about to what the code does now.
All theorems hold for every raw data set (no bound on the number of rows, on ids or on the
shape of the reference graph). -/
namespace Eos.C18
open Eos.Cleaner

/-! ## the specification is what the code does (regenerated obligations) -/

/-- The effective reference relation of `Cleaner` (every edge observed by running it) is the documented one. -/
theorem gen_refs_eq_spec :
    (∀ r ∈ EosGen.Cleaner.cleanerRefs, r ∈ specRefs) ∧ (∀ r ∈ specRefs, r ∈ EosGen.Cleaner.cleanerRefs) := by
  decide

/-- The auxiliary tables are the four type-complementing tables. -/
theorem gen_aux_eq_spec : EosGen.Cleaner.auxTables = specAux := by decide

/-- "Supported categories and groups": what `_pump_evetypes` marks strong is charge, drone, fighter, implant,
    module, ship, skill, subsystem and the groups character and effect beacon. -/
theorem gen_strong_eq_spec :
    EosGen.Cleaner.strongCategories = specStrongCategories ∧ EosGen.Cleaner.strongGroups = specStrongGroups := by
  decide

/-- Every field the converter / modifier builder / buff template builder puts into an id slot of a built
    object is one the specification lists ... -/
theorem gen_conv_eq_spec :
    (∀ r ∈ EosGen.Cleaner.converterIdRefs, r ∈ specConvRefs) ∧
      (∀ r ∈ specConvRefs, r ∈ EosGen.Cleaner.converterIdRefs) := by
  decide

/-- ... and is followed by the cleaner. -/
theorem refs_cover_converter : ∀ c ∈ EosGen.Cleaner.converterIdRefs, c ∈ specRefs := by decide

theorem spec_refs_cover_converter : ∀ c ∈ specConvRefs, c ∈ specRefs := by decide

/-- Primary keys, the normalizer's attribute map and the rack effects the validators use. -/
theorem gen_pk_eq_spec : EosGen.Cleaner.pkCols = allTables.map fun t => (t, specPk t) := by decide

theorem gen_norm_eq_spec : EosGen.Cleaner.normAttrs = specNormAttrs := by decide

theorem gen_rack_eq_spec : EosGen.Cleaner.rackEffects = specRackEffects := by decide

/-! ## the cleaner's fixed point -/

/-- The rows the cleaner can restore: reachable from a strong row through the auxiliary-table rule and the
    reference relation, inside the data. -/
abbrev Reachable (d : List Row) : Row → Prop :=
  Reach (auxEdge specAux) (refEdge specRefs) (isStrong d) d

/-- Which rows are strong: item types whose group is character / effect beacon or belongs to a supported category. -/
theorem strong_iff (d : List Row) (r : Row) : isStrong d r = true ↔
    r.tbl = .evetypes ∧
      ((∃ g ∈ specStrongGroups, Val.pyEq (r.get "groupID") (Val.ofInt g) = true) ∨
       ∃ grp ∈ d, grp.tbl = .evegroups ∧
         (∃ c ∈ specStrongCategories, Val.pyEq (grp.get "categoryID") (Val.ofInt c) = true) ∧
         Val.pyEq (r.get "groupID") (grp.get "groupID") = true) := by
  simp only [isStrong, strongGroupIds, Bool.and_eq_true, decide_eq_true_eq, List.any_eq_true,
    List.mem_append, List.mem_map, List.mem_filter]
  constructor
  · rintro ⟨h, g, (⟨i, hi, rfl⟩ | ⟨grp, ⟨hgrp, ht, c, hc, hcat⟩, rfl⟩), hg⟩
    · exact ⟨h, Or.inl ⟨i, hi, hg⟩⟩
    · exact ⟨h, Or.inr ⟨grp, hgrp, ht, ⟨c, hc, hcat⟩, hg⟩⟩
  · rintro ⟨h, (⟨i, hi, hg⟩ | ⟨grp, hgrp, ht, ⟨c, hc, hcat⟩, hg⟩)⟩
    · exact ⟨h, _, Or.inl ⟨i, hi, rfl⟩, hg⟩
    · exact ⟨h, _, Or.inr ⟨grp, ⟨hgrp, ht, c, hc, hcat⟩, rfl⟩, hg⟩

/-- The restore loop stops within its fuel (each productive turn restores at least one row, so `d.length`
    turns suffice): the result is a fixed point of a whole turn and more fuel changes nothing. -/
theorem clean_terminates (d : List Row) :
    round (auxEdge specAux) (refEdge specRefs) d (clean d) = clean d ∧
      ∀ k, iter (auxEdge specAux) (refEdge specRefs) d (d.length + k) (d.filter (isStrong d)) = clean d := by
  refine ⟨cleanG_fix, fun k => ?_⟩
  rw [iter_add]
  exact iter_of_stall (congrArg List.length (cleanG_fix (strong := isStrong d))) k

/-- Every turn that is not the last one restores at least one row. -/
theorem clean_productive (d live : List Row) (h : IsFilt d live) :
    live.length ≤ (round (auxEdge specAux) (refEdge specRefs) d live).length ∧
      ((round (auxEdge specAux) (refEdge specRefs) d live).length = live.length →
        round (auxEdge specAux) (refEdge specRefs) d live = live) :=
  round_step h

/-- Every item type of the supported categories and groups is kept. -/
theorem strong_kept (d : List Row) : ∀ r ∈ d, isStrong d r = true → r ∈ clean d :=
  fun _ hr hs => mem_cleanG_iff.2 (Reach.base hr hs)

/-- Closure: a kept row never points at a trashed row, neither through a reference (group, attribute, effect,
    skill type, autocharge type, buff, modifier-info and buff-modifier ids) nor through the auxiliary rule. -/
theorem clean_closed (d : List Row) : ∀ s ∈ clean d, ∀ r ∈ d,
    (refEdge specRefs s r = true ∨ auxEdge specAux s r = true) → r ∈ clean d :=
  fun _ hs _ hr he => cleanG_closed hs hr he.symm

/-- Only rows of the data are kept, each at most as often as it occurs, in the original order. -/
theorem clean_sublist (d : List Row) : (clean d).Sublist d := by
  obtain ⟨p, hp⟩ := isFilt_cleanG (aux := auxEdge specAux) (ref := refEdge specRefs) (strong := isStrong d) (rows := d)
  show (cleanG _ _ _ d).Sublist d
  rw [hp]; exact List.filter_sublist

/-- Exactly what is reachable is kept: nothing unreferenced survives, nothing referenced is lost. -/
theorem clean_minimal (d : List Row) (r : Row) : r ∈ clean d ↔ Reachable d r := mem_cleanG_iff

/-- The kept set is the least set of rows that contains the strong rows and is closed under the rules. -/
theorem clean_least (d : List Row) (S : Row → Prop)
    (hstrong : ∀ r ∈ d, isStrong d r = true → S r)
    (hclosed : ∀ s r, S s → r ∈ d → (refEdge specRefs s r = true ∨ auxEdge specAux s r = true) → S r) :
    ∀ r ∈ clean d, S r := by
  intro r hr
  have hreach := (clean_minimal d r).1 hr
  clear hr
  induction hreach with
  | base h1 h2 => exact hstrong _ h1 h2
  | aux _ h1 he ih => exact hclosed _ _ ih h1 (Or.inr he)
  | ref _ h1 he ih => exact hclosed _ _ ih h1 (Or.inl he)

/-- Set semantics: storing the rows in another order (hash iteration order of the Python sets) gives the
    same kept rows. -/
theorem clean_order_independent (d d' : List Row) (h : d.Perm d') : (clean d).Perm (clean d') := by
  have hs : isStrong d = isStrong d' := by
    funext r
    rw [Bool.eq_iff_iff, strong_iff, strong_iff]
    constructor
    · rintro ⟨ht, hg | ⟨grp, hgrp, hrest⟩⟩
      · exact ⟨ht, Or.inl hg⟩
      · exact ⟨ht, Or.inr ⟨grp, h.mem_iff.1 hgrp, hrest⟩⟩
    · rintro ⟨ht, hg | ⟨grp, hgrp, hrest⟩⟩
      · exact ⟨ht, Or.inl hg⟩
      · exact ⟨ht, Or.inr ⟨grp, h.mem_iff.2 hgrp, hrest⟩⟩
  show (cleanG _ _ (isStrong d) d).Perm (cleanG _ _ (isStrong d') d')
  rw [hs]
  exact cleanG_perm h

/-- Running "broken relationships" before "auxiliary friends" in every turn gives the same result. -/
theorem clean_phase_order_independent (d : List Row) :
    cleanG (refEdge specRefs) (auxEdge specAux) (isStrong d) d = clean d := cleanG_swap

/-! ## first row wins -/

/-- Primary keys: for every key exactly the first row (by `table_pos`) that has it survives; rows without a
    complete Integral key do not survive at all. -/
theorem pk_first_wins (rows : List Row) (k : Tbl × List Rat) :
    (preclean rows).filter (fun r => decide (pkOf r = some k)) =
      (rows.find? fun r => decide (pkOf r = some k)).toList := by
  unfold preclean
  rw [firstWins_filter_key (by intro r r' h; cases h) k]
  simp only [List.not_mem_nil, if_false, List.find?_filter]
  congr 2
  funext r
  by_cases h : pkOf r = some k <;> simp [h]

theorem pk_valid (rows : List Row) : ∀ r ∈ preclean rows, (pkOf r).isSome = true := by
  intro r hr
  rcases mem_firstWins _ _ hr with h | ⟨_, _, _, h⟩
  · exact (List.mem_filter.1 h).2
  · cases h

/-- The surviving rows are a sub-list of the raw rows (nothing invented, order kept). -/
theorem preclean_sublist (rows : List Row) : (preclean rows).Sublist rows :=
  (firstWins_drop_sublist _ _).trans List.filter_sublist

/-- Surplus default effects: of the rows of one type that claim to be the default, the first one (by
    `table_pos`) keeps the claim. -/
theorem default_effect_first_wins (l : List Row) (t : Rat) :
    (multipleDefaultEffects l).filter (fun r => decide (defaultKey r = some t)) =
      (l.find? fun r => decide (defaultKey r = some t)).toList := by
  unfold multipleDefaultEffects
  rw [firstWins_filter_key demote_unkeyed t]; simp

/-- Surplus rack effects: of the hi / med / lo power rows of one type the first one survives. -/
theorem rack_effect_first_wins (l : List Row) (t : Rat) :
    (collidingModuleRacks l).filter (fun r => decide (rackKey r = some t)) =
      (l.find? fun r => decide (rackKey r = some t)).toList := by
  unfold collidingModuleRacks
  rw [firstWins_filter_key (by intro r r' h; cases h) t]; simp

/-- After the pre-conversion validators every type has at most one default effect row ... -/
theorem default_effect_unique (l : List Row) (t : Rat) :
    ((preconv l).filter fun r => decide (defaultKey r = some t)).length ≤ 1 := by
  unfold preconv collidingModuleRacks
  refine Nat.le_trans ((firstWins_drop_sublist _ _).filter _).length_le ?_
  rw [default_effect_first_wins]
  exact toList_length_le_one _

/-- ... and at most one rack effect row. -/
theorem rack_effect_unique (l : List Row) (t : Rat) :
    ((preconv l).filter fun r => decide (rackKey r = some t)).length ≤ 1 := by
  unfold preconv
  rw [rack_effect_first_wins]
  exact toList_length_le_one _

/-! ## what reaches the converter -/

/-- Built types, groups, attributes, effects and buffs (and the skill requirement / ability rows) are exactly
    the reachable rows of the prepared raw data: every supported item type and everything referenced
    transitively is there, nothing unreferenced is. (The pre-conversion validators only touch dgmtypeattribs and
    dgmtypeeffects rows.) -/
theorem built_iff_reachable (raw : List Row) (r : Row)
    (h1 : r.tbl ≠ .dgmtypeattribs) (h2 : r.tbl ≠ .dgmtypeeffects) :
    r ∈ final raw ↔ r ∈ prepare raw ∧ Reachable (prepare raw) r := by
  constructor
  · intro h
    rcases mem_preconv h with h | ⟨r0, _, ht, rfl⟩
    · exact ⟨(clean_sublist _).subset h, (clean_minimal _ _).1 h⟩
    · exact absurd ht h2
  · exact fun h => preconv_keeps ((clean_minimal _ _).2 h.2) h1 h2

/-- Every type attribute / type effect row the converter sees is a reachable row (possibly with its surplus
    default flag cleared). -/
theorem final_from_reachable (raw : List Row) : ∀ s ∈ final raw,
    ∃ s0 ∈ prepare raw, Reachable (prepare raw) s0 ∧ (s = s0 ∨ s = demote s0) := by
  intro s hs
  rcases mem_preconv hs with h | ⟨r0, h, _, rfl⟩
  · exact ⟨s, (clean_sublist _).subset h, (clean_minimal _ _).1 h, Or.inl rfl⟩
  · exact ⟨r0, (clean_sublist _).subset h, (clean_minimal _ _).1 h, Or.inr rfl⟩

/-! ## nothing dangling -/

/-- No built object references an attribute, effect, type, group or buff that exists in the raw data but was
    dropped: whatever id a row of the converter's input puts into an id slot (`specConvRefs`: group of a type,
    attribute ids of type attributes, effect ids of type effects, skill types, max attribute, the seven effect
    attributes, modifier ids, buff modifier ids) or carries as the value of an autocharge / warfare-buff attribute
    (`specValueRefs`), every row of the prepared raw data with that id is itself in the converter's input. -/
theorem no_dangling_after_convert (raw : List Row) :
    ∀ s ∈ final raw, ∀ tv ∈ refTargets (specConvRefs ++ specValueRefs) s, ∀ r ∈ prepare raw,
      hits r tv = true → r ∈ final raw := by
  intro s hs tv htv r hr hhit
  obtain ⟨s0, hs0, heq⟩ := preconv_origin (refs := specConvRefs ++ specValueRefs) (by decide) hs
  rw [heq] at htv
  have hcover : ∀ c ∈ specConvRefs ++ specValueRefs, c ∈ specRefs := by decide
  have hedge : refEdge specRefs s0 r = true :=
    List.any_eq_true.2 ⟨tv, refTargets_mono hcover s0 tv htv, hhit⟩
  have hr' : r ∈ clean (prepare raw) := clean_closed _ s0 hs0 r hr (Or.inl hedge)
  obtain ⟨ρ, hρ, htgt⟩ := refTargets_tgt htv
  have htbl : r.tbl = ρ.tgt := by
    have := hhit; simp only [hits, Bool.and_eq_true, decide_eq_true_eq] at this; rw [this.1, htgt]
  have hent : ∀ ρ ∈ specConvRefs ++ specValueRefs, ρ.tgt ≠ .dgmtypeattribs ∧ ρ.tgt ≠ .dgmtypeeffects := by decide
  exact preconv_keeps hr' (htbl ▸ (hent ρ hρ).1) (htbl ▸ (hent ρ hρ).2)

/-! ## non-vacuity -/

private def ex : List Row :=
  [{ tbl := .evetypes, pos := some 0, fields := [("typeID", .num 1 true), ("groupID", .num 5 true)] },
   { tbl := .evetypes, pos := some 1, fields := [("typeID", .num 2 true), ("groupID", .num 6 true)] },
   { tbl := .evetypes, pos := some 2, fields := [("typeID", .num 3 true), ("groupID", .num 6 true)] },
   { tbl := .evegroups, pos := some 0, fields := [("groupID", .num 5 true), ("categoryID", .num 6 true)] },
   { tbl := .evegroups, pos := some 1, fields := [("groupID", .num 6 true), ("categoryID", .num 9 true)] },
   { tbl := .dgmattribs, pos := some 0, fields := [("attributeID", .num 127 true)] },
   { tbl := .dgmattribs, pos := some 1, fields := [("attributeID", .num 50 true)] },
   { tbl := .dgmtypeattribs, pos := some 0,
     fields := [("typeID", .num 1 true), ("attributeID", .num 127 true), ("value", .num 2 false)] },
   { tbl := .dgmeffects, pos := some 0, fields := [("effectID", .num 12 true)] },
   { tbl := .dgmeffects, pos := some 1, fields := [("effectID", .num 13 true)] },
   { tbl := .dgmtypeeffects, pos := some 0,
     fields := [("typeID", .num 1 true), ("effectID", .num 12 true), ("isDefault", .bool true)] },
   { tbl := .dgmtypeeffects, pos := some 1,
     fields := [("typeID", .num 1 true), ("effectID", .num 13 true), ("isDefault", .bool true)] }]

/-- The ship (type 1) keeps its group, its ammo attribute, the autocharge type 2 named by the attribute value and
    that type's weak group; the unreferenced type 3 and attribute 50 are dropped; of two default / rack effects
    the first survives. -/
example : (final ex).map (fun r => (r.tbl, r.pos)) =
    [(.evetypes, some 0), (.evetypes, some 1), (.evegroups, some 0), (.evegroups, some 1), (.dgmattribs, some 0),
     (.dgmtypeattribs, some 0), (.dgmeffects, some 0), (.dgmeffects, some 1), (.dgmtypeeffects, some 0)] := by
  decide +kernel

example : ((clean (prepare ex)).filter fun r => r.tbl = .dgmtypeeffects).length = 2 := by decide +kernel

/-- The ammo row of the ship carries two ids: attribute 127 and (by value, `int(2.0)`) type 2. -/
example : (final ex).flatMap (refTargets (specConvRefs ++ specValueRefs)) =
    [(.evegroups, .num 5 true), (.evegroups, .num 6 true), (.dgmattribs, .num 127 true), (.evetypes, .num 2 true),
     (.dgmeffects, .num 12 true)] := by
  decide +kernel

/-- Duplicate and non-Integral keys: the first row wins, the string-keyed row goes. -/
example : (preclean
    [{ tbl := .dgmattribs, pos := some 0, fields := [("attributeID", .num 7 true), ("maxAttributeID", .num 1 true)] },
     { tbl := .dgmattribs, pos := some 1, fields := [("attributeID", .num 7 true)] },
     { tbl := .dgmattribs, pos := some 2, fields := [("attributeID", .str "8")] }]).map (·.pos) = [some 0] := by
  decide +kernel

end Eos.C18
