import EosProofs.Lemmas.Machine
import EosProofs.Props.C02
/-! # C08 — results do not depend on notification order or hash iteration order

Two sources of order in the real code: (1) the order in which a fit delivers a message to its
subscribers and in which handlers walk their (hash-ordered) sets decides *in which order cache entries are
removed* and which entries the cascade visits first; (2) the order in which `get_modifications` yields the
gathered modifications.  (1): at machine level two histories that perform the same sequence of
configuration changes with *different* (legal) removal sets are observationally equal.  (2): the calculated
value is invariant under any permutation of the gathered modifications. -/
namespace Eos.C08
open Eos.DepCache Eos.Machine

variable {C N V : Type}

/-- The configurations a history passes through. -/
def cfgTrace : List (Step C N V) → List C
  | [] => []
  | .read _ :: rest => cfgTrace rest
  | .change c' _ :: rest => c' :: cfgTrace rest

theorem run_cfg (W : C → Graph N V) : ∀ (steps : List (Step C N V)) (s : State C N V),
    (run W s steps).cfg = ((cfgTrace steps).getLast?).getD s.cfg
  | [], _ => rfl
  | .read S :: rest, s => by
    simpa [run, cfgTrace, step] using run_cfg W rest (step W s (.read S))
  | .change c' R :: rest, s => by
    have := run_cfg W rest (step W s (.change c' R))
    simp only [run, cfgTrace]
    rw [this]
    cases h : cfgTrace rest with
    | nil => simp [step]
    | cons a l =>
      have : ((a :: l).getLast?) = some ((a :: l).getLast (by simp)) := List.getLast?_eq_some_getLast _
      simp [this]

/-- Delivery order and set iteration order only influence *which* legal removal sets are used and in
which order reads happen; the observations agree. -/
theorem obs_schedule_independent (W : C → Graph N V) (steps steps' : List (Step C N V)) (c : C)
    (hl : LegalRun W { cfg := c, cache := fun _ => none } steps)
    (hl' : LegalRun W { cfg := c, cache := fun _ => none } steps')
    (ht : cfgTrace steps = cfgTrace steps') (n : N) :
    observe W (run W { cfg := c, cache := fun _ => none } steps) n =
      observe W (run W { cfg := c, cache := fun _ => none } steps') n := by
  rw [observe_eq_spec W _ (good_run W steps _ (good_init W c) hl),
      observe_eq_spec W _ (good_run W steps' _ (good_init W c) hl'),
      run_cfg W steps, run_cfg W steps', ht]

/-- The value of an attribute does not depend on the order in which its modifications are gathered
(iteration order of the affector-spec sets). -/
theorem gather_order_irrelevant (pen : Nat → Rat) (st hig : Bool) (base : Rat) (mods mods' : List Eos.Calc.Mod)
    (cap : Option Rat) (lim : Bool) (h : mods.Perm mods') :
    Eos.Calc.calculate pen st hig base mods cap lim = Eos.Calc.calculate pen st hig base mods' cap lim :=
  Eos.C02.calculate_perm pen st hig base h cap lim

end Eos.C08
