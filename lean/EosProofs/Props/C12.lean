import EosModel.Rah
import EosGen.RahConsts
import EosProofs.Lemmas.Rah
/-! # C12 — reactive armor hardener simulation obeys its adaptation law

Property theorems only, over the model `Eos.Rah` (which mirrors `eos/sim/reactive_armor_hardener.py`; model = code
is checked by the differential correspondence of `tools/props/c12.py` on every run) and the constants regenerated
from the source into `EosGen.RahConsts`. Quantifier guard (`RahOK`, `EnvOK`): base resonances at most 1 summing to
more than 3, shift >= 0, cycle time > 0, profile non-negative with a positive entry, positive ship resonances;
for the history theorem (`ValidOp`, `RahFull`) additionally: shift amount and cycle time present, shift > 0. -/
namespace Eos.C12
open Eos.Rah

def typeName : Dmg → String
  | .em => "em" | .therm => "therm" | .kin => "kin" | .expl => "expl"

def allTypes : List Dmg := [.em, .therm, .kin, .expl]

/-! ## The regenerated constants are the specification's -/

/-- `MAX_SIMULATION_TICKS` and `SIG_DIGITS` in the source are the model's. -/
theorem gen_limits : EosGen.RahConsts.maxSimulationTicks = maxTicks ∧ EosGen.RahConsts.sigDigits = sigDigits := by
  decide

/-- `res_attr_ids` (tie-break order) is em, explosive, kinetic, thermal. -/
theorem gen_res_order : EosGen.RahConsts.resOrder = order.map typeName := by decide

/-- `attr_profile_map` pairs every resonance attribute with the profile field of the same damage type. -/
theorem gen_profile_map : EosGen.RahConsts.profileMap = allTypes.map fun t => (typeName t, profileField t) := by
  decide

/-- The simulator listens to exactly the messages the stored-results layer (`World.step`) models: ship
    (un)loading, RAH effect start/stop, announced attribute changes (plain and masked), profile change. -/
theorem gen_handlers : EosGen.RahConsts.handlers =
    [("ItemLoaded", "_handle_item_loaded_unloaded"), ("ItemUnloaded", "_handle_item_loaded_unloaded"),
     ("EffectsStarted", "_handle_effects_started"), ("EffectsStopped", "_handle_effects_stopped"),
     ("AttrsValueChanged", "_handle_attr_changed"), ("AttrsValueChangedMasked", "_handle_attr_changed_masked"),
     ("RahIncomingDmgChanged", "_handle_changed_dmg_profile")] := by decide

/-- The RAH effect multiplies (`pre_mul`, stacking) each ship armor resonance by the hardener's own. -/
theorem gen_modifiers : EosGen.RahConsts.modifiers =
      (allTypes.map fun t => ("item", "ship", typeName t, "pre_mul", "stack", typeName t)) ∧
    EosGen.RahConsts.attachedToRahEffect = true := by decide

/-! ## One cycle: the resonance shift -/

/-- Why "summing to more than 3" is the right guard: with every resonance at most 1 it keeps each one positive
    (at least `S - 3`), so the ship takes damage of every type present in the profile. -/
theorem reso_pos_of_sum_gt_three {v : Vec} (hs : 3 < v.sum) (hc : ∀ t, v.get t ≤ 1) (t : Dmg) :
    0 < v.get t ∧ v.sum - 3 ≤ v.get t := by
  refine ⟨pos_of_sum_gt_three hs hc t, ?_⟩
  rw [Vec.sum_eq]
  have h1 := hc .em; have h2 := hc .therm; have h3 := hc .kin; have h4 := hc .expl
  cases t <;> linarith

/-- A shift redistributes: the sum of the four resonances is unchanged whenever at least one damage type was
    received (i.e. there is a recipient). For ANY current resonances and shift amount. -/
theorem next_conserves_sum (cur d : Vec) (shift : Rat) (h : ∃ t, d.get t ≠ 0) :
    (nextResos cur d shift).sum = cur.sum := nextResos_sum shift h

/-- A shift never pushes a resonance above 1. -/
theorem next_le_one (cur d : Vec) (shift : Rat) (hc : ∀ t, cur.get t ≤ 1) (hs : 0 ≤ shift) (t : Dmg) :
    (nextResos cur d shift).get t ≤ 1 := nextResos_le_one d hc hs t

/-- ... and, under the sum guard, keeps every resonance positive. -/
theorem next_pos (cur d : Vec) (shift : Rat) (hsum : 3 < cur.sum) (hc : ∀ t, cur.get t ≤ 1) (hs : 0 ≤ shift)
    (h : ∃ t, d.get t ≠ 0) (t : Dmg) : 0 < (nextResos cur d shift).get t :=
  pos_of_sum_gt_three (by rw [nextResos_sum shift h]; exact hsum) (nextResos_le_one d hc hs) t

/-- Without a recipient (no damage of any type) all four types donate and nobody takes: the sum GROWS. This is
    what happens for base sums <= 3 once a recipient has passed zero; it is outside the quantifier. -/
example : (nextResos ⟨1/2, 1/2, 1/2, 1/2⟩ Vec.zero (1/10)).sum = 2 + 4/10 := by
  have hz : ∀ t, Vec.zero.get t = 0 := by intro t; cases t <;> rfl
  have hd : ∀ t, t ∈ donorList Vec.zero := fun t => zero_damage_donates (fun t => (hz t).ge) (hz t)
  have hv : ∀ t, (nextResos ⟨1/2, 1/2, 1/2, 1/2⟩ Vec.zero (1/10)).get t = 1/2 + 1/10 := by
    intro t; rw [nextResos_get, if_pos (hd t)]
    cases t <;> norm_num [donation, rmin, Vec.get]
  rw [Vec.sum_eq, hv, hv, hv, hv]; norm_num

/-- Number of donors: at least two, and every type without damage. -/
theorem donor_count (d : Vec) :
    (donorList d).length = max 2 ((allTypes.filter fun t => d.get t = 0).length) := by
  rw [donorList_length]; unfold donorsN zeroCount
  have : (order.filter fun t => decide (d.get t = 0)).length = (allTypes.filter fun t => decide (d.get t = 0)).length := by
    simp only [order, allTypes, List.filter]
    cases decide (d.get .em = 0) <;> cases decide (d.get .expl = 0) <;> cases decide (d.get .kin = 0) <;>
      cases decide (d.get .therm = 0) <;> rfl
  rw [this]

/-- Donors are the least damaged types. -/
theorem donors_le_recipients {d : Vec} {a b : Dmg} (ha : a ∈ donorList d) (hb : b ∉ donorList d) :
    d.get a ≤ d.get b := donor_le_recipient ha hb

/-- A type which received no damage donates. -/
theorem zero_damage_is_donor {d : Vec} (hd : ∀ t, 0 ≤ d.get t) {a : Dmg} (ha : d.get a = 0) : a ∈ donorList d :=
  zero_damage_donates hd ha

/-- Ties go by the order of `res_attr_ids`: of two types with equal damage the one listed earlier donates first. -/
theorem tie_by_list_order {d : Vec} {a b : Dmg} (hord : [a, b].Sublist order) (heq : d.get a = d.get b)
    (hb : b ∈ donorList d) : a ∈ donorList d := tie_earlier_donates hord heq.le hb

/-- The new value of a donor / of a recipient. -/
theorem next_value (cur d : Vec) (shift : Rat) (t : Dmg) :
    (nextResos cur d shift).get t =
      if t ∈ donorList d then cur.get t + rmin (1 - cur.get t) shift
      else cur.get t - ((donorList d).map fun x => rmin (1 - cur.get x) shift).sum / ((4 - (donorList d).length : Nat) : Rat) := by
  rw [nextResos_get, donorList_length]; rfl

/-! ## Single-type damage -/

/-- With damage of one type only, the state "everything shiftable sits on that type" does not move. -/
theorem single_type_fixpoint {d : Vec} {a : Dmg} (h : SingleType d a) {cur : Vec} {shift : Rat} (hs : 0 ≤ shift)
    (hc : ∀ t, t ≠ a → cur.get t = 1) : nextResos cur d shift = cur := nextResos_single_fix h hs hc

/-- ... and it is reached: after `k` cycles with `k * shift >= 1 - r` for every other type `r`, all other
    resonances are 1 and the damaged type holds `S - 3`. -/
theorem single_type_reaches {d : Vec} {a : Dmg} (h : SingleType d a) {cur : Vec} {shift : Rat} (hs : 0 ≤ shift)
    (hc : ∀ t, cur.get t ≤ 1) (k : Nat) (hk : ∀ t, t ≠ a → 1 - cur.get t ≤ k * shift) :
    iterShift d shift k cur = Vec.ofFn fun t => if t = a then cur.sum - 3 else 1 := by
  have hdon : ∀ t, t ≠ a → (iterShift d shift k cur).get t = 1 := by
    intro t ht
    rw [iterShift_single_donor h hs ht (hc t)]
    unfold rmin; rw [if_pos (by linarith [hk t ht])]
  have hsum := iterShift_sum ⟨a, h.1.ne'⟩ shift k cur
  apply Vec.ext_get
  intro t
  rw [Vec.get_ofFn]
  by_cases ht : t = a
  · rw [if_pos ht]; subst ht
    rw [Vec.sum_eq, Vec.sum_eq] at hsum
    rw [Vec.sum_eq cur]
    cases t
    · have := hdon .therm (by decide); have := hdon .kin (by decide); have := hdon .expl (by decide); linarith
    · have := hdon .em (by decide); have := hdon .kin (by decide); have := hdon .expl (by decide); linarith
    · have := hdon .em (by decide); have := hdon .therm (by decide); have := hdon .expl (by decide); linarith
    · have := hdon .em (by decide); have := hdon .therm (by decide); have := hdon .kin (by decide); linarith
  · rw [if_neg ht]; exact hdon t ht

/- Full statement (not proved for the whole simulation): "a single-type damage profile drives all shiftable
   resistance onto that type" for `getResults`. Missing: the loop detector compares resonances rounded to 10
   significant digits and the run is cut at MAX_SIMULATION_TICKS, so for tiny shift amounts the averaged result is
   only near the fixpoint. Covered on the real code by the oracle and the correspondence. -/

/-! ## Averaging -/

/-- Averaging over the loop keeps the sum and the bound. -/
theorem avg_conserves_sum {i : Nat} {r : RS} {S : Rat} (hr : r.resos.sum = S ∧ ∀ t, r.resos.get t ≤ 1)
    (hs : ∀ s ∈ r.snaps, s.2.sum = S ∧ ∀ t, s.2.get t ≤ 1) : (avgFrom i r).sum = S := (avgFrom_ok hr hs).1

theorem avg_le_one {i : Nat} {r : RS} {S : Rat} (hr : r.resos.sum = S ∧ ∀ t, r.resos.get t ≤ 1)
    (hs : ∀ s ∈ r.snaps, s.2.sum = S ∧ ∀ t, s.2.get t ≤ 1) (t : Dmg) : (avgFrom i r).get t ≤ 1 := (avgFrom_ok hr hs).2 t

/-! ## The whole simulation -/

/-- What is assumed of the rest of the calculator: positive ship resonances for positive hardener resonances. -/
def ShipOK (ship : Option (List Vec → Option Vec)) : Prop :=
  ∀ f, ship = some f → ∀ rs s, f rs = some s → (∀ v ∈ rs, ∀ t, 0 < v.get t) → ∀ t, 0 < s.get t

theorem results_ok {ship : Option (List Vec → Option Vec)} {p : Vec} (maxT : Nat) {rahs : List Rah}
    (hr : ∀ r ∈ rahs, RahOK r) (hp : ∀ t, 0 ≤ p.get t) (hp' : ∃ t, 0 < p.get t) (hs : ShipOK ship) :
    OutOK rahs (getResults ship p maxT rahs).1 := by
  have hbase : OutOK rahs (rahs.map (·.base)) := by
    have := forall₂_map (R := fun (rah : Rah) (v : Vec) => v.sum = rah.base.sum ∧ ∀ t, v.get t ≤ 1)
      (f := fun r : Rah => r) (g := fun r : Rah => r.base) (l := rahs) (fun r hr' => ⟨rfl, (hr r hr').le_one⟩)
    simpa [OutOK] using this
  unfold getResults
  cases ship with
  | none => exact hbase
  | some f =>
    simp only []
    cases h : simulate ⟨f, p⟩ maxT rahs with
    | none => exact hbase
    | some o => exact (simulate_good ⟨hp, hp', hs f rfl⟩ hr h).1

/-- For all inputs in the quantifier, any number of ticks and whatever loop is found (or none): every hardener's
    result keeps the sum of its unsimulated resonances. -/
theorem sim_conserves {ship : Option (List Vec → Option Vec)} {p : Vec} (maxT : Nat) {rahs : List Rah}
    (hr : ∀ r ∈ rahs, RahOK r) (hp : ∀ t, 0 ≤ p.get t) (hp' : ∃ t, 0 < p.get t) (hs : ShipOK ship) :
    List.Forall₂ (fun rah v => v.sum = rah.base.sum) rahs (getResults ship p maxT rahs).1 :=
  (results_ok maxT hr hp hp' hs).imp fun _ _ h => h.1

/-- ... has no resonance above 1 ... -/
theorem sim_le_one {ship : Option (List Vec → Option Vec)} {p : Vec} (maxT : Nat) {rahs : List Rah}
    (hr : ∀ r ∈ rahs, RahOK r) (hp : ∀ t, 0 ≤ p.get t) (hp' : ∃ t, 0 < p.get t) (hs : ShipOK ship) :
    List.Forall₂ (fun _ v => ∀ t, v.get t ≤ 1) rahs (getResults ship p maxT rahs).1 :=
  (results_ok maxT hr hp hp' hs).imp fun _ _ h => h.2

/-- ... and none at or below 0. -/
theorem sim_pos {ship : Option (List Vec → Option Vec)} {p : Vec} (maxT : Nat) {rahs : List Rah}
    (hr : ∀ r ∈ rahs, RahOK r) (hp : ∀ t, 0 ≤ p.get t) (hp' : ∃ t, 0 < p.get t) (hs : ShipOK ship) :
    List.Forall₂ (fun _ v => ∀ t, 0 < v.get t) rahs (getResults ship p maxT rahs).1 := by
  have h := results_ok maxT hr hp hp' hs
  unfold OutOK at h
  generalize (getResults ship p maxT rahs).1 = res at h
  clear hs
  induction h with
  | nil => exact List.Forall₂.nil
  | @cons rah v l1 l2 hv _ ih =>
    refine List.Forall₂.cons (fun t => pos_of_sum_gt_three ?_ hv.2 t) (ih (fun r hr' => hr r (by simp [hr'])))
    rw [hv.1]; exact (hr rah (by simp)).sum_gt

/-- Termination is structural (`run` recurses on the remaining tick budget); a successful run reports at most
    `maxT` ticks. With `gen_limits`: at most MAX_SIMULATION_TICKS = 500. -/
theorem sim_terminates {env : Env} (he : EnvOK env) {maxT : Nat} {rahs : List Rah} (hr : ∀ r ∈ rahs, RahOK r)
    {o : Out} (h : simulate env maxT rahs = some o) : o.ticks ≤ maxT := (simulate_good he hr h).2

/-! ## Fallback -/

/-- No loaded ship: the unsimulated values, whatever the other inputs. -/
theorem fallback_no_ship (p : Vec) (maxT : Nat) (rahs : List Rah) :
    (getResults none p maxT rahs).1 = rahs.map (·.base) ∧ (getResults none p maxT rahs).2.1 = .noShip := ⟨rfl, rfl⟩

/-- Any internal failure of the run (every partial operation of the Python code is such an outcome in the
    model): the unsimulated values. -/
theorem fallback_failed (f : List Vec → Option Vec) (p : Vec) (maxT : Nat) (rahs : List Rah)
    (h : simulate ⟨f, p⟩ maxT rahs = none) :
    (getResults (some f) p maxT rahs).1 = rahs.map (·.base) ∧ (getResults (some f) p maxT rahs).2.1 = .failed := by
  unfold getResults; simp [h]

/-- The failure branch is inhabited: a zero cycle time (`log10(0)` in `sig_round`) fails every run of two or
    more ticks. -/
theorem fails_of_zero_duration (env : Env) (n : Nat) (rah : Rah) (h : rah.dur = some 0) :
    simulate env (n + 2) [rah] = none := by
  have hadv : ∀ r : RS, r.rah.dur = some 0 → advance [r] = none := by
    intro r hr
    unfold advance
    simp only [mapO_singleton, remaining, hr, Option.map_some, minList]
    have : ∀ tp, stepCycle tp r = none := by
      intro tp
      unfold stepCycle; simp only [hr]
      have : sigRound 0 sigDigits = none := by simp [sigRound]
      rw [this]; split <;> simp_all
    simp [this]
  unfold simulate
  simp only []
  cases hat : afterTick env [] 0 ⟨[rah].map RS.init, [], 0, false⟩ ([rah].map RS.init) with
  | none => rfl
  | some res =>
    obtain ⟨ship, st3, key, fr, _, h3, _, hres⟩ := afterTick_cases hat
    rcases hres with ⟨i, hi, _⟩ | ⟨_, rfl⟩
    · simp at hi
    · simp only []
      unfold run
      have h3' : st3 = [accum env.profile ship 0 (RS.init rah)] := by
        simp only [List.map_cons, List.map_nil, mapO_singleton] at h3
        rw [shift_false (by rfl)] at h3
        simpa using h3.symm
      subst h3'
      simp only [List.map_cons, List.map_nil]
      rw [hadv _ (by exact h)]

/-- A stopped hardener leaves the simulator's state (it is then read without override: plain values), and the
    stored results are dropped. -/
theorem stop_forgets {σ : Type} (shipFn : σ → List Vec → Option Vec) (maxT : Nat) (w : World σ) (i : Nat) :
    (w.step shipFn maxT (.stop i)).inputs = w.inputs.eraseIdx i ∧ (w.step shipFn maxT (.stop i)).res = none := by
  refine ⟨?_, rfl⟩
  simp only [World.step, World.inputs]
  exact List.eraseIdx_map ..|>.symm

/-! ## Results depend only on current inputs -/

/-- With a single running hardener the result is the same for every positive cycle time (this is why the
    simulator may ignore cycle-time changes then). -/
theorem sim_single_dur_irrelevant {ship : Option (List Vec → Option Vec)} {p : Vec} {rah : Rah} {d d' : Rat}
    (hdur : rah.dur = some d) (hd : 0 < d) (hd' : 0 < d') (maxT : Nat) :
    (getResults ship p maxT [{ rah with dur := some d' }]).1 = (getResults ship p maxT [rah]).1 :=
  getResults_single_dur hdur hd hd' maxT

/-- Inside the quantifier with all inputs present (and a shift amount > 0) a run with a ship never takes the
    fallback: the simulation yields a result. -/
theorem sim_never_fails {σ : Type} {shipFn : σ → List Vec → Option Vec} (hs : ShipFnOK shipFn) (s : σ) {p : Vec}
    (hp : ProfOK p) (maxT : Nat) {rahs : List Rah} (hne : rahs ≠ []) (hr : ∀ r ∈ rahs, RahFull r) :
    (getResults (some (shipFn s)) p maxT rahs).2.1 = .ok := getResults_ok hs hp maxT hne hr

/-- For EVERY history of reads and input changes inside the quantifier (`ValidOp`: profiles as `DmgProfile`
    accepts them, hardeners with base resonances <= 1 summing to more than 3, positive shift amounts and cycle
    times; `ShipFnOK`: the calculator yields positive ship resonances), whatever is stored in the simulator equals
    the results of a fresh run on the CURRENT inputs. (Before /repo commit 6652e34 this failed: known finding K2.) -/
theorem stored_results_current {σ : Type} (shipFn : σ → List Vec → Option Vec) (hs : ShipFnOK shipFn) (maxT : Nat)
    (ops : List (Op σ)) (hv : ∀ op ∈ ops, ValidOp op) (r : List Vec)
    (hres : (World.init.run shipFn maxT ops).res = some r) :
    r = (getResults ((World.init.run shipFn maxT ops).ship.map shipFn) (World.init.run shipFn maxT ops).profile maxT
          (World.init.run shipFn maxT ops).inputs).1 :=
  (winv_run hs ops (winv_init shipFn maxT) hv).coh r hres

/-- ... hence a read after any such history returns the results of the current inputs: results depend only on
    current inputs. -/
theorem read_current {σ : Type} (shipFn : σ → List Vec → Option Vec) (hs : ShipFnOK shipFn) (maxT : Nat)
    (ops : List (Op σ)) (hv : ∀ op ∈ ops, ValidOp op) (hne : (World.init.run shipFn maxT ops).rahs ≠ []) :
    ((World.init.run shipFn maxT ops).step shipFn maxT .readRah).exposed =
      (getResults ((World.init.run shipFn maxT ops).ship.map shipFn) (World.init.run shipFn maxT ops).profile maxT
        (World.init.run shipFn maxT ops).inputs).1 := by
  generalize hw : World.init.run shipFn maxT ops = w at *
  have hinv : WInv shipFn maxT w := hw ▸ winv_run hs ops (winv_init shipFn maxT) hv
  have hinv' := winv_step hs hinv .readRah trivial
  have hfill : ∀ w' : World σ, w' = w.step shipFn maxT .readRah → w'.ship = w.ship ∧ w'.profile = w.profile ∧
      w'.inputs = w.inputs ∧ w'.res.isSome := by
    intro w' e; subst e
    simp only [World.step, World.fill]
    split
    · rename_i hc
      simp only [Bool.or_eq_true, List.isEmpty_iff] at hc
      exact ⟨rfl, rfl, rfl, hc.resolve_right hne⟩
    · exact ⟨rfl, rfl, by simp [World.inputs, markRead_rah], rfl⟩
  obtain ⟨h1, h2, h3, h4⟩ := hfill _ rfl
  obtain ⟨r, hr⟩ := Option.isSome_iff_exists.mp h4
  have := hinv'.coh r hr
  unfold World.exposed
  rw [hr, Option.getD_some, this]
  unfold World.current
  rw [h1, h2, h3]

/-! ## Non-vacuity -/

/-- A hardener inside the quantifier. -/
example : RahOK ⟨⟨85/100, 85/100, 85/100, 85/100⟩, some 6, some 10⟩ :=
  ⟨by decide +kernel, by intro t; cases t <;> decide +kernel, by intro s h; cases h; decide +kernel,
   by intro d h; cases h; decide +kernel⟩

/-- An environment inside the quantifier. -/
example : EnvOK ⟨fun _ => some ⟨1/2, 13/20, 3/4, 9/10⟩, ⟨1, 0, 0, 0⟩⟩ :=
  ⟨by intro t; cases t <;> decide +kernel, ⟨.em, by decide +kernel⟩,
   by intro rs s h _ t; cases h; cases t <;> decide +kernel⟩

/-- One concrete shift with thermal damage only: EM, explosive and kinetic each give 6 %, thermal takes 18 %. -/
example : nextResos ⟨85/100, 85/100, 85/100, 85/100⟩ ⟨0, 5, 0, 0⟩ (6/100) = ⟨91/100, 67/100, 91/100, 91/100⟩ := by
  have h : SingleType ⟨0, 5, 0, 0⟩ .therm :=
    ⟨by decide +kernel, by intro t ht; cases t <;> first | rfl | exact absurd rfl ht⟩
  apply Vec.ext_get
  intro t
  by_cases ht : t = .therm
  · subst ht
    rw [nextResos_single_recipient h]
    have : donated ⟨85/100, 85/100, 85/100, 85/100⟩ ⟨0, 5, 0, 0⟩ (6/100) = 18/100 := by
      have hs := nextResos_sum (cur := ⟨85/100, 85/100, 85/100, 85/100⟩) (6/100) ⟨.therm, h.1.ne'⟩
      rw [Vec.sum_eq, nextResos_single_recipient h, nextResos_single_donor h _ _ (by decide : Dmg.em ≠ .therm),
        nextResos_single_donor h _ _ (by decide : Dmg.kin ≠ .therm),
        nextResos_single_donor h _ _ (by decide : Dmg.expl ≠ .therm)] at hs
      norm_num [rmin, Vec.get, Vec.sum] at hs
      linarith
    rw [this]; norm_num [Vec.get]
  · rw [nextResos_single_donor h _ _ ht]
    cases t <;> first | exact absurd rfl ht | norm_num [rmin, Vec.get]

def demoRun (ops : List (Op Unit)) : World Unit := World.init.run (fun _ _ => none) maxTicks ops

/-- A history after which results are stored (here: without a ship, the unsimulated values) ... -/
example (r : Rah) : (demoRun [.start r false false, .readRah]).res = some [r.base] := rfl

/-- ... and assigning a ship afterwards drops them (the repaired K2 shape). -/
example (r : Rah) : (demoRun [.start r false false, .readRah, .setShip (some ())]).res = none := rfl

/-- `ValidOp` and `ShipFnOK` are satisfiable. -/
example : ValidOp (.start ⟨⟨85/100, 85/100, 85/100, 85/100⟩, some 6, some 10⟩ false false : Op Unit) :=
  ⟨⟨by decide +kernel, by intro t; cases t <;> decide +kernel, by intro s h; cases h; decide +kernel,
    by intro d h; cases h; decide +kernel⟩, ⟨6, rfl, by decide +kernel⟩, ⟨10, rfl, by decide +kernel⟩⟩

example : ShipFnOK (fun (_ : Unit) (_ : List Vec) => some ⟨1/2, 13/20, 3/4, 9/10⟩) := by
  intro s rs
  exact ⟨_, rfl, fun _ t => by cases t <;> decide +kernel⟩

/-- A single-type damage vector. -/
example : SingleType ⟨0, 0, 7, 0⟩ .kin := ⟨by decide +kernel, by intro t ht; cases t <;> first | rfl | exact absurd rfl ht⟩

end Eos.C12
