import EosProofs.Props.C13World
import EosProofs.Props.C10
/-! # C08, world / message level — observable results do not depend on iteration order

`EosProofs/Props/C08.lean` has the abstract statements: two histories of the cache machine with the same
configuration changes and *different legal removal sets* are observationally equal (`obs_schedule_independent`), and
`Calc.calculate` is invariant under permutations of the gathered modifications (`gather_order_irrelevant`).  This file
carries the property to the world specification and the message-level model.

What the model can carry.  At message level the calculation service is the *only* service of the model, so "the order
in which a fit notifies its services of a message" has no counterpart between services.  What remains of the property
is the iteration order of the sets the calculation and the handlers walk through:

1. **The item set, the effect list of a type, the modifier list of an effect** — the three lists `World.gather` /
   `Micro.gatherD` iterate over.
   * `gather_order_irrelevant_world`: configurations whose item lists are permutations of each other (`ItemsPerm`:
     same fits, same source) have from-scratch tables `World.evalAll` that answer **every** public read alike.
   * `modifier_order_irrelevant_world`, `effect_order_irrelevant_world`: the same for any re-listing of the modifiers
     of the universe's effects (`reorderMods σ`) and of the effect ids of its item types (`reorderEffs τ`);
     `iteration_order_irrelevant_world`: all three at once.
   * one rank level, any reader: `gather_items_perm` (permuted lists of modifications, or an error on both sides),
     `valueOf_items_perm`; the induction along the rank order is `evalAll_fold_rel`.
   * message level: `obs_item_order_irrelevant_world` (two legal histories ending in settled states of
     configurations that differ in the item order observe the same values, the table's), and — for **every** reachable
     state, settled or not — `spec_item_order_irrelevant_world` / `obs_item_order_any_state_world` (`Micro.gatherD`
     iterates over `cfg.items` as well).
   Hypotheses: `rankWF u` (acyclic attribute dependencies) and unique item ids.  Without `rankWF` the statement is
   false as an equality of `Val`s: the gathering stops at the first error, so one order can report `divZero` where the
   other reports the rank-violation marker `notWF` (`valueOf_items_perm` states exactly this alternative).
2. **The direct invalidation list and the reverse-dependency enumeration of the cascade** — the sets the handlers
   of `EffectsStarted/Stopped`, `EffectApplied/Unapplied` and `_revise_regular_attr_dependents` walk through.
   `cascade_order_irrelevant_world`: `visitAll` over two lists with the same members leaves the *same cache* (not only
   the same observations); `cascade_rdeps_order_irrelevant_world`: the same for any enumerator with the same members
   as `Micro.rdeps`.  New machinery: `casc_visit_justified` (the depth-first cascade removes nothing without a
   reason) and `contract_unique` (contract + justification determine the removal set).

Not stated here: an order between *different services* (none in the model), and the order of the messages themselves
(that is `C13World.setup_order_irrelevant_world` / `C09World.reads_reorder_world`). -/
namespace Eos.C08World
open Eos.World Eos.Calc Eos.Micro Eos.Micro.L Eos.DepCache Eos.Machine Eos.C01World

/-! ## Folds whose steps append to the accumulator or fail -/

section applike
variable {α β ε : Type}

/-- A computation on an accumulator that appends a list of its own to it, or fails — whatever the
accumulator. -/
def App (F : List β → Except ε (List β)) : Prop := ∀ acc, F acc = (F []).map (acc ++ ·)

theorem app_pure : App (fun acc : List β => (pure acc : Except ε (List β))) := fun acc => by
  simp [pure, Except.pure, Except.map]

theorem app_bind {F G : List β → Except ε (List β)} (hF : App F) (hG : App G) :
    App (fun acc => F acc >>= G) := by
  intro acc
  show (F acc >>= G) = (F [] >>= G).map (acc ++ ·)
  rw [hF acc]
  cases h : F [] with
  | error w => rfl
  | ok r =>
    show G (acc ++ r) = (G r).map (acc ++ ·)
    rw [hG (acc ++ r), hG r]
    cases G [] with
    | error w => rfl
    | ok s => simp [Except.map, List.append_assoc]

theorem app_const_bind {γ : Type} (c : Except ε γ) {G : γ → List β → Except ε (List β)} (hG : ∀ x, App (G x)) :
    App (fun acc => c >>= fun x => G x acc) := by
  intro acc
  cases c with
  | error w => rfl
  | ok x => exact hG x acc

theorem app_foldlM (f : List β → α → Except ε (List β)) (l : List α) (h : ∀ a ∈ l, App (fun acc => f acc a)) :
    App (fun acc => l.foldlM f acc) := by
  induction l with
  | nil => exact app_pure
  | cons a l ih =>
    have h1 : App (fun acc => f acc a) := h a List.mem_cons_self
    have h2 := ih (fun b hb => h b (List.mem_cons_of_mem _ hb))
    have := app_bind h1 h2
    intro acc
    simpa [List.foldlM_cons] using this acc

/-- Errors and successes of the per-element outcomes. -/
def errsL (out : α → Except ε (List β)) (l : List α) : List ε :=
  l.filterMap fun a => match out a with | .error w => some w | .ok _ => none
def oksL (out : α → Except ε (List β)) (l : List α) : List β :=
  l.flatMap fun a => match out a with | .ok r => r | .error _ => []

/-- A fold of appending steps fails with the first failing element, else returns the concatenation. -/
theorem foldlM_app (f : List β → α → Except ε (List β)) (l : List α) (h : ∀ a ∈ l, App (fun acc => f acc a))
    (init : List β) :
    l.foldlM f init =
      match errsL (fun a => f [] a) l with
      | [] => .ok (init ++ oksL (fun a => f [] a) l)
      | w :: _ => .error w := by
  induction l generalizing init with
  | nil => simp [errsL, oksL, pure, Except.pure]
  | cons a l ih =>
    rw [List.foldlM_cons, show f init a = (f [] a).map (init ++ ·) from h a List.mem_cons_self init]
    have ih' := ih (fun b hb => h b (List.mem_cons_of_mem _ hb))
    cases ho : f [] a with
    | error w => simp [errsL, ho, Except.map, bind, Except.bind]
    | ok r =>
      have h1 : errsL (fun a => f [] a) (a :: l) = errsL (fun a => f [] a) l := by simp [errsL, ho]
      have h2 : oksL (fun a => f [] a) (a :: l) = r ++ oksL (fun a => f [] a) l := by simp [oksL, ho]
      simp only [Except.map, bind, Except.bind, ih', h1, h2, List.append_assoc]

/-- Outcomes that agree up to the order of the gathered list and up to *which* error is reported. -/
def RelOut (r r' : Except ε (List β)) : Prop :=
  (∃ l l', r = .ok l ∧ r' = .ok l' ∧ l.Perm l') ∨ (∃ w w', r = .error w ∧ r' = .error w')

/-- Two folds of appending steps over permuted lists, with step functions that agree at the empty accumulator
on the elements: both succeed with permuted results, or both fail — each with an error one of its elements
produces at the empty accumulator. -/
theorem foldlM_app_perm (f f' : List β → α → Except ε (List β)) {l l' : List α} (hp : l.Perm l')
    (h : ∀ a ∈ l, App (fun acc => f acc a)) (h' : ∀ a ∈ l', App (fun acc => f' acc a))
    (hff : ∀ a ∈ l, f [] a = f' [] a) :
    (∃ r r', l.foldlM f [] = .ok r ∧ l'.foldlM f' [] = .ok r' ∧ r.Perm r') ∨
    (∃ w w', l.foldlM f [] = .error w ∧ l'.foldlM f' [] = .error w' ∧
      (∃ a ∈ l, f [] a = .error w) ∧ (∃ a ∈ l', f' [] a = .error w')) := by
  have he : (errsL (fun a => f [] a) l).Perm (errsL (fun a => f' [] a) l') := by
    have e1 : errsL (fun a => f [] a) l = errsL (fun a => f' [] a) l :=
      List.filterMap_congr (fun a ha => by simp only [hff a ha])
    rw [e1]
    exact hp.filterMap _
  have hk : (oksL (fun a => f [] a) l).Perm (oksL (fun a => f' [] a) l') := by
    have e1 : oksL (fun a => f [] a) l = oksL (fun a => f' [] a) l :=
      List.flatMap_congr (fun a ha => by simp only [hff a ha])
    rw [e1]
    exact hp.flatMap_right _
  have mem : ∀ (g : List β → α → Except ε (List β)) (l : List α) (w : ε), w ∈ errsL (fun a => g [] a) l →
      ∃ a ∈ l, g [] a = .error w := by
    intro g l w hw
    obtain ⟨a, ha, h⟩ := List.mem_filterMap.1 hw
    refine ⟨a, ha, ?_⟩
    split at h
    · cases h; assumption
    · cases h
  rw [foldlM_app f l h, foldlM_app f' l' h']
  cases h1 : errsL (fun a => f [] a) l with
  | nil =>
    rw [h1] at he
    rw [← he.nil_eq]
    exact Or.inl ⟨_, _, rfl, rfl, by simpa using hk⟩
  | cons w ws =>
    cases h2 : errsL (fun a => f' [] a) l' with
    | nil => rw [h1, h2] at he; cases he.eq_nil
    | cons w' ws' =>
      exact Or.inr ⟨w, w', rfl, rfl, mem f l w (h1 ▸ List.mem_cons_self), mem f' l' w' (h2 ▸ List.mem_cons_self)⟩

/-- In a list with at most one element satisfying `p`, `find?` does not depend on the order. -/
theorem find?_perm_unique {l l' : List α} (hp : l.Perm l') (p : α → Bool)
    (hu : ∀ a ∈ l, ∀ b ∈ l, p a = true → p b = true → a = b) : l.find? p = l'.find? p := by
  cases h : l.find? p with
  | none =>
    symm
    rw [List.find?_eq_none] at h ⊢
    exact fun x hx => h x (hp.mem_iff.2 hx)
  | some a =>
    have ha : a ∈ l := List.mem_of_find?_eq_some h
    have hpa : p a = true := List.find?_some h
    cases h' : l'.find? p with
    | none => exact absurd hpa (List.find?_eq_none.1 h' a (hp.mem_iff.1 ha))
    | some b =>
      have hb : b ∈ l := hp.mem_iff.2 (List.mem_of_find?_eq_some h')
      rw [hu a ha b hb hpa (List.find?_some h')]

/-! ### The relation "same up to order and up to which error" is a congruence for appending folds -/

theorem RelOut.refl (r : Except ε (List β)) : RelOut r r := by
  cases r with
  | ok l => exact Or.inl ⟨l, l, rfl, rfl, List.Perm.refl _⟩
  | error w => exact Or.inr ⟨w, w, rfl, rfl⟩

theorem RelOut.symm {r r' : Except ε (List β)} (h : RelOut r r') : RelOut r' r := by
  rcases h with ⟨l, l', h1, h2, hp⟩ | ⟨w, w', h1, h2⟩
  · exact Or.inl ⟨l', l, h2, h1, hp.symm⟩
  · exact Or.inr ⟨w', w, h2, h1⟩

theorem RelOut.trans {r r' r'' : Except ε (List β)} (h : RelOut r r') (h' : RelOut r' r'') : RelOut r r'' := by
  rcases h with ⟨l, l', h1, h2, hp⟩ | ⟨w, w', h1, h2⟩
  · rcases h' with ⟨m, m', k1, k2, kp⟩ | ⟨v, v', k1, k2⟩
    · rw [h2] at k1; cases k1
      exact Or.inl ⟨l, m', h1, k2, hp.trans kp⟩
    · rw [h2] at k1; cases k1
  · rcases h' with ⟨m, m', k1, k2, kp⟩ | ⟨v, v', k1, k2⟩
    · rw [h2] at k1; cases k1
    · exact Or.inr ⟨w, v', h1, k2⟩

theorem RelOut.of_eq {r r' : Except ε (List β)} (h : r = r') : RelOut r r' := h ▸ RelOut.refl r

theorem mem_errsL {out : α → Except ε (List β)} {l : List α} {w : ε} :
    w ∈ errsL out l ↔ ∃ a ∈ l, out a = .error w := by
  unfold errsL
  rw [List.mem_filterMap]
  constructor
  · rintro ⟨a, ha, h⟩
    refine ⟨a, ha, ?_⟩
    split at h
    · cases h; assumption
    · cases h
  · rintro ⟨a, ha, h⟩
    exact ⟨a, ha, by rw [h]⟩

/-- Folds of appending steps over permuted lists whose steps are related element by element are related. -/
theorem relOut_foldlM {f f' : List β → α → Except ε (List β)} {l l' : List α} (hp : l.Perm l')
    (h : ∀ a ∈ l, App (fun acc => f acc a)) (h' : ∀ a ∈ l', App (fun acc => f' acc a))
    (hff : ∀ a ∈ l, RelOut (f [] a) (f' [] a)) : RelOut (l.foldlM f []) (l'.foldlM f' []) := by
  rw [foldlM_app f l h, foldlM_app f' l' h']
  have hk : (oksL (fun a => f [] a) l).Perm (oksL (fun a => f' [] a) l') := by
    refine List.Perm.trans (List.Perm.flatMap_left _ fun a ha => ?_) (hp.flatMap_right _)
    rcases hff a ha with ⟨r, r', h1, h2, hr⟩ | ⟨w, w', h1, h2⟩
    · simp only [h1, h2]; exact hr
    · simp only [h1, h2]; exact List.Perm.refl _
  cases h1 : errsL (fun a => f [] a) l with
  | nil =>
    cases h2 : errsL (fun a => f' [] a) l' with
    | nil => exact Or.inl ⟨_, _, rfl, rfl, by simpa using hk⟩
    | cons w' ws' =>
      exfalso
      obtain ⟨a, ha, hw⟩ := mem_errsL.1 (h2 ▸ List.mem_cons_self : w' ∈ errsL (fun a => f' [] a) l')
      have ha' := hp.mem_iff.2 ha
      rcases hff a ha' with ⟨r, r', _, k2, _⟩ | ⟨w, _, k1, _⟩
      · rw [hw] at k2; cases k2
      · have : w ∈ errsL (fun a => f [] a) l := mem_errsL.2 ⟨a, ha', k1⟩
        rw [h1] at this; cases this
  | cons w ws =>
    cases h2 : errsL (fun a => f' [] a) l' with
    | nil =>
      exfalso
      obtain ⟨a, ha, hw⟩ := mem_errsL.1 (h1 ▸ List.mem_cons_self : w ∈ errsL (fun a => f [] a) l)
      rcases hff a ha with ⟨r, r', k1, _, _⟩ | ⟨_, w', _, k2⟩
      · rw [hw] at k1; cases k1
      · have : w' ∈ errsL (fun a => f' [] a) l' := mem_errsL.2 ⟨a, hp.mem_iff.1 ha, k2⟩
        rw [h2] at this; cases this
    | cons w' ws' => exact Or.inr ⟨w, w', rfl, rfl⟩

theorem relOut_bind {r r' : Except ε (List β)} {G G' : List β → Except ε (List β)} (hG : App G) (hG' : App G')
    (h1 : RelOut r r') (h2 : RelOut (G []) (G' [])) : RelOut (r >>= G) (r' >>= G') := by
  rcases h1 with ⟨r, r', e1, e2, hr⟩ | ⟨w, w', e1, e2⟩
  · rw [e1, e2]
    show RelOut (G r) (G' r')
    rw [hG r, hG' r']
    rcases h2 with ⟨s, s', k1, k2, hs⟩ | ⟨v, v', k1, k2⟩
    · rw [k1, k2]; exact Or.inl ⟨_, _, rfl, rfl, hr.append hs⟩
    · rw [k1, k2]; exact Or.inr ⟨v, v', rfl, rfl⟩
  · rw [e1, e2]; exact Or.inr ⟨w, w', rfl, rfl⟩

theorem relOut_const_bind {γ : Type} (c : Except ε γ) {G G' : γ → Except ε (List β)}
    (h : ∀ x, RelOut (G x) (G' x)) : RelOut (c >>= G) (c >>= G') := by
  cases c with
  | error w => exact Or.inr ⟨w, w, rfl, rfl⟩
  | ok x => exact h x

end applike

/-! ## The same solar system with its items listed in another order -/

/-- `cfg'` is `cfg` with the item list permuted (same fits, same source flag). -/
structure ItemsPerm (cfg cfg' : Config) : Prop where
  items : cfg'.items.Perm cfg.items
  fits : cfg'.fits = cfg.fits
  source : cfg'.hasSource = cfg.hasSource

section cfgfuns
variable {u : Universe} {cfg cfg' : Config}

theorem ItemsPerm.refl (cfg : Config) : ItemsPerm cfg cfg := ⟨List.Perm.refl _, rfl, rfl⟩

theorem ItemsPerm.uniqueIds (E : ItemsPerm cfg cfg') (hU : UniqueIds cfg) : UniqueIds cfg' := by
  unfold UniqueIds at hU ⊢
  exact ((E.items.map _).nodup_iff).2 hU

theorem ItemsPerm.symm (E : ItemsPerm cfg cfg') : ItemsPerm cfg' cfg := ⟨E.items.symm, E.fits.symm, E.source.symm⟩

theorem item?_perm (E : ItemsPerm cfg cfg') (hU : UniqueIds cfg) : item? cfg' = item? cfg := by
  funext i
  unfold item?
  exact (find?_perm_unique E.items.symm _ fun a ha b hb h1 h2 =>
    eq_of_nodup_map (fun y : Item => y.id) (l := cfg.items) hU ha hb
      (by rw [beq_iff_eq.1 h1, beq_iff_eq.1 h2])).symm

theorem fit?_perm (E : ItemsPerm cfg cfg') : fit? cfg' = fit? cfg := by
  funext f; unfold fit?; rw [E.fits]

theorem shipOf_perm (E : ItemsPerm cfg cfg') : shipOf cfg' = shipOf cfg := by
  funext f; unfold shipOf; rw [fit?_perm E]

theorem characterOf_perm (E : ItemsPerm cfg cfg') : characterOf cfg' = characterOf cfg := by
  funext f; unfold characterOf; rw [fit?_perm E]

theorem itemType?_perm (E : ItemsPerm cfg cfg') : itemType? u cfg' = itemType? u cfg := by
  funext a; unfold itemType?; rw [E.source]

theorem runningEffects_perm (E : ItemsPerm cfg cfg') : runningEffects u cfg' = runningEffects u cfg := by
  funext a; unfold runningEffects; rw [itemType?_perm E]

theorem others_any_perm (E : ItemsPerm cfg cfg') (a : Item) (p : Item → Bool) :
    (others cfg' a).any p = (others cfg a).any p := by
  unfold others
  exact any_perm p (E.items.filter _)

theorem affectsLocal_perm (E : ItemsPerm cfg cfg') : affectsLocal cfg' = affectsLocal cfg := by
  funext a m x tx
  unfold affectsLocal
  rw [shipOf_perm E, characterOf_perm E, others_any_perm E]

theorem affectsProjected_perm (E : ItemsPerm cfg cfg') : affectsProjected cfg' = affectsProjected cfg := by
  funext a m t x tx
  unfold affectsProjected
  rw [shipOf_perm E]

theorem projectionTargets_perm (E : ItemsPerm cfg cfg') (hU : UniqueIds cfg) :
    projectionTargets cfg' = projectionTargets cfg := by
  funext a e
  unfold projectionTargets
  rw [item?_perm E hU]

theorem boostTargets_perm (E : ItemsPerm cfg cfg') (hU : UniqueIds cfg) : boostTargets cfg' = boostTargets cfg := by
  funext f
  unfold boostTargets
  rw [item?_perm E hU, fit?_perm E, E.fits]

theorem resistOf_perm (E : ItemsPerm cfg cfg') (hU : UniqueIds cfg) : resistOf cfg' = resistOf cfg := by
  funext rd e x
  unfold resistOf
  rw [item?_perm E hU, shipOf_perm E]

end cfgfuns

/-! ## `World.gather` is a fold of appending steps over the item list -/

section gatherfold
variable {u : Universe} {cfg cfg' : Config}

/-- The step of `World.gather` for one carrier item. -/
def stepG (u : Universe) (cfg : Config) (immune : List Int) (rd : Reader) (x : Item) (tx : ItemType) (attr : Int)
    (acc : List Mod) (a : Item) : Except Val (List Mod) :=
  match itemType? u cfg a with
  | none => .ok acc
  | some ta => (runningEffects u cfg a).foldlM (init := acc) (effStep u cfg immune rd x tx attr a ta)

theorem gather_eq_stepG (immune : List Int) (rd : Reader) (x : Item) (tx : ItemType) (attr : Int) :
    gather u cfg immune rd x tx attr = cfg.items.foldlM (stepG u cfg immune rd x tx attr) [] := rfl

theorem app_mkMod (rd : Reader) (x a : Item) (e : Effect) (imm : Bool) (m : Modifier) :
    App (fun acc => mkMod cfg rd x a e imm m acc) := by
  intro acc
  unfold mkMod
  cases rd a m.srcAttr <;> try rfl
  · simp [Except.map]
  · cases resistOf cfg rd e x <;> simp [Except.map]

theorem app_modsFold (rd : Reader) (x a : Item) (e : Effect) (imm : Bool) (l : List Modifier) :
    App (fun acc => l.foldlM (fun acc m => mkMod cfg rd x a e imm m acc) acc) :=
  app_foldlM _ l fun m _ => app_mkMod rd x a e imm m

/-- The three parts of `effStep` for a running effect `e` of `a` (`imm`: the carrier's penalty immunity): local
modifiers, projected modifiers per projection target, fleet-boost modifiers per boosted ship. -/
def effLocal (cfg : Config) (rd : Reader) (x : Item) (tx : ItemType) (attr : Int) (a : Item) (e : Effect)
    (imm : Bool) (acc : List Mod) : Except Val (List Mod) :=
  (e.mods.filter fun m => m.tgtAttr == attr && affectsLocal cfg a m x tx).foldlM (init := acc)
    fun acc m => mkMod cfg rd x a e imm m acc

def effProj (cfg : Config) (rd : Reader) (x : Item) (tx : ItemType) (attr : Int) (a : Item) (e : Effect)
    (imm : Bool) (acc : List Mod) : Except Val (List Mod) :=
  (projectionTargets cfg a e).foldlM (init := acc) fun acc tg =>
    (e.mods.filter fun m => m.domain == 4 && m.tgtAttr == attr && affectsProjected cfg a m tg x tx).foldlM
      (init := acc) fun acc m => mkMod cfg rd x a e imm m acc

def effBoost (u : Universe) (cfg : Config) (rd : Reader) (x : Item) (tx : ItemType) (attr : Int) (a : Item)
    (e : Effect) (imm : Bool) (acc : List Mod) : Except Val (List Mod) :=
  if e.isBuff then
    (if u.buffs.any (·.tgtAttr == attr) then buffModifiers u rd a else pure []) >>= fun bms =>
      (boostTargets cfg a.fit).foldlM (init := acc) fun acc tg =>
        ((bms ++ e.mods.filter (·.domain == 4)).filter fun m =>
          m.tgtAttr == attr && affectsProjected cfg a m tg x tx).foldlM
          (init := acc) fun acc m => mkMod cfg rd x a e imm m acc
  else pure acc

theorem effStep_eq_parts (immune : List Int) (rd : Reader) (x : Item) (tx : ItemType) (attr : Int) (a : Item)
    (ta : ItemType) (acc : List Mod) (e : Effect) :
    effStep u cfg immune rd x tx attr a ta acc e =
      (effLocal cfg rd x tx attr a e (match ta.category with | some c => immune.contains c | none => false) acc >>=
        fun acc => effProj cfg rd x tx attr a e
            (match ta.category with | some c => immune.contains c | none => false) acc >>=
          fun acc => effBoost u cfg rd x tx attr a e
            (match ta.category with | some c => immune.contains c | none => false) acc) := by
  unfold effStep effLocal effProj effBoost
  cases e.isBuff <;> rfl

theorem app_effLocal (rd : Reader) (x : Item) (tx : ItemType) (attr : Int) (a : Item) (e : Effect) (imm : Bool) :
    App (effLocal cfg rd x tx attr a e imm) := app_modsFold rd x a e imm _

theorem app_effProj (rd : Reader) (x : Item) (tx : ItemType) (attr : Int) (a : Item) (e : Effect) (imm : Bool) :
    App (effProj cfg rd x tx attr a e imm) :=
  app_foldlM _ _ fun _ _ => app_modsFold rd x a e imm _

theorem app_effBoost (rd : Reader) (x : Item) (tx : ItemType) (attr : Int) (a : Item) (e : Effect) (imm : Bool) :
    App (effBoost u cfg rd x tx attr a e imm) := by
  unfold effBoost
  cases e.isBuff with
  | false => exact app_pure
  | true =>
    simp only [if_true]
    exact app_const_bind _ fun bms => app_foldlM _ _ fun tg _ => app_modsFold rd x a e imm _

theorem app_effTail (rd : Reader) (x : Item) (tx : ItemType) (attr : Int) (a : Item) (e : Effect) (imm : Bool) :
    App (fun acc => effProj cfg rd x tx attr a e imm acc >>= fun acc => effBoost u cfg rd x tx attr a e imm acc) :=
  app_bind (app_effProj rd x tx attr a e imm) (app_effBoost rd x tx attr a e imm)

theorem app_effStep (immune : List Int) (rd : Reader) (x : Item) (tx : ItemType) (attr : Int) (a : Item)
    (ta : ItemType) (e : Effect) : App (fun acc => effStep u cfg immune rd x tx attr a ta acc e) := by
  simp only [effStep_eq_parts]
  exact app_bind (app_effLocal rd x tx attr a e _) (app_effTail rd x tx attr a e _)

theorem app_stepG (immune : List Int) (rd : Reader) (x : Item) (tx : ItemType) (attr : Int) (a : Item) :
    App (fun acc => stepG u cfg immune rd x tx attr acc a) := by
  unfold stepG
  cases itemType? u cfg a with
  | none => exact app_pure
  | some ta => exact app_foldlM _ _ fun e _ => app_effStep immune rd x tx attr a ta e

end gatherfold

/-! ## One rank level: `gather` and `valueOf` under a permutation of the item list -/

section onelevel
variable {u : Universe} {cfg cfg' : Config}

/-- The per-item step is the same function for both configurations: it sees the configuration only through
look-ups by id (`item?`, `fit?`), the source flag and `others … |>.any`. -/
theorem stepG_perm (E : ItemsPerm cfg cfg') (hU : UniqueIds cfg) (immune : List Int) (rd : Reader) (x : Item)
    (tx : ItemType) (attr : Int) :
    stepG u cfg' immune rd x tx attr = stepG u cfg immune rd x tx attr := by
  unfold stepG effStep mkMod
  rw [itemType?_perm E, runningEffects_perm E, affectsLocal_perm E, affectsProjected_perm E,
    projectionTargets_perm E hU, boostTargets_perm E hU, resistOf_perm E hU]

/-- An error answer: division by zero or the rank-order violation marker. -/
def IsErr (w : Val) : Prop := w = .divZero ∨ w = .notWF

theorem mkMod_err_kind {rd : Reader} {x a : Item} {e : Effect} {imm : Bool} {m : Modifier} {acc : List Mod}
    {w : Val} (h : mkMod cfg rd x a e imm m acc = .error w) : IsErr w := by
  have hne := mkMod_err h
  cases w with
  | absent => exact absurd rfl hne
  | divZero => exact Or.inl rfl
  | notWF => exact Or.inr rfl
  | ok v =>
    exfalso
    unfold mkMod at h
    split at h
    · cases h
    · split at h
      · cases h
      · rename_i hno
        exact hno v (Except.error.inj h)
    · rename_i hno
      exact hno v (Except.error.inj h)

theorem modsFold_err_kind {rd : Reader} {x a : Item} {e : Effect} {imm : Bool} (l : List Modifier)
    (acc : List Mod) (w : Val) (h : l.foldlM (fun acc m => mkMod cfg rd x a e imm m acc) acc = .error w) :
    IsErr w :=
  foldlM_except_err IsErr _ l acc w (fun _ _ _ _ hf => mkMod_err_kind hf) h

theorem buffModifiers_err_kind {rd : Reader} {a : Item} {w : Val} (h : buffModifiers u rd a = .error w) :
    IsErr w := by
  unfold buffModifiers at h
  refine foldlM_except_err IsErr _ _ [] w ?_ h
  intro acc p e _ hf
  split at hf
  · cases hf
  · cases hf
  · cases hf
    rename_i h1 h2
    cases hv : rd a p.1 with
    | absent => exact absurd hv h2
    | ok b => exact absurd hv (h1 b)
    | divZero => exact Or.inl rfl
    | notWF => exact Or.inr rfl

theorem effStep_err_kind {immune : List Int} {rd : Reader} {x : Item} {tx : ItemType} {attr : Int} {a : Item}
    {ta : ItemType} {acc : List Mod} {e : Effect} {w : Val}
    (h : effStep u cfg immune rd x tx attr a ta acc e = .error w) : IsErr w := by
  unfold effStep at h
  rcases except_bind_err h with h1 | ⟨acc1, _, h⟩
  · exact modsFold_err_kind _ _ _ h1
  rcases except_bind_err h with h2 | ⟨acc2, _, h⟩
  · exact foldlM_except_err IsErr _ _ _ _ (fun _ _ _ _ hf => modsFold_err_kind _ _ _ hf) h2
  split at h
  · rcases except_bind_err h with h3 | ⟨bms, _, h⟩
    · split at h3
      · exact buffModifiers_err_kind h3
      · cases h3
    · exact foldlM_except_err IsErr _ _ _ _ (fun _ _ _ _ hf => modsFold_err_kind _ _ _ hf) h
  · cases h

theorem stepG_err_kind {immune : List Int} {rd : Reader} {x : Item} {tx : ItemType} {attr : Int} {a : Item}
    {acc : List Mod} {w : Val} (h : stepG u cfg immune rd x tx attr acc a = .error w) : IsErr w := by
  unfold stepG at h
  split at h
  · cases h
  · exact foldlM_except_err IsErr _ _ _ _ (fun _ _ _ _ hf => effStep_err_kind hf) h

/-- **The gathered modifications do not depend on the order of the item list** (one rank level, any reader):
for configurations that differ in the order of their items only, `World.gather` succeeds on both with
permuted lists of modifications, or fails on both — each with an error answer (`divZero` / `notWF`; *which*
error is reported first may depend on the order). -/
theorem gather_items_perm (E : ItemsPerm cfg cfg') (hU : UniqueIds cfg) (immune : List Int) (rd : Reader)
    (x : Item) (tx : ItemType) (attr : Int) :
    (∃ l l', gather u cfg immune rd x tx attr = .ok l ∧ gather u cfg' immune rd x tx attr = .ok l' ∧ l.Perm l') ∨
    (∃ w w', gather u cfg immune rd x tx attr = .error w ∧ gather u cfg' immune rd x tx attr = .error w' ∧
      IsErr w ∧ IsErr w') := by
  rw [gather_eq_stepG, gather_eq_stepG, stepG_perm E hU]
  rcases foldlM_app_perm (stepG u cfg immune rd x tx attr) (stepG u cfg immune rd x tx attr) E.items.symm
    (fun a _ => app_stepG immune rd x tx attr a) (fun a _ => app_stepG immune rd x tx attr a)
    (fun _ _ => rfl) with h | ⟨w, w', h1, h2, ⟨_, _, e1⟩, ⟨_, _, e2⟩⟩
  · exact Or.inl h
  · exact Or.inr ⟨w, w', h1, h2, stepG_err_kind e1, stepG_err_kind e2⟩

/-- **The value of an attribute does not depend on the order of the item list** (one rank level, any reader):
equal values, or an error answer on both sides (possibly `divZero` on one and `notWF` on the other: the
gathering stops at the first error it meets). -/
theorem valueOf_items_perm (E : ItemsPerm cfg cfg') (hU : UniqueIds cfg) (immune limited : List Int)
    (pen : Nat → Rat) (rd : Reader) (x : Item) (am : AttrMeta) :
    valueOf u cfg immune limited pen rd x am = valueOf u cfg' immune limited pen rd x am ∨
    (IsErr (valueOf u cfg immune limited pen rd x am) ∧ IsErr (valueOf u cfg' immune limited pen rd x am)) := by
  rw [valueOf_eq, valueOf_eq, itemType?_perm E]
  split
  · exact Or.inl rfl
  · cases itemType? u cfg x with
    | none => exact Or.inl rfl
    | some tx =>
      dsimp only
      cases World.baseOf tx am with
      | none => exact Or.inl rfl
      | some b =>
        rcases gather_items_perm (u := u) E hU immune rd x tx am.id with ⟨l, l', h1, h2, hp⟩ | ⟨w, w', h1, h2, e1, e2⟩
        · left
          simp only [h1, h2, calculate_perm' pen am.stackable am.hig b hp]
        · simp only [h1, h2]
          exact Or.inr ⟨e1, e2⟩

/-- With a reader that yields at most one kind of error the values are equal. -/
theorem valueOf_items_perm_eq (E : ItemsPerm cfg cfg') (hU : UniqueIds cfg) (immune limited : List Int)
    (pen : Nat → Rat) (rd : Reader) (x : Item) (am : AttrMeta)
    (h1 : valueOf u cfg immune limited pen rd x am ≠ .notWF)
    (h2 : valueOf u cfg' immune limited pen rd x am ≠ .notWF) :
    valueOf u cfg immune limited pen rd x am = valueOf u cfg' immune limited pen rd x am := by
  rcases valueOf_items_perm (u := u) E hU immune limited pen rd x am with h | ⟨e1, e2⟩
  · exact h
  · rcases e1 with e1 | e1
    · rcases e2 with e2 | e2
      · rw [e1, e2]
      · exact absurd e2 h2
    · exact absurd e1 h1

end onelevel

/-! ## The whole table: induction along the rank order -/

section table
variable {u : Universe} {cfg cfg' : Config} {immune limited : List Int} {pen : Nat → Rat}

theorem get_append (t b : Table) (i : Nat) (a : Int) : (t ++ b).get i a = (t.get i a).or (b.get i a) := by
  unfold Table.get
  rw [List.find?_append]
  cases t.find? _ <;> rfl

/-- The rows of one attribute: the look-up does not depend on the order of the items. -/
theorem rows_get_perm (E : ItemsPerm cfg cfg') (hU : UniqueIds cfg) (k : Int) (F F' : Item → Val)
    (hF : ∀ x ∈ cfg.items, F x = F' x) (i : Nat) (a : Int) :
    Table.get (cfg.items.map fun y => ((y.id, k), F y)) i a =
      Table.get (cfg'.items.map fun y => ((y.id, k), F' y)) i a := by
  have h1 : (cfg'.items.map fun y => ((y.id, k), F' y)) = cfg'.items.map fun y => ((y.id, k), F y) :=
    List.map_congr_left fun y hy => by rw [hF y (E.items.mem_iff.1 hy)]
  rw [h1]
  unfold Table.get
  congr 1
  refine find?_perm_unique (E.items.symm.map _) _ fun e1 he1 e2 he2 k1 k2 => ?_
  obtain ⟨y1, hy1, rfl⟩ := List.mem_map.1 he1
  obtain ⟨y2, hy2, rfl⟩ := List.mem_map.1 he2
  have e1 : y1.id = i := by simpa using congrArg Prod.fst (beq_iff_eq.1 k1)
  have e2 : y2.id = i := by simpa using congrArg Prod.fst (beq_iff_eq.1 k2)
  rw [eq_of_nodup_map (fun y : Item => y.id) (l := cfg.items) hU hy1 hy2 (e1.trans e2.symm)]

theorem readDep_congr {u' : Universe} (ha : u'.attrs = u.attrs) {t t' : Table} (h : ∀ i a, t.get i a = t'.get i a) :
    readDep u t = readDep u' t' := by
  funext y a
  unfold readDep attrMeta?
  rw [h, ha]

/-- Equal values, or an error answer on both sides. -/
def RelVal (v v' : Val) : Prop := v = v' ∨ (IsErr v ∧ IsErr v')

theorem RelVal.eq_of_ne_notWF {v v' : Val} (h : RelVal v v') (h1 : v ≠ .notWF) (h2 : v' ≠ .notWF) : v = v' := by
  rcases h with h | ⟨e1, e2⟩
  · exact h
  · rcases e1 with e1 | e1
    · rcases e2 with e2 | e2
      · rw [e1, e2]
      · exact absurd e2 h2
    · exact absurd e1 h1

/-- **Induction along the rank order**, for two universes with the same attribute list and two configurations
with permuted item lists whose one-level values agree up to the kind of error (`hval`): the two tables answer
every look-up alike.  Rank well-formedness of both universes excludes `notWF`, so "up to the kind of error"
becomes equality at every level. -/
theorem evalAll_fold_rel {u' : Universe} (hwf : RankWF u) (hwf' : RankWF u') (hattrs : u'.attrs = u.attrs)
    (E : ItemsPerm cfg cfg') (hU : UniqueIds cfg)
    (hval : ∀ (rd : Reader) (x : Item) (am : AttrMeta),
      RelVal (valueOf u cfg immune limited pen rd x am) (valueOf u' cfg' immune limited pen rd x am))
    (rest : List AttrMeta) :
    ∀ (pre : List AttrMeta) (t t' : Table), u.attrs = pre ++ rest →
      TableOK cfg (pre.map (·.id)) t → TableOK cfg' (pre.map (·.id)) t' → (∀ i a, t.get i a = t'.get i a) →
      ∀ i a, (rest.foldl (tblStep u cfg immune limited pen) t).get i a =
        (rest.foldl (tblStep u' cfg' immune limited pen) t').get i a := by
  induction rest with
  | nil => intro _ _ _ _ _ _ h; exact h
  | cons am rest ih =>
    intro pre t t' hsplit hok hok' hget
    rw [List.foldl_cons, List.foldl_cons]
    have hrd := readDep_congr (u := u) hattrs hget
    have hr := hwf pre am rest hsplit
    have hr' := hwf' pre am rest (hattrs.trans hsplit)
    have hs1 := evalAll_step hok immune limited pen am hr
    have hs2 := evalAll_step hok' immune limited pen am hr'
    refine ih (pre ++ [am]) _ _ (by simp [hsplit]) (by simpa [tblStep] using hs1)
      (by simpa [tblStep] using hs2) fun i a => ?_
    unfold tblStep
    rw [get_append, get_append, hget]
    congr 1
    refine rows_get_perm E hU am.id _ _ (fun x hx => ?_) i a
    have n1 := valueOf_ne_notWF hok immune limited pen hx am hr
    have n2 := valueOf_ne_notWF hok' immune limited pen (E.items.mem_iff.2 hx) am hr'
    rw [← hrd] at n2 ⊢
    exact (hval _ x am).eq_of_ne_notWF n1 n2

theorem evalAll_get_rel {u' : Universe} (hwf : RankWF u) (hwf' : RankWF u') (hattrs : u'.attrs = u.attrs)
    (E : ItemsPerm cfg cfg') (hU : UniqueIds cfg)
    (hval : ∀ (rd : Reader) (x : Item) (am : AttrMeta),
      RelVal (valueOf u cfg immune limited pen rd x am) (valueOf u' cfg' immune limited pen rd x am))
    (i : Nat) (a : Int) :
    (evalAll u cfg immune limited pen).get i a = (evalAll u' cfg' immune limited pen).get i a := by
  rw [evalAll_eq_foldl, evalAll_eq_foldl, hattrs]
  exact evalAll_fold_rel hwf hwf' hattrs E hU hval u.attrs [] [] [] rfl
    ⟨fun _ h => (by cases h), fun _ _ _ h => (by cases h)⟩ ⟨fun _ h => (by cases h), fun _ _ _ h => (by cases h)⟩
    (fun _ _ => rfl) i a

/-- The tables of two configurations that differ in the order of their items only answer every look-up alike. -/
theorem evalAll_get_perm (hwf : rankWF u = true) (E : ItemsPerm cfg cfg') (hU : UniqueIds cfg) (i : Nat) (a : Int) :
    (evalAll u cfg immune limited pen).get i a = (evalAll u cfg' immune limited pen).get i a :=
  evalAll_get_rel ((rankWF_iff u).1 hwf) ((rankWF_iff u).1 hwf) rfl E hU
    (fun rd x am => valueOf_items_perm E hU immune limited pen rd x am) i a

/-- With unique attribute and item ids every entry of the table is what the look-up of its key returns. -/
theorem entry_is_get (hun : UniqueAttrs u) (hc : UniqueIds cfg) {e : (Nat × Int) × Val}
    (he : e ∈ evalAll u cfg immune limited pen) :
    (evalAll u cfg immune limited pen).get e.1.1 e.1.2 = some e.2 := by
  rw [evalAll_eq_foldl] at he ⊢
  rcases tbl_mem u.attrs [] he with h | ⟨p1, amb, p2, hl, y, hy, rfl⟩
  · cases h
  · exact tbl_get hc hl hun hy

/-- "Non-zero divisors" of the table does not depend on the order of the item list. -/
theorem noDivZero_perm (hwf : rankWF u = true) (hun : UniqueAttrs u) (E : ItemsPerm cfg cfg') (hU : UniqueIds cfg)
    (hnz : ∀ entry ∈ evalAll u cfg immune limited pen, entry.2 ≠ .divZero) :
    ∀ entry ∈ evalAll u cfg' immune limited pen, entry.2 ≠ .divZero := by
  intro e he
  have h := entry_is_get hun (E.uniqueIds hU) he
  rw [← evalAll_get_perm hwf E hU] at h
  obtain ⟨e0, he0, h0⟩ := get_mem h
  rw [← h0]
  exact hnz e0 he0

end table

/-! ## Headline: the order of the item list is irrelevant -/

section headline
variable {u : Universe} {immune limited : List Int} {pen : Nat → Rat}

/-- **Observable results do not depend on the iteration order of the item set.**  Two configurations that
differ only in the order in which their items are listed (`ItemsPerm`: the item lists are permutations of each
other, same fits, same source) have from-scratch tables `World.evalAll` that answer every public read alike:
for every item `x` (configured or not) and every attribute id `a`.  The two tables are *different lists*
(their rows are in different orders, and every gathered list of modifications is permuted); the reads agree.
Hypotheses: `hwf` acyclic attribute dependencies (without it, one order may report `divZero` and the other the
rank violation marker `notWF` for the same entry — the gathering stops at the first error —, see
`valueOf_items_perm`); `hU` unique item ids (look-ups by id then do not depend on the order). -/
theorem gather_order_irrelevant_world (hwf : rankWF u = true) {cfg cfg' : Config} (E : ItemsPerm cfg cfg')
    (hU : UniqueIds cfg) (x : Item) (a : Int) :
    World.read (evalAll u cfg immune limited pen) x a = World.read (evalAll u cfg' immune limited pen) x a := by
  unfold World.read
  rw [evalAll_get_perm hwf E hU]

/-- **Message level.**  Two legal message histories (any initial registers, empty caches) that end in settled
states whose configurations differ only in the order of their item lists are indistinguishable by reads: at
every configured item and attribute with metadata both observe the same value, the entry of the from-scratch
table of either configuration.  (For equal final configurations this is `C13World.setup_order_irrelevant_world`;
here the *specification's* iteration order over the item set is varied as well.)  Hypotheses as in
`C01World.world_read_eq_table_buff`, per history. -/
theorem obs_item_order_irrelevant_world (hwf : rankWF u = true) (hun : UniqueAttrs u) (hR : ResistWF u)
    (hnp : ∀ e ∈ u.effects, e.isBuff = true → e.category ≠ 2)
    {cfg cfg' : Config} {d d' : Dyn}
    (hU : UniqueIds cfg) (hC : ChargeWF cfg) (hT : TgtKinds cfg d)
    (hU' : UniqueIds cfg') (hC' : ChargeWF cfg') (hT' : TgtKinds cfg' d')
    (steps steps' : List WStep)
    (ok : WRunOKE u immune limited pen (worldGraph u immune limited pen hwf) ⟨cfg, d, fun _ => none⟩ steps)
    (ok' : WRunOKE u immune limited pen (worldGraph u immune limited pen hwf) ⟨cfg', d', fun _ => none⟩ steps')
    (sF sF' : MState)
    (hF : wrun u (worldGraph u immune limited pen hwf) ⟨cfg, d, fun _ => none⟩ steps = sF)
    (hF' : wrun u (worldGraph u immune limited pen hwf) ⟨cfg', d', fun _ => none⟩ steps' = sF')
    (E : ItemsPerm sF.cfg sF'.cfg)
    (hset : BuffSettled u sF.cfg immune limited pen sF.dyn)
    (hset' : BuffSettled u sF'.cfg immune limited pen sF'.dyn)
    (hnz : ∀ entry ∈ evalAll u sF.cfg immune limited pen, entry.2 ≠ .divZero)
    {x : Item} (hx : x ∈ sF.cfg.items) {am : AttrMeta} (ham : am ∈ u.attrs) :
    observe (worldGraph u immune limited pen hwf) (toState sF) (x.id, am.id) =
      observe (worldGraph u immune limited pen hwf) (toState sF') (x.id, am.id) ∧
    observe (worldGraph u immune limited pen hwf) (toState sF) (x.id, am.id) =
      valToOption (World.read (evalAll u sF.cfg immune limited pen) x am.id) := by
  have hUF : UniqueIds sF.cfg := by
    subst hF
    have T := worldGraph_ties (immune := immune) (limited := limited) (pen := pen) hwf
    exact (micro_inv_run T hwf hun hR hU hC hT steps (wrunOK_of_errorFree T steps _ ok)).uniq
  have h1 := world_read_eq_table_buff hwf hun hR hnp hU hC hT steps ok sF hF hset hnz hx ham
  have h2 := world_read_eq_table_buff hwf hun hR hnp hU' hC' hT' steps' ok' sF' hF' hset'
    (noDivZero_perm hwf hun E hUF hnz) (E.items.mem_iff.2 hx) ham
  exact ⟨by rw [h1, h2, gather_order_irrelevant_world hwf E hUF], h1⟩

end headline

/-! ## Non-vacuity

### Two modules, two orders

`ordU`: a ship (attribute 37 = 100) and two low-slot module types whose passive effect 1000 multiplies attribute
37 of the ship of the fit by the module's attribute 20 (3/2 for type 2, 2 for type 3).  `ordCfg` lists ship,
module 2, module 3; `ordCfgR` lists them in reverse.  The gathered modifications come in different orders
(values `[3/2, 2]` and `[2, 3/2]`), the tables are different lists, every read agrees: 300. -/

def ordU : Universe :=
  { attrs := [⟨20, none, none, true, true⟩, ⟨37, none, none, true, true⟩],
    effects := [⟨1000, 0, none, none, false, [⟨1, 3, none, 37, 6, 1, none, 20⟩]⟩],
    types := [⟨1, none, some 6, none, [(37, 100)], [], []⟩,
              ⟨2, none, some 7, none, [(20, 3/2)], [1000], []⟩,
              ⟨3, none, some 7, none, [(20, 2)], [1000], []⟩] }
def ordShip : Item := ⟨1, .ship, 1, 0, 1, none, none, none, []⟩
def ordModA : Item := ⟨2, .moduleLow, 2, 0, 1, none, none, none, []⟩
def ordModB : Item := ⟨3, .moduleLow, 3, 0, 1, none, none, none, []⟩
def ordCfg : Config := { hasSource := true, fits := [⟨0, some 1, none, none⟩], items := [ordShip, ordModA, ordModB] }
def ordCfgR : Config := { hasSource := true, fits := [⟨0, some 1, none, none⟩], items := [ordModB, ordModA, ordShip] }
def ordRd : Reader := fun y a => if a == 20 then (if y.id == 2 then .ok (3/2) else .ok 2) else .absent

theorem ord_perm : ItemsPerm ordCfg ordCfgR := ⟨List.reverse_perm [ordShip, ordModA, ordModB], rfl, rfl⟩
theorem ord_uniq : UniqueIds ordCfg := by unfold UniqueIds; decide

/-- The hypotheses of `gather_order_irrelevant_world` hold, and the orders really differ. -/
example : rankWF ordU = true ∧
    (gather ordU ordCfg specImmune ordRd ordShip ⟨1, none, some 6, none, [(37, 100)], [], []⟩ 37).toOption.map
      (·.map (·.value)) = some [3/2, 2] ∧
    (gather ordU ordCfgR specImmune ordRd ordShip ⟨1, none, some 6, none, [(37, 100)], [], []⟩ 37).toOption.map
      (·.map (·.value)) = some [2, 3/2] ∧
    evalAll ordU ordCfg specImmune specLimited (fun _ => 1) ≠ evalAll ordU ordCfgR specImmune specLimited (fun _ => 1) := by
  refine ⟨by decide, by decide +kernel, by decide +kernel, by decide +kernel⟩

/-- The theorem applied; the common value is 100 · 3/2 · 2. -/
example :
    World.read (evalAll ordU ordCfg specImmune specLimited (fun _ => 1)) ordShip 37 =
      World.read (evalAll ordU ordCfgR specImmune specLimited (fun _ => 1)) ordShip 37 ∧
    World.read (evalAll ordU ordCfgR specImmune specLimited (fun _ => 1)) ordShip 37 = .ok 300 :=
  ⟨gather_order_irrelevant_world (by decide) ord_perm ord_uniq ordShip 37, by decide +kernel⟩

/-- One rank level: `gather_items_perm` yields the permuted lists above. -/
example : ∃ l l', gather ordU ordCfg specImmune ordRd ordShip ⟨1, none, some 6, none, [(37, 100)], [], []⟩ 37 = .ok l ∧
    gather ordU ordCfgR specImmune ordRd ordShip ⟨1, none, some 6, none, [(37, 100)], [], []⟩ 37 = .ok l' ∧
    l.Perm l' ∧ l ≠ l' := by
  rcases gather_items_perm (u := ordU) ord_perm ord_uniq specImmune ordRd ordShip
    ⟨1, none, some 6, none, [(37, 100)], [], []⟩ 37 with ⟨l, l', h1, h2, hp⟩ | ⟨w, _, h1, _⟩
  · refine ⟨l, l', h1, h2, hp, fun hll => ?_⟩
    have e1 : (gather ordU ordCfg specImmune ordRd ordShip ⟨1, none, some 6, none, [(37, 100)], [], []⟩
      37).toOption.map (·.map (·.value)) = some [3/2, 2] := by decide +kernel
    have e2 : (gather ordU ordCfgR specImmune ordRd ordShip ⟨1, none, some 6, none, [(37, 100)], [], []⟩
      37).toOption.map (·.map (·.value)) = some [2, 3/2] := by decide +kernel
    rw [h1] at e1; rw [h2, ← hll] at e2
    rw [e1] at e2
    exact absurd e2 (by decide +kernel)
  · have e1 : (gather ordU ordCfg specImmune ordRd ordShip ⟨1, none, some 6, none, [(37, 100)], [], []⟩
      37).toOption.map (·.map (·.value)) = some [3/2, 2] := by decide +kernel
    rw [h1] at e1; cases e1

/-! ## The order of an effect's modifier list and of a type's effect list -/

section reorder
variable {u : Universe} {cfg : Config} {immune limited : List Int} {pen : Nat → Rat}

/-- Effect `e` with its modifiers re-listed as `σ e`. -/
def reMods (σ : Effect → List Modifier) (e : Effect) : Effect := { e with mods := σ e }
/-- The universe with the modifier list of every effect re-listed. -/
def reorderMods (σ : Effect → List Modifier) (u : Universe) : Universe :=
  { u with effects := u.effects.map (reMods σ) }
/-- Item type `ty` with its effect ids re-listed as `τ ty`. -/
def reEffs (τ : ItemType → List Int) (ty : ItemType) : ItemType := { ty with effects := τ ty }
/-- The universe with the effect list of every item type re-listed. -/
def reorderEffs (τ : ItemType → List Int) (u : Universe) : Universe :=
  { u with types := u.types.map (reEffs τ) }

/-! ### Modifier lists -/

theorem effect?_reorderMods (σ : Effect → List Modifier) (i : Int) :
    effect? (reorderMods σ u) i = (effect? u i).map (reMods σ) := by
  unfold effect? reorderMods
  rw [List.find?_map]
  rfl

theorem runningEffects_reorderMods (σ : Effect → List Modifier) (a : Item) :
    runningEffects (reorderMods σ u) cfg a = (runningEffects u cfg a).map (reMods σ) := by
  unfold runningEffects
  show (match itemType? u cfg a with | none => [] | some ty => _) = _
  cases itemType? u cfg a with
  | none => rfl
  | some ty =>
    dsimp only
    have h1 : ty.effects.filterMap (effect? (reorderMods σ u)) =
        (ty.effects.filterMap (effect? u)).map (reMods σ) := by
      rw [List.map_filterMap]
      exact List.filterMap_congr fun i _ => effect?_reorderMods σ i
    rw [h1, List.find?_map, List.filter_map]
    cases hf : (ty.effects.filterMap (effect? u)).find? ((fun x => x.id == 16) ∘ reMods σ) with
    | none =>
      have hf' : (ty.effects.filterMap (effect? u)).find? (fun x => x.id == 16) = none := hf
      rw [hf']; rfl
    | some oe =>
      have hf' : (ty.effects.filterMap (effect? u)).find? (fun x => x.id == 16) = some oe := hf
      rw [hf']; rfl

theorem mem_readable_reorderMods {σ : Effect → List Modifier} (hσ : ∀ e ∈ u.effects, (σ e).Perm e.mods)
    {am : AttrMeta} {a : Int} (h : a ∈ readable (reorderMods σ u) am) : a ∈ readable u am := by
  unfold readable gatherReads at h ⊢
  simp only [reorderMods, List.mem_append, List.mem_flatMap, List.mem_map, List.mem_filterMap,
    exists_exists_and_eq_and] at h ⊢
  rcases h with h | (⟨e, he, m, hm, rfl⟩ | ⟨e, he, h⟩) | h
  · exact Or.inl h
  · refine Or.inr (Or.inl (Or.inl ⟨e, he, m, ?_, rfl⟩))
    have hm' : m ∈ (reMods σ e).mods.filter (·.tgtAttr == am.id) := hm
    rw [List.mem_filter] at hm' ⊢
    exact ⟨(hσ e he).mem_iff.1 hm'.1, hm'.2⟩
  · refine Or.inr (Or.inl (Or.inr ⟨e, he, ?_⟩))
    have hany : (reMods σ e).mods.any (·.tgtAttr == am.id) = e.mods.any (·.tgtAttr == am.id) :=
      any_perm _ (hσ e he)
    have h' : (if (reMods σ e).mods.any (·.tgtAttr == am.id) || ((reMods σ e).isBuff &&
        u.buffs.any (·.tgtAttr == am.id)) then (reMods σ e).resistAttr.filter (· != 0) else none) = some a := h
    rw [hany] at h'
    exact h'
  · exact Or.inr (Or.inr h)

theorem rankWF_reorderMods {σ : Effect → List Modifier} (hσ : ∀ e ∈ u.effects, (σ e).Perm e.mods)
    (hwf : RankWF u) : RankWF (reorderMods σ u) :=
  fun pre am post hs a ha hsome => hwf pre am post hs a (mem_readable_reorderMods hσ ha) hsome

theorem relOut_modsFold (rd : Reader) (x a : Item) (e e' : Effect) (imm : Bool) {l l' : List Modifier}
    (hp : l.Perm l') (hr : e'.resistAttr = e.resistAttr) :
    RelOut (l.foldlM (fun acc m => mkMod cfg rd x a e imm m acc) [])
      (l'.foldlM (fun acc m => mkMod cfg rd x a e' imm m acc) []) := by
  refine relOut_foldlM hp (fun m _ => app_mkMod rd x a e imm m) (fun m _ => app_mkMod rd x a e' imm m)
    fun m _ => RelOut.of_eq ?_
  unfold mkMod resistOf
  rw [hr]

/-- One running effect: re-listing its modifiers permutes what it contributes. -/
theorem relOut_effStep_reMods {σ : Effect → List Modifier} {e : Effect} (he : (σ e).Perm e.mods)
    (immune : List Int) (rd : Reader) (x : Item) (tx : ItemType) (attr : Int) (a : Item) (ta : ItemType) :
    RelOut (effStep u cfg immune rd x tx attr a ta [] e)
      (effStep (reorderMods σ u) cfg immune rd x tx attr a ta [] (reMods σ e)) := by
  rw [effStep_eq_parts, effStep_eq_parts]
  refine relOut_bind (app_effTail rd x tx attr a e _) (app_effTail rd x tx attr a (reMods σ e) _) ?_
    (relOut_bind (app_effBoost rd x tx attr a e _) (app_effBoost rd x tx attr a (reMods σ e) _) ?_ ?_)
  · exact relOut_modsFold rd x a e (reMods σ e) _ (he.symm.filter _) rfl
  · exact relOut_foldlM (List.Perm.refl _) (fun _ _ => app_modsFold rd x a e _ _)
      (fun _ _ => app_modsFold rd x a (reMods σ e) _ _)
      fun tg _ => relOut_modsFold rd x a e (reMods σ e) _ (he.symm.filter _) rfl
  · unfold effBoost
    show RelOut (if e.isBuff then _ else _) (if e.isBuff then _ else _)
    cases e.isBuff with
    | false => exact RelOut.refl _
    | true =>
      simp only [if_true]
      refine relOut_const_bind _ fun bms => ?_
      exact relOut_foldlM (List.Perm.refl _) (fun _ _ => app_modsFold rd x a e _ _)
        (fun _ _ => app_modsFold rd x a (reMods σ e) _ _)
        fun tg _ => relOut_modsFold rd x a e (reMods σ e) _
          (((List.Perm.refl bms).append (he.symm.filter _)).filter _) rfl

theorem relOut_gather_reorderMods {σ : Effect → List Modifier} (hσ : ∀ e ∈ u.effects, (σ e).Perm e.mods)
    (immune : List Int) (rd : Reader) (x : Item) (tx : ItemType) (attr : Int) :
    RelOut (gather u cfg immune rd x tx attr) (gather (reorderMods σ u) cfg immune rd x tx attr) := by
  rw [gather_eq_stepG, gather_eq_stepG]
  refine relOut_foldlM (List.Perm.refl _) (fun a _ => app_stepG immune rd x tx attr a)
    (fun a _ => app_stepG immune rd x tx attr a) fun a _ => ?_
  unfold stepG
  show RelOut (match itemType? u cfg a with | none => _ | some ta => _)
    (match itemType? u cfg a with | none => _ | some ta => _)
  cases itemType? u cfg a with
  | none => exact RelOut.refl _
  | some ta =>
    dsimp only
    rw [runningEffects_reorderMods, List.foldlM_map]
    exact relOut_foldlM (List.Perm.refl _) (fun e _ => app_effStep immune rd x tx attr a ta e)
      (fun e _ => app_effStep immune rd x tx attr a ta (reMods σ e))
      fun e he => relOut_effStep_reMods (hσ e (runningEffects_mem he)) immune rd x tx attr a ta

/-! ### Effect lists of item types -/

theorem type?_reorderEffs (τ : ItemType → List Int) (t : Int) :
    type? (reorderEffs τ u) t = (type? u t).map (reEffs τ) := by
  unfold type? reorderEffs
  rw [List.find?_map]
  rfl

theorem itemType?_reorderEffs (τ : ItemType → List Int) (a : Item) :
    itemType? (reorderEffs τ u) cfg a = (itemType? u cfg a).map (reEffs τ) := by
  unfold itemType?
  rw [type?_reorderEffs]
  cases cfg.hasSource <;> rfl

theorem itemType?_mem {a : Item} {ty : ItemType} (h : itemType? u cfg a = some ty) : ty ∈ u.types := by
  unfold itemType? at h
  split at h
  · exact List.mem_of_find?_eq_some h
  · cases h

theorem effect?_id {i : Int} {e : Effect} (h : effect? u i = some e) : e.id = i := by
  have := List.find?_some h; simpa using this

theorem runningEffects_reorderEffs {τ : ItemType → List Int} (hτ : ∀ ty ∈ u.types, (τ ty).Perm ty.effects)
    (a : Item) : (runningEffects (reorderEffs τ u) cfg a).Perm (runningEffects u cfg a) := by
  unfold runningEffects
  rw [itemType?_reorderEffs]
  cases hty : itemType? u cfg a with
  | none => exact List.Perm.refl _
  | some ty =>
    have hp : ((τ ty).filterMap (effect? u)).Perm (ty.effects.filterMap (effect? u)) :=
      (hτ ty (itemType?_mem hty)).filterMap _
    have hfind : ((τ ty).filterMap (effect? u)).find? (·.id == 16) =
        (ty.effects.filterMap (effect? u)).find? (·.id == 16) := by
      refine find?_perm_unique hp _ fun e1 h1 e2 h2 k1 k2 => ?_
      obtain ⟨i1, _, hi1⟩ := List.mem_filterMap.1 h1
      obtain ⟨i2, _, hi2⟩ := List.mem_filterMap.1 h2
      have j1 : i1 = 16 := (effect?_id hi1).symm.trans (beq_iff_eq.1 k1)
      have j2 : i2 = 16 := (effect?_id hi2).symm.trans (beq_iff_eq.1 k2)
      rw [j1] at hi1; rw [j2] at hi2
      exact Option.some.inj (hi1.symm.trans hi2)
    show (((τ ty).filterMap (effect? u)).filter fun e => runsEffect a ty e
        (match ((τ ty).filterMap (effect? u)).find? (·.id == 16) with
          | some oe => runsEffect a ty oe false
          | none => false)).Perm _
    rw [hfind]
    exact hp.filter _

theorem relOut_gather_reorderEffs {τ : ItemType → List Int} (hτ : ∀ ty ∈ u.types, (τ ty).Perm ty.effects)
    (immune : List Int) (rd : Reader) (x : Item) (tx : ItemType) (attr : Int) :
    RelOut (gather u cfg immune rd x tx attr)
      (gather (reorderEffs τ u) cfg immune rd x (reEffs τ tx) attr) := by
  rw [gather_eq_stepG, gather_eq_stepG]
  refine relOut_foldlM (List.Perm.refl _) (fun a _ => app_stepG immune rd x tx attr a)
    (fun a _ => app_stepG immune rd x (reEffs τ tx) attr a) fun a _ => ?_
  unfold stepG
  rw [itemType?_reorderEffs]
  cases itemType? u cfg a with
  | none => exact RelOut.refl _
  | some ta =>
    show RelOut _ ((runningEffects (reorderEffs τ u) cfg a).foldlM
      (effStep (reorderEffs τ u) cfg immune rd x (reEffs τ tx) attr a (reEffs τ ta)) [])
    exact relOut_foldlM (runningEffects_reorderEffs hτ a).symm
      (fun e _ => app_effStep immune rd x tx attr a ta e)
      (fun e _ => app_effStep immune rd x (reEffs τ tx) attr a (reEffs τ ta) e)
      fun e _ => RelOut.of_eq rfl

/-! ### One rank level, and the table -/

theorem gather_err_kind {immune : List Int} {rd : Reader} {x : Item} {tx : ItemType} {attr : Int} {w : Val}
    (h : gather u cfg immune rd x tx attr = .error w) : IsErr w := by
  rw [gather_eq_stepG] at h
  exact foldlM_except_err IsErr _ _ [] w (fun _ _ _ _ hf => stepG_err_kind hf) h

/-- From related gatherings to related values. -/
theorem relVal_valueOf {u' : Universe} {cfg' : Config} (ψ : ItemType → ItemType)
    (rd : Reader) (x : Item) (am : AttrMeta)
    (hty : itemType? u' cfg' x = (itemType? u cfg x).map ψ)
    (hb : ∀ tx, World.baseOf (ψ tx) am = World.baseOf tx am)
    (hg : ∀ tx, RelOut (gather u cfg immune rd x tx am.id) (gather u' cfg' immune rd x (ψ tx) am.id)) :
    RelVal (valueOf u cfg immune limited pen rd x am) (valueOf u' cfg' immune limited pen rd x am) := by
  rw [valueOf_eq, valueOf_eq, hty]
  split
  · exact Or.inl rfl
  · cases itemType? u cfg x with
    | none => exact Or.inl rfl
    | some tx =>
      dsimp only [Option.map]
      rw [hb tx]
      cases World.baseOf tx am with
      | none => exact Or.inl rfl
      | some b =>
        rcases hg tx with ⟨l, l', h1, h2, hp⟩ | ⟨w, w', h1, h2⟩
        · left
          simp only [h1, h2, calculate_perm' pen am.stackable am.hig b hp]
        · simp only [h1, h2]
          exact Or.inr ⟨gather_err_kind h1, gather_err_kind h2⟩

/-- **The order of the modifier list of an effect is irrelevant**: for any re-listing `σ` of the modifiers of
the universe's effects (`hσ`: a permutation, effect by effect) the from-scratch tables answer every read alike. -/
theorem modifier_order_irrelevant_world (hwf : rankWF u = true) {σ : Effect → List Modifier}
    (hσ : ∀ e ∈ u.effects, (σ e).Perm e.mods) (hU : UniqueIds cfg) (x : Item) (a : Int) :
    World.read (evalAll u cfg immune limited pen) x a =
      World.read (evalAll (reorderMods σ u) cfg immune limited pen) x a := by
  unfold World.read
  rw [evalAll_get_rel ((rankWF_iff u).1 hwf) (rankWF_reorderMods hσ ((rankWF_iff u).1 hwf)) rfl
    (ItemsPerm.refl cfg) hU fun rd y am => relVal_valueOf id rd y am
      (by rw [Option.map_id]; rfl) (fun _ => rfl) fun tx => relOut_gather_reorderMods hσ immune rd y tx am.id]

/-- **The order of the effect list of an item type is irrelevant**: for any re-listing `τ` of the effect ids of
the universe's item types (`hτ`: a permutation, type by type) the from-scratch tables answer every read alike. -/
theorem effect_order_irrelevant_world (hwf : rankWF u = true) {τ : ItemType → List Int}
    (hτ : ∀ ty ∈ u.types, (τ ty).Perm ty.effects) (hU : UniqueIds cfg) (x : Item) (a : Int) :
    World.read (evalAll u cfg immune limited pen) x a =
      World.read (evalAll (reorderEffs τ u) cfg immune limited pen) x a := by
  unfold World.read
  rw [evalAll_get_rel ((rankWF_iff u).1 hwf) (u' := reorderEffs τ u) ((rankWF_iff u).1 hwf) rfl
    (ItemsPerm.refl cfg) hU fun rd y am => relVal_valueOf (reEffs τ) rd y am
      (itemType?_reorderEffs τ y) (fun _ => rfl) fun tx => relOut_gather_reorderEffs hτ immune rd y tx am.id]

/-- **All three iteration orders at once.**  The items of the configuration listed in another order (`E`), the
modifiers of every effect re-listed (`σ`), the effect ids of every item type re-listed (`τ`): the from-scratch
tables answer every public read alike. -/
theorem iteration_order_irrelevant_world (hwf : rankWF u = true) {cfg' : Config} (E : ItemsPerm cfg cfg')
    (hU : UniqueIds cfg) {σ : Effect → List Modifier} (hσ : ∀ e ∈ u.effects, (σ e).Perm e.mods)
    {τ : ItemType → List Int} (hτ : ∀ ty ∈ u.types, (τ ty).Perm ty.effects) (x : Item) (a : Int) :
    World.read (evalAll u cfg immune limited pen) x a =
      World.read (evalAll (reorderEffs τ (reorderMods σ u)) cfg' immune limited pen) x a := by
  rw [gather_order_irrelevant_world hwf E hU, modifier_order_irrelevant_world hwf hσ (E.uniqueIds hU)]
  exact effect_order_irrelevant_world ((rankWF_iff _).2 (rankWF_reorderMods hσ ((rankWF_iff u).1 hwf)))
    (u := reorderMods σ u) hτ (E.uniqueIds hU) x a

end reorder

/-! ### Non-vacuity: `settleU` with every list reversed

The universe of `Lemmas/MicroSettle.lean` (a module with two running projectable effects, each with a local and a
projected modifier on the ship's attribute 37) with the modifier list of both effects, the effect list of the
module type and the item list of the configuration reversed: the modifications are gathered in the order of
operators 5, 7, 4, 6 instead of 4, 6, 5, 7, the tables list their rows differently, the reads agree: 225. -/

def settleURev : Universe :=
  reorderEffs (fun ty => ty.effects.reverse) (reorderMods (fun e => e.mods.reverse) settleU)
def settleCfgRev : Config := { settleCfg with items := settleCfg.items.reverse }

example :
    (gather settleU settleCfg specImmune settleRd settleShip
      ⟨1, none, some 6, none, [(37, 100)], [], []⟩ 37).toOption.map (·.map (·.op)) = some [4, 6, 5, 7] ∧
    (gather settleURev settleCfgRev specImmune settleRd settleShip
      ⟨1, none, some 6, none, [(37, 100)], [], []⟩ 37).toOption.map (·.map (·.op)) = some [5, 7, 4, 6] ∧
    evalAll settleU settleCfg specImmune specLimited (fun _ => 1) ≠
      evalAll settleURev settleCfgRev specImmune specLimited (fun _ => 1) := by
  refine ⟨by decide +kernel, by decide +kernel, by decide +kernel⟩

example :
    World.read (evalAll settleU settleCfg specImmune specLimited (fun _ => 1)) settleShip 37 =
      World.read (evalAll settleURev settleCfgRev specImmune specLimited (fun _ => 1)) settleShip 37 ∧
    World.read (evalAll settleURev settleCfgRev specImmune specLimited (fun _ => 1)) settleShip 37 = .ok 225 :=
  ⟨iteration_order_irrelevant_world (u := settleU) (cfg := settleCfg) (cfg' := settleCfgRev) (by decide)
    ⟨List.reverse_perm settleCfg.items, rfl, rfl⟩
    (by unfold UniqueIds; decide) (fun e _ => List.reverse_perm e.mods) (fun ty _ => List.reverse_perm ty.effects)
    settleShip 37, by decide +kernel⟩

/-! ## The invalidation cascade does not depend on the order of the direct invalidation list

`Lemmas/MicroCascade.lean` proves what the depth-first cascade guarantees (`Cascade.Contract`: it only removes,
every listed node ends up uncached, the removal set is closed under `rdeps`).  For order independence the converse
is needed as well: the cascade removes *nothing else* — every removed entry is a listed node or a reverse
dependency of a removed cached entry (`Justified`).  With ranks growing along `rdeps` the two together determine
the result. -/

section cascade
open Eos.Cascade
variable {N V : Type} [DecidableEq N]

/-- Every entry removed between `K` and `K'` is justified: a direct target, or a reverse dependency of a cached
entry that was removed. -/
def Justified (rdeps : N → List N) (direct : List N) (K K' : Cascade.Cache N V) : Prop :=
  ∀ n, K n ≠ none → K' n = none → n ∈ direct ∨ ∃ m, K m ≠ none ∧ K' m = none ∧ n ∈ rdeps m

omit [DecidableEq N] in
theorem justified_fold (rdeps : N → List N) (v : Cascade.Cache N V → N → Cascade.Cache N V)
    (hs : ∀ K t, Sub K (v K t)) (hj : ∀ K t, Justified rdeps [t] K (v K t)) :
    ∀ (l : List N) (K : Cascade.Cache N V), Justified rdeps l K (l.foldl v K) := by
  have hfold : ∀ (l : List N) (K : Cascade.Cache N V), Sub K (l.foldl v K) := by
    intro l
    induction l with
    | nil => intro K; exact Sub.refl K
    | cons t l ih => intro K; exact (hs K t).trans (ih (v K t))
  intro l
  induction l with
  | nil => intro K n h1 h2; exact absurd h2 h1
  | cons t l ih =>
    intro K n h1 h2
    simp only [List.foldl_cons] at h2 ⊢
    by_cases hmid : v K t n = none
    · rcases hj K t n h1 hmid with h | ⟨m, hm1, hm2, hm3⟩
      · exact Or.inl (by rw [List.mem_singleton.1 h]; exact List.mem_cons_self)
      · exact Or.inr ⟨m, hm1, mono_none (hfold l (v K t)).mono hm2, hm3⟩
    · rcases ih (v K t) n hmid h2 with h | ⟨m, hm1, hm2, hm3⟩
      · exact Or.inl (List.mem_cons_of_mem _ h)
      · exact Or.inr ⟨m, (hs K t).mono m hm1, hm2, hm3⟩

/-- The depth-first cascade removes nothing without a reason (any fuel). -/
theorem casc_visit_justified (rdeps : N → List N) : ∀ fuel : Nat,
    (∀ (K : Cascade.Cache N V) (n : N), Justified rdeps (rdeps n) K (Cascade.casc rdeps fuel K n)) ∧
    (∀ (K : Cascade.Cache N V) (t : N), Justified rdeps [t] K (Cascade.visit rdeps fuel K t)) := by
  have vis : ∀ fuel,
      (∀ (K : Cascade.Cache N V) (n : N), Justified rdeps (rdeps n) K (Cascade.casc rdeps fuel K n)) →
      ∀ (K : Cascade.Cache N V) (t : N), Justified rdeps [t] K (Cascade.visit rdeps fuel K t) := by
    intro fuel hc K t n h1 h2
    unfold Cascade.visit at h2
    by_cases hk : K t = none
    · rw [if_pos hk] at h2; exact absurd h2 h1
    · rw [if_neg hk] at h2
      by_cases hnt : n = t
      · exact Or.inl (by rw [hnt]; exact List.mem_singleton.2 rfl)
      · have hsub := (casc_visit_sub rdeps fuel).1 (Cascade.drop K t) t
        have ht : Cascade.casc rdeps fuel (Cascade.drop K t) t t = none :=
          mono_none hsub.mono (by simp [Cascade.drop])
        rcases hc (Cascade.drop K t) t n (by simpa [Cascade.drop, hnt] using h1) h2 with h | ⟨m, hm1, hm2, hm3⟩
        · exact Or.inr ⟨t, hk, by unfold Cascade.visit; rw [if_neg hk]; exact ht, h⟩
        · exact Or.inr ⟨m, (drop_mono K t) m hm1, by unfold Cascade.visit; rw [if_neg hk]; exact hm2, hm3⟩
  intro fuel
  induction fuel with
  | zero =>
    have hc : ∀ (K : Cascade.Cache N V) (n : N), Justified rdeps (rdeps n) K (Cascade.casc rdeps 0 K n) := by
      intro K n x h1 h2; simp only [Cascade.casc] at h2; exact absurd h2 h1
    exact ⟨hc, vis 0 hc⟩
  | succ f ih =>
    have hc : ∀ (K : Cascade.Cache N V) (n : N),
        Justified rdeps (rdeps n) K (Cascade.casc rdeps (f + 1) K n) := by
      intro K n
      simp only [Cascade.casc]
      exact justified_fold rdeps _ (casc_visit_sub rdeps f).2 ih.2 _ K
    exact ⟨hc, vis (f + 1) hc⟩

omit [DecidableEq N] in
/-- **A contract-satisfying, justified removal is unique**: two caches obtained from `K` by removing a set that
contains the direct targets, is closed under the reverse dependencies and contains nothing unjustified — for two
enumerations `rdeps`, `rdeps'` of the reverse dependencies and two direct lists with the same members — are
equal, provided ranks grow along `rdeps` between cached nodes. -/
theorem contract_unique {rdeps rdeps' : N → List N} {direct direct' : List N} {K K1 K2 : Cascade.Cache N V}
    (rank : N → Nat) (hr : ∀ m x, K m ≠ none → K x ≠ none → x ∈ rdeps m → rank m < rank x)
    (hrd : ∀ m x, x ∈ rdeps m ↔ x ∈ rdeps' m) (hd : ∀ n, n ∈ direct ↔ n ∈ direct')
    (c1 : Contract rdeps K K1 direct) (j1 : Justified rdeps direct K K1)
    (c2 : Contract rdeps' K K2 direct') (j2 : Justified rdeps' direct' K K2) : K1 = K2 := by
  have key : ∀ (rd rd' : N → List N) (dl dl' : List N) (A B : Cascade.Cache N V),
      (∀ m x, K m ≠ none → K x ≠ none → x ∈ rd m → rank m < rank x) → (∀ m x, x ∈ rd m → x ∈ rd' m) →
      (∀ n, n ∈ dl → n ∈ dl') → Justified rd dl K A → Contract rd' K B dl' →
      ∀ (r : Nat) (n : N), rank n < r → K n ≠ none → A n = none → B n = none := by
    intro rd rd' dl dl' A B hrk hsub hdl jA cB r
    induction r with
    | zero => intro n h; exact absurd h (Nat.not_lt_zero _)
    | succ r ih =>
      intro n hn hK hA
      rcases jA n hK hA with h | ⟨m, hm1, hm2, hm3⟩
      · exact cB.2.1 n (hdl n h)
      · have hlt := hrk m n hm1 hK hm3
        exact cB.2.2 m hm1 (ih m (by omega) hm1 hm2) n (hsub m n hm3)
  have h12 : ∀ n, K n ≠ none → K1 n = none → K2 n = none := fun n =>
    key rdeps rdeps' direct direct' K1 K2 hr (fun m x => (hrd m x).1) (fun n => (hd n).1) j1 c2 _ n
      (Nat.lt_succ_self _)
  have h21 : ∀ n, K n ≠ none → K2 n = none → K1 n = none := fun n =>
    key rdeps' rdeps direct' direct K2 K1 (fun m x hm hx h => hr m x hm hx ((hrd m x).2 h))
      (fun m x => (hrd m x).2) (fun n => (hd n).2) j2 c1 _ n (Nat.lt_succ_self _)
  funext n
  by_cases hK : K n = none
  · rw [mono_none c1.1.mono hK, mono_none c2.1.mono hK]
  · rcases c1.1 n with a | a
    · rw [a, h12 n hK a]
    · rcases c2.1 n with b | b
      · rw [h21 n hK b] at a; exact absurd a.symm hK
      · rw [a, b]

end cascade

section microcascade
variable {u : Universe}

/-- **The cache after a message does not depend on the order of the direct invalidation list** (nor on
repetitions in it): `visitAll` — `_force_recalc` of every listed node plus the `AttrsValueChanged` cascade, with the
model's fuel — over two lists with the same members yields the same cache.  Uses `rankWF`, `UniqueAttrs`; every
cached node has attribute metadata (true of every coherent cache, `hasMeta_of_cached`). -/
theorem cascade_order_irrelevant_world (cfg : Config) (d : Dyn) (hwf : rankWF u = true) (hun : UniqueAttrs u)
    (K : Micro.Cache) (hK : ∀ x, K x ≠ none → HasMeta u x) {direct direct' : List Node}
    (hd : ∀ n, n ∈ direct ↔ n ∈ direct') :
    visitAll u cfg d (fuelOf u) K direct = visitAll u cfg d (fuelOf u) K direct' := by
  have hw := (rankWF_iff u).1 hwf
  have j : ∀ l, Justified (rdeps u cfg d) l K (visitAll u cfg d (fuelOf u) K l) := by
    intro l
    rw [visitAll_eq]
    exact justified_fold _ _ (Cascade.casc_visit_sub _ _).2 (casc_visit_justified _ _).2 l K
  exact contract_unique (rankOf u) (fun m x hm hx h => rdeps_rank hw hun (hK m hm) (hK x hx) h)
    (fun _ _ => Iff.rfl) hd (visitAll_contract u cfg d hw hun K hK direct) (j direct)
    (visitAll_contract u cfg d hw hun K hK direct') (j direct')

/-- The same for the order in which the reverse dependencies are enumerated inside the cascade: any enumerator
`rdeps'` with the same members as `Micro.rdeps` (e.g. the handlers walking their hash-ordered sets differently)
drives the generic cascade to the same cache. -/
theorem cascade_rdeps_order_irrelevant_world (cfg : Config) (d : Dyn) (hwf : rankWF u = true) (hun : UniqueAttrs u)
    (K : Micro.Cache) (hK : ∀ x, K x ≠ none → HasMeta u x) (rdeps' : Node → List Node)
    (hrd : ∀ m x, x ∈ rdeps u cfg d m ↔ x ∈ rdeps' m) {direct direct' : List Node}
    (hd : ∀ n, n ∈ direct ↔ n ∈ direct') :
    visitAll u cfg d (fuelOf u) K direct =
      direct'.foldl (fun K t => Cascade.visit rdeps' (fuelOf u) K t) K := by
  have hw := (rankWF_iff u).1 hwf
  have j : Justified (rdeps u cfg d) direct K (visitAll u cfg d (fuelOf u) K direct) := by
    rw [visitAll_eq]
    exact justified_fold _ _ (Cascade.casc_visit_sub _ _).2 (casc_visit_justified _ _).2 direct K
  have j' : Justified rdeps' direct' K (direct'.foldl (fun K t => Cascade.visit rdeps' (fuelOf u) K t) K) :=
    justified_fold _ _ (Cascade.casc_visit_sub _ _).2 (casc_visit_justified _ _).2 direct' K
  have c' := Cascade.visitAll_spec rdeps' (rankOf u) u.attrs.length (HasMeta u)
    (fun m x hm hx h => rdeps_rank hw hun hm hx ((hrd m x).2 h)) (fun x hx => rankOf_lt_of_meta hx)
    (fuelOf u) (by unfold fuelOf; omega) K hK direct'
  exact contract_unique (rankOf u) (fun m x hm hx h => rdeps_rank hw hun (hK m hm) (hK x hx) h)
    hrd hd (visitAll_contract u cfg d hw hun K hK direct) j c' j'

/-- Message level: the four handlers that force-recalculate a direct list (`EffectsStarted`, `EffectsStopped`,
`EffectApplied`, `EffectUnapplied`) leave the cache `visitAll … direct`; by the theorem above any other order of
`direct` gives the cache of `mstep`.  Stated for `EffectsStarted`; the other three are the same line. -/
theorem mstep_start_direct_order (hwf : rankWF u = true) (hun : UniqueAttrs u) (s : MState)
    (hK : ∀ x, s.cache x ≠ none → HasMeta u x) (i : Nat) (es : List Int) {direct' : List Node}
    (hd : direct'.Perm (directOf u s.cfg (setOn s.dyn i es true)
      (localSpecsOf u s.cfg (setOn s.dyn i es true) i es))) :
    (mstep u s (.start i es)).cache =
      visitAll u s.cfg (setOn s.dyn i es true) (fuelOf u) s.cache direct' :=
  cascade_order_irrelevant_world s.cfg _ hwf hun s.cache hK fun _ => (hd.mem_iff).symm

end microcascade

/-! ### Non-vacuity of the cascade theorem

The settled two-item world of `Lemmas/MicroAssembly.lean` with the ship's attribute 37 and the module's attribute 20
cached (a table for the cache): force-recalculating `[(2, 20), (1, 37)]` and `[(1, 37), (2, 20), (1, 37)]` gives the
same cache — in the first order `(1, 37)` is already gone (removed by the cascade from `(2, 20)`) when its turn
comes, in the second it is dropped first —, and `(1, 37)` is not cached afterwards. -/

example :
    visitAll settleU settleCfg (derivedDyn settleU settleCfg) (fuelOf settleU)
        (tblFun [((2, 20), (3/2 : Rat)), ((1, 37), 225)]) [(2, 20), (1, 37)] =
      visitAll settleU settleCfg (derivedDyn settleU settleCfg) (fuelOf settleU)
        (tblFun [((2, 20), (3/2 : Rat)), ((1, 37), 225)]) [(1, 37), (2, 20), (1, 37)] ∧
    visitAll settleU settleCfg (derivedDyn settleU settleCfg) (fuelOf settleU)
        (tblFun [((2, 20), (3/2 : Rat)), ((1, 37), 225)]) [(2, 20), (1, 37)] (1, 37) = none ∧
    (1, 37) ∈ rdeps settleU settleCfg (derivedDyn settleU settleCfg) (2, 20) := by
  have hK : ∀ x, tblFun [((2, 20), (3/2 : Rat)), ((1, 37), 225)] x ≠ none → HasMeta settleU x := by
    intro x hx
    by_cases h1 : x = (2, 20)
    · rw [h1]; unfold HasMeta; decide
    · by_cases h2 : x = (1, 37)
      · rw [h2]; unfold HasMeta; decide
      · exact absurd (by simp [tblFun, Ne.symm h1, Ne.symm h2]) hx
  refine ⟨cascade_order_irrelevant_world settleCfg _ (by decide) settle_wf.1 _ hK (fun n => by simp; tauto), ?_,
    by decide +kernel⟩
  exact (visitAll_contract settleU settleCfg _ ((rankWF_iff settleU).1 (by decide)) settle_wf.1 _ hK _).2.1 (1, 37)
    (by simp)

/-! ### Non-vacuity of `obs_item_order_irrelevant_world`: the fleet of `C01World` with its items listed backwards

`fleetCfgRev` is `fleetCfg` with the item list `[ship 3, module 2, ship 1]`.  The messages of `fleetHist` are a legal
history from the corresponding start state as well and end `BuffSettled`; the theorem applies to the pair
(`fleetHist` on `fleetCfg`, `fleetHist` on `fleetCfgRev`): both observe 150 at ship 3's attribute 37. -/

def fleetCfgRev : Config := { fleetCfg with items := [fleetShip3, fleetMod, fleetShip1] }
def fleetD0Rev : Dyn :=
  { loaded := (derivedDyn fleetU fleetCfgRev).loaded, on := fun _ _ => false, tgts := fun _ _ => [] }
def fleetS0Rev : MState := ⟨fleetCfgRev, fleetD0Rev, fun _ => none⟩

theorem fleetRev_perm : ItemsPerm fleetCfg fleetCfgRev :=
  ⟨List.reverse_perm [fleetShip1, fleetMod, fleetShip3], rfl, rfl⟩

theorem fleetRev_wf : UniqueIds fleetCfgRev ∧ ChargeWF fleetCfgRev ∧ TgtKinds fleetCfgRev fleetD0Rev := by
  refine ⟨by unfold UniqueIds; decide, ?_, ?_⟩
  · intro x hx hk
    simp only [fleetCfgRev, fleetShip1, fleetMod, fleetShip3, List.mem_cons, List.not_mem_nil, or_false] at hx
    rcases hx with rfl | rfl | rfl <;> cases hk
  · intro a e t ht
    simp [targetsOf, fleetD0Rev] at ht

theorem fleetRev_readLegal (s : MState) (hc : s.cfg = fleetCfgRev)
    (hd : s.dyn = (wrun fleetU fleetW fleetS0Rev (fleetHist.take 4)).dyn) :
    Legal fleetW (toState s) (.read fun n => n == (3, 37) || n == (2, 2469)) := by
  intro n hn m hm _
  have : (toState s).cfg = (fleetCfgRev, (wrun fleetU fleetW fleetS0Rev (fleetHist.take 4)).dyn) := by
    show (s.cfg, s.dyn) = _; rw [hc, hd]
  rw [this] at hm
  have hdeps : ∀ n, (n == ((3 : Nat), (37 : Int)) || n == (2, 2469)) = true →
      ∀ m ∈ (fleetW (fleetCfgRev, (wrun fleetU fleetW fleetS0Rev (fleetHist.take 4)).dyn)).deps n, m = (2, 2469) := by
    intro n hn
    simp only [Bool.or_eq_true, beq_iff_eq] at hn
    rcases hn with rfl | rfl <;> decide +kernel
  left
  rw [hdeps n hn m hm]; rfl

theorem fleetRev_runOK : WRunOKE fleetU specImmune specLimited fleetPen fleetW fleetS0Rev fleetHist := by
  refine ⟨⟨?_, fun _ => ⟨?_, ?_⟩⟩, ⟨trivial, fun _ => ⟨?_, ?_⟩⟩, ⟨?_, fun h => by cases h⟩,
    ⟨?_, fun _ => ⟨?_, ?_⟩⟩, ?r, trivial⟩
  case r => refine fleetRev_readLegal _ ?_ ?_ <;> rfl
  · intro e _; rfl
  all_goals first
    | (unfold ErrorFree; decide +kernel)
    | rfl
    | (intro j hj t ht
       simp only [List.mem_cons, List.not_mem_nil, or_false] at hj
       rcases hj with rfl | rfl <;> (cases ht; rfl))

theorem fleetRev_item1 : item? fleetCfgRev 1 = some fleetShip1 := rfl
theorem fleetRev_item2 : item? fleetCfgRev 2 = some fleetMod := rfl
theorem fleetRev_item3 : item? fleetCfgRev 3 = some fleetShip3 := rfl
theorem fleetRev_itemN {i : Nat} (h1 : i ≠ 1) (h2 : i ≠ 2) (h3 : i ≠ 3) : item? fleetCfgRev i = none := by
  simp [item?, fleetCfgRev, fleetShip1, fleetMod, fleetShip3]; omega

theorem fleetRev_hset : BuffSettled fleetU (wrun fleetU fleetW fleetS0Rev fleetHist).cfg specImmune specLimited
    fleetPen (wrun fleetU fleetW fleetS0Rev fleetHist).dyn := by
  show BuffSettled fleetU fleetCfgRev specImmune specLimited fleetPen (wrun fleetU fleetW fleetS0Rev fleetHist).dyn
  have r1 : runningEffects fleetU fleetCfgRev fleetShip1 = [] := by decide +kernel
  have r2 : runningEffects fleetU fleetCfgRev fleetMod = [⟨2000, 1, none, none, true, []⟩] := by rfl
  have r3 : runningEffects fleetU fleetCfgRev fleetShip3 = [] := by decide +kernel
  refine BuffSettled.intro rfl ?_ ?_ ?_
  · show (fun j e => if j = 2 ∧ e ∈ [2000] then true else false) = _
    funext j e
    by_cases h1 : j = 1
    · subst h1
      have : runningIds fleetU fleetCfgRev fleetShip1 = [] := by decide +kernel
      simp [derivedDyn, fleetRev_item1, this]
    · by_cases h2 : j = 2
      · subst h2
        have : runningIds fleetU fleetCfgRev fleetMod = [2000] := by decide +kernel
        simp [derivedDyn, fleetRev_item2, this]
      · by_cases h3 : j = 3
        · subst h3
          have : runningIds fleetU fleetCfgRev fleetShip3 = [] := by decide +kernel
          simp [derivedDyn, fleetRev_item3, this]
        · simp [derivedDyn, fleetRev_itemN h1 h2 h3, h2]
  · intro a ha e he hbf
    simp only [fleetCfgRev, List.mem_cons, List.not_mem_nil, or_false] at ha
    rcases ha with rfl | rfl | rfl
    · rw [r3] at he; cases he
    · rw [r2] at he; simp only [List.mem_cons, List.not_mem_nil, or_false] at he; subst he; cases hbf
    · rw [r1] at he; cases he
  · intro a ha e he _
    simp only [fleetCfgRev, List.mem_cons, List.not_mem_nil, or_false] at ha
    rcases ha with rfl | rfl | rfl
    · rw [r3] at he; cases he
    · rw [r2] at he; simp only [List.mem_cons, List.not_mem_nil, or_false] at he; subst he
      refine ⟨⟨[fleetBM], by decide +kernel, List.Perm.of_eq (by decide +kernel)⟩, Or.inr ?_⟩
      have : boostTargets fleetCfgRev fleetMod.fit = [fleetShip1, fleetShip3] := by rfl
      rw [this]; exact List.Perm.of_eq (by decide +kernel)
    · rw [r1] at he; cases he

/-- The theorem applied to the two histories; the tables of the two configurations are different lists. -/
example :
    observe fleetW (toState (wrun fleetU fleetW fleetS0 fleetHist)) (3, 37) =
      observe fleetW (toState (wrun fleetU fleetW fleetS0Rev fleetHist)) (3, 37) ∧
    observe fleetW (toState (wrun fleetU fleetW fleetS0Rev fleetHist)) (3, 37) = some 150 ∧
    evalAll fleetU fleetCfg specImmune specLimited fleetPen ≠ evalAll fleetU fleetCfgRev specImmune specLimited fleetPen := by
  have h := obs_item_order_irrelevant_world (u := fleetU) (by decide) fleet_wf.2.1 fleet_wf.2.2.1 (by decide)
    fleet_wf.2.2.2.1 fleet_wf.2.2.2.2.1 fleet_wf.2.2.2.2.2 fleetRev_wf.1 fleetRev_wf.2.1 fleetRev_wf.2.2
    fleetHist fleetHist fleet_runOK fleetRev_runOK _ _ rfl rfl fleetRev_perm fleet_hset fleetRev_hset
    (by decide +kernel) (x := fleetShip3) (List.mem_cons_of_mem _ (List.mem_cons_of_mem _ List.mem_cons_self))
    (am := ⟨37, none, none, true, true⟩) (List.mem_cons_of_mem _ (List.mem_cons_of_mem _ List.mem_cons_self))
  have ht : valToOption (World.read (evalAll fleetU fleetCfg specImmune specLimited fleetPen) fleetShip3 37) =
      some 150 := by decide +kernel
  exact ⟨h.1, h.1.symm.trans (h.2.trans ht), by decide +kernel⟩

/-! ## Message level, any reachable state: the item order is irrelevant for every observation

The theorems above compare from-scratch tables, i.e. settled states.  The message-level calculation
(`Micro.gatherD` over `allSpecs = cfg.items.flatMap …`) iterates over the item list in *every* state, settled or not.
`evalD_items_perm`: the local evaluation of a node does not depend on the order of the item list, for any registers;
hence the from-scratch values `spec` of the two dependency graphs agree, and any two states satisfying the invariant
whose configurations differ in the item order only and whose registers are equal are observed identically at every
node — no settledness, no "non-zero divisors" hypothesis. -/

section anystate
variable {u : Universe} {cfg cfg' : Config} {immune limited : List Int} {pen : Nat → Rat}

theorem targetsOf_perm (E : ItemsPerm cfg cfg') (hU : UniqueIds cfg) (d : Dyn) :
    targetsOf cfg' d = targetsOf cfg d := by
  funext a e; unfold targetsOf; rw [item?_perm E hU]

theorem projSpecs_perm (E : ItemsPerm cfg cfg') (hU : UniqueIds cfg) (d : Dyn) :
    projSpecs u cfg' d = projSpecs u cfg d := by
  funext a; unfold projSpecs; rw [targetsOf_perm E hU]

theorem selects_perm (E : ItemsPerm cfg cfg') : selects cfg' = selects cfg := by
  funext s x tx; unfold selects; rw [affectsLocal_perm E, affectsProjected_perm E]

theorem specsOn_items_perm (E : ItemsPerm cfg cfg') (hU : UniqueIds cfg) (d : Dyn) (x : Item) (tx : ItemType)
    (attr : Int) : (specsOn u cfg d x tx attr).Perm (specsOn u cfg' d x tx attr) := by
  unfold specsOn allSpecs
  rw [projSpecs_perm E hU, selects_perm E]
  exact (E.items.symm.flatMap_right _).filter _

theorem specOut_perm (E : ItemsPerm cfg cfg') (hU : UniqueIds cfg) : specOut cfg' = specOut cfg := by
  funext rd x imm s
  unfold specOut resistD resistRead Micro.carrierOf
  rw [item?_perm E hU, shipOf_perm E]

theorem evalD_items_perm (E : ItemsPerm cfg cfg') (hU : UniqueIds cfg) (d : Dyn) (n : Node)
    (f : Node → Option Rat) :
    evalD u cfg' d immune limited pen n f = evalD u cfg d immune limited pen n f := by
  unfold evalD
  rw [item?_perm E hU]
  cases item? cfg n.1 with
  | none => rfl
  | some x =>
    cases attrMeta? u n.2 with
    | none => rfl
    | some am =>
      dsimp only
      unfold valueOfD
      split
      · rfl
      · cases typeOf? u d x with
        | none => rfl
        | some tx =>
          dsimp only
          cases Micro.baseOf tx am with
          | none => rfl
          | some b =>
            dsimp only
            rw [gatherD_eq_fold, gatherD_eq_fold, specOut_perm E hU]
            rcases foldlM_stepS_perm (out := specOut cfg (readerOf u f) x (immuneOf u d immune))
              (out' := specOut cfg (readerOf u f) x (immuneOf u d immune))
              (specsOn_items_perm (u := u) E hU d x tx am.id) (fun _ _ => rfl) with
              ⟨l, l', h1, h2, hp⟩ | ⟨w, w', h1, h2, ⟨_, _, e1⟩, ⟨_, _, e2⟩⟩
            · simp only [h1, h2, calculate_perm' pen am.stackable am.hig b hp]
            · simp only [h1, h2]
              rw [valToOption_err (specOut_err e1), valToOption_err (specOut_err e2)]

/-- **The from-scratch values of the message-level model do not depend on the order of the item list**, for any
registers `d` (settled or not). -/
theorem spec_item_order_irrelevant_world (hwf : rankWF u = true) (E : ItemsPerm cfg cfg') (hU : UniqueIds cfg)
    (d : Dyn) (n : Node) :
    spec (worldGraph u immune limited pen hwf (cfg', d)) n = spec (worldGraph u immune limited pen hwf (cfg, d)) n := by
  have T := worldGraph_ties (immune := immune) (limited := limited) (pen := pen) hwf
  refine spec_congr_graph _ _ (fun m f => ?_) n
  rw [T.heval, T.heval, evalD_items_perm E hU]

/-- **Any two reachable states that differ in the order of the item list only are observed identically.**  `s`,
`s'` satisfy the invariant `MInv` (every state a legal history reaches: `C01World.micro_inv_run`), their
configurations differ in the item order only, their registers are equal; the caches may be entirely different (other
reads, other removal orders).  Every node is observed alike. -/
theorem obs_item_order_any_state_world (hwf : rankWF u = true) {s s' : MState}
    (inv : MInv (worldGraph u immune limited pen hwf) s) (inv' : MInv (worldGraph u immune limited pen hwf) s')
    (E : ItemsPerm s.cfg s'.cfg) (hd : s'.dyn = s.dyn) (n : Node) :
    observe (worldGraph u immune limited pen hwf) (toState s) n =
      observe (worldGraph u immune limited pen hwf) (toState s') n := by
  rw [observe_eq_spec _ _ inv.good, observe_eq_spec _ _ inv'.good]
  show spec (worldGraph u immune limited pen hwf (s.cfg, s.dyn)) n =
    spec (worldGraph u immune limited pen hwf (s'.cfg, s'.dyn)) n
  rw [hd, spec_item_order_irrelevant_world hwf E inv.uniq]

end anystate

/-! ### Non-vacuity of `obs_item_order_any_state_world`: an unsettled state

After the first message of `fleetHist` alone (the boost effect runs, nothing is registered or applied yet) the state
is not settled.  The same message on the configuration with the items listed backwards (same start registers)
reaches a state with equal registers; both satisfy the invariant; the theorem applies: ship 3's attribute 37 is
observed alike — the un-boosted 100. -/

example :
    observe fleetW (toState (wrun fleetU fleetW fleetS0 [.micro (.start 2 [2000])])) (3, 37) =
      observe fleetW (toState (wrun fleetU fleetW ⟨fleetCfgRev, fleetD0, fun _ => none⟩
        [.micro (.start 2 [2000])])) (3, 37) ∧
    observe fleetW (toState (wrun fleetU fleetW fleetS0 [.micro (.start 2 [2000])])) (3, 37) = some 100 := by
  have T := worldGraph_ties (u := fleetU) (immune := specImmune) (limited := specLimited) (pen := fleetPen)
    (by decide)
  have ok1 : WRunOKE fleetU specImmune specLimited fleetPen fleetW fleetS0 [.micro (.start 2 [2000])] :=
    ⟨fleet_runOK.1, trivial⟩
  have ok2 : WRunOKE fleetU specImmune specLimited fleetPen fleetW ⟨fleetCfgRev, fleetD0, fun _ => none⟩
      [.micro (.start 2 [2000])] := by
    refine ⟨⟨fun e _ => rfl, fun _ => ⟨?_, ?_⟩⟩, trivial⟩ <;> (unfold ErrorFree; decide +kernel)
  have inv1 := micro_inv_run T (by decide) fleet_wf.2.1 fleet_wf.2.2.1 fleet_wf.2.2.2.1 fleet_wf.2.2.2.2.1
    fleet_wf.2.2.2.2.2 _ (wrunOK_of_errorFree T _ _ ok1)
  have inv2 := micro_inv_run T (by decide) fleet_wf.2.1 fleet_wf.2.2.1 fleetRev_wf.1 fleetRev_wf.2.1
    (d := fleetD0) (fun a e t ht => by simp [targetsOf, fleetD0] at ht) _ (wrunOK_of_errorFree T _ _ ok2)
  refine ⟨obs_item_order_any_state_world (by decide) inv1 inv2 fleetRev_perm rfl (3, 37), ?_⟩
  refine (observe_eq_spec fleetW _ inv1.good (3, 37)).trans ?_
  show spec (fleetW (fleetCfg, (wrun fleetU fleetW fleetS0 [.micro (.start 2 [2000])]).dyn)) (3, 37) = some 100
  decide +kernel

end Eos.C08World
