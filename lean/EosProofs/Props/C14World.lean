import EosProofs.Props.C01World
import EosProofs.Props.C11World
/-! # C14, message level — after a source switch every item reflects only the new source; switching back restores

`EosProofs/Props/C14.lean` states the property for the abstract cache machine (a mutation whose removal set is
*everything*).  At the level of the calculation service's messages (`EosModel/WorldMicro.lean`) the universe `u`
is a parameter of the handlers, not part of the state, and a source switch `u₁ → u₂` is what
`SolarSystem.source = …` does:

1. under the old source `u₁` every item is removed from the calculator — the canonical complete tear-down
   `teardownAll` of `C11World` (`EffectUnapplied`, drop of the warfare-buff modifiers, `EffectsStopped`,
   `ItemUnloaded` + `attrs._clear()` for every item, projectors before their targets);
2. the messages that follow (`ItemLoaded`, `EffectsStarted`, `EffectApplied`, …, reads) are handled under the
   new source `u₂`, starting **in the state the tear-down left** (`switchState`): same registers, same cache,
   and a configuration `cfg'` with the same item objects (`SwitchOK.items`; fits and the `hasSource` flag may
   differ).

The link between the two phases is `switch_link`, and it is exactly what the tear-down theorems of `C11World`
deliver plus coherence (`MInv`) of the state torn down: the tear-down is a legal run under `u₁`, after it the
cache has **no entry at all** (`C11World.teardown_all_empty` clears the nodes of configured items; a coherent
cache never holds a node of an item that is not configured, `cache_none_of_not_item`), the registers hold
nothing for the items of `cfg'` (`DynEmptyOn`), and whatever is still recorded under ids that are not configured
is harmless (`TgtKinds`).  Nothing else about `u₁` or the earlier history enters phase 2.

* `switch_source_world` — then `C01World.world_read_eq_table_buff` applies to phase 2: after any legal history
  under `u₂` that ends settled, every observation is the entry of `u₂`'s from-scratch table.
* `switch_back_world` — `u₁ → u₂ → u₁`: if the last phase ends settled in the configuration the first phase ended
  in, every observation equals the one before the first switch (both are `u₁`'s table).
* `switchState_eq_empty` — for registers that mention configured items only (every state the driver is in,
  `DynFin`; the derived state) the tear-down leaves literally the empty registers.
* Non-vacuity on the two-item world of `Lemmas/MicroAssembly.lean`: `settleU → settleU2 → settleU`, reading
  225, 450, 225 at the ship's attribute 37. -/
namespace Eos.C14World
open Eos.World Eos.Micro Eos.Micro.L Eos.DepCache Eos.Machine Eos.C01World

variable {u u₁ u₂ : Universe} {immune limited : List Int} {pen : Nat → Rat} {keep : Config → Node → Bool}
  {W : Config × Dyn → Graph Node Rat}

/-! ## The link: what the complete tear-down hands to the new source -/

/-- A coherent cache holds no node of an item that is not configured (its from-scratch value is "none"). -/
theorem cache_none_of_not_item (T : Ties u immune limited pen keep W) {s : MState} (inv : MInv W s) {n : Node}
    (h : item? s.cfg n.1 = none) : s.cache n = none := by
  cases hk : s.cache n with
  | none => rfl
  | some v =>
    have hs : spec (W (s.cfg, s.dyn)) n = some v := inv.good.coh n v hk
    rw [spec_unfold, T.heval] at hs
    unfold evalD at hs
    rw [h] at hs
    cases hs

/-- The state in which the new source starts: registers and cache as the complete tear-down under the old
source `u` left them (`teardownAll`, items in the order `order`, `es` the effect ids that may be registered),
configuration `cfg'`. -/
def switchState (u : Universe) (es : List Int) (order : List Nat) (s : MState) (cfg' : Config) : MState :=
  ⟨cfg', (mrun u s (teardownAll u es order s)).dyn, (mrun u s (teardownAll u es order s)).cache⟩

/-- With `cfg' = s.cfg` it is the tear-down's end state itself. -/
theorem switchState_same (es : List Int) (order : List Nat) (s : MState) (hc : ∀ j, Covers s.dyn j es) :
    switchState u es order s s.cfg = mrun u s (teardownAll u es order s) := by
  have h := (teardownAll_spec (u := u) es order s hc).1
  unfold switchState
  rw [← h]

/-- Side conditions of a source switch in state `s` (old source `u`): the hypotheses of
`C11World.history_then_teardown` for the complete tear-down —
* `covers`: `es` lists every effect id that runs, has recorded targets or registered warfare-buff modifiers;
* `k1`: projectors are torn down before their targets (K1: the handlers do not revise a projection whose target
  is unloaded);
* `all`: every configured item is torn down;
* `static`: non-zero divisors around the messages of the tear-down (`StaticAround`, implied by `ErrorFree`) —
and what relates the configuration `cfg'` the new source starts with to the old one:
* `items`: its items are items of the old configuration (the same objects; this is what carries "the registers
  hold nothing for them" and "recorded targets are solar-system items" over to `cfg'`);
* `uniq`, `charge`: it is well-formed (both follow from `items` when `cfg'.items = s.cfg.items`,
  see `SwitchOK.same`). -/
structure SwitchOK (u : Universe) (W : Config × Dyn → Graph Node Rat) (s : MState) (es : List Int)
    (order : List Nat) (cfg' : Config) : Prop where
  covers : ∀ j, Covers s.dyn j es
  k1 : K1Order s.dyn [] order
  all : ∀ x ∈ s.cfg.items, x.id ∈ order
  static : MRunOK u (StaticAround u W) s (teardownAll u es order s)
  items : ∀ x ∈ cfg'.items, x ∈ s.cfg.items
  uniq : UniqueIds cfg'
  charge : ChargeWF cfg'

/-- The switch that keeps the configuration: only the tear-down's own hypotheses are needed. -/
theorem SwitchOK.same {s : MState} (inv : MInv W s) {es : List Int} {order : List Nat}
    (hc : ∀ j, Covers s.dyn j es) (hk : K1Order s.dyn [] order) (hall : ∀ x ∈ s.cfg.items, x.id ∈ order)
    (hst : MRunOK u (StaticAround u W) s (teardownAll u es order s)) : SwitchOK u W s es order s.cfg :=
  ⟨hc, hk, hall, hst, fun _ h => h, inv.uniq, inv.charge⟩

/-- **What the tear-down hands over.**  State `s` satisfies the invariant under the old source (true after any
legal history, `C01World.micro_inv_run`) and the switch is taken under its side conditions.  Then
* the tear-down is a legal run: the invariant holds in every state it passes through;
* in `switchState` **nothing is cached** — for no node at all;
* the registers hold nothing for the items of the old configuration, nor for those of `cfg'`;
* the initial-state hypotheses of `C01World.world_read_eq_table_buff` hold for `switchState`: unique ids,
  `ChargeWF`, `TgtKinds`. -/
theorem switch_link (T : Ties u immune limited pen keep W) (hwf : rankWF u = true) (hun : UniqueAttrs u)
    (hR : ResistWF u) {s : MState} (inv : MInv W s) {es : List Int} {order : List Nat} {cfg' : Config}
    (sw : SwitchOK u W s es order cfg') :
    MRunAll u (MInv W) s (teardownAll u es order s) ∧
    (switchState u es order s cfg').cfg = cfg' ∧
    (switchState u es order s cfg').cache = (fun _ => none) ∧
    DynEmptyOn s.cfg (switchState u es order s cfg').dyn ∧
    DynEmptyOn cfg' (switchState u es order s cfg').dyn ∧
    UniqueIds cfg' ∧ ChargeWF cfg' ∧ TgtKinds cfg' (switchState u es order s cfg').dyn := by
  have hall := C11World.teardown_all_legal T hwf hun hR es order s inv sw.covers sw.k1 sw.static
  have inv' : MInv W (mrun u s (teardownAll u es order s)) := mrunAll_last _ _ hall
  obtain ⟨hcfg, hemp, hcache⟩ := C11World.teardown_all_empty (u := u) es order s sw.covers sw.all
  refine ⟨hall, rfl, ?_, hemp, fun x hx => hemp x (sw.items x hx), sw.uniq, sw.charge, ?_⟩
  · funext n
    show (mrun u s (teardownAll u es order s)).cache n = none
    cases hx : item? s.cfg n.1 with
    | none => exact cache_none_of_not_item T inv' (by rw [hcfg]; exact hx)
    | some x =>
      have := hcache x (item?_mem hx) n.2
      rwa [item?_id hx] at this
  · intro a e t ht
    obtain ⟨j, hj, hjt⟩ := mem_targetsOf.1 ht
    have ht1 : t ∈ s.cfg.items := sw.items t (item?_mem hjt)
    have hjt1 : item? s.cfg j = some t := by
      have := L.item?_of_mem inv.uniq ht1
      rwa [item?_id hjt] at this
    have := inv'.tgts a e t (mem_targetsOf.2 ⟨j, hj, by rw [hcfg]; exact hjt1⟩)
    exact this

/-- One switch and the phase after it, from the invariant of the state the switch is taken in: the phase is a
legal history from a state with nothing cached, so the invariant holds under the new source in the state it
reaches, and if that state is settled its observations are the new source's table. -/
theorem switch_phase
    (hwf₁ : rankWF u₁ = true) (hun₁ : UniqueAttrs u₁) (hR₁ : ResistWF u₁)
    (hwf₂ : rankWF u₂ = true) (hun₂ : UniqueAttrs u₂) (hR₂ : ResistWF u₂)
    {s₁ : MState} (inv₁ : MInv (worldGraph u₁ immune limited pen hwf₁) s₁)
    {es : List Int} {order : List Nat} {cfg₂ : Config}
    (sw : SwitchOK u₁ (worldGraph u₁ immune limited pen hwf₁) s₁ es order cfg₂)
    (hist₂ : List WStep)
    (ok₂ : WRunOKE u₂ immune limited pen (worldGraph u₂ immune limited pen hwf₂)
      (switchState u₁ es order s₁ cfg₂) hist₂)
    (sF : MState)
    (hF : wrun u₂ (worldGraph u₂ immune limited pen hwf₂) (switchState u₁ es order s₁ cfg₂) hist₂ = sF) :
    MInv (worldGraph u₂ immune limited pen hwf₂) sF ∧
    ((∀ e ∈ u₂.effects, e.isBuff = true → e.category ≠ 2) →
      BuffSettled u₂ sF.cfg immune limited pen sF.dyn →
      (∀ entry ∈ evalAll u₂ sF.cfg immune limited pen, entry.2 ≠ .divZero) →
      ∀ x ∈ sF.cfg.items, ∀ am ∈ u₂.attrs,
        observe (worldGraph u₂ immune limited pen hwf₂) (toState sF) (x.id, am.id) =
          valToOption (World.read (evalAll u₂ sF.cfg immune limited pen) x am.id)) := by
  have T₁ := worldGraph_ties (immune := immune) (limited := limited) (pen := pen) hwf₁
  have T₂ := worldGraph_ties (immune := immune) (limited := limited) (pen := pen) hwf₂
  obtain ⟨_, _, hcache, _, _, hU₂, hC₂, hT₂⟩ := switch_link T₁ hwf₁ hun₁ hR₁ inv₁ sw
  have hs : switchState u₁ es order s₁ cfg₂ = ⟨cfg₂, (switchState u₁ es order s₁ cfg₂).dyn, fun _ => none⟩ := by
    conv => lhs; unfold switchState
    congr 1
  rw [hs] at ok₂ hF
  refine ⟨hF ▸ micro_inv_run T₂ hwf₂ hun₂ hR₂ hU₂ hC₂ hT₂ hist₂ (wrunOK_of_errorFree T₂ hist₂ _ ok₂), ?_⟩
  intro hnp₂ hset hnz x hx am ham
  exact world_read_eq_table_buff hwf₂ hun₂ hR₂ hnp₂ hU₂ hC₂ hT₂ hist₂ ok₂ sF hF hset hnz hx ham

/-! ## Switching the source -/

/-- **After a source switch every observation is the new source's from-scratch table.**

Phase 1 (old source `u₁`): `hist₁` is a legal message history (`WRunOKE`) from a state with nothing cached,
reaching `s₁`.  Switch: the complete tear-down of `s₁` under `u₁`, taken under its side conditions (`sw`);
phase 2 starts in `switchState u₁ es order s₁ cfg₂` — the registers and the cache the tear-down left, with a
configuration of the same item objects.  Phase 2 (new source `u₂`): `hist₂` is a legal message history from
*that* state, ending in a state `sF` that is settled for `u₂` (`BuffSettled`) and whose table has no division
by zero.

Conclusion: the tear-down extends `hist₁` to a legal history under `u₁`; what it hands over is an empty cache
and registers that are empty on the items of `cfg₂` (this — `switch_link` — is all that phase 2 uses of phase 1);
and for every item `x` of the final configuration and every attribute `am` of `u₂`, the observation in `sF` is
`World.read` of `evalAll u₂ sF.cfg`: no value computed under `u₁`, no register content of the earlier history
survives.

Hypotheses: for `u₁` those of `C01World.micro_inv_run` (`rankWF`, `UniqueAttrs`, `ResistWF`; initial
`UniqueIds`, `ChargeWF`, `TgtKinds`); for `u₂` those of `C01World.world_read_eq_table_buff` (`rankWF`,
`UniqueAttrs`, `ResistWF`, `hnp₂`); nothing relates `u₁` to `u₂`. -/
theorem switch_source_world
    (hwf₁ : rankWF u₁ = true) (hun₁ : UniqueAttrs u₁) (hR₁ : ResistWF u₁)
    (hwf₂ : rankWF u₂ = true) (hun₂ : UniqueAttrs u₂) (hR₂ : ResistWF u₂)
    (hnp₂ : ∀ e ∈ u₂.effects, e.isBuff = true → e.category ≠ 2)
    {cfg : Config} {d : Dyn} (hU : UniqueIds cfg) (hC : ChargeWF cfg) (hT : TgtKinds cfg d)
    (hist₁ : List WStep)
    (ok₁ : WRunOKE u₁ immune limited pen (worldGraph u₁ immune limited pen hwf₁) ⟨cfg, d, fun _ => none⟩ hist₁)
    (s₁ : MState) (h₁ : wrun u₁ (worldGraph u₁ immune limited pen hwf₁) ⟨cfg, d, fun _ => none⟩ hist₁ = s₁)
    (es : List Int) (order : List Nat) (cfg₂ : Config)
    (sw : SwitchOK u₁ (worldGraph u₁ immune limited pen hwf₁) s₁ es order cfg₂)
    (hist₂ : List WStep)
    (ok₂ : WRunOKE u₂ immune limited pen (worldGraph u₂ immune limited pen hwf₂)
      (switchState u₁ es order s₁ cfg₂) hist₂)
    (sF : MState)
    (hF : wrun u₂ (worldGraph u₂ immune limited pen hwf₂) (switchState u₁ es order s₁ cfg₂) hist₂ = sF)
    (hset : BuffSettled u₂ sF.cfg immune limited pen sF.dyn)
    (hnz : ∀ entry ∈ evalAll u₂ sF.cfg immune limited pen, entry.2 ≠ .divZero) :
    WRunOK u₁ (worldGraph u₁ immune limited pen hwf₁) ⟨cfg, d, fun _ => none⟩
      (hist₁ ++ (teardownAll u₁ es order s₁).map .micro) ∧
    (switchState u₁ es order s₁ cfg₂).cache = (fun _ => none) ∧
    DynEmptyOn cfg₂ (switchState u₁ es order s₁ cfg₂).dyn ∧
    ∀ x ∈ sF.cfg.items, ∀ am ∈ u₂.attrs,
      observe (worldGraph u₂ immune limited pen hwf₂) (toState sF) (x.id, am.id) =
        valToOption (World.read (evalAll u₂ sF.cfg immune limited pen) x am.id) := by
  have T₁ := worldGraph_ties (immune := immune) (limited := limited) (pen := pen) hwf₁
  have okW₁ := wrunOK_of_errorFree T₁ hist₁ _ ok₁
  have inv₁ : MInv (worldGraph u₁ immune limited pen hwf₁) s₁ :=
    h₁ ▸ micro_inv_run T₁ hwf₁ hun₁ hR₁ hU hC hT hist₁ okW₁
  obtain ⟨_, _, hcache, _, hemp, _, _, _⟩ := switch_link T₁ hwf₁ hun₁ hR₁ inv₁ sw
  have hobs := (switch_phase hwf₁ hun₁ hR₁ hwf₂ hun₂ hR₂ inv₁ sw hist₂ ok₂ sF hF).2 hnp₂ hset hnz
  subst h₁
  exact ⟨(C11World.history_then_teardown T₁ hwf₁ hun₁ hR₁ hU hC hT hist₁ okW₁ es order sw.covers sw.k1
    sw.all sw.static).1, hcache, hemp, hobs⟩

/-- **Switching back restores every observation.**  `u₁ → u₂ → u₁`:
* phase A under `u₁`: a legal history `histA` from an empty cache to `sA`, settled, table without division by
  zero (the hypotheses of the headline theorem) — `sA` is "the state before the first switch";
* first switch (`sw₁`): complete tear-down of `sA` under `u₁`; phase B under `u₂`: any legal history `histB`
  from `switchState u₁ … sA cfg₂` to `sB` (it need not end settled; only `rankWF`, `UniqueAttrs`, `ResistWF` of
  `u₂` are used, to know that `sB` can be torn down legally);
* second switch (`sw₂`): complete tear-down of `sB` under `u₂`; phase C under `u₁`: a legal history `histC` from
  `switchState u₂ … sB cfg₃` to `sC`, settled, **with the configuration `sA` had** (`hcfg`).
Then every configured item and attribute is observed in `sC` exactly as it was in `sA` — both are the entry of
`u₁`'s from-scratch table of that configuration; nothing of `u₂` is left. -/
theorem switch_back_world
    (hwf₁ : rankWF u₁ = true) (hun₁ : UniqueAttrs u₁) (hR₁ : ResistWF u₁)
    (hnp₁ : ∀ e ∈ u₁.effects, e.isBuff = true → e.category ≠ 2)
    (hwf₂ : rankWF u₂ = true) (hun₂ : UniqueAttrs u₂) (hR₂ : ResistWF u₂)
    {cfg : Config} {d : Dyn} (hU : UniqueIds cfg) (hC : ChargeWF cfg) (hT : TgtKinds cfg d)
    -- phase A, under `u₁`
    (histA : List WStep)
    (okA : WRunOKE u₁ immune limited pen (worldGraph u₁ immune limited pen hwf₁) ⟨cfg, d, fun _ => none⟩ histA)
    (sA : MState) (hA : wrun u₁ (worldGraph u₁ immune limited pen hwf₁) ⟨cfg, d, fun _ => none⟩ histA = sA)
    (hsetA : BuffSettled u₁ sA.cfg immune limited pen sA.dyn)
    (hnz : ∀ entry ∈ evalAll u₁ sA.cfg immune limited pen, entry.2 ≠ .divZero)
    -- switch `u₁ → u₂`, phase B under `u₂`
    (es₁ : List Int) (order₁ : List Nat) (cfg₂ : Config)
    (sw₁ : SwitchOK u₁ (worldGraph u₁ immune limited pen hwf₁) sA es₁ order₁ cfg₂)
    (histB : List WStep)
    (okB : WRunOKE u₂ immune limited pen (worldGraph u₂ immune limited pen hwf₂)
      (switchState u₁ es₁ order₁ sA cfg₂) histB)
    (sB : MState)
    (hB : wrun u₂ (worldGraph u₂ immune limited pen hwf₂) (switchState u₁ es₁ order₁ sA cfg₂) histB = sB)
    -- switch `u₂ → u₁`, phase C under `u₁`
    (es₂ : List Int) (order₂ : List Nat) (cfg₃ : Config)
    (sw₂ : SwitchOK u₂ (worldGraph u₂ immune limited pen hwf₂) sB es₂ order₂ cfg₃)
    (histC : List WStep)
    (okC : WRunOKE u₁ immune limited pen (worldGraph u₁ immune limited pen hwf₁)
      (switchState u₂ es₂ order₂ sB cfg₃) histC)
    (sC : MState)
    (hC' : wrun u₁ (worldGraph u₁ immune limited pen hwf₁) (switchState u₂ es₂ order₂ sB cfg₃) histC = sC)
    (hsetC : BuffSettled u₁ sC.cfg immune limited pen sC.dyn)
    (hcfg : sC.cfg = sA.cfg)
    {x : Item} (hx : x ∈ sA.cfg.items) {am : AttrMeta} (ham : am ∈ u₁.attrs) :
    observe (worldGraph u₁ immune limited pen hwf₁) (toState sC) (x.id, am.id) =
      observe (worldGraph u₁ immune limited pen hwf₁) (toState sA) (x.id, am.id) ∧
    observe (worldGraph u₁ immune limited pen hwf₁) (toState sA) (x.id, am.id) =
      valToOption (World.read (evalAll u₁ sA.cfg immune limited pen) x am.id) := by
  have T₁ := worldGraph_ties (immune := immune) (limited := limited) (pen := pen) hwf₁
  have hobsA := world_read_eq_table_buff hwf₁ hun₁ hR₁ hnp₁ hU hC hT histA okA sA hA hsetA hnz hx ham
  have invA : MInv (worldGraph u₁ immune limited pen hwf₁) sA :=
    hA ▸ micro_inv_run T₁ hwf₁ hun₁ hR₁ hU hC hT histA (wrunOK_of_errorFree T₁ histA _ okA)
  have invB := (switch_phase hwf₁ hun₁ hR₁ hwf₂ hun₂ hR₂ invA sw₁ histB okB sB hB).1
  have hobsC := (switch_phase hwf₂ hun₂ hR₂ hwf₁ hun₁ hR₁ invB sw₂ histC okC sC hC').2 hnp₁ hsetC
    (hcfg ▸ hnz) x (hcfg ▸ hx) am ham
  rw [hcfg] at hobsC
  exact ⟨hobsC.trans hobsA.symm, hobsA⟩

/-! ## Registers that mention configured items only are left literally empty -/

/-- The registers with no entry at all. -/
def emptyDyn : Dyn := ⟨fun _ => false, fun _ _ => false, fun _ _ => [], fun _ _ => []⟩

/-- The registers mention items of the configuration only (true of `DynFin` registers — every state the
compiled driver is in — and of the derived state). -/
def DynOnItems (cfg : Config) (d : Dyn) : Prop :=
  ∀ i, (d.loaded i = true ∨ ∃ e, d.on i e = true ∨ d.tgts i e ≠ [] ∨ d.bspecs i e ≠ []) →
    ∃ x ∈ cfg.items, x.id = i

theorem dynOnItems_of_dynFin {cfg : Config} {d : Dyn} (h : DynFin u cfg d) : DynOnItems cfg d := by
  rintro i (hl | ⟨e, ho | ht | hb⟩)
  · exact h.loaded i hl
  · obtain ⟨x, hx, hi, _⟩ := h.on i e ho; exact ⟨x, hx, hi⟩
  · obtain ⟨x, hx, hi, _⟩ := h.tgts i e ht; exact ⟨x, hx, hi⟩
  · obtain ⟨x, hx, hi, _⟩ := h.bspecs i e hb; exact ⟨x, hx, hi⟩

theorem dynOnItems_derived (cfg : Config) : DynOnItems cfg (derivedDyn u cfg) := by
  intro i h
  cases hx : item? cfg i with
  | some x => exact ⟨x, item?_mem hx, item?_id hx⟩
  | none =>
    exfalso
    rcases h with hl | ⟨e, ho | ht | hb⟩
    · simp [derivedDyn, hx] at hl
    · simp [derivedDyn, hx] at ho
    · simp [derivedDyn, hx] at ht
    · simp [derivedDyn] at hb

/-- After the complete tear-down of such registers no register has any entry. -/
theorem teardownAll_dyn_empty (es : List Int) (order : List Nat) (s : MState) (hc : ∀ j, Covers s.dyn j es)
    (hall : ∀ x ∈ s.cfg.items, x.id ∈ order) (hfin : DynOnItems s.cfg s.dyn) :
    (mrun u s (teardownAll u es order s)).dyn = emptyDyn := by
  obtain ⟨_, _, lo, on, tg, bs, emp⟩ := teardownAll_spec (u := u) es order s hc
  have hemp : ∀ i, (s.dyn.loaded i = true ∨ ∃ e, s.dyn.on i e = true ∨ s.dyn.tgts i e ≠ [] ∨
      s.dyn.bspecs i e ≠ []) → i ∈ order := by
    intro i h
    obtain ⟨x, hx, hi⟩ := hfin i h
    exact hi ▸ hall x hx
  generalize mrun u s (teardownAll u es order s) = s' at lo on tg bs emp
  rcases s' with ⟨c', ⟨l', o', t', b'⟩, k'⟩
  show (⟨l', o', t', b'⟩ : Dyn) = emptyDyn
  unfold emptyDyn
  congr 1
  · funext i
    cases h : l' i with
    | false => rfl
    | true => exact ((emp i (hemp i (Or.inl (lo i h)))).1.symm.trans h).symm
  · funext i e
    cases h : o' i e with
    | false => rfl
    | true => exact (((emp i (hemp i (Or.inr ⟨e, Or.inl (on i e h)⟩))).2.1 e).1.symm.trans h).symm
  · funext i e
    rcases tg i e with h | h
    · by_cases h0 : s.dyn.tgts i e = []
      · exact h.trans h0
      · exact ((emp i (hemp i (Or.inr ⟨e, Or.inr (Or.inl h0)⟩))).2.1 e).2.1
    · exact h
  · funext i e
    rcases bs i e with h | h
    · by_cases h0 : s.dyn.bspecs i e = []
      · exact h.trans h0
      · exact ((emp i (hemp i (Or.inr ⟨e, Or.inr (Or.inr h0)⟩))).2.1 e).2.2
    · exact h

/-- ... so the new source starts in *the* empty state of its configuration: `switchState` is
`⟨cfg', emptyDyn, nothing cached⟩`. -/
theorem switchState_eq_empty (T : Ties u immune limited pen keep W) (hwf : rankWF u = true) (hun : UniqueAttrs u)
    (hR : ResistWF u) {s : MState} (inv : MInv W s) {es : List Int} {order : List Nat} {cfg' : Config}
    (sw : SwitchOK u W s es order cfg') (hfin : DynOnItems s.cfg s.dyn) :
    switchState u es order s cfg' = ⟨cfg', emptyDyn, fun _ => none⟩ := by
  have hcache := (switch_link T hwf hun hR inv sw).2.2.1
  have hdyn := teardownAll_dyn_empty (u := u) es order s sw.covers sw.all hfin
  unfold switchState at hcache ⊢
  rw [hdyn]
  congr 1

/-! ## Non-vacuity: `settleU → settleU2 → settleU` on the two-item world of `Lemmas/MicroAssembly.lean`

Phase A is `settleHist` under `settleU` (proved legal and settled there: `settle_runOK`, `settle_hset`; the ship's
attribute 37 reads (100 + 3/2 − 3/2) · 3/2 · 3/2 = 225).  The switch tears the module down first (it projects
onto the ship), then the ship.  `settleU2` is another source for the same type ids: the ship type's attribute 37
is 200.  Phase B under `settleU2` — `bootHist`: `ItemLoaded` for both items, then the messages of `settleHist` —
starts in the state the tear-down left and reads 450; switching back the same way reads 225 again. -/

def settleU2 : Universe :=
  { settleU with types := [⟨1, none, some 6, none, [(37, 200)], [], []⟩,
                           ⟨2, none, some 7, some 1000, [(20, 3/2)], [1000, 1001], []⟩] }
abbrev settleW2 : Config × Dyn → Graph Node Rat :=
  worldGraph settleU2 specImmune specLimited (fun _ => 1) (by decide)
def settleE : MState := ⟨settleCfg, emptyDyn, fun _ => none⟩
def bootHist : List WStep := .micro (.load 1) :: .micro (.load 2) :: settleHist
abbrev settleTd : List MStep :=
  [.unapply 2 1000 [1], .unapply 2 1001 [1], .stop 2 [1000, 1001], .unload 2, .stop 1 [], .unload 1]

theorem settle2_wf : UniqueAttrs settleU2 ∧ ResistWF settleU2 := by
  refine ⟨by unfold UniqueAttrs; decide, ?_⟩
  intro e he r hr
  simp only [settleU2, settleU, List.mem_cons, List.not_mem_nil, or_false] at he
  rcases he with rfl | rfl <;> cases hr

/-- The registers `bootHist` leaves, whatever the source. -/
theorem boot_dyn (u : Universe) (W : Config × Dyn → Graph Node Rat) :
    (wrun u W settleE bootHist).dyn =
      ⟨fun j => if j = 2 then true else if j = 1 then true else false,
       fun j e => if j = 2 ∧ e ∈ [1000, 1001] then true else false,
       fun j f => if j = 2 ∧ f = 1001 then [1] else if j = 2 ∧ f = 1000 then [1] else [], fun _ _ => []⟩ := rfl

/-- Side conditions of the switch for a state of `settleCfg` with the registers of `settleHist` / `bootHist`
(the part that does not depend on the source). -/
theorem settle_switchOK {u : Universe} {W : Config × Dyn → Graph Node Rat} {s : MState} (hc : s.cfg = settleCfg)
    (hon : s.dyn.on = fun j e => if j = 2 ∧ e ∈ [1000, 1001] then true else false)
    (htg : s.dyn.tgts = fun j f => if j = 2 ∧ f = 1001 then [1] else if j = 2 ∧ f = 1000 then [1] else [])
    (hbs : s.dyn.bspecs = fun _ _ => [])
    (hst : MRunOK u (StaticAround u W) s (teardownAll u [1000, 1001] [2, 1] s)) :
    SwitchOK u W s [1000, 1001] [2, 1] settleCfg := by
  have htg' : ∀ a e, (s.dyn.tgts a e = [1] ∧ a = 2 ∧ (e = 1000 ∨ e = 1001)) ∨ s.dyn.tgts a e = [] := by
    intro a e
    rw [htg]
    show ((if a = 2 ∧ e = 1001 then [1] else if a = 2 ∧ e = 1000 then [1] else []) = [1] ∧ _) ∨
      (if a = 2 ∧ e = 1001 then [1] else if a = 2 ∧ e = 1000 then [1] else []) = []
    by_cases h1 : a = 2 ∧ e = 1001
    · exact Or.inl ⟨if_pos h1, h1.1, Or.inr h1.2⟩
    · by_cases h2 : a = 2 ∧ e = 1000
      · exact Or.inl ⟨by rw [if_neg h1, if_pos h2], h2.1, Or.inl h2.2⟩
      · exact Or.inr (by rw [if_neg h1, if_neg h2])
  refine ⟨?_, ⟨?_, ?_, trivial⟩, ?_, hst, fun x hx => hc ▸ hx, settle_wf.2.2.1, settle_wf.2.2.2.1⟩
  · intro j e h
    rcases h with h | h | h
    · rw [hon] at h
      replace h : (if j = 2 ∧ e ∈ [(1000 : Int), 1001] then true else false) = true := h
      by_cases hh : j = 2 ∧ e ∈ [(1000 : Int), 1001]
      · exact hh.2
      · rw [if_neg hh] at h; cases h
    · rcases htg' j e with ⟨_, _, he⟩ | h0
      · rcases he with rfl | rfl <;> simp
      · exact absurd h0 h
    · rw [hbs] at h; exact absurd rfl h
  · intro a e h
    rcases htg' a e with ⟨h1, _, _⟩ | h0
    · rw [h1] at h; simp at h
    · rw [h0] at h; cases h
  · intro a e h
    rcases htg' a e with ⟨_, ha, _⟩ | h0
    · exact Or.inr (by simp [ha])
    · rw [h0] at h; cases h
  · intro x hx
    rw [hc] at hx
    simp only [settleCfg, settleShip, List.mem_cons, List.not_mem_nil, or_false] at hx
    rcases hx with rfl | rfl <;> simp

/-- The tear-down messages are taken with non-zero divisors around them (`ErrorFree` before and after each). -/
local macro "static_tac" T:term : tactic =>
  `(tactic| (refine ⟨?_, ?_, ?_, ?_, ?_, ?_, trivial⟩ <;>
      exact fun _ => ⟨staticAt_of_errorFree $T (by unfold ErrorFree; decide +kernel),
        staticAt_of_errorFree $T (by unfold ErrorFree; decide +kernel)⟩))

abbrev settleA : MState := wrun settleU settleW settleS0 settleHist

theorem settleA_td : teardownAll settleU [1000, 1001] [2, 1] settleA = settleTd := rfl

theorem settleA_switchOK : SwitchOK settleU settleW settleA [1000, 1001] [2, 1] settleCfg := by
  refine settle_switchOK rfl rfl rfl rfl ?_
  rw [settleA_td]
  static_tac (worldGraph_ties (u := settleU) (immune := specImmune) (limited := specLimited) (pen := fun _ => 1)
    (by decide))

/-! ### `bootHist` under either source -/

theorem boot_readLegal (s : MState) (hc : s.cfg = settleCfg)
    (hd : s.dyn = (wrun settleU settleW settleE bootHist).dyn) :
    Legal settleW (toState s) (.read fun n => n == (1, 37) || n == (2, 20)) := by
  intro n hn m hm _
  have hdeps : ∀ n, (n == ((1 : Nat), (37 : Int)) || n == (2, 20)) = true →
      ∀ m ∈ (settleW (settleCfg, (wrun settleU settleW settleE bootHist).dyn)).deps n, m = (2, 20) := by
    intro n hn
    simp only [Bool.or_eq_true, beq_iff_eq] at hn
    rcases hn with rfl | rfl <;> decide +kernel
  have : (toState s).cfg = (settleCfg, (wrun settleU settleW settleE bootHist).dyn) := by
    show (s.cfg, s.dyn) = _; rw [hc, hd]
  rw [this] at hm
  left
  rw [hdeps n hn m hm]; rfl

/-- `bootHist` is a legal history under `settleU` from the empty state of `settleCfg`. -/
theorem boot_runOK : WRunOKE settleU specImmune specLimited (fun _ => 1) settleW settleE bootHist := by
  refine ⟨⟨⟨fun n h => absurd rfl h, fun _ => rfl, fun _ _ => List.not_mem_nil⟩, fun _ => ⟨?_, ?_⟩⟩,
    ⟨⟨fun n h => absurd rfl h, fun _ => rfl, fun _ _ => List.not_mem_nil⟩, fun _ => ⟨?_, ?_⟩⟩,
    ⟨?_, fun _ => ⟨?_, ?_⟩⟩, ⟨settle_solsys, fun _ => ⟨?_, ?_⟩⟩, ⟨settle_solsys, fun _ => ⟨?_, ?_⟩⟩, ?_, trivial⟩
  all_goals first
    | exact boot_readLegal _ rfl rfl
    | (unfold ErrorFree; decide +kernel)
    | (intro e _; rfl)

/-- ... and ends in the settled state of `settleCfg` under `settleU`. -/
theorem boot_hset : (wrun settleU settleW settleE bootHist).dyn = derivedDyn settleU settleCfg := by
  rw [boot_dyn]
  show _ = (⟨_, _, _, _⟩ : Dyn)
  congr 1
  · funext i
    by_cases h1 : i = 1
    · subst h1; rfl
    · by_cases h2 : i = 2
      · subst h2; rfl
      · simp [settle_itemN h1 h2, h1, h2]
  · funext j e
    by_cases h1 : j = 1
    · subst h1
      have : runningIds settleU settleCfg settleShip = [] := by decide
      simp [settle_item1, this]
    · by_cases h2 : j = 2
      · subst h2
        have : runningIds settleU settleCfg settleMod = [1000, 1001] := by decide
        simp [settle_item2, this]
      · simp [settle_itemN h1 h2, h2]
  · funext j e
    by_cases h1 : j = 1
    · subst h1
      simp only [settle_item1]
      cases effect? settleU e with
      | none => simp
      | some ef => simp [projectionTargets, settleShip]
    · by_cases h2 : j = 2
      · subst h2
        by_cases e1 : e = 1000
        · subst e1; decide
        · by_cases e2 : e = 1001
          · subst e2; decide
          · have : effect? settleU e = none := by
              simp [effect?, settleU]; omega
            simp [settle_item2, this, e1, e2]
      · simp [settle_itemN h1 h2, h2]

theorem boot2_readLegal (s : MState) (hc : s.cfg = settleCfg)
    (hd : s.dyn = (wrun settleU2 settleW2 settleE bootHist).dyn) :
    Legal settleW2 (toState s) (.read fun n => n == (1, 37) || n == (2, 20)) := by
  intro n hn m hm _
  have hdeps : ∀ n, (n == ((1 : Nat), (37 : Int)) || n == (2, 20)) = true →
      ∀ m ∈ (settleW2 (settleCfg, (wrun settleU2 settleW2 settleE bootHist).dyn)).deps n, m = (2, 20) := by
    intro n hn
    simp only [Bool.or_eq_true, beq_iff_eq] at hn
    rcases hn with rfl | rfl <;> decide +kernel
  have : (toState s).cfg = (settleCfg, (wrun settleU2 settleW2 settleE bootHist).dyn) := by
    show (s.cfg, s.dyn) = _; rw [hc, hd]
  rw [this] at hm
  left
  rw [hdeps n hn m hm]; rfl

/-- `bootHist` is a legal history under `settleU2` from the empty state of `settleCfg`. -/
theorem boot2_runOK : WRunOKE settleU2 specImmune specLimited (fun _ => 1) settleW2 settleE bootHist := by
  refine ⟨⟨⟨fun n h => absurd rfl h, fun _ => rfl, fun _ _ => List.not_mem_nil⟩, fun _ => ⟨?_, ?_⟩⟩,
    ⟨⟨fun n h => absurd rfl h, fun _ => rfl, fun _ _ => List.not_mem_nil⟩, fun _ => ⟨?_, ?_⟩⟩,
    ⟨?_, fun _ => ⟨?_, ?_⟩⟩, ⟨settle_solsys, fun _ => ⟨?_, ?_⟩⟩, ⟨settle_solsys, fun _ => ⟨?_, ?_⟩⟩, ?_, trivial⟩
  all_goals first
    | exact boot2_readLegal _ rfl rfl
    | (unfold ErrorFree; decide +kernel)
    | (intro e _; rfl)

/-- ... and ends in the settled state of `settleCfg` under `settleU2`. -/
theorem boot2_hset : (wrun settleU2 settleW2 settleE bootHist).dyn = derivedDyn settleU2 settleCfg := by
  rw [boot_dyn]
  show _ = (⟨_, _, _, _⟩ : Dyn)
  congr 1
  · funext i
    by_cases h1 : i = 1
    · subst h1; rfl
    · by_cases h2 : i = 2
      · subst h2; rfl
      · simp [settle_itemN h1 h2, h1, h2]
  · funext j e
    by_cases h1 : j = 1
    · subst h1
      have : runningIds settleU2 settleCfg settleShip = [] := by decide
      simp [settle_item1, this]
    · by_cases h2 : j = 2
      · subst h2
        have : runningIds settleU2 settleCfg settleMod = [1000, 1001] := by decide
        simp [settle_item2, this]
      · simp [settle_itemN h1 h2, h2]
  · funext j e
    by_cases h1 : j = 1
    · subst h1
      simp only [settle_item1]
      cases effect? settleU2 e with
      | none => simp
      | some ef => simp [projectionTargets, settleShip]
    · by_cases h2 : j = 2
      · subst h2
        by_cases e1 : e = 1000
        · subst e1; decide
        · by_cases e2 : e = 1001
          · subst e2; decide
          · have : effect? settleU2 e = none := by
              simp [effect?, settleU2, settleU]; omega
            simp [settle_item2, this, e1, e2]
      · simp [settle_itemN h1 h2, h2]

/-! ### The two switches -/

/-- `settleA`: the state before the first switch; `swA`: what its tear-down under `settleU` hands to `settleU2`;
`settleB`: the state `bootHist` reaches from there under `settleU2`; `swB`: what the tear-down of `settleB` under
`settleU2` hands back to `settleU`; `settleC`: the state `bootHist` reaches from there under `settleU`. -/
abbrev swA : MState := switchState settleU [1000, 1001] [2, 1] settleA settleCfg
abbrev settleB : MState := wrun settleU2 settleW2 swA bootHist
abbrev swB : MState := switchState settleU2 [1000, 1001] [2, 1] settleB settleCfg
abbrev settleC : MState := wrun settleU settleW swB bootHist

theorem settleA_inv : MInv settleW settleA :=
  have T := worldGraph_ties (u := settleU) (immune := specImmune) (limited := specLimited) (pen := fun _ => 1)
    (by decide)
  micro_inv_run T (by decide) settle_wf.1 settle_wf.2.1 settle_wf.2.2.1 settle_wf.2.2.2.1 settle_wf.2.2.2.2
    settleHist (wrunOK_of_errorFree T _ _ settle_runOK)

/-- The first tear-down leaves the empty state of `settleCfg`: nothing cached, no register entry. -/
theorem swA_eq : swA = settleE :=
  switchState_eq_empty (worldGraph_ties (by decide)) (by decide) settle_wf.1 settle_wf.2.1 settleA_inv
    settleA_switchOK (by
      show DynOnItems settleCfg (wrun settleU settleW settleS0 settleHist).dyn
      rw [settle_hset]; exact dynOnItems_derived _)

theorem settleB_eq : settleB = wrun settleU2 settleW2 settleE bootHist := by
  show wrun settleU2 settleW2 swA bootHist = _
  rw [swA_eq]

theorem settleE_wf : UniqueIds settleCfg ∧ ChargeWF settleCfg ∧ TgtKinds settleCfg emptyDyn :=
  ⟨settle_wf.2.2.1, settle_wf.2.2.2.1, fun a e t ht => by simp [targetsOf, emptyDyn] at ht⟩

theorem settleB_inv : MInv settleW2 settleB := by
  rw [settleB_eq]
  have T := worldGraph_ties (u := settleU2) (immune := specImmune) (limited := specLimited) (pen := fun _ => 1)
    (by decide)
  exact micro_inv_run T (by decide) settle2_wf.1 settle2_wf.2 settleE_wf.1 settleE_wf.2.1 settleE_wf.2.2
    bootHist (wrunOK_of_errorFree T _ _ boot2_runOK)

theorem settleB_td :
    teardownAll settleU2 [1000, 1001] [2, 1] (wrun settleU2 settleW2 settleE bootHist) = settleTd := rfl

theorem settleB_switchOK : SwitchOK settleU2 settleW2 settleB [1000, 1001] [2, 1] settleCfg := by
  rw [settleB_eq]
  refine settle_switchOK rfl rfl rfl rfl ?_
  rw [settleB_td]
  static_tac (worldGraph_ties (u := settleU2) (immune := specImmune) (limited := specLimited) (pen := fun _ => 1)
    (by decide))

/-- The second tear-down leaves the empty state again. -/
theorem swB_eq : swB = settleE :=
  switchState_eq_empty (worldGraph_ties (by decide)) (by decide) settle2_wf.1 settle2_wf.2 settleB_inv
    settleB_switchOK (by
      rw [settleB_eq]
      show DynOnItems settleCfg (wrun settleU2 settleW2 settleE bootHist).dyn
      rw [boot2_hset]; exact dynOnItems_derived _)

theorem settleC_eq : settleC = wrun settleU settleW settleE bootHist := by
  show wrun settleU settleW swB bootHist = _
  rw [swB_eq]

/-- **`switch_source_world` applies to `settleU → settleU2`**: phase 1 `settleHist`, the tear-down `settleTd`,
phase 2 `bootHist` from the state the tear-down left.  Every hypothesis is met; the conclusion: the tear-down is a
legal continuation of `settleHist`, it leaves nothing cached and no register entry for the two items, and every
observation after phase 2 is `settleU2`'s table. -/
example :
    WRunOK settleU settleW settleS0 (settleHist ++ settleTd.map .micro) ∧
    swA.cache = (fun _ => none) ∧ DynEmptyOn settleCfg swA.dyn ∧
    ∀ x ∈ settleCfg.items, ∀ am ∈ settleU2.attrs,
      observe settleW2 (toState settleB) (x.id, am.id) =
        valToOption (World.read (evalAll settleU2 settleCfg specImmune specLimited (fun _ => 1)) x am.id) := by
  have ok₂ : WRunOKE settleU2 specImmune specLimited (fun _ => 1) settleW2 swA bootHist := by
    rw [swA_eq]; exact boot2_runOK
  have hset : BuffSettled settleU2 settleB.cfg specImmune specLimited (fun _ => 1) settleB.dyn := by
    rw [settleB_eq]
    show BuffSettled settleU2 settleCfg _ _ _ _
    rw [boot2_hset]; exact buffSettled_derived (by decide)
  have hcfg : settleB.cfg = settleCfg := by rw [settleB_eq]; rfl
  have h := switch_source_world (u₁ := settleU) (u₂ := settleU2) (by decide) settle_wf.1 settle_wf.2.1
    (by decide) settle2_wf.1 settle2_wf.2 (by decide) settle_wf.2.2.1 settle_wf.2.2.2.1 settle_wf.2.2.2.2
    settleHist settle_runOK settleA rfl [1000, 1001] [2, 1] settleCfg settleA_switchOK bootHist ok₂ settleB rfl
    hset (by rw [hcfg]; decide +kernel)
  rw [hcfg, settleA_td] at h
  exact h

/-- The numbers: 225 under `settleU` before the switch; after it the table of `settleU2` says 450 and that is
what is observed; nothing is cached right after the tear-down. -/
example :
    observe settleW (toState settleA) (1, 37) = some 225 ∧
    World.read (evalAll settleU2 settleCfg specImmune specLimited (fun _ => 1)) settleShip 37 = .ok 450 ∧
    observe settleW2 (toState settleB) (1, 37) = some 450 ∧
    swA.cache (1, 37) = none := by
  refine ⟨by decide +kernel, by decide +kernel, ?_, by rw [swA_eq]; rfl⟩
  rw [settleB_eq]
  decide +kernel

/-- **`switch_back_world` applies to `settleU → settleU2 → settleU`**: the observations after switching back are
those before the first switch, 225 at the ship's attribute 37 (450 in between). -/
example : ∀ x ∈ settleCfg.items, ∀ am ∈ settleU.attrs,
    observe settleW (toState settleC) (x.id, am.id) = observe settleW (toState settleA) (x.id, am.id) ∧
    observe settleW (toState settleA) (x.id, am.id) =
      valToOption (World.read (evalAll settleU settleCfg specImmune specLimited (fun _ => 1)) x am.id) := by
  intro x hx am ham
  have okB : WRunOKE settleU2 specImmune specLimited (fun _ => 1) settleW2 swA bootHist := by
    rw [swA_eq]; exact boot2_runOK
  have okC : WRunOKE settleU specImmune specLimited (fun _ => 1) settleW swB bootHist := by
    rw [swB_eq]; exact boot_runOK
  have hsetA : BuffSettled settleU settleA.cfg specImmune specLimited (fun _ => 1) settleA.dyn := by
    show BuffSettled settleU settleCfg _ _ _ (wrun settleU settleW settleS0 settleHist).dyn
    rw [settle_hset]; exact buffSettled_derived (by decide)
  have hsetC : BuffSettled settleU settleC.cfg specImmune specLimited (fun _ => 1) settleC.dyn := by
    rw [settleC_eq]
    show BuffSettled settleU settleCfg _ _ _ _
    rw [boot_hset]; exact buffSettled_derived (by decide)
  have hcfg : settleC.cfg = settleA.cfg := by rw [settleC_eq]; rfl
  exact switch_back_world (u₁ := settleU) (u₂ := settleU2) (by decide) settle_wf.1 settle_wf.2.1 (by decide)
    (by decide) settle2_wf.1 settle2_wf.2 settle_wf.2.2.1 settle_wf.2.2.2.1 settle_wf.2.2.2.2
    settleHist settle_runOK settleA rfl hsetA (by decide +kernel)
    [1000, 1001] [2, 1] settleCfg settleA_switchOK bootHist okB settleB rfl
    [1000, 1001] [2, 1] settleCfg settleB_switchOK bootHist okC settleC rfl hsetC hcfg hx ham

example :
    observe settleW (toState settleA) (1, 37) = some 225 ∧
    observe settleW2 (toState settleB) (1, 37) = some 450 ∧
    observe settleW (toState settleC) (1, 37) = some 225 := by
  refine ⟨by decide +kernel, ?_, ?_⟩
  · rw [settleB_eq]; decide +kernel
  · rw [settleC_eq]; decide +kernel

end Eos.C14World
