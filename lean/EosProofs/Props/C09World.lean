import EosProofs.Props.C13World
/-! # C09, message level — reading values is pure

`EosProofs/Props/C09.lean` states the property for the abstract cache machine, where the removal set of every
mutation is part of the step and the legality of the read-free history is a *hypothesis*
(`reads_do_not_affect_future`).  At message level the removal set of a message is computed by the handler
from the cache it finds (`Micro.visitAll` only cascades through *cached* nodes), so a history with fewer reads
removes other entries, and the side conditions of some events mention the cache.  This file states the
property for the message-level model of `EosModel/WorldMicro.lean`:

* `read_stable_world` — in any coherent state (in particular any `MInv` state) a read step changes no
  observation, leaves configuration and registers alone, and what it stores for a node is what `observe`
  reported for that node before; `reads_stable_world`: the same for any list of reads (any order, any
  repetition, no legality needed); `read_commute_world`.
* `reads_erasable_world` — the history with **all reads erased** (`eraseReads`) is again a legal history
  (no extra hypothesis: see "Direction of the side conditions" below), ends in the same configuration and
  registers, is observed identically at *every* node, and — when the final state is settled with a
  `divZero`-free table — both observations are the entry of the from-scratch table `World.evalAll`.
* `reads_reorder_world` — two legal histories with the same messages (reads inserted anywhere, in any order,
  any number of times) end in the same configuration and registers and are observed identically.
* Non-vacuity on `C01World.fleetHist` (150) and `MicroAssembly.settleHist` (225), and on a variant of
  `fleetHist` with additional, repeated reads.

## Direction of the side conditions

Reads never change `cfg` / `dyn` (`wstep_regs`), and what a message does to `cfg` / `dyn` depends on `cfg` /
`dyn` only (`mstep_regs`).  The side conditions that mention the cache are
* `StepOK (.load i)` — nothing of item `i` is cached; `StepOK (.reconfig cfg')` and `RelevelOK` — the change is
  invisible to every *cached* node: all three are **antitone** in the set of cached nodes (`stepOK_anti`,
  `relevelOK_anti`): a smaller cache satisfies them if a larger one does;
* `Legal (.read S)` — every valued dependency of a stored node is stored or already cached: **monotone** in
  the set of cached nodes (`readLegal_mono`).
A read can only add entries, but "the cache of the history with fewer reads stays the smaller one" is **not**
available step by step: the removal set of a message is computed from the cache the handler finds, and
`Micro.rdeps` over-approximates the reverse dependencies (enumerator (4) walks all recorded targets of a
projector; `Lemmas/MicroCascade.lean`), so a cascade that passes through an entry only the longer history has
cached can remove an entry both have — the contract of the cascade does not exclude it.  Erasing *all* reads
avoids the issue: a read-free history from an empty cache never has anything cached (`eraseReads_run`), the
antitone conditions hold vacuously and there is no read left whose legality could fail; so no hypothesis is
needed.  Erasing only *some* of the reads is not covered (a later read may rely on what an erased one stored: the
monotone direction); for two given legal histories with the same messages `reads_reorder_world` applies. -/
namespace Eos.C09World
open Eos.World Eos.Micro Eos.Micro.L Eos.DepCache Eos.Machine Eos.C01World Eos.C13World

variable {u : Universe} {immune limited : List Int} {pen : Nat → Rat}

/-- Is the event a public read? -/
def isRead : WStep → Bool
  | .read _ => true
  | _ => false

/-- The history with every public read erased: the messages and level changes, in their order. -/
def eraseReads (l : List WStep) : List WStep := l.filter fun st => !isRead st

theorem eraseReads_nil : eraseReads [] = [] := rfl
theorem eraseReads_read (S : Node → Bool) (l : List WStep) : eraseReads (.read S :: l) = eraseReads l := rfl
theorem eraseReads_micro (st : MStep) (l : List WStep) :
    eraseReads (.micro st :: l) = .micro st :: eraseReads l := rfl
theorem eraseReads_relevel (cfg' : Config) (i : Nat) (a : Int) (l : List WStep) :
    eraseReads (.relevel cfg' i a :: l) = .relevel cfg' i a :: eraseReads l := rfl

theorem eraseReads_append (l1 l2 : List WStep) : eraseReads (l1 ++ l2) = eraseReads l1 ++ eraseReads l2 :=
  List.filter_append ..

theorem eraseReads_idem (l : List WStep) : eraseReads (eraseReads l) = eraseReads l :=
  List.filter_filter .. |>.trans (by simp [eraseReads])

/-- A list of reads has no messages. -/
theorem eraseReads_reads {l : List WStep} (h : ∀ st ∈ l, isRead st = true) : eraseReads l = [] :=
  List.filter_eq_nil_iff.2 fun st hst => by simp [h st hst]

/-! ## Registers are a function of registers -/

/-- What a message does to configuration and registers does not depend on the cache. -/
theorem mstep_regs {s s' : MState} (hc : s'.cfg = s.cfg) (hd : s'.dyn = s.dyn) (st : MStep) :
    (mstep u s' st).cfg = (mstep u s st).cfg ∧ (mstep u s' st).dyn = (mstep u s st).dyn := by
  obtain ⟨c, d, K⟩ := s
  obtain ⟨c', d', K'⟩ := s'
  cases hc; cases hd
  cases st <;> exact ⟨rfl, rfl⟩

/-- A read changes neither configuration nor registers. -/
theorem wstep_read_regs (W : Config × Dyn → Graph Node Rat) (s : MState) (S : Node → Bool) :
    (wstep u W s (.read S)).cfg = s.cfg ∧ (wstep u W s (.read S)).dyn = s.dyn := ⟨rfl, rfl⟩

/-- What any event does to configuration and registers does not depend on the cache. -/
theorem wstep_regs (W : Config × Dyn → Graph Node Rat) {s s' : MState} (hc : s'.cfg = s.cfg)
    (hd : s'.dyn = s.dyn) (st : WStep) :
    (wstep u W s' st).cfg = (wstep u W s st).cfg ∧ (wstep u W s' st).dyn = (wstep u W s st).dyn := by
  cases st with
  | read S => exact ⟨hc, hd⟩
  | micro st => exact mstep_regs hc hd st
  | relevel cfg' i a =>
    have h1 := mstep_regs (u := u) hc hd (.reconfig cfg')
    exact mstep_regs h1.1 h1.2 (.changed i a)

/-! ## Direction of the cache-dependent side conditions -/

/-- The side conditions of a message are antitone in the set of cached nodes. -/
theorem stepOK_anti (W : Config × Dyn → Graph Node Rat) {s s' : MState} (hc : s'.cfg = s.cfg)
    (hd : s'.dyn = s.dyn) (hsub : ∀ n, s'.cache n ≠ none → s.cache n ≠ none) {st : MStep}
    (ok : StepOK W s st) : StepOK W s' st := by
  obtain ⟨c, d, K⟩ := s
  obtain ⟨c', d', K'⟩ := s'
  cases hc; cases hd
  cases st with
  | load i => exact ⟨fun n hn => ok.1 n (hsub n hn), ok.2.1, ok.2.2⟩
  | reconfig cfg' => exact ⟨ok.1, ok.2.1, ok.2.2.1, fun n hn => ok.2.2.2 n (hsub n hn)⟩
  | read S => exact ok
  | unload i => exact ok
  | start i es => exact ok
  | stop i es => exact ok
  | apply i e ts => exact ok
  | unapply i e ts => exact ok
  | changed i a => exact ok
  | buffset i e ms => exact ok

/-- The side condition of a level change is antitone in the set of cached nodes. -/
theorem relevelOK_anti (W : Config × Dyn → Graph Node Rat) {s s' : MState} (hc : s'.cfg = s.cfg)
    (hd : s'.dyn = s.dyn) (hsub : ∀ n, s'.cache n ≠ none → s.cache n ≠ none) {cfg' : Config} {i : Nat} {a : Int}
    (ok : RelevelOK u W s cfg' i a) : RelevelOK u W s' cfg' i a := by
  obtain ⟨c, d, K⟩ := s
  obtain ⟨c', d', K'⟩ := s'
  cases hc; cases hd
  exact ⟨ok.1, ok.2.1, ok.2.2.1, fun n hn => ok.2.2.2 n (hsub n hn)⟩

/-- The side condition of a read is *monotone* in the set of cached nodes (the opposite direction). -/
theorem readLegal_mono (W : Config × Dyn → Graph Node Rat) {s s' : MState} (hc : s'.cfg = s.cfg)
    (hd : s'.dyn = s.dyn) (hsub : ∀ n, s'.cache n ≠ none → s.cache n ≠ none) {S : Node → Bool}
    (ok : Legal W (toState s') (.read S)) : Legal W (toState s) (.read S) := by
  obtain ⟨c, d, K⟩ := s
  obtain ⟨c', d', K'⟩ := s'
  cases hc; cases hd
  intro n hn m hm hs
  rcases ok n hn m hm hs with h | h
  · exact Or.inl h
  · exact Or.inr (hsub m h)

/-- Side conditions of a message or level change (with `ErrorFree` for `StaticAround`), antitone in the set of
cached nodes. -/
theorem wstepOKE_anti (W : Config × Dyn → Graph Node Rat) {s s' : MState} (hc : s'.cfg = s.cfg)
    (hd : s'.dyn = s.dyn) (hsub : ∀ n, s'.cache n ≠ none → s.cache n ≠ none) {st : WStep}
    (hst : isRead st = false) (ok : WStepOKE u immune limited pen W s st) :
    WStepOKE u immune limited pen W s' st := by
  cases st with
  | read S => cases hst
  | micro st =>
    refine ⟨stepOK_anti W hc hd hsub ok.1, fun h => ?_⟩
    have hr := mstep_regs (u := u) hc hd st
    rw [hc, hd, hr.1, hr.2]
    exact ok.2 h
  | relevel cfg' i a => exact relevelOK_anti W hc hd hsub ok

/-! ## A read-free history from an empty cache -/

theorem wstep_cache_none (W : Config × Dyn → Graph Node Rat) {s : MState} (he : ∀ n, s.cache n = none)
    {st : WStep} (hst : isRead st = false) (n : Node) : (wstep u W s st).cache n = none := by
  cases st with
  | read S => cases hst
  | micro st => exact sub_none (mstep_sub s st) (he n)
  | relevel cfg' i a =>
    exact sub_none (mstep_sub (u := u) _ (.changed i a)) (sub_none (mstep_sub (u := u) s (.reconfig cfg')) (he n))

/-- **Erasing all reads of a legal history leaves a legal history**: `s'` has the configuration and registers of
`s` and nothing cached.  The read-free history from `s'` is taken under the same side conditions, passes through
the same configurations and registers, and never caches anything. -/
theorem eraseReads_run (W : Config × Dyn → Graph Node Rat) : ∀ (steps : List WStep) (s s' : MState),
    s'.cfg = s.cfg → s'.dyn = s.dyn → (∀ n, s'.cache n = none) →
    WRunOKE u immune limited pen W s steps →
    WRunOKE u immune limited pen W s' (eraseReads steps) ∧
    (wrun u W s' (eraseReads steps)).cfg = (wrun u W s steps).cfg ∧
    (wrun u W s' (eraseReads steps)).dyn = (wrun u W s steps).dyn ∧
    ∀ n, (wrun u W s' (eraseReads steps)).cache n = none
  | [], _, _, hc, hd, he, _ => ⟨trivial, hc, hd, he⟩
  | .read S :: rest, s, s', hc, hd, he, ok =>
    eraseReads_run W rest (wstep u W s (.read S)) s' hc hd he ok.2
  | .micro st :: rest, s, s', hc, hd, he, ok => by
    have hsub : ∀ n, s'.cache n ≠ none → s.cache n ≠ none := fun n hn => absurd (he n) hn
    have h1 : WStepOKE u immune limited pen W s' (.micro st) := wstepOKE_anti W hc hd hsub rfl ok.1
    have hr := wstep_regs (u := u) W hc hd (.micro st)
    have ih := eraseReads_run W rest (wstep u W s (.micro st)) (wstep u W s' (.micro st)) hr.1 hr.2
      (wstep_cache_none W he rfl) ok.2
    exact ⟨⟨h1, ih.1⟩, ih.2⟩
  | .relevel cfg' i a :: rest, s, s', hc, hd, he, ok => by
    have hsub : ∀ n, s'.cache n ≠ none → s.cache n ≠ none := fun n hn => absurd (he n) hn
    have h1 : WStepOKE u immune limited pen W s' (.relevel cfg' i a) := wstepOKE_anti W hc hd hsub rfl ok.1
    have hr := wstep_regs (u := u) W hc hd (.relevel cfg' i a)
    have ih := eraseReads_run W rest (wstep u W s (.relevel cfg' i a)) (wstep u W s' (.relevel cfg' i a)) hr.1 hr.2
      (wstep_cache_none W he rfl) ok.2
    exact ⟨⟨h1, ih.1⟩, ih.2⟩

/-- Configuration and registers at the end of a history are those of its read-free part (no legality needed). -/
theorem wrun_regs_eraseReads (W : Config × Dyn → Graph Node Rat) : ∀ (steps : List WStep) (s s' : MState),
    s'.cfg = s.cfg → s'.dyn = s.dyn →
    (wrun u W s' (eraseReads steps)).cfg = (wrun u W s steps).cfg ∧
    (wrun u W s' (eraseReads steps)).dyn = (wrun u W s steps).dyn
  | [], _, _, hc, hd => ⟨hc, hd⟩
  | .read S :: rest, s, s', hc, hd => wrun_regs_eraseReads W rest (wstep u W s (.read S)) s' hc hd
  | .micro st :: rest, _, _, hc, hd =>
    have hr := wstep_regs (u := u) W hc hd (.micro st)
    wrun_regs_eraseReads W rest _ _ hr.1 hr.2
  | .relevel cfg' i a :: rest, _, _, hc, hd =>
    have hr := wstep_regs (u := u) W hc hd (.relevel cfg' i a)
    wrun_regs_eraseReads W rest _ _ hr.1 hr.2

/-! ## A read changes no observation -/

section stable
variable {W : Config × Dyn → Graph Node Rat}

/-- Coherence alone (every cached value is the from-scratch value of the current registers; half of
`Machine.Good`). -/
def Coherent (W : Config × Dyn → Graph Node Rat) (s : MState) : Prop :=
  ∀ n v, s.cache n = some v → spec (W (s.cfg, s.dyn)) n = some v

theorem coherent_of_inv {s : MState} (inv : MInv W s) : Coherent W s := inv.good.coh

theorem observe_of_coherent {s : MState} (h : Coherent W s) (n : Node) :
    observe W (toState s) n = spec (W (s.cfg, s.dyn)) n := by
  unfold observe toState
  dsimp only
  cases hk : s.cache n with
  | none => rfl
  | some v => exact (h n v hk).symm

/-- Any read (dependency-closed or not) keeps the cache coherent. -/
theorem coherent_read {s : MState} (h : Coherent W s) (S : Node → Bool) : Coherent W (wstep u W s (.read S)) := by
  intro n v hv
  have hv' : (if S n then spec (W (s.cfg, s.dyn)) n else s.cache n) = some v := hv
  show spec (W (s.cfg, s.dyn)) n = some v
  by_cases hs : S n = true
  · rwa [if_pos hs] at hv'
  · rw [if_neg hs] at hv'; exact h n v hv'

/-- **A read changes nothing a later read returns.**  In any coherent state — every state a legal history
reaches (`MInv`) — performing a read of any set `S` of nodes and then observing a node gives what observing it
directly gives; configuration and registers are untouched; and the value the read stores for a node it covers
is exactly what `observe` reported for that node before the read (so a repeated read stores the same again). -/
theorem read_stable_world {s : MState} (h : Coherent W s) (S : Node → Bool) :
    (wstep u W s (.read S)).cfg = s.cfg ∧ (wstep u W s (.read S)).dyn = s.dyn ∧
    (∀ n, observe W (toState (wstep u W s (.read S))) n = observe W (toState s) n) ∧
    (∀ n, S n = true → (wstep u W s (.read S)).cache n = observe W (toState s) n) ∧
    (∀ n, S n = false → (wstep u W s (.read S)).cache n = s.cache n) := by
  refine ⟨rfl, rfl, fun n => ?_, fun n hs => ?_, fun n hs => ?_⟩
  · rw [observe_of_coherent (coherent_read (u := u) h S), observe_of_coherent h]; rfl
  · rw [observe_of_coherent h]
    show (if S n then spec (W (s.cfg, s.dyn)) n else s.cache n) = _
    rw [if_pos hs]
  · show (if S n then spec (W (s.cfg, s.dyn)) n else s.cache n) = _
    rw [if_neg (by simp [hs])]

/-- The instance for reachable states, in the form of the task: `MInv` (what `C01World.micro_inv_run` provides
after any legal history). -/
theorem read_stable_world_inv {s : MState} (inv : MInv W s) (S : Node → Bool) (n : Node) :
    observe W (toState (wstep u W s (.read S))) n = observe W (toState s) n :=
  (read_stable_world (coherent_of_inv inv) S).2.2.1 n

/-- **Between two mutations any ordering, interleaving or repetition of reads yields the same values.**  A list
of reads (`hr`; whatever the sets, their order and their number; no legality needed) from a coherent state leaves
configuration, registers and every observation as they were, and the state is coherent again. -/
theorem reads_stable_world : ∀ (reads : List WStep) {s : MState}, (∀ st ∈ reads, isRead st = true) → Coherent W s →
    (wrun u W s reads).cfg = s.cfg ∧ (wrun u W s reads).dyn = s.dyn ∧ Coherent W (wrun u W s reads) ∧
    ∀ n, observe W (toState (wrun u W s reads)) n = observe W (toState s) n
  | [], _, _, h => ⟨rfl, rfl, h, fun _ => rfl⟩
  | .read S :: rest, s, hr, h => by
    obtain ⟨h1, h2, h3, h4⟩ := reads_stable_world rest (s := wstep u W s (.read S))
      (fun st hst => hr st (List.mem_cons_of_mem _ hst)) (coherent_read h S)
    exact ⟨h1, h2, h3, fun n => (h4 n).trans ((read_stable_world h S).2.2.1 n)⟩
  | .micro st :: _, _, hr, _ => by cases hr _ List.mem_cons_self
  | .relevel cfg' i a :: _, _, hr, _ => by cases hr _ List.mem_cons_self

/-- Two lists of reads — e.g. the same reads in another order, or with repetitions — are indistinguishable. -/
theorem read_commute_world {s : MState} (h : Coherent W s) (reads reads' : List WStep)
    (hr : ∀ st ∈ reads, isRead st = true) (hr' : ∀ st ∈ reads', isRead st = true) (n : Node) :
    observe W (toState (wrun u W s reads)) n = observe W (toState (wrun u W s reads')) n :=
  ((reads_stable_world (u := u) reads hr h).2.2.2 n).trans ((reads_stable_world (u := u) reads' hr' h).2.2.2 n).symm

/-- What the `k`-th read of a list of reads stores for a node is what was observed before the first one. -/
theorem reads_store_observed {s : MState} (h : Coherent W s) (reads : List WStep)
    (hr : ∀ st ∈ reads, isRead st = true) (S : Node → Bool) {n : Node} (hn : S n = true) :
    (wstep u W (wrun u W s reads) (.read S)).cache n = observe W (toState s) n := by
  obtain ⟨_, _, h3, h4⟩ := reads_stable_world (u := u) reads hr h
  rw [(read_stable_world h3 S).2.2.2.1 n hn, h4 n]

end stable

/-! ## Reading more or fewer quantities before a mutation changes nothing after it -/

/-- **Reads can be erased.**  `steps'` is a legal history (`WRunOKE`) from a state with nothing cached, `sF'`
its final state; `sF` is the final state of the same history with every public read erased.  Then
1. the read-free history is legal as well — no extra hypothesis (see the header: the cache-dependent side
   conditions of messages and level changes are antitone in the cache, and the read-free history never caches
   anything);
2. both end in the same configuration and the same registers; the read-free history has nothing cached at its
   end (what it observes is a fresh calculation);
3. every node — configured or not, with metadata or not — is observed identically in the two final states;
4. if the final state is settled (`BuffSettled`) and the from-scratch table of its configuration has no
   `divZero` entry (and no fleet-boost effect is projectable), both observations at a configured item and an
   attribute with metadata are the table's entry.
Hypotheses as in `C01World.world_read_eq_table_buff`. -/
theorem reads_erasable_world (hwf : rankWF u = true) (hun : UniqueAttrs u) (hR : ResistWF u)
    {cfg : Config} {d : Dyn} (hU : UniqueIds cfg) (hC : ChargeWF cfg) (hT : TgtKinds cfg d)
    (steps' : List WStep)
    (ok' : WRunOKE u immune limited pen (worldGraph u immune limited pen hwf) ⟨cfg, d, fun _ => none⟩ steps')
    (sF' sF : MState)
    (hF' : wrun u (worldGraph u immune limited pen hwf) ⟨cfg, d, fun _ => none⟩ steps' = sF')
    (hF : wrun u (worldGraph u immune limited pen hwf) ⟨cfg, d, fun _ => none⟩ (eraseReads steps') = sF) :
    WRunOKE u immune limited pen (worldGraph u immune limited pen hwf) ⟨cfg, d, fun _ => none⟩ (eraseReads steps') ∧
    sF.cfg = sF'.cfg ∧ sF.dyn = sF'.dyn ∧ (∀ n, sF.cache n = none) ∧
    (∀ n, observe (worldGraph u immune limited pen hwf) (toState sF) n =
      observe (worldGraph u immune limited pen hwf) (toState sF') n) ∧
    (BuffSettled u sF'.cfg immune limited pen sF'.dyn →
      (∀ e ∈ u.effects, e.isBuff = true → e.category ≠ 2) →
      (∀ entry ∈ evalAll u sF'.cfg immune limited pen, entry.2 ≠ .divZero) →
      ∀ x ∈ sF'.cfg.items, ∀ am ∈ u.attrs,
        observe (worldGraph u immune limited pen hwf) (toState sF) (x.id, am.id) =
          valToOption (World.read (evalAll u sF'.cfg immune limited pen) x am.id) ∧
        observe (worldGraph u immune limited pen hwf) (toState sF') (x.id, am.id) =
          valToOption (World.read (evalAll u sF'.cfg immune limited pen) x am.id)) := by
  subst hF; subst hF'
  have T := worldGraph_ties (immune := immune) (limited := limited) (pen := pen) hwf
  obtain ⟨ok, hc, hd, he⟩ := eraseReads_run (worldGraph u immune limited pen hwf) steps'
    ⟨cfg, d, fun _ => none⟩ ⟨cfg, d, fun _ => none⟩ rfl rfl (fun _ => rfl) ok'
  have hobs : ∀ n, observe (worldGraph u immune limited pen hwf)
      (toState (wrun u (worldGraph u immune limited pen hwf) ⟨cfg, d, fun _ => none⟩ (eraseReads steps'))) n =
      observe (worldGraph u immune limited pen hwf)
        (toState (wrun u (worldGraph u immune limited pen hwf) ⟨cfg, d, fun _ => none⟩ steps')) n := by
    intro n
    rw [micro_read_eq_spec T hwf hun hR hU hC hT _ (wrunOK_of_errorFree T _ _ ok),
      micro_read_eq_spec T hwf hun hR hU hC hT _ (wrunOK_of_errorFree T _ _ ok'), hc, hd]
  refine ⟨ok, hc, hd, he, hobs, fun hset hnp hnz x hx am ham => ?_⟩
  have h2 := world_read_eq_table_buff hwf hun hR hnp hU hC hT steps' ok' _ rfl hset hnz hx ham
  exact ⟨(hobs _).trans h2, h2⟩

/-- **Reads can be inserted, repeated and re-ordered.**  Two legal histories from the same state with nothing
cached whose messages and level changes are the same list (`hm`; the reads of either are arbitrary: anywhere, in
any order, any number of times, of any legal sets) end in the same configuration and the same registers, every
node is observed identically in the two final states, and — final state settled, table `divZero`-free — both
observations are the table's entry. -/
theorem reads_reorder_world (hwf : rankWF u = true) (hun : UniqueAttrs u) (hR : ResistWF u)
    {cfg : Config} {d : Dyn} (hU : UniqueIds cfg) (hC : ChargeWF cfg) (hT : TgtKinds cfg d)
    (steps steps' : List WStep)
    (ok : WRunOKE u immune limited pen (worldGraph u immune limited pen hwf) ⟨cfg, d, fun _ => none⟩ steps)
    (ok' : WRunOKE u immune limited pen (worldGraph u immune limited pen hwf) ⟨cfg, d, fun _ => none⟩ steps')
    (hm : eraseReads steps = eraseReads steps')
    (sF sF' : MState)
    (hF : wrun u (worldGraph u immune limited pen hwf) ⟨cfg, d, fun _ => none⟩ steps = sF)
    (hF' : wrun u (worldGraph u immune limited pen hwf) ⟨cfg, d, fun _ => none⟩ steps' = sF') :
    sF.cfg = sF'.cfg ∧ sF.dyn = sF'.dyn ∧
    (∀ n, observe (worldGraph u immune limited pen hwf) (toState sF) n =
      observe (worldGraph u immune limited pen hwf) (toState sF') n) ∧
    (BuffSettled u sF.cfg immune limited pen sF.dyn →
      (∀ e ∈ u.effects, e.isBuff = true → e.category ≠ 2) →
      (∀ entry ∈ evalAll u sF.cfg immune limited pen, entry.2 ≠ .divZero) →
      ∀ x ∈ sF.cfg.items, ∀ am ∈ u.attrs,
        observe (worldGraph u immune limited pen hwf) (toState sF) (x.id, am.id) =
          valToOption (World.read (evalAll u sF.cfg immune limited pen) x am.id) ∧
        observe (worldGraph u immune limited pen hwf) (toState sF') (x.id, am.id) =
          valToOption (World.read (evalAll u sF.cfg immune limited pen) x am.id)) := by
  obtain ⟨_, c1, d1, _, o1, t1⟩ := reads_erasable_world hwf hun hR hU hC hT steps ok sF _ hF rfl
  obtain ⟨_, c2, d2, _, o2, _⟩ := reads_erasable_world hwf hun hR hU hC hT steps' ok' sF' _ hF' rfl
  rw [hm] at c1 d1 o1
  have hobs := fun n => ((o1 n).symm.trans (o2 n))
  refine ⟨c1.symm.trans c2, d1.symm.trans d2, hobs, fun hset hnp hnz x hx am ham => ?_⟩
  have h := (t1 hset hnp hnz x hx am ham).2
  exact ⟨h, (hobs _).symm.trans h⟩

/-! ## Non-vacuity

### `C01World.fleetHist` without its read

`fleetHist` (start of the boost, registration of the buff, application to both ships, a read of ship 3's
attribute 37) is a legal history that ends `BuffSettled` (`C01World.fleet_runOK`, `fleet_hset`).  Erasing its
read leaves the four messages; `reads_erasable_world` applies: the read-free history is legal, and although
nothing is cached at its end (the full history has 150 cached) the observation is the same, the table's 150. -/

example : eraseReads fleetHist = fleetHist.take 4 := rfl

example :
    WRunOKE fleetU specImmune specLimited fleetPen fleetW fleetS0 (eraseReads fleetHist) ∧
    observe fleetW (toState (wrun fleetU fleetW fleetS0 (eraseReads fleetHist))) (3, 37) =
      observe fleetW (toState (wrun fleetU fleetW fleetS0 fleetHist)) (3, 37) ∧
    observe fleetW (toState (wrun fleetU fleetW fleetS0 (eraseReads fleetHist))) (3, 37) = some 150 ∧
    (wrun fleetU fleetW fleetS0 (eraseReads fleetHist)).cache (3, 37) = none ∧
    (wrun fleetU fleetW fleetS0 fleetHist).cache (3, 37) = some 150 := by
  obtain ⟨h1, _, _, he, h4, h5⟩ := reads_erasable_world (u := fleetU) (by decide) fleet_wf.2.1 fleet_wf.2.2.1
    fleet_wf.2.2.2.1 fleet_wf.2.2.2.2.1 fleet_wf.2.2.2.2.2 fleetHist fleet_runOK _ _ rfl rfl
  have ht : valToOption (World.read (evalAll fleetU fleetCfg specImmune specLimited fleetPen) fleetShip3 37) =
      some 150 := by decide +kernel
  refine ⟨h1, h4 _, ?_, he _, by decide +kernel⟩
  exact (h5 fleet_hset (by decide) (by decide +kernel) fleetShip3
    (List.mem_cons_of_mem _ (List.mem_cons_of_mem _ List.mem_cons_self)) ⟨37, none, none, true, true⟩
    (List.mem_cons_of_mem _ (List.mem_cons_of_mem _ List.mem_cons_self))).1.trans ht

/-! ### `settleHist` without its read: 225 -/

example : eraseReads settleHist = settleHist.take 3 := rfl

example :
    WRunOKE settleU specImmune specLimited (fun _ => 1) settleW settleS0 (eraseReads settleHist) ∧
    observe settleW (toState (wrun settleU settleW settleS0 (eraseReads settleHist))) (1, 37) = some 225 ∧
    observe settleW (toState (wrun settleU settleW settleS0 settleHist)) (1, 37) = some 225 ∧
    (wrun settleU settleW settleS0 (eraseReads settleHist)).cache (1, 37) = none := by
  obtain ⟨h1, _, _, he, _, h5⟩ := reads_erasable_world (u := settleU) (by decide) settle_wf.1 settle_wf.2.1
    settle_wf.2.2.1 settle_wf.2.2.2.1 settle_wf.2.2.2.2 settleHist settle_runOK _ _ rfl rfl
  have ht : valToOption (World.read (evalAll settleU settleCfg specImmune specLimited (fun _ => 1)) settleShip 37) =
      some 225 := by decide +kernel
  have hset : BuffSettled settleU settleCfg specImmune specLimited (fun _ => 1)
      (wrun settleU settleW settleS0 settleHist).dyn := by
    rw [settle_hset]; exact buffSettled_derived (by decide)
  have h := h5 hset (by decide) (by decide +kernel) settleShip List.mem_cons_self
    ⟨37, none, none, true, true⟩ (List.mem_cons_of_mem _ List.mem_cons_self)
  exact ⟨h1, h.1.trans ht, h.2.trans ht, he _⟩

/-! ### `fleetHist` with more reads

`fleetHistR`: the messages of `fleetHist` with the un-boosted value of ship 3 read (twice) right after the start
— 100 is cached on the way and has to be invalidated by the application of the boost — and the final read
repeated.  It is legal, `eraseReads` of the two histories agree, and `reads_reorder_world` gives the same
observation, 150, at the node the reads cover and at ship 1's attribute 37, which no read of either covers. -/

def fleetHistR : List WStep :=
  [.micro (.start 2 [2000]), .read fun n => n == (3, 37), .read fun n => n == (3, 37),
   .micro (.unapply 2 2000 []), .micro (.buffset 2 2000 [fleetBM]), .micro (.apply 2 2000 [1, 3]),
   .read fun n => n == (3, 37) || n == (2, 2469), .read fun n => n == (3, 37) || n == (2, 2469)]

example : eraseReads fleetHistR = eraseReads fleetHist := rfl

theorem fleetR_runOK : WRunOKE fleetU specImmune specLimited fleetPen fleetW fleetS0 fleetHistR := by
  refine ⟨⟨?_, fun _ => ⟨?_, ?_⟩⟩, ?r1, ?r2, ⟨trivial, fun _ => ⟨?_, ?_⟩⟩, ⟨?_, fun h => by cases h⟩,
    ⟨?_, fun _ => ⟨?_, ?_⟩⟩, ?r3, ?r4, trivial⟩
  case r1 => refine fleet2_readLegal 1 _ ?_ ?_ _ (Or.inl ⟨rfl, rfl⟩) <;> rfl
  case r2 => refine fleet2_readLegal 1 _ ?_ ?_ _ (Or.inl ⟨rfl, rfl⟩) <;> rfl
  case r3 => refine fleet_readLegal _ ?_ ?_ <;> rfl
  case r4 => refine fleet_readLegal _ ?_ ?_ <;> rfl
  · intro e _; rfl
  all_goals first
    | (unfold ErrorFree; decide +kernel)
    | rfl
    | (intro j hj t ht
       simp only [List.mem_cons, List.not_mem_nil, or_false] at hj
       rcases hj with rfl | rfl <;> (cases ht; rfl))

example :
    (∀ n, observe fleetW (toState (wrun fleetU fleetW fleetS0 fleetHistR)) n =
      observe fleetW (toState (wrun fleetU fleetW fleetS0 fleetHist)) n) ∧
    observe fleetW (toState (wrun fleetU fleetW fleetS0 fleetHistR)) (3, 37) = some 150 ∧
    observe fleetW (toState (wrun fleetU fleetW fleetS0 fleetHistR)) (1, 37) = some 150 ∧
    (wrun fleetU fleetW fleetS0 (fleetHistR.take 3)).cache (3, 37) = some 100 := by
  obtain ⟨_, _, h3, h4⟩ := reads_reorder_world (u := fleetU) (by decide) fleet_wf.2.1 fleet_wf.2.2.1
    fleet_wf.2.2.2.1 fleet_wf.2.2.2.2.1 fleet_wf.2.2.2.2.2 fleetHist fleetHistR fleet_runOK fleetR_runOK rfl _ _
    rfl rfl
  have h := h4 fleet_hset (by decide) (by decide +kernel)
  have ht3 : valToOption (World.read (evalAll fleetU fleetCfg specImmune specLimited fleetPen) fleetShip3 37) =
      some 150 := by decide +kernel
  have ht1 : valToOption (World.read (evalAll fleetU fleetCfg specImmune specLimited fleetPen) fleetShip1 37) =
      some 150 := by decide +kernel
  refine ⟨fun n => (h3 n).symm, ?_, ?_, by decide +kernel⟩
  · exact (h fleetShip3 (List.mem_cons_of_mem _ (List.mem_cons_of_mem _ List.mem_cons_self))
      ⟨37, none, none, true, true⟩ (List.mem_cons_of_mem _ (List.mem_cons_of_mem _ List.mem_cons_self))).2.trans ht3
  · exact (h fleetShip1 List.mem_cons_self
      ⟨37, none, none, true, true⟩ (List.mem_cons_of_mem _ (List.mem_cons_of_mem _ List.mem_cons_self))).2.trans ht1

/-! ### A further read in the final state of `fleetHist`

The final state is reachable, hence `MInv`, hence coherent: `read_stable_world` applies to a read of ship 1's
attribute 37 (not cached there): the observation of every node is unchanged, and the read stores what was
observed, 150. -/

example :
    (∀ n, observe fleetW (toState (wstep fleetU fleetW (wrun fleetU fleetW fleetS0 fleetHist)
        (.read fun n => n == (1, 37) || n == (2, 2469)))) n =
      observe fleetW (toState (wrun fleetU fleetW fleetS0 fleetHist)) n) ∧
    (wrun fleetU fleetW fleetS0 fleetHist).cache (1, 37) = none ∧
    (wstep fleetU fleetW (wrun fleetU fleetW fleetS0 fleetHist)
      (.read fun n => n == (1, 37) || n == (2, 2469))).cache (1, 37) =
        observe fleetW (toState (wrun fleetU fleetW fleetS0 fleetHist)) (1, 37) ∧
    observe fleetW (toState (wrun fleetU fleetW fleetS0 fleetHist)) (1, 37) = some 150 := by
  have T := worldGraph_ties (u := fleetU) (immune := specImmune) (limited := specLimited) (pen := fleetPen)
    (by decide)
  have inv := micro_inv_run T (by decide) fleet_wf.2.1 fleet_wf.2.2.1 fleet_wf.2.2.2.1 fleet_wf.2.2.2.2.1
    fleet_wf.2.2.2.2.2 _ (wrunOK_of_errorFree T _ _ fleet_runOK)
  have h := read_stable_world (u := fleetU) (coherent_of_inv inv) (fun n => n == (1, 37) || n == (2, 2469))
  have he := (reads_erasable_world (u := fleetU) (by decide) fleet_wf.2.1 fleet_wf.2.2.1 fleet_wf.2.2.2.1
    fleet_wf.2.2.2.2.1 fleet_wf.2.2.2.2.2 fleetHist fleet_runOK _ _ rfl rfl).2.2.2.1
  have ht : valToOption (World.read (evalAll fleetU fleetCfg specImmune specLimited fleetPen) fleetShip1 37) =
      some 150 := by decide +kernel
  refine ⟨h.2.2.1, ?_, h.2.2.2.1 _ rfl, ?_⟩
  · -- the final read does not cover `(1, 37)`, and the messages before it cache nothing
    have hk : (wrun fleetU fleetW fleetS0 fleetHist).cache (1, 37) =
        (wrun fleetU fleetW fleetS0 (eraseReads fleetHist)).cache (1, 37) := rfl
    rw [hk]; exact he _
  · exact (world_read_eq_table_buff (by decide) fleet_wf.2.1 fleet_wf.2.2.1 (by decide) fleet_wf.2.2.2.1
      fleet_wf.2.2.2.2.1 fleet_wf.2.2.2.2.2 fleetHist fleet_runOK _ rfl fleet_hset
      (by decide +kernel) (x := fleetShip1) List.mem_cons_self (am := ⟨37, none, none, true, true⟩)
      (List.mem_cons_of_mem _ (List.mem_cons_of_mem _ List.mem_cons_self))).trans ht

end Eos.C09World
