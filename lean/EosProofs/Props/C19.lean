import EosModel.ModInfo
import EosGen.ModInfoTable
import EosProofs.Lemmas.ModInfoBlocks0
import EosProofs.Lemmas.ModInfoBlocks1
import EosProofs.Lemmas.ModInfoBlocks2
import EosProofs.Lemmas.ModInfoBlocks3
import EosProofs.Lemmas.ModInfoBlocks4
import EosProofs.Lemmas.ModInfoRows
/-! # C19 — modifier info conversion is total and faithful

Property theorems only.  `EosGen.ModInfoTable` is regenerated on every run by running the real
`ModInfoconverter.convert` / `ModBuilder().build` on every one-entry list of the complete product
function x domain x operation x id shapes, so the first four theorems are about what the code does
now; the others hold for modifier-info lists of any length and content. -/
namespace Eos.C19
open Eos.ModInfo EosGen.ModInfoTable

/-! ## Tie to the source: generated tables = specification -/

/-- Every row of the per-entry table obtained from the real code — outcome of the conversion (build
    failure, or all eight modifier fields and the validation verdict) and what `ModBuilder().build`
    returns for the one-entry list — is what `convertEntry`, `valid` and `build` say. -/
theorem table_matches_spec :
    (∀ b ∈ blocks0 ++ blocks1 ++ blocks2 ++ blocks3 ++ blocks4, blockOk b = true) ∧ rowsOk rows = true := by
  refine ⟨fun b hb => ?_, rows_ok⟩
  simp only [List.mem_append] at hb
  rcases hb with (((h | h) | h) | h) | h
  · exact List.all_eq_true.mp blocks0_ok b h
  · exact List.all_eq_true.mp blocks1_ok b h
  · exact List.all_eq_true.mp blocks2_ok b h
  · exact List.all_eq_true.mp blocks3_ok b h
  · exact List.all_eq_true.mp blocks4_ok b h

/-- The table is the complete product: one block (all id-shape patterns of the function) for each of
    5 handled functions x 8 domains x 11 operations, and the rows for unknown / missing function x
    8 domains x 11 operations and a non-dict entry come first in the row table. -/
theorem table_complete :
    (blocks0 ++ blocks1 ++ blocks2 ++ blocks3 ++ blocks4).map (·.1) = productHeaders ∧
    (((rows.flatMap unpack).map (·.1)).take productRowCodes.length == productRowCodes) = true := by
  constructor <;> decide +kernel

/-- The status the real builder reports for lists of a valid, b convertible-but-invalid and c failing
    entries (a, b, c < 4, two arrangements) is `statusOf`, all valid entries are emitted, and all 64
    count triples are present. -/
theorem status_grid_matches_spec :
    statusGrid.all statusRowOk = true ∧
    (List.range 4).all (fun a => (List.range 4).all fun b => (List.range 4).all fun c =>
      statusGrid.any fun r => r.1 == a && r.2.1 == b && r.2.2.1 == c) = true := by
  constructor <;> decide +kernel

/-- Absent, None and empty modifier info: nothing to do is a success without modifiers, as `build []`. -/
theorem empty_cases_match_spec :
    emptyCases.map (·.1) = [0, 1, 2, 3] ∧
    emptyCases.all (fun r => r.2.1 == (build []).status.code && r.2.2 == (build []).mods.length) = true := by
  constructor <;> decide +kernel

/-- The build view checked per row is the view of `build` on the one-entry list. -/
theorem buildView_eq (e : Entry) : buildView e = viewOf (convertEntry e) := by
  unfold buildView build convert
  cases h : convertEntry e with
  | none => simp [convert, viewOf, statusOf, Status.code]
  | some m => cases hv : valid m <;> simp [convert, viewOf, statusOf, Status.code, hv]

/-! ## Entries are independent -/

theorem convert_nil : convert [] = ([], 0) := rfl

/-- One more entry in front adds its modifier or one failure and leaves the rest alone. -/
theorem convert_cons (e : Entry) (es : List Entry) :
    convert (e :: es) = match convertEntry e with
      | some m => (m :: (convert es).1, (convert es).2)
      | none => ((convert es).1, (convert es).2 + 1) := by
  simp only [convert]; cases convertEntry e <;> rfl

/-- Conversion of a concatenation: modifiers concatenate, failures add up. -/
theorem convert_append (a b : List Entry) :
    convert (a ++ b) = ((convert a).1 ++ (convert b).1, (convert a).2 + (convert b).2) := by
  induction a with
  | nil => simp [convert]
  | cons e es ih =>
    simp only [List.cons_append, convert_cons, ih]
    cases convertEntry e <;> simp <;> omega

/-- So the per-entry table lifts to every list: the converted modifiers are the per-entry outcomes in
    entry order, the failure count is the number of entries without outcome. -/
theorem convert_eq_filterMap (es : List Entry) :
    (convert es).1 = es.filterMap convertEntry ∧
    (convert es).2 = es.countP (fun e => (convertEntry e).isNone) := by
  induction es with
  | nil => exact ⟨rfl, rfl⟩
  | cons e es ih =>
    rw [convert_cons]
    cases h : convertEntry e <;> simp [h, ih.1, ih.2]

/-! ## Well-formed entries -/

/-- A well-formed entry (handled function, handled domain string, operation code -1..7, every id the
    function reads convertible by `int()`) becomes the modifier with the corresponding filter, domain,
    operator and ids; it stacks and has no aggregate key. -/
theorem wellformed_one_modifier (f : Func) (dom : DomainField) (op : OpField) (g s t m : IdShape)
    (d : Domain) (x : Option Int) (tv mv : Int) (o : Operator)
    (hd : domainOf dom = some d) (hx : extraOf f g s = some x) (ht : t.toInt? = some tv)
    (ho : operatorOf op = some o) (hm : m.toInt? = some mv) :
    convertEntry (.dict (.known f) dom op g s t m) = some ⟨filterOf f, d, x, tv, o, .stack, none, mv⟩ := by
  simp [convertEntry, hd, hx, ht, ho, hm]

/-- Conversely a modifier only ever comes from such an entry, with exactly these fields. -/
theorem modifier_only_from_wellformed (e : Entry) (md : Modifier) (h : convertEntry e = some md) :
    ∃ f dom op g s t m, e = .dict (.known f) dom op g s t m ∧
      md.filter = filterOf f ∧ domainOf dom = some md.domain ∧ extraOf f g s = some md.extra ∧
      t.toInt? = some md.tgtAttr ∧ operatorOf op = some md.op ∧ m.toInt? = some md.srcAttr ∧
      md.agg = .stack ∧ md.aggKey = none := by
  cases e with
  | nonDict => simp [convertEntry] at h
  | dict fn dom op g s t m =>
    cases fn with
    | unknown => simp [convertEntry] at h
    | missing => simp [convertEntry] at h
    | known f =>
      refine ⟨f, dom, op, g, s, t, m, rfl, ?_⟩
      simp only [convertEntry] at h
      split at h
      · rename_i d x tv o mv hd hx ht ho hm
        cases h
        exact ⟨rfl, hd, hx, ht, ho, hm, rfl, rfl⟩
      · cases h

/-- The extra argument is the group id for `LocationGroupModifier`, the skill type id for the two
    skill-requirement functions, and absent for the two others (which ignore both fields). -/
theorem extraOf_spec (g s : IdShape) :
    extraOf .item g s = some none ∧ extraOf .location g s = some none ∧
    extraOf .locationGroup g s = g.toInt?.map some ∧
    extraOf .locationSkill g s = s.toInt?.map some ∧ extraOf .ownerSkill g s = s.toInt?.map some :=
  ⟨rfl, rfl, rfl, rfl, rfl⟩

/-- Function names, domain strings and operation codes mean what the vocabulary says. -/
theorem vocabulary :
    (filterOf .item = .item ∧ filterOf .location = .domain ∧ filterOf .locationGroup = .domainGroup ∧
      filterOf .locationSkill = .domainSkillrq ∧ filterOf .ownerSkill = .ownerSkillrq) ∧
    (domainOf .null = some .self ∧ domainOf .itemID = some .self ∧ domainOf .charID = some .character ∧
      domainOf .shipID = some .ship ∧ domainOf .targetID = some .target ∧ domainOf .otherID = some .other ∧
      domainOf .unknown = none ∧ domainOf .missing = none) ∧
    ([-1, 0, 1, 2, 3, 4, 5, 6, 7].map operatorOfCode = [some .preAssign, some .preMul, some .preDiv,
      some .modAdd, some .modSub, some .postMul, some .postDiv, some .postPercent, some .postAssign]) ∧
    (∀ c : Int, c < -1 ∨ 7 < c → operatorOfCode c = none) := by
  refine ⟨⟨rfl, rfl, rfl, rfl, rfl⟩, ⟨rfl, rfl, rfl, rfl, rfl, rfl, rfl, rfl⟩, by decide, ?_⟩
  intro c hc
  unfold operatorOfCode
  repeat' split
  all_goals first | rfl | omega

/-! ## Malformed entries are counted and nothing aborts -/

/-- The emitted modifiers are the entries' contributions in entry order: each entry yields at most one
    modifier, the order of the modifiers is the order of the entries. -/
theorem build_mods (es : List Entry) : (build es).mods = es.filterMap emitted := by
  simp only [build, (convert_eq_filterMap es).1, List.filter_filterMap]
  rfl

/-- Only modifiers that pass validation are emitted. -/
theorem only_valid_emitted (es : List Entry) : ∀ m ∈ (build es).mods, valid m = true := by
  intro m hm
  simp only [build] at hm
  exact (List.mem_filter.mp hm).2

/-- Every entry is either emitted as exactly one modifier or counted as exactly one failure; `build` is
    a total function (no entry aborts it). -/
theorem malformed_counts_fail (es : List Entry) :
    (build es).mods.length + failures es = es.length := by
  rw [build_mods, failures]
  induction es with
  | nil => rfl
  | cons e es ih =>
    cases h : emitted e <;> simp [h] <;> omega

/-- A failing entry anywhere in the list does not disturb the modifiers of the other entries. -/
theorem failing_entry_is_skipped (a b : List Entry) (e : Entry) (h : emitted e = none) :
    (build (a ++ e :: b)).mods = (build (a ++ b)).mods ∧ failures (a ++ e :: b) = failures (a ++ b) + 1 := by
  simp [build_mods, failures, List.filterMap_append, h, List.countP_append]
  omega

/-- The two failure counters of the builder add up to `failures`. -/
theorem failure_counts (es : List Entry) :
    (convert es).2 + ((convert es).1.filter (fun m => !valid m)).length = failures es := by
  induction es with
  | nil => rfl
  | cons e es ih =>
    have hc : failures (e :: es) = failures es + if (emitted e).isNone then 1 else 0 := by
      simp [failures, List.countP_cons]
    rw [convert_cons, hc, ← ih]
    cases h : convertEntry e with
    | none => simp [emitted, h]; omega
    | some m => cases hv : valid m <;> simp [emitted, h, hv, Option.filter] <;> omega

/-! ## Status -/

/-- Build status exactly according to the counts: success iff nothing failed (an empty list included),
    partial success iff something failed and something was emitted, error iff something failed and nothing
    was emitted; never skipped or custom. -/
theorem status_by_counts (es : List Entry) :
    ((build es).status = .success ↔ failures es = 0) ∧
    ((build es).status = .successPartial ↔ failures es ≠ 0 ∧ (build es).mods.length ≠ 0) ∧
    ((build es).status = .error ↔ failures es ≠ 0 ∧ (build es).mods.length = 0) ∧
    (build es).status ≠ .skipped ∧ (build es).status ≠ .custom := by
  have hf := failure_counts es
  simp only [build, statusOf] at *
  generalize (convert es).2 = a at *
  generalize ((convert es).1.filter fun m => !valid m).length = b at *
  generalize ((convert es).1.filter valid).length = n at *
  have hab : (a = 0 ∧ b = 0) ↔ failures es = 0 := by omega
  by_cases h0 : a = 0 ∧ b = 0
  · have := hab.mp h0
    simp [h0, this]
  · have : failures es ≠ 0 := fun h => h0 (hab.mpr h)
    by_cases hn : n = 0 <;> simp [h0, hn, this]

/-- With all entries well-formed and valid the build is a success with one modifier per entry. -/
theorem all_emitted_success (es : List Entry) (h : ∀ e ∈ es, (emitted e).isSome) :
    (build es).status = .success ∧ (build es).mods.length = es.length := by
  have hz : failures es = 0 := by
    simp only [failures, List.countP_eq_zero]
    intro e he
    simpa using Option.isSome_iff_ne_none.mp (h e he)
  refine ⟨(status_by_counts es).1.mpr hz, ?_⟩
  have := malformed_counts_fail es
  omega

/-- Which converted modifiers pass validation: an item filter on any domain, the three location filters
    on every domain but `other`, the owner filter on the character only. -/
theorem converted_valid_iff (e : Entry) (m : Modifier) (h : convertEntry e = some m) :
    valid m = true ↔
      (m.filter = .item ∨
       ((m.filter = .domain ∨ m.filter = .domainGroup ∨ m.filter = .domainSkillrq) ∧ m.domain ≠ .other) ∨
       (m.filter = .ownerSkillrq ∧ m.domain = .character)) := by
  obtain ⟨f, dom, op, g, s, t, mm, rfl, hf, -, hx, -, -, -, hagg, hkey⟩ := modifier_only_from_wellformed e m h
  cases f <;> simp only [extraOf, filterOf] at hx hf
  case item =>
    have : m.extra = none := by simpa using hx.symm
    simp [valid, hf, hagg, hkey, this]
  case location =>
    have : m.extra = none := by simpa using hx.symm
    simp [valid, hf, hagg, hkey, this]
  case locationGroup =>
    cases hg : g.toInt? <;> simp [hg] at hx
    simp [valid, hf, hagg, hkey, ← hx]
  case locationSkill =>
    cases hg : s.toInt? <;> simp [hg] at hx
    simp [valid, hf, hagg, hkey, ← hx]
  case ownerSkill =>
    cases hg : s.toInt? <;> simp [hg] at hx
    simp [valid, hf, hagg, hkey, ← hx]

/-! ## Non-vacuity -/

example : convertEntry okEntry = some ⟨.domainGroup, .ship, some 55, 30, .postPercent, .stack, none, 41⟩ := by decide
example : (convertEntry invalidEntry).isSome = true ∧ emitted invalidEntry = none := by decide
example : convertEntry badEntry = none ∧ convertEntry .nonDict = none := by decide
example : build [okEntry, badEntry, okEntry, invalidEntry] =
    ⟨[⟨.domainGroup, .ship, some 55, 30, .postPercent, .stack, none, 41⟩,
      ⟨.domainGroup, .ship, some 55, 30, .postPercent, .stack, none, 41⟩], .successPartial⟩ := by decide
example : (build [badEntry, invalidEntry]).status = .error ∧ (build [okEntry]).status = .success ∧
    (build []).status = .success := by decide
example : failures [okEntry, badEntry, okEntry, invalidEntry] = 2 := by decide

end Eos.C19
