import EosProofs.Props.C11Keyed
/-! C11 / C01, register level: direct ship-domain affector specs are never lost or duplicated by ship changes — after
    every history they sit exactly where the register looks for them, and when none is registered both stores are
    empty dicts. -/
namespace Eos.Keyed

/-- a store all of whose keys equal `a` is `[]` or a single bucket -/
theorem single_key {s : Store} {a : Nat} (hn : (keys s).Nodup) (hk : ∀ k ∈ keys s, k = a) :
    s = [] ∨ ∃ b, s = [(a, b)] := by
  cases s with
  | nil => exact Or.inl rfl
  | cons p s =>
    obtain ⟨k, b⟩ := p
    have hka : k = a := hk k (by simp [keys])
    subst hka
    have hc := keys_nodup_cons.1 hn
    cases s with
    | nil => exact Or.inr ⟨b, rfl⟩
    | cons q s =>
      obtain ⟨k', b'⟩ := q
      have : k' = k := hk k' (by simp [keys])
      subst this
      exact absurd (by simp [keys]) hc.1

/-- where the specs are: under the fit key while there is no ship, under the ship while there is one -/
def AffReg.Shape (r : AffReg) : Prop :=
  match r.ship with
  | some s => r.awaiting = [] ∧ ∀ k ∈ keys r.active, k = s
  | none => r.active = [] ∧ ∀ k ∈ keys r.awaiting, k = 0

def AffReg.WF (r : AffReg) : Prop :=
  Inv r.awaiting ∧ Inv r.active ∧ NoEmpty r.awaiting ∧ NoEmpty r.active ∧ r.Shape

/-- the specs the register holds (what `get_affector_specs(ship)` would find, or what waits for a ship) -/
def AffReg.held (r : AffReg) (x : Nat) : Prop :=
  match r.ship with
  | some s => x ∈ bucket r.active s
  | none => x ∈ bucket r.awaiting 0

theorem wf_init : ({} : AffReg).WF :=
  ⟨⟨by simp [keys], by simp⟩, ⟨by simp [keys], by simp⟩, by simp [NoEmpty], by simp [NoEmpty], by simp [AffReg.Shape, keys]⟩

theorem wf_regSpec {r : AffReg} (x : Nat) (h : r.WF) : (r.regSpec x).WF := by
  obtain ⟨h1, h2, h3, h4, h5⟩ := h
  unfold AffReg.regSpec
  cases hs : r.ship with
  | none =>
    simp only [AffReg.Shape, hs] at h5
    refine ⟨inv_addEntry h1, h2, noEmpty_addEntry h3, h4, ?_⟩
    simp only [AffReg.Shape, hs]
    exact ⟨h5.1, fun k hk => by rcases mem_keys_addEntry.1 hk with hk | hk; exact h5.2 k hk; exact hk⟩
  | some s =>
    simp only [AffReg.Shape, hs] at h5
    refine ⟨h1, inv_addEntry h2, h3, noEmpty_addEntry h4, ?_⟩
    simp only [AffReg.Shape, hs]
    exact ⟨h5.1, fun k hk => by rcases mem_keys_addEntry.1 hk with hk | hk; exact h5.2 k hk; exact hk⟩

theorem wf_unregSpec {r : AffReg} (x : Nat) (h : r.WF) : (r.unregSpec x).WF := by
  obtain ⟨h1, h2, h3, h4, h5⟩ := h
  unfold AffReg.unregSpec
  cases hs : r.ship with
  | none =>
    simp only [AffReg.Shape, hs] at h5
    refine ⟨inv_rmEntry h1, h2, noEmpty_rmEntry h3, h4, ?_⟩
    simp only [AffReg.Shape, hs]
    exact ⟨h5.1, fun k hk => h5.2 k (mem_keys_rmEntry hk)⟩
  | some s =>
    simp only [AffReg.Shape, hs] at h5
    refine ⟨h1, inv_rmEntry h2, h3, noEmpty_rmEntry h4, ?_⟩
    simp only [AffReg.Shape, hs]
    exact ⟨h5.1, fun k hk => h5.2 k (mem_keys_rmEntry hk)⟩

theorem diff_self (b : List Nat) : diff b b = [] := by
  apply List.eq_nil_iff_forall_not_mem.2; intro x hx; have := mem_diff.1 hx; exact this.2 this.1

theorem wf_regShip {r : AffReg} (s : Nat) (hn : r.ship = none) (h : r.WF) : (r.regShip s).WF := by
  obtain ⟨h1, h2, h3, h4, h5⟩ := h
  simp only [AffReg.Shape, hn] at h5
  obtain ⟨hact, hkeys⟩ := h5
  rcases single_key h1.1 hkeys with ha | ⟨b, ha⟩
  · -- nothing waits
    have : (r.regShip s) = { r with ship := some s } := by simp [AffReg.regShip, ha, bucket]
    rw [this]
    exact ⟨h1, h2, h3, h4, by simp [AffReg.Shape, ha, hact, keys]⟩
  · have hb : b ≠ [] := h3 (0, b) (by simp [ha])
    have hbn : b.Nodup := h1.2 (0, b) (by simp [ha])
    have hbe : b.isEmpty = false := by cases b with | nil => exact absurd rfl hb | cons _ _ => rfl
    have : (r.regShip s) = { ship := some s, awaiting := [], active := [(s, union [] b)] } := by
      simp [AffReg.regShip, ha, hact, bucket, hbe, rmSet, diff_self, addSet]
    rw [this]
    refine ⟨⟨by simp [keys], by simp⟩, ⟨by simp [keys], ?_⟩, by simp [NoEmpty], ?_, by simp [AffReg.Shape, keys]⟩
    · intro p hp; simp at hp; subst hp; exact nodup_union (by simp)
    · intro p hp; simp at hp; subst hp; exact union_ne_nil (Or.inr hb)

theorem wf_unregShip {r : AffReg} (h : r.WF) : r.unregShip.WF := by
  obtain ⟨h1, h2, h3, h4, h5⟩ := h
  unfold AffReg.unregShip
  cases hs : r.ship with
  | none => simp only []; exact ⟨h1, h2, h3, h4, h5⟩
  | some s =>
    simp only [AffReg.Shape, hs] at h5
    obtain ⟨haw, hkeys⟩ := h5
    rcases single_key h2.1 hkeys with ha | ⟨b, ha⟩
    · simp only [ha, keys, List.map_nil, List.contains_nil]
      exact ⟨h1, by rw [← ha]; exact h2, h3, by rw [← ha]; exact h4, by simp [AffReg.Shape, ha, haw, keys]⟩
    · have hb : b ≠ [] := h4 (s, b) (by simp [ha])
      have hbe : b.isEmpty = false := by cases b with | nil => exact absurd rfl hb | cons _ _ => rfl
      simp only [ha, haw, keys, List.map_cons, List.map_nil, List.contains_cons, beq_self_eq_true, Bool.true_or,
        if_true, bucket, hbe, delKey, addSet]
      simp only [Bool.false_eq_true, if_false]
      refine ⟨⟨by simp [keys], ?_⟩, ⟨by simp [keys], by simp⟩, ?_, by simp [NoEmpty], by simp [AffReg.Shape, keys]⟩
      · intro p hp; simp at hp; subst hp; exact nodup_union (by simp)
      · intro p hp; simp at hp; subst hp; exact union_ne_nil (Or.inr hb)

theorem wf_step {r : AffReg} (op : AffOp) (h : r.WF) : (r.step op).WF := by
  cases op with
  | regSpec x => exact wf_regSpec x h
  | unregSpec x => exact wf_unregSpec x h
  | regShip s =>
    simp only [AffReg.step]
    cases hs : r.ship with
    | none => simp; exact wf_regShip s hs h
    | some _ => simp; exact h
  | unregShip => exact wf_unregShip h

/-- the specs are where the register looks for them, after every history -/
theorem wf_run (ops : List AffOp) {r : AffReg} (h : r.WF) : (r.run ops).WF := by
  induction ops generalizing r with
  | nil => exact h
  | cons op ops ih => exact ih (wf_step op h)

/-- **no residue**: when the register holds no spec, both stores are empty dicts — whatever ships came and went -/
theorem park_no_residue (ops : List AffOp) (he : ∀ x, ¬ (({} : AffReg).run ops).held x) :
    (({} : AffReg).run ops).awaiting = [] ∧ (({} : AffReg).run ops).active = [] := by
  obtain ⟨h1, h2, h3, h4, h5⟩ := wf_run ops wf_init
  generalize ({} : AffReg).run ops = r at *
  unfold AffReg.held at he
  cases hs : r.ship with
  | none =>
    simp only [AffReg.Shape, hs] at h5 he
    refine ⟨?_, h5.1⟩
    rcases single_key h1.1 h5.2 with ha | ⟨b, ha⟩
    · exact ha
    · have hb : b ≠ [] := h3 (0, b) (by simp [ha])
      cases b with
      | nil => exact absurd rfl hb
      | cons y _ => exact absurd (by simp [ha, bucket]) (he y)
  | some s =>
    simp only [AffReg.Shape, hs] at h5 he
    refine ⟨h5.1, ?_⟩
    rcases single_key h2.1 h5.2 with ha | ⟨b, ha⟩
    · exact ha
    · have hb : b ≠ [] := h4 (s, b) (by simp [ha])
      cases b with
      | nil => exact absurd rfl hb
      | cons y _ => exact absurd (by simp [ha, bucket]) (he y)

/-! ### what is held follows the registrations, not the ships -/
theorem held_regSpec {r : AffReg} (x y : Nat) : (r.regSpec x).held y ↔ r.held y ∨ y = x := by
  unfold AffReg.regSpec AffReg.held
  cases hs : r.ship <;> simp [mem_bucket_addEntry]
theorem held_unregSpec {r : AffReg} (h : r.WF) (x y : Nat) : (r.unregSpec x).held y ↔ r.held y ∧ y ≠ x := by
  unfold AffReg.unregSpec AffReg.held
  cases hs : r.ship <;> simp [mem_bucket_rmEntry h.1, mem_bucket_rmEntry h.2.1]
theorem held_regShip {r : AffReg} (h : r.WF) (hn : r.ship = none) (s y : Nat) : (r.regShip s).held y ↔ r.held y := by
  obtain ⟨h1, h2, h3, h4, h5⟩ := h
  simp only [AffReg.Shape, hn] at h5
  rcases single_key h1.1 h5.2 with ha | ⟨b, ha⟩
  · simp [AffReg.regShip, AffReg.held, ha, hn, h5.1, bucket]
  · have hb : b ≠ [] := h3 (0, b) (by simp [ha])
    have hbe : b.isEmpty = false := by cases b with | nil => exact absurd rfl hb | cons _ _ => rfl
    simp [AffReg.regShip, AffReg.held, ha, hn, h5.1, bucket, hbe, addSet, mem_union]
theorem held_unregShip {r : AffReg} (h : r.WF) (y : Nat) : r.unregShip.held y ↔ r.held y := by
  obtain ⟨h1, h2, h3, h4, h5⟩ := h
  unfold AffReg.unregShip
  cases hs : r.ship with
  | none => simp
  | some s =>
    simp only [AffReg.Shape, hs] at h5
    rcases single_key h2.1 h5.2 with ha | ⟨b, ha⟩
    · simp [AffReg.held, ha, hs, h5.1, bucket, keys]
    · have hb : b ≠ [] := h4 (s, b) (by simp [ha])
      have hbe : b.isEmpty = false := by cases b with | nil => exact absurd rfl hb | cons _ _ => rfl
      simp [AffReg.held, ha, hs, h5.1, bucket, keys, hbe, delKey, addSet, mem_union]

example : (({} : AffReg).run [.regSpec 3, .regSpec 4, .regShip 7, .unregSpec 3, .unregShip, .regShip 8]).active = [(8, [4])] := by
  decide

end Eos.Keyed
