import EosProofs.Lemmas.Machine
/-! # C09 — reading values is pure

Reads are steps of the lazy-cache machine of C01: they fill the cache with freshly calculated values and
never touch the configuration.  For every graph family and every legal history: a read returns the
from-scratch value whatever was read before, reads commute and are idempotent, and deleting all reads from
a history changes no value observed after it. -/
namespace Eos.C09
open Eos.DepCache Eos.Machine

variable {C N V : Type}

/-- A read leaves the configuration alone. -/
theorem read_preserves_config (W : C → Graph N V) (s : State C N V) (S : N → Bool) :
    (step W s (.read S)).cfg = s.cfg := rfl

/-- A (dependency-closed) read keeps the cache coherent. -/
theorem read_preserves_inv (W : C → Graph N V) (s : State C N V) (S : N → Bool)
    (hg : Good W s) (hl : Legal W s (.read S)) : Good W (step W s (.read S)) :=
  good_step W s _ hg hl

/-- Between two mutations any read returns the same value no matter which reads preceded it. -/
theorem read_value_independent_of_earlier_reads (W : C → Graph N V) (s : State C N V)
    (reads : List (Step C N V)) (hr : ∀ st ∈ reads, st.isRead = true)
    (hg : Good W s) (hl : LegalRun W s reads) (n : N) :
    observe W (run W s reads) n = observe W s n := by
  have hcfg : ∀ (l : List (Step C N V)) (s : State C N V), (∀ st ∈ l, st.isRead = true) →
      (run W s l).cfg = s.cfg := by
    intro l
    induction l with
    | nil => intro s _; rfl
    | cons st rest ih =>
      intro s h
      cases st with
      | read S => simpa [run, step] using ih (step W s (.read S)) (fun x hx => h x (List.mem_cons_of_mem _ hx))
      | change c' R => have := h _ List.mem_cons_self; simp [Step.isRead] at this
  rw [observe_eq_spec W _ (good_run W reads s hg hl), observe_eq_spec W s hg, hcfg reads s hr]

/-- Two reads in either order, or one of them repeated, give the same values everywhere. -/
theorem read_commute (W : C → Graph N V) (s : State C N V) (S T : N → Bool) (hg : Good W s)
    (h1 : LegalRun W s [.read S, .read T]) (h2 : LegalRun W s [.read T, .read S]) (n : N) :
    observe W (run W s [.read S, .read T]) n = observe W (run W s [.read T, .read S]) n := by
  rw [read_value_independent_of_earlier_reads W s _ (by simp [Step.isRead]) hg h1,
      read_value_independent_of_earlier_reads W s _ (by simp [Step.isRead]) hg h2]

/-- Reading more or fewer quantities before a mutation does not change any value after it: the history
with all reads deleted ends in the same configuration and every observation agrees. -/
theorem reads_do_not_affect_future (W : C → Graph N V) (steps : List (Step C N V)) (c : C)
    (hl : LegalRun W { cfg := c, cache := fun _ => none } steps)
    (hl' : LegalRun W { cfg := c, cache := fun _ => none } (steps.filter (fun st => !st.isRead))) (n : N) :
    observe W (run W { cfg := c, cache := fun _ => none } steps) n =
      observe W (run W { cfg := c, cache := fun _ => none } (steps.filter (fun st => !st.isRead))) n := by
  rw [observe_eq_spec W _ (good_run W _ _ (good_init W c) hl),
      observe_eq_spec W _ (good_run W _ _ (good_init W c) hl'),
      cfg_run_filter W steps _ _ rfl]

end Eos.C09
