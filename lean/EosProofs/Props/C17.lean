import EosModel.SourceMgr
import EosProofs.Lemmas.SourceMgr
/-! # C17 — the source manager rebuilds the cache exactly when it must

Property theorems only, over the state-machine model `Eos.SourceMgr` of `eos/source/manager.py`
(`ev` = the engine version string `eos.__version__`).  All statements hold for every world,
every data version / cache fingerprint and every history of add/get/remove/list. -/
namespace Eos.C17
open Eos.SourceMgr

variable {γ : Type} (ev : String)

/-- Adding under a fresh alias rebuilds (runs the builder and `update_cache`) if and only if the data
    version is unknown or the cached fingerprint differs from `"<data version>_<engine version>"`. -/
theorem rebuild_iff (w : World γ) (a : String) (v : Option String) (o : γ) (c : Nat) (mk : Bool)
    (hfresh : a ∉ w.aliases) :
    (step ev w (.add a v o c mk)).2 = .added true ↔ (v = none ∨ (w.handlers c).fp ≠ some (formatFp ev v)) := by
  rw [step_add_fresh ev w a v o c mk hfresh]
  cases v <;> simp [needRebuild]

/-- ... and otherwise it returns without touching the builder or the cache handler. -/
theorem no_rebuild_iff (w : World γ) (a : String) (v : Option String) (o : γ) (c : Nat) (mk : Bool)
    (hfresh : a ∉ w.aliases) :
    (step ev w (.add a v o c mk)).2 = .added false ↔ (v ≠ none ∧ (w.handlers c).fp = some (formatFp ev v)) := by
  rw [step_add_fresh ev w a v o c mk hfresh]
  cases v <;> simp [needRebuild]

theorem not_rebuilt_keeps_caches (w : World γ) (a : String) (v : Option String) (o : γ) (c : Nat) (mk : Bool)
    (h : (step ev w (.add a v o c mk)).2 = .added false) : (step ev w (.add a v o c mk)).1.handlers = w.handlers := by
  by_cases ha : a ∈ w.aliases
  · rw [step_add_taken ev w a v o c mk ha]
  · rw [step_add_fresh ev w a v o c mk ha] at h ⊢
    simp_all

/-- After a rebuild the source serves the objects built from the current data, under the current fingerprint. -/
theorem rebuilt_serves_current_data (w : World γ) (a : String) (v : Option String) (o : γ) (c : Nat) (mk : Bool)
    (h : (step ev w (.add a v o c mk)).2 = .added true) :
    (step ev w (.add a v o c mk)).1.handlers c = ⟨some (formatFp ev v), o⟩ ∧
    (step ev w (.add a v o c mk)).1.lookup a = some c := by
  by_cases ha : a ∈ w.aliases
  · rw [step_add_taken ev w a v o c mk ha] at h; cases h
  · have hl := lookup_fresh w a ha
    rw [step_add_fresh ev w a v o c mk ha] at h ⊢
    simp only [Res.added.injEq] at h
    simp only [World.lookup] at hl
    simp [h, setHandler, World.lookup, lookup_snoc, hl]

/-- Whether it rebuilt or not, after a successful `add` the cache handler's fingerprint is the current one. -/
theorem after_add_fp_current (w : World γ) (a : String) (v : Option String) (o : γ) (c : Nat) (mk : Bool)
    (hfresh : a ∉ w.aliases) :
    ((step ev w (.add a v o c mk)).1.handlers c).fp = some (formatFp ev v) := by
  rw [step_add_fresh ev w a v o c mk hfresh]
  cases hr : needRebuild ev (w.handlers c).fp v
  · cases v <;> simp_all [needRebuild]
  · simp [setHandler]

/-- Adding again with unchanged (known) data does not rebuild: after a successful `add` with version
    `v` through cache handler `c`, and any history that does not hand `c` to another `add`, an `add` with
    the same version through `c` under any fresh alias leaves builder and cache alone. -/
theorem second_add_no_rebuild (w : World γ) (a a' : String) (v : String) (o o' : γ) (c : Nat) (mk mk' : Bool)
    (ops : List (Op γ)) (hfresh : a ∉ w.aliases) (hops : ∀ op ∈ ops, op.usesHandler c = false)
    (hfresh' : a' ∉ (run ev (step ev w (.add a (some v) o c mk)).1 ops).aliases) :
    (step ev (run ev (step ev w (.add a (some v) o c mk)).1 ops) (.add a' (some v) o' c mk')).2 = .added false := by
  rw [no_rebuild_iff ev _ a' (some v) o' c mk' hfresh', run_keeps_other_handlers ev _ ops c hops,
    after_add_fp_current ev w a (some v) o c mk hfresh]
  simp

/-- An unknown data version (`None`) rebuilds every time, whatever the cache holds. -/
theorem unknown_version_always_rebuilds (w : World γ) (a : String) (o : γ) (c : Nat) (mk : Bool)
    (hfresh : a ∉ w.aliases) : (step ev w (.add a none o c mk)).2 = .added true :=
  (rebuild_iff ev w a none o c mk hfresh).mpr (Or.inl rfl)

/-- Aliases are unique: adding under a taken alias raises `ExistingSourceError` and changes nothing
    (neither registry, default, nor any cache). -/
theorem alias_unique (w : World γ) (a : String) (v : Option String) (o : γ) (c : Nat) (mk : Bool)
    (h : a ∈ w.aliases) : step ev w (.add a v o c mk) = (w, .existingSourceError) :=
  step_add_taken ev w a v o c mk h

/-- ... so no history ever registers an alias twice. -/
theorem aliases_nodup (w : World γ) (ops : List (Op γ)) (h : w.aliases.Nodup) : (run ev w ops).aliases.Nodup := by
  induction ops generalizing w with
  | nil => exact h
  | cons op ops ih => exact ih _ (step_aliases_nodup ev w op h)

/-- The default source changes only when an `add` that succeeds asks for it, and then to the added source. -/
theorem default_only_on_request (w : World γ) (op : Op γ) :
    (step ev w op).1.default = w.default ∨
      ∃ a v o c, op = .add a v o c true ∧ a ∉ w.aliases ∧ (step ev w op).1.default = some (a, c) := by
  cases op with
  | add a v o ch mk =>
    by_cases ha : a ∈ w.aliases
    · left; rw [step_add_taken ev w a v o ch mk ha]
    · rw [step_add_fresh ev w a v o ch mk ha]
      cases mk
      · left; rfl
      · right; exact ⟨a, v, o, ch, rfl, ha, rfl⟩
  | get a => left; simp only [step]; split <;> rfl
  | remove a => left; simp only [step]; split <;> rfl
  | list => left; rfl

/-- get/remove/list (and add) are the operations of a plain finite map alias ↦ source: one step of the
    registry is one step of the map. -/
theorem registry_refines_map (w : World γ) (op : Op γ) : (step ev w op).1.lookup = specStep w.lookup op := by
  funext a'
  cases op with
  | add a v o ch mk =>
    by_cases hc : a ∈ w.aliases
    · have : w.lookup a ≠ none := (mem_aliases_iff w a).mp hc
      rw [step_add_taken ev w a v o ch mk hc]; simp [specStep, this]
    · have hn := lookup_fresh w a hc
      rw [step_add_fresh ev w a v o ch mk hc]
      simp only [World.lookup] at hn
      simp only [specStep, World.lookup, lookup_snoc, hn, true_and]
      by_cases ha : a' = a
      · subst ha; simp [hn]
      · simp only [ha, ite_false]; cases List.lookup a' w.sources <;> rfl
  | get a => simp only [step, specStep]; split <;> rfl
  | remove a =>
    simp only [step, specStep]
    split
    · simp [World.lookup, lookup_filter]
    · rename_i hc
      have hn := lookup_fresh w a (by simpa using hc)
      by_cases ha : a' = a
      · subst ha; simp [hn]
      · simp [ha]
  | list => rfl

/-- ... hence after any history the registry is the map obtained by replaying the history on a map. -/
theorem history_refines_map (w : World γ) (ops : List (Op γ)) :
    (run ev w ops).lookup = ops.foldl specStep w.lookup := by
  induction ops generalizing w with
  | nil => rfl
  | cons op ops ih => simp only [run, List.foldl_cons] at ih ⊢; rw [ih, registry_refines_map]

/-- `get` returns the source registered under the alias, or raises `UnknownSourceError`; state unchanged. -/
theorem get_reflects (w : World γ) (a : String) :
    step ev w (.get a) = (w, match w.lookup a with | some c => .source a c | none => .unknownSourceError) := by
  simp only [step]; split <;> simp_all

/-- `remove` succeeds exactly on registered aliases. -/
theorem remove_reflects (w : World γ) (a : String) :
    (step ev w (.remove a)).2 = (if w.lookup a ≠ none then .removed else .unknownSourceError) := by
  have := mem_aliases_iff w a
  simp only [step]
  split <;> simp_all

/-- `list` shows exactly the registered aliases. -/
theorem list_reflects (w : World γ) (a : String) :
    (step ev w .list).2 = .aliases w.aliases ∧ (a ∈ w.aliases ↔ w.lookup a ≠ none) :=
  ⟨rfl, mem_aliases_iff w a⟩

/-! ## Non-vacuity -/

def w0 : World Nat := ⟨fun _ => ⟨none, 0⟩, [], none⟩
/-- absent cache → rebuild; same data again → no rebuild; changed data → rebuild; taken alias → error. -/
example : (step "E" w0 (.add "a" (some "v1") 1 0 true)).2 = .added true := by decide
example : (step "E" (run "E" w0 [.add "a" (some "v1") 1 0 true, .remove "a"]) (.add "b" (some "v1") 2 0 false)).2
    = .added false := by decide
example : (step "E" (run "E" w0 [.add "a" (some "v1") 1 0 true]) (.add "b" (some "v2") 2 0 false)).2 = .added true := by
  decide
example : (step "E" (run "E" w0 [.add "a" (some "v1") 1 0 true]) (.add "a" (some "v1") 1 0 false)).2
    = .existingSourceError := by decide
example : (run "E" w0 [.add "a" (some "v1") 1 0 true, .add "b" none 2 1 false, .remove "a"]).default = some ("a", 0) := by
  decide

end Eos.C17
