import EosModel.Codec
import EosModel.Loader
import EosModel.SourceMgr
import EosProofs.Lemmas.Codec
import EosProofs.Lemmas.SourceMgr
/-! # C16 — a damaged cache file is detected and never half-used

Property theorems only, about `Eos.Loader.load parse file`: the memory of a `JsonCacheHandler`
constructed on a cache file, for **any** decoder `parse` of the file's bytes (`none` = reading,
bz2, utf-8 or json raised) and any file content whatsoever — truncated, flipped, zeroed or a valid
stream carrying unexpected JSON.  `full j` is the complete content of a well-structured tree `j`.

What is *not* provable here is a fact about bz2/json themselves: that a strict prefix (or a flipped
copy) of a written stream never decodes to a *different* well-structured tree.  The clause that
depends on it is `crash_during_write_partial`; the fact is covered by enumeration only. -/
namespace Eos.C16
open Eos.Codec Eos.Codec.PV Eos.Loader

/-- Either the handler is empty, or the file decoded to a tree `j` that is well structured and the
    handler holds exactly the complete content of `j`.  There is no third outcome (no exception, no
    partly filled memory). -/
theorem load_empty_or_complete {β : Type} (parse : β → Option PV) (file : Option β) :
    load parse file = Mem.empty ∨
      ∃ b j m, file = some b ∧ parse b = some j ∧ full j = some m ∧ load parse file = m := by
  cases file with
  | none => left; rfl
  | some b =>
    cases hp : parse b with
    | none => left; simp [load, hp]
    | some j =>
      have hf := full_eq_fill j
      rcases hr : fill Mem.empty j with ⟨m, ok⟩
      rw [hr] at hf
      cases ok
      · left; simp [load, hp, hr]; rfl
      · right; exact ⟨b, j, m, rfl, hp, by simpa [ok?] using hf, by simp [load, hp, hr]⟩

/-- The empty handler has no fingerprint ... -/
theorem empty_no_fingerprint : Mem.empty.fingerprint = .pnone ∧ fpOf Mem.empty = none := ⟨rfl, rfl⟩

/-- ... so a handler that reports any fingerprint holds the complete content of its file. -/
theorem fingerprint_implies_complete {β : Type} (parse : β → Option PV) (file : Option β)
    (h : fpOf (load parse file) ≠ none) :
    ∃ b j, file = some b ∧ parse b = some j ∧ full j = some (load parse file) := by
  rcases load_empty_or_complete parse file with he | ⟨b, j, m, hf, hp, hfull, hl⟩
  · rw [he] at h; exact absurd rfl h
  · exact ⟨b, j, hf, hp, by rw [hl]; exact hfull⟩

/-- The fingerprint is assigned last: if filling the memory cache fails anywhere, the fingerprint is
    still the one from before (`None` in the constructor), whatever was stored so far. -/
theorem fingerprint_last (m : Mem) (j : PV) (h : (fill m j).2 = false) : (fill m j).1.fingerprint = m.fingerprint := by
  have e := fill_eq m j
  rw [e] at h ⊢
  cases hb : (fill Mem.empty j).2
  · simp [Mem.setFp]
  · simp [hb] at h

/-- The complete content carries the tree's own fingerprint. -/
theorem complete_has_tree_fingerprint (j : PV) (m : Mem) (h : full j = some m) :
    j.get? "fingerprint" = some m.fingerprint := by
  simp only [full, Option.bind_eq_bind] at h
  cases h1 : loopO j "effects" stepEffect Mem.empty <;> simp [h1] at h
  rename_i m1
  cases h2 : loopO j "types" stepType m1 <;> simp [h2] at h
  rename_i m2
  cases h3 : loopO j "attrs" stepAttr m2 <;> simp [h3] at h
  rename_i m3
  cases h4 : loopO j "buff_templates" stepBuff m3 <;> simp [h4] at h
  cases h5 : j.get? "fingerprint" <;> simp [h5] at h
  subst h; rfl

/-- Nothing is skipped: in the complete content every element of each of the four lists of the tree
    went through its decompress-and-store step successfully (one failing element fails the whole load). -/
theorem complete_every_element_stored (j : PV) (m : Mem) (h : full j = some m) :
    ∀ ks ∈ [("effects", stepEffect), ("types", stepType), ("attrs", stepAttr), ("buff_templates", stepBuff)],
      ∃ ds, (j.get? ks.1).bind iter? = some ds ∧ ∀ d ∈ ds, ∃ m₀, (ks.2 m₀ d).isSome := by
  simp only [full, Option.bind_eq_bind] at h
  cases h1 : loopO j "effects" stepEffect Mem.empty <;> simp [h1] at h
  rename_i m1
  cases h2 : loopO j "types" stepType m1 <;> simp [h2] at h
  rename_i m2
  cases h3 : loopO j "attrs" stepAttr m2 <;> simp [h3] at h
  rename_i m3
  cases h4 : loopO j "buff_templates" stepBuff m3 <;> simp [h4] at h
  intro ks hks
  simp only [List.mem_cons, List.not_mem_nil, or_false] at hks
  rcases hks with rfl | rfl | rfl | rfl
  · exact loopO_all_steps j _ _ _ _ h1
  · exact loopO_all_steps j _ _ _ _ h2
  · exact loopO_all_steps j _ _ _ _ h3
  · exact loopO_all_steps j _ _ _ _ h4

/-- Well-formed JSON of the wrong structure (missing key, wrong container, short tuple, effect id a
    type mentions but the effect list lacks, unhashable id, ...) leaves the handler empty. -/
theorem wrong_structure_empty {β : Type} (parse : β → Option PV) (b : β) (j : PV) (hp : parse b = some j)
    (hw : full j = none) : load parse (some b) = Mem.empty := by
  rcases load_empty_or_complete parse (some b) with he | ⟨b', j', m, hf, hp', hfull, _⟩
  · exact he
  · cases hf; rw [hp] at hp'; cases hp'; rw [hw] at hfull; cases hfull

/-- An undecodable file (bad bz2 stream, bad utf-8, bad JSON, read error) leaves the handler empty. -/
theorem undecodable_empty {β : Type} (parse : β → Option PV) (b : β) (hp : parse b = none) :
    load parse (some b) = Mem.empty := by simp [load, hp]

/-- No file: empty. -/
theorem absent_empty {β : Type} (parse : β → Option PV) : load parse none = Mem.empty := rfl

/-- An empty (or fingerprint-less) handler makes `SourceManager.add` rebuild, whatever the data
    version is — so a damaged cache is regenerated. -/
theorem empty_cache_rebuilds {γ : Type} (ev : String) (w : SourceMgr.World γ) (a : String) (v : Option String) (o : γ)
    (c : Nat) (mk : Bool) (hfresh : a ∉ w.aliases) (hfp : (w.handlers c).fp = fpOf Mem.empty) :
    (SourceMgr.step ev w (.add a v o c mk)).2 = .added true := by
  rw [SourceMgr.step_add_fresh ev w a v o c mk hfresh, hfp]
  cases v <;> simp [SourceMgr.needRebuild, fpOf, Mem.empty]

/- Full statement for crashes of the non-atomic write: for every `k`, the handler constructed on the
   first `k` bytes of a written file is empty or holds the complete written data.  It needs a fact
   about bz2/json that has no model here: -/
/-- **partial**: under `hprefix` (a strict prefix of a written stream does not decode — enumerated on
    the real libraries for every prefix length of several files, not proved), a crash at any byte
    gives an empty handler, and a completed write gives the complete data. -/
theorem crash_during_write_partial {α : Type} (parse : List α → Option PV) (ser : PV → List α)
    (hjson : ∀ j, parse (ser j) = some j.norm)
    (hprefix : ∀ j k, k < (ser j).length → parse ((ser j).take k) = none) (j : PV) (k : Nat) :
    load parse (some (crashAt k (ser j))) = Mem.empty ∨
      (crashAt k (ser j) = ser j ∧ parse (crashAt k (ser j)) = some j.norm) := by
  by_cases hk : k < (ser j).length
  · left; exact undecodable_empty parse _ (hprefix j k hk)
  · right
    have : crashAt k (ser j) = ser j := List.take_of_length_le (Nat.le_of_not_lt hk)
    exact ⟨this, by rw [this]; exact hjson j⟩

/-! ## Non-vacuity -/

/-- A well-structured tree loads completely ... -/
example : (load (β := PV) some (some (.dict [("types", .list []), ("attrs", .list [.list [.int 1, .pnone, .real 0, .bool true, .bool true]]),
    ("effects", .list []), ("buff_templates", .list []), ("fingerprint", .str "v_1")]))).attrs.length = 1 := rfl
/-- ... a tree whose type mentions an effect the effect list lacks loads as empty (all four storages, no fingerprint) ... -/
example : fpOf (load (β := PV) some (some (.dict [("types", .list [.list [.int 1, .pnone, .pnone, .list [], .list [.int 9], .pnone, .list [], .list []]]),
    ("attrs", .list [.list [.int 1, .pnone, .real 0, .bool true, .bool true]]),
    ("effects", .list []), ("buff_templates", .list []), ("fingerprint", .str "v_1")]))) = none := rfl
/-- ... and so does one with a missing key, although its attribute list had already been stored. -/
example : (load (β := PV) some (some (.dict [("types", .list []), ("attrs", .list [.list [.int 1, .pnone, .real 0, .bool true, .bool true]]),
    ("effects", .list []), ("fingerprint", .str "v_1")]))).attrs.length = 0 := rfl

end Eos.C16
