import EosProofs.Lemmas.Machine
import EosModel.World
/-! # C14 — switching the data source equals rebuilding under the new source

Machine level: the source setter unloads every item (all caches are cleared) and loads them again, i.e. a
mutation whose removal set is *everything*; such a step is always legal, lands in a coherent state for the
new configuration, and switching back restores every observable value.  Spec level (`EosModel.World`):
without a source, or for a type the source does not know, an item has no attributes and runs nothing. -/
namespace Eos.C14
open Eos.DepCache Eos.Machine Eos.World

variable {C N V : Type}

/-- Clearing every cache entry is a legal removal set for any configuration change. -/
theorem clear_all_legal (W : C → Graph N V) (s : State C N V) (c' : C) :
    Legal W s (.change c' (fun _ => true)) := by
  refine ⟨?_, ?_, ?_⟩ <;> intro n _ h <;> cases h

/-- After a source switch everything readable is the from-scratch value under the new source. -/
theorem setSource_eq_rebuild (W : C → Graph N V) (s : State C N V) (c' : C) (n : N) :
    observe W (step W s (.change c' (fun _ => true))) n = spec (W c') n := by
  unfold observe step restrict; simp

/-- Switching away and back restores every previously observable value. -/
theorem switch_back_restores (W : C → Graph N V) (s : State C N V) (hg : Good W s) (c' : C) (n : N) :
    observe W (run W s [.change c' (fun _ => true), .change s.cfg (fun _ => true)]) n = observe W s n := by
  rw [observe_eq_spec W s hg]
  simp [run, observe, step, restrict]

/-- Without a source nothing is loaded. -/
theorem no_source_unloaded (u : Universe) (cfg : Config) (h : cfg.hasSource = false) (x : Item) :
    loaded u cfg x = false ∧ runningEffects u cfg x = [] := by
  simp [loaded, itemType?, runningEffects, h]

/-- An item whose type the source does not know is unloaded and runs no effects. -/
theorem absent_type_unloaded (u : Universe) (cfg : Config) (x : Item) (h : type? u x.typeId = none) :
    loaded u cfg x = false ∧ runningEffects u cfg x = [] := by
  unfold loaded runningEffects itemType?
  cases cfg.hasSource <;> simp [h]

/-- An unloaded item reports no attributes (except a skill's level, which is an override of the item). -/
theorem unloaded_no_attrs (u : Universe) (cfg : Config) (immune limited : List Int) (pen : Nat → Rat)
    (rd : Reader) (x : Item) (am : AttrMeta) (h : loaded u cfg x = false)
    (hs : ¬ (x.kind = .skill ∧ am.id = 280)) :
    valueOf u cfg immune limited pen rd x am = .absent := by
  unfold valueOf
  have hk : (x.kind == Kind.skill && am.id == 280) = false := by
    by_cases h1 : x.kind = Kind.skill <;> by_cases h2 : am.id = 280 <;> simp_all
  rw [hk]
  simp only [Bool.false_eq_true, if_false]
  unfold loaded at h
  cases ht : itemType? u cfg x with
  | none => rfl
  | some t => simp [ht] at h

example : no_source_unloaded {} {} rfl ⟨1, .ship, 5, 1, 1, none, none, none, []⟩ = ⟨rfl, rfl⟩ := rfl

end Eos.C14
