import EosModel.WorldWF
import EosProofs.Lemmas.WorldWF
/-! # C10 — valid use never produces an internal error (attribute evaluation part)

Property theorems only.  In the world specification the only internal-error-like outcome is
`Val.notWF`: `readDep` returns it when an attribute with metadata is read before it has been computed,
which is what a cyclic attribute dependency amounts to (the real calculator would recurse without end).
The theorems say that `valueOf` never creates `notWF` (or `divZero`) out of thin air, and that for a
rank-well-formed universe (`rankWF`, decidable) no entry of `evalAll` and no public `read` is `notWF`,
for every configuration.  No `Nodup` hypothesis on attribute or item ids is needed. -/
namespace Eos.C10
open Eos.Calc Eos.World

section
variable (u : Universe) (cfg : Config) (immune limited : List Int) (pen : Nat → Rat)

/-- `valueOf` / `gather` / `resistOf` / `buffModifiers` never create `notWF`: it can only be an answer
of the reader, for `x` itself or a configured item, at an attribute id that is `readable` for `am`
(its max attribute, source attributes of modifiers targeting it, resistance attributes of the effects
involved, the warfare-buff attributes when a buff template targets it). -/
theorem valueOf_notWF_from_reader (rd : Reader) (x : Item) (am : AttrMeta)
    (h : valueOf u cfg immune limited pen rd x am = .notWF) :
    ∃ y a, rd y a = .notWF ∧ (y = x ∨ y ∈ cfg.items) ∧ a ∈ readable u am := by
  rcases valueOf_cases (u := u) (cfg := cfg) immune limited pen rd x am with ⟨v, h'⟩ | h' | h' | ⟨h', _⟩
  · rw [h] at h'; cases h'
  · rw [h] at h'; cases h'
  · rw [h] at h'; exact h'
  · rw [h] at h'; cases h'

/-- `divZero` is either propagated from the reader (same places) or `calculate` failed on the gathered
modifications, i.e. (`Eos.C02.divzero_iff`) some `pre_div`/`post_div` modification has value 0. -/
theorem valueOf_divZero_from_reader_or_calc (rd : Reader) (x : Item) (am : AttrMeta)
    (h : valueOf u cfg immune limited pen rd x am = .divZero) :
    (∃ y a, rd y a = .divZero ∧ (y = x ∨ y ∈ cfg.items) ∧ a ∈ readable u am) ∨
    ∃ tx b mods cap, itemType? u cfg x = some tx ∧ baseOf tx am = some b ∧
      gather u cfg immune rd x tx am.id = .ok mods ∧ capOf rd x am = .ok cap ∧
      calculate pen am.stackable am.hig b mods cap (limited.contains am.id) = .error .divZero := by
  rcases valueOf_cases (u := u) (cfg := cfg) immune limited pen rd x am with ⟨v, h'⟩ | h' | h' | ⟨_, h'⟩
  · rw [h] at h'; cases h'
  · rw [h] at h'; cases h'
  · rw [h] at h'; exact Or.inl h'
  · exact Or.inr h'

/-- All outcomes of `valueOf`: a number, absent, an answer of the reader at a readable id, or a
division by zero inside `calculate`. -/
theorem valueOf_outcomes (rd : Reader) (x : Item) (am : AttrMeta) :
    (∃ v, valueOf u cfg immune limited pen rd x am = .ok v) ∨
    valueOf u cfg immune limited pen rd x am = .absent ∨
    (∃ y a, rd y a = valueOf u cfg immune limited pen rd x am ∧ (y = x ∨ y ∈ cfg.items) ∧
      a ∈ readable u am) ∨
    valueOf u cfg immune limited pen rd x am = .divZero := by
  rcases valueOf_cases (u := u) (cfg := cfg) immune limited pen rd x am with h | h | h | ⟨h, _⟩
  · exact Or.inl h
  · exact Or.inr (Or.inl h)
  · exact Or.inr (Or.inr (Or.inl h))
  · exact Or.inr (Or.inr (Or.inr h))

/-- The decidable check is the declarative rank condition: for every split
`u.attrs = pre ++ am :: post`, every id readable for `am` that has metadata occurs in `pre`. -/
theorem rankWF_iff_spec : rankWF u = true ↔
    ∀ pre am post, u.attrs = pre ++ am :: post →
      ∀ a ∈ readable u am, (attrMeta? u a).isSome = true → a ∈ pre.map (·.id) :=
  rankWF_iff u

/-- For a rank-well-formed universe and ANY configuration no table entry is the internal error, … -/
theorem evalAll_no_notWF (h : rankWF u = true) :
    ∀ entry ∈ evalAll u cfg immune limited pen, entry.2 ≠ .notWF :=
  (evalAll_tableOK ((rankWF_iff u).1 h) immune limited pen).1

/-- … every (configured item, attribute with metadata) pair has an entry, … -/
theorem evalAll_total (h : rankWF u = true) (x : Item) (hx : x ∈ cfg.items) (am : AttrMeta)
    (ha : am ∈ u.attrs) :
    ∃ entry ∈ evalAll u cfg immune limited pen, entry.1 = (x.id, am.id) :=
  (evalAll_tableOK ((rankWF_iff u).1 h) immune limited pen).2 x hx am.id (List.mem_map.2 ⟨am, ha, rfl⟩)

/-- … and no public read of any item and attribute returns the internal error. -/
theorem read_no_notWF (h : rankWF u = true) (x : Item) (a : Int) :
    read (evalAll u cfg immune limited pen) x a ≠ .notWF :=
  read_ne_notWF (evalAll_no_notWF u cfg immune limited pen h) x a

end

/-! ## Non-vacuity -/

/-- A modifier chain 10 → 20 → 30 with 30 capped by 10, listed in rank order, is well-formed … -/
example : rankWF wfUniverse = true := by decide
/-- … and evaluates: 20 = 2·3 = 6, 30 = min (1 + 6) 3 = 3. -/
example : evalAll wfUniverse oneShipConfig specImmune specLimited (fun _ => 1) =
    [((1, 10), .ok 3), ((1, 20), .ok 6), ((1, 30), .ok 3)] := by decide +kernel
/-- The same universe listed in the wrong order is rejected. -/
example : rankWF { wfUniverse with attrs := wfUniverse.attrs.reverse } = false := by decide
/-- A 2-cycle is rejected, and its evaluation does contain the internal error. -/
example : rankWF cyclicUniverse = false := by decide
example : evalAll cyclicUniverse oneShipConfig specImmune specLimited (fun _ => 1) =
    [((1, 10), .notWF), ((1, 20), .notWF)] := by decide +kernel

end Eos.C10
