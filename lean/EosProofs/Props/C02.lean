import EosModel.World
import EosGen.Consts
import EosProofs.Lemmas.CalcBasic
import EosProofs.Lemmas.CalcRound
import EosProofs.Lemmas.CalcOps
import EosProofs.Lemmas.CalcWorld
import EosProofs.Lemmas.AffectsTable
import EosProofs.Lemmas.ResistTable
/-! # C02 — attribute values follow the dogma modification rules exactly

Property theorems only.  `Eos.Calc.calculate` / `Eos.World.valueOf` are the hand-written
specification; `EosGen.Consts` is regenerated from `eos/calculator/map.py`, `eos/const/*.py`,
`eos/eve_obj/effect/effect.py` on every run, so section A is about what the code says now. -/
namespace Eos.C02
open Eos.Calc Eos.World
open EosGen.Consts (modOperators penalizableOps assignmentOps additionOps multiplicationOps
  immuneCategories limitedPrecisionAttrs penaltyFactors aggregateModes affecteeFilters domains
  effectStateMap warfareBuffAttrs skillLevelAttr onlineEffectId currentSelfTypeId)

/-! ## A. The regenerated constants are the specification's -/

/-- "applied in operator-precedence order": the numeric order of `ModOperator` is the order the
specification folds in. -/
theorem gen_opOrder : modOperators.map (·.2) = opOrder := by decide

/-- `PENALIZABLE_OPERATORS` is the specification's `isPenalizable`. -/
theorem gen_penalizable (op : Nat) : op ∈ penalizableOps ↔ isPenalizable op = true := by
  simp [penalizableOps, isPenalizable]; omega

/-- `ASSIGNMENT_OPERATORS` is `isAssign`. -/
theorem gen_assignment (op : Nat) : op ∈ assignmentOps ↔ isAssign op = true := by
  simp [assignmentOps, isAssign]

/-- `ADDITION_OPERATORS` is `isAdd`. -/
theorem gen_addition (op : Nat) : op ∈ additionOps ↔ isAdd op = true := by
  simp [additionOps, isAdd]

/-- `MULTIPLICATION_OPERATORS` is `isMul`. -/
theorem gen_multiplication (op : Nat) : op ∈ multiplicationOps ↔ isMul op = true := by
  simp [multiplicationOps, isMul]; omega

/-- Every operator with a normalisation lambda belongs to exactly one of the three classes the final
loop distinguishes, and only multiplicative operators are penalizable. -/
theorem known_classified (op : Nat) (h : knownOp op = true) :
    (isAssign op = true ∨ isAdd op = true ∨ isMul op = true) ∧
    ¬ (isAssign op = true ∧ isAdd op = true) ∧ ¬ (isAssign op = true ∧ isMul op = true) ∧
    ¬ (isAdd op = true ∧ isMul op = true) ∧ (isPenalizable op = true → isMul op = true) := by
  rcases knownOp_cases h with h | h | h | h | h | h | h | h | h | h <;> subst h <;> decide

/-- `PENALTY_IMMUNE_CATEGORY_IDS` ("non-immune sources") is the set the world specification uses. -/
theorem gen_immune (c : Int) : c ∈ immuneCategories ↔ c ∈ specImmune := by
  simp [immuneCategories, specImmune]

/-- `LIMITED_PRECISION_ATTR_IDS` ("two-digit rounding of CPU/powergrid attributes"). -/
theorem gen_limited (a : Int) : a ∈ limitedPrecisionAttrs ↔ a ∈ specLimited := by
  simp [limitedPrecisionAttrs, specLimited]

/-- `NORMALIZATION_MAP`, lambda by lambda, is the specification's `normalize` on every known
operator and every value (a zero divisor is the error outcome on both sides). -/
theorem gen_normalize_eq (op : Nat) (v : Rat) (h : knownOp op = true) :
    (∀ r, EosGen.Consts.normalize op v = .ok r ↔ normalize op v = .ok r) ∧
    (EosGen.Consts.normalize op v = .divZero ↔ normalize op v = .error .divZero) ∧
    EosGen.Consts.normalize op v ≠ .unknownOp := by
  rcases knownOp_cases h with h | h | h | h | h | h | h | h | h | h <;> subst h <;>
    by_cases hv : v = 0 <;> simp [EosGen.Consts.normalize, normalize, hv]

/-- The operators without a normalisation lambda are exactly the ones the specification skips. -/
theorem gen_normalize_unknown (op : Nat) (v : Rat) :
    EosGen.Consts.normalize op v = .unknownOp ↔ knownOp op = false := by
  by_cases h : knownOp op = true
  · exact ⟨fun e => absurd e (gen_normalize_eq op v h).2.2, fun e => by rw [h] at e; cases e⟩
  · have h' : op = 0 ∨ 11 ≤ op := by
      simp only [knownOp, Bool.and_eq_true, decide_eq_true_eq] at h; omega
    refine ⟨fun _ => by simpa using h, fun _ => ?_⟩
    rcases h' with rfl | h'
    · rfl
    · obtain ⟨k, rfl⟩ := Nat.exists_eq_add_of_le h'
      rw [Nat.add_comm]; rfl

/-- The penalty table has the 11 entries `chainVal` can reach ("11-modifier cut-off"). -/
theorem gen_penalty_length : penaltyFactors.length = 11 := by decide
/-- The strongest modification of a chain is not penalised. -/
theorem gen_penalty_first : penOfList penaltyFactors 0 = 1 := by decide +kernel
/-- Every penalty factor lies in (0, 1]. -/
theorem gen_penalty_range : ∀ x ∈ penaltyFactors, 0 < x ∧ x ≤ 1 := by decide +kernel
/-- Penalty factors strictly decrease with the position in the chain. -/
theorem gen_penalty_decreasing : penaltyFactors.Pairwise (fun a b => b < a) := by decide +kernel

/-- `PENALTY_BASE` is the documented constant 0.8691199808… (= e^(−(1/2.67)²)) to ten decimals. -/
theorem gen_penalty_base :
    (8691199808 : Rat) / 10 ^ 10 < penOfList penaltyFactors 1 ∧
    penOfList penaltyFactors 1 < 8691199809 / 10 ^ 10 := by decide +kernel
/-- The factor at chain position `k` is `PENALTY_BASE ^ (k²)` (up to the rounding of the double power:
relative error below 2⁻⁴⁸). -/
theorem gen_penalty_formula : ∀ k < 11,
    |penOfList penaltyFactors k - penOfList penaltyFactors 1 ^ (k * k)| ≤
      penOfList penaltyFactors 1 ^ (k * k) / 2 ^ 48 := by decide +kernel

/-- `ModAggregateMode` numbers used by `contributions`. -/
theorem gen_aggregateModes : aggregateModes = [("stack", 1), ("minimum", 2), ("maximum", 3)] := by decide
/-- `ModAffecteeFilter` numbers used by `affectsLocal` / `passesFilter`. -/
theorem gen_affecteeFilters : affecteeFilters =
    [("item", 1), ("domain", 2), ("domain_group", 3), ("domain_skillrq", 4), ("owner_skillrq", 5)] := by decide
/-- `ModDomain` numbers used by `affectsLocal` / `resolveDomain`. -/
theorem gen_domains : domains =
    [("self", 1), ("character", 2), ("ship", 3), ("target", 4), ("other", 5)] := by decide
/-- `Effect.__effect_state_map` is `categoryState`. -/
theorem gen_effectStateMap (c s : Nat) : (c, s) ∈ effectStateMap ↔ categoryState c = some s := by
  simp only [effectStateMap, List.mem_cons, Prod.mk.injEq, List.not_mem_nil, or_false]
  rcases c with _ | _ | _ | _ | _ | _ | _ | _ | c <;> simp [categoryState] <;> omega
/-- Warfare buff attribute pairs, skill-level attribute, `online` effect, `current_self` marker. -/
theorem gen_misc : warfareBuffAttrs = [(2468, 2469), (2470, 2471), (2472, 2473), (2536, 2537)] ∧
    skillLevelAttr = 280 ∧ onlineEffectId = 16 ∧ currentSelfTypeId = -1 := by decide

/-! ## B. The gathering order is irrelevant -/

/-- The value depends on the multiset of gathered modifications only (set/dict iteration order of
affector registers cannot influence it; also the hash-order part of C08). -/
theorem calculate_perm (pen : Nat → Rat) (st hig : Bool) (base : Rat) {mods mods' : List Mod}
    (h : mods.Perm mods') (cap : Option Rat) (lim : Bool) :
    calculate pen st hig base mods cap lim = calculate pen st hig base mods' cap lim :=
  calculate_perm' pen st hig base h cap lim

/-! ## C. Degenerate inputs -/

/-- Without modifications the value is the base value, capped, and rounded iff limited. -/
theorem calculate_nil (pen : Nat → Rat) (st hig : Bool) (base : Rat) (cap : Option Rat) (lim : Bool) :
    calculate pen st hig base [] cap lim =
      .ok (let v := match cap with | some c => min base c | none => base
           if lim then round2 v else v) := by
  cases cap <;> simp [calculate_eq, foldOps_nil]

/-- A modification with an unknown operator is ignored. -/
theorem unknown_op_ignored (pen : Nat → Rat) (st hig : Bool) (base : Rat) (m : Mod) (mods : List Mod)
    (cap : Option Rat) (lim : Bool) (h : knownOp m.op = false) :
    calculate pen st hig base (m :: mods) cap lim = calculate pen st hig base mods cap lim := by
  unfold calculate; rw [normAll, if_neg (by simp [h])]

/-- The calculation fails exactly when some `pre_div` / `post_div` modification has value 0
(`ZeroDivisionError` in the normalisation lambda), wherever it stands in the list. -/
theorem divzero_iff (pen : Nat → Rat) (st hig : Bool) (base : Rat) (mods : List Mod)
    (cap : Option Rat) (lim : Bool) :
    calculate pen st hig base mods cap lim = .error .divZero ↔
      ∃ m ∈ mods, (m.op = 3 ∨ m.op = 8) ∧ m.value = 0 := by
  rw [calculate_eq]
  have : mods.any isBad = true ↔ ∃ m ∈ mods, (m.op = 3 ∨ m.op = 8) ∧ m.value = 0 := by
    rw [List.any_eq_true]
    refine exists_congr fun m => and_congr_right fun _ => ?_
    simp only [isBad, knownOp, Bool.and_eq_true, Bool.or_eq_true, beq_iff_eq, decide_eq_true_eq]
    constructor
    · rintro ⟨⟨_, h⟩, hv⟩; exact ⟨h, hv⟩
    · rintro ⟨h, hv⟩; exact ⟨⟨by omega, h⟩, hv⟩
  rw [← this]
  split <;> simp_all

/-- ... and otherwise it yields a value. -/
theorem ok_iff (pen : Nat → Rat) (st hig : Bool) (base : Rat) (mods : List Mod)
    (cap : Option Rat) (lim : Bool) :
    (∃ r, calculate pen st hig base mods cap lim = .ok r) ↔
      ¬ ∃ m ∈ mods, (m.op = 3 ∨ m.op = 8) ∧ m.value = 0 := by
  rw [← divzero_iff pen st hig base mods cap lim]
  cases calculate pen st hig base mods cap lim with
  | ok r => simp
  | error e => cases e; simp

/-! ## D. Operator semantics

One stack-mode modification with resistance factor 1 on base `b`.  For the penalizable operators
it is either not penalised (stackable attribute or immune source) or alone in its penalty chain
(`pen 0 = 1`, which holds for the live table by `gen_penalty_first`). -/

section ops
variable (pen : Nat → Rat) (st hig imm : Bool) (b v : Rat)

/-- `pre_assign` replaces the value. -/
theorem op_pre_assign :
    calculate pen st hig b [{ op := 1, value := v, immune := imm }] none false = .ok v := by
  rw [calculate_single' pen st hig b _ rfl rfl rfl (Or.inr (Or.inr (Or.inl rfl)))]
  cases hig <;> simp [applyOp, isAssign, normVal, normalize, maxList, minList]

/-- `pre_mul` multiplies. -/
theorem op_pre_mul (hp : st = true ∨ imm = true ∨ pen 0 = 1) :
    calculate pen st hig b [{ op := 2, value := v, immune := imm }] none false = .ok (b * v) := by
  rw [calculate_single' pen st hig b _ rfl rfl rfl
    (hp.imp id (Or.imp id Or.inr))]
  simp [applyOp, isAssign, isAdd, isMul, normVal, normalize, prodOnePlus]

/-- `pre_div` divides (a zero divisor is the error outcome, see `divzero_iff`). -/
theorem op_pre_div (hp : st = true ∨ imm = true ∨ pen 0 = 1) (hv : v ≠ 0) :
    calculate pen st hig b [{ op := 3, value := v, immune := imm }] none false = .ok (b / v) := by
  rw [calculate_single' pen st hig b _ rfl rfl (by simp [isBad, hv]) (hp.imp id (Or.imp id Or.inr))]
  simp [applyOp, isAssign, isAdd, isMul, normVal, normalize, prodOnePlus, hv]; ring

/-- `mod_add` adds. -/
theorem op_mod_add :
    calculate pen st hig b [{ op := 4, value := v, immune := imm }] none false = .ok (b + v) := by
  rw [calculate_single' pen st hig b _ rfl rfl rfl (Or.inr (Or.inr (Or.inl rfl)))]
  simp [applyOp, isAssign, isAdd, normVal, normalize, sumList]

/-- `mod_sub` subtracts. -/
theorem op_mod_sub :
    calculate pen st hig b [{ op := 5, value := v, immune := imm }] none false = .ok (b - v) := by
  rw [calculate_single' pen st hig b _ rfl rfl rfl (Or.inr (Or.inr (Or.inl rfl)))]
  simp [applyOp, isAssign, isAdd, normVal, normalize, sumList]; ring

/-- `post_mul` multiplies. -/
theorem op_post_mul (hp : st = true ∨ imm = true ∨ pen 0 = 1) :
    calculate pen st hig b [{ op := 6, value := v, immune := imm }] none false = .ok (b * v) := by
  rw [calculate_single' pen st hig b _ rfl rfl rfl (hp.imp id (Or.imp id Or.inr))]
  simp [applyOp, isAssign, isAdd, isMul, normVal, normalize, prodOnePlus]

/-- `post_mul_immune` multiplies (and is never penalised). -/
theorem op_post_mul_immune :
    calculate pen st hig b [{ op := 7, value := v, immune := imm }] none false = .ok (b * v) := by
  rw [calculate_single' pen st hig b _ rfl rfl rfl (Or.inr (Or.inr (Or.inl rfl)))]
  simp [applyOp, isAssign, isAdd, isMul, normVal, normalize, prodOnePlus]

/-- `post_div` divides. -/
theorem op_post_div (hp : st = true ∨ imm = true ∨ pen 0 = 1) (hv : v ≠ 0) :
    calculate pen st hig b [{ op := 8, value := v, immune := imm }] none false = .ok (b / v) := by
  rw [calculate_single' pen st hig b _ rfl rfl (by simp [isBad, hv]) (hp.imp id (Or.imp id Or.inr))]
  simp [applyOp, isAssign, isAdd, isMul, normVal, normalize, prodOnePlus, hv]; ring

/-- `post_percent` adds a percentage. -/
theorem op_post_percent (hp : st = true ∨ imm = true ∨ pen 0 = 1) :
    calculate pen st hig b [{ op := 9, value := v, immune := imm }] none false = .ok (b * (1 + v / 100)) := by
  rw [calculate_single' pen st hig b _ rfl rfl rfl (hp.imp id (Or.imp id Or.inr))]
  simp [applyOp, isAssign, isAdd, isMul, normVal, normalize, prodOnePlus]

/-- `post_assign` replaces the value. -/
theorem op_post_assign :
    calculate pen st hig b [{ op := 10, value := v, immune := imm }] none false = .ok v := by
  rw [calculate_single' pen st hig b _ rfl rfl rfl (Or.inr (Or.inr (Or.inl rfl)))]
  cases hig <;> simp [applyOp, isAssign, normVal, normalize, maxList, minList]

end ops

/-- "applied in operator-precedence order": the fold is the nested application in the order
1, 2, …, 10 (the numeric order of `ModOperator`, `gen_opOrder`). -/
theorem operator_order (pen : Nat → Rat) (hig : Bool) (cs : List (Nat × Rat × Bool)) (b : Rat) :
    foldOps pen hig cs b =
      applyOp hig 10 (opValues pen cs 10) (applyOp hig 9 (opValues pen cs 9)
      (applyOp hig 8 (opValues pen cs 8) (applyOp hig 7 (opValues pen cs 7)
      (applyOp hig 6 (opValues pen cs 6) (applyOp hig 5 (opValues pen cs 5)
      (applyOp hig 4 (opValues pen cs 4) (applyOp hig 3 (opValues pen cs 3)
      (applyOp hig 2 (opValues pen cs 2) (applyOp hig 1 (opValues pen cs 1) b))))))))) :=
  foldOps_order pen hig cs b

/-- Closed form: pre-assign (max/min by `high_is_good`) → Π pre-mul → Π pre-div → Σ add − Σ sub →
Π post-mul → Π post-mul-immune → Π post-div → Π post-percent → post-assign, each product / sum over
the unpenalised normalised values plus the penalised aggregate of that operator. -/
theorem calculate_eq_closedForm (pen : Nat → Rat) (hig : Bool) (cs : List (Nat × Rat × Bool)) (b : Rat) :
    foldOps pen hig cs b =
      (if hig then maxList (opValues pen cs 10) else minList (opValues pen cs 10)).getD
        ((((if hig then maxList (opValues pen cs 1) else minList (opValues pen cs 1)).getD b
            * prodOnePlus (opValues pen cs 2) * prodOnePlus (opValues pen cs 3)
            + sumList (opValues pen cs 4) + sumList (opValues pen cs 5))
          * prodOnePlus (opValues pen cs 6) * prodOnePlus (opValues pen cs 7)
          * prodOnePlus (opValues pen cs 8) * prodOnePlus (opValues pen cs 9))) :=
  foldOps_closed pen hig cs b

/-- `prodOnePlus` / `sumList` in the closed form are the plain product of `1 + v` and the plain sum. -/
theorem prod_sum_meaning (x : Rat) (xs : List Rat) :
    prodOnePlus [] = 1 ∧ prodOnePlus (x :: xs) = (1 + x) * prodOnePlus xs ∧
    sumList [] = 0 ∧ sumList (x :: xs) = x + sumList xs :=
  ⟨rfl, prodOnePlus_cons x xs, rfl, sumList_cons x xs⟩

/-- Concrete corollary, whatever the gathering order: `post_percent`, `mod_add`, `pre_mul` on a
stackable attribute give `(b·v₁ + v₂)·(1 + v₃/100)`. -/
theorem operator_order_example (pen : Nat → Rat) (hig : Bool) (b v1 v2 v3 : Rat) :
    calculate pen true hig b
      [{ op := 9, value := v3 }, { op := 4, value := v2 }, { op := 2, value := v1 }] none false =
      .ok ((b * v1 + v2) * (1 + v3 / 100)) := by
  rw [calculate_eq]
  have hc : contributions (List.map (nmOf true) (List.filter (fun m => knownOp m.op)
      [({ op := 9, value := v3 } : Mod), { op := 4, value := v2 }, { op := 2, value := v1 }])) =
      [(9, v3 / 100, false), (4, v2, false), (2, v1 - 1, false)] := by
    rw [contributions_all_stack _ (by simp [nmOf, knownOp])]
    simp [nmOf, knownOp, normVal, normalize]
  rw [hc, calculate_eq_closedForm]
  simp [isBad, opValues, maxList, minList, prodOnePlus, sumList]

/-- Assignments: the greatest value wins when `high_is_good`, the least otherwise. -/
theorem assign_picks (op : Nat) (h : isAssign op = true) (vs : List Rat) (hne : vs ≠ []) (value : Rat) :
    (∃ m, applyOp true op vs value = m ∧ m ∈ vs ∧ ∀ y ∈ vs, y ≤ m) ∧
    (∃ m, applyOp false op vs value = m ∧ m ∈ vs ∧ ∀ y ∈ vs, m ≤ y) := by
  rw [applyOp_assign true h, applyOp_assign false h]
  obtain ⟨m, hm⟩ := maxList_isSome hne
  obtain ⟨m', hm'⟩ := minList_isSome hne
  simp only [if_true, hm, Bool.false_eq_true, if_false, hm', Option.getD_some]
  exact ⟨⟨m, rfl, (maxList_spec vs m).1 hm⟩, ⟨m', rfl, (minList_spec vs m').1 hm'⟩⟩

/-- Concrete corollary: two `pre_assign` modifications. -/
theorem assign_two (pen : Nat → Rat) (st hig : Bool) (b v1 v2 : Rat) :
    calculate pen st hig b [{ op := 1, value := v1 }, { op := 1, value := v2 }] none false =
      .ok (if hig then max v1 v2 else min v1 v2) := by
  rw [calculate_eq]
  have hc : contributions (List.map (nmOf st) (List.filter (fun m => knownOp m.op)
      [({ op := 1, value := v1 } : Mod), { op := 1, value := v2 }])) =
      [(1, v1, false), (1, v2, false)] := by
    rw [contributions_all_stack _ (by simp [nmOf, knownOp])]
    simp [nmOf, knownOp, normVal, normalize, isPenalizable]
  rw [hc, calculate_eq_closedForm]
  cases hig <;> simp [isBad, opValues, maxList, minList, prodOnePlus, sumList]

/-! ## E. Stacking penalty -/

/-- The strongest modification of a chain is weighted by `pen 0`: with `pen 0 = 1`
(`gen_penalty_first`) a single penalised modification is in effect unpenalised. -/
theorem penalize_single_unpenalised (pen : Nat → Rat) (h0 : pen 0 = 1) (v : Rat) :
    penalize pen [v] = v := by
  rw [penalize_single, h0, mul_one]

/-- The `i`-th element (from 0) of a chain contributes the factor `1 + v·pen i` … -/
theorem chain_step (pen : Nat → Rat) (i : Nat) (v : Rat) (vs : List Rat) (h : i ≤ 10) :
    chainVal pen i (v :: vs) = (1 + v * pen i) * chainVal pen (i + 1) vs :=
  chainVal_cons_le pen i v vs h

/-- … and the 12th and further elements are ignored. -/
theorem chain_cutoff (pen : Nat → Rat) (l ex : List Rat) (h : 11 ≤ l.length) :
    chainVal pen 0 (l ++ ex) = chainVal pen 0 l :=
  chainVal_append_cut pen l ex 0 (by omega)

/-- The chains of `penalize` are sorted strongest first: the non-negative reduced multipliers in
descending order, the negative ones in ascending order (most negative first); both are
rearrangements of the respective inputs. -/
theorem chains_strongest_first (vs : List Rat) :
    (sortDesc (vs.filter fun v => decide (0 ≤ v))).Perm (vs.filter fun v => decide (0 ≤ v)) ∧
    (sortDesc (vs.filter fun v => decide (0 ≤ v))).Pairwise (fun a b => b ≤ a) ∧
    (sortAsc (vs.filter fun v => decide (v < 0))).Perm (vs.filter fun v => decide (v < 0)) ∧
    (sortAsc (vs.filter fun v => decide (v < 0))).Pairwise (fun a b => a ≤ b) :=
  ⟨sortDesc_perm _, sortDesc_pairwise _, sortAsc_perm _, sortAsc_pairwise _⟩

/-- The penalised aggregate, independently of the sorting algorithm: for ANY descending arrangement
`pos` of the non-negative values and ANY ascending arrangement `neg` of the negative ones it is
`chain(pos)·chain(neg) − 1`. -/
theorem penalize_formula (pen : Nat → Rat) (vs pos neg : List Rat)
    (hp : pos.Perm (vs.filter fun v => decide (0 ≤ v))) (hps : pos.Pairwise (fun a b => b ≤ a))
    (hn : neg.Perm (vs.filter fun v => decide (v < 0))) (hns : neg.Pairwise (fun a b => a ≤ b)) :
    penalize pen vs = chainVal pen 0 pos * chainVal pen 0 neg - 1 :=
  penalize_eq pen vs pos neg hp hps hn hns

/-- "stacking penalty for non-stackable attributes from non-immune sources": a modification is
penalised iff the attribute is not stackable, the source category is not immune and the operator is
penalizable. -/
theorem penalty_exempt (st : Bool) (m : Mod) (n : NMod) (h : normMod st m = .ok n) :
    n.pen = (!st && !m.immune && isPenalizable m.op) := by
  rw [normMod_eq] at h
  split at h
  · cases h
  · cases h; rfl

/-- Without penalised contributions every operator sees the plain list of values, and the penalty
table plays no role. -/
theorem unpenalised_plain (pen pen' : Nat → Rat) (hig : Bool) (cs : List (Nat × Rat × Bool)) (b : Rat)
    (h : ∀ c ∈ cs, c.2.2 = false) :
    (∀ op, opValues pen cs op = (cs.filter fun c => c.1 == op).map (·.2.1)) ∧
    foldOps pen hig cs b = foldOps pen' hig cs b := by
  refine ⟨fun op => opValues_no_pen pen cs op h, ?_⟩
  unfold foldOps
  congr 1; funext value op
  rw [opValues_no_pen pen cs op h, opValues_no_pen pen' cs op h]

/-- Concrete corollary: two equal non-negative `post_mul` bonuses `1 + v` from non-immune sources on a
non-stackable attribute give `b·(1 + v)·(1 + v·pen 1)`. -/
theorem two_equal_penalised (pen : Nat → Rat) (h0 : pen 0 = 1) (hig : Bool) (b v : Rat) (hv : 0 ≤ v) :
    calculate pen false hig b [{ op := 6, value := v + 1 }, { op := 6, value := v + 1 }] none false =
      .ok (b * ((1 + v) * (1 + v * pen 1))) := by
  rw [calculate_eq]
  have hc : contributions (List.map (nmOf false) (List.filter (fun m => knownOp m.op)
      [({ op := 6, value := v + 1 } : Mod), { op := 6, value := v + 1 }])) =
      [(6, v, true), (6, v, true)] := by
    rw [contributions_all_stack _ (by simp [nmOf, knownOp])]
    simp [nmOf, knownOp, normVal, normalize, isPenalizable]
  have hpz : penalize pen [v, v] = (1 + v * pen 0) * ((1 + v * pen 1) * 1) * 1 - 1 :=
    penalize_formula pen [v, v] [v, v] [] (by simp [hv]) (by simp) (by simp [not_lt.2 hv]) (by simp)
  rw [hc, calculate_eq_closedForm]
  simp [isBad, opValues, maxList, minList, prodOnePlus, sumList, hpz, h0]

/-! ## F. Minimum / maximum aggregation per key -/

/-- Aggregate-minimum: the pick is a member of the group, no member has a smaller value, and among
the members with that value an unpenalised one is preferred. -/
theorem aggregate_min_pick (l : List NMod) (v : Rat) (p : Bool) :
    pickMin l = some (v, p) ↔
      (∃ n ∈ l, n.v = v ∧ n.pen = p) ∧ ∀ n ∈ l, v < n.v ∨ (v = n.v ∧ (p = true → n.pen = true)) :=
  pickMin_spec l v p

/-- Aggregate-maximum: the pick is a member of the group, no member has a greater value, and among
the members with that value an unpenalised one is preferred. -/
theorem aggregate_max_pick (l : List NMod) (v : Rat) (p : Bool) :
    pickMax l = some (v, p) ↔
      (∃ n ∈ l, n.v = v ∧ n.pen = p) ∧ ∀ n ∈ l, n.v < v ∨ (v = n.v ∧ (p = true → n.pen = true)) :=
  pickMax_spec l v p

/-- "min/max aggregation per key": the contributions are all stack-mode modifications, then exactly
one pick for each distinct `(operator, key)` of the minimum mode and one for each of the maximum
mode (keys without repetition, each the key of some member; the pick is taken over the whole group). -/
theorem one_contribution_per_group (ns : List NMod) :
    contributions ns = ((ns.filter (·.agg == 1)).map fun n => (n.op, n.v, n.pen)) ++
      groupPart ns 2 pickMin ++ groupPart ns 3 pickMax ∧
    List.Forall₂ (fun k c => c.1 = k.1 ∧ pickMin (groupOf ns 2 k) = some c.2)
      (keysOf ns 2) (groupPart ns 2 pickMin) ∧
    List.Forall₂ (fun k c => c.1 = k.1 ∧ pickMax (groupOf ns 3 k) = some c.2)
      (keysOf ns 3) (groupPart ns 3 pickMax) ∧
    (∀ mode, (keysOf ns mode).Nodup ∧
      (∀ k, k ∈ keysOf ns mode ↔ ∃ n ∈ ns, n.agg = mode ∧ (n.op, n.key) = k) ∧
      ∀ k n, n ∈ groupOf ns mode k ↔ n ∈ ns ∧ n.agg = mode ∧ n.op = k.1 ∧ n.key = k.2) :=
  ⟨contributions_eq ns, groupPart_forall₂ ns 2 pickMin pickMin_isSome,
    groupPart_forall₂ ns 3 pickMax pickMax_isSome,
    fun mode => ⟨keysOf_nodup ns mode, mem_keysOf ns mode, mem_groupOf ns mode⟩⟩

/-! ## G. Resistance, cap, rounding -/

/-- "scaling by the target's resistance attribute": the normalised value is multiplied by the
resistance factor. -/
theorem resist_scaling (st : Bool) (m : Mod) (n : NMod) (h : normMod st m = .ok n) :
    ∃ r, normalize m.op m.value = .ok r ∧ n.v = r * m.resist ∧ n.op = m.op := by
  unfold normMod at h
  cases hn : normalize m.op m.value with
  | error e => rw [hn] at h; cases h
  | ok r => rw [hn] at h; cases h; exact ⟨r, rfl, rfl, rfl⟩

/-- Resistance factor 0 (100 % resistance) nullifies a stack-mode multiplicative modification: the
result is the value without it. -/
theorem resist_zero_nullifies (pen : Nat → Rat) (st hig : Bool) (b : Rat) (m : Mod) (mods : List Mod)
    (cap : Option Rat) (lim : Bool) (hm : isMul m.op = true) (hagg : m.agg = 1) (hr : m.resist = 0)
    (hv : (m.op = 3 ∨ m.op = 8) → m.value ≠ 0) :
    calculate pen st hig b (m :: mods) cap lim = calculate pen st hig b mods cap lim := by
  refine calculate_resist_zero pen st hig b m mods cap lim hm hagg hr ?_
  simp only [isBad, Bool.and_eq_false_imp, Bool.and_eq_true, Bool.or_eq_true, beq_iff_eq,
    decide_eq_false_iff_not]
  exact fun h => hv h.2

/-- "capping by the max attribute": the capped value is the minimum of the uncapped value and the cap. -/
theorem cap_eq_min (pen : Nat → Rat) (st hig : Bool) (b : Rat) (mods : List Mod) (c : Rat) :
    calculate pen st hig b mods (some c) false =
      (calculate pen st hig b mods none false).map fun v => min v c :=
  calculate_cap pen st hig b mods c

/-- A capped, unrounded value never exceeds its cap. -/
theorem cap_le (pen : Nat → Rat) (st hig : Bool) (b : Rat) (mods : List Mod) (c r : Rat)
    (h : calculate pen st hig b mods (some c) false = .ok r) : r ≤ c := by
  rw [cap_eq_min] at h
  cases hc : calculate pen st hig b mods none false with
  | error e => rw [hc] at h; cases h
  | ok v => rw [hc] at h; cases h; exact min_le_right _ _

/-- "two-digit rounding of CPU/powergrid attributes": rounding is the last step and happens only
for limited-precision attributes. -/
theorem round_only_limited (pen : Nat → Rat) (st hig : Bool) (b : Rat) (mods : List Mod) (cap : Option Rat) :
    calculate pen st hig b mods cap true = (calculate pen st hig b mods cap false).map round2 ∧
    ∀ lim, calculate pen st hig b mods cap lim =
      (calculate pen st hig b mods cap false).map fun v => if lim then round2 v else v :=
  ⟨by rw [calculate_lim]; rfl, fun lim => calculate_lim pen st hig b mods cap lim⟩

/-- `round2` is rounding to the nearest hundredth, ties to the even neighbour: `round2 x = r/100` with
`r` an integer at distance ≤ 1/2 from `100·x`, and `r` even when the distance is exactly 1/2. -/
theorem round2_spec (x : Rat) :
    (∃ r : Int, round2 x = (r : Rat) / 100 ∧ |(r : Rat) - x * 100| ≤ 1 / 2 ∧
      (|(r : Rat) - x * 100| = 1 / 2 → r % 2 = 0)) ∧
    (∃ k : Int, round2 x * 100 = (k : Rat)) ∧ |round2 x - x| ≤ 1 / 200 :=
  ⟨round2_char x, round2_mul_100_int x, round2_close x⟩

/-! ## H. World level: which value an item attribute has

`rd` is how dependencies (source attributes, resistance, cap, buff ids) are read; `evalAll` passes
the table of higher-ranked attributes.  `baseOf tx am` is the type's value of the attribute, else the
attribute default; `capOf rd x am` reads the max attribute on the same item (`EosProofs/Lemmas/CalcWorld`,
`valueOf_eq` shows `valueOf` is literally composed of them). -/

section world
variable (u : Universe) (cfg : Config) (immune limited : List Int) (pen : Nat → Rat) (rd : Reader)
  (x : Item) (am : AttrMeta)

/-- A skill's skill-level attribute is its level, whatever else is configured. -/
theorem skill_level (hk : x.kind = .skill) (ha : am.id = 280) :
    valueOf u cfg immune limited pen rd x am = (x.level.map Val.ok).getD .absent := by
  unfold valueOf; rw [if_pos (by simp [hk, ha])]; cases x.level <;> rfl

/-- "Items which are not loaded have no attributes at all". -/
theorem absent_not_loaded (hs : ¬ (x.kind = .skill ∧ am.id = 280)) (h : loaded u cfg x = false) :
    valueOf u cfg immune limited pen rd x am = .absent := by
  have ht : itemType? u cfg x = none := by simpa [loaded] using h
  rw [valueOf_eq, if_neg (by simpa using hs), ht]

/-- "an attribute without base and default value is absent". -/
theorem absent_without_base (hs : ¬ (x.kind = .skill ∧ am.id = 280)) (tx : ItemType)
    (ht : itemType? u cfg x = some tx) (hb : tx.attrs.find? (·.1 == am.id) = none)
    (hd : am.default = none) :
    valueOf u cfg immune limited pen rd x am = .absent := by
  have : baseOf tx am = none := by simp [baseOf, hb, hd]
  rw [valueOf_eq, if_neg (by simpa using hs), ht]; simp only [this]

/-- ... and only then: the value is absent exactly for an unset skill level, an item that is not
loaded, or an attribute with neither a base value on the item type nor a default (errors while
gathering, reading the cap or dividing are never reported as "absent"). -/
theorem absent_iff :
    valueOf u cfg immune limited pen rd x am = .absent ↔
      if x.kind = .skill ∧ am.id = 280 then x.level = none
      else ∀ tx, itemType? u cfg x = some tx → baseOf tx am = none :=
  valueOf_absent_iff immune limited pen rd x am

/-- What `baseOf` and `capOf` read. -/
theorem base_cap_reading (tx : ItemType) :
    (∀ p, tx.attrs.find? (·.1 == am.id) = some p → baseOf tx am = some p.2) ∧
    (tx.attrs.find? (·.1 == am.id) = none → baseOf tx am = am.default) ∧
    (am.maxAttr = none → capOf rd x am = .ok none) ∧
    (∀ mx, am.maxAttr = some mx →
      (∀ c, rd x mx = .ok c → capOf rd x am = .ok (some c)) ∧
      (rd x mx = .absent → capOf rd x am = .ok none) ∧
      (rd x mx = .divZero → capOf rd x am = .error .divZero) ∧
      (rd x mx = .notWF → capOf rd x am = .error .notWF)) := by
  refine ⟨fun p h => by simp [baseOf, h], fun h => by simp [baseOf, h], fun h => by simp [capOf, h],
    fun mx h => ⟨fun c hc => by simp [capOf, h, hc], fun hc => by simp [capOf, h, hc],
      fun hc => by simp [capOf, h, hc], fun hc => by simp [capOf, h, hc]⟩⟩

/-- The value of a loaded item's attribute is `calculate` of the base value, the gathered
modifications and the cap (division by zero reported as such). -/
theorem value_is_calculate (hs : ¬ (x.kind = .skill ∧ am.id = 280)) (tx : ItemType)
    (ht : itemType? u cfg x = some tx) (b : Rat) (hb : baseOf tx am = some b)
    (mods : List Mod) (hg : gather u cfg immune rd x tx am.id = .ok mods)
    (cap : Option Rat) (hc : capOf rd x am = .ok cap) :
    valueOf u cfg immune limited pen rd x am =
      (match calculate pen am.stackable am.hig b mods cap (limited.contains am.id) with
       | .ok v => .ok v
       | .error _ => .divZero) := by
  rw [valueOf_eq, if_neg (by simpa using hs), ht]
  simp only [hb, hg, hc]
  generalize calculate pen am.stackable am.hig b mods cap (limited.contains am.id) = r
  cases r <;> rfl

/-- With nothing gathered the value is the base value (type value, else attribute default), capped by
the max attribute when that has a value, and rounded iff limited: no other item or effect enters. -/
theorem value_without_mods (hs : ¬ (x.kind = .skill ∧ am.id = 280)) (tx : ItemType)
    (ht : itemType? u cfg x = some tx) (b : Rat) (hb : baseOf tx am = some b)
    (hg : gather u cfg immune rd x tx am.id = .ok []) (cap : Option Rat) (hc : capOf rd x am = .ok cap) :
    valueOf u cfg immune limited pen rd x am =
      .ok (let v := (cap.map fun c => min b c).getD b
           if limited.contains am.id then round2 v else v) := by
  rw [value_is_calculate u cfg immune limited pen rd x am hs tx ht b hb [] hg cap hc, calculate_nil]
  cases cap <;> rfl

/-- "No other item or effect influences the value": every gathered modification comes from a
configured, loaded item `a`, a currently running effect `e` of `a` and a modifier `m` (of `e`, or a
warfare buff modifier spawned by `e`) that targets this attribute, carries `m`'s operator and
aggregate mode/key, the value of `m`'s source attribute on `a`, the resistance factor of `e`
against `x`, `a`'s immunity flag — and whose affectee filter selects `x`: locally, projected onto
`a`'s current target, or as a fleet boost onto a ship of the same fit/fleet. -/
theorem gather_sound (tx : ItemType) (attr : Int) (mods : List Mod)
    (h : gather u cfg immune rd x tx attr = .ok mods) :
    ∀ md ∈ mods, ∃ a ∈ cfg.items, ∃ ta, itemType? u cfg a = some ta ∧
      ∃ e ∈ runningEffects u cfg a, ∃ m : Modifier,
        m.tgtAttr = attr ∧ rd a m.srcAttr = .ok md.value ∧ resistOf cfg rd e x = .ok md.resist ∧
        md.op = m.op ∧ md.agg = m.agg ∧ md.aggKey = m.aggKey ∧
        md.immune = (match ta.category with | some c => immune.contains c | none => false) ∧
        ((m ∈ e.mods ∧ affectsLocal cfg a m x tx = true) ∨
         (m ∈ e.mods ∧ m.domain = 4 ∧
            ∃ tg ∈ projectionTargets cfg a e, affectsProjected cfg a m tg x tx = true) ∨
         (e.isBuff = true ∧
            ((∃ bms, buffModifiers u rd a = .ok bms ∧ m ∈ bms) ∨ (m ∈ e.mods ∧ m.domain = 4)) ∧
            ∃ tg ∈ boostTargets cfg a.fit, affectsProjected cfg a m tg x tx = true)) :=
  gather_prov h

/-- "transformed by exactly the modifications of currently running effects whose affectee filter
selects that item": conversely, every modifier of a running effect of a configured, loaded item that
targets the attribute, has a source value and selects `x` (in one of the same three ways) has its
modification in the gathered list. -/
theorem gather_complete (tx : ItemType) (attr : Int) (mods : List Mod)
    (h : gather u cfg immune rd x tx attr = .ok mods)
    (a : Item) (ha : a ∈ cfg.items) (ta : ItemType) (hta : itemType? u cfg a = some ta)
    (e : Effect) (he : e ∈ runningEffects u cfg a) (m : Modifier) (hm : m.tgtAttr = attr)
    (v : Rat) (hv : rd a m.srcAttr = .ok v)
    (hsel : (m ∈ e.mods ∧ affectsLocal cfg a m x tx = true) ∨
         (m ∈ e.mods ∧ m.domain = 4 ∧
            ∃ tg ∈ projectionTargets cfg a e, affectsProjected cfg a m tg x tx = true) ∨
         (e.isBuff = true ∧
            ((∃ bms, buffModifiers u rd a = .ok bms ∧ m ∈ bms) ∨ (m ∈ e.mods ∧ m.domain = 4)) ∧
            ∃ tg ∈ boostTargets cfg a.fit, affectsProjected cfg a m tg x tx = true)) :
    ∃ r, resistOf cfg rd e x = .ok r ∧
      ({ op := m.op, value := v, resist := r, agg := m.agg, aggKey := m.aggKey,
         immune := (match ta.category with | some c => immune.contains c | none => false) } : Mod) ∈ mods :=
  Eos.World.gather_complete h ha hta he hm hv hsel

end world

/-! ## I. Which items a modifier selects: the regenerated complete table

`EosGen.AffectsTable` is regenerated on every run by `tools/gen/affects_table.py`: it builds small designed
worlds through the public API of the real code (affector class x filter x domain x filter argument x affectee
class x relation of the affectee to the affector, and the projected twin: projector class x filter x argument x
target x affectee; the axes are spelled out in the header of `EosGen/AffectsTable.lean`), one modifier per world,
and records for every item of the world whether its attribute is modified — once in the world built from scratch
(`modified`; rests on `get_affector_specs` / `get_modifications` and the affector storages) and once after every
item was read before the effect was started / the target was set (`modifiedInc`; additionally rests on what
`get_local_affectee_items` / `get_projected_affectee_items` invalidate).  The recorded configuration, item types
and modifier are read back from the live objects; `valid` is the verdict of the library's own modifier validation
(`DogmaModifier._valid`, the test the modifier builder applies before it emits a modifier — property C19), obtained
by calling it on the real modifier object.  A case carries all this in the form the specification's selection
functions take; `specLocal c = affectsLocal c.cfg c.a c.m c.x c.tx` and
`specProjected c = affectsProjected c.cfg c.a c.m c.t c.x c.tx` by definition. -/

section affectsTable
open Eos.AffectsSpec
open EosGen.AffectsTable (localCases projectedCases localCaseCount localModifiedCount localValidCount
  projectedCaseCount projectedModifiedCount projectedValidCount localBlocks projectedBlocks blockL01 blockP04)

/-- "whose affectee filter selects that item", local modifiers: on every case of the regenerated table whose
modifier the library's validation accepts, the specification's `affectsLocal`, evaluated on the recorded
configuration, is what the real code did in the world built from scratch. -/
theorem affects_table_matches_spec :
    ∀ c ∈ localCases, c.valid = true → specLocal c = c.modified := by
  intro c hc hv
  have h := local_cases_ok c hc
  simp only [localCaseOk, Bool.and_eq_true, agrees_iff, hv, Bool.not_true, Bool.or_false,
    Bool.not_eq_true'] at h
  simp only [h.1.2, Bool.false_eq_true, if_false] at h
  exact h.2.2.symm

/-- The projected twin (effect category target, modifier domain target, applied to the projector's target):
on every case with a valid modifier `affectsProjected` is what the real code did in the world built from
scratch. -/
theorem affects_table_matches_spec_projected :
    ∀ c ∈ projectedCases, c.valid = true → specProjected c = c.modified := by
  intro c hc hv
  have h := proj_cases_ok c hc
  simp only [projCaseOk, Bool.and_eq_true, agrees_iff, hv, Bool.not_true, Bool.or_false,
    Bool.not_eq_true'] at h
  simp only [h.1.2, Bool.false_eq_true, if_false] at h
  exact h.2.2.symm

/-- The incremental observation (every item read first, then the effect started / the target set) is the
specification's answer on EVERY case of either table, valid modifier or not: the items the code invalidates and
then recalculates with the modification are exactly the selected ones. -/
theorem affects_table_incremental_matches_spec :
    (∀ c ∈ localCases, specLocal c = c.modifiedInc) ∧ (∀ c ∈ projectedCases, specProjected c = c.modifiedInc) := by
  refine ⟨fun c hc => ?_, fun c hc => ?_⟩
  · have h := local_cases_ok c hc
    simp only [localCaseOk, Bool.and_eq_true, agrees_iff] at h
    exact h.2.1.symm
  · have h := proj_cases_ok c hc
    simp only [projCaseOk, Bool.and_eq_true, agrees_iff] at h
    exact h.2.1.symm

/-- Outside the domain — modifiers the library's own validation rejects (a group / skill filter without
argument, an en-masse filter with domain `other`, `owner_skillrq` with a domain other than `character`; the
modifier builder never emits them): in a world built from scratch the real code still does what the
specification says, except for a `domain_group` modifier without group argument, which selects exactly the
group-less items of the (resolved) domain — of the affector's fit for a local modifier, aboard the targeted ship
for a projected one.  (Pinned so that a change of the code there is noticed too; not a property clause.) -/
theorem affects_table_invalid_rows_observed :
    (∀ c ∈ localCases, c.valid = false →
      c.modified = if groupNoneRow c.m then observedGroupNoneLocal c else specLocal c) ∧
    (∀ c ∈ projectedCases, c.valid = false →
      c.modified = if groupNoneRow c.m then observedGroupNoneProj c else specProjected c) := by
  refine ⟨fun c hc _ => ?_, fun c hc _ => ?_⟩
  · have h := local_cases_ok c hc
    simp only [localCaseOk, Bool.and_eq_true, agrees_iff] at h
    have h2 := h.2.2
    split at h2 <;> simp_all
  · have h := proj_cases_ok c hc
    simp only [projCaseOk, Bool.and_eq_true, agrees_iff] at h
    have h2 := h.2.2
    split at h2 <;> simp_all

/-- Every `domain_group` modifier without group argument in the table is one the validation rejects. -/
theorem affects_table_group_none_invalid :
    (∀ c ∈ localCases, groupNoneRow c.m = true → c.valid = false) ∧
    (∀ c ∈ projectedCases, groupNoneRow c.m = true → c.valid = false) := by
  refine ⟨fun c hc hg => ?_, fun c hc hg => ?_⟩
  · have h := local_cases_ok c hc
    simp only [localCaseOk, Bool.and_eq_true, hg, Bool.not_true, Bool.false_or, Bool.not_eq_true'] at h
    exact h.1.2
  · have h := proj_cases_ok c hc
    simp only [projCaseOk, Bool.and_eq_true, hg, Bool.not_true, Bool.false_or, Bool.not_eq_true'] at h
    exact h.1.2

/-- The validity hypothesis of `affects_table_matches_spec` cannot be dropped: outside the domain there are
recorded cases (of either table) where the real code leaves the specification. -/
theorem affects_table_invalid_rows_disagree :
    (∃ c ∈ localCases, c.valid = false ∧ specLocal c ≠ c.modified) ∧
    (∃ c ∈ projectedCases, c.valid = false ∧ specProjected c ≠ c.modified) := by
  constructor
  · obtain ⟨c, hc, h⟩ := List.any_eq_true.1 local_disagreement
    exact ⟨c, mem_localCases (by simp [localBlocks]) hc, by simpa using h⟩
  · obtain ⟨c, hc, h⟩ := List.any_eq_true.1 proj_disagreement
    exact ⟨c, mem_projectedCases (by simp [projectedBlocks]) hc, by simpa using h⟩

/-- The cases are well-formed observations: the type recorded next to an item is that item's type. -/
theorem affects_table_types_aligned :
    (∀ c ∈ localCases, c.x.typeId = c.tx.id) ∧ (∀ c ∈ projectedCases, c.x.typeId = c.tx.id) := by
  refine ⟨fun c hc => ?_, fun c hc => ?_⟩
  · have h := local_cases_ok c hc
    simp only [localCaseOk, Bool.and_eq_true, beq_iff_eq] at h
    exact h.1.1
  · have h := proj_cases_ok c hc
    simp only [projCaseOk, Bool.and_eq_true, beq_iff_eq] at h
    exact h.1.1

/-- Nothing was lost between the generator and the theorems: the tables have exactly as many cases, as many
"modified" cases and as many cases with a valid modifier (so the statements above are not vacuous) as the
generator counted observations. -/
theorem affects_table_complete :
    localCases.length = localCaseCount ∧ localCases.countP (·.modified) = localModifiedCount ∧
    localCases.countP (·.valid) = localValidCount ∧
    projectedCases.length = projectedCaseCount ∧
    projectedCases.countP (·.modified) = projectedModifiedCount ∧
    projectedCases.countP (·.valid) = projectedValidCount :=
  ⟨local_counts.1, local_counts.2.1, local_counts.2.2, proj_counts.1, proj_counts.2.1, proj_counts.2.2⟩

/-! ### Resistance: which carrier's attribute scales a projected modification

`EosGen.ResistTable` is regenerated on every run by `tools/gen/resist_table.py`: a projected effect with a
resistance attribute (present on the carriers / absent / id 0 / no id) x projector class x modifier filter x target
x every item of the world; every type has its own resistance value, so the observed factor names the item whose
attribute the real code read (`get_modifications`: `effect.resist_attr_id`, `affectee._solsys_carrier`).  `obs` /
`obsInc` are `none` (not modified) or `some r` (modified, factor `r`) from scratch / incrementally.  By definition
`specResist c = if affectsProjected c.cfg c.a c.m c.t c.x c.tx then some (resistOf c.cfg rd c.e c.x) else some none`
(`none` if `resistOf` errs), with `rd = baseReader c.u c.cfg` reading type values (nothing modifies the source and
resistance attributes in these worlds). -/

open EosGen.ResistTable (resistCases resistCaseCount resistModifiedCount resistValidCount)

/-- "resist": on EVERY case of the regenerated table — modifiers the library's validation accepts and the
`owner_skillrq` ones it rejects for domain target alike — selection and resistance factor of the specification
(`affectsProjected`, `resistOf`: the ship for items aboard it, a drone / fighter squad for itself, none otherwise;
1 without resistance attribute or value) are what the real code applied, under both observations. -/
theorem resist_table_matches_spec :
    ∀ c ∈ resistCases, specResist c = some c.obs ∧ specResist c = some c.obsInc :=
  fun c hc => ⟨(resist_cases_good c hc).2.1, (resist_cases_good c hc).2.2.1⟩

/-- `gather` itself (through `runningEffects`, `projectionTargets`, `affectsProjected`, `resistOf` and `mk`): for
every case the specification gathers, for the targeted attribute of the item, nothing — or exactly one
modification with the modifier's operator, the projector's source value and the observed resistance factor. -/
theorem resist_table_gather_matches :
    ∀ c ∈ resistCases, ∃ v, baseReader c.u c.cfg c.a c.m.srcAttr = .ok v ∧
      gatherOutcome (gather c.u c.cfg specImmune (baseReader c.u c.cfg) c.x c.tx c.m.tgtAttr) c.m.op v =
        some c.obs := by
  intro c hc
  have h := (resist_cases_good c hc).2.2.2
  unfold specGatherResist at h
  split at h
  · rename_i v hv
    exact ⟨v, hv, h⟩
  · cases h

/-- Nothing was lost between the generator and the theorems: case count, "modified" count (non-vacuity) and the
number of cases whose modifier the library's validation accepts. -/
theorem resist_table_complete :
    resistCases.length = resistCaseCount ∧ resistCases.countP (·.obs.isSome) = resistModifiedCount ∧
    resistCases.countP (·.valid) = resistValidCount := resist_counts

end affectsTable

/-! ## Non-vacuity

Concrete instances showing that the hypotheses above are satisfiable and the conclusions not
trivial; `livePen` is the regenerated penalty table. -/

section examples
open EosGen.Consts (penaltyFactors)
local notation "livePen" => penOfList penaltyFactors

/-- B: two orders of the same modifications, and the value they give. -/
example : calculate livePen true true 100 [{ op := 6, value := 11/10 }, { op := 4, value := 5 }] none false =
    calculate livePen true true 100 [{ op := 4, value := 5 }, { op := 6, value := 11/10 }] none false :=
  calculate_perm _ _ _ _ (List.Perm.swap _ _ _) _ _
example : calculate livePen true true 100 [{ op := 6, value := 11/10 }, { op := 4, value := 5 }] none false
    = .ok (231/2) := by decide +kernel
/-- C: a zero divisor anywhere in the list, an unknown operator, the empty list with cap and rounding. -/
example : calculate livePen false true 100 [{ op := 4, value := 5 }, { op := 8, value := 0 }] none false =
    .error .divZero := (divzero_iff _ _ _ _ _ _ _).2 ⟨{ op := 8, value := 0 }, by simp, Or.inr rfl, rfl⟩
example : calculate livePen false true 100 [{ op := 11, value := 5 }, { op := 4, value := 5 }] none false =
    .ok 105 := by decide +kernel
example : calculate livePen false true (1001/8) [] (some 200) true = .ok (3128/25) := by decide +kernel
/-- D/E: a single penalizable modification under the live table (`pen 0 = 1`), and two equal ones. -/
example : calculate livePen false true 10 [{ op := 6, value := 3 }] none false = .ok (10 * 3) :=
  op_post_mul livePen false true false 10 3 (Or.inr (Or.inr gen_penalty_first))
example : calculate livePen false true 100 [{ op := 6, value := 1/10 + 1 }, { op := 6, value := 1/10 + 1 }]
    none false = .ok (100 * ((1 + 1/10) * (1 + 1/10 * livePen 1))) :=
  two_equal_penalised livePen gen_penalty_first true 100 (1/10) (by decide +kernel)
example : livePen 1 < 1 ∧ 0 < livePen 1 := by decide +kernel
/-- E: a twelve-element chain equals its first eleven elements. -/
example (pen : Nat → Rat) : chainVal pen 0 ([1, 1, 1, 1, 1, 1, 1, 1, 1, 1, 1] ++ [7]) =
    chainVal pen 0 [1, 1, 1, 1, 1, 1, 1, 1, 1, 1, 1] := chain_cutoff pen _ _ (by decide)
/-- F: ties between a penalised and an unpenalised member resolve to the unpenalised one; one pick per key. -/
example : pickMin [⟨6, 1, true, 2, none⟩, ⟨6, 1, false, 2, none⟩, ⟨6, 2, false, 2, none⟩] = some (1, false) ∧
    pickMax [⟨6, 2, true, 3, none⟩, ⟨6, 2, false, 3, none⟩, ⟨6, 1, false, 3, none⟩] = some (2, false) := by
  decide +kernel
example : contributions [⟨6, 1, false, 2, some 5⟩, ⟨6, 3, false, 2, some 5⟩, ⟨6, 2, false, 2, some 8⟩,
    ⟨6, 4, false, 1, none⟩] = [(6, 4, false), (6, 1, false), (6, 2, false)] := by decide +kernel
/-- G: resistance 0, cap, half-even rounding (0.125 → 0.12, 0.135 → 0.14, 0.375 → 0.38). -/
example : calculate livePen true true 100 [{ op := 6, value := 3, resist := 0 }, { op := 4, value := 1 }] none
    false = .ok 101 := by decide +kernel
example : calculate livePen true true 100 [{ op := 6, value := 3 }] (some 250) false = .ok 250 := by
  decide +kernel
example : round2 (1/8) = 3/25 ∧ round2 (27/200) = 7/50 ∧ round2 (3/8) = 19/50 := by decide +kernel
/-- H: the two-item world of `Lemmas/CalcWorld`: the module's attribute 20 multiplies the ship's
attribute 37; the module has the default of attribute 37; the ship has no attribute 20. -/
example : evalAll exUniverse exConfig specImmune specLimited livePen =
    [((1, 20), .absent), ((2, 20), .ok (3/2)), ((1, 37), .ok 150), ((2, 37), .ok 0)] := by decide +kernel
example : gather exUniverse exConfig specImmune (fun _ _ => .ok (3/2)) exShip
    ⟨1, none, some 6, none, [(37, 100)], [], []⟩ 37 = .ok [{ op := 6, value := 3/2 }] := by decide +kernel

end examples

end Eos.C02
