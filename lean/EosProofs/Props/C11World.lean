import EosProofs.Lemmas.MicroTeardown
/-! # C11, message level — once everything has been removed no register or cache retains any entry

`EosModel/WorldMicro.lean` models the calculation service at the granularity of its messages.  Its registers
(`AffectionRegister`: affectee items, affector specs per affectee / domain / group / skill;
`ProjectionRegister`: projectors, their targets, the projectors per target) are modelled by their
*declarative content*: the loaded flag, the running-effect flags, the recorded projection targets and — the
service's own `__warfare_buffs` register — the registered warfare-buff modifiers of every item (`Micro.Dyn`),
from which affector specs (`allSpecs`), affectees, direct invalidation targets and reverse dependencies are
derived.  "The register retains no entry" is therefore stated as: the flags of every configured item are off
and nothing is recorded or registered for it (`DynEmptyOn`) — and every derived list is empty
(`registers_empty`).

The canonical tear-down of item `i` (`teardown i es s`, `es` = effect ids that may be running / applied / have
warfare-buff modifiers registered) is the message sequence the item mixins publish when an item is removed:
`EffectUnapplied` for every effect with recorded targets, the drop of the registered warfare-buff modifiers
(`buffset … []`; the service does it inside its `EffectsStopped` handler, after un-applying the boost),
`EffectsStopped` for the running effects, `ItemUnloaded` (followed by `attrs._clear()`).  Nothing here assumes a
universe without warfare-buff effects. -/
namespace Eos.C11World
open Eos.World Eos.Micro Eos.Micro.L Eos.DepCache Eos.Machine

variable {u : Universe}

/-- **(1) Tear-down of one item.**  After `teardown i es s` (with `es` covering the effects of `i` that run,
have recorded targets or registered warfare-buff modifiers): the configuration is unchanged; `i` is not loaded,
none of its effects runs, no projector of `i` has a recorded target or a registered warfare-buff modifier, and
no cache entry of `i` remains; the registers of every other item are untouched, and the cache has only lost
entries. -/
theorem teardown_item (i : Nat) (es : List Int) (s : MState) (hcov : Covers s.dyn i es) :
    (mrun u s (teardown i es s)).cfg = s.cfg ∧
    (mrun u s (teardown i es s)).dyn.loaded i = false ∧
    (∀ e, (mrun u s (teardown i es s)).dyn.on i e = false) ∧
    (∀ e, (mrun u s (teardown i es s)).dyn.tgts i e = []) ∧
    (∀ e, (mrun u s (teardown i es s)).dyn.bspecs i e = []) ∧
    (∀ a, (mrun u s (teardown i es s)).cache (i, a) = none) ∧
    (∀ j, j ≠ i → (mrun u s (teardown i es s)).dyn.loaded j = s.dyn.loaded j ∧
      ∀ e, (mrun u s (teardown i es s)).dyn.on j e = s.dyn.on j e ∧
        (mrun u s (teardown i es s)).dyn.tgts j e = s.dyn.tgts j e ∧
        (mrun u s (teardown i es s)).dyn.bspecs j e = s.dyn.bspecs j e) ∧
    Cascade.Sub s.cache (mrun u s (teardown i es s)).cache :=
  have td := teardown_tornDown (u := u) i es s hcov
  ⟨td.cfg, td.loaded, td.on, td.tgts, td.bspecs, fun a => td.cache (i, a) rfl, td.other, td.sub⟩

/-- **(2) Tear-down of everything.**  After tearing down every item of the configuration — in any order,
`order` only has to mention every configured item — the registers hold nothing for the configured items
(loaded flags, running effects, recorded targets, registered warfare-buff modifiers) and the cache holds
nothing for them. -/
theorem teardown_all_empty (es : List Int) (order : List Nat) (s : MState) (hc : ∀ j, Covers s.dyn j es)
    (hall : ∀ x ∈ s.cfg.items, x.id ∈ order) :
    (mrun u s (teardownAll u es order s)).cfg = s.cfg ∧
    DynEmptyOn s.cfg (mrun u s (teardownAll u es order s)).dyn ∧
    ∀ x ∈ s.cfg.items, ∀ a, (mrun u s (teardownAll u es order s)).cache (x.id, a) = none :=
  teardownAll_empty es order s hc hall

/-- What empty flags mean for the derived registers: no item has a type, a running effect, an affector spec
or a projection target; there is no affector spec at all; no spec has an affectee; no node has a dependency
or a direct invalidation target; and of the reverse-dependency enumerators only the static cap table
(attributes capped by the node's attribute — the declarative over-approximation of `_cap_map`, which
`attrs._clear()` resets) is left. -/
theorem registers_empty {cfg : Config} {d : Dyn} (h : DynEmptyOn cfg d) :
    (∀ x ∈ cfg.items, typeOf? u d x = none ∧ running u d x = [] ∧ localSpecs u d x = [] ∧
      projSpecs u cfg d x = [] ∧ ∀ e, targetsOf cfg d x e = []) ∧
    allSpecs u cfg d = [] ∧
    (∀ s, affectees u cfg d s = []) ∧
    (∀ x tx attr, specsOn u cfg d x tx attr = []) ∧
    (∀ specs, directOf u cfg d specs = []) ∧
    (∀ n, deps u cfg d n = []) ∧
    (∀ n, rdeps u cfg d n = match item? cfg n.1 with
      | none => []
      | some y => (u.attrs.filter fun am => am.maxAttr == some n.2).map fun am => (y.id, am.id)) :=
  ⟨fun _ hx => ⟨typeOf?_empty h hx, running_empty h hx, localSpecs_empty h hx, projSpecs_empty h hx,
      targetsOf_empty h hx⟩,
    allSpecs_empty h, affectees_empty h, specsOn_empty h, directOf_empty h, deps_empty h, rdeps_empty h⟩

/-- (2) in terms of the derived registers: after the tear-down of everything they are empty. -/
theorem teardown_all_registers_empty (es : List Int) (order : List Nat) (s : MState)
    (hc : ∀ j, Covers s.dyn j es) (hall : ∀ x ∈ s.cfg.items, x.id ∈ order) :
    allSpecs u s.cfg (mrun u s (teardownAll u es order s)).dyn = [] ∧
    (∀ sp, affectees u s.cfg (mrun u s (teardownAll u es order s)).dyn sp = []) ∧
    (∀ n, deps u s.cfg (mrun u s (teardownAll u es order s)).dyn n = []) :=
  have h := (teardownAll_empty (u := u) es order s hc hall).2.1
  ⟨allSpecs_empty h, affectees_empty h, deps_empty h⟩

/-- **(3) The tear-down of one item is taken under the side conditions** of the message-level steps
(`StepOK`), provided no *other* item still has `i` among its recorded targets — the K1 side condition: the
handlers do not revise a projection whose target is unloaded. -/
theorem teardown_item_stepOK (W : Config × Dyn → Graph Node Rat) (i : Nat) (es : List Int) (s : MState)
    (hcov : Covers s.dyn i es) (hK1 : ∀ a, a ≠ i → ∀ e, i ∉ s.dyn.tgts a e) :
    MRunOK u (StepOK W) s (teardown i es s) :=
  teardown_stepOK W i es s hcov hK1

/-- (3) for the tear-down of everything: all messages satisfy `StepOK` when projectors let go of their
targets first (`K1Order`: a projector is torn down before its targets). -/
theorem teardown_all_stepOK (W : Config × Dyn → Graph Node Rat) (es : List Int) (order : List Nat)
    (s : MState) (hc : ∀ j, Covers s.dyn j es) (hk : K1Order s.dyn [] order) :
    MRunOK u (StepOK W) s (teardownAll u es order s) :=
  teardownAll_stepOK W es order [] s s.dyn hc (fun _ _ => Or.inl rfl) (fun _ h => by cases h) hk

/-- ... hence such a tear-down is a legal run: the state invariant `MInv` (cache coherent and
dependency-closed, configuration well-formed) holds in every state it passes through, given non-zero
divisors around each message (`StaticAround`).  Uses `Ties`, `rankWF`, `UniqueAttrs`, `ResistWF` as
`C01World.micro_inv_step`. -/
theorem teardown_all_legal {immune limited : List Int} {pen : Nat → Rat} {keep : Config → Node → Bool}
    {W : Config × Dyn → Graph Node Rat} (T : Ties u immune limited pen keep W) (hwf : rankWF u = true)
    (hun : UniqueAttrs u) (hR : ResistWF u) (es : List Int) (order : List Nat) (s : MState) (inv : MInv W s)
    (hc : ∀ j, Covers s.dyn j es) (hk : K1Order s.dyn [] order)
    (hst : MRunOK u (StaticAround u W) s (teardownAll u es order s)) :
    MRunAll u (MInv W) s (teardownAll u es order s) :=
  mrun_inv_all T ((rankWF_iff u).1 hwf) hun hR _ s inv
    (mrunOK_and _ s (teardown_all_stepOK W es order s hc hk) hst)

/-- After *any* legal message history from an empty cache, a tear-down of everything in which projectors let
go first is again a legal history (so everything read on the way equals the from-scratch value,
`C01World.micro_read_eq_spec`), and it ends with empty registers and nothing cached for configured items. -/
theorem history_then_teardown {immune limited : List Int} {pen : Nat → Rat} {keep : Config → Node → Bool}
    {W : Config × Dyn → Graph Node Rat} (T : Ties u immune limited pen keep W) (hwf : rankWF u = true)
    (hun : UniqueAttrs u) (hR : ResistWF u) {cfg : Config} {d : Dyn} (hU : UniqueIds cfg) (hC : ChargeWF cfg)
    (hT : TgtKinds cfg d) (steps : List WStep) (ok : WRunOK u W ⟨cfg, d, fun _ => none⟩ steps)
    (es : List Int) (order : List Nat)
    (hc : ∀ j, Covers (wrun u W ⟨cfg, d, fun _ => none⟩ steps).dyn j es)
    (hk : K1Order (wrun u W ⟨cfg, d, fun _ => none⟩ steps).dyn [] order)
    (hall : ∀ x ∈ (wrun u W ⟨cfg, d, fun _ => none⟩ steps).cfg.items, x.id ∈ order)
    (hst : MRunOK u (StaticAround u W) (wrun u W ⟨cfg, d, fun _ => none⟩ steps)
      (teardownAll u es order (wrun u W ⟨cfg, d, fun _ => none⟩ steps))) :
    let s := wrun u W ⟨cfg, d, fun _ => none⟩ steps
    let hist := steps ++ (teardownAll u es order s).map .micro
    WRunOK u W ⟨cfg, d, fun _ => none⟩ hist ∧
    MInv W (wrun u W ⟨cfg, d, fun _ => none⟩ hist) ∧
    DynEmptyOn s.cfg (wrun u W ⟨cfg, d, fun _ => none⟩ hist).dyn ∧
    ∀ x ∈ s.cfg.items, ∀ a, (wrun u W ⟨cfg, d, fun _ => none⟩ hist).cache (x.id, a) = none := by
  intro s hist
  have hok : WRunOK u W ⟨cfg, d, fun _ => none⟩ hist :=
    (wrunOK_append W _ _ _).2 ⟨ok, (wrunOK_micro W _ s).2
      (mrunOK_and _ s (teardown_all_stepOK W es order s hc hk) hst)⟩
  have hrun : wrun u W ⟨cfg, d, fun _ => none⟩ hist = mrun u s (teardownAll u es order s) := by
    show wrun u W _ (steps ++ _) = _
    rw [wrun_append, wrun_micro]
  obtain ⟨_, he, hcache⟩ := teardownAll_empty (u := u) es order s hc hall
  refine ⟨hok, ?_, ?_, ?_⟩
  · exact wrun_inv T ((rankWF_iff u).1 hwf) hun hR hist ⟨good_init W (cfg, d), hU, hC, hT⟩ hok
  · rw [hrun]; exact he
  · rw [hrun]; exact hcache

/-! ## Non-vacuity -/

/-- In the tiny universe, with effect 100 of the ship running, the tear-down of the ship is
`EffectsStopped [100]; ItemUnloaded`; its hypotheses hold, so (1) and (3) apply to it. -/
example : teardown 0 [100] (mstep tinyU tinyS (.start 0 [100])) = [.stop 0 [100], .unload 0] ∧
    Covers (mstep tinyU tinyS (.start 0 [100])).dyn 0 [100] ∧
    (∀ a, a ≠ 0 → ∀ e, 0 ∉ (mstep tinyU tinyS (.start 0 [100])).dyn.tgts a e) ∧
    K1Order (mstep tinyU tinyS (.start 0 [100])).dyn [] [0] := by
  refine ⟨rfl, ?_, fun _ _ _ h => (by cases h), ⟨fun _ _ h => (by cases h), trivial⟩⟩
  intro e he
  rcases he with he | he | he
  · have : (if (0 : Nat) = 0 ∧ e ∈ [(100 : Int)] then true else false) = true := he
    by_cases h : (0 : Nat) = 0 ∧ e ∈ [(100 : Int)]
    · exact h.2
    · rw [if_neg h] at this; cases this
  · exact absurd rfl he
  · exact absurd rfl he

/-- With warfare-buff modifiers registered for projector `(0, 100)` (and nothing running or applied) the
tear-down of the ship drops them first; `[100]` covers what the registers hold, and afterwards nothing is
registered. -/
example :
    let s : MState := { tinyS with dyn := { tinyS.dyn with
      bspecs := fun i e => if i = 0 ∧ e = 100 then [⟨1, 4, none, 2, 9, 1, none, 1⟩] else [] } }
    teardown 0 [100] s = [.buffset 0 100 [], .stop 0 [], .unload 0] ∧ Covers s.dyn 0 [100] ∧
    ∀ e, (mrun tinyU s (teardown 0 [100] s)).dyn.bspecs 0 e = [] := by
  intro s
  have hcov : Covers s.dyn 0 [100] := by
    intro e he
    rcases he with he | he | he
    · cases he
    · exact absurd rfl he
    · have he' : (if (0 : Nat) = 0 ∧ e = 100 then [(⟨1, 4, none, 2, 9, 1, none, 1⟩ : Modifier)] else []) ≠ [] := he
      by_cases h : (0 : Nat) = 0 ∧ e = 100
      · rw [h.2]; exact List.mem_singleton.2 rfl
      · rw [if_neg h] at he'; exact absurd rfl he'
  exact ⟨rfl, hcov, (teardown_item (u := tinyU) 0 [100] s hcov).2.2.2.2.1⟩

end Eos.C11World
