import EosModel.Codec
import EosModel.Loader
import EosGen.CodecLayout
import EosProofs.Lemmas.Codec
/-! # C15 — cache persistence is lossless and leaves no leftovers

Property theorems only.  `EosGen.CodecLayout` is regenerated on every run by calling the private
compress/decompress methods of `json_cache_handler.py` on sentinel objects; the first block ties it
to the hand-written layout and to the model functions the remaining theorems are about.
`parse`/`ser` stand for bz2 + utf-8 + json; that they round-trip a tree up to `PV.norm`
(`hjson`) is the trusted assumption about those libraries. -/
namespace Eos.C15
open Eos.Codec Eos.Codec.PV Eos.Loader
open EosGen

/-! ## Tie to the source -/

/-- Every compress method puts every field where the specification says (all five entities). -/
theorem gen_compress_layouts_eq_spec :
    CodecLayout.modifierC = Layout.modifierC ∧ CodecLayout.buffC = Layout.buffC ∧ CodecLayout.attrC = Layout.attrC ∧
    CodecLayout.effectC = Layout.effectC ∧ CodecLayout.typeC = Layout.typeC := by decide

/-- Every decompress method reads every field from where the specification says, with the
    specified coercion (`bool()` on flags, effect ids resolved through `get_effect`). -/
theorem gen_decompress_layouts_eq_spec :
    CodecLayout.modifierD = Layout.modifierD ∧ CodecLayout.buffD = Layout.buffD ∧ CodecLayout.attrD = Layout.attrD ∧
    CodecLayout.effectD = Layout.effectD ∧ CodecLayout.typeD = Layout.typeD := by decide

/-- `c` and `d` are inverse bijections between field leaves and tuple positions. -/
def Inverse (c : List (String × List Nat)) (d : List (String × List Nat × String)) : Prop :=
  d.map (fun r => (r.1, r.2.1)) = c ∧ (c.map (·.1)).Nodup ∧ (c.map (·.2)).Nodup

instance (c d) : Decidable (Inverse c d) := by unfold Inverse; infer_instance

/-- The regenerated compress and decompress layouts are inverse bijections: no field is dropped,
    duplicated, or read from another field's position. -/
theorem gen_layouts_inverse :
    Inverse CodecLayout.modifierC CodecLayout.modifierD ∧ Inverse CodecLayout.buffC CodecLayout.buffD ∧
    Inverse CodecLayout.attrC CodecLayout.attrD ∧ Inverse CodecLayout.effectC CodecLayout.effectD ∧
    Inverse CodecLayout.typeC CodecLayout.typeD := by decide

/-- The model's compress functions give, on the very sentinel objects, what the code gave. -/
theorem model_compress_on_sentinels :
    CodecLayout.modifierSentinels.map compressModifier = CodecLayout.modifierCompressOut ∧
    CodecLayout.buffSentinels.map compressBuff = CodecLayout.buffCompressOut ∧
    CodecLayout.attrSentinels.map compressAttr = CodecLayout.attrCompressOut ∧
    CodecLayout.effectSentinels.map compressEffect = CodecLayout.effectCompressOut ∧
    CodecLayout.typeSentinels.map compressType = CodecLayout.typeCompressOut :=
  ⟨rfl, rfl, rfl, rfl, rfl⟩

/-- ... and so do the decompress functions (inputs include one tree per flag with that position zeroed). -/
theorem model_decompress_on_sentinels :
    CodecLayout.modifierDecompressIn.map decompressModifier = CodecLayout.modifierDecompressOut.map some ∧
    CodecLayout.buffDecompressIn.map decompressBuff = CodecLayout.buffDecompressOut.map some ∧
    CodecLayout.attrDecompressIn.map decompressAttr = CodecLayout.attrDecompressOut.map some ∧
    CodecLayout.effectDecompressIn.map decompressEffect = CodecLayout.effectDecompressOut.map some ∧
    CodecLayout.typeDecompressIn.map (decompressType CodecLayout.typeStore) = CodecLayout.typeDecompressOut.map some :=
  ⟨rfl, rfl, rfl, rfl, rfl⟩

/-- What the json library does to each kind of value is what the specification lists ... -/
theorem gen_jsonNorm_eq_spec : CodecLayout.jsonNorm = Layout.jsonNorm := by decide

/-- ... and `PV.norm` implements that table (IntEnum → int, tuple → list, the rest kept). -/
theorem norm_kind (v : PV) : Layout.jsonNorm.lookup v.kind = some v.norm.kind := by
  cases v <;> rfl

/-! ## Per-entity losslessness, for all objects -/

theorem decompress_compress_modifier (m : Modifier) : decompressModifier (compressModifier m) = some m :=
  decompress_compress_modifier' m

/-- Through the file (JSON): the reader gets the modifier with enums as ints. -/
theorem decompress_compress_modifier_json (m : Modifier) :
    decompressModifier (compressModifier m).norm = some m.norm := by
  rw [decompressModifier_norm, decompress_compress_modifier']; rfl

theorem decompress_compress_buff (b : Buff) : decompressBuff (compressBuff b) = some b :=
  decompress_compress_buff' b

theorem decompress_compress_buff_json (b : Buff) : decompressBuff (compressBuff b).norm = some b.norm := by
  rw [decompressBuff_norm, decompress_compress_buff']; rfl

theorem decompress_compress_attr (a : Attr) : decompressAttr (compressAttr a) = some a :=
  decompress_compress_attr' a

theorem decompress_compress_attr_json (a : Attr) : decompressAttr (compressAttr a).norm = some a.norm := by
  rw [decompressAttr_norm, decompress_compress_attr']; rfl

/-- Effects with any number of modifiers. -/
theorem decompress_compress_effect (e : Effect) : decompressEffect (compressEffect e) = some e :=
  decompress_compress_effect' e

theorem decompress_compress_effect_json (e : Effect) : decompressEffect (compressEffect e).norm = some e.norm := by
  rw [decompressEffect_norm, decompress_compress_effect']; rfl

/-- Item types (attributes, effects, default effect or none, abilities incl. infinite charge counts,
    required skills), under the closedness guard `TypeOK`: the effects it mentions are in the storage. -/
theorem decompress_compress_type (store : Dict Effect) (t : EType) (h : TypeOK store t) :
    decompressType store (compressType t) = some t :=
  decompress_compress_type' store t h

theorem decompress_compress_type_json (store : Dict Effect) (t : EType) (h : TypeOK store t) :
    decompressType (Dict.norm Effect.norm store) (compressType t).norm = some t.norm := by
  rw [decompressType_norm, decompress_compress_type' store t h]; rfl

/-- Error branch of the guard: an effect id the storage does not hold makes the type (hence the whole
    load, see C16) fail instead of producing a type without that effect. -/
theorem unknown_effect_rejected (store : Dict Effect) (t : EType) (p : PV × Effect) (hp : p ∈ t.effects)
    (h : getEffect store p.1 = none) : decompressType store (compressType t) = none := by
  have hm : ∀ l : Dict Effect, p ∈ l → (l.map (·.1)).mapM (getEffect store) = none := by
    intro l hl
    induction l with
    | nil => cases hl
    | cons q qs ih =>
      rw [List.map_cons, List.mapM_cons]
      rcases List.mem_cons.mp hl with rfl | hq
      · simp [h]
      · cases getEffect store q.1 <;> simp [ih hq]
  simp [decompressType, compressType, index?, iter?, hm t.effects hp]

/-! ## Whole object sets and sequences of `update_cache` -/

/-- After `update_cache o fp` with a closed object set the handler serves exactly the objects handed
    in, each under its id, the buff templates grouped by buff id, and `fp`; the call does not raise. -/
theorem served_after_update {β : Type} (ser : PV → β) (h : Handler β) (o : Objs) (fp : PV) (hc : Closed o)
    (g : Dict (List Buff)) (hg : groupBuffs o.buffs = some g) :
    updateCache ser h o fp =
      (⟨some (ser (cacheData o fp)), ⟨byId EType.id o.types, byId Attr.id o.attrs, byId Effect.id o.effects, g, fp⟩⟩, true) := by
  have hf := full_cacheData o fp hc
  rw [hg, full_eq_fill] at hf
  have hfill := fill_eq h.mem (cacheData o fp)
  rcases hr : fill Mem.empty (cacheData o fp) with ⟨m, b⟩
  rw [hr] at hf hfill
  cases b <;> simp [ok?] at hf
  subst hf
  simp [updateCache, hfill]

/-- Nothing is left over: whatever the handler held before (earlier updates, a loaded file), the
    outcome of `update_cache` is the one a brand-new handler would have — all four storages and the
    fingerprint come from this call only. -/
theorem update_replaces_everything {β : Type} (ser : PV → β) (h h' : Handler β) (o : Objs) (fp : PV)
    (hok : (updateCache ser h o fp).2 = true) : updateCache ser h o fp = updateCache ser h' o fp := by
  have e1 := fill_eq h.mem (cacheData o fp)
  have e2 := fill_eq h'.mem (cacheData o fp)
  simp only [updateCache] at hok ⊢
  rw [e1] at hok ⊢
  rw [e2]
  cases hb : (fill Mem.empty (cacheData o fp)).2 <;> simp [hb] at hok ⊢

/-- Writer = fresh reader: after `update_cache` the handler that wrote the file holds (up to JSON's
    enum→int / tuple→list) exactly what a new handler loads from that file.  If the call raised
    (object set not closed) the file loads as empty. -/
theorem memory_after_update_eq_load {β : Type} (ser : PV → β) (parse : β → Option PV)
    (hjson : ∀ j, parse (ser j) = some j.norm) (h : Handler β) (o : Objs) (fp : PV) :
    load parse (updateCache ser h o fp).1.file =
      match (updateCache ser h o fp).2 with
      | true => (updateCache ser h o fp).1.mem.norm
      | false => Mem.empty := by
  have e1 := fill_eq h.mem (cacheData o fp)
  have e2 := fill_norm Mem.empty (cacheData o fp)
  have he : Mem.empty.norm = Mem.empty := rfl
  rw [he] at e2
  rcases hr : fill Mem.empty (cacheData o fp) with ⟨m, b⟩
  rw [hr] at e1 e2
  simp only [updateCache, load, hjson, e1, e2]
  cases b <;> simp <;> rfl

/-- The same for any sequence of `update_cache` calls on one handler (any earlier calls, raising or
    not, any initial state): only the last call matters. -/
theorem memory_eq_load_after_updates {β : Type} (ser : PV → β) (parse : β → Option PV)
    (hjson : ∀ j, parse (ser j) = some j.norm) (h : Handler β) (ups : List (Objs × PV)) (u : Objs × PV)
    (hok : (updateCache ser (runUpdates ser h ups) u.1 u.2).2 = true) :
    let final := runUpdates ser h (ups ++ [u])
    load parse final.file = final.mem.norm ∧ final = (updateCache ser ⟨none, Mem.empty⟩ u.1 u.2).1 := by
  have hrun : runUpdates ser h (ups ++ [u]) = (updateCache ser (runUpdates ser h ups) u.1 u.2).1 := by
    simp [runUpdates, List.foldl_append]
  have hm := memory_after_update_eq_load ser parse hjson (runUpdates ser h ups) u.1 u.2
  rw [hok] at hm
  exact ⟨by rw [hrun]; exact hm,
    by rw [hrun, update_replaces_everything ser _ ⟨none, Mem.empty⟩ u.1 u.2 hok]⟩

/-! ## Non-vacuity (concrete objects: enum-valued fields, an infinite charge count, a default effect) -/

def exMod : Modifier := ⟨.enum 1, .enum 2, .pnone, .int 30, .enum 6, .enum 0, .pnone, .int 31⟩
def exEffect : Effect := ⟨.int 5, .int 1, true, false, .int 40, .pnone, .pnone, .pnone, .pnone, .pnone, .pnone, .enum 2, [exMod]⟩
def exType : EType :=
  ⟨.int 7, .int 25, .int 6, [(.int 30, .real (5/2)), (.enum 31, .int 4)], [(.int 5, exEffect)], some exEffect,
   [(.int 22, ⟨.int 0, .inf⟩)], [(.int 3300, .int 5)]⟩
def exObjs : Objs := ⟨[exType], [⟨.int 30, .pnone, .real 0, true, false⟩], [exEffect], [⟨.int 11, .enum 1, .pnone, .int 30, .enum 6, .enum 0⟩]⟩

example : Closed exObjs := by
  refine ⟨?_, ?_, ?_, ?_⟩ <;> try (constructor <;> decide)
  intro t ht
  have : t = exType := by simpa [exObjs] using ht
  subst this
  refine ⟨?_, ?_, ?_, ?_, ?_, ?_⟩ <;> try (constructor <;> decide)
  · intro p hp
    have : p = (.int 5, exEffect) := by simpa [exType] using hp
    subst this; exact ⟨rfl, rfl⟩
  · intro e he
    have : exEffect = e := by simpa [exType] using he
    subst this; rfl

/-- The reader's view really differs from the writer's only by enum→int. -/
example : (decompressType (Dict.norm Effect.norm (byId Effect.id exObjs.effects)) (compressType exType).norm).map
    (fun t => (t.attrs.map (·.1), t.abilitiesData.map (·.2.chargeQuantity), t.defaultEffect.map (·.buildStatus)))
    = some ([.int 30, .int 31], [.inf], some (.int 2)) := rfl

/-- `update_cache` on an unclosed set raises in the model, as in the code. -/
example : (updateCache (β := PV) id ⟨none, Mem.empty⟩ ⟨[exType], [], [], []⟩ (.str "v_1")).2 = false := rfl

end Eos.C15
