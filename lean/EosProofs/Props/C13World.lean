import EosProofs.Props.C01World
/-! # C13, message level — the outcome of a set-up does not depend on its order; a re-target takes effect at once

`EosProofs/Props/C13.lean` has the specification-level characterisations (which items a projected modifier and
a fleet boost select) and, for the abstract cache machine, `setup_order_irrelevant_partial` (legality of the
removal sets is a hypothesis there).  This file states the property for the message-level model of
`EosModel/WorldMicro.lean`, where legality is a *theorem* (`C01World.micro_step_legal`) and the join to the
specification's table is `C01World.world_read_eq_table_buff`:

* `setup_order_irrelevant_world` — two legal message histories (any initial registers, empty caches, any order
  and interleaving of loads, starts, applications, boost registrations, reads) that end in settled states of
  the same configuration give the same observation at every configured item and attribute: the entry of the
  from-scratch table `World.evalAll` of that configuration.  The two final register contents need not be
  equal (recorded targets and registered warfare-buff modifiers of a boost are determined up to permutation
  only) — the observations are.  `setup_order_irrelevant_world_all`: the same for *every* attribute id,
  including those without metadata.
* `extend_history_world` / `retarget_immediate_world` — from any reachable state, the messages of a re-target
  (`EffectUnapplied` from the old targets, the change of the target field, `EffectApplied` to the new ones)
  extend the history to a legal history; if the state they reach is settled for the new configuration, a read
  observes — and a public read stores — the from-scratch value of the *new* configuration.
* Non-vacuity on the fleet of `C01World` (`fleetU`): `fleetHist2` reaches the configuration of `fleetHist` in
  another order (the un-boosted value of ship 3 is read and cached first, the boost is applied to ship 3 and to
  ship 1 in two separate `EffectApplied` messages); both histories read 150 at `(3, 37)`.
* Non-vacuity of the re-target on `settleU` with two ships: a module projecting onto ship 1 is re-targeted to
  ship 3; afterwards ship 3 reads 225 and ship 1 is back to 100. -/
namespace Eos.C13World
open Eos.World Eos.Micro Eos.Micro.L Eos.DepCache Eos.Machine Eos.C01World

variable {u : Universe} {immune limited : List Int} {pen : Nat → Rat}

/-- Legal histories compose. -/
theorem wrunOKE_append (W : Config × Dyn → Graph Node Rat) (s : MState) (l1 l2 : List WStep) :
    WRunOKE u immune limited pen W s (l1 ++ l2) ↔
      WRunOKE u immune limited pen W s l1 ∧ WRunOKE u immune limited pen W (wrun u W s l1) l2 := by
  induction l1 generalizing s with
  | nil => exact ⟨fun h => ⟨trivial, h⟩, fun h => h.2⟩
  | cons st l1 ih => simp only [List.cons_append, WRunOKE, wrun, ih, and_assoc]

/-- **The outcome is independent of the set-up order.**  Two message histories `steps`, `steps'` — from
possibly different initial registers `d`, `d'` and configurations `cfg`, `cfg'`, both with nothing cached —
each satisfying the hypotheses of `C01World.world_read_eq_table_buff` (legal: `WRunOKE`; ending in a
`BuffSettled` state), whose final states have the *same configuration* (`hcfg`), observe the same value at
every configured item `x` and attribute `am` with metadata, namely the entry of the from-scratch table of that
configuration.  Nothing relates the two histories to each other: their lengths, the order of loads / starts /
applications / boost registrations, and the reads taken on the way are arbitrary.

Hypotheses (as in the headline): `hwf` acyclic attribute dependencies, `hun` unique attribute ids, `hR`
resistance attributes only on effects with projected modifiers, `hnp` a fleet-boost effect is not projectable;
per history: unique item ids, `ChargeWF`, `TgtKinds` of the initial state; `hnz` the table of the common final
configuration has no division by zero.  This replaces `C13.setup_order_irrelevant_partial`, whose legality
hypothesis is here discharged by the side conditions `StepOK` (K1: a loaded / unloaded item is not a recorded
projection target) inside `WRunOKE`. -/
theorem setup_order_irrelevant_world (hwf : rankWF u = true) (hun : UniqueAttrs u) (hR : ResistWF u)
    (hnp : ∀ e ∈ u.effects, e.isBuff = true → e.category ≠ 2)
    {cfg cfg' : Config} {d d' : Dyn}
    (hU : UniqueIds cfg) (hC : ChargeWF cfg) (hT : TgtKinds cfg d)
    (hU' : UniqueIds cfg') (hC' : ChargeWF cfg') (hT' : TgtKinds cfg' d')
    (steps steps' : List WStep)
    (ok : WRunOKE u immune limited pen (worldGraph u immune limited pen hwf) ⟨cfg, d, fun _ => none⟩ steps)
    (ok' : WRunOKE u immune limited pen (worldGraph u immune limited pen hwf) ⟨cfg', d', fun _ => none⟩ steps')
    (sF sF' : MState)
    (hF : wrun u (worldGraph u immune limited pen hwf) ⟨cfg, d, fun _ => none⟩ steps = sF)
    (hF' : wrun u (worldGraph u immune limited pen hwf) ⟨cfg', d', fun _ => none⟩ steps' = sF')
    (hcfg : sF.cfg = sF'.cfg)
    (hset : BuffSettled u sF.cfg immune limited pen sF.dyn)
    (hset' : BuffSettled u sF'.cfg immune limited pen sF'.dyn)
    (hnz : ∀ entry ∈ evalAll u sF.cfg immune limited pen, entry.2 ≠ .divZero)
    {x : Item} (hx : x ∈ sF.cfg.items) {am : AttrMeta} (ham : am ∈ u.attrs) :
    observe (worldGraph u immune limited pen hwf) (toState sF) (x.id, am.id) =
      observe (worldGraph u immune limited pen hwf) (toState sF') (x.id, am.id) ∧
    observe (worldGraph u immune limited pen hwf) (toState sF) (x.id, am.id) =
      valToOption (World.read (evalAll u sF.cfg immune limited pen) x am.id) := by
  have h1 := world_read_eq_table_buff hwf hun hR hnp hU hC hT steps ok sF hF hset hnz hx ham
  have h2 := world_read_eq_table_buff hwf hun hR hnp hU' hC' hT' steps' ok' sF' hF' hset'
    (hcfg ▸ hnz) (hcfg ▸ hx) ham
  exact ⟨by rw [h1, h2, hcfg], h1⟩

/-- The same for **every** node of a configured item, whatever the attribute id: with metadata both
observations are the table's entry (`setup_order_irrelevant_world`), without metadata both are "no value". -/
theorem setup_order_irrelevant_world_all (hwf : rankWF u = true) (hun : UniqueAttrs u) (hR : ResistWF u)
    (hnp : ∀ e ∈ u.effects, e.isBuff = true → e.category ≠ 2)
    {cfg cfg' : Config} {d d' : Dyn}
    (hU : UniqueIds cfg) (hC : ChargeWF cfg) (hT : TgtKinds cfg d)
    (hU' : UniqueIds cfg') (hC' : ChargeWF cfg') (hT' : TgtKinds cfg' d')
    (steps steps' : List WStep)
    (ok : WRunOKE u immune limited pen (worldGraph u immune limited pen hwf) ⟨cfg, d, fun _ => none⟩ steps)
    (ok' : WRunOKE u immune limited pen (worldGraph u immune limited pen hwf) ⟨cfg', d', fun _ => none⟩ steps')
    (sF sF' : MState)
    (hF : wrun u (worldGraph u immune limited pen hwf) ⟨cfg, d, fun _ => none⟩ steps = sF)
    (hF' : wrun u (worldGraph u immune limited pen hwf) ⟨cfg', d', fun _ => none⟩ steps' = sF')
    (hcfg : sF.cfg = sF'.cfg)
    (hset : BuffSettled u sF.cfg immune limited pen sF.dyn)
    (hset' : BuffSettled u sF'.cfg immune limited pen sF'.dyn)
    (hnz : ∀ entry ∈ evalAll u sF.cfg immune limited pen, entry.2 ≠ .divZero)
    {x : Item} (hx : x ∈ sF.cfg.items) (a : Int) :
    observe (worldGraph u immune limited pen hwf) (toState sF) (x.id, a) =
      observe (worldGraph u immune limited pen hwf) (toState sF') (x.id, a) := by
  cases ha : attrMeta? u a with
  | some am =>
    have ham : am ∈ u.attrs := List.mem_of_find?_eq_some ha
    have hid : am.id = a := by
      have := List.find?_some ha
      simpa using this
    have := (setup_order_irrelevant_world hwf hun hR hnp hU hC hT hU' hC' hT' steps steps' ok ok' sF sF' hF hF'
      hcfg hset hset' hnz hx ham).1
    rwa [hid] at this
  | none =>
    have T := worldGraph_ties (immune := immune) (limited := limited) (pen := pen) hwf
    subst hF; subst hF'
    rw [micro_read_eq_spec T hwf hun hR hU hC hT steps (wrunOK_of_errorFree T steps _ ok),
      micro_read_eq_spec T hwf hun hR hU' hC' hT' steps' (wrunOK_of_errorFree T steps' _ ok'),
      spec_no_meta hwf _ ha, spec_no_meta hwf _ ha]

/-! ## A change takes effect at once -/

/-- **Any legal continuation of a legal history is observed from scratch.**  `steps` is a legal history from an
empty cache, `more` a list of further events taken under their side conditions in the state `steps` reaches
(`ok2`).  Then `steps ++ more` is a legal history, and if it ends in a settled state every read observes the
table of the final configuration; a public read `S` taken there (storing a dependency-closed set, `hS`) stores
exactly that value for the nodes it covers. -/
theorem extend_history_world (hwf : rankWF u = true) (hun : UniqueAttrs u) (hR : ResistWF u)
    (hnp : ∀ e ∈ u.effects, e.isBuff = true → e.category ≠ 2)
    {cfg : Config} {d : Dyn} (hU : UniqueIds cfg) (hC : ChargeWF cfg) (hT : TgtKinds cfg d)
    (steps more : List WStep)
    (ok : WRunOKE u immune limited pen (worldGraph u immune limited pen hwf) ⟨cfg, d, fun _ => none⟩ steps)
    (ok2 : WRunOKE u immune limited pen (worldGraph u immune limited pen hwf)
      (wrun u (worldGraph u immune limited pen hwf) ⟨cfg, d, fun _ => none⟩ steps) more)
    (sF : MState)
    (hF : wrun u (worldGraph u immune limited pen hwf)
      (wrun u (worldGraph u immune limited pen hwf) ⟨cfg, d, fun _ => none⟩ steps) more = sF)
    (hset : BuffSettled u sF.cfg immune limited pen sF.dyn)
    (hnz : ∀ entry ∈ evalAll u sF.cfg immune limited pen, entry.2 ≠ .divZero)
    {x : Item} (hx : x ∈ sF.cfg.items) {am : AttrMeta} (ham : am ∈ u.attrs) :
    WRunOKE u immune limited pen (worldGraph u immune limited pen hwf) ⟨cfg, d, fun _ => none⟩ (steps ++ more) ∧
    wrun u (worldGraph u immune limited pen hwf) ⟨cfg, d, fun _ => none⟩ (steps ++ more) = sF ∧
    observe (worldGraph u immune limited pen hwf) (toState sF) (x.id, am.id) =
      valToOption (World.read (evalAll u sF.cfg immune limited pen) x am.id) ∧
    ∀ S : Node → Bool, S (x.id, am.id) = true →
      (wstep u (worldGraph u immune limited pen hwf) sF (.read S)).cache (x.id, am.id) =
        valToOption (World.read (evalAll u sF.cfg immune limited pen) x am.id) := by
  have okA := (wrunOKE_append _ _ steps more).2 ⟨ok, ok2⟩
  have hFA : wrun u (worldGraph u immune limited pen hwf) ⟨cfg, d, fun _ => none⟩ (steps ++ more) = sF := by
    rw [wrun_append]; exact hF
  have hobs := world_read_eq_table_buff hwf hun hR hnp hU hC hT (steps ++ more) okA sF hFA hset hnz hx ham
  refine ⟨okA, hFA, hobs, fun S hS => ?_⟩
  have T := worldGraph_ties (immune := immune) (limited := limited) (pen := pen) hwf
  have hsp := micro_read_eq_spec T hwf hun hR hU hC hT (steps ++ more) (wrunOK_of_errorFree T _ _ okA) (x.id, am.id)
  rw [hFA] at hsp
  show (if S (x.id, am.id) then spec (worldGraph u immune limited pen hwf (sF.cfg, sF.dyn)) (x.id, am.id)
    else sF.cache (x.id, am.id)) = _
  rw [if_pos hS, ← hsp, hobs]

/-- The messages of a re-target of item `i` whose running projectable effects are `es`: `EffectUnapplied` of
each from the recorded targets `old`, the change of the configuration's target field (`cfg'`; a change of the
static configuration that the service sees only through the messages around it), `EffectApplied` of each to the
targets `new`. -/
def retarget (cfg' : Config) (i : Nat) (es : List Int) (old new : List Nat) : List WStep :=
  es.map (fun e => .micro (.unapply i e old)) ++ .micro (.reconfig cfg') ::
    es.map (fun e => .micro (.apply i e new))

theorem retarget_cfg (W : Config × Dyn → Graph Node Rat) (cfg' : Config) (i : Nat) (es : List Int)
    (old new : List Nat) (s : MState) : (wrun u W s (retarget cfg' i es old new)).cfg = cfg' := by
  have h1 : ∀ (l : List Int) (s : MState) (f : Int → MStep), (∀ e s, (mstep u s (f e)).cfg = s.cfg) →
      (wrun u W s (l.map fun e => .micro (f e))).cfg = s.cfg := by
    intro l
    induction l with
    | nil => intro _ _ _; rfl
    | cons e l ih => intro s f hf; exact (ih _ f hf).trans (hf e s)
  unfold retarget
  rw [wrun_append]
  show (wrun u W (mstep u _ (.reconfig cfg')) (es.map fun e => .micro (.apply i e new))).cfg = cfg'
  rw [h1 es _ (fun e => .apply i e new) (fun _ _ => rfl)]
  rfl

/-- **A re-target takes effect at once.**  In any state reached by a legal history, the messages of a
re-target taken under their side conditions (`ok2`: non-zero divisors around each un-apply and apply, the
new targets are solar-system items, the configuration change is well-formed and invisible to what is cached
after the un-applies) leave a state in which — provided it is the settled state of the new configuration — every
read observes the from-scratch table of the *new* configuration, and a public read stores it: nothing of the old
target's contribution survives, nothing of the new target's is missing. -/
theorem retarget_immediate_world (hwf : rankWF u = true) (hun : UniqueAttrs u) (hR : ResistWF u)
    (hnp : ∀ e ∈ u.effects, e.isBuff = true → e.category ≠ 2)
    {cfg : Config} {d : Dyn} (hU : UniqueIds cfg) (hC : ChargeWF cfg) (hT : TgtKinds cfg d)
    (steps : List WStep)
    (ok : WRunOKE u immune limited pen (worldGraph u immune limited pen hwf) ⟨cfg, d, fun _ => none⟩ steps)
    (cfg' : Config) (i : Nat) (es : List Int) (old new : List Nat)
    (ok2 : WRunOKE u immune limited pen (worldGraph u immune limited pen hwf)
      (wrun u (worldGraph u immune limited pen hwf) ⟨cfg, d, fun _ => none⟩ steps) (retarget cfg' i es old new))
    (sF : MState)
    (hF : wrun u (worldGraph u immune limited pen hwf)
      (wrun u (worldGraph u immune limited pen hwf) ⟨cfg, d, fun _ => none⟩ steps) (retarget cfg' i es old new) = sF)
    (hset : BuffSettled u cfg' immune limited pen sF.dyn)
    (hnz : ∀ entry ∈ evalAll u cfg' immune limited pen, entry.2 ≠ .divZero)
    {x : Item} (hx : x ∈ cfg'.items) {am : AttrMeta} (ham : am ∈ u.attrs) :
    sF.cfg = cfg' ∧
    WRunOKE u immune limited pen (worldGraph u immune limited pen hwf) ⟨cfg, d, fun _ => none⟩
      (steps ++ retarget cfg' i es old new) ∧
    observe (worldGraph u immune limited pen hwf) (toState sF) (x.id, am.id) =
      valToOption (World.read (evalAll u cfg' immune limited pen) x am.id) ∧
    ∀ S : Node → Bool, S (x.id, am.id) = true →
      (wstep u (worldGraph u immune limited pen hwf) sF (.read S)).cache (x.id, am.id) =
        valToOption (World.read (evalAll u cfg' immune limited pen) x am.id) := by
  have hc : sF.cfg = cfg' := by rw [← hF]; exact retarget_cfg _ _ _ _ _ _ _
  obtain ⟨h1, _, h3, h4⟩ := extend_history_world hwf hun hR hnp hU hC hT steps _ ok ok2 sF hF
    (hc ▸ hset) (hc ▸ hnz) (hc ▸ hx) ham
  rw [hc] at h3 h4
  exact ⟨hc, h1, h3, h4⟩

/-! ## Non-vacuity: two set-up orders of the fleet of `C01World`

`C01World.fleetHist`: the boost effect starts, the service registers the buff and applies it to ships 1 and 3 in
one `EffectApplied`, ship 3's attribute 37 is read.  `fleetHist2` reaches the same configuration differently:
after the start the un-boosted value of ship 3 is read (and cached: 100), the buff is registered, the boost is
applied to ship 3 first and to ship 1 in a second `EffectApplied` (which has to invalidate the cached 100),
then the read.  Both are legal and end `BuffSettled` — with *different* registers (recorded targets `[1, 3]` and
`[3, 1]`) —, so the theorem applies: both observe the table's entry, 150. -/

def fleetHist2 : List WStep :=
  [.micro (.start 2 [2000]), .read fun n => n == (3, 37),
   .micro (.unapply 2 2000 []), .micro (.buffset 2 2000 [fleetBM]),
   .micro (.apply 2 2000 [3]), .micro (.apply 2 2000 [1]),
   .read fun n => n == (3, 37) || n == (2, 2469)]

theorem fleet2_readLegal (k : Nat) (s : MState) (hc : s.cfg = fleetCfg)
    (hd : s.dyn = (wrun fleetU fleetW fleetS0 (fleetHist2.take k)).dyn) (S : Node → Bool)
    (hS : (k = 1 ∧ S = fun n => n == (3, 37)) ∨ (k = 6 ∧ S = fun n => n == (3, 37) || n == (2, 2469))) :
    Legal fleetW (toState s) (.read S) := by
  intro n hn m hm _
  have : (toState s).cfg = (fleetCfg, (wrun fleetU fleetW fleetS0 (fleetHist2.take k)).dyn) := by
    show (s.cfg, s.dyn) = _; rw [hc, hd]
  rw [this] at hm
  rcases hS with ⟨rfl, rfl⟩ | ⟨rfl, rfl⟩
  · have hn' : n = (3, 37) := by simpa using hn
    subst hn'
    have : (fleetW (fleetCfg, (wrun fleetU fleetW fleetS0 (fleetHist2.take 1)).dyn)).deps (3, 37) = [] := by
      decide +kernel
    rw [this] at hm; cases hm
  · have hdeps : ∀ n, (n == ((3 : Nat), (37 : Int)) || n == (2, 2469)) = true →
        ∀ m ∈ (fleetW (fleetCfg, (wrun fleetU fleetW fleetS0 (fleetHist2.take 6)).dyn)).deps n, m = (2, 2469) := by
      intro n hn
      simp only [Bool.or_eq_true, beq_iff_eq] at hn
      rcases hn with rfl | rfl <;> decide +kernel
    left
    rw [hdeps n hn m hm]; rfl

/-- Every event of the second history is taken under its side conditions. -/
theorem fleet2_runOK : WRunOKE fleetU specImmune specLimited fleetPen fleetW fleetS0 fleetHist2 := by
  refine ⟨⟨?_, fun _ => ⟨?_, ?_⟩⟩, ?_, ⟨trivial, fun _ => ⟨?_, ?_⟩⟩, ⟨?_, fun h => by cases h⟩,
    ⟨?_, fun _ => ⟨?_, ?_⟩⟩, ⟨?_, fun _ => ⟨?_, ?_⟩⟩, ?_, trivial⟩
  · intro e _; rfl
  all_goals first
    | exact fleet2_readLegal 1 _ rfl rfl _ (Or.inl ⟨rfl, rfl⟩)
    | exact fleet2_readLegal 6 _ rfl rfl _ (Or.inr ⟨rfl, rfl⟩)
    | (unfold ErrorFree; decide +kernel)
    | rfl
    | (intro j hj t ht
       simp only [List.mem_cons, List.not_mem_nil, or_false] at hj
       subst hj; cases ht; rfl)

/-- The end state of the second history is `BuffSettled` as well; its recorded targets are `[3, 1]`, a
permutation of the specification's `boostTargets`. -/
theorem fleet2_hset : BuffSettled fleetU (wrun fleetU fleetW fleetS0 fleetHist2).cfg specImmune specLimited fleetPen
    (wrun fleetU fleetW fleetS0 fleetHist2).dyn := by
  show BuffSettled fleetU fleetCfg specImmune specLimited fleetPen (wrun fleetU fleetW fleetS0 fleetHist2).dyn
  have r1 : runningEffects fleetU fleetCfg fleetShip1 = [] := by decide +kernel
  have r2 : runningEffects fleetU fleetCfg fleetMod = [⟨2000, 1, none, none, true, []⟩] := by rfl
  have r3 : runningEffects fleetU fleetCfg fleetShip3 = [] := by decide +kernel
  refine BuffSettled.intro rfl ?_ ?_ ?_
  · show (fun j e => if j = 2 ∧ e ∈ [2000] then true else false) = _
    funext j e
    by_cases h1 : j = 1
    · subst h1
      have : runningIds fleetU fleetCfg fleetShip1 = [] := by decide +kernel
      simp [derivedDyn, fleet_item1, this]
    · by_cases h2 : j = 2
      · subst h2
        have : runningIds fleetU fleetCfg fleetMod = [2000] := by decide +kernel
        simp [derivedDyn, fleet_item2, this]
      · by_cases h3 : j = 3
        · subst h3
          have : runningIds fleetU fleetCfg fleetShip3 = [] := by decide +kernel
          simp [derivedDyn, fleet_item3, this]
        · simp [derivedDyn, fleet_itemN h1 h2 h3, h2]
  · intro a ha e he hbf
    simp only [fleetCfg, List.mem_cons, List.not_mem_nil, or_false] at ha
    rcases ha with rfl | rfl | rfl
    · rw [r1] at he; cases he
    · rw [r2] at he; simp only [List.mem_cons, List.not_mem_nil, or_false] at he; subst he; cases hbf
    · rw [r3] at he; cases he
  · intro a ha e he _
    simp only [fleetCfg, List.mem_cons, List.not_mem_nil, or_false] at ha
    rcases ha with rfl | rfl | rfl
    · rw [r1] at he; cases he
    · rw [r2] at he; simp only [List.mem_cons, List.not_mem_nil, or_false] at he; subst he
      refine ⟨⟨[fleetBM], by decide +kernel, List.Perm.of_eq (by decide +kernel)⟩, Or.inr ?_⟩
      have hb : boostTargets fleetCfg fleetMod.fit = [fleetShip1, fleetShip3] := by rfl
      have ht : (wrun fleetU fleetW fleetS0 fleetHist2).dyn.tgts fleetMod.id
          (⟨2000, 1, none, none, true, []⟩ : Effect).id = [3, 1] := by decide +kernel
      rw [hb, ht]; exact List.Perm.swap 1 3 []
    · rw [r3] at he; cases he

theorem fleet_cfg : (wrun fleetU fleetW fleetS0 fleetHist).cfg = fleetCfg := rfl
theorem fleet2_cfg : (wrun fleetU fleetW fleetS0 fleetHist2).cfg = fleetCfg := rfl

/-- `setup_order_irrelevant_world` applied to the two histories: same observation at `(3, 37)`, the table's. -/
example :
    observe fleetW (toState (wrun fleetU fleetW fleetS0 fleetHist)) (3, 37) =
      observe fleetW (toState (wrun fleetU fleetW fleetS0 fleetHist2)) (3, 37) ∧
    observe fleetW (toState (wrun fleetU fleetW fleetS0 fleetHist)) (3, 37) =
      valToOption (World.read (evalAll fleetU fleetCfg specImmune specLimited fleetPen) fleetShip3 37) :=
  setup_order_irrelevant_world (by decide) fleet_wf.2.1 fleet_wf.2.2.1 (by decide)
    fleet_wf.2.2.2.1 fleet_wf.2.2.2.2.1 fleet_wf.2.2.2.2.2 fleet_wf.2.2.2.1 fleet_wf.2.2.2.2.1 fleet_wf.2.2.2.2.2
    fleetHist fleetHist2 fleet_runOK fleet2_runOK _ _ rfl rfl (fleet_cfg.trans fleet2_cfg.symm) fleet_hset fleet2_hset (by decide +kernel)
    (x := fleetShip3) (List.mem_cons_of_mem _ (List.mem_cons_of_mem _ List.mem_cons_self))
    (am := ⟨37, none, none, true, true⟩) (List.mem_cons_of_mem _ (List.mem_cons_of_mem _ List.mem_cons_self))

/-- Both read 150; the registers the two orders leave differ; the second history had the un-boosted 100 cached
on the way, and the second `EffectApplied` is not needed for ship 3 but must not lose ship 1. -/
example :
    observe fleetW (toState (wrun fleetU fleetW fleetS0 fleetHist)) (3, 37) = some 150 ∧
    observe fleetW (toState (wrun fleetU fleetW fleetS0 fleetHist2)) (3, 37) = some 150 ∧
    World.read (evalAll fleetU fleetCfg specImmune specLimited fleetPen) fleetShip3 37 = .ok 150 ∧
    (wrun fleetU fleetW fleetS0 fleetHist).dyn.tgts 2 2000 = [1, 3] ∧
    (wrun fleetU fleetW fleetS0 fleetHist2).dyn.tgts 2 2000 = [3, 1] ∧
    (wrun fleetU fleetW fleetS0 (fleetHist2.take 2)).cache (3, 37) = some 100 := by
  refine ⟨by decide +kernel, by decide +kernel, by decide +kernel, by decide +kernel, by decide +kernel,
    by decide +kernel⟩

/-- The same at a node no read of either history covers, ship 1's attribute 37: the theorem gives the table's
entry for both. -/
example :
    observe fleetW (toState (wrun fleetU fleetW fleetS0 fleetHist)) (1, 37) =
      observe fleetW (toState (wrun fleetU fleetW fleetS0 fleetHist2)) (1, 37) ∧
    observe fleetW (toState (wrun fleetU fleetW fleetS0 fleetHist2)) (1, 37) = some 150 := by
  have h := setup_order_irrelevant_world (by decide) fleet_wf.2.1 fleet_wf.2.2.1 (by decide)
    fleet_wf.2.2.2.1 fleet_wf.2.2.2.2.1 fleet_wf.2.2.2.2.2 fleet_wf.2.2.2.1 fleet_wf.2.2.2.2.1 fleet_wf.2.2.2.2.2
    fleetHist fleetHist2 fleet_runOK fleet2_runOK _ _ rfl rfl (fleet_cfg.trans fleet2_cfg.symm) fleet_hset
    fleet2_hset (by decide +kernel) (x := fleetShip1) List.mem_cons_self
    (am := ⟨37, none, none, true, true⟩) (List.mem_cons_of_mem _ (List.mem_cons_of_mem _ List.mem_cons_self))
  have ht : valToOption (World.read (evalAll fleetU fleetCfg specImmune specLimited fleetPen) fleetShip1 37) =
      some 150 := by decide +kernel
  exact ⟨h.1, h.1.symm.trans (h.2.trans ht)⟩

/-! ## Non-vacuity of `retarget_immediate_world`

The universe `settleU` of `Lemmas/MicroSettle.lean` (a mid-slot module with two running projectable effects, each
with a local modifier on the ship of its own fit and a projected one on its target) with a second fit: ship 1 and
the module in fit 0, ship 3 in fit 1.  History `retHist`: the module's effects start and are applied to its target,
ship 1.  Re-target to ship 3 (`retarget (retCfg 3) 2 [1000, 1001] [1] [3]`): both effects are un-applied from ship
1, the target field changes, both are applied to ship 3.  Every hypothesis of the theorem holds; afterwards ship 3
reads 100 · 3/2 · 3/2 = 225 (the projected modifiers only) and ship 1 is back to 100 + 3/2 − 3/2 = 100 (the local
modifiers only): nothing of the old target's contribution survives. -/

def retShip3 : Item := ⟨3, .ship, 1, 1, 1, none, none, none, []⟩
def retMod (t : Nat) : Item := ⟨2, .moduleMid, 2, 0, 3, none, some t, none, [(1001, 3)]⟩
def retCfg (t : Nat) : Config :=
  { hasSource := true, fits := [⟨0, some 1, none, none⟩, ⟨1, some 3, none, none⟩],
    items := [settleShip, retMod t, retShip3] }
def retD0 : Dyn :=
  { loaded := fun i => i == 1 || i == 2 || i == 3, on := fun _ _ => false, tgts := fun _ _ => [] }
def retS0 : MState := ⟨retCfg 1, retD0, fun _ => none⟩
def retHist : List WStep :=
  [.micro (.start 2 [1000, 1001]), .micro (.apply 2 1000 [1]), .micro (.apply 2 1001 [1])]
abbrev retS1 : MState := wrun settleU settleW retS0 retHist
abbrev retSF : MState := wrun settleU settleW retS1 (retarget (retCfg 3) 2 [1000, 1001] [1] [3])

theorem ret_item1 (t : Nat) : item? (retCfg t) 1 = some settleShip := rfl
theorem ret_item2 (t : Nat) : item? (retCfg t) 2 = some (retMod t) := rfl
theorem ret_item3 (t : Nat) : item? (retCfg t) 3 = some retShip3 := rfl
theorem ret_itemN (t : Nat) {i : Nat} (h1 : i ≠ 1) (h2 : i ≠ 2) (h3 : i ≠ 3) : item? (retCfg t) i = none := by
  simp [item?, retCfg, settleShip, retMod, retShip3]; omega

theorem ret_wf (t : Nat) : UniqueIds (retCfg t) ∧ ChargeWF (retCfg t) := by
  refine ⟨by unfold UniqueIds; show List.Nodup [1, 2, 3]; decide, ?_⟩
  intro x hx hk
  simp only [retCfg, settleShip, retMod, retShip3, List.mem_cons, List.not_mem_nil, or_false] at hx
  rcases hx with rfl | rfl | rfl <;> cases hk

theorem ret_solsys (t : Nat) (k : Nat) (hk : k = 1 ∨ k = 3) :
    ∀ j ∈ [k], ∀ x, item? (retCfg t) j = some x → x.kind.isSolsys = true := by
  intro j hj x hx
  rw [List.mem_singleton.1 hj] at hx
  rcases hk with rfl | rfl
  · rw [ret_item1] at hx; cases hx; rfl
  · rw [ret_item3] at hx; cases hx; rfl

/-- Messages only remove cache entries: no read, nothing cached. -/
theorem mrun_cache_none (l : List MStep) (s : MState) (h : ∀ n, s.cache n = none) (n : Node) :
    (mrun u s l).cache n = none := by
  induction l generalizing s with
  | nil => exact h n
  | cons st l ih => exact ih _ (fun m => sub_none (mstep_sub s st) (h m))

/-- `retHist` is a legal history. -/
theorem ret_runOK : WRunOKE settleU specImmune specLimited (fun _ => 1) settleW retS0 retHist := by
  refine ⟨⟨?_, fun _ => ⟨?_, ?_⟩⟩, ⟨ret_solsys 1 1 (Or.inl rfl), fun _ => ⟨?_, ?_⟩⟩,
    ⟨ret_solsys 1 1 (Or.inl rfl), fun _ => ⟨?_, ?_⟩⟩, trivial⟩
  all_goals first
    | (unfold ErrorFree; decide +kernel)
    | (intro e _; rfl)

/-- The messages of the re-target are taken under their side conditions in the state `retHist` reaches. -/
theorem ret_retargetOK : WRunOKE settleU specImmune specLimited (fun _ => 1) settleW retS1
    (retarget (retCfg 3) 2 [1000, 1001] [1] [3]) := by
  refine ⟨⟨trivial, fun _ => ⟨?_, ?_⟩⟩, ⟨trivial, fun _ => ⟨?_, ?_⟩⟩,
    ⟨⟨(ret_wf 3).1, (ret_wf 3).2, ?_, fun n h => absurd ?_ h⟩, fun h => by cases h⟩,
    ⟨ret_solsys 3 3 (Or.inr rfl), fun _ => ⟨?_, ?_⟩⟩, ⟨ret_solsys 3 3 (Or.inr rfl), fun _ => ⟨?_, ?_⟩⟩, trivial⟩
  case refine_5 =>
    -- nothing is recorded any more
    intro a e t ht
    obtain ⟨j, hj, _⟩ := mem_targetsOf.1 ht
    replace hj : j ∈ (if a.id = 2 ∧ e.id = 1001 then [] else if a.id = 2 ∧ e.id = 1000 then [] else
      if a.id = 2 ∧ e.id = 1001 then [1] else if a.id = 2 ∧ e.id = 1000 then [1] else ([] : List Nat)) := hj
    by_cases h1 : a.id = 2 ∧ e.id = 1001
    · rw [if_pos h1] at hj; cases hj
    · by_cases h2 : a.id = 2 ∧ e.id = 1000
      · rw [if_neg h1, if_pos h2] at hj; cases hj
      · rw [if_neg h1, if_neg h2, if_neg h1, if_neg h2] at hj; cases hj
  case refine_6 =>
    -- nothing is cached: the history has no read
    exact mrun_cache_none (u := settleU)
      [.start 2 [1000, 1001], .apply 2 1000 [1], .apply 2 1001 [1], .unapply 2 1000 [1], .unapply 2 1001 [1]]
      retS0 (fun _ => rfl) n
  all_goals (unfold ErrorFree; decide +kernel)

/-- The state after the re-target is the settled state of the new configuration. -/
theorem ret_hset : retSF.dyn = derivedDyn settleU (retCfg 3) := by
  show (⟨fun i => i == 1 || i == 2 || i == 3, fun j e => if j = 2 ∧ e ∈ [1000, 1001] then true else false,
    fun j f => if j = 2 ∧ f = 1001 then [3] else if j = 2 ∧ f = 1000 then [3] else
      if j = 2 ∧ f = 1001 then [] else if j = 2 ∧ f = 1000 then [] else
      if j = 2 ∧ f = 1001 then [1] else if j = 2 ∧ f = 1000 then [1] else [], fun _ _ => []⟩ : Dyn) = ⟨_, _, _, _⟩
  congr 1
  · funext i
    by_cases h1 : i = 1
    · subst h1; rfl
    · by_cases h2 : i = 2
      · subst h2; rfl
      · by_cases h3 : i = 3
        · subst h3; rfl
        · simp [ret_itemN 3 h1 h2 h3, h1, h2, h3]
  · funext j e
    by_cases h1 : j = 1
    · subst h1
      have : runningIds settleU (retCfg 3) settleShip = [] := by decide
      simp [ret_item1, this]
    · by_cases h2 : j = 2
      · subst h2
        have : runningIds settleU (retCfg 3) (retMod 3) = [1000, 1001] := by decide
        simp [ret_item2, this]
      · by_cases h3 : j = 3
        · subst h3
          have : runningIds settleU (retCfg 3) retShip3 = [] := by decide
          simp [ret_item3, this]
        · simp [ret_itemN 3 h1 h2 h3, h2]
  · funext j e
    by_cases h1 : j = 1
    · subst h1
      simp only [ret_item1]
      cases effect? settleU e with
      | none => simp
      | some ef => simp [projectionTargets, settleShip]
    · by_cases h2 : j = 2
      · subst h2
        by_cases e1 : e = 1000
        · subst e1; decide
        · by_cases e2 : e = 1001
          · subst e2; decide
          · have : effect? settleU e = none := by
              simp [effect?, settleU]; omega
            simp [ret_item2, this, e1, e2]
      · by_cases h3 : j = 3
        · subst h3
          simp only [ret_item3]
          cases effect? settleU e with
          | none => simp
          | some ef => simp [projectionTargets, retShip3]
        · simp [ret_itemN 3 h1 h2 h3, h2]

/-- `retarget_immediate_world` applies: after the re-target both ships are observed as the table of the new
configuration has them — the new target 225, the old target back to 100 (it read 225 before). -/
example :
    observe settleW (toState retSF) (3, 37) =
      valToOption (World.read (evalAll settleU (retCfg 3) specImmune specLimited (fun _ => 1)) retShip3 37) ∧
    observe settleW (toState retSF) (1, 37) =
      valToOption (World.read (evalAll settleU (retCfg 3) specImmune specLimited (fun _ => 1)) settleShip 37) ∧
    World.read (evalAll settleU (retCfg 3) specImmune specLimited (fun _ => 1)) retShip3 37 = .ok 225 ∧
    World.read (evalAll settleU (retCfg 3) specImmune specLimited (fun _ => 1)) settleShip 37 = .ok 100 ∧
    World.read (evalAll settleU (retCfg 1) specImmune specLimited (fun _ => 1)) settleShip 37 = .ok 225 := by
  have hT : TgtKinds (retCfg 1) retD0 := fun a e t ht => by simp [targetsOf, retD0] at ht
  have hset : BuffSettled settleU (retCfg 3) specImmune specLimited (fun _ => 1) retSF.dyn := by
    rw [ret_hset]; exact buffSettled_derived (by decide)
  have h := fun (x : Item) (hx : x ∈ (retCfg 3).items) =>
    (retarget_immediate_world (u := settleU) (by decide) settle_wf.1 settle_wf.2.1 (by decide) (ret_wf 1).1
      (ret_wf 1).2 hT retHist ret_runOK (retCfg 3) 2 [1000, 1001] [1] [3] ret_retargetOK retSF rfl hset
      (by decide +kernel) hx (am := ⟨37, none, none, true, true⟩) (List.mem_cons_of_mem _ List.mem_cons_self)).2.2.1
  exact ⟨h retShip3 (by simp [retCfg]), h settleShip (by simp [retCfg]), by decide +kernel, by decide +kernel,
    by decide +kernel⟩

end Eos.C13World
