import EosModel.Calc
import Mathlib.Tactic.Ring
import Mathlib.Tactic.Linarith
import Mathlib.Algebra.Order.Field.Rat
/-! Python `round(x, 2)` on exact rationals: nearest hundredth, ties to the even neighbour. -/
namespace Eos.Calc

/-- `round2 x = r/100` for the integer `r` nearest to `100·x`; an exact tie picks the even one. -/
theorem round2_char (x : Rat) : ∃ r : Int, round2 x = (r : Rat) / 100 ∧
    |(r : Rat) - x * 100| ≤ 1 / 2 ∧ (|(r : Rat) - x * 100| = 1 / 2 → r % 2 = 0) := by
  have hf1 : ((x * 100).floor : Rat) ≤ x * 100 := Rat.floor_le _
  have hf2 : x * 100 < ((x * 100).floor : Rat) + 1 := by
    have := Rat.lt_floor_add_one (x * 100); push_cast at this; exact this
  unfold round2
  simp only []
  generalize (x * 100).floor = f at *
  by_cases h1 : x * 100 - (f : Rat) < 1 / 2
  · refine ⟨f, by rw [if_pos h1], ?_, ?_⟩
    · rw [abs_le]; constructor <;> linarith
    · intro h; rw [abs_of_nonpos (by linarith)] at h; linarith
  · rw [if_neg h1]
    by_cases h2 : 1 / 2 < x * 100 - (f : Rat)
    · refine ⟨f + 1, by rw [if_pos h2], ?_, ?_⟩
      · push_cast; rw [abs_le]; constructor <;> linarith
      · intro h; push_cast at h; rw [abs_of_nonneg (by linarith)] at h; linarith
    · rw [if_neg h2]
      by_cases h3 : f % 2 = 0
      · refine ⟨f, by rw [if_pos h3], ?_, fun _ => h3⟩
        rw [abs_le]; constructor <;> linarith
      · refine ⟨f + 1, by rw [if_neg h3], ?_, fun _ => by omega⟩
        push_cast; rw [abs_le]; constructor <;> linarith

theorem round2_mul_100_int (x : Rat) : ∃ k : Int, round2 x * 100 = (k : Rat) := by
  obtain ⟨r, hr, _⟩ := round2_char x
  exact ⟨r, by rw [hr, div_mul_cancel₀]; norm_num⟩

theorem round2_close (x : Rat) : |round2 x - x| ≤ 1 / 200 := by
  obtain ⟨r, hr, hb, _⟩ := round2_char x
  rw [hr, abs_le] at *
  constructor <;> linarith [hb.1, hb.2]

/-- A value that already has at most two decimals is unchanged. -/
theorem round2_of_int (k : Int) : round2 ((k : Rat) / 100) = (k : Rat) / 100 := by
  unfold round2
  have : (k : Rat) / 100 * 100 = (k : Rat) := by rw [div_mul_cancel₀]; norm_num
  simp only [this, Rat.floor_intCast, sub_self]
  norm_num

end Eos.Calc
