import EosProofs.Lemmas.CalcBasic
/-! Operator semantics, closed form of the ordered fold, resistance, cap and rounding switches. -/
namespace Eos.Calc

theorem knownOp_cases {op : Nat} (h : knownOp op = true) :
    op = 1 ∨ op = 2 ∨ op = 3 ∨ op = 4 ∨ op = 5 ∨ op = 6 ∨ op = 7 ∨ op = 8 ∨ op = 9 ∨ op = 10 := by
  simp only [knownOp, Bool.and_eq_true, decide_eq_true_eq] at h; omega

theorem isMul_known {op : Nat} (h : isMul op = true) : knownOp op = true := by
  simp only [isMul, Bool.or_eq_true, beq_iff_eq] at h
  simp only [knownOp, Bool.and_eq_true, decide_eq_true_eq]; omega

/-! ## `applyOp` by operator class (the empty case is absorbed by the neutral element) -/

theorem applyOp_mul (hig : Bool) {op : Nat} (h : isMul op = true) (vs : List Rat) (value : Rat) :
    applyOp hig op vs value = value * prodOnePlus vs := by
  have ha : isAssign op = false := by
    simp only [isMul, Bool.or_eq_true, beq_iff_eq] at h
    simp only [isAssign, Bool.or_eq_false_iff, beq_eq_false_iff_ne]; omega
  have hd : isAdd op = false := by
    simp only [isMul, Bool.or_eq_true, beq_iff_eq] at h
    simp only [isAdd, Bool.or_eq_false_iff, beq_eq_false_iff_ne]; omega
  unfold applyOp
  cases vs with
  | nil => simp
  | cons x xs => simp [ha, hd, h]

theorem applyOp_add (hig : Bool) {op : Nat} (h : isAdd op = true) (vs : List Rat) (value : Rat) :
    applyOp hig op vs value = value + sumList vs := by
  have ha : isAssign op = false := by
    simp only [isAdd, Bool.or_eq_true, beq_iff_eq] at h
    simp only [isAssign, Bool.or_eq_false_iff, beq_eq_false_iff_ne]; omega
  unfold applyOp
  cases vs with
  | nil => simp
  | cons x xs => simp [ha, h]

theorem applyOp_assign (hig : Bool) {op : Nat} (h : isAssign op = true) (vs : List Rat) (value : Rat) :
    applyOp hig op vs value = (if hig then maxList vs else minList vs).getD value := by
  unfold applyOp
  cases vs with
  | nil => cases hig <;> simp [maxList, minList]
  | cons x xs => simp [h]

/-- Operators are applied in the order 1, 2, …, 10. -/
theorem foldOps_order (pen : Nat → Rat) (hig : Bool) (cs : List (Nat × Rat × Bool)) (b : Rat) :
    foldOps pen hig cs b =
      applyOp hig 10 (opValues pen cs 10) (applyOp hig 9 (opValues pen cs 9)
      (applyOp hig 8 (opValues pen cs 8) (applyOp hig 7 (opValues pen cs 7)
      (applyOp hig 6 (opValues pen cs 6) (applyOp hig 5 (opValues pen cs 5)
      (applyOp hig 4 (opValues pen cs 4) (applyOp hig 3 (opValues pen cs 3)
      (applyOp hig 2 (opValues pen cs 2) (applyOp hig 1 (opValues pen cs 1) b))))))))) := rfl

/-- Closed form of the ordered fold. -/
theorem foldOps_closed (pen : Nat → Rat) (hig : Bool) (cs : List (Nat × Rat × Bool)) (b : Rat) :
    foldOps pen hig cs b =
      (if hig then maxList (opValues pen cs 10) else minList (opValues pen cs 10)).getD
        ((((if hig then maxList (opValues pen cs 1) else minList (opValues pen cs 1)).getD b
            * prodOnePlus (opValues pen cs 2) * prodOnePlus (opValues pen cs 3)
            + sumList (opValues pen cs 4) + sumList (opValues pen cs 5))
          * prodOnePlus (opValues pen cs 6) * prodOnePlus (opValues pen cs 7)
          * prodOnePlus (opValues pen cs 8) * prodOnePlus (opValues pen cs 9))) := by
  rw [foldOps_order, applyOp_assign hig (op := 10) rfl, applyOp_mul hig (op := 9) rfl,
    applyOp_mul hig (op := 8) rfl, applyOp_mul hig (op := 7) rfl, applyOp_mul hig (op := 6) rfl,
    applyOp_add hig (op := 5) rfl, applyOp_add hig (op := 4) rfl, applyOp_mul hig (op := 3) rfl,
    applyOp_mul hig (op := 2) rfl, applyOp_assign hig (op := 1) rfl]

/-! ## Contributions of stack-mode modifications -/

theorem contributions_cons_stack (n : NMod) (ns : List NMod) (h : n.agg = 1) :
    contributions (n :: ns) = (n.op, n.v, n.pen) :: contributions ns := by
  simp [contributions, h]

@[simp] theorem contributions_nil : contributions [] = [] := by
  simp [contributions, dedup]

theorem opValues_nil (pen : Nat → Rat) (op : Nat) : opValues pen [] op = [] := by
  simp [opValues]

theorem foldOps_nil (pen : Nat → Rat) (hig : Bool) (b : Rat) : foldOps pen hig [] b = b := by
  simp [foldOps_order, opValues_nil, applyOp]

/-- When nothing is penalised the values of an operator are the plain list. -/
theorem opValues_no_pen (pen : Nat → Rat) (cs : List (Nat × Rat × Bool)) (op : Nat)
    (h : ∀ c ∈ cs, c.2.2 = false) :
    opValues pen cs op = (cs.filter fun c => c.1 == op).map (·.2.1) := by
  unfold opValues
  have h1 : (cs.filter fun c => c.1 == op && c.2.2) = [] := by
    rw [List.filter_eq_nil_iff]; intro c hc; simp [h c hc]
  have h2 : (cs.filter fun c => c.1 == op && !c.2.2) = cs.filter fun c => c.1 == op := by
    apply List.filter_congr; intro c hc; simp [h c hc]
  simp [h1, h2]

/-- One contribution: its operator sees the value (through a one-element penalty chain if penalised),
every other operator sees nothing. -/
theorem opValues_single (pen : Nat → Rat) (o : Nat) (v : Rat) (p : Bool) (op : Nat) :
    opValues pen [(o, v, p)] op = if o = op then [if p then v * pen 0 else v] else [] := by
  by_cases h : o = op
  · subst h; cases p <;> simp [opValues, penalize_single]
  · simp [opValues, h]

theorem foldOps_single (pen : Nat → Rat) (hig : Bool) (o : Nat) (v : Rat) (p : Bool) (b : Rat)
    (hk : knownOp o = true) :
    foldOps pen hig [(o, v, p)] b = applyOp hig o [if p then v * pen 0 else v] b := by
  rw [foldOps_order]
  simp only [opValues_single]
  rcases knownOp_cases hk with h | h | h | h | h | h | h | h | h | h <;> subst h <;>
    simp [applyOp]

theorem calculate_single (pen : Nat → Rat) (st hig : Bool) (b : Rat) (m : Mod)
    (hk : knownOp m.op = true) (hagg : m.agg = 1) (hb : isBad m = false) :
    calculate pen st hig b [m] none false =
      .ok (applyOp hig m.op [if (nmOf st m).pen then (nmOf st m).v * pen 0 else (nmOf st m).v] b) := by
  have hf : List.filter (fun m : Mod => knownOp m.op) [m] = [m] := by simp [hk]
  have ha : [m].any isBad = false := by simp [hb]
  rw [calculate_eq, ha, hf, List.map_cons, List.map_nil,
    contributions_cons_stack _ _ (show (nmOf st m).agg = 1 from hagg), contributions_nil,
    foldOps_single pen hig _ _ _ _ (show knownOp (nmOf st m).op = true from hk)]
  rfl

/-! ## A reduced multiplier of zero has no effect -/

theorem penalize_cons_zero (pen : Nat → Rat) (vs : List Rat) : penalize pen (0 :: vs) = penalize pen vs := by
  have hpos : (List.filter (fun v : Rat => decide (0 ≤ v)) (0 :: vs)) = 0 :: vs.filter fun v => decide (0 ≤ v) := by
    simp
  have hneg : (List.filter (fun v : Rat => decide (v < 0)) (0 :: vs)) = vs.filter fun v => decide (v < 0) := by
    simp
  have hs : sortDesc (0 :: vs.filter fun v => decide (0 ≤ v)) = sortDesc (vs.filter fun v => decide (0 ≤ v)) ++ [0] := by
    apply sortDesc_unique
    · exact (List.perm_append_singleton _ _).trans ((sortDesc_perm _).cons 0)
    · rw [List.pairwise_append]
      refine ⟨sortDesc_pairwise _, List.pairwise_singleton _ _, ?_⟩
      intro a ha b hb
      rw [List.mem_singleton] at hb; subst hb
      have := (sortDesc_perm _).mem_iff.1 ha
      simpa using (List.mem_filter.1 this).2
  unfold penalize
  rw [hpos, hneg, hs, chainVal_append_zero]

theorem applyOp_cons_zero (pen : Nat → Rat) (hig : Bool) (o : Nat) (p : Bool) (ho : isMul o = true)
    (cs : List (Nat × Rat × Bool)) (op : Nat) (value : Rat) :
    applyOp hig op (opValues pen ((o, 0, p) :: cs) op) value = applyOp hig op (opValues pen cs op) value := by
  by_cases h : o = op
  · subst h
    rw [applyOp_mul hig ho, applyOp_mul hig ho]
    congr 1
    unfold opValues
    cases p
    · simp only [List.filter_cons, beq_self_eq_true, Bool.not_false, Bool.and_self, if_true,
        Bool.and_false, Bool.false_eq_true, if_false, List.map_cons]
      split
      · rw [prodOnePlus_cons]; ring
      · rw [List.cons_append, prodOnePlus_cons]; ring
    · simp only [List.filter_cons, beq_self_eq_true, Bool.not_true, Bool.and_false,
        Bool.false_eq_true, if_false, Bool.and_self, if_true, List.map_cons, List.isEmpty_cons,
        penalize_cons_zero]
      split
      · rename_i he
        rw [List.isEmpty_iff] at he
        rw [he, penalize_nil, prodOnePlus_append, prodOnePlus_cons, prodOnePlus_nil]; ring
      · rfl
  · have : opValues pen ((o, 0, p) :: cs) op = opValues pen cs op := by
      have ho' : (o == op) = false := by simpa using h
      have e1 : List.filter (fun c : Nat × Rat × Bool => c.1 == op && c.2.2) ((o, 0, p) :: cs) =
          List.filter (fun c => c.1 == op && c.2.2) cs := List.filter_cons_of_neg (by simp [ho'])
      have e2 : List.filter (fun c : Nat × Rat × Bool => c.1 == op && !c.2.2) ((o, 0, p) :: cs) =
          List.filter (fun c => c.1 == op && !c.2.2) cs := List.filter_cons_of_neg (by simp [ho'])
      unfold opValues; rw [e1, e2]
    rw [this]

theorem foldOps_cons_zero (pen : Nat → Rat) (hig : Bool) (o : Nat) (p : Bool) (ho : isMul o = true)
    (cs : List (Nat × Rat × Bool)) (b : Rat) :
    foldOps pen hig ((o, 0, p) :: cs) b = foldOps pen hig cs b := by
  unfold foldOps
  congr 1
  funext value op
  exact applyOp_cons_zero pen hig o p ho cs op value

/-- A stack-mode multiplicative modification whose resistance factor is 0 changes nothing. -/
theorem calculate_resist_zero (pen : Nat → Rat) (st hig : Bool) (b : Rat) (m : Mod) (mods : List Mod)
    (cap : Option Rat) (lim : Bool) (hm : isMul m.op = true) (hagg : m.agg = 1) (hr : m.resist = 0)
    (hb : isBad m = false) :
    calculate pen st hig b (m :: mods) cap lim = calculate pen st hig b mods cap lim := by
  have hk := isMul_known hm
  have hf : List.filter (fun m : Mod => knownOp m.op) (m :: mods) =
      m :: List.filter (fun m : Mod => knownOp m.op) mods := List.filter_cons_of_pos (by simpa using hk)
  have hv : (nmOf st m).v = 0 := by simp [nmOf, hr]
  rw [calculate_eq, calculate_eq, List.any_cons, hb, Bool.false_or, hf, List.map_cons,
    contributions_cons_stack _ _ (show (nmOf st m).agg = 1 from hagg), hv,
    foldOps_cons_zero pen hig _ _ (show isMul (nmOf st m).op = true from hm)]

/-! ## Cap and rounding switches -/

theorem calculate_lim (pen : Nat → Rat) (st hig : Bool) (b : Rat) (mods : List Mod) (cap : Option Rat)
    (lim : Bool) :
    calculate pen st hig b mods cap lim =
      (calculate pen st hig b mods cap false).map fun v => if lim then round2 v else v := by
  rw [calculate_eq, calculate_eq]
  split <;> simp [Except.map]

theorem calculate_cap (pen : Nat → Rat) (st hig : Bool) (b : Rat) (mods : List Mod) (c : Rat) :
    calculate pen st hig b mods (some c) false =
      (calculate pen st hig b mods none false).map fun v => min v c := by
  rw [calculate_eq, calculate_eq]
  split <;> simp [Except.map]

/-! ## Aggregate picks, read back on the group -/

theorem pickMin_spec (l : List NMod) (v : Rat) (p : Bool) :
    pickMin l = some (v, p) ↔
      (∃ n ∈ l, n.v = v ∧ n.pen = p) ∧ ∀ n ∈ l, v < n.v ∨ (v = n.v ∧ (p = true → n.pen = true)) := by
  unfold pickMin
  rw [pickMinPair_spec]
  simp only [List.mem_map, Prod.mk.injEq, pairLe, Bool.or_eq_true, decide_eq_true_eq, Bool.and_eq_true,
    beq_iff_eq, Bool.not_eq_true', forall_exists_index, and_imp]
  constructor
  · rintro ⟨⟨n, hn, h1, h2⟩, hall⟩
    refine ⟨⟨n, hn, h1, h2⟩, fun n' hn' => ?_⟩
    rcases hall _ n' hn' rfl with h | ⟨h, h'⟩
    · exact Or.inl h
    · refine Or.inr ⟨h, fun hp => ?_⟩
      rcases h' with h' | h'
      · rw [hp] at h'; cases h'
      · exact h'
  · rintro ⟨⟨n, hn, h1, h2⟩, hall⟩
    refine ⟨⟨n, hn, h1, h2⟩, fun q n' hn' hq => ?_⟩
    subst hq
    rcases hall n' hn' with h | ⟨h, h'⟩
    · exact Or.inl h
    · refine Or.inr ⟨h, ?_⟩
      cases p
      · exact Or.inl rfl
      · exact Or.inr (h' rfl)

theorem pickMax_spec (l : List NMod) (v : Rat) (p : Bool) :
    pickMax l = some (v, p) ↔
      (∃ n ∈ l, n.v = v ∧ n.pen = p) ∧ ∀ n ∈ l, n.v < v ∨ (v = n.v ∧ (p = true → n.pen = true)) := by
  unfold pickMax
  rw [Option.map_eq_some_iff]
  constructor
  · rintro ⟨⟨w, q⟩, hq, he⟩
    simp only [Prod.mk.injEq] at he
    obtain ⟨rfl, rfl⟩ := he
    rw [pickMinPair_spec] at hq
    simp only [List.mem_map, Prod.mk.injEq, pairLe, Bool.or_eq_true, decide_eq_true_eq, Bool.and_eq_true,
      beq_iff_eq, Bool.not_eq_true', forall_exists_index, and_imp] at hq
    obtain ⟨⟨n, hn, h1, h2⟩, hall⟩ := hq
    refine ⟨⟨n, hn, by rw [← h1]; ring, h2⟩, fun n' hn' => ?_⟩
    rcases hall _ n' hn' rfl with h | ⟨h, h'⟩
    · exact Or.inl (by linarith)
    · refine Or.inr ⟨by linarith, fun hp => ?_⟩
      rcases h' with h' | h'
      · rw [hp] at h'; cases h'
      · exact h'
  · rintro ⟨⟨n, hn, h1, h2⟩, hall⟩
    refine ⟨(-v, p), ?_, by simp⟩
    rw [pickMinPair_spec]
    simp only [List.mem_map, Prod.mk.injEq, pairLe, Bool.or_eq_true, decide_eq_true_eq, Bool.and_eq_true,
      beq_iff_eq, Bool.not_eq_true', forall_exists_index, and_imp]
    refine ⟨⟨n, hn, by rw [h1], h2⟩, fun q n' hn' hq => ?_⟩
    subst hq
    rcases hall n' hn' with h | ⟨h, h'⟩
    · exact Or.inl (by linarith)
    · refine Or.inr ⟨by rw [h], ?_⟩
      cases p
      · exact Or.inl rfl
      · exact Or.inr (h' rfl)

/-! ## One contribution per aggregate group -/

theorem mem_keysOf (ns : List NMod) (mode : Nat) (k : Nat × Option Int) :
    k ∈ keysOf ns mode ↔ ∃ n ∈ ns, n.agg = mode ∧ (n.op, n.key) = k := by
  unfold keysOf
  rw [mem_dedup]
  simp only [List.mem_map, List.mem_filter, beq_iff_eq]
  constructor
  · rintro ⟨n, ⟨h1, h2⟩, h3⟩; exact ⟨n, h1, h2, h3⟩
  · rintro ⟨n, h1, h2, h3⟩; exact ⟨n, ⟨h1, h2⟩, h3⟩

theorem keysOf_nodup (ns : List NMod) (mode : Nat) : (keysOf ns mode).Nodup := nodup_dedup _

theorem mem_groupOf (ns : List NMod) (mode : Nat) (k : Nat × Option Int) (n : NMod) :
    n ∈ groupOf ns mode k ↔ n ∈ ns ∧ n.agg = mode ∧ n.op = k.1 ∧ n.key = k.2 := by
  unfold groupOf
  simp only [List.mem_filter, beq_iff_eq, Bool.and_eq_true]
  tauto

/-- The aggregate part holds exactly one pick per distinct key, in key order. -/
theorem groupPart_forall₂ (ns : List NMod) (mode : Nat) (pick : List NMod → Option (Rat × Bool))
    (hpick : ∀ l, l ≠ [] → ∃ p, pick l = some p) :
    List.Forall₂ (fun k c => c.1 = k.1 ∧ pick (groupOf ns mode k) = some c.2)
      (keysOf ns mode) (groupPart ns mode pick) := by
  unfold groupPart
  have hne : ∀ k ∈ keysOf ns mode, groupOf ns mode k ≠ [] := by
    intro k hk
    obtain ⟨n, hn, ha, he⟩ := (mem_keysOf ns mode k).1 hk
    have : n ∈ groupOf ns mode k := by
      rw [mem_groupOf]; subst he; exact ⟨hn, ha, rfl, rfl⟩
    exact List.ne_nil_of_mem this
  generalize keysOf ns mode = ks at hne
  induction ks with
  | nil => exact List.Forall₂.nil
  | cons k ks ih =>
    obtain ⟨p, hp⟩ := hpick _ (hne k List.mem_cons_self)
    rw [List.filterMap_cons, hp]
    exact List.Forall₂.cons ⟨rfl, hp⟩ (ih fun k' hk' => hne k' (List.mem_cons_of_mem _ hk'))

theorem pickMin_isSome (l : List NMod) (h : l ≠ []) : ∃ p, pickMin l = some p := by
  cases l with
  | nil => exact absurd rfl h
  | cons x xs => exact ⟨_, rfl⟩
theorem pickMax_isSome (l : List NMod) (h : l ≠ []) : ∃ p, pickMax l = some p := by
  cases l with
  | nil => exact absurd rfl h
  | cons x xs => exact ⟨_, rfl⟩

/-- A single stack-mode modification that is not penalised (stackable attribute, immune source or
non-penalizable operator) or that is alone in its chain (`pen 0 = 1`). -/
theorem calculate_single' (pen : Nat → Rat) (st hig : Bool) (b : Rat) (m : Mod)
    (hk : knownOp m.op = true) (hagg : m.agg = 1) (hb : isBad m = false)
    (hp : st = true ∨ m.immune = true ∨ isPenalizable m.op = false ∨ pen 0 = 1) :
    calculate pen st hig b [m] none false =
      .ok (applyOp hig m.op [normVal m.op m.value * m.resist] b) := by
  rw [calculate_single pen st hig b m hk hagg hb]
  congr 3
  rcases hp with h | h | h | h
  · simp [nmOf, h]
  · simp [nmOf, h]
  · simp [nmOf, h]
  · rw [h, mul_one]; split <;> rfl

theorem contributions_all_stack (ns : List NMod) (h : ∀ n ∈ ns, n.agg = 1) :
    contributions ns = ns.map fun n => (n.op, n.v, n.pen) := by
  induction ns with
  | nil => simp
  | cons n ns ih =>
    rw [contributions_cons_stack n ns (h n List.mem_cons_self),
      ih fun n' hn' => h n' (List.mem_cons_of_mem _ hn'), List.map_cons]

end Eos.Calc
