import EosGen.ResistTable04
/-! C02: on every case of the regenerated resistance table whose projector class has number 04
(`Eos.World.Kind.ofNat?`), the specification's `affectsProjected` + `resistOf` and the whole `gather` give the
selection and the resistance factor the real code applied (both observations); the block has exactly the
generated number of cases, of "modified" cases and of cases with a valid modifier (kernel evaluation). -/
namespace Eos.C02
open Eos.AffectsSpec EosGen.ResistTable

theorem resist_block04_ok : resistBlockOk blockR04 blockR04Cases blockR04Modified blockR04Valid = true := by
  decide +kernel

end Eos.C02
