import EosModel.Calc
import Mathlib.Data.List.Perm.Basic
import Mathlib.Data.List.Sort
import Mathlib.Tactic.Ring
import Mathlib.Tactic.Linarith
import Mathlib.Algebra.Order.Field.Rat
namespace Eos.Calc

/-! ## Sum / product / max / min folds -/

theorem foldl_add (l : List Rat) (a : Rat) : l.foldl (fun acc v => acc + v) a = a + sumList l := by
  unfold sumList
  induction l generalizing a with
  | nil => simp
  | cons x xs ih => simp only [List.foldl_cons]; rw [ih, ih (0 + x)]; ring

theorem foldl_mul (l : List Rat) (a : Rat) :
    l.foldl (fun acc v => acc * (1 + v)) a = a * prodOnePlus l := by
  unfold prodOnePlus
  induction l generalizing a with
  | nil => simp
  | cons x xs ih => simp only [List.foldl_cons]; rw [ih, ih (1 * (1 + x))]; ring

@[simp] theorem sumList_nil : sumList [] = 0 := rfl
@[simp] theorem prodOnePlus_nil : prodOnePlus [] = 1 := rfl
theorem sumList_cons (x : Rat) (xs : List Rat) : sumList (x :: xs) = x + sumList xs := by
  show List.foldl _ _ _ = _; rw [List.foldl_cons, foldl_add]; ring
theorem prodOnePlus_cons (x : Rat) (xs : List Rat) :
    prodOnePlus (x :: xs) = (1 + x) * prodOnePlus xs := by
  show List.foldl _ _ _ = _; rw [List.foldl_cons, foldl_mul]; ring
theorem sumList_append (l l' : List Rat) : sumList (l ++ l') = sumList l + sumList l' := by
  induction l with
  | nil => simp
  | cons x xs ih => rw [List.cons_append, sumList_cons, sumList_cons, ih]; ring
theorem prodOnePlus_append (l l' : List Rat) :
    prodOnePlus (l ++ l') = prodOnePlus l * prodOnePlus l' := by
  induction l with
  | nil => simp
  | cons x xs ih => rw [List.cons_append, prodOnePlus_cons, prodOnePlus_cons, ih]; ring

theorem sumList_perm {l l' : List Rat} (h : l.Perm l') : sumList l = sumList l' := by
  induction h with
  | nil => rfl
  | cons x _ ih => rw [sumList_cons, sumList_cons, ih]
  | swap x y l => simp only [sumList_cons]; ring
  | trans _ _ ih1 ih2 => exact ih1.trans ih2

theorem prodOnePlus_perm {l l' : List Rat} (h : l.Perm l') : prodOnePlus l = prodOnePlus l' := by
  induction h with
  | nil => rfl
  | cons x _ ih => rw [prodOnePlus_cons, prodOnePlus_cons, ih]
  | swap x y l => simp only [prodOnePlus_cons]; ring
  | trans _ _ ih1 ih2 => exact ih1.trans ih2

theorem foldl_max_spec (xs : List Rat) (x : Rat) :
    xs.foldl max x ∈ x :: xs ∧ ∀ y ∈ x :: xs, y ≤ xs.foldl max x := by
  induction xs generalizing x with
  | nil => simp
  | cons z zs ih =>
    obtain ⟨hm, hle⟩ := ih (max x z)
    refine ⟨?_, ?_⟩
    · rw [List.foldl_cons]
      rcases List.mem_cons.1 hm with h | h
      · rw [h]; rcases max_choice x z with h' | h' <;> simp [h']
      · simp [h]
    · intro y hy
      rw [List.foldl_cons]
      have h0 := hle _ List.mem_cons_self
      rcases List.mem_cons.1 hy with rfl | hy
      · exact le_trans (le_max_left _ _) h0
      rcases List.mem_cons.1 hy with rfl | hy
      · exact le_trans (le_max_right _ _) h0
      · exact hle _ (List.mem_cons_of_mem _ hy)

theorem foldl_min_spec (xs : List Rat) (x : Rat) :
    xs.foldl min x ∈ x :: xs ∧ ∀ y ∈ x :: xs, xs.foldl min x ≤ y := by
  induction xs generalizing x with
  | nil => simp
  | cons z zs ih =>
    obtain ⟨hm, hle⟩ := ih (min x z)
    refine ⟨?_, ?_⟩
    · rw [List.foldl_cons]
      rcases List.mem_cons.1 hm with h | h
      · rw [h]; rcases min_choice x z with h' | h' <;> simp [h']
      · simp [h]
    · intro y hy
      rw [List.foldl_cons]
      have h0 := hle _ List.mem_cons_self
      rcases List.mem_cons.1 hy with rfl | hy
      · exact le_trans h0 (min_le_left _ _)
      rcases List.mem_cons.1 hy with rfl | hy
      · exact le_trans h0 (min_le_right _ _)
      · exact hle _ (List.mem_cons_of_mem _ hy)

/-- `maxList` returns THE greatest element. -/
theorem maxList_spec (l : List Rat) (m : Rat) :
    maxList l = some m ↔ m ∈ l ∧ ∀ y ∈ l, y ≤ m := by
  cases l with
  | nil => simp [maxList]
  | cons x xs =>
    obtain ⟨hm, hle⟩ := foldl_max_spec xs x
    simp only [maxList, Option.some.injEq]
    constructor
    · rintro rfl; exact ⟨hm, hle⟩
    · rintro ⟨h1, h2⟩; exact le_antisymm (h2 _ hm) (hle _ h1)

theorem minList_spec (l : List Rat) (m : Rat) :
    minList l = some m ↔ m ∈ l ∧ ∀ y ∈ l, m ≤ y := by
  cases l with
  | nil => simp [minList]
  | cons x xs =>
    obtain ⟨hm, hle⟩ := foldl_min_spec xs x
    simp only [minList, Option.some.injEq]
    constructor
    · rintro rfl; exact ⟨hm, hle⟩
    · rintro ⟨h1, h2⟩; exact le_antisymm (hle _ h1) (h2 _ hm)

theorem maxList_isSome {l : List Rat} (h : l ≠ []) : ∃ m, maxList l = some m := by
  cases l with
  | nil => exact absurd rfl h
  | cons x xs => exact ⟨_, rfl⟩
theorem minList_isSome {l : List Rat} (h : l ≠ []) : ∃ m, minList l = some m := by
  cases l with
  | nil => exact absurd rfl h
  | cons x xs => exact ⟨_, rfl⟩

theorem maxList_perm {l l' : List Rat} (h : l.Perm l') : maxList l = maxList l' := by
  cases hl : maxList l with
  | none =>
    cases l with
    | nil => rw [← h.nil_eq]; rfl
    | cons => simp [maxList] at hl
  | some m =>
    symm; rw [maxList_spec] at hl ⊢
    exact ⟨h.mem_iff.1 hl.1, fun y hy => hl.2 y (h.mem_iff.2 hy)⟩

theorem minList_perm {l l' : List Rat} (h : l.Perm l') : minList l = minList l' := by
  cases hl : minList l with
  | none =>
    cases l with
    | nil => rw [← h.nil_eq]; rfl
    | cons => simp [minList] at hl
  | some m =>
    symm; rw [minList_spec] at hl ⊢
    exact ⟨h.mem_iff.1 hl.1, fun y hy => hl.2 y (h.mem_iff.2 hy)⟩

/-! ## Sorting and the stacking penalty -/

theorem sortDesc_perm (l : List Rat) : (sortDesc l).Perm l := List.mergeSort_perm _ _
theorem sortAsc_perm (l : List Rat) : (sortAsc l).Perm l := List.mergeSort_perm _ _

theorem sortDesc_pairwise (l : List Rat) : (sortDesc l).Pairwise (fun a b => b ≤ a) := by
  have := List.pairwise_mergeSort (le := fun a b : Rat => decide (b ≤ a))
    (by intro a b c; simp only [decide_eq_true_eq]; intro h1 h2; exact le_trans h2 h1)
    (by intro a b; simp only [Bool.or_eq_true, decide_eq_true_eq]; exact le_total b a) l
  simpa [sortDesc] using this

theorem sortAsc_pairwise (l : List Rat) : (sortAsc l).Pairwise (fun a b => a ≤ b) := by
  have := List.pairwise_mergeSort (le := fun a b : Rat => decide (a ≤ b))
    (by intro a b c; simp only [decide_eq_true_eq]; intro h1 h2; exact le_trans h1 h2)
    (by intro a b; simp only [Bool.or_eq_true, decide_eq_true_eq]; exact le_total a b) l
  simpa [sortAsc] using this

/-- `sortDesc l` is THE descending arrangement of `l`. -/
theorem sortDesc_unique {l s : List Rat} (hp : s.Perm l) (hs : s.Pairwise (fun a b => b ≤ a)) :
    sortDesc l = s :=
  List.Perm.eq_of_pairwise (le := fun a b => b ≤ a) (fun _ _ _ _ h1 h2 => le_antisymm h2 h1)
    (sortDesc_pairwise l) hs ((sortDesc_perm l).trans hp.symm)

theorem sortAsc_unique {l s : List Rat} (hp : s.Perm l) (hs : s.Pairwise (fun a b => a ≤ b)) :
    sortAsc l = s :=
  List.Perm.eq_of_pairwise (le := fun a b => a ≤ b) (fun _ _ _ _ h1 h2 => le_antisymm h1 h2)
    (sortAsc_pairwise l) hs ((sortAsc_perm l).trans hp.symm)

theorem sortDesc_eq_of_perm {l l' : List Rat} (h : l.Perm l') : sortDesc l = sortDesc l' :=
  sortDesc_unique ((sortDesc_perm l').trans h.symm) (sortDesc_pairwise l')
theorem sortAsc_eq_of_perm {l l' : List Rat} (h : l.Perm l') : sortAsc l = sortAsc l' :=
  sortAsc_unique ((sortAsc_perm l').trans h.symm) (sortAsc_pairwise l')

theorem penalize_perm (pen : Nat → Rat) {l l' : List Rat} (h : l.Perm l') :
    penalize pen l = penalize pen l' := by
  unfold penalize
  rw [sortDesc_eq_of_perm (h.filter _), sortAsc_eq_of_perm (h.filter _)]

/-- Independent reading of `penalize`: any descending arrangement of the non-negative values and any
ascending arrangement of the negative ones gives the chains. -/
theorem penalize_eq (pen : Nat → Rat) (vs pos neg : List Rat)
    (hp : pos.Perm (vs.filter fun v => decide (0 ≤ v))) (hps : pos.Pairwise (fun a b => b ≤ a))
    (hn : neg.Perm (vs.filter fun v => decide (v < 0))) (hns : neg.Pairwise (fun a b => a ≤ b)) :
    penalize pen vs = chainVal pen 0 pos * chainVal pen 0 neg - 1 := by
  unfold penalize; rw [sortDesc_unique hp hps, sortAsc_unique hn hns]

theorem chainVal_cons_le (pen : Nat → Rat) (i : Nat) (v : Rat) (vs : List Rat) (h : i ≤ 10) :
    chainVal pen i (v :: vs) = (1 + v * pen i) * chainVal pen (i + 1) vs := by
  rw [chainVal, if_neg (by omega)]

theorem chainVal_cut (pen : Nat → Rat) (i : Nat) (l : List Rat) (h : 10 < i) : chainVal pen i l = 1 := by
  cases l with
  | nil => rfl
  | cons v vs => rw [chainVal, if_pos h]

/-- Elements past the eleventh position are ignored. -/
theorem chainVal_append_cut (pen : Nat → Rat) (l ex : List Rat) (i : Nat) (h : 11 ≤ i + l.length) :
    chainVal pen i (l ++ ex) = chainVal pen i l := by
  induction l generalizing i with
  | nil => simp at h; rw [chainVal_cut pen i _ (by omega), chainVal_cut pen i _ (by omega)]
  | cons v vs ih =>
    by_cases hi : 10 < i
    · rw [chainVal_cut pen i _ hi, chainVal_cut pen i _ hi]
    · rw [List.cons_append, chainVal_cons_le pen i v _ (by omega), chainVal_cons_le pen i v _ (by omega),
        ih (i + 1) (by simp at h; omega)]

/-- A trailing zero does not change a chain. -/
theorem chainVal_append_zero (pen : Nat → Rat) (l : List Rat) (i : Nat) :
    chainVal pen i (l ++ [0]) = chainVal pen i l := by
  induction l generalizing i with
  | nil => by_cases hi : 10 < i
           · rw [chainVal_cut pen i _ hi, chainVal_cut pen i _ hi]
           · rw [List.nil_append, chainVal_cons_le pen i 0 _ (by omega)]; simp [chainVal]
  | cons v vs ih =>
    by_cases hi : 10 < i
    · rw [chainVal_cut pen i _ hi, chainVal_cut pen i _ hi]
    · rw [List.cons_append, chainVal_cons_le pen i v _ (by omega), chainVal_cons_le pen i v _ (by omega), ih]

theorem penalize_nil (pen : Nat → Rat) : penalize pen [] = 0 := by
  simp [penalize, sortDesc, sortAsc, chainVal]

theorem penalize_single (pen : Nat → Rat) (v : Rat) : penalize pen [v] = v * pen 0 := by
  by_cases h : 0 ≤ v
  · rw [penalize_eq pen [v] [v] [] (by simp [h]) (by simp) (by simp [not_lt.2 h]) (by simp)]
    simp [chainVal]
  · rw [penalize_eq pen [v] [] [v] (by simp [h]) (by simp) (by simp [not_le.1 h]) (by simp)]
    simp [chainVal]

/-! ## Aggregate picks -/

theorem pairLe_total (a b : Rat × Bool) : pairLe a b = true ∨ pairLe b a = true := by
  obtain ⟨a1, a2⟩ := a; obtain ⟨b1, b2⟩ := b
  simp only [pairLe, Bool.or_eq_true, Bool.and_eq_true, decide_eq_true_eq, beq_iff_eq,
    Bool.not_eq_true']
  rcases lt_trichotomy a1 b1 with h | h | h
  · exact Or.inl (Or.inl h)
  · subst h; cases a2 <;> cases b2 <;> simp
  · exact Or.inr (Or.inl h)

theorem pairLe_trans (a b c : Rat × Bool) (h1 : pairLe a b = true) (h2 : pairLe b c = true) :
    pairLe a c = true := by
  obtain ⟨a1, a2⟩ := a; obtain ⟨b1, b2⟩ := b; obtain ⟨c1, c2⟩ := c
  simp only [pairLe, Bool.or_eq_true, Bool.and_eq_true, decide_eq_true_eq, beq_iff_eq,
    Bool.not_eq_true'] at *
  rcases h1 with h1 | ⟨rfl, h1⟩ <;> rcases h2 with h2 | ⟨rfl, h2⟩
  · exact Or.inl (lt_trans h1 h2)
  · exact Or.inl h1
  · exact Or.inl h2
  · refine Or.inr ⟨rfl, ?_⟩; cases a2 <;> cases b2 <;> cases c2 <;> simp_all

theorem pairLe_antisymm (a b : Rat × Bool) (h1 : pairLe a b = true) (h2 : pairLe b a = true) : a = b := by
  obtain ⟨a1, a2⟩ := a; obtain ⟨b1, b2⟩ := b
  simp only [pairLe, Bool.or_eq_true, Bool.and_eq_true, decide_eq_true_eq, beq_iff_eq,
    Bool.not_eq_true'] at *
  rcases h1 with h1 | ⟨rfl, h1⟩ <;> rcases h2 with h2 | ⟨h2', h2⟩
  · exact absurd (lt_trans h1 h2) (lt_irrefl _)
  · subst h2'; exact absurd h1 (lt_irrefl _)
  · exact absurd h2 (lt_irrefl _)
  · cases a2 <;> cases b2 <;> simp_all

theorem pairLe_refl (a : Rat × Bool) : pairLe a a = true := by
  rcases pairLe_total a a with h | h <;> exact h

theorem foldl_sel_spec (xs : List (Rat × Bool)) (x : Rat × Bool) :
    xs.foldl (fun acc y => if pairLe acc y then acc else y) x ∈ x :: xs ∧
    ∀ y ∈ x :: xs, pairLe (xs.foldl (fun acc y => if pairLe acc y then acc else y) x) y = true := by
  induction xs generalizing x with
  | nil => simp [pairLe_refl]
  | cons z zs ih =>
    rw [List.foldl_cons]
    obtain ⟨hm, hle⟩ := ih (if pairLe x z then x else z)
    refine ⟨?_, ?_⟩
    · rcases List.mem_cons.1 hm with h | h
      · rw [h]; split <;> simp
      · simp [h]
    · intro y hy
      have h0 := hle _ List.mem_cons_self
      rcases List.mem_cons.1 hy with rfl | hy
      · refine pairLe_trans _ _ _ h0 ?_
        split
        · exact pairLe_refl _
        · rename_i hxz; rcases pairLe_total y z with h | h
          · exact absurd h hxz
          · exact h
      rcases List.mem_cons.1 hy with rfl | hy
      · refine pairLe_trans _ _ _ h0 ?_
        split
        · assumption
        · exact pairLe_refl _
      · exact hle _ (List.mem_cons_of_mem _ hy)

/-- `pickMinPair` returns THE least element of the total antisymmetric order `pairLe`. -/
theorem pickMinPair_spec (l : List (Rat × Bool)) (p : Rat × Bool) :
    pickMinPair l = some p ↔ p ∈ l ∧ ∀ q ∈ l, pairLe p q = true := by
  cases l with
  | nil => simp [pickMinPair]
  | cons x xs =>
    obtain ⟨hm, hle⟩ := foldl_sel_spec xs x
    simp only [pickMinPair, Option.some.injEq]
    constructor
    · rintro rfl; exact ⟨hm, hle⟩
    · rintro ⟨h1, h2⟩; exact pairLe_antisymm _ _ (hle _ h1) (h2 _ hm)

theorem pickMinPair_eq_none (l : List (Rat × Bool)) : pickMinPair l = none ↔ l = [] := by
  cases l <;> simp [pickMinPair]

theorem pickMinPair_perm {l l' : List (Rat × Bool)} (h : l.Perm l') : pickMinPair l = pickMinPair l' := by
  cases hl : pickMinPair l with
  | none => rw [pickMinPair_eq_none] at hl; subst hl; rw [← h.nil_eq]; rfl
  | some m =>
    symm; rw [pickMinPair_spec] at hl ⊢
    exact ⟨h.mem_iff.1 hl.1, fun y hy => hl.2 y (h.mem_iff.2 hy)⟩

theorem pickMin_perm {l l' : List NMod} (h : l.Perm l') : pickMin l = pickMin l' :=
  pickMinPair_perm (h.map _)
theorem pickMax_perm {l l' : List NMod} (h : l.Perm l') : pickMax l = pickMax l' := by
  unfold pickMax; rw [pickMinPair_perm (h.map _)]

/-! ## Deduplication and contributions -/
section
variable {α : Type} [DecidableEq α]

theorem mem_dedup (l : List α) : ∀ x, x ∈ dedup l ↔ x ∈ l := by
  induction l with
  | nil => simp [dedup]
  | cons y ys ih =>
    intro x
    simp only [dedup]
    split
    · rename_i hy; rw [ih, List.mem_cons]
      exact ⟨Or.inr, fun h => h.elim (fun e => e ▸ (ih y).1 hy) id⟩
    · rw [List.mem_cons, List.mem_cons, ih]

theorem nodup_dedup (l : List α) : (dedup l).Nodup := by
  induction l with
  | nil => simp [dedup]
  | cons y ys ih =>
    simp only [dedup]
    split
    · exact ih
    · rename_i hy; exact List.nodup_cons.2 ⟨hy, ih⟩

theorem dedup_perm {l l' : List α} (h : l.Perm l') : (dedup l).Perm (dedup l') :=
  (List.perm_ext_iff_of_nodup (nodup_dedup l) (nodup_dedup l')).2 fun x => by
    rw [mem_dedup, mem_dedup]; exact h.mem_iff
end

/-- Members of one aggregate group. -/
def groupOf (ns : List NMod) (mode : Nat) (k : Nat × Option Int) : List NMod :=
  (ns.filter (·.agg == mode)).filter fun n => n.op == k.1 && n.key == k.2
/-- Distinct `(operator, key)` pairs of one aggregate mode. -/
def keysOf (ns : List NMod) (mode : Nat) : List (Nat × Option Int) :=
  dedup ((ns.filter (·.agg == mode)).map fun n => (n.op, n.key))
def stackPart (ns : List NMod) : List (Nat × Rat × Bool) :=
  (ns.filter (·.agg == 1)).map fun n => (n.op, n.v, n.pen)
def groupPart (ns : List NMod) (mode : Nat) (pick : List NMod → Option (Rat × Bool)) :
    List (Nat × Rat × Bool) :=
  (keysOf ns mode).filterMap fun k => (pick (groupOf ns mode k)).map fun p => (k.1, p.1, p.2)

theorem contributions_eq (ns : List NMod) :
    contributions ns = stackPart ns ++ groupPart ns 2 pickMin ++ groupPart ns 3 pickMax := rfl

theorem groupPart_perm {ns ns' : List NMod} (h : ns.Perm ns') (mode : Nat)
    (pick : List NMod → Option (Rat × Bool)) (hpick : ∀ l l', l.Perm l' → pick l = pick l') :
    (groupPart ns mode pick).Perm (groupPart ns' mode pick) := by
  unfold groupPart
  have hf : (fun k : Nat × Option Int => (pick (groupOf ns mode k)).map fun p => (k.1, p.1, p.2)) =
      fun k => (pick (groupOf ns' mode k)).map fun p => (k.1, p.1, p.2) := by
    funext k
    exact congrArg _ (hpick _ _ (((h.filter _).filter _) : (groupOf ns mode k).Perm (groupOf ns' mode k)))
  rw [hf]
  exact (dedup_perm ((h.filter _).map _)).filterMap _

theorem contributions_perm {ns ns' : List NMod} (h : ns.Perm ns') :
    (contributions ns).Perm (contributions ns') := by
  rw [contributions_eq, contributions_eq]
  exact (((h.filter _).map _).append (groupPart_perm h 2 _ fun _ _ => pickMin_perm)).append
    (groupPart_perm h 3 _ fun _ _ => pickMax_perm)

theorem isEmpty_perm {α} {l l' : List α} (h : l.Perm l') : l.isEmpty = l'.isEmpty := by
  rw [Bool.eq_iff_iff, List.isEmpty_iff, List.isEmpty_iff]
  exact ⟨fun e => by subst e; exact h.nil_eq.symm, fun e => by subst e; exact h.symm.nil_eq.symm⟩

theorem opValues_perm (pen : Nat → Rat) {cs cs' : List (Nat × Rat × Bool)} (h : cs.Perm cs') (op : Nat) :
    (opValues pen cs op).Perm (opValues pen cs' op) := by
  unfold opValues
  have h1 := (h.filter fun c => c.1 == op && !c.2.2).map (·.2.1)
  have h2 := (h.filter fun c => c.1 == op && c.2.2).map (·.2.1)
  simp only []
  rw [penalize_perm pen h2]
  have he : ((cs.filter fun c => c.1 == op && c.2.2).map (·.2.1)).isEmpty =
      ((cs'.filter fun c => c.1 == op && c.2.2).map (·.2.1)).isEmpty :=
    isEmpty_perm h2
  rw [he]
  split
  · exact h1
  · exact h1.append_right _

theorem applyOp_perm (hig : Bool) (op : Nat) {vs vs' : List Rat} (h : vs.Perm vs') (value : Rat) :
    applyOp hig op vs value = applyOp hig op vs' value := by
  unfold applyOp
  have he : vs.isEmpty = vs'.isEmpty := isEmpty_perm h
  rw [he, maxList_perm h, minList_perm h, sumList_perm h, prodOnePlus_perm h]

theorem foldOps_perm (pen : Nat → Rat) (hig : Bool) {cs cs' : List (Nat × Rat × Bool)} (h : cs.Perm cs')
    (base : Rat) : foldOps pen hig cs base = foldOps pen hig cs' base := by
  unfold foldOps
  congr 1
  funext value op
  exact applyOp_perm hig op (opValues_perm pen h op) value

/-! ## Normalisation -/

/-- A known division operator with a zero operand. -/
def isBad (m : Mod) : Bool := knownOp m.op && (m.op == 3 || m.op == 8) && decide (m.value = 0)

/-- Total version of `normMod` (value 0 in the division-by-zero case, which `normAll` excludes). -/
def normVal (op : Nat) (v : Rat) : Rat := match normalize op v with | .ok r => r | .error _ => 0
def nmOf (stackable : Bool) (m : Mod) : NMod :=
  { op := m.op, v := normVal m.op m.value * m.resist, agg := m.agg, key := m.aggKey,
    pen := !stackable && !m.immune && isPenalizable m.op }

theorem normalize_error_iff (op : Nat) (v : Rat) :
    normalize op v = .error .divZero ↔ (op = 3 ∨ op = 8) ∧ v = 0 := by
  unfold normalize
  by_cases h : op = 3 ∨ op = 8
  · have : (op == 3 || op == 8) = true := by simpa using h
    rw [if_pos this]; by_cases hv : v = 0 <;> simp [hv, h]
  · have : ¬ (op == 3 || op == 8) = true := by simpa using h
    rw [if_neg this]
    simp only [h, false_and, iff_false]
    split_ifs <;> simp

theorem normMod_eq (st : Bool) (m : Mod) :
    normMod st m = if (m.op = 3 ∨ m.op = 8) ∧ m.value = 0 then .error .divZero else .ok (nmOf st m) := by
  unfold normMod nmOf normVal
  cases hn : normalize m.op m.value with
  | error e =>
    cases e
    rw [if_pos ((normalize_error_iff _ _).1 hn)]; rfl
  | ok r =>
    rw [if_neg]; · rfl
    intro h; rw [(normalize_error_iff _ _).2 h] at hn; cases hn

/-- `normAll` fails exactly when some known division has a zero operand, and otherwise maps the known
modifications one by one. -/
theorem normAll_eq (st : Bool) (mods : List Mod) :
    normAll st mods = if mods.any isBad then .error .divZero
      else .ok ((mods.filter fun m => knownOp m.op).map (nmOf st)) := by
  induction mods with
  | nil => rfl
  | cons m ms ih =>
    unfold normAll
    by_cases hk : knownOp m.op = true
    · rw [if_pos hk, normMod_eq, ih]
      by_cases hb : (m.op = 3 ∨ m.op = 8) ∧ m.value = 0
      · have : isBad m = true := by simp [isBad, hk, hb.2, hb.1]
        rw [if_pos hb, List.any_cons, this]; rfl
      · have : isBad m = false := by
          simp only [isBad, hk, Bool.true_and, Bool.and_eq_false_imp, Bool.or_eq_true, beq_iff_eq,
            decide_eq_false_iff_not]
          exact fun h1 h2 => hb ⟨h1, h2⟩
        rw [if_neg hb, List.any_cons, this, Bool.false_or, List.filter_cons_of_pos (by simpa using hk)]
        by_cases ha : ms.any isBad = true
        · rw [if_pos ha, if_pos ha]; rfl
        · rw [if_neg ha, if_neg ha]; rfl
    · have : isBad m = false := by simp [isBad, hk]
      rw [if_neg hk, ih, List.any_cons, this, Bool.false_or, List.filter_cons_of_neg (by simpa using hk)]

theorem any_perm {α} (p : α → Bool) {l l' : List α} (h : l.Perm l') : l.any p = l'.any p := by
  rw [Bool.eq_iff_iff, List.any_eq_true, List.any_eq_true]
  exact ⟨fun ⟨x, hx, hp⟩ => ⟨x, h.mem_iff.1 hx, hp⟩, fun ⟨x, hx, hp⟩ => ⟨x, h.mem_iff.2 hx, hp⟩⟩

theorem calculate_eq (pen : Nat → Rat) (st hig : Bool) (base : Rat) (mods : List Mod)
    (cap : Option Rat) (lim : Bool) :
    calculate pen st hig base mods cap lim =
      if mods.any isBad then .error .divZero else
        .ok (let v := foldOps pen hig (contributions ((mods.filter fun m => knownOp m.op).map (nmOf st))) base
             let v := match cap with | some c => min v c | none => v
             if lim then round2 v else v) := by
  unfold calculate
  rw [normAll_eq]
  split <;> rfl

theorem calculate_perm' (pen : Nat → Rat) (st hig : Bool) (base : Rat) {mods mods' : List Mod}
    (h : mods.Perm mods') (cap : Option Rat) (lim : Bool) :
    calculate pen st hig base mods cap lim = calculate pen st hig base mods' cap lim := by
  rw [calculate_eq, calculate_eq, any_perm _ h,
    foldOps_perm pen hig (contributions_perm ((h.filter _).map (nmOf st))) base]

end Eos.Calc
