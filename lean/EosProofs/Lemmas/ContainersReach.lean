import EosProofs.Lemmas.ContainersStep
/-! `Inv` is preserved by every operation (`step_inv`), so it holds in every world reachable from the empty
one (`run_inv`); an operation that answers with an error returns the state it was given
(`step_error_same`).  Core Lean only. -/
namespace Eos.Containers

theorem OwnInv.of_contPart {s s' : World} (h : OwnInv s) (e : s'.contPart = s.contPart) : OwnInv s' := by
  simp only [World.contPart, Prod.mk.injEq] at e
  obtain ⟨e1, e2, _, e4, e5⟩ := e
  have hc : ∀ q, contents s' q = contents s q := by
    intro q; cases q <;> simp [contents, e1, e2, e4]
  exact h.same hc e5 (fun f r => by rw [e1]; exact h.noTrail f r)

theorem step_own (U : Univ) {s : World} (h : OwnInv s) (op : Op) : OwnInv (step U s op).2 := by
  cases hop : op.isFitOp
  · cases op with
    | insert f r index v => exact listInsert_own U h f r index v
    | append f r v => exact listAppend_own U h f r v
    | place f r index v => exact listPlace_own U h f r index v
    | equip f r v => exact listEquip_own U h f r v
    | removeIdx f r index => exact listAtIdx_own h f r index (fun k hk => listRemoveAt_own h f r k hk)
    | removeVal f r v => exact listAtVal_own h f r v (fun k hk => listRemoveAt_own h f r k hk)
    | freeIdx f r index => exact listAtIdx_own h f r index (fun k hk => listFreeAt_own h f r k hk)
    | freeVal f r v => exact listAtVal_own h f r v (fun k hk => listFreeAt_own h f r k hk)
    | clear f r => exact listClear_own h f r
    | setAdd f k v => exact setAdd_own U h _ v
    | setRemove f k v => exact setRemove_own h _ v
    | setClear f k => exact setClear_own h _
    | tuAdd f v => exact tuAdd_own U h f v
    | tuRemove f v => exact tuRemove_own U h f v
    | tuDel f t => exact tuDel_own U h f t
    | tuClear f => exact keyedClear_own h _
    | dictSet m key v => exact keyedAdd_own U h _ key v
    | dictDel m key => exact dictDel_own h m key
    | dictClear m => exact keyedClear_own h _
    | assign c v => exact assign_own U h c v
    | _ => simp [Op.isFitOp] at hop
  · exact h.of_contPart (step_contPart U s op hop)

/-- A container that is not the operation's target keeps its set and keyed storage. -/
theorem step_same_at (U : Univ) (s : World) (op : Op) (c : SetId) (hc : some c ≠ op.target) :
    (step U s op).2.sets c = s.sets c ∧ (step U s op).2.keyed c = s.keyed c := by
  cases hop : op.isFitOp
  · exact (step_frame U s op hop).2 c hc
  · have := step_contPart U s op hop
    simp only [World.contPart, Prod.mk.injEq] at this
    exact ⟨by rw [this.2.1], by rw [this.2.2.1]⟩

theorem keyedAdd_keyed (U : Univ) {s : World} (h : OwnInv s) {c : SetId} (hk : KeyedInv s c) (key : Nat) (v : Option Nat) :
    KeyedInv (keyedAdd U s c key v).2 c ∧
    ∀ e ∈ (keyedAdd U s c key v).2.keyed c, e ∈ s.keyed c ∨ ∃ i, v = some i ∧ e = (key, i) := by
  rcases keyedAdd_cases U s c key v with ⟨_, e⟩ | ⟨i, hv, hl, hi, e⟩ <;> rw [e]
  · exact ⟨hk, fun e he => Or.inl he⟩
  · rw [setAdd_ok_eq h hi]
    refine ⟨hk.add hl, fun e he => ?_⟩
    simp only [setOwner_keyed, setSet_keyed, setKeyed_keyed, upd_same, List.mem_cons] at he
    rcases he with he | he
    · exact Or.inr ⟨i, hv, he⟩
    · exact Or.inl he

/-- `ItemSet.remove` then `del map[key]`, when the key really files the item: never the half-way KeyError. -/
theorem keyedRemove_keyed {s : World} (h : OwnInv s) {c : SetId} (hk : KeyedInv s c) {key i : Nat}
    (hl : i ∈ s.sets c → lookupKey key (s.keyed c) = some i) :
    KeyedInv (keyedRemove s c key (some i)).2 c ∧
    (∀ e ∈ (keyedRemove s c key (some i)).2.keyed c, e ∈ s.keyed c) ∧
    (∀ e s', keyedRemove s c key (some i) = (.error e, s') → s' = s) := by
  rcases keyedRemove_cases s c key (some i) with e | ⟨j, hj, hm, hn, e⟩ | ⟨j, hj, hm, _, e⟩ <;> rw [e]
  · exact ⟨hk, fun _ he => he, fun _ _ he => by cases he; rfl⟩
  · cases hj; rw [hl hm] at hn; cases hn
  · cases hj
    refine ⟨hk.remove (h.nodup (.set c)) (hl hm), fun e he => ?_, fun _ _ he => by cases he⟩
    simp only [setKeyed_keyed, upd_same] at he
    exact (delKey_sublist key _).subset he

theorem keyedClear_keyed (s : World) (c : SetId) : KeyedInv (keyedClear s c).2 c := by
  refine ⟨?_, ?_⟩ <;> simp [keyedClear, setClear]

theorem step_tu (U : Univ) {s : World} (h : Inv U s) (op : Op) (f : Nat) :
    KeyedInv (step U s op).2 (.skills f) ∧ ∀ e ∈ (step U s op).2.keyed (.skills f), e.1 = U.tid e.2 := by
  by_cases hc : some (SetId.skills f) = op.target
  · obtain ⟨hk, hkey⟩ := h.tu f
    cases op with
    | tuAdd f' v =>
      simp only [Op.target, Option.some.injEq, SetId.skills.injEq] at hc; subst hc
      show KeyedInv (tuAdd U s f v).2 _ ∧ ∀ e ∈ (tuAdd U s f v).2.keyed _, _
      unfold tuAdd
      cases v with
      | none => exact ⟨hk, hkey⟩
      | some i =>
        obtain ⟨h1, h2⟩ := keyedAdd_keyed U h.own hk (U.tid i) (some i)
        refine ⟨h1, fun e he => ?_⟩
        rcases h2 e he with he | ⟨j, hj, he⟩
        · exact hkey e he
        · cases hj; rw [he]
    | tuRemove f' v =>
      simp only [Op.target, Option.some.injEq, SetId.skills.injEq] at hc; subst hc
      show KeyedInv (tuRemove U s f v).2 _ ∧ ∀ e ∈ (tuRemove U s f v).2.keyed _, _
      unfold tuRemove
      cases v with
      | none => exact ⟨hk, hkey⟩
      | some i =>
        obtain ⟨h1, h2, _⟩ := keyedRemove_keyed h.own hk (key := U.tid i) (i := i) (fun hm => h.tu_lookup hm)
        exact ⟨h1, fun e he => hkey e (h2 e he)⟩
    | tuDel f' t =>
      simp only [Op.target, Option.some.injEq, SetId.skills.injEq] at hc; subst hc
      show KeyedInv (tuDel U s f t).2 _ ∧ ∀ e ∈ (tuDel U s f t).2.keyed _, _
      unfold tuDel
      split
      · exact ⟨hk, hkey⟩
      · rename_i i _
        unfold tuRemove
        obtain ⟨h1, h2, _⟩ := keyedRemove_keyed h.own hk (key := U.tid i) (i := i) (fun hm => h.tu_lookup hm)
        exact ⟨h1, fun e he => hkey e (h2 e he)⟩
    | tuClear f' =>
      simp only [Op.target, Option.some.injEq, SetId.skills.injEq] at hc; subst hc
      refine ⟨keyedClear_keyed s _, fun e he => ?_⟩
      simp [step, keyedClear, setClear] at he
    | _ => simp [Op.target] at hc
  · obtain ⟨h1, h2⟩ := step_same_at U s op _ hc
    obtain ⟨hk, hkey⟩ := h.tu f
    exact ⟨⟨by rw [h1, h2]; exact hk.vals, by rw [h2]; exact hk.keys⟩, by rw [h2]; exact hkey⟩

theorem step_dict (U : Univ) {s : World} (h : Inv U s) (op : Op) (m : Nat) : KeyedInv (step U s op).2 (.auto m) := by
  by_cases hc : some (SetId.auto m) = op.target
  · have hk := h.dict m
    cases op with
    | dictSet m' key v =>
      simp only [Op.target, Option.some.injEq, SetId.auto.injEq] at hc; subst hc
      exact (keyedAdd_keyed U h.own hk key v).1
    | dictDel m' key =>
      simp only [Op.target, Option.some.injEq, SetId.auto.injEq] at hc; subst hc
      show KeyedInv (dictDel s m key).2 _
      unfold dictDel
      split
      · exact hk
      · rename_i i hl
        exact (keyedRemove_keyed h.own hk (fun _ => hl)).1
    | dictClear m' =>
      simp only [Op.target, Option.some.injEq, SetId.auto.injEq] at hc; subst hc
      exact keyedClear_keyed s _
    | _ => simp [Op.target] at hc
  · obtain ⟨h1, h2⟩ := step_same_at U s op _ hc
    have hk := h.dict m
    exact ⟨by rw [h1, h2]; exact hk.vals, by rw [h2]; exact hk.keys⟩

theorem step_fit (U : Univ) {s : World} (h : Inv U s) (op : Op) :
    BackInv (step U s op).2.ssFits (step U s op).2.fitSs ∧ BackInv (step U s op).2.flFits (step U s op).2.fitFl := by
  cases hop : op.isFitOp
  · have := (step_frame U s op hop).1
    simp only [World.fitPart, Prod.mk.injEq] at this
    obtain ⟨e1, e2, e3, e4, _⟩ := this
    rw [e1, e2, e3, e4]
    exact ⟨h.ss, h.fl⟩
  · cases op with
    | ssAdd g f =>
      simp only [step]; unfold ssAdd
      split
      · exact ⟨h.ss, h.fl⟩
      · rename_i hf; exact ⟨h.ss.add hf, h.fl⟩
    | ssRemove g f =>
      simp only [step]; unfold ssRemove
      split
      · rename_i hf; exact ⟨h.ss.remove hf, h.fl⟩
      · exact ⟨h.ss, h.fl⟩
    | ssClear g => exact ⟨h.ss.clear g, h.fl⟩
    | flAdd g f =>
      simp only [step]; unfold flAdd
      split
      · exact ⟨h.ss, h.fl⟩
      · rename_i hf; exact ⟨h.ss, h.fl.add hf⟩
    | flRemove g f =>
      simp only [step]; unfold flRemove
      split
      · rename_i hf; exact ⟨h.ss, h.fl.remove hf⟩
      · exact ⟨h.ss, h.fl⟩
    | flClear g => exact ⟨h.ss, h.fl.clear g⟩
    | setDmg f a => simp only [step]; unfold setDmg; split <;> exact ⟨h.ss, h.fl⟩
    | setRah f a => simp only [step]; unfold setRah; split <;> exact ⟨h.ss, h.fl⟩
    | _ => simp [Op.isFitOp] at hop

theorem step_inv (U : Univ) {s : World} (h : Inv U s) (op : Op) : Inv U (step U s op).2 :=
  ⟨step_own U h.own op, step_tu U h op, step_dict U h op, (step_fit U h op).1, (step_fit U h op).2⟩

theorem run_inv (U : Univ) {s : World} (h : Inv U s) (ops : List Op) : Inv U (run U s ops) := by
  induction ops generalizing s with
  | nil => exact h
  | cons op ops ih => exact ih (step_inv U h op)

/-! ## C06 core -/

theorem step_error_same (U : Univ) {s : World} (h : Inv U s) {op : Op} {e : Err} {s' : World}
    (he : step U s op = (.error e, s')) : s' = s := by
  have hnt := h.own.noTrail
  cases op with
  | insert f r index v =>
    rcases listInsert_cases U s f r index v (hnt f r) with e1 | ⟨_, e1⟩ | ⟨i, _, _, e1⟩ | ⟨i, _, _, e1⟩ <;>
      (simp only [step] at he; rw [e1] at he; cases he) <;> rfl
  | append f r v =>
    rcases listAppend_cases U s f r v with e1 | ⟨i, _, _, e1⟩ | ⟨i, _, _, e1⟩ <;>
      (simp only [step] at he; rw [e1] at he; cases he) <;> rfl
  | place f r index v =>
    rcases listPlace_cases U s f r index v (hnt f r) with ⟨_, e1⟩ | ⟨i, _, k, _, _, _, e1⟩ <;>
      (simp only [step] at he; rw [e1] at he; cases he) <;> rfl
  | equip f r v =>
    rcases listEquip_cases U s f r v (hnt f r) with ⟨_, e1⟩ | ⟨i, _, _, ⟨k, _, _, e1⟩ | ⟨_, e1⟩⟩ <;>
      (simp only [step] at he; rw [e1] at he; cases he) <;> rfl
  | removeIdx f r index =>
    rcases listAtIdx_cases listRemoveAt s f r index with e1 | ⟨k, _, _, e1⟩ <;>
      (simp only [step] at he; rw [e1] at he)
    · cases he; rfl
    · simp [listRemoveAt] at he
  | removeVal f r v =>
    rcases listAtVal_cases listRemoveAt s f r v with e1 | ⟨k, _, _, e1⟩ <;>
      (simp only [step] at he; rw [e1] at he)
    · cases he; rfl
    · simp [listRemoveAt] at he
  | freeIdx f r index =>
    rcases listAtIdx_cases listFreeAt s f r index with e1 | ⟨k, _, hk, e1⟩ <;>
      (simp only [step] at he; rw [e1] at he)
    · cases he; rfl
    · rw [listFreeAt_eq s f r k _ (List.getElem?_eq_getElem hk)] at he; cases he
  | freeVal f r v =>
    rcases listAtVal_cases listFreeAt s f r v with e1 | ⟨k, hk, _, e1⟩ <;>
      (simp only [step] at he; rw [e1] at he)
    · cases he; rfl
    · rw [listFreeAt_eq s f r k _ hk] at he; cases he
  | clear f r => simp [step, listClear] at he
  | setAdd f k v =>
    rcases setAdd_cases U s (.plain f k) v with e1 | ⟨i, _, _, e1⟩ | ⟨i, _, _, e1⟩ <;>
      (simp only [step] at he; rw [e1] at he; cases he) <;> rfl
  | setRemove f k v =>
    rcases setRemove_cases s (.plain f k) v with e1 | ⟨i, _, _, e1⟩ <;>
      (simp only [step] at he; rw [e1] at he; cases he) <;> rfl
  | setClear f k => simp [step, setClear] at he
  | tuAdd f v =>
    simp only [step, tuAdd] at he
    cases v with
    | none => cases he; rfl
    | some i =>
      rcases keyedAdd_cases U s (.skills f) (U.tid i) (some i) with ⟨_, e1⟩ | ⟨j, _, _, _, e1⟩ <;>
        (simp only at he; rw [e1] at he; cases he) <;> rfl
  | tuRemove f v =>
    simp only [step, tuRemove] at he
    cases v with
    | none => cases he; rfl
    | some i => exact (keyedRemove_keyed h.own (h.tu f).1 (key := U.tid i) (i := i) (fun hm => h.tu_lookup hm)).2.2 _ _ he
  | tuDel f t =>
    simp only [step, tuDel] at he
    split at he
    · cases he; rfl
    · rename_i i _
      exact (keyedRemove_keyed h.own (h.tu f).1 (key := U.tid i) (i := i) (fun hm => h.tu_lookup hm)).2.2 _ _ he
  | tuClear f => simp [step, keyedClear] at he
  | dictSet m key v =>
    rcases keyedAdd_cases U s (.auto m) key v with ⟨_, e1⟩ | ⟨j, _, _, _, e1⟩ <;>
      (simp only [step] at he; rw [e1] at he; cases he) <;> rfl
  | dictDel m key =>
    simp only [step, dictDel] at he
    split at he
    · cases he; rfl
    · rename_i i hl
      exact (keyedRemove_keyed h.own (h.dict m) (fun _ => hl)).2.2 _ _ he
  | dictClear m => simp [step, keyedClear] at he
  | assign c v =>
    rcases assign_cases U h.own c v with ⟨_, e1⟩ | ⟨_, e1⟩ | ⟨i, _, _, e1⟩ <;>
      (simp only [step] at he; rw [e1] at he; cases he) <;> rfl
  | ssAdd g f => simp only [step, ssAdd] at he; split at he <;> cases he; rfl
  | ssRemove g f => simp only [step, ssRemove] at he; split at he <;> cases he; rfl
  | ssClear g => simp [step, ssClear] at he
  | flAdd g f => simp only [step, flAdd] at he; split at he <;> cases he; rfl
  | flRemove g f => simp only [step, flRemove] at he; split at he <;> cases he; rfl
  | flClear g => simp [step, flClear] at he
  | setDmg f a => simp only [step, setDmg] at he; split at he <;> cases he; rfl
  | setRah f a => simp only [step, setRah] at he; split at he <;> cases he; rfl

/-! ## reachable worlds -/

/-- Worlds reachable from the empty world by an arbitrary sequence of public operations. -/
def Reachable (U : Univ) (s : World) : Prop := ∃ ops, s = run U World.empty ops

theorem reachable_inv {U : Univ} {s : World} (h : Reachable U s) : Inv U s := by
  obtain ⟨ops, rfl⟩ := h
  exact run_inv U (Inv.empty U) ops

theorem run_append (U : Univ) (s : World) (ops : List Op) (op : Op) : run U s (ops ++ [op]) = (step U (run U s ops) op).2 := by
  induction ops generalizing s with
  | nil => rfl
  | cons o os ih => exact ih _

theorem reachable_step {U : Univ} {s : World} (h : Reachable U s) (op : Op) : Reachable U (step U s op).2 := by
  obtain ⟨ops, rfl⟩ := h
  exact ⟨ops ++ [op], (run_append U _ ops op).symm⟩

/-- Racks an operation does not address are left alone. -/
def Op.rackTarget : Op → Option (Nat × Nat)
  | .insert f r _ _ | .append f r _ | .place f r _ _ | .equip f r _ | .removeIdx f r _ | .removeVal f r _
  | .freeIdx f r _ | .freeVal f r _ | .clear f r => some (f, r)
  | _ => none

theorem setList_lists_other {s : World} {f r f' r' : Nat} (l : List (Option Nat)) (h : (f, r) ≠ (f', r')) :
    (s.setList f r l).lists f' r' = s.lists f' r' := by
  rw [setList_lists, if_neg]
  rintro ⟨rfl, rfl⟩; exact h rfl

macro "lists_close" : tactic =>
  `(tactic| first
    | rfl
    | ((try simp only [setList_setList, setOwner_lists, setSet_lists, setKeyed_lists, setSlot_lists, dropOwners_lists])
       first
       | rfl
       | exact setList_lists_other _ (by assumption)))

theorem step_lists_same (U : Univ) (s : World) (op : Op) (f' r' : Nat) (hne : op.rackTarget ≠ some (f', r')) :
    (step U s op).2.lists f' r' = s.lists f' r' := by
  cases hop : op.isFitOp
  · cases op with
    | insert f r index v =>
      have hne' : (f, r) ≠ (f', r') := fun e => hne (by rw [Op.rackTarget, e])
      show (listInsert U s f r index v).2.lists f' r' = _
      unfold listInsert; dsimp only; repeat' split
      all_goals lists_close
    | append f r v =>
      have hne' : (f, r) ≠ (f', r') := fun e => hne (by rw [Op.rackTarget, e])
      show (listAppend U s f r v).2.lists f' r' = _
      unfold listAppend; dsimp only; repeat' split
      all_goals lists_close
    | place f r index v =>
      have hne' : (f, r) ≠ (f', r') := fun e => hne (by rw [Op.rackTarget, e])
      show (listPlace U s f r index v).2.lists f' r' = _
      unfold listPlace listPut; dsimp only; repeat' split
      all_goals lists_close
    | equip f r v =>
      have hne' : (f, r) ≠ (f', r') := fun e => hne (by rw [Op.rackTarget, e])
      show (listEquip U s f r v).2.lists f' r' = _
      unfold listEquip listPut; dsimp only; repeat' split
      all_goals lists_close
    | removeIdx f r index =>
      have hne' : (f, r) ≠ (f', r') := fun e => hne (by rw [Op.rackTarget, e])
      show (listAtIdx listRemoveAt s f r index).2.lists f' r' = _
      unfold listAtIdx listRemoveAt; dsimp only; repeat' split
      all_goals lists_close
    | removeVal f r v =>
      have hne' : (f, r) ≠ (f', r') := fun e => hne (by rw [Op.rackTarget, e])
      show (listAtVal listRemoveAt s f r v).2.lists f' r' = _
      unfold listAtVal listRemoveAt; dsimp only; repeat' split
      all_goals lists_close
    | freeIdx f r index =>
      have hne' : (f, r) ≠ (f', r') := fun e => hne (by rw [Op.rackTarget, e])
      show (listAtIdx listFreeAt s f r index).2.lists f' r' = _
      unfold listAtIdx listFreeAt; dsimp only; repeat' split
      all_goals lists_close
    | freeVal f r v =>
      have hne' : (f, r) ≠ (f', r') := fun e => hne (by rw [Op.rackTarget, e])
      show (listAtVal listFreeAt s f r v).2.lists f' r' = _
      unfold listAtVal listFreeAt; dsimp only; repeat' split
      all_goals lists_close
    | clear f r =>
      have hne' : (f, r) ≠ (f', r') := fun e => hne (by rw [Op.rackTarget, e])
      show (listClear s f r).2.lists f' r' = _
      unfold listClear; lists_close
    | setAdd f k v =>
      rcases setAdd_cases U s (.plain f k) v with e | ⟨i, _, _, e⟩ | ⟨i, _, _, e⟩ <;> (simp only [step]; rw [e]) <;> rfl
    | setRemove f k v =>
      rcases setRemove_cases s (.plain f k) v with e | ⟨i, _, _, e⟩ <;> (simp only [step]; rw [e]) <;> rfl
    | setClear f k => rfl
    | tuAdd f v =>
      show (tuAdd U s f v).2.lists f' r' = _
      unfold tuAdd
      cases v with
      | none => rfl
      | some i => rcases keyedAdd_cases U s (.skills f) (U.tid i) (some i) with ⟨_, e⟩ | ⟨j, _, _, _, e⟩ <;> (dsimp only; rw [e]) <;> rfl
    | tuRemove f v =>
      show (tuRemove U s f v).2.lists f' r' = _
      unfold tuRemove
      cases v with
      | none => rfl
      | some i =>
        rcases keyedRemove_cases s (.skills f) (U.tid i) (some i) with e | ⟨j, _, _, _, e⟩ | ⟨j, _, _, _, e⟩ <;>
          (dsimp only; rw [e]) <;> rfl
    | tuDel f t =>
      show (tuDel U s f t).2.lists f' r' = _
      unfold tuDel tuRemove; split
      · rfl
      · rename_i i _
        rcases keyedRemove_cases s (.skills f) (U.tid i) (some i) with e | ⟨j, _, _, _, e⟩ | ⟨j, _, _, _, e⟩ <;>
          (dsimp only; rw [e]) <;> rfl
    | tuClear f => rfl
    | dictSet m key v =>
      rcases keyedAdd_cases U s (.auto m) key v with ⟨_, e⟩ | ⟨i, _, _, _, e⟩ <;> (simp only [step]; rw [e]) <;> rfl
    | dictDel m key =>
      show (dictDel s m key).2.lists f' r' = _
      unfold dictDel; split
      · rfl
      · rename_i i _
        rcases keyedRemove_cases s (.auto m) key (some i) with e | ⟨j, _, _, _, e⟩ | ⟨j, _, _, _, e⟩ <;> rw [e] <;> rfl
    | dictClear m => rfl
    | assign c v =>
      show (assign U s c v).2.lists f' r' = _
      unfold assign; dsimp only; repeat' split
      all_goals rfl
    | _ => simp [Op.isFitOp] at hop
  · have := step_contPart U s op hop
    simp only [World.contPart, Prod.mk.injEq] at this
    rw [this.1]

end Eos.Containers

