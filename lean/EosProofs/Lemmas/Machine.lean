import EosProofs.Lemmas.DepCache
/-! Abstract lazy-cache machine over a configuration-indexed family of dependency graphs.

This is the algorithmic skeleton of `MutableAttrMap` + `CalculationService`: values are computed on
demand and cached; a configuration change removes a set `R` of cached entries.  `Legal` spells out what
the removed set has to satisfy (exactly the hypotheses of `DepCache.inv_after_change`); everything
observable is then a function of the current configuration alone. -/
namespace Eos.Machine
open Eos.DepCache

variable {C N V : Type}

structure State (C N V : Type) where
  cfg : C
  cache : N → Option V

inductive Step (C N V : Type)
  /-- a public read: fills the (dependency-closed) set `S` with freshly calculated values -/
  | read (S : N → Bool)
  /-- a mutation: new configuration, `R` = cache entries the handlers remove -/
  | change (c' : C) (R : N → Bool)

def step (W : C → Graph N V) (s : State C N V) : Step C N V → State C N V
  | .read S => { s with cache := fun n => if S n then spec (W s.cfg) n else s.cache n }
  | .change c' R => { cfg := c', cache := restrict s.cache R }

def Step.isRead : Step C N V → Bool
  | .read _ => true
  | .change _ _ => false

/-- What a step has to satisfy in the state where it is taken. -/
def Legal (W : C → Graph N V) (s : State C N V) : Step C N V → Prop
  | .read S => ∀ n, S n = true → ∀ m, m ∈ (W s.cfg).deps n → spec (W s.cfg) m ≠ none →
      (S m = true ∨ s.cache m ≠ none)
  | .change c' R =>
    (∀ n, s.cache n ≠ none → R n = false →
        (W c').deps n = (W s.cfg).deps n ∧ ∀ f, (W c').eval n f = (W s.cfg).eval n f) ∧
    (∀ n, s.cache n ≠ none → R n = false → ∀ m, m ∈ (W c').deps n → R m = false) ∧
    (∀ n, s.cache n ≠ none → R n = false → ∀ m, m ∈ (W c').deps n →
        (spec (W s.cfg) m = none ↔ spec (W c') m = none))

def run (W : C → Graph N V) (s : State C N V) : List (Step C N V) → State C N V
  | [] => s
  | st :: rest => run W (step W s st) rest

def LegalRun (W : C → Graph N V) (s : State C N V) : List (Step C N V) → Prop
  | [] => True
  | st :: rest => Legal W s st ∧ LegalRun W (step W s st) rest

def Good (W : C → Graph N V) (s : State C N V) : Prop := Inv (W s.cfg) s.cache

theorem good_init (W : C → Graph N V) (c : C) : Good W { cfg := c, cache := fun _ => none } := by
  constructor
  · intro n v h; cases h
  · intro n h; exact absurd rfl h

theorem good_step (W : C → Graph N V) (s : State C N V) (st : Step C N V)
    (hg : Good W s) (hl : Legal W s st) : Good W (step W s st) := by
  cases st with
  | read S => exact inv_after_fill (W s.cfg) s.cache S hg hl
  | change c' R =>
    obtain ⟨h1, h2, h3⟩ := hl
    exact inv_after_change (W s.cfg) (W c') s.cache R hg h1 h2 h3

theorem good_run (W : C → Graph N V) : ∀ (steps : List (Step C N V)) (s : State C N V),
    Good W s → LegalRun W s steps → Good W (run W s steps)
  | [], _, hg, _ => hg
  | st :: rest, s, hg, hl => good_run W rest (step W s st) (good_step W s st hg hl.1) hl.2

/-- What a public read returns: the cached value if there is one, a fresh calculation otherwise. -/
def observe (W : C → Graph N V) (s : State C N V) (n : N) : Option V :=
  match s.cache n with
  | some v => some v
  | none => spec (W s.cfg) n

theorem observe_eq_spec (W : C → Graph N V) (s : State C N V) (hg : Good W s) (n : N) :
    observe W s n = spec (W s.cfg) n := by
  unfold observe
  cases h : s.cache n with
  | none => rfl
  | some v => exact (hg.coh n v h).symm

/-- Reads never change the configuration. -/
theorem cfg_step_read (W : C → Graph N V) (s : State C N V) (S : N → Bool) :
    (step W s (.read S)).cfg = s.cfg := rfl

theorem cfg_run_filter (W : C → Graph N V) : ∀ (steps : List (Step C N V)) (s s' : State C N V),
    s.cfg = s'.cfg → (run W s steps).cfg = (run W s' (steps.filter (fun st => !st.isRead))).cfg
  | [], _, _, h => h
  | .read S :: rest, s, s', h => by
    simp only [run, List.filter, Step.isRead, Bool.not_true]
    exact cfg_run_filter W rest _ s' (by simpa [step] using h)
  | .change c' R :: rest, s, s', _ => by
    simp only [run, List.filter, Step.isRead, Bool.not_false]
    exact cfg_run_filter W rest _ _ rfl

end Eos.Machine
