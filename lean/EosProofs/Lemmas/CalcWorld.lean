import EosModel.World
/-! Provenance of gathered modifications (`Eos.World.gather`): induction over the nested folds. -/
namespace Eos.World
open Eos.Calc

theorem foldlM_except_inv {ε α β : Type} (P : β → Prop) (f : β → α → Except ε β) (l : List α) :
    ∀ (init r : β), P init → (∀ acc a acc', a ∈ l → P acc → f acc a = .ok acc' → P acc') →
      l.foldlM f init = .ok r → P r := by
  induction l with
  | nil => intro init r h0 _ h; simp only [List.foldlM_nil, pure, Except.pure, Except.ok.injEq] at h; exact h ▸ h0
  | cons a l ih =>
    intro init r h0 hstep h
    rw [List.foldlM_cons] at h
    cases hf : f init a with
    | error e => rw [hf] at h; cases h
    | ok b =>
      rw [hf] at h
      exact ih b r (hstep init a b List.mem_cons_self h0 hf)
        (fun acc a' acc' ha' => hstep acc a' acc' (List.mem_cons_of_mem _ ha')) h

variable (u : Universe) (cfg : Config)

/-- Where a gathered modification comes from. -/
def Prov (immune : List Int) (rd : Reader) (x : Item) (tx : ItemType) (attr : Int) (md : Mod) : Prop :=
  ∃ a ∈ cfg.items, ∃ ta, itemType? u cfg a = some ta ∧ ∃ e ∈ runningEffects u cfg a, ∃ m : Modifier,
    m.tgtAttr = attr ∧ rd a m.srcAttr = .ok md.value ∧ resistOf cfg rd e x = .ok md.resist ∧
    md.op = m.op ∧ md.agg = m.agg ∧ md.aggKey = m.aggKey ∧
    md.immune = (match ta.category with | some c => immune.contains c | none => false) ∧
    ((m ∈ e.mods ∧ affectsLocal cfg a m x tx = true) ∨
     (m ∈ e.mods ∧ m.domain = 4 ∧ ∃ tg ∈ projectionTargets cfg a e, affectsProjected cfg a m tg x tx = true) ∨
     (e.isBuff = true ∧ ((∃ bms, buffModifiers u rd a = .ok bms ∧ m ∈ bms) ∨ (m ∈ e.mods ∧ m.domain = 4)) ∧
        ∃ tg ∈ boostTargets cfg a.fit, affectsProjected cfg a m tg x tx = true))

def mkMod (rd : Reader) (x a : Item) (e : Effect) (imm : Bool) (m : Modifier) (acc : List Mod) :
    Except Val (List Mod) :=
  match rd a m.srcAttr with
  | .absent => .ok acc
  | .ok v => (match resistOf cfg rd e x with
    | .ok r => .ok (acc ++ [{ op := m.op, value := v, resist := r, agg := m.agg, aggKey := m.aggKey, immune := imm }])
    | w => .error w)
  | w => .error w

def effStep (immune : List Int) (rd : Reader) (x : Item) (tx : ItemType) (attr : Int) (a : Item) (ta : ItemType)
    (acc : List Mod) (e : Effect) : Except Val (List Mod) := do
  let imm := match ta.category with | some c => immune.contains c | none => false
  let acc ← (e.mods.filter fun m => m.tgtAttr == attr && affectsLocal cfg a m x tx).foldlM (init := acc)
    fun acc m => mkMod cfg rd x a e imm m acc
  let acc ← (projectionTargets cfg a e).foldlM (init := acc) fun acc tg =>
    (e.mods.filter fun m => m.domain == 4 && m.tgtAttr == attr && affectsProjected cfg a m tg x tx).foldlM
      (init := acc) fun acc m => mkMod cfg rd x a e imm m acc
  if e.isBuff then do
    let bms ← (if u.buffs.any (·.tgtAttr == attr) then buffModifiers u rd a else pure [])
    let bms := bms ++ e.mods.filter (·.domain == 4)
    (boostTargets cfg a.fit).foldlM (init := acc) fun acc tg =>
      (bms.filter fun m => m.tgtAttr == attr && affectsProjected cfg a m tg x tx).foldlM
        (init := acc) fun acc m => mkMod cfg rd x a e imm m acc
  else pure acc

theorem gather_eq (immune : List Int) (rd : Reader) (x : Item) (tx : ItemType) (attr : Int) :
    gather u cfg immune rd x tx attr = cfg.items.foldlM (init := []) fun acc a =>
      match itemType? u cfg a with
      | none => .ok acc
      | some ta => (runningEffects u cfg a).foldlM (init := acc) (effStep u cfg immune rd x tx attr a ta) := rfl

theorem except_bind_ok {ε α β : Type} {x : Except ε α} {f : α → Except ε β} {r : β}
    (h : (x >>= f) = .ok r) : ∃ a, x = .ok a ∧ f a = .ok r := by
  cases x with
  | error e => cases h
  | ok a => exact ⟨a, rfl, h⟩

variable {u cfg}

theorem mkMod_ok {rd : Reader} {x a : Item} {e : Effect} {imm : Bool} {m : Modifier} {acc acc' : List Mod}
    (h : mkMod cfg rd x a e imm m acc = .ok acc') :
    acc' = acc ∨ ∃ v r, rd a m.srcAttr = .ok v ∧ resistOf cfg rd e x = .ok r ∧
      acc' = acc ++ [{ op := m.op, value := v, resist := r, agg := m.agg, aggKey := m.aggKey, immune := imm }] := by
  unfold mkMod at h
  split at h
  · left; cases h; rfl
  · split at h
    · right; exact ⟨_, _, ‹_›, ‹_›, by cases h; rfl⟩
    · cases h
  · cases h

theorem mods_fold {rd : Reader} {x a : Item} {e : Effect} {imm : Bool} (P : Mod → Prop) (l : List Modifier)
    (acc r : List Mod) (h0 : ∀ md ∈ acc, P md)
    (hl : ∀ m ∈ l, ∀ v rs, rd a m.srcAttr = .ok v → resistOf cfg rd e x = .ok rs →
      P { op := m.op, value := v, resist := rs, agg := m.agg, aggKey := m.aggKey, immune := imm })
    (h : l.foldlM (fun acc m => mkMod cfg rd x a e imm m acc) acc = .ok r) : ∀ md ∈ r, P md := by
  refine foldlM_except_inv (fun acc => ∀ md ∈ acc, P md) _ l acc r h0 ?_ h
  intro acc m acc' hm hacc hmk
  rcases mkMod_ok hmk with rfl | ⟨v, rs, hv, hr, rfl⟩
  · exact hacc
  · intro md hmd
    rcases List.mem_append.1 hmd with h | h
    · exact hacc md h
    · rw [List.mem_singleton] at h; subst h; exact hl m hm v rs hv hr

theorem effStep_prov {immune : List Int} {rd : Reader} {x : Item} {tx : ItemType} {attr : Int} {a : Item}
    {ta : ItemType} (ha : a ∈ cfg.items) (hta : itemType? u cfg a = some ta) {e : Effect}
    (he : e ∈ runningEffects u cfg a) {acc r : List Mod}
    (h0 : ∀ md ∈ acc, Prov u cfg immune rd x tx attr md)
    (h : effStep u cfg immune rd x tx attr a ta acc e = .ok r) :
    ∀ md ∈ r, Prov u cfg immune rd x tx attr md := by
  unfold effStep at h
  obtain ⟨acc1, h1, h⟩ := except_bind_ok h
  obtain ⟨acc2, h2, h⟩ := except_bind_ok h
  have p1 : ∀ md ∈ acc1, Prov u cfg immune rd x tx attr md := by
    refine mods_fold _ _ acc acc1 h0 ?_ h1
    intro m hm v rs hv hr
    simp only [List.mem_filter, Bool.and_eq_true, beq_iff_eq] at hm
    exact ⟨a, ha, ta, hta, e, he, m, hm.2.1, hv, hr, rfl, rfl, rfl, rfl, Or.inl ⟨hm.1, hm.2.2⟩⟩
  have p2 : ∀ md ∈ acc2, Prov u cfg immune rd x tx attr md := by
    refine foldlM_except_inv (fun acc => ∀ md ∈ acc, Prov u cfg immune rd x tx attr md) _ _ acc1 acc2 p1 ?_ h2
    intro acc' tg acc'' htg hacc hf
    refine mods_fold _ _ acc' acc'' hacc ?_ hf
    intro m hm v rs hv hr
    simp only [List.mem_filter, Bool.and_eq_true, beq_iff_eq] at hm
    exact ⟨a, ha, ta, hta, e, he, m, hm.2.1.2, hv, hr, rfl, rfl, rfl, rfl,
      Or.inr (Or.inl ⟨hm.1, hm.2.1.1, tg, htg, hm.2.2⟩)⟩
  by_cases hb : e.isBuff = true
  · rw [if_pos hb] at h
    obtain ⟨bms, hbm, h⟩ := except_bind_ok h
    refine foldlM_except_inv (fun acc => ∀ md ∈ acc, Prov u cfg immune rd x tx attr md) _ _ acc2 r p2 ?_ h
    intro acc' tg acc'' htg hacc hf
    refine mods_fold _ _ acc' acc'' hacc ?_ hf
    intro m hm v rs hv hr
    simp only [List.mem_filter, List.mem_append, Bool.and_eq_true, beq_iff_eq] at hm
    refine ⟨a, ha, ta, hta, e, he, m, hm.2.1, hv, hr, rfl, rfl, rfl, rfl,
      Or.inr (Or.inr ⟨hb, ?_, tg, htg, hm.2.2⟩)⟩
    rcases hm.1 with hm1 | hm1
    · left
      split at hbm
      · exact ⟨bms, hbm, hm1⟩
      · cases hbm; cases hm1
    · exact Or.inr hm1
  · rw [if_neg hb] at h
    cases h; exact p2

/-- Every gathered modification stems from a running effect of some loaded item, through a modifier
that targets the attribute and whose filter selects the item. -/
theorem gather_prov {immune : List Int} {rd : Reader} {x : Item} {tx : ItemType} {attr : Int}
    {mods : List Mod} (h : gather u cfg immune rd x tx attr = .ok mods) :
    ∀ md ∈ mods, Prov u cfg immune rd x tx attr md := by
  rw [gather_eq] at h
  refine foldlM_except_inv (fun acc => ∀ md ∈ acc, Prov u cfg immune rd x tx attr md) _ _ [] mods
    (fun _ h => by cases h) ?_ h
  intro acc a acc' ha hacc hf
  split at hf
  · cases hf; exact hacc
  · rename_i ta hta
    refine foldlM_except_inv (fun acc => ∀ md ∈ acc, Prov u cfg immune rd x tx attr md) _ _ acc acc' hacc ?_ hf
    intro acc1 e acc2 he h1 h2
    exact effStep_prov ha hta he h1 h2

/-! ## `valueOf` with its pieces named -/

/-- Base value: the item type's value of the attribute, else the attribute's default. -/
def baseOf (tx : ItemType) (am : AttrMeta) : Option Rat :=
  match tx.attrs.find? (·.1 == am.id) with
  | some p => some p.2
  | none => am.default

/-- Cap: the value of the max attribute on the same item, if the attribute has one and it has a value. -/
def capOf (rd : Reader) (x : Item) (am : AttrMeta) : Except Val (Option Rat) :=
  match am.maxAttr with
  | none => .ok none
  | some mx => match rd x mx with
    | .ok c => .ok (some c)
    | .absent => .ok none
    | v => .error v

theorem valueOf_eq (immune limited : List Int) (pen : Nat → Rat) (rd : Reader) (x : Item) (am : AttrMeta) :
    valueOf u cfg immune limited pen rd x am =
      if x.kind == .skill && am.id == 280 then (match x.level with | some l => .ok l | none => .absent) else
      match itemType? u cfg x with
      | none => .absent
      | some tx =>
        match baseOf tx am with
        | none => .absent
        | some b =>
          match gather u cfg immune rd x tx am.id with
          | .error v => v
          | .ok mods =>
            match capOf rd x am with
            | .error v => v
            | .ok cap =>
              match calculate pen am.stackable am.hig b mods cap (limited.contains am.id) with
              | .ok v => .ok v
              | .error _ => .divZero := rfl

end Eos.World
