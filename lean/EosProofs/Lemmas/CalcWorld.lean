import EosModel.World
/-! Provenance of gathered modifications (`Eos.World.gather`): induction over the nested folds. -/
namespace Eos.World
open Eos.Calc

theorem foldlM_except_inv {ε α β : Type} (P : β → Prop) (f : β → α → Except ε β) (l : List α) :
    ∀ (init r : β), P init → (∀ acc a acc', a ∈ l → P acc → f acc a = .ok acc' → P acc') →
      l.foldlM f init = .ok r → P r := by
  induction l with
  | nil => intro init r h0 _ h; simp only [List.foldlM_nil, pure, Except.pure, Except.ok.injEq] at h; exact h ▸ h0
  | cons a l ih =>
    intro init r h0 hstep h
    rw [List.foldlM_cons] at h
    cases hf : f init a with
    | error e => rw [hf] at h; cases h
    | ok b =>
      rw [hf] at h
      exact ih b r (hstep init a b List.mem_cons_self h0 hf)
        (fun acc a' acc' ha' => hstep acc a' acc' (List.mem_cons_of_mem _ ha')) h

variable (u : Universe) (cfg : Config)

/-- Where a gathered modification comes from. -/
def Prov (immune : List Int) (rd : Reader) (x : Item) (tx : ItemType) (attr : Int) (md : Mod) : Prop :=
  ∃ a ∈ cfg.items, ∃ ta, itemType? u cfg a = some ta ∧ ∃ e ∈ runningEffects u cfg a, ∃ m : Modifier,
    m.tgtAttr = attr ∧ rd a m.srcAttr = .ok md.value ∧ resistOf cfg rd e x = .ok md.resist ∧
    md.op = m.op ∧ md.agg = m.agg ∧ md.aggKey = m.aggKey ∧
    md.immune = (match ta.category with | some c => immune.contains c | none => false) ∧
    ((m ∈ e.mods ∧ affectsLocal cfg a m x tx = true) ∨
     (m ∈ e.mods ∧ m.domain = 4 ∧ ∃ tg ∈ projectionTargets cfg a e, affectsProjected cfg a m tg x tx = true) ∨
     (e.isBuff = true ∧ ((∃ bms, buffModifiers u rd a = .ok bms ∧ m ∈ bms) ∨ (m ∈ e.mods ∧ m.domain = 4)) ∧
        ∃ tg ∈ boostTargets cfg a.fit, affectsProjected cfg a m tg x tx = true))

def mkMod (rd : Reader) (x a : Item) (e : Effect) (imm : Bool) (m : Modifier) (acc : List Mod) :
    Except Val (List Mod) :=
  match rd a m.srcAttr with
  | .absent => .ok acc
  | .ok v => (match resistOf cfg rd e x with
    | .ok r => .ok (acc ++ [{ op := m.op, value := v, resist := r, agg := m.agg, aggKey := m.aggKey, immune := imm }])
    | w => .error w)
  | w => .error w

def effStep (immune : List Int) (rd : Reader) (x : Item) (tx : ItemType) (attr : Int) (a : Item) (ta : ItemType)
    (acc : List Mod) (e : Effect) : Except Val (List Mod) := do
  let imm := match ta.category with | some c => immune.contains c | none => false
  let acc ← (e.mods.filter fun m => m.tgtAttr == attr && affectsLocal cfg a m x tx).foldlM (init := acc)
    fun acc m => mkMod cfg rd x a e imm m acc
  let acc ← (projectionTargets cfg a e).foldlM (init := acc) fun acc tg =>
    (e.mods.filter fun m => m.domain == 4 && m.tgtAttr == attr && affectsProjected cfg a m tg x tx).foldlM
      (init := acc) fun acc m => mkMod cfg rd x a e imm m acc
  if e.isBuff then do
    let bms ← (if u.buffs.any (·.tgtAttr == attr) then buffModifiers u rd a else pure [])
    let bms := bms ++ e.mods.filter (·.domain == 4)
    (boostTargets cfg a.fit).foldlM (init := acc) fun acc tg =>
      (bms.filter fun m => m.tgtAttr == attr && affectsProjected cfg a m tg x tx).foldlM
        (init := acc) fun acc m => mkMod cfg rd x a e imm m acc
  else pure acc

theorem gather_eq (immune : List Int) (rd : Reader) (x : Item) (tx : ItemType) (attr : Int) :
    gather u cfg immune rd x tx attr = cfg.items.foldlM (init := []) fun acc a =>
      match itemType? u cfg a with
      | none => .ok acc
      | some ta => (runningEffects u cfg a).foldlM (init := acc) (effStep u cfg immune rd x tx attr a ta) := rfl

theorem except_bind_ok {ε α β : Type} {x : Except ε α} {f : α → Except ε β} {r : β}
    (h : (x >>= f) = .ok r) : ∃ a, x = .ok a ∧ f a = .ok r := by
  cases x with
  | error e => cases h
  | ok a => exact ⟨a, rfl, h⟩

variable {u cfg}

theorem mkMod_ok {rd : Reader} {x a : Item} {e : Effect} {imm : Bool} {m : Modifier} {acc acc' : List Mod}
    (h : mkMod cfg rd x a e imm m acc = .ok acc') :
    acc' = acc ∨ ∃ v r, rd a m.srcAttr = .ok v ∧ resistOf cfg rd e x = .ok r ∧
      acc' = acc ++ [{ op := m.op, value := v, resist := r, agg := m.agg, aggKey := m.aggKey, immune := imm }] := by
  unfold mkMod at h
  split at h
  · left; cases h; rfl
  · split at h
    · right; exact ⟨_, _, ‹_›, ‹_›, by cases h; rfl⟩
    · cases h
  · cases h

theorem mods_fold {rd : Reader} {x a : Item} {e : Effect} {imm : Bool} (P : Mod → Prop) (l : List Modifier)
    (acc r : List Mod) (h0 : ∀ md ∈ acc, P md)
    (hl : ∀ m ∈ l, ∀ v rs, rd a m.srcAttr = .ok v → resistOf cfg rd e x = .ok rs →
      P { op := m.op, value := v, resist := rs, agg := m.agg, aggKey := m.aggKey, immune := imm })
    (h : l.foldlM (fun acc m => mkMod cfg rd x a e imm m acc) acc = .ok r) : ∀ md ∈ r, P md := by
  refine foldlM_except_inv (fun acc => ∀ md ∈ acc, P md) _ l acc r h0 ?_ h
  intro acc m acc' hm hacc hmk
  rcases mkMod_ok hmk with rfl | ⟨v, rs, hv, hr, rfl⟩
  · exact hacc
  · intro md hmd
    rcases List.mem_append.1 hmd with h | h
    · exact hacc md h
    · rw [List.mem_singleton] at h; subst h; exact hl m hm v rs hv hr

theorem effStep_prov {immune : List Int} {rd : Reader} {x : Item} {tx : ItemType} {attr : Int} {a : Item}
    {ta : ItemType} (ha : a ∈ cfg.items) (hta : itemType? u cfg a = some ta) {e : Effect}
    (he : e ∈ runningEffects u cfg a) {acc r : List Mod}
    (h0 : ∀ md ∈ acc, Prov u cfg immune rd x tx attr md)
    (h : effStep u cfg immune rd x tx attr a ta acc e = .ok r) :
    ∀ md ∈ r, Prov u cfg immune rd x tx attr md := by
  unfold effStep at h
  obtain ⟨acc1, h1, h⟩ := except_bind_ok h
  obtain ⟨acc2, h2, h⟩ := except_bind_ok h
  have p1 : ∀ md ∈ acc1, Prov u cfg immune rd x tx attr md := by
    refine mods_fold _ _ acc acc1 h0 ?_ h1
    intro m hm v rs hv hr
    simp only [List.mem_filter, Bool.and_eq_true, beq_iff_eq] at hm
    exact ⟨a, ha, ta, hta, e, he, m, hm.2.1, hv, hr, rfl, rfl, rfl, rfl, Or.inl ⟨hm.1, hm.2.2⟩⟩
  have p2 : ∀ md ∈ acc2, Prov u cfg immune rd x tx attr md := by
    refine foldlM_except_inv (fun acc => ∀ md ∈ acc, Prov u cfg immune rd x tx attr md) _ _ acc1 acc2 p1 ?_ h2
    intro acc' tg acc'' htg hacc hf
    refine mods_fold _ _ acc' acc'' hacc ?_ hf
    intro m hm v rs hv hr
    simp only [List.mem_filter, Bool.and_eq_true, beq_iff_eq] at hm
    exact ⟨a, ha, ta, hta, e, he, m, hm.2.1.2, hv, hr, rfl, rfl, rfl, rfl,
      Or.inr (Or.inl ⟨hm.1, hm.2.1.1, tg, htg, hm.2.2⟩)⟩
  by_cases hb : e.isBuff = true
  · rw [if_pos hb] at h
    obtain ⟨bms, hbm, h⟩ := except_bind_ok h
    refine foldlM_except_inv (fun acc => ∀ md ∈ acc, Prov u cfg immune rd x tx attr md) _ _ acc2 r p2 ?_ h
    intro acc' tg acc'' htg hacc hf
    refine mods_fold _ _ acc' acc'' hacc ?_ hf
    intro m hm v rs hv hr
    simp only [List.mem_filter, List.mem_append, Bool.and_eq_true, beq_iff_eq] at hm
    refine ⟨a, ha, ta, hta, e, he, m, hm.2.1, hv, hr, rfl, rfl, rfl, rfl,
      Or.inr (Or.inr ⟨hb, ?_, tg, htg, hm.2.2⟩)⟩
    rcases hm.1 with hm1 | hm1
    · left
      split at hbm
      · exact ⟨bms, hbm, hm1⟩
      · cases hbm; cases hm1
    · exact Or.inr hm1
  · rw [if_neg hb] at h
    cases h; exact p2

/-- Every gathered modification stems from a running effect of some loaded item, through a modifier
that targets the attribute and whose filter selects the item. -/
theorem gather_prov {immune : List Int} {rd : Reader} {x : Item} {tx : ItemType} {attr : Int}
    {mods : List Mod} (h : gather u cfg immune rd x tx attr = .ok mods) :
    ∀ md ∈ mods, Prov u cfg immune rd x tx attr md := by
  rw [gather_eq] at h
  refine foldlM_except_inv (fun acc => ∀ md ∈ acc, Prov u cfg immune rd x tx attr md) _ _ [] mods
    (fun _ h => by cases h) ?_ h
  intro acc a acc' ha hacc hf
  split at hf
  · cases hf; exact hacc
  · rename_i ta hta
    refine foldlM_except_inv (fun acc => ∀ md ∈ acc, Prov u cfg immune rd x tx attr md) _ _ acc acc' hacc ?_ hf
    intro acc1 e acc2 he h1 h2
    exact effStep_prov ha hta he h1 h2

/-! ## `valueOf` with its pieces named -/

/-- Base value: the item type's value of the attribute, else the attribute's default. -/
def baseOf (tx : ItemType) (am : AttrMeta) : Option Rat :=
  match tx.attrs.find? (·.1 == am.id) with
  | some p => some p.2
  | none => am.default

/-- Cap: the value of the max attribute on the same item, if the attribute has one and it has a value. -/
def capOf (rd : Reader) (x : Item) (am : AttrMeta) : Except Val (Option Rat) :=
  match am.maxAttr with
  | none => .ok none
  | some mx => match rd x mx with
    | .ok c => .ok (some c)
    | .absent => .ok none
    | v => .error v

theorem valueOf_eq (immune limited : List Int) (pen : Nat → Rat) (rd : Reader) (x : Item) (am : AttrMeta) :
    valueOf u cfg immune limited pen rd x am =
      if x.kind == .skill && am.id == 280 then (match x.level with | some l => .ok l | none => .absent) else
      match itemType? u cfg x with
      | none => .absent
      | some tx =>
        match baseOf tx am with
        | none => .absent
        | some b =>
          match gather u cfg immune rd x tx am.id with
          | .error v => v
          | .ok mods =>
            match capOf rd x am with
            | .error v => v
            | .ok cap =>
              match calculate pen am.stackable am.hig b mods cap (limited.contains am.id) with
              | .ok v => .ok v
              | .error _ => .divZero := rfl

/-! ## Completeness of `gather`: every selecting modifier with a source value is gathered -/

theorem foldlM_sub {ε α γ : Type} (f : List γ → α → Except ε (List γ))
    (hmono : ∀ acc a acc', f acc a = .ok acc' → acc ⊆ acc') (l : List α) :
    ∀ (init r : List γ), l.foldlM f init = .ok r → init ⊆ r := by
  induction l with
  | nil => intro init r h; simp only [List.foldlM_nil, pure, Except.pure, Except.ok.injEq] at h; exact h ▸ List.Subset.refl _
  | cons a l ih =>
    intro init r h
    rw [List.foldlM_cons] at h
    obtain ⟨b, hb, h⟩ := except_bind_ok h
    exact List.Subset.trans (hmono _ _ _ hb) (ih b r h)

theorem foldlM_hit {ε α γ : Type} (f : List γ → α → Except ε (List γ))
    (hmono : ∀ acc a acc', f acc a = .ok acc' → acc ⊆ acc')
    (Q : List γ → Prop) (hQ : ∀ b b', b ⊆ b' → Q b → Q b') (l : List α) (a : α) (ha : a ∈ l)
    (hit : ∀ acc acc', f acc a = .ok acc' → Q acc') :
    ∀ (init r : List γ), l.foldlM f init = .ok r → Q r := by
  induction l with
  | nil => cases ha
  | cons a' l ih =>
    intro init r h
    rw [List.foldlM_cons] at h
    obtain ⟨b, hb, h2⟩ := except_bind_ok h
    clear h
    rcases List.mem_cons.1 ha with rfl | ha'
    · exact hQ b r (foldlM_sub f hmono l b r h2) (hit _ _ hb)
    · exact ih ha' b r h2

variable {u : Universe} {cfg : Config}

theorem mkMod_mono {rd : Reader} {x a : Item} {e : Effect} {imm : Bool} (acc : List Mod) (m : Modifier)
    (acc' : List Mod) (h : mkMod cfg rd x a e imm m acc = .ok acc') : acc ⊆ acc' := by
  rcases mkMod_ok h with rfl | ⟨v, r, _, _, rfl⟩
  · exact List.Subset.refl _
  · exact List.subset_append_left _ _

/-- The modification that modifier `m` of effect `e` on `a` (immunity flag `imm`) produces from source
value `v` is in `acc`, with the resistance factor of `e` against `x`. -/
def Hit (cfg : Config) (rd : Reader) (x : Item) (e : Effect) (imm : Bool) (m : Modifier) (v : Rat)
    (acc : List Mod) : Prop :=
  ∃ r, resistOf cfg rd e x = .ok r ∧
    ({ op := m.op, value := v, resist := r, agg := m.agg, aggKey := m.aggKey, immune := imm } : Mod) ∈ acc

theorem Hit.mono {rd : Reader} {x : Item} {e : Effect} {imm : Bool} {m : Modifier} {v : Rat}
    (b b' : List Mod) (h : b ⊆ b') : Hit cfg rd x e imm m v b → Hit cfg rd x e imm m v b' :=
  fun ⟨r, hr, hm⟩ => ⟨r, hr, h hm⟩

theorem mkMod_hit {rd : Reader} {x a : Item} {e : Effect} {imm : Bool} {m : Modifier} {v : Rat}
    (hv : rd a m.srcAttr = .ok v) (acc acc' : List Mod) (h : mkMod cfg rd x a e imm m acc = .ok acc') :
    Hit cfg rd x e imm m v acc' := by
  unfold mkMod at h; rw [hv] at h; dsimp only at h
  split at h
  · cases h; exact ⟨_, ‹_›, by simp⟩
  · cases h

theorem mods_fold_mono {rd : Reader} {x a : Item} {e : Effect} {imm : Bool} (l : List Modifier)
    (acc r : List Mod) (h : l.foldlM (fun acc m => mkMod cfg rd x a e imm m acc) acc = .ok r) : acc ⊆ r :=
  foldlM_sub _ mkMod_mono l acc r h

theorem mods_fold_hit {rd : Reader} {x a : Item} {e : Effect} {imm : Bool} {m : Modifier} {v : Rat}
    (l : List Modifier) (hm : m ∈ l) (hv : rd a m.srcAttr = .ok v)
    (acc r : List Mod) (h : l.foldlM (fun acc m => mkMod cfg rd x a e imm m acc) acc = .ok r) :
    Hit cfg rd x e imm m v r :=
  foldlM_hit _ mkMod_mono _ Hit.mono l m hm (mkMod_hit hv) acc r h

section
variable {immune : List Int} {rd : Reader} {x : Item} {tx : ItemType} {attr : Int} {a : Item} {ta : ItemType}

theorem effStep_split {e : Effect} {acc r : List Mod}
    (h : effStep u cfg immune rd x tx attr a ta acc e = .ok r) :
    ∃ acc1 acc2,
      (e.mods.filter fun m => m.tgtAttr == attr && affectsLocal cfg a m x tx).foldlM
        (fun acc m => mkMod cfg rd x a e (match ta.category with | some c => immune.contains c | none => false) m acc)
        acc = .ok acc1 ∧
      (projectionTargets cfg a e).foldlM (fun acc tg =>
        (e.mods.filter fun m => m.domain == 4 && m.tgtAttr == attr && affectsProjected cfg a m tg x tx).foldlM
          (fun acc m => mkMod cfg rd x a e (match ta.category with | some c => immune.contains c | none => false) m acc)
          acc) acc1 = .ok acc2 ∧
      (if e.isBuff then
        ∃ bms, (if u.buffs.any (·.tgtAttr == attr) then buffModifiers u rd a else pure []) = .ok bms ∧
          (boostTargets cfg a.fit).foldlM (fun acc tg =>
            ((bms ++ e.mods.filter (·.domain == 4)).filter fun m =>
                m.tgtAttr == attr && affectsProjected cfg a m tg x tx).foldlM
              (fun acc m => mkMod cfg rd x a e (match ta.category with | some c => immune.contains c | none => false) m acc)
              acc) acc2 = .ok r
       else acc2 = r) := by
  unfold effStep at h
  obtain ⟨acc1, h1, h⟩ := except_bind_ok h
  obtain ⟨acc2, h2, h⟩ := except_bind_ok h
  refine ⟨acc1, acc2, h1, h2, ?_⟩
  by_cases hb : e.isBuff = true
  · rw [if_pos hb] at h ⊢
    obtain ⟨bms, hbm, h⟩ := except_bind_ok h
    exact ⟨bms, hbm, h⟩
  · rw [if_neg hb] at h ⊢
    cases h; rfl

theorem effStep_mono (acc : List Mod) (e : Effect) (r : List Mod)
    (h : effStep u cfg immune rd x tx attr a ta acc e = .ok r) : acc ⊆ r := by
  obtain ⟨acc1, acc2, h1, h2, h3⟩ := effStep_split h
  have s1 := mods_fold_mono _ _ _ h1
  have s2 := foldlM_sub _ (fun acc tg acc' => mods_fold_mono _ acc acc') _ _ _ h2
  refine List.Subset.trans s1 (List.Subset.trans s2 ?_)
  split at h3
  · obtain ⟨bms, _, h3⟩ := h3
    exact foldlM_sub _ (fun acc tg acc' => mods_fold_mono _ acc acc') _ _ _ h3
  · exact h3 ▸ List.Subset.refl _

theorem buffModifiers_tgt {bms : List Modifier} (h : buffModifiers u rd a = .ok bms) :
    ∀ m ∈ bms, ∃ bt ∈ u.buffs, bt.tgtAttr = m.tgtAttr := by
  unfold buffModifiers at h
  refine foldlM_except_inv (fun acc => ∀ m ∈ acc, ∃ bt ∈ u.buffs, bt.tgtAttr = m.tgtAttr) _ _ [] bms
    (fun _ hm => by cases hm) ?_ h
  intro acc p acc' _ hacc hf
  split at hf
  · cases hf
    intro m hm
    rcases List.mem_append.1 hm with hm | hm
    · exact hacc m hm
    · obtain ⟨bt, hbt, rfl⟩ := List.mem_map.1 hm
      exact ⟨bt, (List.mem_filter.1 hbt).1, rfl⟩
  · cases hf; exact hacc
  · cases hf

/-- The three ways a modifier `m` of running effect `e` on `a` selects item `x`. -/
def Selects (u : Universe) (cfg : Config) (rd : Reader) (x : Item) (tx : ItemType) (a : Item) (e : Effect)
    (m : Modifier) : Prop :=
  (m ∈ e.mods ∧ affectsLocal cfg a m x tx = true) ∨
  (m ∈ e.mods ∧ m.domain = 4 ∧ ∃ tg ∈ projectionTargets cfg a e, affectsProjected cfg a m tg x tx = true) ∨
  (e.isBuff = true ∧ ((∃ bms, buffModifiers u rd a = .ok bms ∧ m ∈ bms) ∨ (m ∈ e.mods ∧ m.domain = 4)) ∧
     ∃ tg ∈ boostTargets cfg a.fit, affectsProjected cfg a m tg x tx = true)

theorem effStep_hit {e : Effect} {m : Modifier} {v : Rat} (hm : m.tgtAttr = attr)
    (hv : rd a m.srcAttr = .ok v) (hsel : Selects u cfg rd x tx a e m) (acc r : List Mod)
    (h : effStep u cfg immune rd x tx attr a ta acc e = .ok r) :
    Hit cfg rd x e (match ta.category with | some c => immune.contains c | none => false) m v r := by
  obtain ⟨acc1, acc2, h1, h2, h3⟩ := effStep_split h
  have s2 : acc1 ⊆ acc2 := foldlM_sub _ (fun acc tg acc' => mods_fold_mono _ acc acc') _ _ _ h2
  have s3 : acc2 ⊆ r := by
    split at h3
    · obtain ⟨bms, _, h3⟩ := h3
      exact foldlM_sub _ (fun acc tg acc' => mods_fold_mono _ acc acc') _ _ _ h3
    · exact h3 ▸ List.Subset.refl _
  rcases hsel with ⟨hme, hloc⟩ | ⟨hme, hd, tg, htg, hpr⟩ | ⟨hb, hsrc, tg, htg, hpr⟩
  · refine Hit.mono _ _ (List.Subset.trans s2 s3) (mods_fold_hit _ ?_ hv _ _ h1)
    simp [List.mem_filter, hme, hm, hloc]
  · refine Hit.mono _ _ s3 (foldlM_hit _ (fun acc tg acc' => mods_fold_mono _ acc acc') _ Hit.mono _ tg htg
      (fun acc acc' hf => mods_fold_hit _ ?_ hv _ _ hf) _ _ h2)
    simp [List.mem_filter, hme, hm, hd, hpr]
  · rw [if_pos hb] at h3
    obtain ⟨bms, hbm, h3⟩ := h3
    refine foldlM_hit _ (fun acc tg acc' => mods_fold_mono _ acc acc') _ Hit.mono _ tg htg
      (fun acc acc' hf => mods_fold_hit _ ?_ hv _ _ hf) _ _ h3
    simp only [List.mem_filter, List.mem_append, Bool.and_eq_true, beq_iff_eq]
    refine ⟨?_, hm, hpr⟩
    rcases hsrc with ⟨bms', hbm', hmb⟩ | ⟨hme, hd⟩
    · left
      obtain ⟨bt, hbt, htg'⟩ := buffModifiers_tgt hbm' m hmb
      have hany : u.buffs.any (·.tgtAttr == attr) = true :=
        List.any_eq_true.2 ⟨bt, hbt, by simp [htg', hm]⟩
      rw [if_pos hany, hbm'] at hbm
      cases hbm; exact hmb
    · exact Or.inr ⟨hme, hd⟩

end

/-- Every modifier that targets the attribute, has a source value and selects `x` contributes its
modification (the converse of `gather_prov`). -/
theorem gather_complete {immune : List Int} {rd : Reader} {x : Item} {tx : ItemType} {attr : Int}
    {mods : List Mod} (h : gather u cfg immune rd x tx attr = .ok mods)
    {a : Item} (ha : a ∈ cfg.items) {ta : ItemType} (hta : itemType? u cfg a = some ta)
    {e : Effect} (he : e ∈ runningEffects u cfg a) {m : Modifier} (hm : m.tgtAttr = attr)
    {v : Rat} (hv : rd a m.srcAttr = .ok v) (hsel : Selects u cfg rd x tx a e m) :
    Hit cfg rd x e (match ta.category with | some c => immune.contains c | none => false) m v mods := by
  rw [gather_eq] at h
  have hmono : ∀ (acc : List Mod) (a : Item) (acc' : List Mod),
      (match itemType? u cfg a with
        | none => Except.ok acc
        | some ta => (runningEffects u cfg a).foldlM (effStep u cfg immune rd x tx attr a ta) acc) = .ok acc' →
      acc ⊆ acc' := by
    intro acc a acc' hf
    split at hf
    · cases hf; exact List.Subset.refl _
    · exact foldlM_sub _ effStep_mono _ _ _ hf
  refine foldlM_hit _ hmono _ Hit.mono _ a ha ?_ _ _ h
  intro acc acc' hf
  rw [hta] at hf
  exact foldlM_hit _ effStep_mono _ Hit.mono _ e he (effStep_hit hm hv hsel) _ _ hf

/-! ## Error outcomes of `gather` are never `absent` -/

theorem foldlM_except_err {ε α β : Type} (Q : ε → Prop) (f : β → α → Except ε β) (l : List α) :
    ∀ (init : β) (e : ε), (∀ acc a e, a ∈ l → f acc a = .error e → Q e) →
      l.foldlM f init = .error e → Q e := by
  induction l with
  | nil => intro init e _ h; cases h
  | cons a l ih =>
    intro init e hstep h
    rw [List.foldlM_cons] at h
    cases hf : f init a with
    | error e' => rw [hf] at h; cases h; exact hstep _ _ _ List.mem_cons_self hf
    | ok b =>
      rw [hf] at h
      exact ih b e (fun acc a' e' ha' => hstep acc a' e' (List.mem_cons_of_mem _ ha')) h

theorem except_bind_err {ε α β : Type} {x : Except ε α} {f : α → Except ε β} {e : ε}
    (h : (x >>= f) = .error e) : x = .error e ∨ ∃ a, x = .ok a ∧ f a = .error e := by
  cases x with
  | error e' => cases h; exact Or.inl rfl
  | ok a => exact Or.inr ⟨a, rfl, h⟩

theorem resistOf_ne_absent (rd : Reader) (e : Effect) (x : Item) : resistOf cfg rd e x ≠ .absent := by
  unfold resistOf
  split
  · simp
  · split
    · simp
    · dsimp only
      split
      · simp
      · split
        · simp
        · assumption

theorem mkMod_err {rd : Reader} {x a : Item} {e : Effect} {imm : Bool} {m : Modifier} {acc : List Mod}
    {w : Val} (h : mkMod cfg rd x a e imm m acc = .error w) : w ≠ .absent := by
  unfold mkMod at h
  split at h
  · cases h
  · split at h
    · cases h
    · cases h; rename_i hr _; intro hw; exact resistOf_ne_absent _ _ _ hw
  · cases h; assumption

theorem mods_fold_err {rd : Reader} {x a : Item} {e : Effect} {imm : Bool} (l : List Modifier)
    (acc : List Mod) (w : Val) (h : l.foldlM (fun acc m => mkMod cfg rd x a e imm m acc) acc = .error w) :
    w ≠ .absent :=
  foldlM_except_err (· ≠ .absent) _ l acc w (fun _ _ _ _ hf => mkMod_err hf) h

theorem buffModifiers_err {rd : Reader} {a : Item} {w : Val} (h : buffModifiers u rd a = .error w) :
    w ≠ .absent := by
  unfold buffModifiers at h
  refine foldlM_except_err (· ≠ .absent) _ _ [] w ?_ h
  intro acc p e _ hf
  split at hf
  · cases hf
  · cases hf
  · cases hf; assumption

theorem effStep_err {immune : List Int} {rd : Reader} {x : Item} {tx : ItemType} {attr : Int} {a : Item}
    {ta : ItemType} {acc : List Mod} {e : Effect} {w : Val}
    (h : effStep u cfg immune rd x tx attr a ta acc e = .error w) : w ≠ .absent := by
  unfold effStep at h
  rcases except_bind_err h with h1 | ⟨acc1, _, h⟩
  · exact mods_fold_err _ _ _ h1
  rcases except_bind_err h with h2 | ⟨acc2, _, h⟩
  · exact foldlM_except_err (· ≠ .absent) _ _ _ _ (fun _ _ _ _ hf => mods_fold_err _ _ _ hf) h2
  split at h
  · rcases except_bind_err h with h3 | ⟨bms, _, h⟩
    · split at h3
      · exact buffModifiers_err h3
      · cases h3
    · exact foldlM_except_err (· ≠ .absent) _ _ _ _ (fun _ _ _ _ hf => mods_fold_err _ _ _ hf) h
  · cases h

theorem gather_err {immune : List Int} {rd : Reader} {x : Item} {tx : ItemType} {attr : Int} {w : Val}
    (h : gather u cfg immune rd x tx attr = .error w) : w ≠ .absent := by
  rw [gather_eq] at h
  refine foldlM_except_err (· ≠ .absent) _ _ [] w ?_ h
  intro acc a e _ hf
  split at hf
  · cases hf
  · exact foldlM_except_err (· ≠ .absent) _ _ _ _ (fun _ _ _ _ hf => effStep_err hf) hf

theorem capOf_err {rd : Reader} {x : Item} {am : AttrMeta} {w : Val} (h : capOf rd x am = .error w) :
    w ≠ .absent := by
  unfold capOf at h
  split at h
  · cases h
  · split at h
    · cases h
    · cases h
    · cases h; assumption

/-- The value is absent exactly for a skill level that is not set, an item that is not loaded, or an
attribute with neither a base value on the item type nor a default. -/
theorem valueOf_absent_iff (immune limited : List Int) (pen : Nat → Rat) (rd : Reader) (x : Item)
    (am : AttrMeta) :
    valueOf u cfg immune limited pen rd x am = .absent ↔
      if x.kind = .skill ∧ am.id = 280 then x.level = none
      else ∀ tx, itemType? u cfg x = some tx → baseOf tx am = none := by
  rw [valueOf_eq]
  by_cases hs : x.kind = .skill ∧ am.id = 280
  · rw [if_pos (by simpa using hs), if_pos hs]
    cases x.level <;> simp
  · rw [if_neg (by simpa using hs), if_neg hs]
    cases ht : itemType? u cfg x with
    | none => simp
    | some tx =>
      simp only [Option.some.injEq, forall_eq']
      cases hb : baseOf tx am with
      | none => simp
      | some b =>
        simp only [reduceCtorEq, iff_false]
        cases hg : gather u cfg immune rd x tx am.id with
        | error w => exact gather_err hg
        | ok mods =>
          cases hc : capOf rd x am with
          | error w => exact capOf_err hc
          | ok cap =>
            dsimp only
            split <;> simp

/-! ## A two-item world for non-vacuity examples

A ship (type 1, category 6) with attribute 37 = 100 and a low-slot module (type 2) with attribute
20 = 3/2 whose passive effect 1000 post-multiplies the ship's attribute 37 by the module's attribute 20. -/
def exUniverse : Universe :=
  { attrs := [⟨20, none, none, true, false⟩, ⟨37, none, some 0, true, false⟩],
    effects := [⟨1000, 0, none, none, false, [⟨1, 3, none, 37, 6, 1, none, 20⟩]⟩],
    types := [⟨1, none, some 6, none, [(37, 100)], [], []⟩, ⟨2, none, some 7, none, [(20, 3/2)], [1000], []⟩] }
def exShip : Item := ⟨1, .ship, 1, 0, 1, none, none, none, []⟩
def exModule : Item := ⟨2, .moduleLow, 2, 0, 1, none, none, none, []⟩
def exConfig : Config :=
  { hasSource := true, fits := [⟨0, some 1, none, none⟩], items := [exShip, exModule] }

end Eos.World
