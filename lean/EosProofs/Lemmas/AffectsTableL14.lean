import EosGen.AffectsTableL14
/-! C02: on every case of the regenerated local "which items does the modifier select" table whose affector
class has number 14 (`Eos.World.Kind.ofNat?`), the specification's `affectsLocal` gives the answer the real code
gave; the block has exactly the generated number of cases, of "modified" cases and of cases with a valid modifier (kernel evaluation; one file
per affector class so the checks run in parallel). -/
namespace Eos.C02
open Eos.AffectsSpec EosGen.AffectsTable

theorem affects_blockL14_ok : localBlockOk blockL14 blockL14Cases blockL14Modified blockL14Valid = true := by decide +kernel

end Eos.C02
