import EosGen.FleetTable1
/-! C13: on every case of block 1 of the regenerated fleet-boost table (the blocks are the six states of the
booster's fit: fleet A / B / none x with / without ship), the specification's `boostTargets` + `affectsProjected`,
`buffModifiers` and the fleet-boost branch of `gather` give what the real code did (both observations); the
block has exactly the generated number of cases and of "boosted" cases (kernel evaluation). -/
namespace Eos.C13
open Eos.AffectsSpec EosGen.FleetTable

theorem fleet_block1_ok : fleetBlockOk blockF1 blockF1Cases blockF1Boosted = true := by decide +kernel

end Eos.C13
