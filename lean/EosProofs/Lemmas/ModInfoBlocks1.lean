import EosModel.ModInfo
import EosGen.ModInfoTable
/-! C19 helper (its own module so that the five block checks run in parallel): every block of the
generated per-entry table of function digit 1 equals the specification, by kernel evaluation. -/
namespace Eos.ModInfo

theorem blocks1_ok : EosGen.ModInfoTable.blocks1.all blockOk = true := by decide +kernel

end Eos.ModInfo
