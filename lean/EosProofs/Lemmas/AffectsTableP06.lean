import EosGen.AffectsTableP06
/-! C02: on every case of the regenerated projected table whose projector class has number 06
(`Eos.World.Kind.ofNat?`), the specification's `affectsProjected` gives the answer the real code gave; the block
has exactly the generated number of cases, of "modified" cases and of cases with a valid modifier (kernel evaluation; one file per projector
class so the checks run in parallel). -/
namespace Eos.C02
open Eos.AffectsSpec EosGen.AffectsTable

theorem affects_blockP06_ok : projBlockOk blockP06 blockP06Cases blockP06Modified blockP06Valid = true := by decide +kernel

end Eos.C02
