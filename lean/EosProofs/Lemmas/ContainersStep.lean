import EosProofs.Lemmas.ContainersInv
/-! The full invariant of the container model (`Inv`): ownership I4, keyed containers agree with their inner
set, fit sets agree with the fits' back-references.  Preserved by every operation (`step_inv`), hence true
of every reachable world (`run_inv`); and the core of C06: an operation that answers with an error leaves
the whole state as it was (`step_error_same`).  Core Lean only. -/
namespace Eos.Containers

/-! ## frames: what an operation cannot touch -/

def World.fitPart (s : World) := (s.fitSs, s.ssFits, s.fitFl, s.flFits, s.dmg, s.rah)
def World.contPart (s : World) := (s.lists, s.sets, s.keyed, s.slots, s.owner)

/-- `s'` differs from `s` at most in racks, descriptors, owners and the set/keyed storage of container `t`. -/
def Frame (t : Option SetId) (s s' : World) : Prop :=
  s'.fitPart = s.fitPart ∧ ∀ c, some c ≠ t → s'.sets c = s.sets c ∧ s'.keyed c = s.keyed c

theorem Frame.rfl' {t : Option SetId} {s : World} : Frame t s s := ⟨rfl, fun _ _ => ⟨rfl, rfl⟩⟩

/-- The set-like container an operation works on. -/
def Op.target : Op → Option SetId
  | .setAdd f k _ | .setRemove f k _ | .setClear f k => some (.plain f k)
  | .tuAdd f _ | .tuRemove f _ | .tuDel f _ | .tuClear f => some (.skills f)
  | .dictSet m _ _ | .dictDel m _ | .dictClear m => some (.auto m)
  | _ => none

/-- closes `Frame t s s'` when `s'` is built from `s` by setters that respect the frame -/
macro "frame_close" : tactic =>
  `(tactic| (refine ⟨rfl, fun c' hc => ?_⟩
             first
             | exact ⟨rfl, rfl⟩
             | (simp only [Op.target, ne_eq, Option.some.injEq] at hc; simp [upd_apply, hc])))

theorem listRemoveAt_frame (t : Option SetId) (s : World) (f r k : Nat) : Frame t s (listRemoveAt s f r k).2 := by
  unfold listRemoveAt; dsimp only; split <;> frame_close

theorem listFreeAt_frame (t : Option SetId) (s : World) (f r k : Nat) : Frame t s (listFreeAt s f r k).2 := by
  unfold listFreeAt; dsimp only; split <;> frame_close

theorem setAdd_frame (U : Univ) (s : World) (c : SetId) (v : Option Nat) : Frame (some c) s (setAdd U s c v).2 := by
  rcases setAdd_cases U s c v with e | ⟨i, _, _, e⟩ | ⟨i, _, hi, e⟩ <;> rw [e] <;> frame_close

theorem setRemove_frame (s : World) (c : SetId) (v : Option Nat) : Frame (some c) s (setRemove s c v).2 := by
  rcases setRemove_cases s c v with e | ⟨i, _, hm, e⟩ <;> rw [e] <;> frame_close

theorem keyedAdd_frame (U : Univ) (s : World) (c : SetId) (key : Nat) (v : Option Nat) :
    Frame (some c) s (keyedAdd U s c key v).2 := by
  rcases keyedAdd_cases U s c key v with ⟨_, e⟩ | ⟨i, _, _, _, e⟩ <;> rw [e] <;> frame_close

theorem keyedRemove_frame (s : World) (c : SetId) (key : Nat) (v : Option Nat) :
    Frame (some c) s (keyedRemove s c key v).2 := by
  rcases keyedRemove_cases s c key v with e | ⟨i, _, _, _, e⟩ | ⟨i, _, _, _, e⟩ <;> rw [e] <;> frame_close

/-- Operations on solar-system / fleet fit sets and on damage profiles (they touch no container). -/
def Op.isFitOp : Op → Bool
  | .ssAdd .. | .ssRemove .. | .ssClear .. | .flAdd .. | .flRemove .. | .flClear .. | .setDmg .. | .setRah .. => true
  | _ => false

theorem step_frame (U : Univ) (s : World) (op : Op) (hop : op.isFitOp = false) : Frame op.target s (step U s op).2 := by
  cases op with
  | insert f r index v =>
    show Frame _ s (listInsert U s f r index v).2
    unfold listInsert; dsimp only; repeat' split
    all_goals frame_close
  | append f r v =>
    show Frame _ s (listAppend U s f r v).2
    unfold listAppend; dsimp only; repeat' split
    all_goals frame_close
  | place f r index v =>
    show Frame _ s (listPlace U s f r index v).2
    unfold listPlace listPut; dsimp only; repeat' split
    all_goals frame_close
  | equip f r v =>
    show Frame _ s (listEquip U s f r v).2
    unfold listEquip listPut; dsimp only; repeat' split
    all_goals frame_close
  | removeIdx f r index =>
    show Frame _ s (listAtIdx listRemoveAt s f r index).2
    unfold listAtIdx; split <;> first | exact Frame.rfl' | exact listRemoveAt_frame _ _ _ _ _
  | removeVal f r v =>
    show Frame _ s (listAtVal listRemoveAt s f r v).2
    unfold listAtVal; split <;> first | exact Frame.rfl' | exact listRemoveAt_frame _ _ _ _ _
  | freeIdx f r index =>
    show Frame _ s (listAtIdx listFreeAt s f r index).2
    unfold listAtIdx; split <;> first | exact Frame.rfl' | exact listFreeAt_frame _ _ _ _ _
  | freeVal f r v =>
    show Frame _ s (listAtVal listFreeAt s f r v).2
    unfold listAtVal; split <;> first | exact Frame.rfl' | exact listFreeAt_frame _ _ _ _ _
  | clear f r => show Frame _ s (listClear s f r).2; unfold listClear; frame_close
  | setAdd f k v => exact setAdd_frame U s _ v
  | setRemove f k v => exact setRemove_frame s _ v
  | setClear f k => show Frame _ s (setClear s _).2; unfold setClear; frame_close
  | tuAdd f v =>
    show Frame _ s (tuAdd U s f v).2
    unfold tuAdd; split <;> first | exact Frame.rfl' | exact keyedAdd_frame U s _ _ _
  | tuRemove f v =>
    show Frame _ s (tuRemove U s f v).2
    unfold tuRemove; split <;> first | exact Frame.rfl' | exact keyedRemove_frame s _ _ _
  | tuDel f t =>
    show Frame _ s (tuDel U s f t).2
    unfold tuDel tuRemove; repeat' split
    all_goals first | exact Frame.rfl' | exact keyedRemove_frame s _ _ _
  | tuClear f => show Frame _ s (keyedClear s _).2; unfold keyedClear setClear; frame_close
  | dictSet m key v => exact keyedAdd_frame U s _ _ _
  | dictDel m key =>
    show Frame _ s (dictDel s m key).2
    unfold dictDel; split <;> first | exact Frame.rfl' | exact keyedRemove_frame s _ _ _
  | dictClear m => show Frame _ s (keyedClear s _).2; unfold keyedClear setClear; frame_close
  | assign c v =>
    show Frame _ s (assign U s c v).2
    unfold assign; dsimp only; repeat' split
    all_goals frame_close
  | _ => simp [Op.isFitOp] at hop

theorem step_contPart (U : Univ) (s : World) (op : Op) (hop : op.isFitOp = true) : (step U s op).2.contPart = s.contPart := by
  cases op <;> first
    | (simp [Op.isFitOp] at hop; done)
    | (simp only [step]
       first
        | (unfold ssAdd; split <;> rfl) | (unfold ssRemove; split <;> rfl) | (unfold ssClear; rfl)
        | (unfold flAdd; split <;> rfl) | (unfold flRemove; split <;> rfl) | (unfold flClear; rfl)
        | (unfold setDmg; split <;> rfl) | (unfold setRah; split <;> rfl))

/-! ## association lists -/

theorem lookupKey_eq_none_iff {k : Nat} {l : List (Nat × Nat)} : lookupKey k l = none ↔ k ∉ l.map Prod.fst := by
  induction l with
  | nil => simp [lookupKey]
  | cons e es ih =>
    obtain ⟨k', v'⟩ := e
    unfold lookupKey
    by_cases hk : k' = k
    · simp [hk]
    · simp [hk, ih, Ne.symm hk]

theorem lookupKey_some_mem {k i : Nat} {l : List (Nat × Nat)} (h : lookupKey k l = some i) : (k, i) ∈ l := by
  induction l with
  | nil => simp [lookupKey] at h
  | cons e es ih =>
    obtain ⟨k', v'⟩ := e
    unfold lookupKey at h
    split at h
    · rename_i hk; simp at h; simp [hk, h]
    · exact List.mem_cons_of_mem _ (ih h)

theorem mem_lookupKey {k i : Nat} {l : List (Nat × Nat)} (hnd : (l.map Prod.fst).Nodup) (h : (k, i) ∈ l) :
    lookupKey k l = some i := by
  induction l with
  | nil => simp at h
  | cons e es ih =>
    obtain ⟨k', v'⟩ := e
    simp only [List.map_cons, List.nodup_cons] at hnd
    unfold lookupKey
    rcases List.mem_cons.1 h with h | h
    · cases h; simp
    · have : k' ≠ k := fun e => hnd.1 (by rw [e]; exact List.mem_map_of_mem (f := Prod.fst) h)
      simp [this, ih hnd.2 h]

theorem delKey_sublist (key : Nat) (l : List (Nat × Nat)) : (delKey key l).Sublist l := List.filter_sublist

theorem map_snd_delKey {key i : Nat} {l : List (Nat × Nat)} (hk : (l.map Prod.fst).Nodup)
    (hl : lookupKey key l = some i) (hv : (l.map Prod.snd).Nodup) :
    (delKey key l).map Prod.snd = (l.map Prod.snd).erase i := by
  induction l with
  | nil => simp [lookupKey] at hl
  | cons e es ih =>
    obtain ⟨k', v'⟩ := e
    simp only [List.map_cons, List.nodup_cons] at hk hv
    unfold lookupKey at hl
    by_cases hkk : k' = key
    · simp only [hkk, if_true, Option.some.injEq] at hl
      subst hl
      have hnone : lookupKey key es = none := lookupKey_eq_none_iff.2 (hkk ▸ hk.1)
      simp [delKey_cons_self, hkk, hnone]
    · simp only [hkk, if_false] at hl
      have hne : v' ≠ i := fun e => hv.1 (by rw [e]; exact List.mem_map_of_mem (f := Prod.snd) (lookupKey_some_mem hl))
      have : delKey key ((k', v') :: es) = (k', v') :: delKey key es := by simp [delKey, hkk]
      rw [this, List.map_cons, List.map_cons, ih hk.2 hl hv.2, List.erase_cons_tail (by simpa using hne)]

/-! ## keyed containers agree with their inner set -/

/-- The values stored under the keys are exactly the inner set (in storage order) and keys are unique. -/
structure KeyedInv (s : World) (c : SetId) : Prop where
  vals : (s.keyed c).map Prod.snd = s.sets c
  keys : ((s.keyed c).map Prod.fst).Nodup

theorem KeyedInv.of_frame {t : Option SetId} {s s' : World} {c : SetId} (h : KeyedInv s c) (hf : Frame t s s')
    (hc : some c ≠ t) : KeyedInv s' c := by
  obtain ⟨h1, h2⟩ := hf.2 c hc
  exact ⟨by rw [h1, h2]; exact h.vals, by rw [h2]; exact h.keys⟩

theorem KeyedInv.add {s : World} {c : SetId} {key i : Nat} (h : KeyedInv s c) (hk : lookupKey key (s.keyed c) = none) :
    KeyedInv (((s.setKeyed c ((key, i) :: s.keyed c)).setSet c (i :: s.sets c)).setOwner i (some (.set c))) c :=
  ⟨by simp [h.vals], by simpa [h.keys] using lookupKey_eq_none_iff.1 hk⟩

theorem KeyedInv.remove {s : World} {c : SetId} {key i : Nat} (h : KeyedInv s c) (hnd : (s.sets c).Nodup)
    (hk : lookupKey key (s.keyed c) = some i) :
    KeyedInv (((s.setOwner i none).setSet c ((s.sets c).erase i)).setKeyed c (delKey key (s.keyed c))) c :=
  ⟨by simpa [h.vals] using map_snd_delKey h.keys hk (h.vals ▸ hnd),
   by simpa using List.Nodup.sublist ((delKey_sublist key _).map Prod.fst) h.keys⟩

/-! ## fit sets agree with the fits' back-references -/

structure BackInv (mem : Nat → List Nat) (back : Nat → Option Nat) : Prop where
  iff : ∀ g f, f ∈ mem g ↔ back f = some g
  nodup : ∀ g, (mem g).Nodup

theorem BackInv.add {mem : Nat → List Nat} {back : Nat → Option Nat} (h : BackInv mem back) {g f : Nat}
    (hf : back f = none) : BackInv (upd mem g (f :: mem g)) (upd back f (some g)) := by
  have hnot : ∀ g', f ∉ mem g' := fun g' hm => by simpa [hf] using (h.iff g' f).1 hm
  refine ⟨fun g' f' => ?_, fun g' => ?_⟩
  · simp only [upd_apply]
    by_cases hg : g' = g <;> by_cases hff : f' = f
    · simp [hg, hff]
    · simp [hg, hff, h.iff]
    · simp only [hg, hff, if_false, if_true, Option.some.injEq]
      exact ⟨fun hm => absurd hm (hnot g'), fun e => absurd e.symm hg⟩
    · simp [hg, hff, h.iff]
  · simp only [upd_apply]
    split
    · exact List.nodup_cons.2 ⟨hnot g, h.nodup g⟩
    · exact h.nodup g'

theorem BackInv.remove {mem : Nat → List Nat} {back : Nat → Option Nat} (h : BackInv mem back) {g f : Nat}
    (hf : f ∈ mem g) : BackInv (upd mem g ((mem g).erase f)) (upd back f none) := by
  have hb := (h.iff g f).1 hf
  refine ⟨fun g' f' => ?_, fun g' => ?_⟩
  · simp only [upd_apply]
    by_cases hg : g' = g <;> by_cases hff : f' = f
    · simp [hg, hff, (h.nodup g).mem_erase_iff]
    · simp [hg, hff, (h.nodup g).mem_erase_iff, h.iff]
    · simp only [hg, hff, if_false, if_true, reduceCtorEq, iff_false]
      intro hm
      have := (h.iff g' f).1 hm
      rw [hb] at this
      exact hg (Option.some.inj this).symm
    · simp [hg, hff, h.iff]
  · simp only [upd_apply]
    split
    · exact (h.nodup g).erase f
    · exact h.nodup g'

theorem BackInv.clear {mem : Nat → List Nat} {back : Nat → Option Nat} (h : BackInv mem back) (g : Nat) :
    BackInv (upd mem g []) (fun f => if f ∈ mem g then none else back f) := by
  refine ⟨fun g' f' => ?_, fun g' => ?_⟩
  · simp only [upd_apply]
    by_cases hg : g' = g
    · by_cases hm : f' ∈ mem g
      · simp [hg, hm]
      · simp only [hg, if_true, List.not_mem_nil, hm, if_false, false_iff]
        exact fun e => hm ((h.iff g f').2 e)
    · by_cases hm : f' ∈ mem g
      · have := (h.iff g f').1 hm
        simp only [hg, if_false, hm, if_true, reduceCtorEq, iff_false]
        intro hm'
        have h2 := (h.iff g' f').1 hm'
        rw [this] at h2
        exact hg (Option.some.inj h2).symm
      · simp [hg, hm, h.iff]
  · simp only [upd_apply]
    split
    · exact List.nodup_nil
    · exact h.nodup g'

/-! ## the invariant of reachable worlds -/

structure Inv (U : Univ) (s : World) : Prop where
  own : OwnInv s
  tu : ∀ f, KeyedInv s (.skills f) ∧ ∀ e ∈ s.keyed (.skills f), e.1 = U.tid e.2
  dict : ∀ m, KeyedInv s (.auto m)
  ss : BackInv s.ssFits s.fitSs
  fl : BackInv s.flFits s.fitFl

theorem Inv.empty (U : Univ) : Inv U World.empty where
  own := OwnInv.empty
  tu := fun _ => ⟨⟨rfl, List.nodup_nil⟩, fun _ h => by simp [World.empty] at h⟩
  dict := fun _ => ⟨rfl, List.nodup_nil⟩
  ss := ⟨fun _ _ => by simp [World.empty], fun _ => List.nodup_nil⟩
  fl := ⟨fun _ _ => by simp [World.empty], fun _ => List.nodup_nil⟩

/-- In `fit.skills` an item is filed under its own type id. -/
theorem Inv.tu_lookup {U : Univ} {s : World} (h : Inv U s) {f i : Nat} (hi : i ∈ s.sets (.skills f)) :
    lookupKey (U.tid i) (s.keyed (.skills f)) = some i := by
  obtain ⟨hk, hkey⟩ := h.tu f
  rw [← hk.vals, List.mem_map] at hi
  obtain ⟨⟨k, v⟩, hm, rfl⟩ := hi
  have := hkey _ hm
  simp only at this
  exact mem_lookupKey hk.keys (this ▸ hm)

end Eos.Containers

