import EosProofs.Lemmas.MicroSettle
/-! Settled message-level states of universes **with** fleet boosts.

`Lemmas/MicroSettle.lean` compares the message-level calculation in the specification's derived dynamic state
`derivedDyn u cfg` with `World.gather` / `World.valueOf` for universes without buff effects.  A fleet boost is
not derivable from the configuration alone: its recorded targets are the ships of the booster's fleet and its
warfare-buff modifiers (`Dyn.bspecs`) are built from attribute *values* (the buff id attributes select the
templates).  Here the dynamic state is `derivedDyn` on loaded items, running effects and the recorded targets
of ordinary effects, and carries, for every running fleet-boost effect, the payload the specification computes
under a reference reader `R` (`BuffPayloadFor`; with `R` the public read of the specification's table this is
`BuffPayloadOK` of `Lemmas/MicroBuffTable.lean`).

* `gatherD_buff_perm` — both gatherings succeed with permuted lists or both fail with reader errors, for any
  reader that agrees with `R` on the buff id attributes whenever a buff template targets the attribute;
* `valueOfD_buff_cases` / `valueOfD_buff_eq` — the values agree. -/
namespace Eos.Micro
open Eos.World Eos.Calc

variable {u : Universe} {cfg : Config}

/-! ## States that agree with the derived one on loaded items and running effects -/

theorem typeOf?_congr {d d' : Dyn} (hl : d.loaded = d'.loaded) (a : Item) : typeOf? u d a = typeOf? u d' a := by
  unfold typeOf?; rw [hl]

theorem running_congr {d d' : Dyn} (hl : d.loaded = d'.loaded) (ho : d.on = d'.on) (a : Item) :
    running u d a = running u d' a := by
  unfold running typeEffects typeOf?; rw [hl, ho]

theorem immuneOf_congr {d d' : Dyn} (hl : d.loaded = d'.loaded) (immune : List Int) (a : Item) :
    immuneOf u d immune a = immuneOf u d' immune a := by
  unfold immuneOf; rw [typeOf?_congr hl]

theorem targetsOf_congr {d d' : Dyn} {a : Item} {e : Effect} (h : d.tgts a.id e.id = d'.tgts a.id e.id) :
    targetsOf cfg d a e = targetsOf cfg d' a e := by
  unfold targetsOf; rw [h]

/-! ## The specification's warfare-buff modifiers -/

/-- The buff id attributes (they select the templates; the value attributes are modifier sources). -/
def buffIdAttrs : List Int := [2468, 2470, 2472, 2536]

/-- `buffModifiers` reads the buff id attributes of the carrier only. -/
theorem buffModifiers_congr {rd rd' : Reader} {a : Item} (h : ∀ p ∈ buffIdAttrs, rd a p = rd' a p) :
    buffModifiers u rd a = buffModifiers u rd' a := by
  unfold buffModifiers
  refine foldlM_congr_mem _ (fun acc p hp => ?_) _
  have : p.1 ∈ buffIdAttrs := by
    simp only [List.mem_cons, List.not_mem_nil, or_false] at hp
    rcases hp with rfl | rfl | rfl | rfl <;> simp [buffIdAttrs]
  rw [h p.1 this]

/-- Every modifier the specification builds from a template is well-formed payload. -/
theorem buffModifiers_ok {rd : Reader} {a : Item} {bms : List Modifier}
    (h : buffModifiers u rd a = .ok bms) : ∀ m ∈ bms, bspecOK u m = true := by
  unfold buffModifiers at h
  refine foldlM_except_inv (fun acc => ∀ m ∈ acc, bspecOK u m = true) _ _ [] bms
    (fun _ hm => by cases hm) ?_ h
  intro acc p acc' hp hacc hf
  split at hf
  · cases hf
    intro m hm
    rcases List.mem_append.1 hm with hm | hm
    · exact hacc m hm
    · obtain ⟨bt, hbt, rfl⟩ := List.mem_map.1 hm
      have hbt' : bt ∈ u.buffs := (List.mem_filter.1 hbt).1
      refine bspecOK_iff.2 ⟨rfl, ?_, List.any_eq_true.2 ⟨bt, hbt', by simp⟩⟩
      simp only [List.mem_cons, List.not_mem_nil, or_false] at hp
      rcases hp with rfl | rfl | rfl | rfl <;> simp [buffAttrs]
  · cases hf; exact hacc
  · cases hf

/-- The warfare-buff modifiers `World.gather` uses for attribute `attr`: none unless a template targets it. -/
def bmsW (u : Universe) (rd : Reader) (attr : Int) (a : Item) : Except Val (List Modifier) :=
  if u.buffs.any (·.tgtAttr == attr) then buffModifiers u rd a else pure []

/-- A reader that agrees with the reference reader on the buff id attributes (when a template targets `attr`)
gets, as far as modifiers of `attr` are concerned, the reference reader's warfare-buff modifiers. -/
theorem bmsW_of_ref {rd R : Reader} {attr : Int} {a : Item} {bms : List Modifier}
    (hag : u.buffs.any (·.tgtAttr == attr) = true → ∀ p ∈ buffIdAttrs, rd a p = R a p)
    (hR : buffModifiers u R a = .ok bms) :
    ∃ B, bmsW u rd attr a = .ok B ∧ B.filter (·.tgtAttr == attr) = bms.filter (·.tgtAttr == attr) := by
  unfold bmsW
  cases hany : u.buffs.any (·.tgtAttr == attr) with
  | true => exact ⟨bms, by rw [if_pos rfl, buffModifiers_congr (hag hany), hR], rfl⟩
  | false =>
    refine ⟨[], by simp [pure, Except.pure], ?_⟩
    symm
    rw [List.filter_nil, List.filter_eq_nil_iff]
    intro m hm hmt
    have := (bspecOK_iff.1 (buffModifiers_ok hR m hm)).2.2
    rw [show m.tgtAttr = attr by simpa using hmt, hany] at this
    cases this

/-! ## `World.gather` with fleet boosts as one fold over specs -/

/-- The specs `World.gather` walks through for the fleet-boost part of a running buff effect `e` of `a`,
given the warfare-buff modifiers `bms`: per boosted ship the warfare-buff modifiers, then the effect's own
target-domain modifiers. -/
def boostSpecsW (cfg : Config) (x : Item) (tx : ItemType) (attr : Int) (bms : List Modifier) (a : Item)
    (e : Effect) : List Spec :=
  (boostTargets cfg a.fit).flatMap fun tg =>
    ((bms ++ e.mods.filter (·.domain == 4)).filter fun m =>
      m.tgtAttr == attr && affectsProjected cfg a m tg x tx).map fun m => ⟨a, e, m, some tg⟩

theorem except_ok_bind {ε α β : Type} (a : α) (f : α → Except ε β) : ((Except.ok a : Except ε α) >>= f) = f a := rfl

theorem effStep_eq_fold_buff {immune : List Int} {rd : Reader} {x : Item} {tx : ItemType} {attr : Int} {a : Item}
    {ta : ItemType} (hta : itemType? u cfg a = some ta) {e : Effect} (hbf : e.isBuff = true)
    {bms : List Modifier} (hbms : bmsW u rd attr a = .ok bms) (acc : List Mod) :
    effStep u cfg immune rd x tx attr a ta acc e =
      (specsW cfg x tx attr a e ++ boostSpecsW cfg x tx attr bms a e).foldlM
        (stepS (specOut cfg rd x (immW u cfg immune))) acc := by
  unfold bmsW at hbms
  unfold effStep specsW boostSpecsW
  simp only [hbf, if_true, hbms, List.foldlM_append, List.foldlM_map, foldlM_flatMap, stepS_eq_mkMod hta,
    except_ok_bind, bind_assoc]
  rfl

/-- `World.gather` is one fold over the specs of all running effects, given the warfare-buff modifiers
`B a` of every carrier of a running buff effect. -/
theorem gather_eq_fold_buff (immune : List Int) (rd : Reader) (x : Item) (tx : ItemType) (attr : Int)
    (B : Item → List Modifier)
    (hB : ∀ a ∈ cfg.items, ∀ e ∈ runningEffects u cfg a, e.isBuff = true → bmsW u rd attr a = .ok (B a)) :
    gather u cfg immune rd x tx attr =
      (cfg.items.flatMap fun a => (runningEffects u cfg a).flatMap fun e =>
        specsW cfg x tx attr a e ++ (if e.isBuff then boostSpecsW cfg x tx attr (B a) a e else [])).foldlM
        (stepS (specOut cfg rd x (immW u cfg immune))) [] := by
  rw [gather_eq, foldlM_flatMap]
  refine foldlM_congr_mem _ (fun acc a ha => ?_) _
  cases hta : itemType? u cfg a with
  | none => simp [runningEffects, hta, pure, Except.pure]
  | some ta =>
    rw [foldlM_flatMap]
    refine foldlM_congr_mem _ (fun acc e he => ?_) _
    cases hbf : e.isBuff with
    | false => rw [effStep_eq_fold hta hbf]; simp
    | true => rw [effStep_eq_fold_buff hta hbf (hB a ha e he hbf)]; simp

/-! ## The settled dynamic state of a universe with fleet boosts -/

/-- Every ship the specification boosts is what its id resolves to. -/
theorem boostTargets_item {f : Nat} {t : Item} (h : t ∈ boostTargets cfg f) : item? cfg t.id = some t := by
  unfold boostTargets at h
  obtain ⟨g, _, hg⟩ := List.mem_filterMap.1 h
  split at hg
  · obtain ⟨i, _, hi⟩ := Option.bind_eq_some_iff.1 hg
    have hid : t.id = i := by simpa using List.find?_some hi
    rw [hid]; exact hi
  · cases hg

/-- **Payload of the fleet boosts**, relative to a reference reader `R`: for every configured (hence loaded)
item `a` with a running fleet-boost effect `e`, the registered warfare-buff modifiers are (a permutation of)
the specification's `buffModifiers` of `a` under `R`, and the recorded targets are (a permutation of) the
ships the specification boosts: the ship of `a`'s fit and the ships of the fits in the same fleet — unless the
projector has no projected modifier at all (no template for its buff ids, no buff id attribute, no
target-domain modifier of its own): the service publishes `EffectApplied` per buff id attribute that has
templates, so for such a boost it records no targets, and none matter. -/
def BuffPayloadFor (u : Universe) (cfg : Config) (R : Reader) (d : Dyn) : Prop :=
  ∀ a ∈ cfg.items, ∀ e ∈ runningEffects u cfg a, e.isBuff = true →
    (∃ bms, buffModifiers u R a = .ok bms ∧ (d.bspecs a.id e.id).Perm bms) ∧
    (projMods u d a e = [] ∨ (d.tgts a.id e.id).Perm ((boostTargets cfg a.fit).map (·.id)))

/-- A settled dynamic state of a universe with fleet boosts: the derived state on loaded items, running
effects and the recorded targets of ordinary effects; the specification's payload for the boosts. -/
structure BuffSettledFor (u : Universe) (cfg : Config) (R : Reader) (d : Dyn) : Prop where
  loaded : d.loaded = (derivedDyn u cfg).loaded
  on : d.on = (derivedDyn u cfg).on
  tgts : ∀ a ∈ cfg.items, ∀ e ∈ runningEffects u cfg a, e.isBuff = false →
    d.tgts a.id e.id = (derivedDyn u cfg).tgts a.id e.id
  payload : BuffPayloadFor u cfg R d

/-- Without buff effects the derived state itself is settled in this sense (whatever the reference reader). -/
theorem buffSettledFor_derived (hb : ∀ e ∈ u.effects, e.isBuff = false) (R : Reader) :
    BuffSettledFor u cfg R (derivedDyn u cfg) where
  loaded := rfl
  on := rfl
  tgts := fun _ _ _ _ _ => rfl
  payload := fun _ _ e he hbf => by rw [hb e (runningEffects_mem he)] at hbf; cases hbf

section settled
variable {R : Reader} {d : Dyn}

theorem running_settled (hc : UniqueIds cfg) (hd : BuffSettledFor u cfg R d) {a : Item} (ha : a ∈ cfg.items) :
    running u d a = runningEffects u cfg a := by
  rw [running_congr hd.loaded hd.on, running_derived hc ha]

theorem typeOf?_settled (hc : UniqueIds cfg) (hd : BuffSettledFor u cfg R d) {a : Item} (ha : a ∈ cfg.items) :
    typeOf? u d a = itemType? u cfg a := by
  rw [typeOf?_congr hd.loaded, typeOf?_derived hc ha]

theorem immuneOf_settled (hc : UniqueIds cfg) (hd : BuffSettledFor u cfg R d) (immune : List Int) {a : Item}
    (ha : a ∈ cfg.items) : immuneOf u d immune a = immW u cfg immune a := by
  rw [immuneOf_congr hd.loaded, immuneOf_derived hc immune ha]

/-- Recorded targets of an ordinary running effect: the item's current target. -/
theorem targetsOf_settled (hc : UniqueIds cfg) (hd : BuffSettledFor u cfg R d) {a : Item} (ha : a ∈ cfg.items)
    {e : Effect} (he : e ∈ runningEffects u cfg a) (hbf : e.isBuff = false) :
    targetsOf cfg d a e = projectionTargets cfg a e := by
  rw [targetsOf_congr (hd.tgts a ha e he hbf)]
  exact targetsOf_derived_running hc ha (by rw [running_derived hc ha]; exact he)

/-- Recorded targets of a running fleet boost: the ships the specification boosts. -/
theorem targetsOf_settled_buff {a : Item} {e : Effect}
    (hp : (d.tgts a.id e.id).Perm ((boostTargets cfg a.fit).map (·.id))) :
    (targetsOf cfg d a e).Perm (boostTargets cfg a.fit) := by
  have h := hp.filterMap (item? cfg)
  unfold targetsOf
  refine h.trans (List.Perm.of_eq ?_)
  rw [List.filterMap_map]
  rw [List.filterMap_congr (g := some) (fun t ht => by simpa using boostTargets_item ht), List.filterMap_some]

end settled

/-! ## The settled spec list is a permutation of the specification's -/

section perm
variable {R : Reader} {d : Dyn} {x : Item} {tx : ItemType} {attr : Int}

/-- One boosted ship: the projected modifiers of a running boost that act on `(x, attr)` through it. -/
theorem projMods_filter_perm {a : Item} {e : Effect} (hbf : e.isBuff = true) {bms B : List Modifier}
    (hp : (d.bspecs a.id e.id).Perm bms) (hok : ∀ m ∈ bms, bspecOK u m = true)
    (hB : B.filter (·.tgtAttr == attr) = bms.filter (·.tgtAttr == attr)) (t : Item) :
    (((projMods u d a e).map fun m => (⟨a, e, m, some t⟩ : Spec)).filter
        fun s => s.m.tgtAttr == attr && selects cfg s x tx).Perm
      (((B ++ e.mods.filter (·.domain == 4)).filter fun m =>
        m.tgtAttr == attr && affectsProjected cfg a m t x tx).map fun m => ⟨a, e, m, some t⟩) := by
  rw [List.filter_map]
  refine List.Perm.map _ ?_
  have hF : ∀ m : Modifier, m.domain = 4 →
      ((fun s : Spec => s.m.tgtAttr == attr && selects cfg s x tx) ∘ fun m => (⟨a, e, m, some t⟩ : Spec)) m =
        (m.tgtAttr == attr && affectsProjected cfg a m t x tx) := by
    intro m hm
    simp [Function.comp, selects, hm]
  unfold projMods
  rw [if_pos hbf, List.filter_append, List.filter_append]
  refine (List.perm_append_comm).trans (List.Perm.append ?_ (List.Perm.of_eq ?_))
  · -- the payload part
    have h1 : ((d.bspecs a.id e.id).filter (bspecOK u)).Perm bms := by
      refine (hp.filter _).trans (List.Perm.of_eq ?_)
      exact List.filter_eq_self.2 hok
    refine (h1.filter _).trans (List.Perm.of_eq ?_)
    rw [List.filter_congr (q := fun m => m.tgtAttr == attr && affectsProjected cfg a m t x tx)
      (fun m hm => hF m (bspecOK_iff.1 (hok m hm)).1)]
    have split : ∀ l : List Modifier, l.filter (fun m => m.tgtAttr == attr && affectsProjected cfg a m t x tx) =
        (l.filter (·.tgtAttr == attr)).filter (fun m => affectsProjected cfg a m t x tx) := by
      intro l; rw [List.filter_filter]; exact List.filter_congr fun m _ => Bool.and_comm _ _
    rw [split bms, split B, hB]
  · exact List.filter_congr fun m hm => hF m (by simpa using (List.mem_filter.1 hm).2)

/-- Per carrier item: the settled specs that act on `(x, attr)` are the specification's. -/
theorem specs_item_perm_buff (hc : UniqueIds cfg) (hnp : ∀ e ∈ u.effects, e.isBuff = true → e.category ≠ 2)
    (hd : BuffSettledFor u cfg R d) {a : Item} (ha : a ∈ cfg.items) {B : List Modifier}
    (hB : ∀ e ∈ runningEffects u cfg a, e.isBuff = true → ∀ bms, buffModifiers u R a = .ok bms →
      B.filter (·.tgtAttr == attr) = bms.filter (·.tgtAttr == attr)) :
    ((localSpecs u d a ++ projSpecs u cfg d a).filter fun s => s.m.tgtAttr == attr && selects cfg s x tx).Perm
      ((runningEffects u cfg a).flatMap fun e =>
        specsW cfg x tx attr a e ++ (if e.isBuff then boostSpecsW cfg x tx attr B a e else [])) := by
  have hrun := running_settled hc hd ha
  have hl : (localSpecs u d a).filter (fun s => s.m.tgtAttr == attr && selects cfg s x tx) =
      (runningEffects u cfg a).flatMap fun e =>
        (e.mods.filter fun m => m.tgtAttr == attr && affectsLocal cfg a m x tx).map fun m => ⟨a, e, m, none⟩ := by
    unfold localSpecs
    rw [hrun, List.filter_flatMap]
    exact List.flatMap_congr fun e _ => filter_local a e
  have hp : ((projSpecs u cfg d a).filter (fun s => s.m.tgtAttr == attr && selects cfg s x tx)).Perm
      ((runningEffects u cfg a).flatMap fun e => ((projectionTargets cfg a e).flatMap fun tg =>
        (e.mods.filter fun m => m.domain == 4 && m.tgtAttr == attr && affectsProjected cfg a m tg x tx).map
          fun m => (⟨a, e, m, some tg⟩ : Spec)) ++
        (if e.isBuff then boostSpecsW cfg x tx attr B a e else [])) := by
    unfold projSpecs
    rw [List.filter_flatMap, hrun]
    refine List.Perm.flatMap_left _ fun e he => ?_
    cases hbf : e.isBuff with
    | false =>
      rw [targetsOf_settled hc hd ha he hbf, projMods_of_not_buff a hbf]
      simp only [Bool.or_false, Bool.false_eq_true, if_false, List.append_nil]
      refine List.Perm.of_eq ?_
      split
      · rw [List.filter_flatMap]
        exact List.flatMap_congr fun t _ => filter_proj a e t
      · rename_i hcat
        simp [projectionTargets, hcat]
    | true =>
      have hcat : (e.category == 2) = false := by
        simpa using hnp e (runningEffects_mem he) hbf
      obtain ⟨⟨bms, hR, hperm⟩, htg⟩ := hd.payload a ha e he hbf
      simp only [Bool.or_true, if_true, projectionTargets, hcat, Bool.false_eq_true, if_false,
        List.flatMap_nil, List.nil_append]
      rw [List.filter_flatMap]
      unfold boostSpecsW
      rcases htg with hnil | htg
      · -- no projected modifier at all: nothing on either side, whatever targets are recorded
        have hnil' := hnil
        unfold projMods at hnil'
        rw [if_pos hbf, List.append_eq_nil_iff] at hnil'
        have hbms : bms = [] := by
          have h1 : ((d.bspecs a.id e.id).filter (bspecOK u)).Perm bms :=
            (hperm.filter _).trans (List.Perm.of_eq (List.filter_eq_self.2 (buffModifiers_ok hR)))
          rw [hnil'.2] at h1
          exact h1.nil_eq.symm
        have hBnil : B.filter (·.tgtAttr == attr) = [] := by rw [hB e he hbf bms hR, hbms]; rfl
        have hW : ∀ t : Item, (B ++ e.mods.filter (·.domain == 4)).filter
            (fun m => m.tgtAttr == attr && affectsProjected cfg a m t x tx) = [] := by
          intro t
          rw [hnil'.1, List.append_nil, List.filter_eq_nil_iff]
          intro m hm hpm
          simp only [Bool.and_eq_true] at hpm
          exact List.filter_eq_nil_iff.1 hBnil m hm hpm.1
        simp only [hnil, hW, List.map_nil, List.filter_nil]
        rw [List.flatMap_eq_nil_iff.2 (fun _ _ => rfl), List.flatMap_eq_nil_iff.2 (fun _ _ => rfl)]
      · refine ((targetsOf_settled_buff htg).flatMap_right _).trans ?_
        exact List.Perm.flatMap_left _ fun t _ =>
          projMods_filter_perm hbf hperm (buffModifiers_ok hR) (hB e he hbf bms hR) t
  rw [List.filter_append, hl]
  refine (List.Perm.append_left _ hp).trans ?_
  refine (List.flatMap_append_perm _ _ _).trans (List.Perm.of_eq ?_)
  refine List.flatMap_congr fun e _ => ?_
  unfold specsW
  rw [List.append_assoc]

end perm

/-! ## Gathering and values -/

section values
variable {R : Reader} {d : Dyn}

/-- The reader `rd` agrees with the reference reader on the buff id attributes of every configured item,
provided some buff template targets `attr` (otherwise the specification does not read them). -/
def AgreesOnBuffIds (u : Universe) (cfg : Config) (rd R : Reader) (attr : Int) : Prop :=
  u.buffs.any (·.tgtAttr == attr) = true → ∀ a ∈ cfg.items, ∀ p ∈ buffIdAttrs, rd a p = R a p

/-- The warfare-buff modifiers the specification uses for `attr` under `rd` (nothing when it fails). -/
def bmsOf (u : Universe) (rd : Reader) (attr : Int) (a : Item) : List Modifier :=
  match bmsW u rd attr a with
  | .ok B => B
  | .error _ => []

theorem bmsOf_spec {rd : Reader} {attr : Int} (hd : BuffSettledFor u cfg R d)
    (hag : AgreesOnBuffIds u cfg rd R attr) {a : Item} (ha : a ∈ cfg.items) {e : Effect}
    (he : e ∈ runningEffects u cfg a) (hbf : e.isBuff = true) :
    bmsW u rd attr a = .ok (bmsOf u rd attr a) ∧
      ∀ bms, buffModifiers u R a = .ok bms →
        (bmsOf u rd attr a).filter (·.tgtAttr == attr) = bms.filter (·.tgtAttr == attr) := by
  obtain ⟨⟨bms, hR, _⟩, _⟩ := hd.payload a ha e he hbf
  obtain ⟨B, hB1, hB2⟩ := bmsW_of_ref (rd := rd) (attr := attr) (fun hany => hag hany a ha) hR
  have hof : bmsOf u rd attr a = B := by unfold bmsOf; rw [hB1]
  refine ⟨by rw [hof, hB1], fun bms' hR' => ?_⟩
  rw [hR] at hR'; cases hR'
  rw [hof, hB2]

theorem specsOn_settled_perm (hc : UniqueIds cfg) (hnp : ∀ e ∈ u.effects, e.isBuff = true → e.category ≠ 2)
    (hd : BuffSettledFor u cfg R d) {rd : Reader} {x : Item} {tx : ItemType} {attr : Int}
    (hag : AgreesOnBuffIds u cfg rd R attr) :
    (specsOn u cfg d x tx attr).Perm
      (cfg.items.flatMap fun a => (runningEffects u cfg a).flatMap fun e =>
        specsW cfg x tx attr a e ++
          (if e.isBuff then boostSpecsW cfg x tx attr (bmsOf u rd attr a) a e else [])) := by
  unfold specsOn allSpecs
  rw [List.filter_flatMap]
  exact List.Perm.flatMap_left _ fun a ha => specs_item_perm_buff hc hnp hd ha
    fun e he hbf => (bmsOf_spec hd hag ha he hbf).2

/-- **Gathering with fleet boosts.**  In a settled state with the specification's boost payload under `R`,
for a reader that agrees with `R` on the buff id attributes: the message-level gathering and the
specification's both succeed, with permuted lists of modifications, or both fail, each with an error answer
of the reader.  No hypothesis on buff effects other than that a fleet boost is not also a projectable
(targeted) effect. -/
theorem gatherD_buff_perm (hc : UniqueIds cfg) (hnp : ∀ e ∈ u.effects, e.isBuff = true → e.category ≠ 2)
    (hd : BuffSettledFor u cfg R d) (immune : List Int) (rd : Reader) (x : Item) (tx : ItemType) (attr : Int)
    (hag : AgreesOnBuffIds u cfg rd R attr) :
    (∃ l l', gatherD u cfg d immune rd x tx attr = .ok l ∧
      gather u cfg immune rd x tx attr = .ok l' ∧ l.Perm l') ∨
    (∃ w w', gatherD u cfg d immune rd x tx attr = .error w ∧
      gather u cfg immune rd x tx attr = .error w' ∧ IsErrOf rd w ∧ IsErrOf rd w') := by
  rw [gatherD_eq_fold, gather_eq_fold_buff immune rd x tx attr (bmsOf u rd attr)
    (fun a ha e he hbf => (bmsOf_spec hd hag ha he hbf).1)]
  have ho : ∀ s ∈ specsOn u cfg d x tx attr,
      specOut cfg rd x (immuneOf u d immune) s = specOut cfg rd x (immW u cfg immune) s := by
    intro s hs
    unfold specOut
    rw [immuneOf_settled hc hd immune (specsOn_mem hs).1]
  rcases foldlM_stepS_perm (specsOn_settled_perm (x := x) (tx := tx) hc hnp hd hag) ho with
    h | ⟨w, w', h1, h2, ⟨_, _, e1⟩, ⟨_, _, e2⟩⟩
  · exact Or.inl h
  · exact Or.inr ⟨w, w', h1, h2, specOut_err e1, specOut_err e2⟩

/-- The message-level value of `(x, am)` is the specification's value, except that when both gatherings fail
the two may report different error answers of the reader. -/
theorem valueOfD_buff_cases (hc : UniqueIds cfg) (hnp : ∀ e ∈ u.effects, e.isBuff = true → e.category ≠ 2)
    (hd : BuffSettledFor u cfg R d) (immune limited : List Int) (pen : Nat → Rat) (rd : Reader) {x : Item}
    (hx : x ∈ cfg.items) (am : AttrMeta) (hag : AgreesOnBuffIds u cfg rd R am.id) :
    valueOfD u cfg d immune limited pen rd x am = valueOf u cfg immune limited pen rd x am ∨
    (IsErrOf rd (valueOfD u cfg d immune limited pen rd x am) ∧
      IsErrOf rd (valueOf u cfg immune limited pen rd x am)) := by
  rw [valueOf_eq]
  unfold valueOfD
  split
  · exact Or.inl rfl
  · rw [typeOf?_settled hc hd hx]
    cases itemType? u cfg x with
    | none => exact Or.inl rfl
    | some tx =>
      dsimp only
      rw [show World.baseOf tx am = Micro.baseOf tx am from rfl]
      cases Micro.baseOf tx am with
      | none => exact Or.inl rfl
      | some b =>
        rcases gatherD_buff_perm hc hnp hd immune rd x tx am.id hag with
          ⟨l, l', h1, h2, hp⟩ | ⟨w, w', h1, h2, e1, e2⟩
        · left
          simp only [h1, h2, capOf, calculate_perm' pen am.stackable am.hig b hp]
          rfl
        · simp only [h1, h2]
          exact Or.inr ⟨e1, e2⟩

/-- As values: equal when the reader yields at most one kind of error. -/
theorem valueOfD_buff_eq (hc : UniqueIds cfg) (hnp : ∀ e ∈ u.effects, e.isBuff = true → e.category ≠ 2)
    (hd : BuffSettledFor u cfg R d) (immune limited : List Int) (pen : Nat → Rat) (rd : Reader)
    (hrd : ∀ y a y' a', rd y a = .divZero → rd y' a' = .notWF → False)
    {x : Item} (hx : x ∈ cfg.items) (am : AttrMeta) (hag : AgreesOnBuffIds u cfg rd R am.id) :
    valueOfD u cfg d immune limited pen rd x am = valueOf u cfg immune limited pen rd x am := by
  rcases valueOfD_buff_cases hc hnp hd immune limited pen rd hx am hag with
    h | ⟨⟨h1, y, a, r1⟩, ⟨h2, y', a', r2⟩⟩
  · exact h
  · rcases h1 with h1 | h1 <;> rcases h2 with h2 | h2
    · rw [h1, h2]
    · exact (hrd y a y' a' (r1.trans h1) (r2.trans h2)).elim
    · exact (hrd y' a' y a (r2.trans h2) (r1.trans h1)).elim
    · rw [h1, h2]

end values

end Eos.Micro
