import EosModel.EffectStatusSpec
import EosGen.EffectStatusTable1
/-! C05: the regenerated decision rows for item state `offline` are the rows of the specification's keys, in
order, with the specified outcome (kernel evaluation over the complete part; one file per state so the
four checks run in parallel). -/
namespace Eos.C05
open Eos.EffectStatus

theorem parts1_ok : partsOk EosGen.EffectStatusTable.parts1 (keyPartsOf .offline) = true := by decide +kernel

end Eos.C05
